#!/bin/bash
# Build the framework from files on disk only (offline): the Coq development (full .vo build)
# and the Rust correspondence harness (against /repo's working tree, hooks on).
set -e
cd "$(dirname "$0")"
export CARGO_NET_OFFLINE=true
mkdir -p build
( cd coq && coq_makefile -f _CoqProject -o Makefile >/dev/null && timeout 3000 make -j16 >../build/coq_build.log 2>&1 ) || { tail -50 build/coq_build.log; exit 1; }
[ -f harness/Cargo.lock ] || cp /repo/Cargo.lock harness/Cargo.lock
( cd harness && timeout 3000 cargo build --offline --quiet 2>../build/harness_build.log ) || { tail -50 build/harness_build.log; exit 1; }
echo "setup ok"
