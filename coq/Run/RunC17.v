From SV Require Import Model.Base Model.LeapArray Model.Config Run.Common.
Open Scope N_scope.

Definition agree (co : stat_cfg * list Z) : bool := zlist_eqb (cfg_obs (fst co)) (snd co).

(** C17 on the implementation's observations: accepted iff the model's validation accepts
    (proved equivalent to servability); if accepted, both threads read the offered values, both
    builds succeed and both nodes have the configured geometry *)
Definition spec_c17 (co : stat_cfg * list Z) : bool :=
  let c := fst co in
  match snd co with
  | 0%Z :: rest => negb (cfg_check c) && zlist_eqb rest (cfg_values default_stat_cfg)   (* a rejected configuration changes nothing *)
  | 1%Z :: rest =>
      cfg_check c &&
      zlist_eqb rest (cfg_values c ++ cfg_values c ++ cfg_values c ++
                      [0%Z; zN (sc_metric c); zN (iv_metric c); zN (sc_total c); zN (iv_total c)] ++
                      [0%Z; zN (sc_metric c); zN (iv_metric c); zN (sc_total c); zN (iv_total c)])
  | _ => false
  end.
