(** Correspondence entry point for the hotspot model (serves C05 hotspot part, C06, C07). *)
From SV Require Import Model.Base Model.Hotspot Run.Common.
Open Scope N_scope.

Record hcase := mkHCase { hc_base : N; hc_rules : list hrule; hc_ops : list hcmd }.

Definition zN (n : N) : Z := Z.of_N n.

Fixpoint find_rule (id : N) (l : list hrule) : option hrule :=
  match l with [] => None | r :: tl => if h_id r =? id then Some r else find_rule id tl end.

Fixpoint mem_N (x : N) (l : list N) : bool :=
  match l with [] => false | y :: tl => (x =? y) || mem_N x tl end.
Fixpoint nodup_N (l : list N) : bool :=
  match l with [] => true | x :: tl => negb (mem_N x tl) && nodup_N tl end.

(** the manager holds exactly the given rules (the generator gives valid, pairwise different
    rules), in the order observed *)
Definition arrange (given : list hrule) (seen : list N) : option (list hrule) :=
  if (length given =? length seen)%nat && nodup_N seen && forallb (fun r => mem_N (h_id r) seen) given
  then Some (flat_map (fun id => match find_rule id given with Some r => [r] | None => [] end) seen)
  else None.

Definition take_ids (obs : list Z) : option (list N * list Z) :=
  match obs with
  | [] => None
  | n :: tl => let k := Z.to_nat n in
               if (Nat.leb k (length tl)) then Some (map Z.to_N (firstn k tl), skipn k tl) else None
  end.

Definition enc (base : N) (o : hobs) : list Z :=
  match o with
  | HOAdmit t => [0%Z; zN (t - base)]
  | HOBlock r s t => [1%Z; zN r; zN s; zN (t - base)]
  | HOExited => [2%Z]
  | HONoEntry => [20%Z]
  | HOTick => [3%Z]
  | HOHang => [(-9)%Z]
  end.

Fixpoint decode_h (base : N) (ops : list hcmd) (obs : list Z) : option (list hobs) :=
  match ops with
  | [] => match obs with [] => Some [] | _ => None end
  | x :: ops' =>
      match x, obs with
      | HB _ _ _ _, 0%Z :: t :: tl => option_map (cons (HOAdmit (base + Z.to_N t))) (decode_h base ops' tl)
      | HB _ _ _ _, 1%Z :: r :: s :: t :: tl =>
          option_map (cons (HOBlock (Z.to_N r) (Z.to_N s) (base + Z.to_N t))) (decode_h base ops' tl)
      | HX _, 2%Z :: tl => option_map (cons HOExited) (decode_h base ops' tl)
      | HX _, 20%Z :: tl => option_map (cons HONoEntry) (decode_h base ops' tl)
      | HA _, 3%Z :: tl => option_map (cons HOTick) (decode_h base ops' tl)
      | _, _ => None
      end
  end.

Definition prepare_h (co : hcase * list Z) : option (hworld * list Z) :=
  let c := fst co in
  match take_ids (snd co) with
  | None => None
  | Some (ids, rest) =>
      match arrange (hc_rules c) ids with
      | None => None
      | Some rs => Some (mkHW (hc_base c) (map hctl0 rs) [], rest)
      end
  end.

Definition agree (co : hcase * list Z) : bool :=
  match prepare_h co with
  | None => false
  | Some (w, rest) => zlist_eqb (flat_map (enc (hc_base (fst co))) (hrun w (hc_ops (fst co)))) rest
  end.
