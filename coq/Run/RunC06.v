From SV Require Import Model.Base Model.Hotspot Spec.C06Spec Run.Common Run.RunHot.
Open Scope N_scope.

(** requests for one rule as seen in a case (time, value, batch) with the overall decision *)
Fixpoint reqs_of (r : hrule) (now : N) (ops : list hcmd) (obs : list hobs) : list (req * bool) :=
  match ops, obs with
  | HA dt :: ops', _ :: obs' => reqs_of r (now + dt) ops' obs'
  | HB _ args att n :: ops', o :: obs' =>
      let d := match o with HOAdmit _ => true | _ => false end in
      let now' := match o with HOAdmit t | HOBlock _ _ t => t | _ => now end in
      match extract r args att with
      | Some v => ((now, v, n), d) :: reqs_of r now' ops' obs'
      | None => reqs_of r now' ops' obs'
      end
  | _ :: ops', _ :: obs' => reqs_of r now ops' obs'
  | _, _ => []
  end.

Fixpoint values_of (l : list (req * bool)) : list N :=
  match l with [] => [] | ((_, v, _), _) :: tl => v :: values_of tl end.

Fixpoint blist_eqb (a b : list bool) : bool :=
  match a, b with
  | [], [] => true
  | x :: a', y :: b' => Bool.eqb x y && blist_eqb a' b'
  | _, _ => false
  end.

(** C06 on the implementation's trace (cases whose rules are all QPS-reject rules):
    for every rule and value the bound holds for the admitted tokens; with a single rule the
    decisions per value are exactly those of the value's reference bucket. *)
Definition spec_c06 (co : hcase * list Z) : bool :=
  match prepare_h co with
  | None => false
  | Some (w, rest) =>
      let c := fst co in
      match decode_h (hc_base c) (hc_ops c) rest with
      | None => false
      | Some obs =>
          let rules := map hc_rule (hw_ctls w) in
          if negb (forallb (fun r => match h_kind r with HReject => true | _ => false end) rules) then true else
          forallb (fun r =>
            let rd := reqs_of r (hc_base c) (hc_ops c) obs in
            let l := map fst rd in let ds := map snd rd in
            forallb (fun v =>
              bound_ok (thr_of r v) (h_burst r) (h_dur r * 1000) (proj v l) (proj_dec v l ds) &&
              match rules with
              | [_] => blist_eqb (proj_dec v l ds)
                                 (tb_run (thr_of r v) (h_burst r) (h_dur r * 1000) None (proj v l))
              | _ => true
              end) (values_of rd)) rules
      end
  end.
