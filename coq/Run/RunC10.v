From SV Require Import Model.Base Model.Manager Spec.C10Spec Run.Common Run.RunMgr.
Open Scope N_scope.

Definition ref_dup_sensitive (f : refmap) (rs : list rule) : bool :=
  existsb (fun a => existsb (fun b => rule_eqb a b && negb (r_id a =? r_id b))
                            (rs ++ flat_map (rf_given f) (rf_keys f))) rs.

(** what the reference map prescribes for every command (same layout as [mrun]) *)
Fixpoint ref_run (iso : bool) (nres : N) (pool : list rule) (f : refmap) (ops : list mcmd) : list (list Z) :=
  match ops with
  | [] => []
  | x :: tl =>
      match x with
      | CLoadAll ixs => let rs := pick pool ixs in let '(f', r) := rstep iso f (MLoadAll rs) in
                        [if iso then 9%Z else enc_ret r] :: ref_run iso nres pool f' tl
      | CLoadRes res ixs => let rs := pick pool ixs in let '(f', r) := rstep iso f (MLoadRes res rs) in
                            [enc_ret r] :: ref_run iso nres pool f' tl
      | CAppend ix => let rs := pick pool [ix] in
                      match rs with
                      | [r0] => let '(f', r) := rstep iso f (MAppend r0) in
                                [enc_ret r] :: ref_run iso nres pool f' tl
                      | _ => [[(-6)%Z]]
                      end
      | CClear => let '(f', r) := rstep iso f MClear in [enc_ret r] :: ref_run iso nres pool f' tl
      | CClearRes res => let '(f', r) := rstep iso f (MClearRes res) in [enc_ret r] :: ref_run iso nres pool f' tl
      | CGetAll => map zN (classes (flat_map (ref_rules f) (seqN (N.to_nat nres + 1)))) :: ref_run iso nres pool f tl
      | CGetRes res => map zN (classes (ref_rules f res)) :: ref_run iso nres pool f tl
      | CEnforced res => map zN (classes (ref_rules f res)) :: ref_run iso nres pool f tl
      end
  end.

(** C10 on the implementation's trace *)
Definition spec_c10 (co : mcase * list Z) : bool :=
  let c := fst co in
  match split_obs (length (mc_ops c)) (snd co) with
  | None => false
  | Some obs => agree_lists (mc_pool c) (mc_ops c)
                            (ref_run (3 <=? mc_family c) (mc_nres c) (mc_pool c) ref0 (mc_ops c)) obs
  end.
