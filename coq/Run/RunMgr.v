(** Correspondence entry point for the rule-manager model (C10, C11, C12). *)
From SV Require Import Model.Base Model.Manager Run.Common.
Open Scope N_scope.

(** commands of a case; rules are referred to by their index in the pool *)
Inductive mcmd :=
| CLoadAll (ixs : list nat)
| CLoadRes (res : N) (ixs : list nat)
| CAppend (ix : nat)
| CClear
| CClearRes (res : N)
| CGetAll                 (* get_rules *)
| CGetRes (res : N)       (* get_rules_of_resource *)
| CEnforced (res : N).    (* rules of the controllers / breakers actually consulted for entries *)

Record mcase := mkMCase { mc_family : N; mc_pool : list rule; mc_nres : N; mc_ops : list mcmd }.

Definition zN (n : N) : Z := Z.of_N n.
Definition pick (pool : list rule) (ixs : list nat) : list rule :=
  flat_map (fun i => match nth_error pool i with Some r => [r] | None => [] end) ixs.

(** sorted list of eq-classes (res, key) as numbers, to compare rule sets under rule equality *)
Fixpoint insert_sorted (x : N) (l : list N) : list N :=
  match l with [] => [x] | y :: tl => if x <=? y then x :: y :: tl else y :: insert_sorted x tl end.
Definition sort_N (l : list N) : list N := fold_right insert_sorted [] l.
Fixpoint uniq (l : list N) : list N :=
  match l with
  | [] => []
  | x :: tl => match tl with y :: _ => if x =? y then uniq tl else x :: uniq tl | [] => [x] end
  end.
Definition class_of (r : rule) : N := r_res r * 1000000 + r_key r.
Definition classes (l : list rule) : list N := uniq (sort_N (map class_of l)).

Fixpoint seqN (n : nat) : list N := match n with O => [] | S k => seqN k ++ [N.of_nat k] end.

(** does a call involve two rules that are equal but differently identified (within the call,
    or against what the manager was given before)?  Its return value is then not asserted. *)
Definition dup_sensitive (m : mgr) (rs : list rule) : bool :=
  existsb (fun a => existsb (fun b => rule_eqb a b && negb (r_id a =? r_id b))
                            (rs ++ flat_map (m_given m) (m_keys m))) rs.

Definition enc_ret (r : mret) : Z := match r with RTrue => 1 | RFalse => 0 | RErr => 2 | RUnit => 9 end%Z.

(** model output per command: return code (or -5 when not asserted) / class list *)
Fixpoint mrun (iso : bool) (nres : N) (pool : list rule) (m : mgr) (ops : list mcmd) : list (list Z) :=
  match ops with
  | [] => []
  | x :: tl =>
      match x with
      | CLoadAll ixs => let rs := pick pool ixs in let '(m', r) := mstep iso m (MLoadAll rs) in
                        [if iso then 9%Z else enc_ret r] :: mrun iso nres pool m' tl
      | CLoadRes res ixs => let rs := pick pool ixs in let '(m', r) := mstep iso m (MLoadRes res rs) in
                            [enc_ret r] :: mrun iso nres pool m' tl
      | CAppend ix => let rs := pick pool [ix] in
                      match rs with
                      | [r0] => let '(m', r) := mstep iso m (MAppend r0) in
                                [enc_ret r] :: mrun iso nres pool m' tl
                      | _ => [[(-6)%Z]]
                      end
      | CClear => let '(m', r) := mstep iso m MClear in [enc_ret r] :: mrun iso nres pool m' tl
      | CClearRes res => let '(m', r) := mstep iso m (MClearRes res) in [enc_ret r] :: mrun iso nres pool m' tl
      | CGetAll => map zN (classes (flat_map (rules_of m) (seqN (N.to_nat nres + 1)))) :: mrun iso nres pool m tl
      | CGetRes res => map zN (classes (rules_of m res)) :: mrun iso nres pool m tl
      | CEnforced res => map zN (classes (rules_of m res)) :: mrun iso nres pool m tl
      end
  end.

(** the observations: per command a length-prefixed list; rule lists are given as ids *)
Fixpoint find_by_id (id : N) (pool : list rule) : option rule :=
  match pool with [] => None | r :: tl => if r_id r =? id then Some r else find_by_id id tl end.

Fixpoint split_obs (n : nat) (obs : list Z) : option (list (list Z)) :=
  match n with
  | O => match obs with [] => Some [] | _ => None end
  | S k => match obs with
           | len :: tl => let l := Z.to_nat len in
                          if Nat.leb l (length tl)
                          then option_map (cons (firstn l tl)) (split_obs k (skipn l tl)) else None
           | [] => None
           end
  end.

Definition ids_to_classes (pool : list rule) (ids : list Z) : option (list Z) :=
  let rs := flat_map (fun z => match find_by_id (Z.to_N z) pool with Some r => [r] | None => [] end) ids in
  if (length rs =? length ids)%nat then Some (map zN (classes rs)) else None.

(** rules a command hands to the manager *)
Definition offered (pool : list rule) (x : mcmd) : list rule :=
  match x with
  | CLoadAll ixs | CLoadRes _ ixs => pick pool ixs
  | CAppend ix => pick pool [ix]
  | _ => []
  end.
(** (kept for the record) a call involves an equal-but-differently-identified rule.  Before the fix of
    the rule hashes such calls had run-dependent return values and were not asserted; they are now. *)
Definition tainted (seen rs : list rule) : bool :=
  existsb (fun a => existsb (fun b => rule_eqb a b && negb (r_id a =? r_id b)) (rs ++ seen)) rs.

Fixpoint agree_lists_from (seen : list rule) (pool : list rule) (ops : list mcmd) (model obs : list (list Z)) : bool :=
  match ops, model, obs with
  | [], [], [] => true
  | x :: ops', mo :: model', ob :: obs' =>
      (match x with
       | CGetAll | CGetRes _ | CEnforced _ =>
           match ids_to_classes pool ob with Some cl => zlist_eqb mo cl | None => false end
       | _ => zlist_eqb mo ob
       end) && agree_lists_from (offered pool x ++ seen) pool ops' model' obs'
  | _, _, _ => false
  end.
Definition agree_lists := agree_lists_from [].

Definition agree (co : mcase * list Z) : bool :=
  let c := fst co in
  match split_obs (length (mc_ops c)) (snd co) with
  | None => false
  | Some obs => agree_lists (mc_pool c) (mc_ops c)
                            (mrun (3 <=? mc_family c) (mc_nres c) (mc_pool c) mgr0 (mc_ops c)) obs
  end.
