(** Correspondence entry point for the lock profile and the concurrent manager runs (C15). *)
From SV Require Import Model.Base Model.Locks Spec.C15Spec Run.Common Run.RunConc.
Open Scope N_scope.

Record lcase := mkLCase { lc_threads : N }.

Fixpoint bits_of (fuel : nat) (k : nat) (m : N) : list nat :=
  match fuel with
  | O => []
  | S f => (if N.odd m then [k] else []) ++ bits_of f (S k) (N.div2 m)
  end.

(** harness output: verdict npanics tid* nhealth ok* nprofile (lock mode mask)* *)
Definition lparse (obs : list Z) : option (Z * list Z * list Z * list (nat * list nat)) :=
  match obs with
  | v :: r0 =>
      match counted 1 r0 with
      | Some (ps, r1) =>
          match counted 1 r1 with
          | Some (hs, r2) =>
              match counted 3 r2 with
              | Some (pf, []) =>
                  Some (v, concat ps, concat hs,
                        flat_map (fun g => match g with
                                           | [l; _; m] => if (l <? 0)%Z then [] else [(Z.to_nat l, bits_of 20 0 (Z.to_N m))]
                                           | _ => [] end) pf)
              | _ => None
              end
          | None => None
          end
      | None => None
      end
  | [] => None
  end.

(** model == implementation: every acquisition context observed is one the model knows *)
Definition agree (co : lcase * list Z) : bool :=
  match lparse (snd co) with
  | None => false
  | Some (_, _, _, pf) => forallb (ctx_in known_contexts) pf
  end.

(** C15 on the implementation: all threads finished (no deadlock), nobody panicked, every manager
    still answers, and every observed acquisition respects the lock order *)
Definition spec_c15 (co : lcase * list Z) : bool :=
  match lparse (snd co) with
  | None => false
  | Some (v, ps, hs, pf) =>
      (v =? 0)%Z && match ps with [] => true | _ => false end &&
      forallb (fun h => (h =? 1)%Z) hs && negb (match hs with [] => true | _ => false end) &&
      forallb spec_ctx pf
  end.
