From SV Require Import Model.Base Model.F64 Model.Throttle Model.Hotspot Spec.C05hSpec Spec.C07Spec Spec.MultiSpec Run.Common Run.RunHot.
Open Scope N_scope.

(** C05 (hotspot part) on the implementation's trace: cases with a single concurrency rule
    whose thresholds are all >= 1 *)
Definition spec_c05h (co : hcase * list Z) : bool :=
  match prepare_h co with
  | None => false
  | Some (w, rest) =>
      let c := fst co in
      match decode_h (hc_base c) (hc_ops c) rest with
      | None => false
      | Some obs =>
          let rs := map hc_rule (hw_ctls w) in
          if forallb (fun r => match h_kind r with HConc => true | _ => false end) rs
          then ok_c05h_multi rs [] (hc_ops c) obs else true
      end
  end.
