From SV Require Import Model.Base Model.Hotspot Spec.C05hSpec Run.Common Run.RunHot.
Open Scope N_scope.

(** C05 (hotspot part) on the implementation's trace: cases with a single concurrency rule
    whose thresholds are all >= 1 *)
Definition spec_c05h (co : hcase * list Z) : bool :=
  match prepare_h co with
  | None => false
  | Some (w, rest) =>
      let c := fst co in
      match decode_h (hc_base c) (hc_ops c) rest with
      | None => false
      | Some obs =>
          match map hc_rule (hw_ctls w) with
          | [r] => match h_kind r with
                   | HConc => if thresholds_pos r then ok_c05h r [] (hc_ops c) obs else true
                   | _ => true
                   end
          | _ => true
          end
      end
  end.
