(** Correspondence entry point for the metric log (C19). *)
From SV Require Import Model.Base Model.MetricLine Model.MetricLog Run.Common.
From SV Require Export Spec.C19CrashPoint.
Open Scope N_scope.

Inductive lcmd :=
| LW (ts_rel : N) (items : list (N * N))      (* (resource number, id) *)
| LS (b_rel e_rel res : N)
| LM (b_rel max : N)
| LD
| LX (k : N).

Record mlcase := mkMLCase { ml_base : N; ml_max_size : N; ml_max_files : N; ml_ops : list lcmd }.

Definition zN (n : N) : Z := Z.of_N n.
Definition res_name (r : N) : bytes := 114 :: dec r.
Definition item_of (x : N * N) : mitem := mkMI (res_name (fst x)) 0 0 (snd x) 1 2 0 3 0 1.

(** resource number back from a name: r<digits> *)
Definition res_no (name : bytes) : Z :=
  match name with
  | 114 :: ds => match parse_uint U64_MAX ds with Some n => zN n | None => (-4)%Z end
  | _ => (-4)%Z
  end.

Definition enc_item (base : N) (i : mitem) : list Z :=
  [zN (mi_pass i); (zN (mi_ts i / 1000) - zN (base / 1000))%Z; res_no (mi_res i)].

Fixpoint idx_pairs (fuel : nat) (base : N) (idx : bytes) : list Z * N :=
  match fuel with
  | O => ([], 0)
  | S f =>
      if (length idx <? 16)%nat then ([], N.of_nat (length idx))
      else let '(r, rest) := idx_pairs f base (skipn 16 idx) in
           ((zN (be_val (firstn 8 idx) 0) - zN (base / 1000))%Z :: zN (be_val (firstn 8 (skipn 8 idx)) 0) :: r, rest)
  end.

Definition dump_file (base : N) (f : mfile) : list Z :=
  let '(pairs, rest) := idx_pairs (S (length (f_idx f))) base (f_idx f) in
  let lines := filter (fun l => match l with [] => false | _ => true end) (split_lines (f_log f) []) in
  [zN (f_day f); zN (f_no f); zN (N.of_nat (length (f_log f))); zN (N.of_nat (length pairs / 2))] ++ pairs ++ [zN rest]
  ++ [zN (N.of_nat (length lines))]
  ++ flat_map (fun l => match from_line l with Some i => enc_item base i | None => [(-3)%Z; 0%Z; 0%Z] end) lines.

Definition dump (base : N) (dir : list mfile) : list Z :=
  let fs := fold_right insert_num [] dir in
  zN (N.of_nat (length fs)) :: flat_map (dump_file base) fs.

Definition set_dir (w : mlw) (d : list mfile) : mlw := mkMLW d (w_cur w) (w_latest w) (w_max_size w) (w_max_files w).

Fixpoint mlrun (base : N) (w : mlw) (before : list mfile) (ops : list lcmd) : list Z :=
  match ops with
  | [] => []
  | LW ts its :: tl =>
      let '(w', r) := mwrite w (base + ts) (map item_of its) in
      (match r with WOk => 0%Z | WErr => 2%Z end) :: mlrun base w' (w_dir w) tl
  | LS b e res :: tl =>
      let items := find_by_time (w_dir w) (base + b) (base + e) (if res =? 9 then [] else res_name res) in
      zN (N.of_nat (length items)) :: flat_map (enc_item base) items ++ mlrun base w before tl
  | LM b mx :: tl =>
      let items := find_max_lines (w_dir w) (base + b) mx in
      zN (N.of_nat (length items)) :: flat_map (enc_item base) items ++ mlrun base w before tl
  | LD :: tl => dump base (w_dir w) ++ mlrun base w before tl
  | LX k :: tl =>
      match crash k before (w_dir w) with
      | Some d => 5%Z :: mlrun base (set_dir w d) before tl
      | None => 6%Z :: mlrun base w before tl
      end
  end.

Definition mlmodel (c : mlcase) : list Z :=
  match writer_new (ml_base c) (ml_max_size c) (ml_max_files c) with
  | None => [2%Z]
  | Some w => 0%Z :: mlrun (ml_base c) w [] (ml_ops c)
  end.

Definition agree (co : mlcase * list Z) : bool := zlist_eqb (mlmodel (fst co)) (snd co).

(** * C19 on the implementation's trace *)
From SV Require Import Spec.C19Spec.

Fixpoint take_triples (n : nat) (l : list Z) : option (list ditem * list Z) :=
  match n with
  | O => Some ([], l)
  | S k => match l with
           | a :: b :: c :: tl => match take_triples k tl with Some (r, rest) => Some ((a, b, c) :: r, rest) | None => None end
           | _ => None
           end
  end.
Fixpoint take_pairs (n : nat) (l : list Z) : option (list (Z * Z) * list Z) :=
  match n with
  | O => Some ([], l)
  | S k => match l with
           | a :: b :: tl => match take_pairs k tl with Some (r, rest) => Some ((a, b) :: r, rest) | None => None end
           | _ => None
           end
  end.

Definition parse_file (l : list Z) : option (dfile * list Z) :=
  match l with
  | day :: no :: len :: nidx :: r0 =>
      match take_pairs (Z.to_nat nidx) r0 with
      | Some (pairs, idxrest :: nlines :: r1) =>
          match take_triples (Z.to_nat nlines) r1 with
          | Some (ls, r2) =>
              Some (mkDF day no len pairs idxrest (map (fun x => if (it_id x =? -3)%Z then None else Some x) ls), r2)
          | None => None
          end
      | _ => None
      end
  | _ => None
  end.
Fixpoint parse_files (n : nat) (l : list Z) : option (list dfile * list Z) :=
  match n with
  | O => Some ([], l)
  | S k => match parse_file l with
           | Some (f, rest) => match parse_files k rest with Some (fs, r) => Some (f :: fs, r) | None => None end
           | None => None
           end
  end.

(** walk the operations with the output; [dump] = the latest dump, [crashed] = a crash was applied *)
Fixpoint ok_trace (max_files : Z) (ops : list lcmd) (obs : list Z) (dump : option (list dfile)) (crashed : bool) : bool :=
  match ops with
  | [] => match obs with [] => true | _ => false end
  | LW _ _ :: tl => match obs with
                    | r :: rest => ((r =? 0) || (r =? 2))%Z && ok_trace max_files tl rest dump crashed
                    | [] => false end
  | LX _ :: tl => match obs with
                  | r :: rest => ok_trace max_files tl rest dump (crashed || (r =? 5)%Z)
                  | [] => false end
  | LD :: tl =>
      match obs with
      | n :: rest =>
          match parse_files (Z.to_nat n) rest with
          | Some (fs, rest') =>
              (crashed || ok_dump fs) &&
              (match dump with Some prev => crashed || ok_retention max_files prev fs | None => true end) &&
              ok_trace max_files tl rest' (Some fs) crashed
          | None => false
          end
      | [] => false
      end
  | LS b e res :: tl =>
      match obs with
      | n :: rest =>
          if (n <? 0)%Z then false else       (* an error or a panic *)
          match take_triples (Z.to_nat n) rest with
          | Some (items, rest') =>
              (match dump with
               | Some fs => ok_by_time crashed fs (Z.of_N (b / 1000)) (Z.of_N (e / 1000)) (Z.of_N res) items
               | None => true end) && ok_trace max_files tl rest' dump crashed
          | None => false
          end
      | [] => false
      end
  | LM b mx :: tl =>
      match obs with
      | n :: rest =>
          if (n <? 0)%Z then false else
          match take_triples (Z.to_nat n) rest with
          | Some (items, rest') =>
              (match dump with
               | Some fs => ok_max_lines crashed fs (Z.of_N (b / 1000)) (Z.of_N mx) items
               | None => true end) && ok_trace max_files tl rest' dump crashed
          | None => false
          end
      | [] => false
      end
  end.

(** the query times are relative to the base; seconds relative to the creation second *)
Definition rel_sec (base t_rel : N) : N := (base + t_rel) / 1000 - base / 1000.
Definition rebase (base : N) (o : lcmd) : lcmd :=
  match o with
  | LS b e r => LS (rel_sec base b * 1000) (rel_sec base e * 1000) r
  | LM b m => LM (rel_sec base b * 1000) m
  | _ => o
  end.

Definition spec_c19 (co : mlcase * list Z) : bool :=
  let c := fst co in
  match snd co with
  | 0%Z :: rest => ok_trace (Z.of_N (ml_max_files c)) (map (rebase (ml_base c)) (ml_ops c)) rest None false
  | _ => false
  end.
