(** Correspondence entry point for warm-up flow control (C08). *)
From SV Require Import Model.Base Model.F64 Model.LeapArray Model.World Model.WarmUp Spec.C08Spec Run.Common.
Open Scope N_scope.

Record wcase := mkWCase { wc_base : N; wc_thr : Z; wc_cold : N; wc_period : N; wc_sat : bool; wc_ops : list wcmd }.

(** model output in the harness layout; a block carries the count the check saw *)
Fixpoint enc_run (c : cfg) (w : wworld) (l : list wcmd) : list Z :=
  match l with
  | [] => []
  | x :: tl =>
      let '(w', o) := wexec c w x in
      match o with
      | WOAdmit => 1%Z :: enc_run c w' tl
      | WOBlock => 0%Z :: (match node_sum c (ww_node w) (ww_now w) Pass with ROk cur => Z.of_N cur | RPanic => (-2)%Z end)
                   :: enc_run c w' tl
      | WOTick => 3%Z :: enc_run c w' tl
      | WOThr b => 4%Z :: b :: enc_run c w' tl
      | WOPanic => [(-1)%Z]
      end
  end.

Definition agree (co : wcase * list Z) : bool :=
  let c := fst co in
  match snd co with
  | n :: rest =>
      if (n =? 1)%Z then
        zlist_eqb (enc_run default_cfg (wworld0 default_cfg (wc_base c) (f64_of_bits (wc_thr c)) (wc_cold c) (wc_period c)) (wc_ops c)) rest
      else false
  | [] => false
  end.

(** typed observations from the harness output *)
Fixpoint dec_obs (cmds : list wcmd) (obs : list Z) : option (list wobs * list N) :=
  match cmds, obs with
  | [], [] => Some ([], [])
  | WA _ :: cs, 3%Z :: os => option_map (fun r => (WOTick :: fst r, snd r)) (dec_obs cs os)
  | WB _ :: cs, 1%Z :: os => option_map (fun r => (WOAdmit :: fst r, snd r)) (dec_obs cs os)
  | WB _ :: cs, 0%Z :: cur :: os => option_map (fun r => (WOBlock :: fst r, Z.to_N cur :: snd r)) (dec_obs cs os)
  | WT :: cs, 4%Z :: b :: os => option_map (fun r => (WOThr b :: fst r, snd r)) (dec_obs cs os)
  | _, _ => None
  end.

(** C08 on the implementation's trace *)
Definition spec_c08 (co : wcase * list Z) : bool :=
  let c := fst co in
  match snd co with
  | n :: rest =>
      (n =? 1)%Z &&
      match dec_obs (wc_ops c) rest with
      | Some (os, curs) =>
          match timeline (wc_base c) (wc_ops c) os curs with
          | Some evs => ok_c08 (f64_of_bits (wc_thr c)) (wc_cold c) (wc_period c) (wc_base c) (wc_sat c) evs
          | None => false
          end
      | None => false         (* a panic or a malformed trace *)
      end
  | [] => false
  end.

Definition wshow (co : wcase * list Z) : list Z :=
  let c := fst co in
  enc_run default_cfg (wworld0 default_cfg (wc_base c) (f64_of_bits (wc_thr c)) (wc_cold c) (wc_period c)) (wc_ops c).
