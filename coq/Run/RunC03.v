From SV Require Import Model.Base Model.F64 Model.LeapArray Model.Breaker Spec.C03Spec Run.Common Run.RunCb.
Open Scope N_scope.

Definition st_of_code (z : Z) : option bstate :=
  match z with 0%Z => Some Closed | 1%Z => Some HalfOpen | 2%Z => Some Open | _ => None end.

Fixpoint dec_tr (n : nat) (l : list Z) : option (list transition * list Z) :=
  match n with
  | O => Some ([], l)
  | S k => match l with
           | r :: a :: b :: tl =>
               match st_of_code a, st_of_code b, dec_tr k tl with
               | Some x, Some y, Some (trs, rest) => Some ((Z.to_N r, x, y) :: trs, rest)
               | _, _, _ => None
               end
           | _ => None
           end
  end.

Fixpoint dec_states (base : N) (n : nat) (l : list Z) : option (list (bstate * N) * list Z) :=
  match n with
  | O => Some ([], l)
  | S k => match l with
           | s :: ra :: tl =>
               match st_of_code s, dec_states base k tl with
               | Some x, Some (sts, rest) =>
                   Some ((x, if (ra =? (-1))%Z then 0 else Z.to_N (Z.of_N base + ra)) :: sts, rest)
               | _, _ => None
               end
           | _ => None
           end
  end.

Fixpoint decode_b (base : N) (nb : nat) (ops : list bcmd) (obs : list Z) : option (list (bobs * list (bstate * N))) :=
  match ops with
  | [] => match obs with [] => Some [] | _ => None end
  | x :: ops' =>
      let finish (mk : list transition -> bobs) (l : list Z) :=
        match l with
        | ntr :: l1 =>
            match dec_tr (Z.to_nat ntr) l1 with
            | Some (trs, l2) =>
                match dec_states base nb l2 with
                | Some (sts, l3) => option_map (cons (mk trs, sts)) (decode_b base nb ops' l3)
                | None => None
                end
            | None => None
            end
        | [] => None
        end in
      match x, obs with
      | BB _ _, 0%Z :: tl => finish BOAdmit tl
      | BB _ _, 1%Z :: bt :: tl => finish (BOBlock (Z.to_N bt)) tl
      | BX _ _, 2%Z :: tl => finish BOExited tl
      | BX _ _, 20%Z :: tl => finish (fun _ => BONoEntry) tl
      | BA _, 3%Z :: tl => finish (fun _ => BOTick) tl
      | _, _ => None
      end
  end.

Definition spec_c03 (co : bcase * list Z) : bool :=
  match prepare_b co with
  | None => false
  | Some (w, rest) =>
      let c := fst co in
      match decode_b (bc_base c) (length (bw_brks w)) (bc_ops c) rest with
      | None => false
      | Some obs => ok_c03 (map (fun b => (b_rule b, sm0)) (bw_brks w)) (bc_base c) [] (bc_ops c) obs
      end
  end.
