From SV Require Import Model.Base Model.F64 Model.LeapArray Model.World Model.System Spec.C09Spec Run.Common Run.RunSys.
Open Scope N_scope.

Fixpoint decode_s (ops : list scmd) (obs : list Z) : option (list sobs) :=
  match ops with
  | [] => match obs with [] => Some [] | _ => None end
  | x :: ops' =>
      match x, obs with
      | SB _ _ _, 0%Z :: tl => option_map (cons SOAdmit) (decode_s ops' tl)
      | SB _ _ _, 1%Z :: r :: v :: tl => option_map (cons (SOBlock (Z.to_N r) (f64_of_bits v))) (decode_s ops' tl)
      | SX _, 2%Z :: tl => option_map (cons SOExited) (decode_s ops' tl)
      | SX _, 20%Z :: tl => option_map (cons SONoEntry) (decode_s ops' tl)
      | SA _, 3%Z :: tl | SLoad _, 3%Z :: tl | SCpu _, 3%Z :: tl => option_map (cons SOTick) (decode_s ops' tl)
      | _, _ => None
      end
  end.

Definition spec_c09 (co : scase * list Z) : bool :=
  match prepare_s co with
  | None => false
  | Some (w, rest) =>
      match decode_s (sc_ops (fst co)) rest with
      | None => false
      | Some obs => ok_c09 (sw_cfg w) (sw_rules w) (mkSG (sw_now w) [] 0 (sw_load w) (sw_cpu w) []) (sc_ops (fst co)) obs
      end
  end.
