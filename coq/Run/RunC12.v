From SV Require Import Model.Base Model.F64 Model.Rules Run.Common.
Open Scope N_scope.

Record c12case := mkC12 { c12_entry : N; c12_rule : any_rule }.

(** the total memory of the machine is not known to the model: flow MemoryAdaptive rules are
    generated with high-water marks that are either tiny or beyond any machine *)
Definition TOTAL_MEM : N := 4611686018427387904.   (* 2^62 KB: between the two generated marks *)

Definition expected (c : c12case) : list Z :=
  let '(code, listed) := load_answer TOTAL_MEM (c12_entry c) (c12_rule c) in
  [zb (valid_any TOTAL_MEM (c12_rule c)); code; zb listed; 0%Z; 0%Z].

Definition agree (co : c12case * list Z) : bool := zlist_eqb (expected (fst co)) (snd co).

(** C12 on the implementation's observations: whatever the rule, no build panicked and every
    manager still answered and accepted updates; a valid rule is listed, an invalid one is not;
    nothing panicked while loading *)
Definition spec_c12 (co : c12case * list Z) : bool :=
  match snd co with
  | [v; code; listed; panics; health] =>
      (panics =? 0)%Z && (health =? 0)%Z && negb (code =? (-1))%Z &&
      (v =? zb (valid_any TOTAL_MEM (c12_rule (fst co))))%Z &&
      (if (v =? 0)%Z then (listed =? 0)%Z else true) &&
      (if (v =? 1)%Z && negb (code =? 2)%Z then (listed =? 1)%Z else true)
  | _ => false
  end.

(** rule equality / statistic reuse compared with the implementation's PartialEq and is_stat_reusable *)
Definition agree_pair (co : rule_pair * list Z) : bool :=
  let '(e, r) := pair_answer (fst co) in zlist_eqb [zb e; zb r] (snd co).
