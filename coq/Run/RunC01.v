From SV Require Import Model.Base Model.LeapArray Model.World Spec.WorldSpec Spec.C01Spec Spec.C05Spec
  Run.Common Run.RunWorld.
Open Scope N_scope.

Definition has_extra (x : cmd) : bool := match x with WB _ _ _ _ (Some _) => true | _ => false end.

(** the C01 predicate on the implementation's own trace (cases with flow rules only) *)
Definition spec_c01 (co : wcase * list Z) : bool :=
  match prepare co with
  | None => false
  | Some (w, ops, rest) =>
      match decode ops rest with
      | None => false
      | Some outs =>
          if existsb has_extra ops || existsb (fun r => negb (match snd r with [] => true | _ => false end)) (wc_res (fst co))
          then true
          else ok_c01 (w_cfg w) (w_flow w) (w_now w) ops outs
      end
  end.

(** the C05 (isolation) predicate on the implementation's own trace (isolation rules only) *)
Definition spec_c05 (co : wcase * list Z) : bool :=
  match prepare co with
  | None => false
  | Some (w, ops, rest) =>
      match decode ops rest with
      | None => false
      | Some outs =>
          if existsb has_extra ops || existsb (fun r => negb (match fst r with [] => true | _ => false end)) (wc_res (fst co))
          then true
          else ok_c05_iso (w_iso w) (w_now w) ops outs
      end
  end.
