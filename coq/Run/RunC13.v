(** Correspondence entry point for C13. *)
From SV Require Import Model.Base Model.SlotChain Spec.C13Spec Run.Common.
Open Scope N_scope.

Record case13 := mkC13 { c_pre : list sl; c_chk : list (sl * cres); c_stat : list sl }.

Fixpoint lookup_res (l : list (sl * cres)) (id : N) : cres :=
  match l with
  | [] => CPass
  | (s, r) :: tl => if s_id s =? id then r else lookup_res tl id
  end.

(** observation layout: result, nb, then 4 numbers per event *)
Fixpoint decode (fuel : nat) (l : list Z) : option (list ev) :=
  match fuel with
  | O => None
  | S f =>
    match l with
    | [] => Some []
    | kind :: id :: ord :: k :: tl =>
        match decode f tl with
        | None => None
        | Some rest =>
            let s := mkS (Z.to_N id) (Z.to_N ord) in
            match kind with
            | 0%Z => Some (EPrep s :: rest)
            | 1%Z => Some (ECheck s :: rest)
            | 2%Z => Some (EPass s :: rest)
            | 3%Z => Some (EBlocked s (Z.to_N k) :: rest)
            | 4%Z => Some (EDone s :: rest)
            | _ => None
            end
        end
    | _ => None
    end
  end.

Definition parse (obs : list Z) : option (option N * list ev * list ev) :=
  match obs with
  | r :: nb :: tl =>
      let n := (4 * Z.to_nat nb)%nat in
      match decode (S (length tl)) (firstn n tl), decode (S (length tl)) (skipn n tl) with
      | Some tb, Some te =>
          Some (if (r =? 0)%Z then None else Some (Z.to_N (r - 1)), tb, te)
      | _, _ => None
      end
  | _ => None
  end.

(** ties between equal order values may come out in any order: compare phase by phase
    after sorting each run of equal orders by id *)
Fixpoint insert_by_id (x : sl) (l : list sl) : list sl :=
  match l with
  | [] => [x]
  | y :: tl => if (s_ord x <? s_ord y) || ((s_ord x =? s_ord y) && (s_id x <=? s_id y))
               then x :: y :: tl else y :: insert_by_id x tl
  end.
Definition canon_slots (l : list sl) : list sl := fold_left (fun a s => insert_by_id s a) l [].

Definition ev_slot (e : ev) : sl :=
  match e with EPrep s | ECheck s | EPass s | EBlocked s _ | EDone s => s end.
Definition ev_kind (e : ev) : N :=
  match e with EPrep _ => 0 | ECheck _ => 1 | EPass _ => 2 | EBlocked _ k => 100 + k | EDone _ => 4 end.
Definition ev_key (e : ev) : N * N * N := (ev_kind e, s_ord (ev_slot e), s_id (ev_slot e)).

Definition key_leb (a b : N * N * N) : bool :=
  let '(k1, o1, i1) := a in let '(k2, o2, i2) := b in
  (k1 <? k2) || ((k1 =? k2) && ((o1 <? o2) || ((o1 =? o2) && (i1 <=? i2)))).
Fixpoint insert_key (x : N * N * N) (l : list (N * N * N)) :=
  match l with [] => [x] | y :: tl => if key_leb x y then x :: y :: tl else y :: insert_key x tl end.
(** canonical form of a trace whose phases are already in kind order: sort by (kind, order, id);
    only used to compare the model with the implementation up to tie order *)
Definition canon (t : list ev) : list (N * N * N) := fold_left (fun a e => insert_key (ev_key e) a) t [].

Fixpoint keys_eqb (a b : list (N * N * N)) : bool :=
  match a, b with
  | [], [] => true
  | (k1, o1, i1) :: a', (k2, o2, i2) :: b' => (k1 =? k2) && (o1 =? o2) && (i1 =? i2) && keys_eqb a' b'
  | _, _ => false
  end.

Definition model_run (c : case13) :=
  build_and_exit (mkChain (add_all (c_pre c)) (add_all (map fst (c_chk c))) (add_all (c_stat c)))
                 (lookup_res (c_chk c)).

Definition opt_eqb (a b : option N) : bool :=
  match a, b with None, None => true | Some x, Some y => x =? y | _, _ => false end.

(** kinds are non-decreasing along a phase-ordered trace *)
Fixpoint kinds_ordered (t : list ev) : bool :=
  match t with
  | [] => true
  | x :: tl => match tl with
               | [] => true
               | y :: _ => ((if ev_kind x <? 100 then ev_kind x else 3) <=? (if ev_kind y <? 100 then ev_kind y else 3))
                           && kinds_ordered tl
               end
  end.

Definition agree (co : case13 * list Z) : bool :=
  match parse (snd co) with
  | None => false
  | Some (r, tb, te) =>
      let '(r', tb', te') := model_run (fst co) in
      opt_eqb r r' && kinds_ordered tb && keys_eqb (canon tb) (canon tb') && keys_eqb (canon te) (canon te')
  end.

Definition spec_holds (co : case13 * list Z) : bool :=
  match parse (snd co) with
  | None => false
  | Some (r, tb, te) =>
      let c := fst co in
      ok_C13 (c_pre c) (map fst (c_chk c)) (c_stat c) (lookup_res (c_chk c)) r tb te
  end.
