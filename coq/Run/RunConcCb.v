(** Correspondence entry point for the circuit breaker under concurrency (C16). *)
From SV Require Import Model.Base Model.F64 Model.LeapArray Model.Breaker Model.ConcCb Spec.C16Spec Run.Common Run.RunConc.
Open Scope N_scope.

Record kcase := mkKCase {
  kc_base : N;
  kc_rule : N * N * N * N * N * N * Z;       (* strategy retry min_req interval buckets max_rt threshold bits *)
  kc_pre : list pre_op;
  kc_progs : list (list ctop);
  kc_steps : list (nat * N)
}.

Definition rule_of (x : N * N * N * N * N * N * Z) : brule :=
  let '(st, retry, minr, iv, buckets, maxrt, bits) := x in
  mkBR 1 (if st =? 0 then SlowRatio else if st =? 1 then ErrRatio else ErrCount) retry minr iv buckets maxrt (f64_of_bits bits).

Definition st_code (s : bstate) : Z := match s with Closed => 0 | HalfOpen => 1 | Open => 2 end%Z.
Definition st_of (z : Z) : option bstate :=
  if (z =? 0)%Z then Some Closed else if (z =? 1)%Z then Some HalfOpen else if (z =? 2)%Z then Some Open else None.

(** times are given relative to the base; a retry deadline of 0 (never set) is given as -1 *)
Definition rel (base x : N) : Z := if x =? 0 then (-1)%Z else (Z.of_N x - Z.of_N base)%Z.
Definition who_code (w : N) : Z := (Z.of_N w - 1)%Z.

Definition enc_ev (base : N) (e : cev) : list Z :=
  match e with
  | ETrans w a b now retry => [1; who_code w; st_code a; st_code b; rel base now; rel base retry]
  | EBuild w adm => [2; who_code w; zb adm; 0; 0; 0]
  | EExit w err rt => [3; who_code w; zb err; zN rt; 0; 0]
  end%Z.

Definition unrel (base : N) (z : Z) : N := if (z <? 0)%Z then 0 else Z.to_N (Z.of_N base + z).

Definition dec_ev (base : N) (g : list Z) : option cev :=
  match g with
  | [k; w; a; b; c; d] =>
      let who := Z.to_N (w + 1) in
      if (k =? 1)%Z then
        match st_of a, st_of b with
        | Some x, Some y => Some (ETrans who x y (unrel base c) (unrel base d))
        | _, _ => None
        end
      else if (k =? 2)%Z then Some (EBuild who (zb_of a))
      else if (k =? 3)%Z then Some (EExit who (zb_of a) (Z.to_N b))
      else None
  | _ => None
  end.

Fixpoint dec_all (base : N) (gs : list (list Z)) : option (list cev) :=
  match gs with
  | [] => Some []
  | g :: tl => match dec_ev base g, dec_all base tl with Some e, Some r => Some (e :: r) | _, _ => None end
  end.

(** the harness output: all_done, trace, log, final state, final deadline *)
Definition kparse (base : N) (obs : list Z) : option (bool * list (N * N) * list cev * list Z) :=
  match obs with
  | d :: r0 =>
      match counted 2 r0 with
      | Some (tr, r1) =>
          match counted 6 r1 with
          | Some (lg, fin) =>
              match dec_all base lg with
              | Some evs =>
                  let tl := flat_map (fun g => match g with [a; b] => [(Z.to_N a, Z.to_N b)] | _ => [] end) tr in
                  Some (zb_of d, filter (fun x => negb (snd x =? 0)) tl, evs, fin)
              | None => None
              end
          | None => None
          end
      | None => None
      end
  | [] => None
  end.

Definition kmodel (recheck : bool) (c : kcase) : list Z :=
  let '(st, ths, tr) := crun_case recheck (kc_base c) (rule_of (kc_rule c)) (kc_pre c) (kc_progs c) (kc_steps c) in
  [zb (call_done ths)] ++ flat_map (fun x => [zN (fst x); zN (cpt_code (snd x))]) tr ++ [(-1)%Z]
  ++ flat_map (enc_ev (kc_base c)) (s_log st) ++ [(-1)%Z; st_code (s_state st); rel (kc_base c) (s_retry st)].

Definition kobs (base : N) (p : bool * list (N * N) * list cev * list Z) : list Z :=
  let '(d, tr, evs, fin) := p in
  [zb d] ++ flat_map (fun x => [zN (fst x); zN (snd x)]) tr ++ [(-1)%Z]
  ++ flat_map (enc_ev base) evs ++ [(-1)%Z] ++ fin.

Definition agree (co : kcase * list Z) : bool :=
  let c := fst co in
  match kparse (kc_base c) (snd co) with
  | None => false
  | Some p => zlist_eqb (kmodel true c) (kobs (kc_base c) p)
  end.

Definition spec_c16 (co : kcase * list Z) : bool :=
  let c := fst co in
  match kparse (kc_base c) (snd co) with
  | None => false
  | Some (d, tr, evs, fin) =>
      d && negb (existsb (fun x => 90 <=? snd x) tr) && ok_c16 (rule_of (kc_rule c)) evs
  end.

Definition kshow (co : kcase * list Z) : list Z * list Z :=
  let c := fst co in
  match kparse (kc_base c) (snd co) with
  | None => ([], [])
  | Some p => (kmodel true c, kobs (kc_base c) p)
  end.

(** free-running threads: only the listener events are ordered reliably (they are delivered under the
    breaker's state lock): they must form a valid path, each transition from the state told last, and
    Open -> Half-Open never before the deadline in force *)
Fixpoint ok_path (s : bstate) (log : list cev) : bool :=
  match log with
  | [] => true
  | ETrans _ from to now retry :: tl =>
      bstate_eqb from s && valid_tr from to &&
      (match from, to with Open, HalfOpen => retry <=? now | _, _ => true end) && ok_path to tl
  | _ :: tl => ok_path s tl
  end.
Definition agree_free (co : kcase * list Z) : bool := true.
Definition spec_c16_free (co : kcase * list Z) : bool :=
  match kparse (kc_base (fst co)) (snd co) with
  | None => false
  | Some (d, tr, evs, fin) => d && ok_path Closed evs
  end.
