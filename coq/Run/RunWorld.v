(** Correspondence entry point for the World model (serves C01, C04, C05). *)
From SV Require Import Model.Base Model.LeapArray Model.World Run.Common.
Open Scope N_scope.

(** per resource: flow rules (id, threshold, stat interval) and isolation rules (id, threshold),
    as given to the managers *)
Record wcase := mkWC {
  wc_base : N;
  wc_res : list (list (N * thr * N) * list (N * N));
  wc_ops : list cmd
}.

Definition zN (n : N) : Z := Z.of_N n.

Definition valid_thr (t : thr) : bool :=
  match t with TFin m _ => (0 <=? m)%Z | TPosInf | TNaN => true | TNegInf => false end.

(** consume  n id_1 .. id_n *)
Definition take_ids (obs : list Z) : option (list N * list Z) :=
  match obs with
  | [] => None
  | n :: tl => let k := Z.to_nat n in
               if (Nat.leb k (length tl)) then Some (map Z.to_N (firstn k tl), skipn k tl) else None
  end.

Fixpoint find_flow (id : N) (l : list (N * thr * N)) : option (N * thr * N) :=
  match l with [] => None | (i, t, iv) :: tl => if i =? id then Some (i, t, iv) else find_flow id tl end.
Fixpoint find_iso (id : N) (l : list (N * N)) : option (N * N) :=
  match l with [] => None | (i, t) :: tl => if i =? id then Some (i, t) else find_iso id tl end.

Fixpoint mem_N (x : N) (l : list N) : bool :=
  match l with [] => false | y :: tl => (x =? y) || mem_N x tl end.
Fixpoint nodup_N (l : list N) : bool :=
  match l with [] => true | x :: tl => negb (mem_N x tl) && nodup_N tl end.

(** f64 equality of thresholds (NaN differs from everything) *)
Definition thr_eqb (a b : thr) : bool :=
  match a, b with
  | TFin m1 e1, TFin m2 e2 =>
      (* same value: compare m1*2^e1 with m2*2^e2 exactly *)
      let e := Z.min e1 e2 in (m1 * 2 ^ (e1 - e) =? m2 * 2 ^ (e2 - e))%Z
  | TPosInf, TPosInf | TNegInf, TNegInf => true
  | _, _ => false
  end.

(** The rules the manager must hold: the valid ones, as a set under rule equality (a rule
    given twice under two ids may be kept once or twice: hashing includes the id, equality
    does not).  [seen] must be distinct ids of valid rules, and every valid rule must have
    an equal rule among them. *)
Definition holds_valid {R} (id_of : R -> N) (eqb : R -> R -> bool) (valid : list R) (seen : list N) : bool :=
  nodup_N seen &&
  forallb (fun i => existsb (fun v => id_of v =? i) valid) seen &&
  forallb (fun v => existsb (fun i => existsb (fun v' => (id_of v' =? i) && ((id_of v' =? id_of v) || eqb v v')) valid) seen) valid.

Definition flow_eqb (a b : N * thr * N) : bool :=
  let '(_, t1, i1) := a in let '(_, t2, i2) := b in thr_eqb t1 t2 && (i1 =? i2).
Definition iso_eqb (a b : N * N) : bool := snd a =? snd b.

Definition arrange_flow (c : cfg) (given : list (N * thr * N)) (seen : list N) : option (list fctl) :=
  let valid := filter (fun r => let '(_, t, ivl) := r in valid_thr t &&
                         match stat_for c ivl with SBroken => false | _ => true end) given in
  if holds_valid (fun r => fst (fst r)) flow_eqb valid seen then
    Some (flat_map (fun id => match find_flow id valid with
                              | Some (i, t, ivl) => [mkF i t (stat_for c ivl)]
                              | None => [] end) seen)
  else None.

Definition arrange_iso (given : list (N * N)) (seen : list N) : option (list (N * N)) :=
  (* threshold 0 is rejected by the isolation rule's validity check *)
  let valid := filter (fun r => negb (snd r =? 0)) given in
  if holds_valid fst iso_eqb valid seen then
    Some (flat_map (fun id => match find_iso id valid with Some r => [r] | None => [] end) seen)
  else None.

(** parse the rule-order prefix of the observations and set up the world *)
Fixpoint setup (c : cfg) (k : N) (res : list (list (N * thr * N) * list (N * N))) (obs : list Z)
         (fl : N -> list fctl) (iso : N -> list (N * N))
  : option ((N -> list fctl) * (N -> list (N * N)) * list Z) :=
  match res with
  | [] => Some (fl, iso, obs)
  | (gf, gi) :: tl =>
      match take_ids obs with
      | None => None
      | Some (fids, obs1) =>
          match take_ids obs1 with
          | None => None
          | Some (iids, obs2) =>
              match arrange_flow c gf fids, arrange_iso gi iids with
              | Some f, Some i => setup c (k + 1) tl obs2 (set_fun fl k f) (set_fun iso k i)
              | _, _ => None
              end
          end
      end
  end.

Definition encode1 (o : wout) : list Z :=
  match o with
  | ZAdmit => [0%Z]
  | ZBlock bt r sn => [1%Z; zN bt; zN r; zN sn]
  | ZExited => [2%Z]
  | ZNoEntry => [20%Z]
  | ZTick => [3%Z]
  | ZRead cc p b cm r => [zN cc; zN p; zN b; zN cm; zN r]
  | ZPanic => [(-1)%Z]
  end.

(** reads are printed with a leading tag (4 resource node, 5 inbound node) *)
Fixpoint encode (ops : list cmd) (outs : list wout) : list Z :=
  match ops, outs with
  | x :: ops', o :: outs' =>
      (match x, o with
       | WR _, ZRead _ _ _ _ _ => [4%Z]
       | WRI, ZRead _ _ _ _ _ => [5%Z]
       | WR _, ZPanic => [4%Z]
       | WRI, ZPanic => [5%Z]
       | _, _ => []
       end) ++ encode1 o ++ encode ops' outs'
  | _, _ => []
  end.

(** decode the implementation's observations against the command list *)
Fixpoint decode (ops : list cmd) (obs : list Z) : option (list wout) :=
  match ops with
  | [] => match obs with [] => Some [] | _ => None end
  | x :: ops' =>
      match x, obs with
      | _, [(-1)%Z] => Some [ZPanic]
      | WB _ _ _ _ _, 0%Z :: tl => option_map (cons ZAdmit) (decode ops' tl)
      | WB _ _ _ _ _, 1%Z :: bt :: r :: sn :: tl =>
          option_map (cons (ZBlock (Z.to_N bt) (Z.to_N r) (Z.to_N sn))) (decode ops' tl)
      | WX _, 2%Z :: tl => option_map (cons ZExited) (decode ops' tl)
      | WX _, 20%Z :: tl => option_map (cons ZNoEntry) (decode ops' tl)
      | WA _, 3%Z :: tl => option_map (cons ZTick) (decode ops' tl)
      | WR _, 4%Z :: [(-1)%Z] => Some [ZPanic]
      | WRI, 5%Z :: [(-1)%Z] => Some [ZPanic]
      | WR _, 4%Z :: cc :: p :: b :: cm :: r :: tl =>
          option_map (cons (ZRead (Z.to_N cc) (Z.to_N p) (Z.to_N b) (Z.to_N cm) (Z.to_N r))) (decode ops' tl)
      | WRI, 5%Z :: cc :: p :: b :: cm :: r :: tl =>
          option_map (cons (ZRead (Z.to_N cc) (Z.to_N p) (Z.to_N b) (Z.to_N cm) (Z.to_N r))) (decode ops' tl)
      | _, _ => None
      end
  end.

Definition btype_code (k : N) : N := 100 + k.   (* BlockType::Other(k) as printed by the harness *)

Definition fix_extra (o : cmd) : cmd :=
  match o with
  | WB id res batch inb (Some k) => WB id res batch inb (Some (btype_code k))
  | _ => o
  end.

(** the arranged world of a case, its commands, and the observations after the rule prefix *)
Definition prepare (co : wcase * list Z) : option (world * list cmd * list Z) :=
  let c := fst co in
  match setup default_cfg 0 (wc_res c) (snd co) (fun _ => []) (fun _ => []) with
  | None => None
  | Some (fl, iso, rest) =>
      Some (world0 default_cfg (wc_base c) fl iso, map fix_extra (wc_ops c), rest)
  end.

Definition agree (co : wcase * list Z) : bool :=
  match prepare co with
  | None => false
  | Some (w, ops, rest) => zlist_eqb (encode ops (run_typed w ops)) rest
  end.
