From SV Require Import Model.Base Model.Tower Spec.C20Spec Run.Common.
Open Scope N_scope.

Record twcase := mkTwCase { tw_thr : N; tw_fb : N; tw_reqs : list treq }.

Definition resp_code (r : tresp) : Z := match r with TROkInner => 0 | TROkFallback => 1 | TRErr => 2 | TRDropped => 3 end%Z.
Definition resp_of (z : Z) : option tresp :=
  match z with 0%Z => Some TROkInner | 1%Z => Some TROkFallback | 2%Z => Some TRErr | 3%Z => Some TRDropped | _ => None end.

Definition enc_o (o : tobs1) : list Z :=
  [Z.of_N (o_calls o); resp_code (o_resp o); Z.of_N (o_inflight o); Z.of_N (o_polls o)].

Fixpoint dec_obs (n : nat) (l : list Z) : option (list tobs1) :=
  match n with
  | O => match l with [] => Some [] | _ => None end
  | S k => match l with
           | a :: b :: c :: d :: tl =>
               match resp_of b, dec_obs k tl with
               | Some r, Some rest => Some (mkTO (Z.to_N a) r (Z.to_N c) (Z.to_N d) :: rest)
               | _, _ => None
               end
           | _ => None
           end
  end.

Definition agree (co : twcase * list Z) : bool :=
  let c := fst co in
  zlist_eqb (flat_map enc_o (trun_tower (tw_thr c) (tw_fb c) 0 (tw_reqs c))) (snd co).

Definition spec_c20 (co : twcase * list Z) : bool :=
  let c := fst co in
  match dec_obs (length (tw_reqs c)) (snd co) with
  | Some obs => ok_c20 (tw_thr c) (tw_fb c) 0 (tw_reqs c) obs
  | None => false
  end.
