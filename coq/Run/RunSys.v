(** Correspondence entry point for system protection (C09). *)
From SV Require Import Model.Base Model.F64 Model.LeapArray Model.World Model.System Run.Common.
Open Scope N_scope.

Record scase := mkSCase { sc_base : N; sc_rules : list (N * smetric * bool * Z); sc_ops : list scmd }.

Definition zN (n : N) : Z := Z.of_N n.
Definition srule_of (x : N * smetric * bool * Z) : srule :=
  let '(id, m, b, bits) := x in mkSR id m b (f64_of_bits bits).

Fixpoint find_srule (id : N) (l : list (N * smetric * bool * Z)) : option srule :=
  match l with [] => None | x :: tl => let r := srule_of x in if s_id r =? id then Some r else find_srule id tl end.

Fixpoint mem_N (x : N) (l : list N) : bool := match l with [] => false | y :: tl => (x =? y) || mem_N x tl end.

(** the manager holds the valid rules (a rule given twice under two ids may be kept once or twice);
    here rules are pairwise different, so: the valid ones, in the observed order *)
Definition arrange_s (given : list (N * smetric * bool * Z)) (valid : srule -> bool) (seen : list N) : option (list srule) :=
  let vs := filter valid (map srule_of given) in
  if (length vs =? length seen)%nat && forallb (fun r => mem_N (s_id r) seen) vs
  then Some (flat_map (fun id => match find_srule id given with Some r => [r] | None => [] end) seen)
  else None.

Definition valid_srule (r : srule) : bool :=
  negb (flt (s_thr r) (f64_of_Z 0)) &&
  negb (match s_metric r with MCpu => true | _ => false end && flt (f64_of_Z 100) (s_thr r)) &&
  negb (match s_metric r with MLoad => true | _ => false end && flt (f64_of_Z 1) (s_thr r)).

Definition take_ids (obs : list Z) : option (list N * list Z) :=
  match obs with
  | [] => None
  | n :: tl => let k := Z.to_nat n in
               if (Nat.leb k (length tl)) then Some (map Z.to_N (firstn k tl), skipn k tl) else None
  end.

Definition enc_s (o : sobs) : list Z :=
  match o with
  | SOAdmit => [0%Z]
  | SOBlock r v => [1%Z; zN r; fbits v]
  | SOExited => [2%Z]
  | SONoEntry => [20%Z]
  | SOTick => [3%Z]
  end.

Definition prepare_s (co : scase * list Z) : option (sworld * list Z) :=
  let c := fst co in
  match take_ids (snd co) with
  | None => None
  | Some (ids, rest) =>
      match arrange_s (sc_rules c) valid_srule ids with
      | None => None
      | Some rs => Some (mkSW default_cfg (sc_base c) (fresh_node default_cfg) (f64_of_Z 0) (f64_of_Z 0) rs [], rest)
      end
  end.

Definition agree (co : scase * list Z) : bool :=
  match prepare_s co with
  | None => false
  | Some (w, rest) => zlist_eqb (flat_map enc_s (srun w (sc_ops (fst co)))) rest
  end.
