(** Correspondence entry point for C02: runs the LeapArray/SlidingWindowMetric model on a
    case and renders the observations in the order the harness prints them; and evaluates
    the C02 specification (direct computation from the event list) for the same reads. *)
From SV Require Import Model.Base Model.F64 Model.LeapArray Spec.C02Spec Run.Common.
Open Scope N_scope.

Inductive op2 := OW (t : N) (w : wop) | OR (now : N).
Record case2 := mkC2 { c_sc : N; c_iv : N; c_wins : list (N * N); c_ops : list op2 }.

Definition zN (n : N) : Z := Z.of_N n.
Definition all_events := [Pass; Block; Complete; Error; Rt].

Definition read_one (g : geom) (slots : list slot) (now : N) (w : win) : list Z :=
  match satisfied g w slots now with
  | RPanic => [(-1)%Z]
  | ROk l =>
      map (fun ev => zN (sum_get ev l)) all_events ++
      [zN (min_minrt l); zN (max_maxc l);
       fbits (avg_of (sum_get Rt l) (sum_get Complete l));
       fbits (qps_of_sum w (sum_get Pass l))]
  end.

Fixpoint run_ops (g : geom) (wins : list win) (slots : list slot) (ops : list op2) : list Z :=
  match ops with
  | [] => []
  | OW t w :: tl =>
      match write g slots t w with
      | WOk s' => 1%Z :: run_ops g wins s' tl
      | WPast => 0%Z :: run_ops g wins slots tl
      | WPanic => [(-1)%Z]
      end
  | OR now :: tl =>
      concat (map (read_one g slots now) wins) ++
      [zN (count_with_time g slots now Pass)] ++ run_ops g wins slots tl
  end.

Fixpoint make_wins (g : geom) (l : list (N * N)) : list Z * list win :=
  match l with
  | [] => ([], [])
  | (wsc, wiv) :: tl =>
      let '(flags, ws) := make_wins g tl in
      match win_new g wsc wiv with
      | Some w => (1%Z :: flags, w :: ws)
      | None => (0%Z :: flags, ws)
      end
  end.

Definition model_out (c : case2) : list Z :=
  match ring_new (c_sc c) (c_iv c) with
  | None => [0%Z]
  | Some g =>
      let '(flags, ws) := make_wins g (c_wins c) in
      1%Z :: flags ++ run_ops g ws (ring0 g) (c_ops c)
  end.

(** ** The specification evaluated on the same case (no ring involved).
    A read is constrained when the C02 hypotheses hold at that point: all writes so far had
    non-decreasing times >= bucket length, the read time is not before the last write and at
    least one interval.  Writes in scope must be accepted. *)

Definition spec_read (g : geom) (h : list ev_t) (now : N) (w : win) : list (option Z) :=
  map (fun ev => Some (zN (spec_sum g w now ev h))) all_events ++
  [Some (zN (spec_min_rt g w now h)); Some (zN (spec_max_conc g w now h));
   Some (fbits (avg_of (spec_sum g w now Rt h) (spec_sum g w now Complete h)));
   Some (fbits (qps_of_sum w (spec_sum g w now Pass h)))].

(** Consume the observations of one window read when it is not constrained: a panicking
    read printed one value (-1), a normal one nine. *)
Definition skip_read (obs : list Z) : list Z :=
  match obs with
  | (-1)%Z :: tl => tl
  | _ => skipn 9 obs
  end.

Fixpoint skip_reads (n : nat) (obs : list Z) : list Z :=
  match n with O => obs | S k => skip_reads k (skip_read obs) end.

(** [check_prefix spec obs] : the constrained values match; returns the rest of [obs]. *)
Fixpoint check_prefix (spec : list (option Z)) (obs : list Z) : option (list Z) :=
  match spec, obs with
  | [], _ => Some obs
  | None :: s', _ :: o' => check_prefix s' o'
  | Some x :: s', y :: o' => if (x =? y)%Z then check_prefix s' o' else None
  | _ :: _, [] => None
  end.

(** per window: the constrained values match, or the read's observations are skipped *)
Fixpoint check_windows (g : geom) (h : list ev_t) (now : N) (constrained : win -> bool) (wins : list win)
         (obs : list Z) : option (list Z) :=
  match wins with
  | [] => Some obs
  | w :: tl =>
      match (if constrained w then check_prefix (spec_read g h now w) obs else Some (skip_read obs)) with
      | Some obs' => check_windows g h now constrained tl obs'
      | None => None
      end
  end.

(** [h] oldest-first history so far, [last] time of the last write (or bl), [ok] scope flag *)
Fixpoint spec_ops (g : geom) (wins : list win) (h : list ev_t) (last : N) (ok : bool)
         (ops : list op2) (obs : list Z) : bool :=
  match ops with
  | [] => match obs with [] => true | _ => false end
  | OW t w :: tl =>
      let ok' := ok && (last <=? t) in
      match obs with
      | [] => false
      | o :: obs' =>
          if ok' then (o =? 1)%Z && spec_ops g wins (h ++ [(t, w)]) t ok' tl obs'
          else if (o =? (-1))%Z then true      (* out of scope: the harness stops at a panic *)
          else spec_ops g wins (if (o =? 1)%Z then h ++ [(t, w)] else h) last ok' tl obs'
      end
  | OR now :: tl =>
      (* a window is constrained when the read is in scope: not before the last write, or before it
         while none of the window's buckets has been recycled yet (reads for the past, as qps_previous does) *)
      let constrained (w : win) : bool :=
        ok && (iv g <=? now) &&
        ((last <=? now) || (start g last <? start g now - w_iv w + bl g + iv g)) in
      let rest := check_windows g h now constrained wins obs in
      match rest with
      | Some (c :: obs') =>
          (* the whole-array count of Pass events, when the history is in scope *)
          (if ok && (last <=? now) then (c =? zN (spec_count g now Pass h))%Z else true) &&
          spec_ops g wins h last ok tl obs'
      | _ => false
      end
  end.

Definition spec_holds (co : case2 * list Z) : bool :=
  let c := fst co in
  match ring_new (c_sc c) (c_iv c), snd co with
  | None, [o] => (o =? 0)%Z
  | None, _ => false
  | Some g, o :: obs =>
      (o =? 1)%Z &&
      (if bl g =? 0 then true else
       let '(flags, ws) := make_wins g (c_wins c) in
       match check_prefix (map Some flags) obs with
       | Some obs' => spec_ops g ws [] (bl g) true (c_ops c) obs'
       | None => false
       end)
  | Some _, [] => false
  end.

Definition agree (co : case2 * list Z) : bool := zlist_eqb (model_out (fst co)) (snd co).
