From SV Require Import Model.Base Model.F64 Model.Throttle Model.Hotspot Spec.C07Spec Spec.C07SpecExec Spec.C05hSpec Spec.MultiSpec
  Run.Common Run.RunThr Run.RunHot.
Open Scope Z_scope.

(** C07 on implementation traces: flow cases with a single throttling rule *)
Definition spec_c07_flow (co : tcase * list Z) : bool :=
  match prepare_t co with
  | None => false
  | Some (w, rest) =>
      let c := fst co in
      match decode_t (tc_base_ns c) (tc_ops c) rest with
      | None => false
      | Some obs =>
          if existsb (fun o => match o with TOPanic => true | _ => false end) obs then true
          else ok_c07_flow_multi (tw_ctls w) (tc_base_ns c) (tc_ops c) obs
      end
  end.

(** hotspot cases with a single QPS-throttling rule *)
Definition spec_c07_hot (co : hcase * list Z) : bool :=
  match prepare_h co with
  | None => false
  | Some (w, rest) =>
      let c := fst co in
      match decode_h (hc_base c) (hc_ops c) rest with
      | None => false
      | Some obs =>
          match hw_ctls w with
          | [ctl] => match h_kind (hc_rule ctl) with
                     | HThrottle => ok_c07_hot (hc_rule ctl) (hc_time ctl) (hc_base c) (hc_ops c) obs
                     | _ => true
                     end
          | _ => true
          end
      end
  end.
