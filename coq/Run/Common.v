(** Helpers shared by the correspondence entry points. *)
From SV Require Import Model.Base.
Open Scope Z_scope.

Fixpoint zlist_eqb (a b : list Z) : bool :=
  match a, b with
  | [], [] => true
  | x :: a', y :: b' => (x =? y) && zlist_eqb a' b'
  | _, _ => false
  end.

(** [spec] gives, per observation, the value the property requires (None = unconstrained).
    The lists must have the same length. *)
Fixpoint zspec_ok (spec : list (option Z)) (obs : list Z) : bool :=
  match spec, obs with
  | [], [] => true
  | None :: s', _ :: o' => zspec_ok s' o'
  | Some x :: s', y :: o' => (x =? y) && zspec_ok s' o'
  | _, _ => false
  end.

Definition zb (b : bool) : Z := if b then 1 else 0.
