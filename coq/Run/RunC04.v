From SV Require Import Model.Base Model.LeapArray Model.World Spec.WorldSpec Spec.C04Spec Run.Common Run.RunWorld.
Open Scope N_scope.

(** the C04 predicate on the implementation's own trace *)
Definition spec_c04 (co : wcase * list Z) : bool :=
  match prepare co with
  | None => false
  | Some (w, ops, rest) =>
      match decode ops rest with
      | None => false
      | Some outs => ok_c04 (w_cfg w) (ghost0 (w_now w)) ops outs
      end
  end.
