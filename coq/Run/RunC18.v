From SV Require Import Model.Base Model.MetricLine Run.Common.
Open Scope N_scope.

Inductive mlcase := MLItem (i : mitem) | MLLine (l : bytes).

Definition zN (n : N) : Z := Z.of_N n.
Definition enc_parse (o : option mitem) : list Z :=
  match o with
  | None => [0%Z]
  | Some i => [1%Z; zN (mi_type i); zN (mi_ts i); zN (mi_pass i); zN (mi_block i); zN (mi_complete i);
               zN (mi_error i); zN (mi_avg_rt i); zN (mi_occupied i); zN (mi_conc i);
               Z.of_nat (length (mi_res i))] ++ map zN (mi_res i)
  end.

Definition model_out (c : mlcase) : list Z :=
  match c with
  | MLItem i => let l := to_line i in Z.of_nat (length l) :: map zN l ++ enc_parse (from_line l)
  | MLLine l => enc_parse (from_line l)
  end.

Definition agree (co : mlcase * list Z) : bool := zlist_eqb (model_out (fst co)) (snd co).

(** C18 (metric line) on the implementation's own output: the line parses back to the item
    with only the separator replaced in the name; any line gives Ok or Err, never a panic *)
Definition spec_c18 (co : mlcase * list Z) : bool :=
  match fst co with
  | MLItem i =>
      match snd co with
      | len :: rest =>
          let n := Z.to_nat len in
          zlist_eqb (skipn n rest) (enc_parse (Some (norm i)))
      | [] => false
      end
  | MLLine _ => match snd co with (-1)%Z :: _ => false | _ => true end
  end.

(** the rules half of C18 is exercised on the implementation only: the harness reports
    [roundtrip_ok; drop_failures; type_failures; truncation_failures; nfields] *)
Definition rj_ok (co : N * list Z) : bool :=
  match snd co with
  | [1%Z; 0%Z; 0%Z; 0%Z; _] => true
  | _ => false
  end.
