From SV Require Import Model.Base Model.Manager Spec.C10Spec Spec.C11Spec Run.Common Run.RunMgr.
Open Scope N_scope.

(** commands of a C11 identity case (rules by pool index) *)
Inductive icmd := ILoadAll (ixs : list nat) | ILoadRes (res : N) (ixs : list nat) | IAppend (ix : nat)
                | IClear | IClearRes (res : N) | IToks (res : N).
Record icase := mkICase { ic_family : N; ic_pool : list rule; ic_ops : list icmd }.

Definition to_c11 (pool : list rule) (x : icmd) : list c11cmd :=
  match x with
  | ILoadAll ixs => [CM (MLoadAll (pick pool ixs))]
  | ILoadRes res ixs => [CM (MLoadRes res (pick pool ixs))]
  | IAppend ix => match pick pool [ix] with [r] => [CM (MAppend r)] | _ => [] end
  | IClear => [CM MClear]
  | IClearRes res => [CM (MClearRes res)]
  | IToks res => [CT res]
  end.

(** observations: per command a length-prefixed list; for IToks triples (rule id, object, statistic) *)
Fixpoint triples (pool : list rule) (l : list Z) : option idobs :=
  match l with
  | [] => Some []
  | id :: a :: b :: tl =>
      match find_by_id (Z.to_N id) pool, triples pool tl with
      | Some r, Some rest => Some ((C11Spec.class_of r, Z.to_N a, Z.to_N b) :: rest)
      | _, _ => None
      end
  | _ => None
  end.

Fixpoint tok_obs (pool : list rule) (ops : list icmd) (obs : list (list Z)) : option (list idobs) :=
  match ops, obs with
  | [], [] => Some []
  | IToks _ :: ops', ob :: obs' =>
      match triples pool ob, tok_obs pool ops' obs' with
      | Some t, Some rest => Some (t :: rest)
      | _, _ => None
      end
  | _ :: ops', _ :: obs' => tok_obs pool ops' obs'
  | _, _ => None
  end.

(** C11 (identity) on the implementation's trace *)
Definition spec_c11 (co : icase * list Z) : bool :=
  let c := fst co in
  match split_obs (length (ic_ops c)) (snd co) with
  | None => false
  | Some obs =>
      match tok_obs (ic_pool c) (ic_ops c) obs with
      | None => false
      | Some ids => ok_c11 (ic_family c =? 3) ref0 [] (flat_map (to_c11 (ic_pool c)) (ic_ops c)) ids
      end
  end.

(** the model satisfies the same predicate on the same commands (also a theorem, Props/C11.v) *)
Definition agree11 (co : icase * list Z) : bool :=
  let c := fst co in
  let cmds := flat_map (to_c11 (ic_pool c)) (ic_ops c) in
  ok_c11 (ic_family c =? 3) ref0 [] cmds (c11_run (ic_family c =? 3) mgr0 cmds).
