(** Correspondence entry point for flow throttling (C07 flow part). *)
From SV Require Import Model.Base Model.F64 Model.Throttle Run.Common.
Open Scope Z_scope.

(** rules given as (id, threshold bits, maxq ms, stat interval ms) *)
Record tcase := mkTCase { tc_base_ns : Z; tc_rules : list (N * Z * N * N); tc_ops : list tcmd }.

Definition rule_of (x : N * Z * N * N) : trule :=
  let '(id, bits, mq, st) := x in mkTR id (f64_of_bits bits) mq st.

Fixpoint find_trule (id : N) (l : list (N * Z * N * N)) : option trule :=
  match l with
  | [] => None
  | x :: tl => if (fst (fst (fst x)) =? id)%N then Some (rule_of x) else find_trule id tl
  end.

Fixpoint mem_N (x : N) (l : list N) : bool :=
  match l with [] => false | y :: tl => (x =? y)%N || mem_N x tl end.
Fixpoint nodup_N (l : list N) : bool :=
  match l with [] => true | x :: tl => negb (mem_N x tl) && nodup_N tl end.

Definition arrange_t (given : list (N * Z * N * N)) (seen : list N) : option (list trule) :=
  if (length given =? length seen)%nat && nodup_N seen && forallb (fun x => mem_N (fst (fst (fst x))) seen) given
  then Some (flat_map (fun id => match find_trule id given with Some r => [r] | None => [] end) seen)
  else None.

Definition take_ids (obs : list Z) : option (list N * list Z) :=
  match obs with
  | [] => None
  | n :: tl => let k := Z.to_nat n in
               if (Nat.leb k (length tl)) then Some (map Z.to_N (firstn k tl), skipn k tl) else None
  end.

Definition enc_t (base : Z) (o : tobs) : list Z :=
  match o with
  | TOAdmit t => [0; t - base]
  | TOBlock r t => [1; Z.of_N r; t - base]
  | TOTick => [3]
  | TOPanic => [-1]
  end.

Fixpoint decode_t (base : Z) (ops : list tcmd) (obs : list Z) : option (list tobs) :=
  match ops with
  | [] => match obs with [] => Some [] | _ => None end
  | x :: ops' =>
      match x, obs with
      | _, [(-1)] => Some [TOPanic]
      | TB _, 0 :: t :: tl => option_map (cons (TOAdmit (base + t))) (decode_t base ops' tl)
      | TB _, 1 :: r :: t :: tl => option_map (cons (TOBlock (Z.to_N r) (base + t))) (decode_t base ops' tl)
      | TA _, 3 :: tl => option_map (cons TOTick) (decode_t base ops' tl)
      | _, _ => None
      end
  end.

Definition prepare_t (co : tcase * list Z) : option (tworld * list Z) :=
  let c := fst co in
  match take_ids (snd co) with
  | None => None
  | Some (ids, rest) =>
      match arrange_t (tc_rules c) ids with
      | None => None
      | Some rs => Some (mkTW (tc_base_ns c) (map (fun r => (r, 0)) rs), rest)
      end
  end.

Definition agree (co : tcase * list Z) : bool :=
  match prepare_t co with
  | None => false
  | Some (w, rest) => zlist_eqb (flat_map (enc_t (tc_base_ns (fst co))) (trun w (tc_ops (fst co)))) rest
  end.
