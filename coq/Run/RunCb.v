(** Correspondence entry point for the circuit-breaker model (C03). *)
From SV Require Import Model.Base Model.F64 Model.LeapArray Model.Breaker Run.Common.
Open Scope N_scope.

(** rules as (id, strategy, retry, min_req, interval, buckets, max_rt, threshold bits) *)
Record bcase := mkBCase { bc_base : N; bc_rules : list (N * strategy * N * N * N * N * N * Z); bc_ops : list bcmd }.

Definition zN (n : N) : Z := Z.of_N n.

Definition brule_of (x : N * strategy * N * N * N * N * N * Z) : brule :=
  let '(id, st, retry, minr, ivl, bk, mrt, bits) := x in mkBR id st retry minr ivl bk mrt (f64_of_bits bits).

Fixpoint find_brule (id : N) (l : list (N * strategy * N * N * N * N * N * Z)) : option brule :=
  match l with
  | [] => None
  | x :: tl => let r := brule_of x in if br_id r =? id then Some r else find_brule id tl
  end.

Fixpoint nodup_N (l : list N) : bool :=
  match l with [] => true | x :: tl => negb (mem_N x tl) && nodup_N tl end.

Definition arrange_b (given : list (N * strategy * N * N * N * N * N * Z)) (seen : list N) : option (list brule) :=
  if (length given =? length seen)%nat && nodup_N seen && forallb (fun x => mem_N (br_id (brule_of x)) seen) given
  then Some (flat_map (fun id => match find_brule id given with Some r => [r] | None => [] end) seen)
  else None.

Definition take_ids (obs : list Z) : option (list N * list Z) :=
  match obs with
  | [] => None
  | n :: tl => let k := Z.to_nat n in
               if (Nat.leb k (length tl)) then Some (map Z.to_N (firstn k tl), skipn k tl) else None
  end.

Definition st_code (s : bstate) : Z := match s with Closed => 0 | HalfOpen => 1 | Open => 2 end%Z.

Definition enc_tr (tr : list transition) : list Z :=
  Z.of_nat (length tr) :: flat_map (fun t : transition => let '(r, a, b) := t in [zN r; st_code a; st_code b]) tr.

Definition enc_states (base : N) (l : list (bstate * N)) : list Z :=
  flat_map (fun sr : bstate * N => [st_code (fst sr); if snd sr =? 0 then (-1)%Z else (zN (snd sr) - zN base)%Z]) l.

Definition enc_b (base : N) (x : bobs * list (bstate * N)) : list Z :=
  (match fst x with
   | BOAdmit tr => 0%Z :: enc_tr tr
   | BOBlock bt tr => 1%Z :: zN bt :: enc_tr tr
   | BOExited tr => 2%Z :: enc_tr tr
   | BONoEntry => [20%Z; 0%Z]
   | BOTick => [3%Z; 0%Z]
   end) ++ enc_states base (snd x).

Definition prepare_b (co : bcase * list Z) : option (bworld * list Z) :=
  let c := fst co in
  match take_ids (snd co) with
  | None => None
  | Some (ids, rest) =>
      match arrange_b (bc_rules c) ids with
      | None => None
      | Some rs => Some (mkBW (bc_base c) (map brk0 rs) [], rest)
      end
  end.

Definition agree (co : bcase * list Z) : bool :=
  match prepare_b co with
  | None => false
  | Some (w, rest) => zlist_eqb (flat_map (enc_b (bc_base (fst co))) (brun w (bc_ops (fst co)))) rest
  end.
