(** Correspondence entry point for concurrent entries (C14). *)
From SV Require Import Model.Base Model.LeapArray Model.World Model.Conc Spec.C14Spec Run.Common.
Open Scope N_scope.

Record ccase := mkCCase { cc_base : N; cc_mode : N; cc_progs : list (list top); cc_steps : list (nat * N); cc_free : bool }.

Definition zN (n : N) : Z := Z.of_N n.

(** take [k] groups of [w] numbers *)
Fixpoint groups (k w : nat) (l : list Z) : option (list (list Z) * list Z) :=
  match k with
  | O => Some ([], l)
  | S k' => if Nat.leb w (length l)
            then match groups k' w (skipn w l) with
                 | Some (gs, rest) => Some (firstn w l :: gs, rest)
                 | None => None end
            else None
  end.
Definition counted (w : nat) (l : list Z) : option (list (list Z) * list Z) :=
  match l with [] => None | n :: tl => groups (Z.to_nat n) w tl end.

Definition zb_of (z : Z) : bool := negb (z =? 0)%Z.

(** the harness output: all_done, trace, builds, exits, node, inbound node, then the clock values (relative
    to the base) at which each build / exit had returned *)
Definition parse_full (obs : list Z) : option (c14obs * list (N * N) * list Z * list Z) :=
  match obs with
  | d :: r0 =>
      match counted 2 r0 with
      | Some (tr, r1) =>
          match counted 4 r1 with
          | Some (bs, r2) =>
              match counted 4 r2 with
              | Some (xs, tok :: conc :: pass :: comp :: rt :: iconc :: ipass :: icomp :: irt :: r3) =>
                  match counted 1 r3 with
                  | Some (bt, r4) =>
                      match counted 1 r4 with
                      | Some (xt, []) =>
                          let n := Z.to_N in
                          let bl := flat_map (fun g => match g with [a; b; c; e] => [(n a, n b, n c, zb_of e)] | _ => [] end) bs in
                          let xl := flat_map (fun g => match g with [a; b; c; e] => [(n a, n b, zb_of c, n e)] | _ => [] end) xs in
                          let tl := flat_map (fun g => match g with [a; b] => [(n a, n b)] | _ => [] end) tr in
                          Some (mkO (zb_of d) bl xl (n tok) (n conc) (n pass) (n comp) (n rt) (n iconc) (n ipass) (n icomp) (n irt),
                                filter (fun x => negb (snd x =? 0)) tl,        (* the order in which threads reach "start" is the OS's *)
                                concat bt, concat xt)
                      | _ => None
                      end
                  | None => None
                  end
              | _ => None
              end
          | None => None
          end
      | None => None
      end
  | [] => None
  end.
Definition parse (obs : list Z) : option (c14obs * list (N * N)) :=
  match parse_full obs with Some (o, tr, _, _) => Some (o, tr) | None => None end.

Definition enc_obs (o : c14obs) (tr : list (N * N)) : list Z :=
  [zb (o_done o)] ++ flat_map (fun x => [zN (fst x); zN (snd x)]) tr
  ++ [(-1)%Z] ++ flat_map (fun x => let '(a, b, c, e) := x in [zN a; zN b; zN c; zb e]) (o_builds o)
  ++ [(-1)%Z] ++ flat_map (fun x => let '(a, b, c, e) := x in [zN a; zN b; zb c; zN e]) (o_exits o)
  ++ [(-1)%Z; zN (o_tok o); zN (o_conc o); zN (o_pass o); zN (o_complete o); zN (o_rt o);
      zN (o_iconc o); zN (o_ipass o); zN (o_icomplete o); zN (o_irt o)].

(** model == implementation: same point trace, same entries, same final readings *)
Definition agree (co : ccase * list Z) : bool :=
  let c := fst co in
  match parse (snd co) with
  | None => false
  | Some (o, tr) =>
      let '(mo, mtr) := model_obs false (cc_base c) (cc_mode c) (cc_progs c) (cc_steps c) in
      if cc_free c then
        (* the threads ran freely in parallel: no point trace, and the order in which entries complete is the
           machine's; what every schedule must agree on (by C14_accounting_every_schedule, with the clock
           frozen in one bucket) are the final readings *)
        zlist_eqb (enc_obs (mkO (o_done mo) [] [] (o_tok mo) (o_conc mo) (o_pass mo) (o_complete mo) (o_rt mo)
                                (o_iconc mo) (o_ipass mo) (o_icomplete mo) (o_irt mo)) [])
                  (enc_obs (mkO (o_done o) [] [] (o_tok o) (o_conc o) (o_pass o) (o_complete o) (o_rt o)
                                (o_iconc o) (o_ipass o) (o_icomplete o) (o_irt o)) [])
      else zlist_eqb (enc_obs mo (map (fun x => (fst x, pt_code (snd x))) mtr)) (enc_obs o tr)
  end.

(** "never exceed what was recorded", per window: the final readings cover the two 500 ms buckets up to the final
    clock value; only operations that had not yet returned before that window began can have contributed
    (this sharper bound is evaluated on traces only; the theorem states the cumulative one) *)
Definition obs_times (obs : list Z) : list Z * list Z :=
  match parse_full obs with Some (_, _, bt, xt) => (bt, xt) | None => ([], []) end.
Definition window_bound (c : ccase) (o : c14obs) (times : list Z * list Z) : bool :=
  let final := (Z.of_N (cc_base c) + Z.of_N (total_dt (cc_steps c)))%Z in
  let lo := (Z.of_N (start G (Z.to_N final)) - 500 - Z.of_N (cc_base c))%Z in         (* relative to the base *)
  let pre := if (cc_mode c =? 2) && (lo <=? 0)%Z then 1 else 0 in
  let keepb := map (fun t => (lo <=? t)%Z) (fst times) in
  let keepx := map (fun t => (lo <=? t)%Z) (snd times) in
  let sel {A} (keep : list bool) (l : list A) : list A := map snd (filter fst (combine keep l)) in
  let bs := sel keepb (o_builds o) in
  let xs := sel keepx (o_exits o) in
  (length (fst times) =? length (o_builds o))%nat && (length (snd times) =? length (o_exits o))%nat &&
  (o_pass o <=? pre + b_batches false bs) && (o_complete o <=? pre + x_batches false xs) && (o_rt o <=? x_rts false xs) &&
  (o_ipass o <=? pre + b_batches true bs) && (o_icomplete o <=? pre + x_batches true xs) && (o_irt o <=? x_rts true xs).

(** C14 on the implementation's observations *)
Definition spec_c14 (co : ccase * list Z) : bool :=
  let c := fst co in
  match parse (snd co) with
  | None => false
  | Some (o, tr) =>
      negb (existsb (fun x => 90 <=? snd x) tr) &&     (* 99 = a thread panicked, 98 = unknown point *)
      ok_c14 (cc_base c) (cc_mode c) (cc_progs c) (cc_steps c) o &&
      window_bound c o (obs_times (snd co))
  end.

(** for diagnosis *)
Definition show (co : ccase * list Z) : list Z * list Z :=
  let c := fst co in
  match parse (snd co) with
  | None => ([], [])
  | Some (o, tr) =>
      let '(mo, mtr) := model_obs false (cc_base c) (cc_mode c) (cc_progs c) (cc_steps c) in
      (enc_obs mo (map (fun x => (fst x, pt_code (snd x))) mtr), enc_obs o tr)
  end.

(** first touch of brand-new resources by several real threads at once (no model run: the statement
    is that of C14_one_node): every round must end with one shared, registered node holding all counts *)
Record ftcase := mkFT { ft_threads : N; ft_rounds : N }.
Definition agree_ft (co : ftcase * list Z) : bool := true.
Definition spec_ft (co : ftcase * list Z) : bool :=
  match snd co with
  | [rounds; bad] => (rounds =? Z.of_N (ft_rounds (fst co)))%Z && (bad =? 0)%Z
  | _ => false
  end.
