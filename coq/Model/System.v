(** Executable model of system adaptive protection:
      core/system/slot.rs (can_pass_check, check_bbr_simple), the inbound node it reads
      (core/stat/node_storage.rs INBOUND_NODE, resource_node.rs max_avg / qps / avg_rt / min_rt)
      and the statistics slot that feeds it.  Sequential semantics.  Model only. *)
From SV Require Export Model.Base Model.LeapArray Model.World.
From SV Require Import Model.F64.
Open Scope N_scope.

Inductive smetric := MLoad | MAvgRT | MConc | MQps | MCpu.
Record srule := mkSR { s_id : N; s_metric : smetric; s_bbr : bool; s_thr : f64 }.

Record sworld := mkSW {
  sw_cfg : cfg;
  sw_now : N;
  sw_inb : node;                       (* the global inbound node *)
  sw_load : f64;                       (* system_metric::current_load() *)
  sw_cpu : f64;                        (* current_cpu_usage() as f64 *)
  sw_rules : list srule;               (* in the order the slot iterates them *)
  sw_open : list (N * (N * N * bool))  (* id -> (batch, start, inbound) *)
}.

Definition defwin (c : cfg) : win := mkW (c_msc c) (c_miv c).

Definition rget {A} (d : A) (r : rres A) : A := match r with ROk x => x | RPanic => d end.

(** the readings of the inbound node *)
Definition inb_qps (w : sworld) : f64 :=
  qps_of_sum (defwin (sw_cfg w)) (rget 0 (sum_with_time (c_total (sw_cfg w)) (defwin (sw_cfg w)) (n_slots (sw_inb w)) (sw_now w) Pass)).
Definition inb_conc (w : sworld) : f64 := f64_of_N (n_conc (sw_inb w)).
Definition inb_avg_rt (w : sworld) : f64 :=
  let g := c_total (sw_cfg w) in let wn := defwin (sw_cfg w) in
  avg_of (rget 0 (sum_with_time g wn (n_slots (sw_inb w)) (sw_now w) Rt))
         (rget 0 (sum_with_time g wn (n_slots (sw_inb w)) (sw_now w) Complete)).
Definition inb_min_rt (w : sworld) : f64 :=
  f64_of_N (rget 0 (win_min_rt (c_total (sw_cfg w)) (defwin (sw_cfg w)) (n_slots (sw_inb w)) (sw_now w))).
(** max_avg(Complete) = max_of_single_bucket as f64 * sample_count as f64 / interval_ms as f64 * 1000.0 *)
Definition inb_max_complete (w : sworld) : f64 :=
  let c := sw_cfg w in
  let m := rget 0 (win_max_single (c_total c) (defwin c) (n_slots (sw_inb w)) (sw_now w) Complete) in
  fmul (fdiv (fmul (f64_of_N m) (f64_of_N (c_msc c))) (f64_of_N (c_miv c))) f64_thousand.

(** check_bbr_simple: true = the BBR estimate says there is still capacity *)
Definition bbr_ok (w : sworld) : bool :=
  let conc := inb_conc w in
  negb (fgt conc (f64_of_Z 1) && fgt conc (fdiv (fmul (inb_max_complete w) (inb_min_rt w)) f64_thousand)).

(** can_pass_check: (passes?, observed value) *)
Definition can_pass (w : sworld) (r : srule) : bool * f64 :=
  match s_metric r with
  | MQps => let v := inb_qps w in (flt v (s_thr r), v)
  | MConc => let v := inb_conc w in (flt v (s_thr r), v)
  | MAvgRT => let v := inb_avg_rt w in (flt v (s_thr r), v)
  | MLoad => let v := sw_load w in (negb (fgt v (s_thr r) && (negb (s_bbr r) || negb (bbr_ok w))), v)
  | MCpu => let v := sw_cpu w in (negb (fgt v (s_thr r) && (negb (s_bbr r) || negb (bbr_ok w))), v)
  end.

Fixpoint sys_slot (w : sworld) (rs : list srule) : option (N * f64) :=
  match rs with
  | [] => None
  | r :: tl => let '(ok, v) := can_pass w r in if ok then sys_slot w tl else Some (s_id r, v)
  end.

Inductive scmd :=
| SB (id batch : N) (inbound : bool)
| SX (id : N)
| SA (dt : N)
| SLoad (v : f64)
| SCpu (v : f64).

Inductive sobs := SOAdmit | SOBlock (rule : N) (value : f64) | SOExited | SONoEntry | SOTick.

Fixpoint find_sopen (id : N) (l : list (N * (N * N * bool))) : option ((N * N * bool) * list (N * (N * N * bool))) :=
  match l with
  | [] => None
  | (i, e) :: tl => if i =? id then Some (e, tl)
                    else match find_sopen id tl with Some (e', tl') => Some (e', (i, e) :: tl') | None => None end
  end.

Definition sexec (w : sworld) (x : scmd) : sworld * sobs :=
  let c := sw_cfg w in
  match x with
  | SA dt => (mkSW c (sw_now w + dt) (sw_inb w) (sw_load w) (sw_cpu w) (sw_rules w) (sw_open w), SOTick)
  | SLoad v => (mkSW c (sw_now w) (sw_inb w) v (sw_cpu w) (sw_rules w) (sw_open w), SOTick)
  | SCpu v => (mkSW c (sw_now w) (sw_inb w) (sw_load w) v (sw_rules w) (sw_open w), SOTick)
  | SB id batch inbound =>
      match (if inbound then sys_slot w (sw_rules w) else None) with
      | Some (r, v) =>
          (mkSW c (sw_now w) (node_block c (sw_inb w) (sw_now w) batch) (sw_load w) (sw_cpu w) (sw_rules w) (sw_open w),
           SOBlock r v)
      | None =>
          (mkSW c (sw_now w) (if inbound then node_pass c (sw_inb w) (sw_now w) batch else sw_inb w)
                (sw_load w) (sw_cpu w) (sw_rules w) ((id, (batch, sw_now w, inbound)) :: sw_open w), SOAdmit)
      end
  | SX id =>
      match find_sopen id (sw_open w) with
      | None => (w, SONoEntry)
      | Some ((batch, start, inbound), rest) =>
          (mkSW c (sw_now w) (if inbound then node_complete c (sw_inb w) (sw_now w) batch (sw_now w - start) else sw_inb w)
                (sw_load w) (sw_cpu w) (sw_rules w) rest, SOExited)
      end
  end.

Fixpoint srun (w : sworld) (l : list scmd) : list sobs :=
  match l with
  | [] => []
  | x :: tl => let '(w', o) := sexec w x in o :: srun w' tl
  end.
