(** Executable model of
      sentinel-core/src/core/stat/base/{leap_array,bucket_leap_array,metric_bucket,
      sliding_window_metric}.rs and base/stat.rs::check_validity_for_reuse_statistic.

    Sequential semantics.  Model only: no property proofs in this file. *)
From SV Require Export Model.Base.
From SV Require Import Model.F64.

Open Scope N_scope.

(** * MetricBucket *)

Inductive mevent := Pass | Block | Complete | Error | Rt.

Definition mevent_eqb (a b : mevent) : bool :=
  match a, b with
  | Pass, Pass | Block, Block | Complete, Complete | Error, Error | Rt, Rt => true
  | _, _ => false
  end.

Definition MAX_RT : N := 60000.     (* DEFAULT_STATISTIC_MAX_RT *)

Record bucket := mkB {
  b_pass : N; b_block : N; b_complete : N; b_error : N; b_rt : N;
  b_minrt : N; b_maxc : N }.

Definition bucket0 : bucket := mkB 0 0 0 0 0 MAX_RT 0.   (* Default / reset() *)

Definition bget (ev : mevent) (b : bucket) : N :=
  match ev with
  | Pass => b_pass b | Block => b_block b | Complete => b_complete b
  | Error => b_error b | Rt => b_rt b
  end.

(** MetricBucket::add : Rt goes through add_rt (also lowers min_rt on a strictly smaller value) *)
Definition badd (ev : mevent) (n : N) (b : bucket) : bucket :=
  match ev with
  | Pass => mkB (b_pass b + n) (b_block b) (b_complete b) (b_error b) (b_rt b) (b_minrt b) (b_maxc b)
  | Block => mkB (b_pass b) (b_block b + n) (b_complete b) (b_error b) (b_rt b) (b_minrt b) (b_maxc b)
  | Complete => mkB (b_pass b) (b_block b) (b_complete b + n) (b_error b) (b_rt b) (b_minrt b) (b_maxc b)
  | Error => mkB (b_pass b) (b_block b) (b_complete b) (b_error b + n) (b_rt b) (b_minrt b) (b_maxc b)
  | Rt => mkB (b_pass b) (b_block b) (b_complete b) (b_error b) (b_rt b + n)
              (if n <? b_minrt b then n else b_minrt b) (b_maxc b)
  end.

(** MetricBucket::update_concurrency *)
Definition bconc (c : N) (b : bucket) : bucket :=
  mkB (b_pass b) (b_block b) (b_complete b) (b_error b) (b_rt b) (b_minrt b)
      (if b_maxc b <? c then c else b_maxc b).

(** A write to the current bucket. *)
Inductive wop := WAdd (ev : mevent) (n : N) | WConc (c : N).

Definition apply_w (w : wop) (b : bucket) : bucket :=
  match w with WAdd ev n => badd ev n b | WConc c => bconc c b end.

(** * LeapArray<MetricBucket> *)

(** [sc] = sample_count, [bl] = bucket_len_ms = interval_ms / sample_count. *)
Record geom := mkG { sc : N; bl : N }.
Definition iv (g : geom) : N := sc g * bl g.      (* interval_ms (when it divides) *)

(** LeapArray::new: refuses sample_count = 0 and non-dividing intervals.
    (interval_ms = 0 is accepted by the code and gives bucket_len_ms = 0.) *)
Definition ring_new (sample_count interval_ms : N) : option geom :=
  if (sample_count =? 0) || negb (interval_ms mod sample_count =? 0) then None
  else Some (mkG sample_count (interval_ms / sample_count)).

Definition slot := (N * bucket)%type.            (* (start_stamp, value) *)
Definition ring0 (g : geom) : list slot := repeat (0, bucket0) (N.to_nat (sc g)).

Definition start (g : geom) (t : N) : N := t - t mod bl g.        (* calculate_start_stamp *)
Definition idx (g : geom) (t : N) : N := (t / bl g) mod sc g.     (* time2idx *)

Inductive wres :=
| WOk (slots : list slot)
| WPast                       (* Err("invalid time stamp, cannot find bucket") *)
| WPanic.                     (* division by zero when bucket_len_ms = 0 *)

(** get_bucket_of_time followed by the write on the returned bucket. *)
Definition write (g : geom) (slots : list slot) (t : N) (w : wop) : wres :=
  if bl g =? 0 then WPanic else
  let i := N.to_nat (idx g t) in
  match nth_error slots i with
  | Some (s, v) =>
      if s =? 0 then WOk (upd slots i (start g t, apply_w w v))
      else if s =? start g t then WOk (upd slots i (s, apply_w w v))
      else if s <? start g t then WOk (upd slots i (start g t, apply_w w bucket0))
      else WPast
  | None => WPanic
  end.

(** BucketWrap::is_deprecated *)
Definition deprecated (now interval s : N) : bool := (s <? now) && (interval <? now - s).

(** get_valid_values_conditional *)
Definition valid_values (g : geom) (slots : list slot) (now : N) (cond : N -> bool) : list slot :=
  filter (fun sl : slot => negb (deprecated now (iv g) (fst sl)) && cond (fst sl)) slots.

(** BucketLeapArray::count_with_time *)
Definition sum_get (ev : mevent) (l : list slot) : N :=
  fold_right (fun (sl : slot) acc => bget ev (snd sl) + acc) 0 l.
Definition count_with_time (g : geom) (slots : list slot) (now : N) (ev : mevent) : N :=
  sum_get ev (valid_values g slots now (fun _ => true)).

Definition min_minrt (l : list slot) : N :=
  fold_right (fun (sl : slot) acc => N.min (b_minrt (snd sl)) acc) MAX_RT l.
Definition max_maxc (l : list slot) : N :=
  fold_right (fun (sl : slot) acc => N.max (b_maxc (snd sl)) acc) 0 l.
Definition max_get (ev : mevent) (l : list slot) : N :=
  fold_right (fun (sl : slot) acc => N.max (bget ev (snd sl)) acc) 0 l.

(** * check_validity_for_reuse_statistic and SlidingWindowMetric *)

Definition check_stat (sample_count interval_ms : N) : bool :=
  negb ((interval_ms =? 0) || (sample_count =? 0) || negb (interval_ms mod sample_count =? 0)).

Definition check_reuse (wsc wiv psc piv : N) : bool :=
  check_stat wsc wiv && check_stat psc piv &&
  (piv mod wiv =? 0) && ((wiv / wsc) mod (piv / psc) =? 0).

(** A read-only window: its own sample count and interval over ring [g]. *)
Record win := mkW { w_sc : N; w_iv : N }.

Definition win_new (g : geom) (wsc wiv : N) : option win :=
  if check_reuse wsc wiv (sc g) (iv g) then Some (mkW wsc wiv) else None.

Inductive rres (A : Type) := ROk (x : A) | RPanic.   (* u64 underflow in bucket_start_range (debug build) *)
Arguments ROk {A}. Arguments RPanic {A}.

(** bucket_start_range: (end - interval + inner bucket len, end); [end - interval] is a
    u64 subtraction evaluated first. *)
Definition start_range (g : geom) (w : win) (t : N) : rres (N * N) :=
  if bl g =? 0 then RPanic else        (* [now % 0] in calculate_start_stamp *)
  let e := start g t in
  if e <? w_iv w then RPanic else ROk (e - w_iv w + bl g, e).

Definition satisfied (g : geom) (w : win) (slots : list slot) (now : N) : rres (list slot) :=
  match start_range g w now with
  | RPanic => RPanic
  | ROk (lo, hi) => ROk (valid_values g slots now (fun s => (lo <=? s) && (s <=? hi)))
  end.

Definition rmap {A B} (f : A -> B) (r : rres A) : rres B :=
  match r with ROk x => ROk (f x) | RPanic => RPanic end.

Definition sum_with_time g w slots now ev : rres N := rmap (sum_get ev) (satisfied g w slots now).
Definition win_min_rt g w slots now : rres N := rmap min_minrt (satisfied g w slots now).
Definition win_max_conc g w slots now : rres N := rmap max_maxc (satisfied g w slots now).
Definition win_max_single g w slots now ev : rres N := rmap (max_get ev) (satisfied g w slots now).

(** interval_s = interval_ms as f64 / 1000.0 ; qps = sum as f64 / interval_s *)
Definition interval_s (w : win) : f64 := fdiv (f64_of_N (w_iv w)) f64_thousand.
Definition qps_of_sum (w : win) (s : N) : f64 := fdiv (f64_of_N s) (interval_s w).
Definition qps_with_time g w slots now ev : rres f64 := rmap (qps_of_sum w) (sum_with_time g w slots now ev).

(** avg_rt: 0 when nothing completed, else sum(Rt) as f64 / sum(Complete) as f64 *)
Definition avg_of (rt completed : N) : f64 :=
  if completed =? 0 then f64_of_N 0 else fdiv (f64_of_N rt) (f64_of_N completed).
Definition win_avg_rt g w slots now : rres f64 :=
  match sum_with_time g w slots now Complete, sum_with_time g w slots now Rt with
  | ROk c, ROk r => ROk (avg_of r c)
  | _, _ => RPanic
  end.

(** qps_previous reads at [now - window bucket length] (u64 subtraction). *)
Definition qps_previous g w slots now ev : rres f64 :=
  let wb := w_iv w / w_sc w in
  if now <? wb then RPanic else qps_with_time g w slots (now - wb) ev.

(** * Running a history *)

Definition ev_t := (N * wop)%type.     (* (time, write) *)

(** Apply writes oldest-first; a refused write (WPast) leaves the ring unchanged, as the
    callers only log the error. *)
Fixpoint run_writes (g : geom) (slots : list slot) (evs : list ev_t) : option (list slot) :=
  match evs with
  | [] => Some slots
  | (t, w) :: tl =>
      match write g slots t w with
      | WOk s' => run_writes g s' tl
      | WPast => run_writes g slots tl
      | WPanic => None
      end
  end.
