(** Lock programs and their interleavings (C15).  A thread is a list of acquire / release
    operations on numbered locks; a lock is held by at most one thread (reader/writer locks are
    treated as exclusive, which can only add blocking); an acquire of a held lock blocks.
    Model only. *)
From SV Require Export Model.Base.

Inductive lop := Acq (l : nat) | Rel (l : nat).

Record lthr := mkLT { l_held : list nat; l_code : list lop }.

Definition holds (t : lthr) (l : nat) : bool := existsb (Nat.eqb l) (l_held t).
Definition is_free (ths : list lthr) (l : nat) : bool := forallb (fun t => negb (holds t l)) ths.

Fixpoint remove1 (l : nat) (h : list nat) : list nat :=
  match h with [] => [] | x :: tl => if Nat.eqb x l then tl else x :: remove1 l tl end.

(** one step of thread [i]; None = finished, absent or blocked *)
Definition lstep (ths : list lthr) (i : nat) : option (list lthr) :=
  match nth_error ths i with
  | Some t =>
      match l_code t with
      | [] => None
      | Acq l :: tl => if is_free ths l then Some (upd ths i (mkLT (l :: l_held t) tl)) else None
      | Rel l :: tl => Some (upd ths i (mkLT (remove1 l (l_held t)) tl))
      end
  | None => None
  end.

Inductive lreach : list lthr -> list lthr -> Prop :=
| lreach_refl : forall s, lreach s s
| lreach_step : forall s i s' s'', lstep s i = Some s' -> lreach s' s'' -> lreach s s''.

(** some thread still has work, and no thread can move *)
Definition deadlocked (ths : list lthr) : Prop :=
  (exists t, In t ths /\ l_code t <> []) /\ forall i, lstep ths i = None.

Definition start_of (progs : list (list lop)) : list lthr := map (mkLT []) progs.

(** a program respects the lock order [rank]: every acquisition happens while holding only
    lower-ranked locks; releases name held locks; everything is released at the end *)
Fixpoint ranked (rank : nat -> nat) (held : list nat) (code : list lop) : bool :=
  match code with
  | [] => match held with [] => true | _ => false end
  | Acq l :: tl => forallb (fun h => Nat.ltb (rank h) (rank l)) held && ranked rank (l :: held) tl
  | Rel l :: tl => existsb (Nat.eqb l) held && ranked rank (remove1 l held) tl
  end.

(** the acquisition contexts of a program: (lock taken, locks held then, in increasing order) *)
Fixpoint insert_nat (x : nat) (l : list nat) : list nat :=
  match l with [] => [x] | y :: tl => if Nat.leb x y then x :: y :: tl else y :: insert_nat x tl end.
Definition sort_nat (l : list nat) : list nat := fold_right insert_nat [] l.

Fixpoint contexts (held : list nat) (code : list lop) : list (nat * list nat) :=
  match code with
  | [] => []
  | Acq l :: tl => (l, sort_nat held) :: contexts (l :: held) tl
  | Rel l :: tl => contexts (remove1 l held) tl
  end.

Fixpoint balanced (held : list nat) (code : list lop) : bool :=
  match code with
  | [] => match held with [] => true | _ => false end
  | Acq l :: tl => balanced (l :: held) tl
  | Rel l :: tl => existsb (Nat.eqb l) held && balanced (remove1 l held) tl
  end.

Fixpoint natlist_eqb (a b : list nat) : bool :=
  match a, b with [], [] => true | x :: a', y :: b' => Nat.eqb x y && natlist_eqb a' b' | _, _ => false end.
Definition ctx_in (known : list (nat * list nat)) (c : nat * list nat) : bool :=
  existsb (fun k => Nat.eqb (fst k) (fst c) && natlist_eqb (snd k) (snd c)) known.
Definition ctx_ok (rank : nat -> nat) (c : nat * list nat) : bool :=
  forallb (fun h => Nat.ltb (rank h) (rank (fst c))) (snd c).
