(** IEEE-754 binary64 operations (Flocq), used wherever the Rust code performs a
    rounding floating-point operation.  Values cross the model/implementation
    boundary as their 64-bit patterns. *)
From Coq Require Import ZArith NArith Bool.
From Flocq Require Import IEEE754.BinarySingleNaN IEEE754.Binary IEEE754.Bits.

Definition f64 := binary64.
Definition f64_of_Z (z : Z) : f64 :=
  Binary.binary_normalize 53 1024 (eq_refl _) (eq_refl _) mode_NE z 0 false.
Definition f64_of_N (n : N) : f64 := f64_of_Z (Z.of_N n).
Definition fdiv (a b : f64) : f64 := b64_div mode_NE a b.
Definition fmul (a b : f64) : f64 := b64_mult mode_NE a b.
Definition fadd (a b : f64) : f64 := b64_plus mode_NE a b.
Definition fsub (a b : f64) : f64 := b64_minus mode_NE a b.
Definition fbits (x : f64) : Z := bits_of_b64 x.
Definition f64_of_bits (z : Z) : f64 := b64_of_bits z.
Definition fcmp (a b : f64) : option comparison := Binary.Bcompare 53 1024 a b.
Definition flt (a b : f64) : bool := match fcmp a b with Some Lt => true | _ => false end.
Definition fle (a b : f64) : bool := match fcmp a b with Some Lt | Some Eq => true | _ => false end.
Definition fgt (a b : f64) : bool := flt b a.
Definition fge (a b : f64) : bool := fle b a.
Definition feq (a b : f64) : bool := match fcmp a b with Some Eq => true | _ => false end.
(** Rust [x as u64] for a float: truncation toward zero, saturating, NaN -> 0. *)
Definition f64_to_u64 (x : f64) : N :=
  match x with
  | Binary.B754_nan _ _ _ _ _ => 0%N
  | Binary.B754_infinity _ _ s => if s then 0%N else 18446744073709551615%N
  | _ => let z := Binary.Btrunc 53 1024 x in
         if (z <? 0)%Z then 0%N
         else if (18446744073709551615 <? z)%Z then 18446744073709551615%N else Z.to_N z
  end.
Definition f64_thousand : f64 := f64_of_Z 1000.
