(** Executable model of the statistics part of the configuration:
      core/config/entity.rs   ConfigEntity::check (the stat fields)
      core/config/base.rs     the process-wide store and its accessors
      core/stat/resource_node.rs  ResourceNode::new (two constructions, each unwrapped)
    Model only. *)
From SV Require Export Model.Base Model.LeapArray.
Open Scope N_scope.

Record stat_cfg := mkSC { sc_total : N; iv_total : N; sc_metric : N; iv_metric : N }.

(** ConfigEntity::check, statistics part *)
Definition cfg_check (c : stat_cfg) : bool :=
  check_reuse (sc_metric c) (iv_metric c) (sc_total c) (iv_total c).

(** ResourceNode::new: None = one of the two unwraps panics *)
Definition node_new (c : stat_cfg) : option (geom * win) :=
  match ring_new (sc_total c) (iv_total c) with
  | None => None
  | Some g => match win_new g (sc_metric c) (iv_metric c) with
              | None => None
              | Some w => Some (g, w)
              end
  end.

(** The store is one cell for the whole process: every thread reads what was last set. *)
Definition store := stat_cfg.
Definition store_init (c : stat_cfg) : store := c.
Definition store_read (s : store) (thread : N) : stat_cfg := s.

(** what a process observes after offering a configuration: acceptance; the four values read
    on the initialising thread, on a thread spawned afterwards and on a worker thread that was
    already running (and had read the configuration) before; building an entry on either thread (no
    panic) and the geometry of the node that was created there *)
Definition zN (n : N) : Z := Z.of_N n.
(** the built-in defaults: 20 x 500 ms ring, metric window 2 x 500 ms *)
Definition default_stat_cfg : stat_cfg := mkSC 20 10000 2 1000.
Definition cfg_values (c : stat_cfg) : list Z := [zN (sc_total c); zN (iv_total c); zN (sc_metric c); zN (iv_metric c)].
Definition node_obs (c : stat_cfg) : list Z :=
  match node_new c with
  | Some (g, w) => [0%Z; zN (w_sc w); zN (w_iv w); zN (sc g); zN (iv g)]
  | None => [(-1)%Z; (-1)%Z; (-1)%Z; (-1)%Z; (-1)%Z]
  end.
Definition cfg_obs (c : stat_cfg) : list Z :=
  if cfg_check c then
    1%Z :: cfg_values (store_read (store_init c) 0) ++ cfg_values (store_read (store_init c) 1)
        ++ cfg_values (store_read (store_init c) 2)
        ++ node_obs (store_read (store_init c) 0) ++ node_obs (store_read (store_init c) 1)
  else 0%Z :: cfg_values default_stat_cfg.        (* rejected: the configuration in effect is still the default one *)
