(** Executable model of the rule managers that keep controllers (flow, hotspot, circuit
    breaker): core/{flow,hotspot,circuitbreaker}/rule_manager.rs —
      load_rules, load_rules_of_resource, append_rule, clear_rules, clear_rules_of_resource,
      get_rules, get_rules_of_resource, build_resource_* (reuse of equal rules' controllers and
      of reusable statistics, with removal from the old list), calculate_reuse_index_for.
    and of the plain rule-set managers (isolation): core/isolation/rule_manager.rs.

    Rules are abstract: an id, a resource (0 = the empty name), an equality class [r_key]
    (PartialEq ignores the id), validity, and a statistic-reuse class.  Resources and
    identities are numbers.  Model only. *)
From SV Require Export Model.Base.
Open Scope N_scope.

Record rule := mkRule { r_id : N; r_res : N; r_key : N; r_valid : bool; r_stat : N }.

(** PartialEq: same resource and same compared fields *)
Definition rule_eqb (a b : rule) : bool := (r_res a =? r_res b) && (r_key a =? r_key b).
(** element identity in a HashSet<Arc<Rule>>: equality of rules (the hash covers only compared fields) *)
Definition same_elem (a b : rule) : bool := rule_eqb a b.
(** is_stat_reusable *)
Definition stat_reusable (a b : rule) : bool := (r_res a =? r_res b) && (r_stat a =? r_stat b).

(** a controller / breaker: the rule object it was built for, its identity, its statistic's identity *)
Record ctl := mkCtl { c_rule : rule; c_tok : N; c_stat : N }.

Definition rmap := N -> list rule.      (* absent = [] *)
Definition cmap := N -> list ctl.
Definition set_map {A} (m : N -> A) (k : N) (v : A) : N -> A := fun k' => if k' =? k then v else m k'.

Record mgr := mkMgr {
  m_given : rmap;          (* rules as given, per resource (the "unchanged" test compares these) *)
  m_live : cmap;           (* controllers per resource *)
  m_keys : list N;         (* resources that may have entries (for whole-map operations) *)
  m_next : N               (* fresh identity counter *)
}.

Definition mgr0 : mgr := mkMgr (fun _ => []) (fun _ => []) [] 1.

(** ** sets of rules *)
Fixpoint mem_rule (r : rule) (l : list rule) : bool :=
  match l with [] => false | x :: tl => same_elem r x || mem_rule r tl end.
(** inserting into a set keeps the element that is already there: the first of equal rules stays *)
Fixpoint dedup_from (seen : list rule) (l : list rule) : list rule :=
  match l with
  | [] => []
  | x :: tl => if mem_rule x seen then dedup_from seen tl else x :: dedup_from (x :: seen) tl
  end.
Definition dedup (l : list rule) : list rule := dedup_from [] l.
Definition subset (a b : list rule) : bool := forallb (fun r => mem_rule r b) a.
Definition set_eqb (a b : list rule) : bool := subset a b && subset b a.

(** ** calculate_reuse_index_for: index of the first equal rule; index of the first
    statistic-reusable rule before it *)
Fixpoint reuse_index (r : rule) (old : list ctl) (i : nat) (reuse : option nat) : option nat * option nat :=
  match old with
  | [] => (None, reuse)
  | c :: tl =>
      if rule_eqb (c_rule c) r then (Some i, reuse)
      else reuse_index r tl (S i)
             (match reuse with Some _ => reuse | None => if stat_reusable (c_rule c) r then Some i else None end)
  end.

Fixpoint remove_nth {A} (n : nat) (l : list A) : list A :=
  match n, l with
  | _, [] => []
  | O, _ :: tl => tl
  | S k, x :: tl => x :: remove_nth k tl
  end.

(** ** build_resource_*: returns (new list, what is left of the old list, next fresh id) *)
Fixpoint build (res : N) (rules : list rule) (old : list ctl) (next : N) : list ctl * list ctl * N :=
  match rules with
  | [] => ([], old, next)
  | r :: tl =>
      if negb (r_res r =? res) then build res tl old next else
      match reuse_index r old 0 None with
      | (Some i, _) =>
          match nth_error old i with
          | Some c => let '(nw, old', nx) := build res tl (remove_nth i old) next in (c :: nw, old', nx)
          | None => build res tl old next
          end
      | (None, Some j) =>
          match nth_error old j with
          | Some c => let '(nw, old', nx) := build res tl (remove_nth j old) (next + 1) in
                      (mkCtl r next (c_stat c) :: nw, old', nx)
          | None => build res tl old next
          end
      | (None, None) =>
          let '(nw, old', nx) := build res tl old (next + 2) in (mkCtl r next (next + 1) :: nw, old', nx)
      end
  end.

Definition valid_of (l : list rule) : list rule := filter r_valid l.
Definition add_key (k : N) (l : list N) : list N := if existsb (N.eqb k) l then l else k :: l.

Inductive mop :=
| MLoadAll (rs : list rule)
| MLoadRes (res : N) (rs : list rule)
| MAppend (r : rule)
| MClear
| MClearRes (res : N).

Inductive mret := RTrue | RFalse | RErr | RUnit.

(** group the rules of a load by resource *)
Definition group (rs : list rule) (res : N) : list rule := dedup (filter (fun r => r_res r =? res) rs).
Definition res_of (rs : list rule) : list N := fold_right (fun r acc => add_key (r_res r) acc) [] rs.

(** the as-given maps are equal: same resources with entries, same sets *)
Definition given_eqb (m : mgr) (rs : list rule) : bool :=
  let ks := res_of rs in
  forallb (fun k => set_eqb (m_given m k) (group rs k)) (ks ++ m_keys m).

(** rebuild every resource of a load_rules call *)
Fixpoint build_all (ks : list N) (rs : list rule) (live : cmap) (next : N) (acc : cmap) : cmap * N :=
  match ks with
  | [] => (acc, next)
  | k :: tl =>
      let valid := valid_of (group rs k) in
      match valid with
      | [] => build_all tl rs live next acc
      | _ => let '(nw, _, nx) := build k valid (live k) next in
             build_all tl rs live nx (match nw with [] => acc | _ => set_map acc k nw end)
      end
  end.

(** [iso] : the plain rule-set managers (isolation) answer [true] to the append of an invalid rule *)
Definition mstep (iso : bool) (m : mgr) (o : mop) : mgr * mret :=
  match o with
  | MLoadAll rs =>
      if given_eqb m rs then (m, RFalse) else
      let ks := res_of rs in
      let '(live', nx) := build_all ks rs (m_live m) (m_next m) (fun _ => []) in
      (mkMgr (fun k => group rs k) live' ks nx, RTrue)
  | MLoadRes res rs =>
      if res =? 0 then (m, RErr) else
      let given := dedup rs in
      match given with
      | [] => (mkMgr (set_map (m_given m) res []) (set_map (m_live m) res []) (m_keys m) (m_next m), RTrue)
      | _ =>
          if set_eqb (m_given m res) given then (m, RFalse) else
          let '(nw, _, nx) := build res (valid_of given) (m_live m res) (m_next m) in
          (mkMgr (set_map (m_given m) res given) (set_map (m_live m) res nw) (add_key res (m_keys m)) nx, RTrue)
      end
  | MAppend r =>
      (* isolation looks the rule up among the valid rules it holds, the others in the as-given set *)
      if mem_rule r (if iso then valid_of (m_given m (r_res r)) else m_given m (r_res r)) then (m, RFalse) else
      if negb (r_valid r) then (m, if iso then RTrue else RFalse) else
      let given := m_given m (r_res r) ++ [r] in
      let '(nw, _, nx) := build (r_res r) (valid_of given) (m_live m (r_res r)) (m_next m) in
      (mkMgr (set_map (m_given m) (r_res r) given) (set_map (m_live m) (r_res r) nw)
             (add_key (r_res r) (m_keys m)) nx, RTrue)
  | MClear => (mkMgr (fun _ => []) (fun _ => []) [] (m_next m), RUnit)
  | MClearRes res => (mkMgr (set_map (m_given m) res []) (set_map (m_live m) res []) (m_keys m) (m_next m), RUnit)
  end.

(** readers *)
Definition rules_of (m : mgr) (res : N) : list rule := map c_rule (m_live m res).
Definition toks_of (m : mgr) (res : N) : list (N * N) := map (fun c => (c_tok c, c_stat c)) (m_live m res).
