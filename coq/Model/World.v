(** Sequential model of the entry pipeline over the global slot chain:
      stat prepare slot (node lookup/creation)      core/stat/stat_prepare_slot.rs, node_storage.rs
      flow slot, reject control on a direct threshold  core/flow/slot.rs, traffic_shaping/default.rs,
                                                       rule_manager.rs::generate_stat_for
      isolation slot                                 core/isolation/slot.rs
      an optional extra check slot (oracle: stands for any other rule family)
      resource statistics slot                       core/stat/stat_slot.rs, resource_node.rs
      flow standalone statistics slot                core/flow/standalone_stat_slot.rs
      EntryBuilder::build / entry exit               api/base.rs, base/entry.rs, base/slot_chain.rs
    Resources are numbered.  Model only. *)
From SV Require Export Model.Base Model.LeapArray.
Open Scope N_scope.

(** * Thresholds: an f64 as an exact value *)
Inductive thr :=
| TFin (m : Z) (e : Z)       (* m * 2^e *)
| TPosInf | TNegInf | TNaN.

(** [x > t] for an integer x (IEEE: every comparison with NaN is false) *)
Definition gt_thr (x : N) (t : thr) : bool :=
  match t with
  | TFin m e =>
      if (0 <=? e)%Z then (m * 2 ^ e <? Z.of_N x)%Z
      else (m <? Z.of_N x * 2 ^ (- e))%Z
  | TPosInf => false
  | TNegInf => true
  | TNaN => false
  end.

(** * Configuration: the global_stat and metric_stat accessors of the config module *)
Record cfg := mkCfg { c_total : geom; c_msc : N; c_miv : N }.
Definition default_cfg : cfg := mkCfg (mkG 20 500) 2 1000.

(** * Resource nodes *)
Record node := mkNode { n_slots : list slot; n_conc : N }.
Definition fresh_node (c : cfg) : node := mkNode (ring0 (c_total c)) 0.

(** a failed write (time in the past) is only logged *)
Definition node_write (c : cfg) (nd : node) (now : N) (w : wop) : node :=
  match write (c_total c) (n_slots nd) now w with
  | WOk s' => mkNode s' (n_conc nd)
  | _ => nd
  end.

(** ResourceNodeStatSlot::record_pass_for : increase_concurrency (fetch_add + update_concurrency
    of the new value), then add_count(Pass) *)
Definition node_pass (c : cfg) (nd : node) (now batch : N) : node :=
  let nd1 := mkNode (n_slots nd) (n_conc nd + 1) in
  let nd2 := node_write c nd1 now (WConc (n_conc nd + 1)) in
  node_write c nd2 now (WAdd Pass batch).
Definition node_block (c : cfg) (nd : node) (now batch : N) : node :=
  node_write c nd now (WAdd Block batch).
(** record_complete_for : add Rt, add Complete, decrease_concurrency *)
Definition node_complete (c : cfg) (nd : node) (now batch rt : N) : node :=
  let nd1 := node_write c nd now (WAdd Rt rt) in
  let nd2 := node_write c nd1 now (WAdd Complete batch) in
  mkNode (n_slots nd2) (n_conc nd2 - 1).

(** * Flow controllers (direct threshold, reject) *)

(** what generate_stat_for builds for a rule's stat_interval_ms *)
Inductive statk :=
| SDefault                                          (* the node's default metric *)
| SReuse (w : win)                                  (* read-only window over the node's ring *)
| SPrivate (g : geom) (w : win) (slots : list slot) (* own ring, fed by the standalone stat slot *)
| SBroken.                                          (* construction failed: the rule is dropped *)

Definition stat_for (c : cfg) (interval : N) : statk :=
  let tot := c_total c in
  if (interval =? 0) || (interval =? c_miv c) then SDefault else
  let scnt := if (bl tot <? interval) && (interval <? iv tot) && (interval mod bl tot =? 0)
              then interval / bl tot else 1 in
  if check_reuse scnt interval (sc tot) (iv tot) then SReuse (mkW scnt interval)
  else match ring_new scnt interval with
       | Some g => match win_new g scnt interval with
                   | Some w => SPrivate g w (ring0 g)
                   | None => SBroken
                   end
       | None => SBroken
       end.

Record fctl := mkF { f_rule : N; f_thr : thr; f_stat : statk }.

Inductive check_out := KPass | KBlock (cur : N) | KPanic.

(** RejectChecker::do_check : sum(Pass) of the rule's statistic, then
    [cur as f64 + batch as f64 > threshold] *)
Definition ctl_sum (c : cfg) (nd : node) (f : fctl) (now : N) : rres N :=
  match f_stat f with
  | SDefault => sum_with_time (c_total c) (mkW (c_msc c) (c_miv c)) (n_slots nd) now Pass
  | SReuse w => sum_with_time (c_total c) w (n_slots nd) now Pass
  | SPrivate g w slots => sum_with_time g w slots now Pass
  | SBroken => ROk 0
  end.

Definition ctl_check (c : cfg) (nd : node) (f : fctl) (now batch : N) : check_out :=
  match ctl_sum c nd f now with
  | RPanic => KPanic
  | ROk cur => if gt_thr (cur + batch) (f_thr f) then KBlock cur else KPass
  end.

(** the flow slot stops at the first blocking controller *)
Inductive slot_out := SPass | SBlock (btype : N) (rule : N) (snapshot : N) | SPanic.

Fixpoint flow_slot (c : cfg) (nd : node) (fs : list fctl) (now batch : N) : slot_out :=
  match fs with
  | [] => SPass
  | f :: tl => match ctl_check c nd f now batch with
               | KPass => flow_slot c nd tl now batch
               | KBlock cur => SBlock 1 (f_rule f) cur        (* BlockType::Flow *)
               | KPanic => SPanic
               end
  end.

(** StandaloneStatSlot::on_entry_pass : add Pass to every private ring *)
Definition ctl_record (f : fctl) (now batch : N) : fctl :=
  match f_stat f with
  | SPrivate g w slots =>
      match write g slots now (WAdd Pass batch) with
      | WOk s' => mkF (f_rule f) (f_thr f) (SPrivate g w s')
      | _ => f
      end
  | _ => f
  end.

(** * Isolation rules: (rule token, threshold) ; blocks when conc + batch > threshold.
    [iso_btype] is the block type the slot reports. *)
Definition iso_btype : N := 2.      (* BlockType::Isolation *)
Fixpoint iso_slot (nd : node) (rules : list (N * N)) (batch : N) : slot_out :=
  match rules with
  | [] => SPass
  | (r, t) :: tl => if t <? n_conc nd + batch then SBlock iso_btype r (n_conc nd)
                    else iso_slot nd tl batch
  end.

(** * The world *)
Record entry := mkE { e_res : N; e_batch : N; e_start : N; e_inbound : bool }.

Record world := mkWorld {
  w_cfg : cfg;
  w_now : N;
  w_nodes : N -> node;
  w_inbound : node;
  w_flow : N -> list fctl;
  w_iso : N -> list (N * N);
  w_open : list (N * entry)           (* admitted, not yet exited: (entry id, entry) *)
}.

Definition set_fun {A} (f : N -> A) (k : N) (v : A) : N -> A := fun k' => if k' =? k then v else f k'.

Definition world0 (c : cfg) (now : N) (flow : N -> list fctl) (iso : N -> list (N * N)) : world :=
  mkWorld c now (fun _ => fresh_node c) (fresh_node c) flow iso [].

Inductive op :=
| OBuild (id res batch : N) (inbound : bool) (extra : option N)
    (* extra = Some k : an additional check slot after the built-in ones blocks with type k *)
| OExit (id : N)
| OAdvance (dt : N).

Inductive out :=
| OutAdmit
| OutBlock (btype rule snapshot : N)
| OutExited
| OutNoEntry
| OutTick
| OutPanic.

(** the result the chain keeps is the last Blocked one *)
Definition later (a b : slot_out) : slot_out :=
  match b with SPass => a | _ => b end.

Fixpoint find_entry (id : N) (l : list (N * entry)) : option (entry * list (N * entry)) :=
  match l with
  | [] => None
  | (i, e) :: tl => if i =? id then Some (e, tl)
                    else match find_entry id tl with
                         | Some (e', tl') => Some (e', (i, e) :: tl')
                         | None => None
                         end
  end.

Definition step (w : world) (o : op) : world * out :=
  let c := w_cfg w in
  match o with
  | OAdvance dt => (mkWorld c (w_now w + dt) (w_nodes w) (w_inbound w) (w_flow w) (w_iso w) (w_open w), OutTick)
  | OBuild id res batch inbound extra =>
      let now := w_now w in
      let nd := w_nodes w res in
      let r1 := flow_slot c nd (w_flow w res) now batch in
      let r2 := iso_slot nd (w_iso w res) batch in
      let r3 := match extra with Some k => SBlock k 0 0 | None => SPass end in
      match r1 with
      | SPanic => (w, OutPanic)
      | _ =>
        match later (later r1 r2) r3 with
        | SPass =>
            let nd' := node_pass c nd now batch in
            let inb' := if inbound then node_pass c (w_inbound w) now batch else w_inbound w in
            let fl' := map (fun f => ctl_record f now batch) (w_flow w res) in
            (mkWorld c now (set_fun (w_nodes w) res nd') inb' (set_fun (w_flow w) res fl') (w_iso w)
                     ((id, mkE res batch now inbound) :: w_open w), OutAdmit)
        | SBlock bt r s =>
            let nd' := node_block c nd now batch in
            let inb' := if inbound then node_block c (w_inbound w) now batch else w_inbound w in
            (mkWorld c now (set_fun (w_nodes w) res nd') inb' (w_flow w) (w_iso w) (w_open w),
             OutBlock bt r s)
        | SPanic => (w, OutPanic)
        end
      end
  | OExit id =>
      match find_entry id (w_open w) with
      | None => (w, OutNoEntry)
      | Some (e, rest) =>
          let now := w_now w in
          let rt := now - e_start e in
          let nd' := node_complete c (w_nodes w (e_res e)) now (e_batch e) rt in
          let inb' := if e_inbound e then node_complete c (w_inbound w) now (e_batch e) rt else w_inbound w in
          (mkWorld c now (set_fun (w_nodes w) (e_res e) nd') inb' (w_flow w) (w_iso w) rest, OutExited)
      end
  end.

Fixpoint run (w : world) (ops : list op) : world * list out :=
  match ops with
  | [] => (w, [])
  | o :: tl => let '(w1, x) := step w o in let '(w2, xs) := run w1 tl in (w2, x :: xs)
  end.

(** * Readers used by observations *)
Definition node_sum (c : cfg) (nd : node) (now : N) (ev : mevent) : rres N :=
  sum_with_time (c_total c) (mkW (c_msc c) (c_miv c)) (n_slots nd) now ev.

(** * Commands of a test history and their typed observations *)
Inductive cmd :=
| WB (id res batch : N) (inbound : bool) (extra : option N)
| WX (id : N)
| WA (dt : N)
| WR (res : N)        (* read the resource node: in-flight, sums of the default metric *)
| WRI.                (* read the inbound node *)

Inductive wout :=
| ZAdmit
| ZBlock (btype rule snapshot : N)
| ZExited
| ZNoEntry
| ZTick
| ZRead (conc pass block complete rt : N)
| ZPanic.

Definition read_node (c : cfg) (nd : node) (now : N) : wout :=
  match node_sum c nd now Pass, node_sum c nd now Block, node_sum c nd now Complete, node_sum c nd now Rt with
  | ROk p, ROk b, ROk cm, ROk r => ZRead (n_conc nd) p b cm r
  | _, _, _, _ => ZPanic
  end.

Definition exec (w : world) (x : cmd) : world * wout :=
  match x with
  | WB id res batch inb extra =>
      let '(w', o) := step w (OBuild id res batch inb extra) in
      (w', match o with OutAdmit => ZAdmit | OutBlock bt r s => ZBlock bt r s | _ => ZPanic end)
  | WX id =>
      let '(w', o) := step w (OExit id) in
      (w', match o with OutExited => ZExited | OutNoEntry => ZNoEntry | _ => ZPanic end)
  | WA dt => (fst (step w (OAdvance dt)), ZTick)
  | WR res => (w, read_node (w_cfg w) (w_nodes w res) (w_now w))
  | WRI => (w, read_node (w_cfg w) (w_inbound w) (w_now w))
  end.

(** the harness stops at the first panic *)
Fixpoint run_typed (w : world) (l : list cmd) : list wout :=
  match l with
  | [] => []
  | x :: tl => let '(w', o) := exec w x in
               match o with ZPanic => [ZPanic] | _ => o :: run_typed w' tl end
  end.
