(** Executable model of the circuit-breaker family:
      core/circuitbreaker/breaker/mod.rs        (BreakerBase: state, transitions, exit hook, try_pass)
      core/circuitbreaker/breaker/{slow_request,error_ratio,error_count}.rs  (on_request_complete)
      core/circuitbreaker/breaker/stat.rs       (Counter ring = LeapArray<Counter>)
      core/circuitbreaker/slot.rs, stat_slot.rs
    Sequential semantics.  The Counter ring is the LeapArray model with [total] kept in the
    Pass field and [target] in the Error field of a bucket.  Model only. *)
From SV Require Export Model.Base Model.LeapArray.
From SV Require Import Model.F64.
Open Scope N_scope.

Inductive strategy := SlowRatio | ErrRatio | ErrCount.
Inductive bstate := Closed | HalfOpen | Open.

Definition bstate_eqb (a b : bstate) : bool :=
  match a, b with Closed, Closed | HalfOpen, HalfOpen | Open, Open => true | _, _ => false end.

Record brule := mkBR {
  br_id : N;
  br_strategy : strategy;
  br_retry_ms : N;
  br_min_req : N;
  br_interval : N;           (* stat_interval_ms *)
  br_buckets : N;            (* stat_sliding_window_bucket_count as given *)
  br_max_rt : N;             (* max_allowed_rt_ms *)
  br_thr : f64               (* threshold *)
}.

(** get_rule_stat_sliding_window_bucket_count *)
Definition bucket_count (r : brule) : N :=
  if (br_buckets r =? 0) || negb (br_interval r mod br_buckets r =? 0) then 1 else br_buckets r.

Definition brule_geom (r : brule) : geom := mkG (bucket_count r) (br_interval r / bucket_count r).

Record brk := mkBrk {
  b_rule : brule;
  b_state : bstate;
  b_retry_at : N;            (* next_retry_timestamp_ms *)
  b_ring : list slot
}.

Definition brk0 (r : brule) : brk := mkBrk r Closed 0 (ring0 (brule_geom r)).

(** a state change as seen by listeners: (rule, previous state, new state) *)
Definition transition := (N * bstate * bstate)%type.

(** whether a completion counts as bad for the strategy *)
Definition is_bad (r : brule) (rt : N) (err : bool) : bool :=
  match br_strategy r with
  | SlowRatio => br_max_rt r <? rt
  | ErrRatio | ErrCount => err
  end.

(** the threshold test on the window totals *)
Definition threshold_met (r : brule) (bad total : N) : bool :=
  match br_strategy r with
  | ErrCount => f64_to_u64 (br_thr r) <=? bad
  | SlowRatio | ErrRatio => fge (fdiv (f64_of_N bad) (f64_of_N total)) (br_thr r)
  end.

(** reset_metric: zero every currently valid counter (stamps stay) *)
Definition reset_valid (g : geom) (slots : list slot) (now : N) : list slot :=
  map (fun sl : slot => if deprecated now (iv g) (fst sl) then sl else (fst sl, bucket0)) slots.

Definition ring_add (g : geom) (slots : list slot) (now : N) (w : wop) : list slot :=
  match write g slots now w with WOk s' => s' | _ => slots end.

(** on_request_complete *)
Definition on_complete (b : brk) (now rt : N) (err : bool) : brk * list transition :=
  let r := b_rule b in
  let g := brule_geom r in
  match write g (b_ring b) now (WAdd Pass 1) with
  | WOk s1 =>
      let bad := is_bad r rt err in
      let s2 := if bad then ring_add g s1 now (WAdd Error 1) else s1 in
      let total := count_with_time g s2 now Pass in
      let nbad := count_with_time g s2 now Error in
      match b_state b with
      | HalfOpen =>
          if bad then (mkBrk r Open (now + br_retry_ms r) s2, [(br_id r, HalfOpen, Open)])
          else (mkBrk r Closed (b_retry_at b) (reset_valid g s2 now), [(br_id r, HalfOpen, Closed)])
      | Closed =>
          if (br_min_req r <=? total) && threshold_met r nbad total
          then (mkBrk r Open (now + br_retry_ms r) s2, [(br_id r, Closed, Open)])
          else (mkBrk r Closed (b_retry_at b) s2, [])
      | Open => (mkBrk r Open (b_retry_at b) s2, [])
      end
  | _ => (b, [])          (* cannot get the current counter: logged, nothing happens *)
  end.

(** try_pass: (admitted?, breaker, transitions, did this entry become the probe?) *)
Definition try_pass (b : brk) (now : N) : bool * brk * list transition * bool :=
  match b_state b with
  | Closed => (true, b, [], false)
  | HalfOpen => (false, b, [], false)
  | Open =>
      if b_retry_at b <=? now
      then (true, mkBrk (b_rule b) HalfOpen (b_retry_at b) (b_ring b), [(br_id (b_rule b), Open, HalfOpen)], true)
      else (false, b, [], false)
  end.

(** the breaker slot: breakers in order until the first refusal.
    Returns (breakers, blocked?, transitions, ids of breakers probing through this entry) *)
Fixpoint cb_slot (bs : list brk) (now : N) : list brk * bool * list transition * list N :=
  match bs with
  | [] => ([], false, [], [])
  | b :: tl =>
      let '(ok, b', tr, probe) := try_pass b now in
      if ok then
        let '(tl', blocked, tr', probes) := cb_slot tl now in
        (b' :: tl', blocked, tr ++ tr', if probe then br_id (b_rule b) :: probes else probes)
      else (b' :: tl, true, tr, [])
  end.

Fixpoint mem_N (x : N) (l : list N) : bool :=
  match l with [] => false | y :: tl => (x =? y) || mem_N x tl end.

(** exit hooks of a blocked probe entry: Half-Open goes back to Open (retry time kept) *)
Fixpoint rollback (bs : list brk) (probes : list N) : list brk * list transition :=
  match bs with
  | [] => ([], [])
  | b :: tl =>
      let '(tl', tr) := rollback tl probes in
      if mem_N (br_id (b_rule b)) probes && bstate_eqb (b_state b) HalfOpen
      then (mkBrk (b_rule b) Open (b_retry_at b) (b_ring b) :: tl', (br_id (b_rule b), HalfOpen, Open) :: tr)
      else (b :: tl', tr)
  end.

Fixpoint complete_all (bs : list brk) (now rt : N) (err : bool) : list brk * list transition :=
  match bs with
  | [] => ([], [])
  | b :: tl => let '(b', tr) := on_complete b now rt err in
               let '(tl', tr') := complete_all tl now rt err in (b' :: tl', tr ++ tr')
  end.

(** ** A resource guarded by circuit breakers (plus an oracle standing for other rules) *)
Record bworld := mkBW { bw_now : N; bw_brks : list brk; bw_open : list (N * N) (* id, start *) }.

Inductive bcmd :=
| BB (id : N) (other_blocks : bool)     (* build; other_blocks: another rule rejects this entry *)
| BX (id : N) (err : bool)              (* exit, with or without a recorded error *)
| BA (dt : N).

Inductive bobs :=
| BOAdmit (tr : list transition)
| BOBlock (btype : N) (tr : list transition)
| BOExited (tr : list transition)
| BONoEntry
| BOTick.

Fixpoint find_open (id : N) (l : list (N * N)) : option (N * list (N * N)) :=
  match l with
  | [] => None
  | (i, s) :: tl => if i =? id then Some (s, tl)
                    else match find_open id tl with Some (s', tl') => Some (s', (i, s) :: tl') | None => None end
  end.

Definition bexec (w : bworld) (x : bcmd) : bworld * bobs :=
  match x with
  | BA dt => (mkBW (bw_now w + dt) (bw_brks w) (bw_open w), BOTick)
  | BB id other =>
      let '(bs, blocked, tr, probes) := cb_slot (bw_brks w) (bw_now w) in
      if blocked || other then
        let '(bs', tr') := rollback bs probes in
        (mkBW (bw_now w) bs' (bw_open w),
         BOBlock (if other then 100 else 3) (tr ++ tr'))     (* the oracle slot runs last: its type wins *)
      else (mkBW (bw_now w) bs ((id, bw_now w) :: bw_open w), BOAdmit tr)
  | BX id err =>
      match find_open id (bw_open w) with
      | None => (w, BONoEntry)
      | Some (start, rest) =>
          let '(bs, tr) := complete_all (bw_brks w) (bw_now w) (bw_now w - start) err in
          (mkBW (bw_now w) bs rest, BOExited tr)
      end
  end.

Fixpoint brun (w : bworld) (l : list bcmd) : list (bobs * list (bstate * N)) :=
  match l with
  | [] => []
  | x :: tl => let '(w', o) := bexec w x in
               (o, map (fun b => (b_state b, b_retry_at b)) (bw_brks w')) :: brun w' tl
  end.
