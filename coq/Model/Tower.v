(** Executable model of the Tower middleware (middleware/tower/src/lib.rs, macro
    deal_with_sentinel!) over a resource guarded by one isolation rule of threshold [thr]:
    build an entry; if admitted call the inner service once and, when its future completes
    (with a response or an error), exit the entry; if rejected answer with the fallback's result (a response or an error) or, without
    fallback, an error — never calling the inner service.  [fb]: 0 no fallback, 1 the fallback
    answers with a response, 2 the fallback answers with an error.  A future dropped before completion never exits.
    Model only. *)
From SV Require Export Model.Base.
Open Scope N_scope.

Inductive ikind := ReadyOk | ReadyErr | PendOk | PendErr.
Definition is_pending (k : ikind) : bool := match k with PendOk | PendErr => true | _ => false end.
Definition is_ok (k : ikind) : bool := match k with ReadyOk | PendOk => true | _ => false end.

Record treq := mkQ { q_kind : ikind; q_drop : bool }.   (* q_drop: the caller drops the future after one poll *)

Inductive tresp := TROkInner | TROkFallback | TRErr | TRDropped.

(** observation of one request: inner calls made, response, in-flight afterwards, polls of the inner future *)
Record tobs1 := mkTO { o_calls : N; o_resp : tresp; o_inflight : N; o_polls : N }.

Definition tcall (thr : N) (fb : N) (infl : N) (q : treq) : N * tobs1 :=
  if infl + 1 <=? thr then
    (* admitted: in flight until the inner future completes *)
    if q_drop q && is_pending (q_kind q) then (infl + 1, mkTO 1 TRDropped (infl + 1) 1)
    else (infl, mkTO 1 (if is_ok (q_kind q) then TROkInner else TRErr) infl (if is_pending (q_kind q) then 3 else 1))
  else (infl, mkTO 0 (if fb =? 1 then TROkFallback else TRErr) infl 0).

Fixpoint trun_tower (thr : N) (fb : N) (infl : N) (l : list treq) : list tobs1 :=
  match l with
  | [] => []
  | q :: tl => let '(infl', o) := tcall thr fb infl q in o :: trun_tower thr fb infl' tl
  end.
