(** Executable model of the hotspot (per-parameter) rule family:
      core/hotspot/traffic_shaping/mod.rs  (Controller: extract_args, concurrency check)
      core/hotspot/traffic_shaping/reject.rs      (token bucket per value)
      core/hotspot/traffic_shaping/throttling.rs  (pacing per value, millisecond clock)
      core/hotspot/slot.rs, concurrency_stat_slot.rs
    Sequential semantics.  The LRU counters are modelled as maps without eviction (the
    properties are stated for "while the number of distinct values stays within capacity").
    Parameter values and keys are numbered.  Model only. *)
From SV Require Export Model.Base.
Open Scope N_scope.

Inductive hkind := HConc | HReject | HThrottle.

Record hrule := mkHR {
  h_id : N;
  h_kind : hkind;
  h_thr : N;            (* threshold *)
  h_burst : N;          (* burst_count *)
  h_dur : N;            (* duration_in_sec *)
  h_maxq : N;           (* max_queueing_time_ms *)
  h_idx : Z;            (* param_index *)
  h_key : N;            (* param_key, 0 = empty *)
  h_spec : list (N * N) (* specific_items: value -> threshold *)
}.

Fixpoint assoc (k : N) (l : list (N * N)) : option N :=
  match l with [] => None | (a, b) :: tl => if a =? k then Some b else assoc k tl end.

Definition fmap := N -> option N.
Definition fempty : fmap := fun _ => None.
Definition fset (m : fmap) (k v : N) : fmap := fun k' => if k' =? k then Some v else m k'.

Record hctl := mkHC { hc_rule : hrule; hc_time : fmap; hc_tok : fmap; hc_conc : fmap }.
Definition hctl0 (r : hrule) : hctl := mkHC r fempty fempty fempty.

(** ** extract_args : attachments by key first, then positional arguments *)
Definition extract_kv (r : hrule) (att : option (list (N * N))) : option N :=
  match att with
  | None => None
  | Some l => if h_key r =? 0 then None else assoc (h_key r) l
  end.

Definition extract_list (r : hrule) (args : option (list N)) : option N :=
  match args with
  | None => None
  | Some l =>
      let len := Z.of_nat (length l) in
      let idx := if (h_idx r <? 0)%Z then (h_idx r + len)%Z else h_idx r in
      if (idx <? 0)%Z then None
      else if (len <=? idx)%Z then None
      else nth_error l (Z.to_nat idx)
  end.

Definition extract (r : hrule) (args : option (list N)) (att : option (list (N * N))) : option N :=
  match extract_kv r att with Some v => Some v | None => extract_list r args end.

(** per-value threshold: a specific item replaces the rule threshold *)
Definition thr_of (r : hrule) (v : N) : N :=
  match assoc v (h_spec r) with Some t => t | None => h_thr r end.

Inductive hres :=
| HPass
| HBlock (snapshot : N)
| HWait (ms : N)          (* TokenResult::Wait(ms * 1_000_000 ns) *)
| HStuck.                 (* the retry loop can never exit (needs an evicted counter) *)

(** ** RejectChecker::do_check (token bucket) *)
Definition reject_check (c : hctl) (v batch now : N) : hctl * hres :=
  let r := hc_rule c in
  let q := thr_of r v in
  if q =? 0 then (c, HBlock q) else
  let m := q + h_burst r in
  if m <? batch then (c, HBlock batch) else
  let D := h_dur r * 1000 in
  match hc_time c v with
  | None =>
      (* first fill: consume immediately; the token counter is only set if absent *)
      let tok' := match hc_tok c v with None => fset (hc_tok c) v (m - batch) | Some _ => hc_tok c end in
      (mkHC r (fset (hc_time c) v now) tok' (hc_conc c), HPass)
  | Some last =>
      let gap := now - last in
      if D <? gap then
        match hc_tok c v with
        | None => (mkHC r (fset (hc_time c) v now) (fset (hc_tok c) v (m - batch)) (hc_conc c), HPass)
        | Some rest =>
            let add := gap * q / D in
            let avail := if m <? add + rest then m else add + rest in
            if avail <? batch then (c, HBlock q)
            else (mkHC r (fset (hc_time c) v now) (fset (hc_tok c) v (avail - batch)) (hc_conc c), HPass)
        end
      else
        match hc_tok c v with
        | Some rest => if batch <=? rest
                       then (mkHC r (hc_time c) (fset (hc_tok c) v (rest - batch)) (hc_conc c), HPass)
                       else (c, HBlock q)
        | None => (c, HStuck)
        end
  end.

(** ** ThrottlingChecker::do_check (pacing on the millisecond clock) *)

(** round(a / b) for positive integers, halves away from zero *)
Definition round_div (a b : N) : N := (2 * a + b) / (2 * b).

Definition throttle_cost (r : hrule) (q batch : N) : N := round_div (batch * h_dur r * 1000) q.

Definition throttle_check (c : hctl) (v batch now : N) : hctl * hres :=
  let r := hc_rule c in
  let q := thr_of r v in
  if q =? 0 then (c, HBlock q) else
  let cost := throttle_cost r q batch in
  match hc_time c v with
  | None => (mkHC r (fset (hc_time c) v now) (hc_tok c) (hc_conc c), HPass)
  | Some last =>
      let e := last + cost in
      if (e <=? now) || (e - now <? h_maxq r) then
        if now <? e then (mkHC r (fset (hc_time c) v e) (hc_tok c) (hc_conc c), HWait (e - now))
        else (mkHC r (fset (hc_time c) v now) (hc_tok c) (hc_conc c), HPass)
      else (c, HBlock q)
  end.

(** ** perform_checking_for_concurrency_metric *)
Definition conc_check (c : hctl) (v : N) : hctl * hres :=
  match hc_conc c v with
  | None =>   (* first sight: the counter is created at 0, then the value is checked like any other *)
      let c' := mkHC (hc_rule c) (hc_time c) (hc_tok c) (fset (hc_conc c) v 0) in
      if 1 <=? thr_of (hc_rule c) v then (c', HPass) else (c', HBlock 1)
  | Some cur => if cur + 1 <=? thr_of (hc_rule c) v then (c, HPass) else (c, HBlock (cur + 1))
  end.

Definition perform (c : hctl) (v batch now : N) : hctl * hres :=
  match h_kind (hc_rule c) with
  | HConc => conc_check c v
  | HReject => reject_check c v batch now
  | HThrottle => throttle_check c v batch now
  end.

(** ** The hotspot slot: controllers in order; a block stops the loop; a wait sleeps *)
Inductive hout :=
| HAdmit
| HBlocked (rule snapshot : N)
| HHang.

Fixpoint hslot (cs : list hctl) (args : option (list N)) (att : option (list (N * N)))
         (batch now : N) : list hctl * hout * N :=
  match cs with
  | [] => ([], HAdmit, now)
  | c :: tl =>
      match extract (hc_rule c) args att with
      | None => let '(tl', o, now') := hslot tl args att batch now in (c :: tl', o, now')
      | Some v =>
          let '(c', r) := perform c v batch now in
          match r with
          | HPass => let '(tl', o, now') := hslot tl args att batch now in (c' :: tl', o, now')
          | HWait ms => let '(tl', o, now') := hslot tl args att batch (now + ms) in (c' :: tl', o, now')
          | HBlock s => (c' :: tl, HBlocked (h_id (hc_rule c)) s, now)
          | HStuck => (c' :: tl, HHang, now)
          end
      end
  end.

(** ConcurrencyStatSlot: +1 on pass, -1 on completion, for concurrency rules whose counter
    knows the value *)
Definition conc_adjust (up : bool) (c : hctl) (args : option (list N)) (att : option (list (N * N))) : hctl :=
  match h_kind (hc_rule c) with
  | HConc =>
      match extract (hc_rule c) args att with
      | Some v => match hc_conc c v with
                  | Some cur => mkHC (hc_rule c) (hc_time c) (hc_tok c)
                                     (fset (hc_conc c) v (if up then cur + 1 else cur - 1))
                  | None => c
                  end
      | None => c
      end
  | _ => c
  end.

(** ** A resource guarded by hotspot rules only *)
Record hentry := mkHE { he_args : option (list N); he_att : option (list (N * N)) }.
Record hworld := mkHW { hw_now : N; hw_ctls : list hctl; hw_open : list (N * hentry) }.

Inductive hcmd :=
| HB (id : N) (args : option (list N)) (att : option (list (N * N))) (batch : N)
| HX (id : N)
| HA (dt : N).

Inductive hobs :=
| HOAdmit (clock_after : N)
| HOBlock (rule snapshot clock_after : N)
| HOExited
| HONoEntry
| HOTick
| HOHang.

Fixpoint find_hentry (id : N) (l : list (N * hentry)) : option (hentry * list (N * hentry)) :=
  match l with
  | [] => None
  | (i, e) :: tl => if i =? id then Some (e, tl)
                    else match find_hentry id tl with
                         | Some (e', tl') => Some (e', (i, e) :: tl')
                         | None => None
                         end
  end.

Definition hexec (w : hworld) (x : hcmd) : hworld * hobs :=
  match x with
  | HA dt => (mkHW (hw_now w + dt) (hw_ctls w) (hw_open w), HOTick)
  | HB id args att batch =>
      let '(cs, o, now') := hslot (hw_ctls w) args att batch (hw_now w) in
      match o with
      | HAdmit => (mkHW now' (map (fun c => conc_adjust true c args att) cs) ((id, mkHE args att) :: hw_open w),
                   HOAdmit now')
      | HBlocked r s => (mkHW now' cs (hw_open w), HOBlock r s now')
      | HHang => (w, HOHang)
      end
  | HX id =>
      match find_hentry id (hw_open w) with
      | None => (w, HONoEntry)
      | Some (e, rest) =>
          (mkHW (hw_now w) (map (fun c => conc_adjust false c (he_args e) (he_att e)) (hw_ctls w)) rest, HOExited)
      end
  end.

Fixpoint hrun (w : hworld) (l : list hcmd) : list hobs :=
  match l with
  | [] => []
  | x :: tl => let '(w', o) := hexec w x in
               match o with HOHang => [HOHang] | _ => o :: hrun w' tl end
  end.
