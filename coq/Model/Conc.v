(** Executable model of concurrent entries on one resource (C14):
      core/stat/node_storage.rs      get_or_create_resource_node (lookup, then insert-if-absent)
      core/stat/stat_slot.rs         record_pass_for / record_complete_for (resource node, then
                                     the inbound node for inbound traffic)
      core/stat/resource_node.rs     increase_concurrency / decrease_concurrency
      core/stat/base/leap_array.rs   get_bucket_of_time's loop body, reset_bucket in two stores
      core/stat/base/metric_bucket.rs add_count (one fetch_add), add_rt
    as threads of micro-instructions.  A thread runs from one scheduling point of the library
    (the guarded hook verif::sched::point) to the next; an interleaving is a list of steps
    (thread, clock advance).  Everything between two points is executed atomically, which is
    what the cooperative scheduler of the harness enforces on the real code.  Model only. *)
From SV Require Export Model.Base Model.LeapArray Model.World.
Open Scope N_scope.

Inductive sel := SRes | SInb.
Inductive pt := PStart | PMiss | PLoop | PMid | PAdd | PInc | PDec.
Definition pt_code (p : pt) : N :=
  match p with PStart => 0 | PMiss => 1 | PLoop => 2 | PMid => 3 | PAdd => 4 | PInc => 5 | PDec => 6 end.

Inductive instr :=
| IStart                       (* EntryContext::new reads the start time *)
| ILookup                      (* get_resource_node; when absent: point ns:miss *)
| IInsert                      (* still absent under the write lock: insert; take what is there *)
| ISeen (batch : N) (inb : bool)  (* the entry is built: which node it holds *)
| IPoint (p : pt)
| IPointOk (p : pt)            (* point reached only when the bucket was found *)
| IInc (s : sel)
| IDec (s : sel)
| IClock                       (* curr_time_millis() before get_bucket_of_time *)
| IBucket (s : sel)            (* loop body of get_bucket_of_time *)
| IReset (s : sel)             (* reset_value after the point in reset_bucket *)
| IMaxc (s : sel)
| IAdd (s : sel) (ev : mevent) (n : N)
| IAddRt (s : sel)
| IRt (batch : N) (inb : bool). (* on_completed: round trip of the entry being exited *)

(** thread programs *)
Inductive top := TB (batch : N) (inbound : bool) | TX.

Definition bucket_seq (s : sel) : list instr := [IClock; IPoint PLoop; IBucket s; IReset s].
Definition pass_seq (s : sel) (batch : N) : list instr :=
  [IPoint PInc; IInc s] ++ bucket_seq s ++ [IMaxc s] ++ bucket_seq s ++ [IPointOk PAdd; IAdd s Pass batch].
Definition complete_seq (s : sel) (batch : N) : list instr :=
  bucket_seq s ++ [IPointOk PAdd; IAddRt s] ++ bucket_seq s ++ [IPointOk PAdd; IAdd s Complete batch]
  ++ [IPoint PDec; IDec s].

(** compile a program; [open] is the (static) stack of entries the thread holds *)
Fixpoint compile (ops : list top) (open : list (N * bool)) : list instr :=
  match ops with
  | [] => []
  | TB batch inb :: tl =>
      [IStart; ILookup; IInsert] ++ pass_seq SRes batch ++ (if inb then pass_seq SInb batch else [])
      ++ [ISeen batch inb] ++ compile tl ((batch, inb) :: open)
  | TX :: tl =>
      match open with
      | [] => compile tl []
      | (batch, inb) :: open' =>
          [IRt batch inb] ++ complete_seq SRes batch ++ (if inb then complete_seq SInb batch else [])
          ++ compile tl open'
      end
  end.

Record thr := mkThr {
  t_code : list instr;
  t_done : bool;
  t_now : N;            (* the time read by the last IClock *)
  t_ok : bool;          (* the last bucket lookup succeeded *)
  t_rst : bool;         (* the thread is inside reset_bucket *)
  t_miss : bool;        (* the node lookup missed *)
  t_node : nat;         (* index of the node this thread's current entry uses *)
  t_c : N;              (* concurrency value to publish *)
  t_starts : list N;    (* start times of the entries it holds *)
  t_rt : N
}.

Definition thr0 (code : list instr) (now : N) : thr := mkThr code false now false false false 0 0 [] 0.

Record cstate := mkCS {
  c_now : N;
  c_nodes : list node;          (* resource nodes ever created for the name *)
  c_map : option nat;           (* what the node map holds for the name *)
  c_inb : node;
  c_seen : list (N * nat * N * bool);     (* (thread, node index, batch, inbound) per built entry *)
  c_exits : list (N * N * bool * N)       (* (thread, batch, inbound, round trip) per exit *)
}.

Definition G : geom := c_total default_cfg.

Definition get_node (st : cstate) (t : thr) (s : sel) : node :=
  match s with
  | SInb => c_inb st
  | SRes => nth (t_node t) (c_nodes st) (fresh_node default_cfg)
  end.
Definition set_node (st : cstate) (t : thr) (s : sel) (nd : node) : cstate :=
  match s with
  | SInb => mkCS (c_now st) (c_nodes st) (c_map st) nd (c_seen st) (c_exits st)
  | SRes => mkCS (c_now st) (upd (c_nodes st) (t_node t) nd) (c_map st) (c_inb st) (c_seen st) (c_exits st)
  end.

Definition slot_ix (t : thr) : nat := N.to_nat (idx G (t_now t)).
Definition map_slot (nd : node) (i : nat) (f : slot -> slot) : node :=
  match nth_error (n_slots nd) i with
  | Some sl => mkNode (upd (n_slots nd) i (f sl)) (n_conc nd)
  | None => nd
  end.

Definition set_flags (t : thr) (ok rst : bool) : thr :=
  mkThr (t_code t) (t_done t) (t_now t) ok rst (t_miss t) (t_node t) (t_c t) (t_starts t) (t_rt t).

(** [racy] : the check-then-insert of the original code (every missing thread inserts its own node) *)
Definition exec (racy : bool) (tid : N) (st : cstate) (t : thr) (i : instr) : cstate * thr * option pt :=
  match i with
  | IStart =>
      (st, mkThr (t_code t) (t_done t) (t_now t) (t_ok t) (t_rst t) (t_miss t) (t_node t) (t_c t)
                 (c_now st :: t_starts t) (t_rt t), None)
  | ILookup =>
      match c_map st with
      | Some k => (st, mkThr (t_code t) (t_done t) (t_now t) (t_ok t) (t_rst t) false k (t_c t) (t_starts t) (t_rt t), None)
      | None => (st, mkThr (t_code t) (t_done t) (t_now t) (t_ok t) (t_rst t) true (t_node t) (t_c t) (t_starts t) (t_rt t),
                 Some PMiss)
      end
  | IInsert =>
      if t_miss t then
        match (if racy then None else c_map st) with
        | Some k => (st, mkThr (t_code t) (t_done t) (t_now t) (t_ok t) (t_rst t) false k (t_c t) (t_starts t) (t_rt t), None)
        | None =>
            let k := length (c_nodes st) in
            (mkCS (c_now st) (c_nodes st ++ [fresh_node default_cfg]) (Some k) (c_inb st) (c_seen st) (c_exits st),
             mkThr (t_code t) (t_done t) (t_now t) (t_ok t) (t_rst t) false k (t_c t) (t_starts t) (t_rt t), None)
        end
      else (st, t, None)
  | ISeen batch inb =>
      (mkCS (c_now st) (c_nodes st) (c_map st) (c_inb st) (c_seen st ++ [(tid, t_node t, batch, inb)]) (c_exits st), t, None)
  | IPoint p => (st, t, Some p)
  | IPointOk p => (st, t, if t_ok t then Some p else None)
  | IInc s =>
      let nd := get_node st t s in
      (set_node st t s (mkNode (n_slots nd) (n_conc nd + 1)),
       mkThr (t_code t) (t_done t) (t_now t) (t_ok t) (t_rst t) (t_miss t) (t_node t) (n_conc nd + 1) (t_starts t) (t_rt t), None)
  | IDec s =>
      let nd := get_node st t s in
      (set_node st t s (mkNode (n_slots nd) (n_conc nd - 1)), t, None)
  | IClock =>
      (st, mkThr (t_code t) (t_done t) (c_now st) (t_ok t) (t_rst t) (t_miss t) (t_node t) (t_c t) (t_starts t) (t_rt t), None)
  | IBucket s =>
      let nd := get_node st t s in
      let target := start G (t_now t) in
      match nth_error (n_slots nd) (slot_ix t) with
      | Some (s0, v) =>
          if s0 =? 0 then (set_node st t s (map_slot nd (slot_ix t) (fun sl => (target, snd sl))), set_flags t true false, None)
          else if s0 =? target then (st, set_flags t true false, None)
          else if s0 <? target then
            (set_node st t s (map_slot nd (slot_ix t) (fun sl => (target, snd sl))), set_flags t true true, Some PMid)
          else (st, set_flags t false false, None)
      | None => (st, set_flags t false false, None)
      end
  | IReset s =>
      if t_rst t then
        (set_node st t s (map_slot (get_node st t s) (slot_ix t) (fun sl => (fst sl, bucket0))), set_flags t (t_ok t) false, None)
      else (st, t, None)
  | IMaxc s =>
      if t_ok t then (set_node st t s (map_slot (get_node st t s) (slot_ix t) (fun sl => (fst sl, bconc (t_c t) (snd sl)))), t, None)
      else (st, t, None)
  | IAdd s ev n =>
      if t_ok t then (set_node st t s (map_slot (get_node st t s) (slot_ix t) (fun sl => (fst sl, badd ev n (snd sl)))), t, None)
      else (st, t, None)
  | IAddRt s =>
      if t_ok t then (set_node st t s (map_slot (get_node st t s) (slot_ix t) (fun sl => (fst sl, badd Rt (t_rt t) (snd sl)))), t, None)
      else (st, t, None)
  | IRt batch inb =>
      match t_starts t with
      | s0 :: rest =>
          (mkCS (c_now st) (c_nodes st) (c_map st) (c_inb st) (c_seen st) (c_exits st ++ [(tid, batch, inb, c_now st - s0)]),
           mkThr (t_code t) (t_done t) (t_now t) (t_ok t) (t_rst t) (t_miss t) (t_node t) (t_c t) rest (c_now st - s0), None)
      | [] => (st, t, None)
      end
  end.

Definition set_code (t : thr) (code : list instr) (done : bool) : thr :=
  mkThr code done (t_now t) (t_ok t) (t_rst t) (t_miss t) (t_node t) (t_c t) (t_starts t) (t_rt t).

(** run a thread to its next point (or to its end); [t_code] always holds what is left to run *)
Fixpoint seg (racy : bool) (tid : N) (st : cstate) (t : thr) (code : list instr) : cstate * thr * option pt :=
  match code with
  | [] => (st, set_code t [] true, None)
  | i :: tl =>
      let '(st', t', p) := exec racy tid st (set_code t tl false) i in
      match p with
      | Some _ => (st', t', p)
      | None => seg racy tid st' t' tl
      end
  end.

Definition advance (st : cstate) (dt : N) : cstate :=
  mkCS (c_now st + dt) (c_nodes st) (c_map st) (c_inb st) (c_seen st) (c_exits st).

(** one step of a schedule: the clock advances, then the named thread (if it exists and is not
    finished) runs one segment *)
Definition sched_step (racy : bool) (st : cstate) (ths : list thr) (tid : nat) : cstate * list thr * list (N * pt) :=
  match nth_error ths tid with
  | Some t =>
      if t_done t then (st, ths, [])
      else let '(st', t', p) := seg racy (N.of_nat tid) st t (t_code t) in
           (st', upd ths tid t', match p with Some q => [(N.of_nat tid, q)] | None => [] end)
  | None => (st, ths, [])
  end.

Fixpoint run_sched (racy : bool) (st : cstate) (ths : list thr) (steps : list (nat * N)) : cstate * list thr * list (N * pt) :=
  match steps with
  | [] => (st, ths, [])
  | (tid, dt) :: tl =>
      let '(st1, ths1, tr1) := sched_step racy (advance st dt) ths tid in
      let '(st2, ths2, tr2) := run_sched racy st1 ths1 tl in
      (st2, ths2, tr1 ++ tr2)
  end.

(** after the schedule: the unfinished threads take turns (round robin) until all are done *)
Fixpoint round (racy : bool) (st : cstate) (ths : list thr) (tids : list nat) : cstate * list thr * list (N * pt) :=
  match tids with
  | [] => (st, ths, [])
  | tid :: tl =>
      let '(st1, ths1, tr1) := sched_step racy st ths tid in
      let '(st2, ths2, tr2) := round racy st1 ths1 tl in
      (st2, ths2, tr1 ++ tr2)
  end.
Definition all_done (ths : list thr) : bool := forallb t_done ths.
Fixpoint finish (racy : bool) (fuel : nat) (st : cstate) (ths : list thr) : cstate * list thr * list (N * pt) :=
  match fuel with
  | O => (st, ths, [])
  | S f =>
      if all_done ths then (st, ths, [])
      else let '(st1, ths1, tr1) := round racy st ths (seq 0 (length ths)) in
           let '(st2, ths2, tr2) := finish racy f st1 ths1 in
           (st2, ths2, tr1 ++ tr2)
  end.

Definition code_total (ths : list thr) : nat := fold_right (fun t acc => (length (t_code t) + 1 + acc)%nat) O ths.

Definition cstate0 (now : N) : cstate := mkCS now [] None (fresh_node default_cfg) [] [].

(** the traffic the harness sends before the threads start:
    0 = one inbound entry built and exited 60 s earlier, 1 = nothing (brand-new resource),
    2 = one inbound entry built and exited at the base time (same bucket) *)
Definition warm (racy : bool) (st : cstate) : cstate :=
  let th := thr0 (compile [TB 1 true; TX] []) (c_now st) in
  let '(st', _, _) := finish racy (code_total [th]) st [th] in
  mkCS (c_now st') (c_nodes st') (c_map st') (c_inb st') [] [].

Definition init_state (racy : bool) (base mode : N) : cstate :=
  if mode =? 0 then
    let st := warm racy (cstate0 (base - 60000)) in
    mkCS base (c_nodes st) (c_map st) (c_inb st) [] []
  else if mode =? 2 then warm racy (cstate0 base)
  else cstate0 base.

Definition run_case (racy : bool) (base mode : N) (progs : list (list top)) (steps : list (nat * N))
  : cstate * list thr * list (N * pt) :=
  let st0 := init_state racy base mode in
  let ths := map (fun p => thr0 (compile p []) base) progs in
  let '(st1, ths1, tr1) := run_sched racy st0 ths steps in
  let '(st2, ths2, tr2) := finish racy (code_total ths1) st1 ths1 in
  (st2, ths2, tr1 ++ tr2).

(** what is read once all threads have finished *)
Definition final_node (st : cstate) : option node :=
  match c_map st with Some k => nth_error (c_nodes st) k | None => None end.
Definition sum_or0 (nd : node) (now : N) (ev : mevent) : N :=
  match node_sum default_cfg nd now ev with ROk x => x | RPanic => 0 end.
