(** Executable model of warm-up flow control:
      core/flow/traffic_shaping/warmup.rs   WarmUpCalculator::{new, sync_token, cool_down_tokens,
                                            calculate_allowed_threshold}
      core/flow/traffic_shaping/default.rs  RejectChecker::do_check
      utils/mod.rs                          next_after
    on top of the resource-node model (Model/World.v).  Floats are IEEE binary64 (Flocq);
    float-to-integer casts saturate as in Rust.  Sequential semantics.  Model only. *)
From SV Require Export Model.Base Model.LeapArray Model.World.
From SV Require Import Model.F64.
Open Scope N_scope.

Definition U64MAX : N := 18446744073709551615.
Definition sat_add (a b : N) : N := N.min U64MAX (a + b).
Definition sat_mul (a b : N) : N := N.min U64MAX (a * b).

(** f64::floor *)
Definition ffloor (x : f64) : f64 :=
  match x with
  | Binary.B754_finite _ _ _ _ _ _ =>
      let z := Binary.Btrunc 53 1024 x in
      if flt x (f64_of_Z z) then f64_of_Z (z - 1) else f64_of_Z z
  | _ => x
  end.

(** utils::next_after: one step of the bit pattern away from zero for positive, toward zero for
    negative sign bit (as the code does it) *)
Definition next_after (x : f64) : f64 :=
  let b := fbits x in
  if (b <? 9223372036854775808)%Z then f64_of_bits ((b + 1) mod 18446744073709551616)%Z
  else f64_of_bits (b - 1)%Z.

Record wu := mkWU {
  wu_thr : f64;
  wu_cold : N;
  wu_warning : N;
  wu_max : N;
  wu_slope : f64;
  wu_stored : N;
  wu_last : N
}.

(** WarmUpCalculator::new (WARM_UP_COLD_FACTOR = 3) *)
Definition wu_new (thr : f64) (cold period : N) : wu :=
  let c := if cold <=? 1 then 3 else cold in
  let p := f64_of_N period in
  let warning := f64_to_u64 (fdiv (fmul p thr) (f64_of_N (c - 1))) in
  let mx0 := sat_add warning (sat_mul (f64_to_u64 (fdiv (fmul p thr) (f64_of_N (c + 1)))) 2) in
  let mx := N.max mx0 (sat_add warning 1) in          (* the warm-up range holds at least one token *)
  let slope := if warning <? mx then fdiv (fdiv (f64_of_N (c - 1)) thr) (f64_of_N (mx - warning)) else f64_of_Z 0 in
  mkWU thr c warning mx slope 0 0.

Inductive wres (A : Type) := WVal (x : A) | WOverflow.     (* kept for a u64 overflow (a panic in debug builds); unreachable since the refill saturates *)
Arguments WVal {A}. Arguments WOverflow {A}.

(** cool_down_tokens *)
Definition cool_down (w : wu) (cur : N) (pq : f64) : wres N :=
  if (wu_stored w <? wu_warning w) || flt pq (ffloor (fdiv (wu_thr w) (f64_of_N (wu_cold w)))) then
    let add := f64_to_u64 (fdiv (fmul (f64_of_N (cur - wu_last w)) (wu_thr w)) f64_thousand) in
    WVal (N.min (sat_add (wu_stored w) add) (wu_max w))
  else WVal (N.min (wu_stored w) (wu_max w)).

(** sync_token at clock [now] with the previous pass qps *)
Definition sync_token (w : wu) (now : N) (pq : f64) : wres wu :=
  let cur := now - now mod 1000 in
  if cur <=? wu_last w then WVal w else
  match cool_down w cur pq with
  | WOverflow => WOverflow
  | WVal nv =>
      let p := f64_to_u64 pq in
      WVal (mkWU (wu_thr w) (wu_cold w) (wu_warning w) (wu_max w) (wu_slope w) (if nv <? p then 0 else nv - p) cur)
  end.

(** the allowed threshold for the tokens left *)
Definition allowed_of (w : wu) : f64 :=
  if wu_warning w <=? wu_stored w then
    let above := wu_stored w - wu_warning w in
    next_after (fdiv (f64_of_Z 1) (fadd (fmul (f64_of_N above) (wu_slope w)) (fdiv (f64_of_Z 1) (wu_thr w))))
  else wu_thr w.

(** * A resource guarded by one warm-up reject rule (default statistic) *)
Record wworld := mkWW { ww_now : N; ww_node : node; ww_wu : wu }.

Inductive wcmd :=
| WB (batch : N)          (* build, and exit at once when admitted *)
| WA (dt : N)
| WT.                     (* ask the calculator for the allowed threshold *)

Inductive wobs :=
| WOAdmit | WOBlock | WOTick | WOThr (bits : Z) | WOPanic.

Definition qps_prev (c : cfg) (nd : node) (now : N) : rres f64 :=
  qps_previous (c_total c) (mkW (c_msc c) (c_miv c)) (n_slots nd) now Pass.

(** calculate_allowed_threshold *)
Definition wu_allowed (c : cfg) (w : wworld) : option (wu * f64) :=
  match qps_prev c (ww_node w) (ww_now w) with
  | RPanic => None
  | ROk pq =>
      match sync_token (ww_wu w) (ww_now w) pq with
      | WOverflow => None
      | WVal u => Some (u, allowed_of u)
      end
  end.

Definition wexec (c : cfg) (w : wworld) (x : wcmd) : wworld * wobs :=
  match x with
  | WA dt => (mkWW (ww_now w + dt) (ww_node w) (ww_wu w), WOTick)
  | WT => match wu_allowed c w with
          | None => (w, WOPanic)
          | Some (u, a) => (mkWW (ww_now w) (ww_node w) u, WOThr (fbits a))
          end
  | WB batch =>
      match wu_allowed c w with
      | None => (w, WOPanic)
      | Some (u, a) =>
          match node_sum c (ww_node w) (ww_now w) Pass with
          | RPanic => (w, WOPanic)
          | ROk cur =>
              if flt a (fadd (f64_of_N cur) (f64_of_N batch))
              then (mkWW (ww_now w) (node_block c (ww_node w) (ww_now w) batch) u, WOBlock)
              else (mkWW (ww_now w)
                         (node_complete c (node_pass c (ww_node w) (ww_now w) batch) (ww_now w) batch 0) u, WOAdmit)
          end
      end
  end.

Fixpoint wrun (c : cfg) (w : wworld) (l : list wcmd) : list wobs :=
  match l with
  | [] => []
  | x :: tl => let '(w', o) := wexec c w x in
               o :: match o with WOPanic => [] | _ => wrun c w' tl end
  end.

Definition wworld0 (c : cfg) (base : N) (thr : f64) (cold period : N) : wworld :=
  mkWW base (fresh_node c) (wu_new thr cold period).
