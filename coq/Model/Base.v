(** Common definitions for the executable model of sentinel-rust.
    No proofs of properties here; only list helpers and their basic lemmas. *)
From Coq Require Export List NArith ZArith Bool Lia Arith.
Export ListNotations.

Global Arguments N.add : simpl never.
Global Arguments N.sub : simpl never.
Global Arguments N.mul : simpl never.
Global Arguments N.div : simpl never.
Global Arguments N.modulo : simpl never.
Global Arguments N.eqb : simpl never.
Global Arguments N.ltb : simpl never.
Global Arguments N.leb : simpl never.
Global Arguments N.min : simpl never.
Global Arguments N.max : simpl never.
Global Arguments Z.add : simpl never.
Global Arguments Z.sub : simpl never.
Global Arguments Z.mul : simpl never.
Global Arguments Z.div : simpl never.
Global Arguments Z.modulo : simpl never.
Global Arguments Z.eqb : simpl never.
Global Arguments Z.ltb : simpl never.
Global Arguments Z.leb : simpl never.

(** Replace the element at position [i]; out of range leaves the list unchanged. *)
Fixpoint upd {A} (l : list A) (i : nat) (x : A) : list A :=
  match l, i with
  | [], _ => []
  | _ :: tl, O => x :: tl
  | h :: tl, S k => h :: upd tl k x
  end.

Lemma nth_error_upd_same {A} (l : list A) i x y :
  nth_error l i = Some y -> nth_error (upd l i x) i = Some x.
Proof. revert i; induction l as [|h tl IH]; intros [|i] H; simpl in *; try discriminate; auto. Qed.

Lemma nth_error_upd_other {A} (l : list A) i j x :
  i <> j -> nth_error (upd l i x) j = nth_error l j.
Proof. revert i j; induction l as [|h tl IH]; intros [|i] [|j] H; simpl; auto; try congruence. Qed.

Lemma length_upd {A} (l : list A) i x : length (upd l i x) = length l.
Proof. revert i; induction l as [|h tl IH]; intros [|i]; simpl; auto. Qed.

Lemma length_repeat {A} (x : A) n : length (repeat x n) = n.
Proof. apply repeat_length. Qed.

Lemma nth_error_repeat {A} (x : A) n i y : nth_error (repeat x n) i = Some y -> y = x.
Proof.
  intros H. apply nth_error_In in H. apply repeat_spec in H. exact H.
Qed.

(** Indices of the elements of [l] satisfying [p] (used by correspondence runs). *)
Fixpoint bad_ids {A} (p : A -> bool) (l : list A) (k : N) : list N :=
  match l with
  | [] => []
  | x :: tl => if p x then bad_ids p tl (k + 1)%N else k :: bad_ids p tl (k + 1)%N
  end.
