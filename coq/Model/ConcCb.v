(** Executable model of concurrent entries on a resource guarded by one circuit breaker (C16):
      core/circuitbreaker/breaker/mod.rs   try_pass (unlocked state read, deadline check, guarded
                                           Open -> Half-Open), the from_ functions (compare-and-set under the
                                           state mutex, listeners called under it)
      core/circuitbreaker/breaker/{error_count,error_ratio,slow_request}.rs  on_request_complete
    as threads of micro-instructions separated by the breaker's scheduling points (before every
    state read through current_state() and before every from_ function).  Counters, thresholds and the
    reset are those of the sequential model (Model/Breaker.v).  Model only. *)
From SV Require Export Model.Base Model.LeapArray Model.Breaker.
Open Scope N_scope.

Inductive cpt := CRead | CC2O | CO2H | CH2O | CH2C | COracle.
Definition cpt_code (p : cpt) : N :=
  match p with CRead => 7 | CC2O => 8 | CO2H => 9 | CH2O => 10 | CH2C => 11 | COracle => 12 end.

(** what the listeners and the threads write to the common log; [who] = 0 for the sequential
    prelude, thread index + 1 otherwise *)
Inductive cev :=
| ETrans (who : N) (from to : bstate) (now retry : N)
| EBuild (who : N) (admitted : bool)
| EExit (who : N) (err : bool) (rt : N).

Inductive flag := FWant | FHoBad | FHoOk | FTrip | FC2O | FHo2 | FLive.

Inductive cinstr :=
| BStart
| BRead                      (* try_pass: state read and deadline check *)
| BCas                       (* from_open_to_half_open *)
| BDone
| BHook                      (* the exit hook of a probe entry that was rejected: Half-Open goes back to Open *)
| BDoneBlocked               (* the build was rejected by a later slot *)
| XBegin (err : bool)        (* on_completed: round trip, counters, totals *)
| XRead1
| XCasH2O (f : flag)
| XCasH2C
| XRead2
| XCasC2O
| XDone (err : bool)
| CPoint (p : cpt)
| CPointIf (f : flag) (p : cpt).

(** [KB other]: a build; [other] = a slot after the breaker slot rejects this entry *)
Inductive ctop := KB (other : bool) | KX (err : bool).

Definition compile_op (o : ctop) : list cinstr :=
  match o with
  | KB false => [BStart; CPoint CRead; BRead; CPointIf FWant CO2H; BCas; BDone]
  | KB true => [BStart; CPoint CRead; BRead; CPointIf FWant CO2H; BCas; CPoint COracle; BHook; BDoneBlocked]
  | KX err =>
      [XBegin err; CPointIf FLive CRead; XRead1;
       CPointIf FHoBad CH2O; XCasH2O FHoBad;
       CPointIf FHoOk CH2C; XCasH2C;
       CPointIf FTrip CRead; XRead2;
       CPointIf FC2O CC2O; XCasC2O;
       CPointIf FHo2 CH2O; XCasH2O FHo2;
       XDone err]
  end.
Definition ccompile (ops : list ctop) : list cinstr := flat_map compile_op ops.

Record cthr := mkCT {
  k_code : list cinstr;
  k_done : bool;
  k_want : bool; k_hobad : bool; k_hook : bool; k_trip : bool; k_c2o : bool; k_ho2 : bool; k_live : bool;      (* k_live: exit = the bucket was obtained; build = this build did Open -> Half-Open *)
  k_adm : bool;         (* build: admitted; exit: the thread held an entry *)
  k_bad : bool;
  k_rt : N;
  k_starts : list N
}.
Definition cthr0 (code : list cinstr) : cthr := mkCT code false false false false false false false false false false 0 [].

Definition get_flag (t : cthr) (f : flag) : bool :=
  match f with
  | FWant => k_want t | FHoBad => k_hobad t | FHoOk => k_hook t | FTrip => k_trip t
  | FC2O => k_c2o t | FHo2 => k_ho2 t | FLive => k_live t
  end.

Record cbs := mkCBS {
  s_now : N;
  s_rule : brule;
  s_state : bstate;
  s_retry : N;
  s_ring : list slot;
  s_log : list cev
}.

Definition with_state (st : cbs) (b : bstate) (retry : N) (e : cev) : cbs :=
  mkCBS (s_now st) (s_rule st) b retry (s_ring st) (s_log st ++ [e]).
Definition with_log (st : cbs) (e : cev) : cbs :=
  mkCBS (s_now st) (s_rule st) (s_state st) (s_retry st) (s_ring st) (s_log st ++ [e]).
Definition with_ring (st : cbs) (r : list slot) : cbs :=
  mkCBS (s_now st) (s_rule st) (s_state st) (s_retry st) r (s_log st).

Definition set_code (t : cthr) (code : list cinstr) (done : bool) : cthr :=
  mkCT code done (k_want t) (k_hobad t) (k_hook t) (k_trip t) (k_c2o t) (k_ho2 t) (k_live t) (k_adm t) (k_bad t) (k_rt t) (k_starts t).

(** [recheck] : from_open_to_half_open tests the retry deadline again under the lock *)
Definition cexec (recheck : bool) (who : N) (st : cbs) (t : cthr) (i : cinstr) : cbs * cthr * option cpt :=
  let r := s_rule st in
  let g := brule_geom r in
  match i with
  | BStart =>
      (st, mkCT (k_code t) (k_done t) false false false false false false false false false 0 (s_now st :: k_starts t), None)
  | BRead =>
      let '(want, adm) :=
        match s_state st with
        | Closed => (false, true)
        | HalfOpen => (false, false)
        | Open => if s_retry st <=? s_now st then (true, false) else (false, false)
        end in
      (st, mkCT (k_code t) (k_done t) want false false false false false false adm false 0 (k_starts t), None)
  | BCas =>
      if k_want t then
        if bstate_eqb (s_state st) Open && (negb recheck || (s_retry st <=? s_now st)) then
          (with_state st HalfOpen (s_retry st) (ETrans who Open HalfOpen (s_now st) (s_retry st)),
           mkCT (k_code t) (k_done t) false false false false false false true true false 0 (k_starts t), None)
        else (st, mkCT (k_code t) (k_done t) false false false false false false false false false 0 (k_starts t), None)
      else (st, t, None)
  | BDone =>
      (with_log st (EBuild who (k_adm t)),
       mkCT (k_code t) (k_done t) false false false false false false false (k_adm t) false 0
            (if k_adm t then k_starts t else tl (k_starts t)), None)
  | BHook =>
      (* when_exit hook registered by from_open_to_half_open: the entry was blocked *)
      if k_live t && bstate_eqb (s_state st) HalfOpen then
        (with_state st Open (s_retry st) (ETrans who HalfOpen Open (s_now st) (s_retry st)), t, None)
      else (st, t, None)
  | BDoneBlocked =>
      (with_log st (EBuild who false),
       mkCT (k_code t) (k_done t) false false false false false false false false false 0 (tl (k_starts t)), None)
  | XBegin err =>
      match k_starts t with
      | [] => (st, mkCT (k_code t) (k_done t) false false false false false false false false false 0 [], None)
      | s0 :: rest =>
          let rt := s_now st - s0 in
          match write g (s_ring st) (s_now st) (WAdd Pass 1) with
          | WOk s1 =>
              let bad := is_bad r rt err in
              let s2 := if bad then ring_add g s1 (s_now st) (WAdd Error 1) else s1 in
              let total := count_with_time g s2 (s_now st) Pass in
              let nbad := count_with_time g s2 (s_now st) Error in
              let trip := (br_min_req r <=? total) && threshold_met r nbad total in
              (with_ring st s2,
               mkCT (k_code t) (k_done t) false false false trip false false true true bad rt rest, None)
          | _ => (st, mkCT (k_code t) (k_done t) false false false false false false false true false rt rest, None)
          end
      end
  | XRead1 =>
      if k_live t then
        let s := s_state st in
        (st, mkCT (k_code t) (k_done t) false
                  (bstate_eqb s HalfOpen && k_bad t) (bstate_eqb s HalfOpen && negb (k_bad t))
                  (bstate_eqb s Closed && k_trip t) false false true (k_adm t) (k_bad t) (k_rt t) (k_starts t), None)
      else (st, t, None)
  | XCasH2O f =>
      if get_flag t f then
        if bstate_eqb (s_state st) HalfOpen then
          (with_state st Open (s_now st + br_retry_ms r) (ETrans who HalfOpen Open (s_now st) (s_now st + br_retry_ms r)), t, None)
        else (st, t, None)
      else (st, t, None)
  | XCasH2C =>
      if k_hook t then
        let st1 := if bstate_eqb (s_state st) HalfOpen
                   then with_state st Closed (s_retry st) (ETrans who HalfOpen Closed (s_now st) (s_retry st)) else st in
        (with_ring st1 (reset_valid g (s_ring st1) (s_now st1)), t, None)
      else (st, t, None)
  | XRead2 =>
      if k_trip t then
        let s := s_state st in
        (st, mkCT (k_code t) (k_done t) (k_want t) (k_hobad t) (k_hook t) (k_trip t)
                  (bstate_eqb s Closed) (bstate_eqb s HalfOpen) (k_live t) (k_adm t) (k_bad t) (k_rt t) (k_starts t), None)
      else (st, t, None)
  | XCasC2O =>
      if k_c2o t then
        if bstate_eqb (s_state st) Closed then
          (with_state st Open (s_now st + br_retry_ms r) (ETrans who Closed Open (s_now st) (s_now st + br_retry_ms r)), t, None)
        else (st, t, None)
      else (st, t, None)
  | XDone err =>
      (* [k_adm] = the thread held an entry (when the bucket could not be obtained the library only
         logs an error, the entry still exits) *)
      if k_adm t then (with_log st (EExit who err (k_rt t)), t, None) else (st, t, None)
  | CPoint p => (st, t, Some p)
  | CPointIf f p => (st, t, if get_flag t f then Some p else None)
  end.

Fixpoint cseg (recheck : bool) (who : N) (st : cbs) (t : cthr) (code : list cinstr) : cbs * cthr * option cpt :=
  match code with
  | [] => (st, set_code t [] true, None)
  | i :: tl =>
      let '(st', t', p) := cexec recheck who st (set_code t tl false) i in
      match p with
      | Some _ => (st', t', p)
      | None => cseg recheck who st' t' tl
      end
  end.

Definition cadvance (st : cbs) (dt : N) : cbs :=
  mkCBS (s_now st + dt) (s_rule st) (s_state st) (s_retry st) (s_ring st) (s_log st).

Definition csched_step (recheck : bool) (st : cbs) (ths : list cthr) (tid : nat) : cbs * list cthr * list (N * cpt) :=
  match nth_error ths tid with
  | Some t =>
      if k_done t then (st, ths, [])
      else let '(st', t', p) := cseg recheck (N.of_nat tid + 1) st t (k_code t) in
           (st', upd ths tid t', match p with Some q => [(N.of_nat tid, q)] | None => [] end)
  | None => (st, ths, [])
  end.

Fixpoint crun_sched (recheck : bool) (st : cbs) (ths : list cthr) (steps : list (nat * N)) : cbs * list cthr * list (N * cpt) :=
  match steps with
  | [] => (st, ths, [])
  | (tid, dt) :: tl =>
      let '(st1, ths1, tr1) := csched_step recheck (cadvance st dt) ths tid in
      let '(st2, ths2, tr2) := crun_sched recheck st1 ths1 tl in
      (st2, ths2, tr1 ++ tr2)
  end.

Fixpoint cround (recheck : bool) (st : cbs) (ths : list cthr) (tids : list nat) : cbs * list cthr * list (N * cpt) :=
  match tids with
  | [] => (st, ths, [])
  | tid :: tl =>
      let '(st1, ths1, tr1) := csched_step recheck st ths tid in
      let '(st2, ths2, tr2) := cround recheck st1 ths1 tl in
      (st2, ths2, tr1 ++ tr2)
  end.
Definition call_done (ths : list cthr) : bool := forallb k_done ths.
Fixpoint cfinish (recheck : bool) (fuel : nat) (st : cbs) (ths : list cthr) : cbs * list cthr * list (N * cpt) :=
  match fuel with
  | O => (st, ths, [])
  | S f =>
      if call_done ths then (st, ths, [])
      else let '(st1, ths1, tr1) := cround recheck st ths (seq 0 (length ths)) in
           let '(st2, ths2, tr2) := cfinish recheck f st1 ths1 in
           (st2, ths2, tr1 ++ tr2)
  end.
Definition ccode_total (ths : list cthr) : nat := fold_right (fun t acc => (length (k_code t) + 1 + acc)%nat) O ths.

(** the sequential prelude: builds, exits and clock advances on the main thread (who = 0) *)
Inductive pre_op := PB | PX (err : bool) | PA (dt : N).
Fixpoint run_code (recheck : bool) (who : N) (st : cbs) (t : cthr) (code : list cinstr) : cbs * cthr :=
  match code with
  | [] => (st, t)
  | i :: tl => let '(st', t', _) := cexec recheck who st (set_code t tl false) i in run_code recheck who st' t' tl
  end.
Fixpoint prelude (recheck : bool) (st : cbs) (t : cthr) (ops : list pre_op) : cbs :=
  match ops with
  | [] => st
  | PB :: tl => let '(st', t') := run_code recheck 0 st t (compile_op (KB false)) in prelude recheck st' t' tl
  | PX err :: tl => let '(st', t') := run_code recheck 0 st t (compile_op (KX err)) in prelude recheck st' t' tl
  | PA dt :: tl => prelude recheck (cadvance st dt) t tl
  end.

Definition cbs0 (base : N) (r : brule) : cbs := mkCBS base r Closed 0 (ring0 (brule_geom r)) [].

Definition crun_case (recheck : bool) (base : N) (r : brule) (pre : list pre_op) (progs : list (list ctop))
  (steps : list (nat * N)) : cbs * list cthr * list (N * cpt) :=
  let st0 := prelude recheck (cbs0 base r) (cthr0 []) pre in
  let ths := map (fun p => cthr0 (ccompile p)) progs in
  let '(st1, ths1, tr1) := crun_sched recheck st0 ths steps in
  let '(st2, ths2, tr2) := cfinish recheck (ccode_total ths1) st1 ths1 in
  (st2, ths2, tr1 ++ tr2).
