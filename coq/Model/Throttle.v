(** Executable model of flow throttling:
      core/flow/traffic_shaping/throttling.rs  (ThrottlingChecker on the nanosecond clock)
      core/flow/slot.rs                        (a Wait result makes the slot sleep for that long)
    with a direct threshold.  Sequential semantics.  Model only. *)
From SV Require Export Model.Base.
From SV Require Import Model.F64.
Open Scope Z_scope.

Record trule := mkTR {
  t_id : N;
  t_thr : f64;           (* threshold *)
  t_maxq_ms : N;         (* max_queueing_time_ms *)
  t_stat_ms : N          (* stat_interval_ms; 0 means 1000 *)
}.

Definition stat_ns (r : trule) : Z :=
  (if (t_stat_ms r =? 0)%N then 1000 else Z.of_N (t_stat_ms r)) * 1000000.
Definition maxq_ns (r : trule) : Z := Z.of_N (t_maxq_ms r) * 1000000.

(** Rust [x as i64] for an f64: truncation toward zero, saturating, NaN -> 0 *)
Definition i64_max : Z := 9223372036854775807.
Definition i64_min : Z := -9223372036854775808.
Definition f64_to_i64 (x : f64) : Z :=
  match x with
  | Flocq.IEEE754.Binary.B754_nan _ _ _ _ _ => 0
  | Flocq.IEEE754.Binary.B754_infinity _ _ s => if s then i64_min else i64_max
  | _ => let z := Flocq.IEEE754.Binary.Btrunc 53 1024 x in
         if z <? i64_min then i64_min else if i64_max <? z then i64_max else z
  end.

(** interval_ns = (batch.ceil() / threshold * stat_interval_ns as f64) as i64 *)
Definition interval_ns (r : trule) (batch : N) : Z :=
  f64_to_i64 (fmul (fdiv (f64_of_N batch) (t_thr r)) (f64_of_Z (stat_ns r))).

Inductive tres :=
| TPass
| TBlock (named : bool)    (* whether the block error carries the rule *)
| TWait (ns : Z)
| TOverflow.     (* i64 overflow in [last + interval] (debug build panics) *)

Definition in_i64 (z : Z) : bool := (i64_min <=? z) && (z <=? i64_max).

(** ThrottlingChecker::do_check ; [last] = last_passed_time *)
Definition throttle_check (r : trule) (last now : Z) (batch : N) : Z * tres :=
  if (batch =? 0)%N then (last, TPass) else
  if fle (t_thr r) (f64_of_Z 0) then (last, TBlock true) else
  if flt (t_thr r) (f64_of_N batch) then (last, TBlock false) else
  let iv := interval_ns r batch in
  let expected := last + iv in
  if negb (in_i64 expected) then (last, TOverflow) else
  if expected <=? now then (now, TPass) else
  let est := expected - now in
  if maxq_ns r <? est then (last, TBlock true)
  else (expected, TWait (if 0 <? est then est else 0)).

(** the flow slot over throttling controllers: first block stops; a wait advances the clock *)
Inductive tout := TAdmit | TBlocked (rule : N) | TPanic.

Fixpoint tslot (cs : list (trule * Z)) (now : Z) (batch : N) : list (trule * Z) * tout * Z :=
  match cs with
  | [] => ([], TAdmit, now)
  | (r, last) :: tl =>
      let '(last', res) := throttle_check r last now batch in
      match res with
      | TPass => let '(tl', o, now') := tslot tl now batch in ((r, last') :: tl', o, now')
      | TWait ns => let '(tl', o, now') := tslot tl (now + ns) batch in ((r, last') :: tl', o, now')
      | TBlock named => ((r, last') :: tl, TBlocked (if named then t_id r else 0%N), now)
      | TOverflow => ((r, last') :: tl, TPanic, now)
      end
  end.

Record tworld := mkTW { tw_now : Z; tw_ctls : list (trule * Z) }.

Inductive tcmd := TB (batch : N) | TA (dt_ns : Z).
Inductive tobs := TOAdmit (clock_after : Z) | TOBlock (rule : N) (clock_after : Z) | TOTick | TOPanic.

Definition texec (w : tworld) (x : tcmd) : tworld * tobs :=
  match x with
  | TA dt => (mkTW (tw_now w + dt) (tw_ctls w), TOTick)
  | TB batch =>
      let '(cs, o, now') := tslot (tw_ctls w) (tw_now w) batch in
      match o with
      | TAdmit => (mkTW now' cs, TOAdmit now')
      | TBlocked r => (mkTW now' cs, TOBlock r now')
      | TPanic => (w, TOPanic)
      end
  end.

Fixpoint trun (w : tworld) (l : list tcmd) : list tobs :=
  match l with
  | [] => []
  | x :: tl => let '(w', o) := texec w x in
               match o with TOPanic => [TOPanic] | _ => o :: trun w' tl end
  end.
