(** Executable model of the metric-log line codec: core/base/metric_item.rs
    (Display for MetricItem, MetricItem::from_string) and utils/time.rs::format_time_millis,
    over byte strings (lists of byte values).  Model only. *)
From SV Require Export Model.Base.
From Coq Require Import Decimal DecimalN.
Open Scope N_scope.

Definition bytes := list N.

Record mitem := mkMI {
  mi_res : bytes;            (* resource name, UTF-8 bytes *)
  mi_type : N;               (* ResourceType as u8: 0..6 *)
  mi_ts : N;                 (* timestamp, ms *)
  mi_pass : N; mi_block : N; mi_complete : N; mi_error : N; mi_avg_rt : N; mi_occupied : N;
  mi_conc : N
}.

Definition SEP : N := 124.    (* '|' *)
Definition USCORE : N := 95.  (* '_' *)
Definition COLON : N := 58.
Definition PLUS : N := 43.

(** ** decimal printing (Rust Display for unsigned integers) *)
Fixpoint uint_bytes (u : uint) : bytes :=
  match u with
  | Nil => []
  | D0 u' => 48 :: uint_bytes u' | D1 u' => 49 :: uint_bytes u' | D2 u' => 50 :: uint_bytes u'
  | D3 u' => 51 :: uint_bytes u' | D4 u' => 52 :: uint_bytes u' | D5 u' => 53 :: uint_bytes u'
  | D6 u' => 54 :: uint_bytes u' | D7 u' => 55 :: uint_bytes u' | D8 u' => 56 :: uint_bytes u'
  | D9 u' => 57 :: uint_bytes u'
  end.
Definition dec (n : N) : bytes := uint_bytes (N.to_uint n).

(** ** decimal parsing (Rust [str::parse::<uN>]): optional leading '+', at least one digit,
    digits only, value within the type *)
Fixpoint bytes_uint (l : bytes) : option uint :=
  match l with
  | [] => Some Nil
  | b :: tl =>
      match bytes_uint tl with
      | None => None
      | Some u =>
          if b =? 48 then Some (D0 u) else if b =? 49 then Some (D1 u) else if b =? 50 then Some (D2 u)
          else if b =? 51 then Some (D3 u) else if b =? 52 then Some (D4 u) else if b =? 53 then Some (D5 u)
          else if b =? 54 then Some (D6 u) else if b =? 55 then Some (D7 u) else if b =? 56 then Some (D8 u)
          else if b =? 57 then Some (D9 u) else None
      end
  end.

Definition parse_uint (max : N) (l : bytes) : option N :=
  let digits := match l with b :: tl => if b =? PLUS then tl else l | [] => [] end in
  match digits with
  | [] => None
  | _ => match bytes_uint digits with
         | Some u => let n := N.of_uint u in if n <=? max then Some n else None
         | None => None
         end
  end.

Definition U64_MAX : N := 18446744073709551615.
Definition U32_MAX : N := 4294967295.
Definition U8_MAX : N := 255.

(** ** HH:MM:SS of a millisecond timestamp (UTC) *)
Definition two (n : N) : bytes := [48 + n / 10; 48 + n mod 10].
Definition time_str (ts : N) : bytes :=
  let s := ts / 1000 in
  two ((s / 3600) mod 24) ++ [COLON] ++ two ((s / 60) mod 60) ++ [COLON] ++ two (s mod 60).

(** ** Display *)
Definition clean_name (l : bytes) : bytes := map (fun b => if b =? SEP then USCORE else b) l.

Fixpoint join (parts : list bytes) : bytes :=
  match parts with
  | [] => []
  | [p] => p
  | p :: tl => p ++ [SEP] ++ join tl
  end.

Definition to_line (i : mitem) : bytes :=
  join [dec (mi_ts i); time_str (mi_ts i); clean_name (mi_res i); dec (mi_pass i); dec (mi_block i);
        dec (mi_complete i); dec (mi_error i); dec (mi_avg_rt i); dec (mi_occupied i); dec (mi_conc i);
        dec (mi_type i)].

(** ** from_string *)
Fixpoint split_sep (l : bytes) (cur : bytes) : list bytes :=
  match l with
  | [] => [List.rev cur]
  | b :: tl => if b =? SEP then List.rev cur :: split_sep tl [] else split_sep tl (b :: cur)
  end.

Definition type_of_u8 (n : N) : N := if (1 <=? n) && (n <=? 6) then n else 0.

Definition opt_bind {A B} (o : option A) (f : A -> option B) : option B :=
  match o with Some x => f x | None => None end.

Definition from_line (l : bytes) : option mitem :=
  match l with
  | [] => None
  | _ =>
    match split_sep l [] with
    | f0 :: _ :: f2 :: f3 :: f4 :: f5 :: f6 :: f7 :: rest =>
        opt_bind (parse_uint U64_MAX f0) (fun ts =>
        opt_bind (parse_uint U64_MAX f3) (fun pass =>
        opt_bind (parse_uint U64_MAX f4) (fun block =>
        opt_bind (parse_uint U64_MAX f5) (fun complete =>
        opt_bind (parse_uint U64_MAX f6) (fun err =>
        opt_bind (parse_uint U64_MAX f7) (fun rt =>
          match rest with
          | [] => Some (mkMI f2 0 ts pass block complete err rt 0 0)
          | f8 :: rest1 =>
              opt_bind (parse_uint U64_MAX f8) (fun occ =>
                match rest1 with
                | [] => Some (mkMI f2 0 ts pass block complete err rt occ 0)
                | f9 :: rest2 =>
                    opt_bind (parse_uint U32_MAX f9) (fun conc =>
                      match rest2 with
                      | [] => Some (mkMI f2 0 ts pass block complete err rt occ conc)
                      | f10 :: _ =>
                          opt_bind (parse_uint U8_MAX f10) (fun ty =>
                            Some (mkMI f2 (type_of_u8 ty) ts pass block complete err rt occ conc))
                      end)
                end)
          end))))))
    | _ => None
    end
  end.

(** the item a line parses back to: only the separator in the name is replaced *)
Definition norm (i : mitem) : mitem :=
  mkMI (clean_name (mi_res i)) (mi_type i) (mi_ts i) (mi_pass i) (mi_block i) (mi_complete i)
       (mi_error i) (mi_avg_rt i) (mi_occupied i) (mi_conc i).

(** items a MetricItem can hold *)
Definition item_wf (i : mitem) : Prop :=
  mi_type i <= 6 /\ mi_ts i <= U64_MAX /\ mi_pass i <= U64_MAX /\ mi_block i <= U64_MAX /\
  mi_complete i <= U64_MAX /\ mi_error i <= U64_MAX /\ mi_avg_rt i <= U64_MAX /\
  mi_occupied i <= U64_MAX /\ mi_conc i <= U32_MAX /\ Forall (fun b => b <= 255) (mi_res i).
