(** Executable model of the validity checks of the five rule families
    (core/{flow,hotspot,circuitbreaker,isolation,system}/rule.rs, fn is_valid) and of what the
    loading entry points answer for a single rule on fresh managers.  Thresholds are f64 values;
    comparisons follow IEEE semantics (every comparison with NaN is false).  Model only. *)
From SV Require Export Model.Base.
From SV Require Import Model.F64.
Open Scope N_scope.

Definition f0 : f64 := f64_of_Z 0.
Definition f1 : f64 := f64_of_Z 1.
Definition f100 : f64 := f64_of_Z 100.

Record flow_rule := mkFR {
  fr_res_empty : bool; fr_calc : N (* 0 Direct 1 WarmUp 2 MemoryAdaptive *); fr_ctrl : N; fr_assoc : bool;
  fr_ref_empty : bool; fr_thr : f64; fr_warm : N; fr_cold : N; fr_maxq : N; fr_stat : N;
  fr_lowmem : N; fr_highmem : N; fr_lowwater : N; fr_highwater : N }.

(** [total_mem] = system_metric::get_total_memory_size() *)
Definition valid_flow (total_mem : N) (r : flow_rule) : bool :=
  negb (fr_res_empty r) &&
  negb (flt (fr_thr r) f0) &&
  negb (fr_assoc r && fr_ref_empty r) &&
  (if fr_calc r =? 1 then negb (fr_warm r =? 0) && negb (fr_cold r =? 1) else true) &&
  (if fr_calc r =? 2 then
     negb ((fr_lowwater r =? 0) || (fr_highwater r =? 0) || (fr_highmem r =? 0) || (fr_lowmem r =? 0)) &&
     negb (fr_lowmem r <=? fr_highmem r) &&
     negb (total_mem <? fr_highwater r) &&
     negb (fr_highwater r <=? fr_lowwater r)
   else true).

Record hot_rule := mkHotR { hr_res_empty : bool; hr_qps : bool; hr_idx : Z; hr_key_nonempty : bool; hr_dur : N }.
Definition valid_hot (r : hot_rule) : bool :=
  negb (hr_res_empty r) &&
  negb (hr_qps r && (hr_dur r =? 0)) &&
  negb ((0 <? hr_idx r)%Z && hr_key_nonempty r).

Record cb_rule := mkCbR { cr_res_empty : bool; cr_strategy : N (* 0 slow 1 ratio 2 count *); cr_retry : N;
                          cr_interval : N; cr_thr : f64 }.
Definition valid_cb (r : cb_rule) : bool :=
  negb (cr_res_empty r) && negb (cr_interval r =? 0) && negb (cr_retry r =? 0) &&
  negb (flt (cr_thr r) f0) &&
  negb (negb (cr_strategy r =? 2) && flt f1 (cr_thr r)).

Record iso_rule := mkIsoR { ir_res_empty : bool; ir_thr : N }.
Definition valid_iso (r : iso_rule) : bool := negb (ir_res_empty r) && negb (ir_thr r =? 0).

Record sys_rule := mkSysR { sr_metric : N (* 0 Load 1 AvgRT 2 Concurrency 3 InboundQPS 4 CpuUsage *); sr_thr : f64 }.
Definition valid_sys (r : sys_rule) : bool :=
  negb (flt (sr_thr r) f0) &&
  negb ((sr_metric r =? 4) && (flt f100 (sr_thr r) || flt (sr_thr r) f0)) &&
  negb ((sr_metric r =? 0) && (flt f1 (sr_thr r) || flt (sr_thr r) f0)).

Inductive any_rule :=
| RFlow (r : flow_rule) | RHot (r : hot_rule) | RCb (r : cb_rule) | RIso (r : iso_rule) | RSys (r : sys_rule).

Definition valid_any (total_mem : N) (r : any_rule) : bool :=
  match r with
  | RFlow x => valid_flow total_mem x | RHot x => valid_hot x | RCb x => valid_cb x
  | RIso x => valid_iso x | RSys x => valid_sys x
  end.

Definition res_empty (r : any_rule) : bool :=
  match r with
  | RFlow x => fr_res_empty x | RHot x => hr_res_empty x | RCb x => cr_res_empty x
  | RIso x => ir_res_empty x | RSys _ => false
  end.

(** what a loading call answers for one rule offered to fresh managers
    (1 true, 0 false, 2 Err, 9 no return value) and whether the rule is then listed *)
Definition load_answer (total_mem : N) (entry : N) (r : any_rule) : Z * bool :=
  let v := valid_any total_mem r in
  match r, entry with
  | RSys _, 2 => (1%Z, v)                               (* system append: true even when ignored *)
  | RSys _, _ => (9%Z, v)
  | RIso _, 0 => (9%Z, v)
  | RIso _, 1 => if res_empty r then (2%Z, false) else (1%Z, v)
  | RIso _, _ => (1%Z, v)                               (* isolation append: true even when ignored *)
  | _, 0 => (1%Z, v)                                    (* the as-given map changed *)
  | _, 1 => if res_empty r then (2%Z, false) else (1%Z, v)
  | _, _ => ((if v then 1 else 0)%Z, v)
  end.

(** * Rule equality (impl PartialEq for Rule, per family) and statistic reuse (is_stat_reusable).
    Rules with every compared field; resources and keys as numbers, overrides as association
    lists compared as maps. *)
Record flow_full := mkFF {
  ff_res : N; ff_ref : N; ff_calc : N; ff_ctrl : N; ff_rel : N; ff_thr : f64; ff_warm : N; ff_cold : N;
  ff_maxq : N; ff_stat : N; ff_lowmem : N; ff_highmem : N; ff_lowwater : N; ff_highwater : N }.

Definition eq_flow (a b : flow_full) : bool :=
  (ff_res a =? ff_res b) && (ff_ref a =? ff_ref b) && (ff_calc a =? ff_calc b) && (ff_ctrl a =? ff_ctrl b) &&
  (ff_rel a =? ff_rel b) && feq (ff_thr a) (ff_thr b) && (ff_warm a =? ff_warm b) && (ff_cold a =? ff_cold b) &&
  (ff_maxq a =? ff_maxq b) && (ff_stat a =? ff_stat b) && (ff_lowmem a =? ff_lowmem b) &&
  (ff_highmem a =? ff_highmem b) && (ff_lowwater a =? ff_lowwater b) && (ff_highwater a =? ff_highwater b).

(** need_statistic: warm-up calculation or reject control *)
Definition flow_need_stat (a : flow_full) : bool := (ff_calc a =? 1) || (ff_ctrl a =? 0).
Definition reuse_flow (a b : flow_full) : bool :=
  (ff_res a =? ff_res b) && (ff_rel a =? ff_rel b) && (ff_ref a =? ff_ref b) && (ff_stat a =? ff_stat b) &&
  flow_need_stat a && flow_need_stat b.

Record hot_full := mkHF {
  hf_res : N; hf_metric : N; hf_ctrl : N; hf_idx : Z; hf_key : N; hf_thr : N; hf_maxq : N; hf_burst : N;
  hf_dur : N; hf_cap : N; hf_spec : list (N * N) }.

Fixpoint assoc_N (k : N) (l : list (N * N)) : option N :=
  match l with [] => None | (a, b) :: tl => if a =? k then Some b else assoc_N k tl end.
Definition opt_eqb (a b : option N) : bool :=
  match a, b with Some x, Some y => x =? y | None, None => true | _, _ => false end.
Definition map_eqb (a b : list (N * N)) : bool :=
  forallb (fun kv : N * N => opt_eqb (assoc_N (fst kv) a) (assoc_N (fst kv) b)) (a ++ b).

Definition eq_hot (a b : hot_full) : bool :=
  (hf_res a =? hf_res b) && (hf_metric a =? hf_metric b) && (hf_ctrl a =? hf_ctrl b) && (hf_cap a =? hf_cap b) &&
  (hf_idx a =? hf_idx b)%Z && (hf_key a =? hf_key b) && (hf_thr a =? hf_thr b) && (hf_dur a =? hf_dur b) &&
  map_eqb (hf_spec a) (hf_spec b) &&
  (((hf_ctrl a =? 0) && (hf_burst a =? hf_burst b)) || ((hf_ctrl a =? 1) && (hf_maxq a =? hf_maxq b))).
Definition reuse_hot (a b : hot_full) : bool :=
  (hf_res a =? hf_res b) && (hf_ctrl a =? hf_ctrl b) && (hf_cap a =? hf_cap b) && (hf_dur a =? hf_dur b) &&
  (hf_metric a =? hf_metric b).

Record cb_full := mkCF {
  cf_res : N; cf_strategy : N; cf_retry : N; cf_minreq : N; cf_interval : N; cf_buckets : N; cf_maxrt : N; cf_thr : f64 }.
Definition eq_cb (a b : cb_full) : bool :=
  (cf_res a =? cf_res b) && (cf_strategy a =? cf_strategy b) && (cf_retry a =? cf_retry b) &&
  (cf_minreq a =? cf_minreq b) && (cf_interval a =? cf_interval b) && (cf_buckets a =? cf_buckets b) &&
  (if cf_strategy a =? 0 then (cf_maxrt a =? cf_maxrt b) && feq (cf_thr a) (cf_thr b) else feq (cf_thr a) (cf_thr b)).
Definition reuse_cb (a b : cb_full) : bool :=
  (cf_res a =? cf_res b) && (cf_strategy a =? cf_strategy b) && (cf_interval a =? cf_interval b) &&
  (cf_buckets a =? cf_buckets b).

Record iso_full := mkIF { if_res : N; if_thr : N }.
Definition eq_iso (a b : iso_full) : bool := (if_res a =? if_res b) && (if_thr a =? if_thr b).

Record sys_full := mkSF { sf_metric : N; sf_strategy : N; sf_thr : f64 }.
Definition eq_sys (a b : sys_full) : bool :=
  (sf_metric a =? sf_metric b) && feq (sf_thr a) (sf_thr b) && (sf_strategy a =? sf_strategy b).

Inductive rule_pair :=
| PFlow (a b : flow_full) | PHot (a b : hot_full) | PCb (a b : cb_full) | PIso (a b : iso_full) | PSys (a b : sys_full).

(** (a == b, a.is_stat_reusable(b)) ; families without statistic reuse answer false *)
Definition pair_answer (p : rule_pair) : bool * bool :=
  match p with
  | PFlow a b => (eq_flow a b, reuse_flow a b)
  | PHot a b => (eq_hot a b, reuse_hot a b)
  | PCb a b => (eq_cb a b, reuse_cb a b)
  | PIso a b => (eq_iso a b, false)
  | PSys a b => (eq_sys a b, false)
  end.
