(** Executable model of sentinel-core/src/core/base/slot_chain.rs (SlotChain::add_*,
    entry, exit), api/base.rs (EntryBuilder::build: Blocked => self-exit + Err) and
    base/entry.rs (exit), over abstract slots.  Model only. *)
From SV Require Export Model.Base.
Open Scope N_scope.

(** A slot is known by an id and its [order()] value. *)
Record sl := mkS { s_id : N; s_ord : N }.

(** What a rule-check slot returns. *)
Inductive cres := CPass | CBlocked (k : N) | CWait (n : N).

(** SlotChain::add_*: push, then sort by key.  sort_unstable_by_key may order equal keys
    arbitrarily; the model inserts after the last element with a key <= the new one (what
    the insertion sort used for short slices does).  Theorems are stated for every sorted
    permutation, not only this one. *)
Fixpoint insert_slot (x : sl) (l : list sl) : list sl :=
  match l with
  | [] => [x]
  | y :: tl => if s_ord x <? s_ord y then x :: y :: tl else y :: insert_slot x tl
  end.

Definition add_all (added : list sl) : list sl := fold_left (fun acc x => insert_slot x acc) added [].

Record chain := mkChain { ch_pre : list sl; ch_chk : list sl; ch_stat : list sl }.

(** Events observable from inside slots. *)
Inductive ev :=
| EPrep (s : sl)
| ECheck (s : sl)
| EPass (s : sl)
| EBlocked (s : sl) (k : N)
| EDone (s : sl).

(** ctx.result after the check loop: the last Blocked result wins; Wait is ignored. *)
Fixpoint run_checks (res : N -> cres) (l : list sl) (cur : option N) : option N :=
  match l with
  | [] => cur
  | s :: tl => match res (s_id s) with
               | CBlocked k => run_checks res tl (Some k)
               | _ => run_checks res tl cur
               end
  end.

Definition notify (r : option N) (s : sl) : ev :=
  match r with None => EPass s | Some k => EBlocked s k end.

(** SlotChain::entry *)
Definition entry (c : chain) (res : N -> cres) : option N * list ev :=
  let r := run_checks res (ch_chk c) None in
  (r, map EPrep (ch_pre c) ++ map ECheck (ch_chk c) ++ map (notify r) (ch_stat c)).

(** SlotChain::exit : nothing for a blocked context, else on_completed on every stat slot *)
Definition chain_exit (c : chain) (r : option N) : list ev :=
  match r with Some _ => [] | None => map EDone (ch_stat c) end.

(** EntryBuilder::build followed (when admitted) by one exit() of the caller.
    A blocked entry is exited by build itself (no completion because it is blocked). *)
Definition build_and_exit (c : chain) (res : N -> cres) : option N * list ev * list ev :=
  let '(r, tr) := entry c res in
  match r with
  | Some k => (r, tr ++ chain_exit c r, [])
  | None => (r, tr, chain_exit c r)
  end.
