(** Executable model of the metric log:
      core/log/metric/writer.rs    DefaultMetricLogWriter (index entry per new second, roll by day
                                   and by size, retention)
      core/log/metric/mod.rs       file listing and ordering
      core/log/metric/searcher.rs  DefaultMetricSearcher (a fresh searcher per query: no cached position)
      core/log/metric/reader.rs    DefaultMetricLogReader
    over a directory of byte files.  A file "<app>-metrics.log.<date>[.<n>]" is identified by its
    day number and its number (0 = no suffix).  Model only. *)
From SV Require Export Model.Base Model.MetricLine.
Open Scope N_scope.

Record mfile := mkMF { f_day : N; f_no : N; f_log : bytes; f_idx : bytes }.

(** ** listing order (filename_comparator): by date, then by file number *)
Definition suffix_of (no : N) : bytes := if no =? 0 then [] else 46 :: dec no.

Fixpoint lex_ltb (a b : bytes) : bool :=
  match a, b with
  | [], [] => false
  | [], _ :: _ => true
  | _ :: _, [] => false
  | x :: a', y :: b' => if x <? y then true else if y <? x then false else lex_ltb a' b'
  end.

(** same date: by number (no suffix = 0) *)
Definition file_ltb (a b : mfile) : bool :=
  if f_day a <? f_day b then true else if f_day b <? f_day a then false
  else f_no a <? f_no b.

Fixpoint insert_file (x : mfile) (l : list mfile) : list mfile :=
  match l with
  | [] => [x]
  | y :: tl => if file_ltb y x then y :: insert_file x tl else x :: y :: tl
  end.
Definition sorted_files (dir : list mfile) : list mfile := fold_right insert_file [] dir.

Definition same_file (a : mfile) (day no : N) : bool := (f_day a =? day) && (f_no a =? no).

(** ** the writer *)
Record mlw := mkMLW {
  w_dir : list mfile;
  w_cur : option (N * N);
  w_latest : N;             (* latest_op_sec *)
  w_max_size : N;
  w_max_files : N
}.

Definition day_of_ms (t : N) : N := t / 86400000.

(** next_file_name_of_time *)
Definition next_name (dir : list mfile) (time : N) : N * N :=
  let day := day_of_ms time in
  match List.rev (sorted_files (filter (fun f => f_day f =? day) dir)) with
  | [] => (day, 0)
  | last :: _ => (day, f_no last + 1)
  end.

(** remove_deprecated_files *)
Definition remove_deprecated (dir : list mfile) (max_files : N) : list mfile :=
  let fs := sorted_files dir in
  let n := N.of_nat (length fs) in
  if max_files <=? n then skipn (N.to_nat (n - max_files + 1)) fs else fs.

(** close_cur_and_new_file: File::create truncates an existing file of that name *)
Definition roll (w : mlw) (time : N) : mlw :=
  let '(day, no) := next_name (w_dir w) time in
  let dir1 := remove_deprecated (w_dir w) (w_max_files w) in
  let dir2 := filter (fun f => negb (same_file f day no)) dir1 ++ [mkMF day no [] []] in
  mkMLW dir2 (Some (day, no)) (w_latest w) (w_max_size w) (w_max_files w).

Definition writer_new (now max_size max_files : N) : option mlw :=
  if (max_size =? 0) || (max_files =? 0) then None
  else let w := roll (mkMLW [] None 0 max_size max_files) now in
       Some (mkMLW (w_dir w) (w_cur w) (now / 1000) max_size max_files).

Definition upd_cur (w : mlw) (f : mfile -> mfile) : mlw :=
  match w_cur w with
  | Some (day, no) =>
      mkMLW (map (fun x => if same_file x day no then f x else x) (w_dir w)) (w_cur w) (w_latest w)
            (w_max_size w) (w_max_files w)
  | None => w
  end.
Definition cur_file (w : mlw) : option mfile :=
  match w_cur w with
  | Some (day, no) => find (fun x => same_file x day no) (w_dir w)
  | None => None
  end.

(** big-endian u64 *)
Fixpoint be_bytes (k : nat) (n : N) : bytes :=
  match k with O => [] | S k' => be_bytes k' (n / 256) ++ [n mod 256] end.
Definition be64 (n : N) : bytes := be_bytes 8 n.
Fixpoint be_val (l : bytes) (acc : N) : N := match l with [] => acc | b :: tl => be_val tl (acc * 256 + b) end.

Definition with_ts (ts : N) (i : mitem) : mitem :=
  mkMI (mi_res i) (mi_type i) ts (mi_pass i) (mi_block i) (mi_complete i) (mi_error i) (mi_avg_rt i)
       (mi_occupied i) (mi_conc i).

Inductive wret := WOk | WErr.

(** MetricLogWriter::write *)
Definition mwrite (w : mlw) (ts : N) (items : list mitem) : mlw * wret :=
  match items with
  | [] => (w, WOk)
  | _ =>
      if ts =? 0 then (w, WErr) else
      match cur_file w with
      | None => (w, WErr)
      | Some cf =>
          let sec := ts / 1000 in
          if sec <? w_latest w then (w, WOk) else
          let w1 :=
            if w_latest w <? sec then
              (* roll first: the index entry belongs to the file that gets the lines *)
              let w' := if w_latest w / 86400 <? sec / 86400 then roll w ts else w in
              upd_cur w' (fun f => mkMF (f_day f) (f_no f) (f_log f)
                                        (f_idx f ++ be64 sec ++ be64 (N.of_nat (length (f_log f)))))
            else w in
          let lines := flat_map (fun i => to_line (with_ts ts i) ++ [10]) items in
          let w2 := upd_cur w1 (fun f => mkMF (f_day f) (f_no f) (f_log f ++ lines) (f_idx f)) in
          let w3 := match cur_file w2 with
                    | Some f => if w_max_size w2 <=? N.of_nat (length (f_log f)) then roll w2 ts else w2
                    | None => w2
                    end in
          (mkMLW (w_dir w3) (w_cur w3) (N.max (w_latest w) sec) (w_max_size w3) (w_max_files w3), WOk)
      end
  end.

Fixpoint bytes_eqb (a b : bytes) : bool :=
  match a, b with [], [] => true | x :: a', y :: b' => (x =? y) && bytes_eqb a' b' | _, _ => false end.

(** ** reading *)
Fixpoint split_lines (l : bytes) (cur : bytes) : list bytes :=
  match l with
  | [] => match cur with [] => [] | _ => [List.rev cur] end
  | b :: tl => if b =? 10 then List.rev cur :: split_lines tl [] else split_lines tl (b :: cur)
  end.
Fixpoint strip_cr (l : bytes) : bytes :=       (* on the reversed line *)
  match l with 13 :: tl => strip_cr tl | _ => l end.
Definition clean_line (l : bytes) : bytes := List.rev (strip_cr (List.rev l)).
Definition lines_from (f : mfile) (off : N) : list bytes :=
  map clean_line (split_lines (skipn (N.to_nat off) (f_log f)) []).

(** read_metrics_one_file_by_end_time *)
Fixpoint read_by_time (lines : list bytes) (bsec esec : N) (res : bytes) (acc : list mitem) : list mitem * bool :=
  match lines with
  | [] => (List.rev acc, true)
  | l :: tl =>
      match from_line l with
      | None => read_by_time tl bsec esec res acc
      | Some it =>
          let s := mi_ts it / 1000 in
          if (s <? bsec) || (esec <? s) then (List.rev acc, false)
          else read_by_time tl bsec esec res
                 (if match res with [] => true | _ => false end || bytes_eqb res (mi_res it) then it :: acc else acc)
      end
  end.

Fixpoint read_files_by_time (files : list mfile) (bsec esec : N) (res : bytes) : list mitem :=
  match files with
  | [] => []
  | f :: tl => let '(items, cont) := read_by_time (lines_from f 0) bsec esec res [] in
               if cont then items ++ read_files_by_time tl bsec esec res else items
  end.

(** read_metrics_in_one_file *)
Fixpoint read_max (lines : list bytes) (max : N) (last_sec prev : N) (acc : list mitem) : list mitem * bool :=
  match lines with
  | [] => (List.rev acc, prev + N.of_nat (length acc) <? max)
  | l :: tl =>
      match from_line l with
      | None => read_max tl max last_sec prev acc
      | Some it =>
          let s := mi_ts it / 1000 in
          if (max <=? prev + N.of_nat (length acc)) && negb (s =? last_sec) then (List.rev acc, false)
          else read_max tl max s prev (it :: acc)
      end
  end.

Definition latest_sec (items : list mitem) : N :=
  match List.rev items with [] => 0 | it :: _ => mi_ts it / 1000 end.

Fixpoint read_files_max (files : list mfile) (max : N) (items : list mitem) : list mitem :=
  match files with
  | [] => items
  | f :: tl =>
      if max <=? N.of_nat (length items) then items else
      let '(arr, cont) := read_max (lines_from f 0) max (latest_sec items) (N.of_nat (length items)) [] in
      if cont then read_files_max tl max (items ++ arr) else items ++ arr
  end.

(** ** searching *)
Inductive offres := OffOk (off : N) | OffErr.

(** find_offset_to_start over the index bytes: pairs (second, offset) until second >= begin *)
Fixpoint find_offset (fuel : nat) (idx : bytes) (bsec : N) (off : N) : offres :=
  match fuel with
  | O => OffErr
  | S f =>
      if (length idx <? 8)%nat then OffErr else       (* no second at or after the begin time in this file *)
      let sec := be_val (firstn 8 idx) 0 in
      let rest := skipn 8 idx in
      if (length rest <? 8)%nat then OffErr else
      let o := be_val (firstn 8 rest) 0 in
      if bsec <=? sec then OffOk o else find_offset f (skipn 8 rest) bsec o
  end.

Inductive sres := SItems (l : list mitem) | SErr.

(** search_offset_and_read with a fresh searcher *)
Fixpoint search_from (files : list mfile) (bsec : N) (rd : mfile -> N -> list mfile -> list mitem) : list mitem :=
  match files with
  | [] => []
  | f :: tl =>
      match find_offset (S (length (f_idx f))) (f_idx f) bsec 0 with
      | OffOk off => rd f off tl
      | OffErr => search_from tl bsec rd
      end
  end.

Definition find_by_time (dir : list mfile) (begin_ms end_ms : N) (res : bytes) : list mitem :=
  let bsec := begin_ms / 1000 in
  let esec := end_ms / 1000 in
  search_from (sorted_files dir) bsec
    (fun f off rest =>
       let '(items, cont) := read_by_time (lines_from f off) bsec esec res [] in
       if cont then items ++ read_files_by_time rest bsec esec res else items).

Definition find_max_lines (dir : list mfile) (begin_ms max : N) : list mitem :=
  search_from (sorted_files dir) (begin_ms / 1000)
    (fun f off rest =>
       let '(items, cont) := read_max (lines_from f off) max 0 0 [] in
       if cont then read_files_max rest max items else items).
