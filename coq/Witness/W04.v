(** Non-vacuity witnesses for Props/C04.v.

    Unconditional theorems: C04_default_config_ok ([C04_example] is a closed computation).

    Theorems with premises, each with a [_premises_hold] and an [_instance] example below:
      C04_accounting, C04_generated_controllers_ok. *)
From SV Require Import Model.Base Model.LeapArray Model.World Spec.WorldSpec Spec.C04Spec
  Proofs.WorldProofs Proofs.C04Proofs.
From SV Require Import Props.C04.
From Coq Require Import Lia.
Open Scope N_scope.

(** * Shared concrete values *)

(** a second, non-default configuration: 6 buckets of 250 ms, default metric 3 samples over 1.5 s *)
Definition w04_cfg2 : cfg := mkCfg (mkG 6 250) 3 1500.
Lemma w04_cfg2_ok : geom_ok w04_cfg2.
Proof. repeat split; vm_compute; reflexivity. Qed.

(** Flow controllers as the rule manager generates them ([stat_for default_cfg interval]):
    resource 0 : rule 1, threshold 2.5, private 3 x 500 ms ring (interval 1500);
                 rule 2, threshold 3, window of 4 buckets over the 10 s ring (interval 2000);
                 rule 3, threshold +inf, default metric (interval 0);
                 rule 4, threshold NaN, private 1 x 700 ms ring (interval 700);
    resource 1 : rule 5, threshold 1, private 6 x 500 ms ring (interval 3000);
    resource 2 : rule 6, threshold -inf, default metric;
    resource 3 : no flow rule. *)
Definition w04_fl (res : N) : list fctl :=
  if res =? 0 then [mkF 1 (TFin 5 (-1)) (stat_for default_cfg 1500); mkF 2 (TFin 3 0) (stat_for default_cfg 2000);
                    mkF 3 TPosInf (stat_for default_cfg 0); mkF 4 TNaN (stat_for default_cfg 700)]
  else if res =? 1 then [mkF 5 (TFin 1 0) (stat_for default_cfg 3000)]
  else if res =? 2 then [mkF 6 TNegInf (stat_for default_cfg 1000)] else [].

Example w04_fl_stats :
  map f_stat (w04_fl 0 ++ w04_fl 1 ++ w04_fl 2) =
  [SPrivate (mkG 3 500) (mkW 3 1500) (ring0 (mkG 3 500)); SReuse (mkW 4 2000); SDefault;
   SPrivate (mkG 1 700) (mkW 1 700) (ring0 (mkG 1 700));
   SPrivate (mkG 6 500) (mkW 6 3000) (ring0 (mkG 6 500)); SDefault].
Proof. vm_compute. reflexivity. Qed.

(** isolation rules: resource 0 : rule 10 (threshold 3); resource 3 : rules 11 (1) and 12 (5) *)
Definition w04_iso (res : N) : list (N * N) :=
  if res =? 0 then [(10, 3)] else if res =? 3 then [(11, 1); (12, 5)] else [].

Definition w04_base : N := 600000.

(** builds on four resources (inbound and outbound, batches 0, 1, 2, 4), admitted or rejected by a flow
    rule (type 1, rules 1, 2, 5, 6), by an isolation rule (type 2, rules 10, 11) or by an extra slot
    (type 9); exits in another order than the builds, a double exit and an exit of an unknown id;
    clock advances that move the windows; reads of every node and of the inbound node in between *)
Definition w04_ops : list cmd :=
  [WB 1 0 1 true None; WB 2 0 1 false None; WB 3 0 1 true None; WB 4 1 1 true None; WB 5 1 1 false None;
   WA 300; WX 1; WR 0; WRI; WA 1200; WB 6 0 1 false None; WB 7 0 1 true None; WA 500; WB 8 0 1 true None;
   WB 9 0 2 false None; WR 0; WX 99; WB 13 0 1 true (Some 9); WB 14 0 1 true None; WR 0;
   WB 15 3 4 true None; WB 16 3 1 true None; WB 17 3 1 true None; WR 3; WA 400; WX 8; WX 4; WX 8;
   WA 3000; WB 10 1 1 false None; WB 11 0 0 false None; WB 12 2 0 false None; WR 0; WR 1; WR 2; WR 3; WRI].

Example w04_history :
  run_typed (world0 default_cfg w04_base w04_fl w04_iso) w04_ops =
  [ZAdmit; ZAdmit; ZBlock 1 1 2; ZAdmit; ZBlock 1 5 1; ZTick; ZExited; ZRead 1 2 1 1 300; ZRead 1 2 1 1 300;
   ZTick; ZAdmit; ZBlock 1 2 3; ZTick; ZAdmit; ZBlock 2 10 3; ZRead 3 2 3 0 0; ZNoEntry; ZBlock 9 0 0;
   ZBlock 2 10 3; ZRead 3 2 5 0 0; ZBlock 2 11 0; ZAdmit; ZBlock 2 11 1; ZRead 1 1 5 0 0; ZTick; ZExited;
   ZExited; ZNoEntry; ZTick; ZAdmit; ZAdmit; ZBlock 1 6 0; ZRead 3 0 0 0 0; ZRead 1 1 0 0 0; ZRead 0 0 0 0 0;
   ZRead 1 0 0 0 0; ZRead 1 0 0 0 0].
Proof. vm_compute. reflexivity. Qed.

Lemma w04_fl_ok : flow_ok default_cfg w04_base w04_fl.
Proof.
  intros res. unfold w04_fl.
  destruct (res =? 0); [|destruct (res =? 1); [|destruct (res =? 2)]];
    repeat (apply Forall_cons;
            [apply C04_generated_controllers_ok; [exact C04_default_config_ok|unfold w04_base; lia]|]);
    apply Forall_nil.
Qed.

(** the same under the second configuration (statistics generated for that configuration) *)
Definition w04_fl2 (res : N) : list fctl :=
  if res =? 0 then [mkF 1 (TFin 5 (-1)) (stat_for w04_cfg2 1000); mkF 2 (TFin 3 0) (stat_for w04_cfg2 0);
                    mkF 3 TPosInf (stat_for w04_cfg2 500); mkF 4 TNaN (stat_for w04_cfg2 700)]
  else if res =? 1 then [mkF 5 (TFin 1 0) (stat_for w04_cfg2 3000)]
  else if res =? 2 then [mkF 6 TNegInf (stat_for w04_cfg2 1500)] else [].

Example w04_fl2_stats :
  map f_stat (w04_fl2 0 ++ w04_fl2 1 ++ w04_fl2 2) =
  [SPrivate (mkG 4 250) (mkW 4 1000) (ring0 (mkG 4 250)); SDefault; SReuse (mkW 2 500);
   SPrivate (mkG 1 700) (mkW 1 700) (ring0 (mkG 1 700));
   SPrivate (mkG 1 3000) (mkW 1 3000) (ring0 (mkG 1 3000)); SDefault].
Proof. vm_compute. reflexivity. Qed.

Lemma w04_fl2_ok : flow_ok w04_cfg2 w04_base w04_fl2.
Proof.
  intros res. unfold w04_fl2.
  destruct (res =? 0); [|destruct (res =? 1); [|destruct (res =? 2)]];
    repeat (apply Forall_cons;
            [apply C04_generated_controllers_ok; [exact w04_cfg2_ok|unfold w04_base; lia]|]);
    apply Forall_nil.
Qed.

(** under the second configuration the history still has admissions, rejections of the three kinds,
    exits and non-zero reads *)
Example w04_history2 :
  let outs := run_typed (world0 w04_cfg2 w04_base w04_fl2 w04_iso) w04_ops in
  length outs = 37%nat /\ In ZAdmit outs /\ In (ZBlock 1 1 2) outs /\ In (ZBlock 2 10 3) outs /\
  In (ZBlock 9 0 0) outs /\ In ZExited outs /\ In ZNoEntry outs /\ In (ZRead 1 2 1 1 300) outs /\ ~ In ZPanic outs.
Proof.
  vm_compute. repeat split; try tauto.
  intros H. repeat (destruct H as [H|H]; [discriminate H|]). exact H.
Qed.

(** * C04_accounting *)
Example C04_accounting_premises_hold :
  exists c base fl (iso : N -> list (N * N)) (ops : list cmd),
    geom_ok c /\ iv (c_total c) <= base /\ flow_ok c base fl /\
    (* the chosen values *)
    c = default_cfg /\ base = w04_base /\ fl 0 = w04_fl 0 /\ fl 1 = w04_fl 1 /\ fl 2 = w04_fl 2 /\
    iso 0 = [(10, 3)] /\ iso 3 = [(11, 1); (12, 5)] /\ ops = w04_ops.
Proof.
  exists default_cfg, w04_base, w04_fl, w04_iso, w04_ops.
  split; [exact C04_default_config_ok|]. split; [vm_compute; discriminate|]. split; [exact w04_fl_ok|].
  repeat split; reflexivity.
Qed.

Example C04_accounting_instance :
  ok_c04 default_cfg (ghost0 w04_base) w04_ops (run_typed (world0 default_cfg w04_base w04_fl w04_iso) w04_ops) = true.
Proof.
  apply (C04_accounting default_cfg w04_base w04_fl w04_iso w04_ops).
  - exact C04_default_config_ok.
  - vm_compute; discriminate.
  - exact w04_fl_ok.
Qed.

Example C04_accounting_premises_hold_cfg2 :
  exists c base fl (iso : N -> list (N * N)) (ops : list cmd),
    geom_ok c /\ iv (c_total c) <= base /\ flow_ok c base fl /\
    c = w04_cfg2 /\ base = w04_base /\ fl 0 = w04_fl2 0 /\ fl 1 = w04_fl2 1 /\ iso 0 = [(10, 3)] /\ ops = w04_ops.
Proof.
  exists w04_cfg2, w04_base, w04_fl2, w04_iso, w04_ops.
  split; [exact w04_cfg2_ok|]. split; [vm_compute; discriminate|]. split; [exact w04_fl2_ok|].
  repeat split; reflexivity.
Qed.

Example C04_accounting_instance_cfg2 :
  ok_c04 w04_cfg2 (ghost0 w04_base) w04_ops (run_typed (world0 w04_cfg2 w04_base w04_fl2 w04_iso) w04_ops) = true.
Proof.
  apply (C04_accounting w04_cfg2 w04_base w04_fl2 w04_iso w04_ops).
  - exact w04_cfg2_ok.
  - vm_compute; discriminate.
  - exact w04_fl2_ok.
Qed.

(** * C04_generated_controllers_ok : rule 5, threshold 1, statistic interval 3000 (a private 6 x 500 ms
    ring), at a time of at least 3000 *)
Example C04_generated_controllers_ok_premises_hold :
  exists c interval now (rule : N) (t : thr),
    geom_ok c /\ interval <= now /\
    c = default_cfg /\ interval = 3000 /\ now = 4200 /\ rule = 5 /\ t = TFin 1 0.
Proof.
  exists default_cfg, 3000, 4200, 5, (TFin 1 0).
  split; [exact C04_default_config_ok|]. split; [lia|]. repeat split; reflexivity.
Qed.

Example C04_generated_controllers_ok_instance :
  fctl_rel default_cfg [] 4200 (mkF 5 (TFin 1 0) (stat_for default_cfg 3000)).
Proof.
  apply (C04_generated_controllers_ok default_cfg 3000 4200 5 (TFin 1 0)); [exact C04_default_config_ok|lia].
Qed.

(** what that instance says once [stat_for] is computed *)
Example C04_generated_controllers_ok_instance_unfolded :
  let g := mkG 6 500 in let w := mkW 6 3000 in
  0 < bl g /\ 0 < sc g /\ win_new g (w_sc w) (w_iv w) = Some w /\ iv g <= 4200 /\
  ring_rel g (ring0 g) (Spec.C01Spec.passes []) 4200.
Proof. exact C04_generated_controllers_ok_instance. Qed.

(** a window over the node's ring under the second configuration: the condition is that [win_new] accepts it *)
Example C04_generated_controllers_ok_instance_cfg2 :
  fctl_rel w04_cfg2 [] 500 (mkF 3 TPosInf (stat_for w04_cfg2 500)).
Proof. apply (C04_generated_controllers_ok w04_cfg2 500 500 3 TPosInf); [exact w04_cfg2_ok|lia]. Qed.

Example C04_generated_controllers_ok_instance_cfg2_unfolded :
  win_new (c_total w04_cfg2) 2 500 = Some (mkW 2 500).
Proof. exact C04_generated_controllers_ok_instance_cfg2. Qed.
