(** Non-vacuity witnesses for Props/C02.v.

    Unconditional theorems (no premise, nothing to witness):
      C02_ring_refused_iff, C02_reuse_accepted_iff.

    Witness scenario (shared by all read theorems): ring of 4 buckets of 250 ms (interval 1000 ms),
    read window 2 x 250 ms (interval 500 ms).  14 writes between t=1000 and t=2700:
      - slot 0 (bucket 1000) is recycled for bucket 2000, slot 1 (1250) for 2250, slot 2 (1500) for 2500;
      - Pass / Block / Complete / Rt / concurrency events in the two newest buckets.
    Present read at now=2700 : window = buckets {2250, 2500}.
    Past read at now=2450    : window = buckets {2000, 2250}; the five events at 2600..2700 (bucket 2500)
                               are LATER than the read time and must not be reported. *)
From SV Require Import Model.Base Model.F64 Model.LeapArray Spec.C02Spec
  Proofs.LeapArrayProofs Proofs.C02Proofs Proofs.C02Count Proofs.C02Past Props.C02.
Open Scope N_scope.

Definition g02 : geom := mkG 4 250.
Definition w02 : win := mkW 2 500.
Definition h02 : list ev_t :=
  [ (1000, WAdd Pass 3); (1100, WAdd Rt 40); (1300, WAdd Pass 2); (1600, WConc 7);
    (2100, WAdd Pass 5);                                        (* recycles slot 0 *)
    (2300, WAdd Pass 4); (2300, WAdd Rt 30); (2400, WAdd Complete 1); (2400, WConc 3);  (* recycles slot 1 *)
    (2600, WAdd Pass 1); (2600, WAdd Rt 50); (2650, WAdd Complete 1); (2650, WConc 5);  (* recycles slot 2 *)
    (2700, WAdd Block 2) ].
(** the ring state reached (computed by the model) *)
Definition s02 : list slot :=
  [ (2000, mkB 5 0 0 0 0 MAX_RT 0); (2250, mkB 4 0 1 0 30 30 3);
    (2500, mkB 1 2 1 0 50 50 5);    (0, bucket0) ].

Lemma s02_reached : run_writes g02 (ring0 g02) h02 = Some s02.
Proof. vm_compute. reflexivity. Qed.

Lemma wf_h02 : wf_hist g02 h02.
Proof. unfold wf_hist; simpl; repeat split; discriminate. Qed.

Ltac in_h02 Hin :=
  simpl in Hin; repeat (destruct Hin as [<-|Hin]; [vm_compute; first [discriminate | reflexivity]|]); destruct Hin.

Lemma pre_now : C02_pre g02 2 500 w02 h02 s02 2700.
Proof.
  unfold C02_pre, read_pre. split; [reflexivity|]. split; [reflexivity|].
  split; [exact wf_h02|]. split; [|split; [discriminate|exact s02_reached]].
  intros e Hin. in_h02 Hin.
Qed.

Lemma pre_past : C02_pre_past g02 2 500 w02 h02 s02 2450.
Proof.
  unfold C02_pre_past. split; [reflexivity|]. split; [reflexivity|]. split; [reflexivity|].
  split; [exact wf_h02|]. split; [exact s02_reached|]. split; [discriminate|].
  intros e Hin. in_h02 Hin.
Qed.

(** the past read really is in the past: events later than the read time exist (so the
    premise [forall e, fst e <= now] of the present-time theorems FAILS for this read) *)
Example C02_past_read_has_later_events :
  In (2600, WAdd Pass 1) h02 /\ 2450 < 2600 /\ In (2700, WAdd Block 2) h02 /\ 2450 < 2700 /\
  ~ (forall e, In e h02 -> fst e <= 2450).
Proof.
  split; [simpl; tauto|]. split; [reflexivity|]. split; [simpl; tauto|]. split; [reflexivity|].
  intro H. specialize (H (2700, WAdd Block 2)). simpl in H.
  assert (2700 <= 2450) as C by (apply H; tauto). vm_compute in C. apply C; reflexivity.
Qed.

(** ** C02_writes_accepted *)
Example C02_writes_accepted_premises_hold : exists g h, 0 < bl g /\ 0 < sc g /\ wf_hist g h.
Proof. exists g02, h02. split; [reflexivity|]. split; [reflexivity|exact wf_h02]. Qed.

Example C02_writes_accepted_instance :
  exists slots, run_strict g02 (ring0 g02) h02 = Some slots /\ run_writes g02 (ring0 g02) h02 = Some slots.
Proof. apply (C02_writes_accepted g02 h02); [reflexivity|reflexivity|exact wf_h02]. Qed.

(** ** C02_sum_exact *)
Example C02_sum_exact_premises_hold : exists g wsc wiv w h slots now, C02_pre g wsc wiv w h slots now.
Proof. exists g02, 2, 500, w02, h02, s02, 2700. exact pre_now. Qed.

Example C02_sum_exact_instance :
  sum_with_time g02 w02 s02 2700 Pass = ROk 5 /\ sum_with_time g02 w02 s02 2700 Block = ROk 2 /\
  sum_with_time g02 w02 s02 2700 Complete = ROk 2 /\ sum_with_time g02 w02 s02 2700 Rt = ROk 80.
Proof.
  repeat split; rewrite (C02_sum_exact g02 2 500 w02 h02 s02 2700 _ pre_now); vm_compute; reflexivity.
Qed.

(** ** C02_rate_exact : 5 passes in a 0.5 s window = 10.0 per second *)
Example C02_rate_exact_premises_hold : exists g wsc wiv w h slots now, C02_pre g wsc wiv w h slots now.
Proof. exists g02, 2, 500, w02, h02, s02, 2700. exact pre_now. Qed.

Example C02_rate_exact_instance :
  qps_with_time g02 w02 s02 2700 Pass = ROk (qps_of_sum w02 5) /\ fbits (qps_of_sum w02 5) = fbits (f64_of_Z 10).
Proof.
  split; [|vm_compute; reflexivity].
  rewrite (C02_rate_exact g02 2 500 w02 h02 s02 2700 Pass pre_now).
  replace (spec_sum g02 w02 2700 Pass h02) with 5 by (vm_compute; reflexivity). reflexivity.
Qed.

(** ** C02_avg_rt_exact : 80 ms over 2 completions = 40.0 *)
Example C02_avg_rt_exact_premises_hold : exists g wsc wiv w h slots now, C02_pre g wsc wiv w h slots now.
Proof. exists g02, 2, 500, w02, h02, s02, 2700. exact pre_now. Qed.

Example C02_avg_rt_exact_instance :
  win_avg_rt g02 w02 s02 2700 = ROk (avg_of 80 2) /\ fbits (avg_of 80 2) = fbits (f64_of_Z 40).
Proof.
  split; [|vm_compute; reflexivity].
  rewrite (C02_avg_rt_exact g02 2 500 w02 h02 s02 2700 pre_now).
  replace (spec_sum g02 w02 2700 Rt h02) with 80 by (vm_compute; reflexivity).
  replace (spec_sum g02 w02 2700 Complete h02) with 2 by (vm_compute; reflexivity). reflexivity.
Qed.

(** ** C02_min_rt_exact : Rt 30 and 50 in the window (Rt 40 at t=1100 is outside) *)
Example C02_min_rt_exact_premises_hold : exists g wsc wiv w h slots now, C02_pre g wsc wiv w h slots now.
Proof. exists g02, 2, 500, w02, h02, s02, 2700. exact pre_now. Qed.

Example C02_min_rt_exact_instance : win_min_rt g02 w02 s02 2700 = ROk 30.
Proof. rewrite (C02_min_rt_exact g02 2 500 w02 h02 s02 2700 pre_now). vm_compute. reflexivity. Qed.

(** ** C02_max_concurrency_exact : 3 and 5 in the window (7 at t=1600 is outside and recycled) *)
Example C02_max_concurrency_exact_premises_hold : exists g wsc wiv w h slots now, C02_pre g wsc wiv w h slots now.
Proof. exists g02, 2, 500, w02, h02, s02, 2700. exact pre_now. Qed.

Example C02_max_concurrency_exact_instance : win_max_conc g02 w02 s02 2700 = ROk 5.
Proof. rewrite (C02_max_concurrency_exact g02 2 500 w02 h02 s02 2700 pre_now). vm_compute. reflexivity. Qed.

(** ** C02_slots_reflect_history *)
Example C02_slots_reflect_history_premises_hold :
  exists g h slots, 0 < bl g /\ 0 < sc g /\ wf_hist g h /\ run_writes g (ring0 g) h = Some slots.
Proof.
  exists g02, h02, s02. split; [reflexivity|]. split; [reflexivity|]. split; [exact wf_h02|exact s02_reached].
Qed.

Example C02_slots_reflect_history_instance :
  length s02 = N.to_nat (sc g02) /\
  forall i s v, nth_error s02 i = Some (s, v) ->
    (s = 0 /\ v = bucket0 /\ forall e, In e h02 -> N.to_nat (idx g02 (fst e)) <> i) \/
    (s <> 0 /\ N.to_nat (idx g02 s) = i /\ v = agg g02 (rev h02) s /\
     (exists e, In e h02 /\ start g02 (fst e) = s) /\
     forall e, In e h02 -> N.to_nat (idx g02 (fst e)) = i -> start g02 (fst e) <= s).
Proof. apply (C02_slots_reflect_history g02 h02 s02); [reflexivity|reflexivity|exact wf_h02|exact s02_reached]. Qed.

(** both disjuncts of the conclusion occur in the witness: slot 3 was never written (left), slot 1
    holds the recycled bucket 2250 (right) *)
Example C02_slots_reflect_history_both_cases :
  nth_error s02 3 = Some (0, bucket0) /\ nth_error s02 1 = Some (2250, mkB 4 0 1 0 30 30 3).
Proof. split; reflexivity. Qed.

(** ** C02_sum_exact_past : read at 2450 of buckets {2000, 2250}: Pass 5 + 4; the Pass 1 at t=2600 is not reported *)
Example C02_sum_exact_past_premises_hold : exists g wsc wiv w h slots now, C02_pre_past g wsc wiv w h slots now.
Proof. exists g02, 2, 500, w02, h02, s02, 2450. exact pre_past. Qed.

Example C02_sum_exact_past_instance :
  sum_with_time g02 w02 s02 2450 Pass = ROk 9 /\ sum_with_time g02 w02 s02 2450 Block = ROk 0 /\
  sum_with_time g02 w02 s02 2450 Complete = ROk 1 /\ sum_with_time g02 w02 s02 2450 Rt = ROk 30.
Proof.
  repeat split; rewrite (C02_sum_exact_past g02 2 500 w02 h02 s02 2450 _ pre_past); vm_compute; reflexivity.
Qed.

(** ** C02_min_rt_exact_past *)
Example C02_min_rt_exact_past_premises_hold : exists g wsc wiv w h slots now, C02_pre_past g wsc wiv w h slots now.
Proof. exists g02, 2, 500, w02, h02, s02, 2450. exact pre_past. Qed.

Example C02_min_rt_exact_past_instance : win_min_rt g02 w02 s02 2450 = ROk 30.
Proof. rewrite (C02_min_rt_exact_past g02 2 500 w02 h02 s02 2450 pre_past). vm_compute. reflexivity. Qed.

(** ** C02_max_concurrency_exact_past : 3, not the later 5 *)
Example C02_max_concurrency_exact_past_premises_hold : exists g wsc wiv w h slots now, C02_pre_past g wsc wiv w h slots now.
Proof. exists g02, 2, 500, w02, h02, s02, 2450. exact pre_past. Qed.

Example C02_max_concurrency_exact_past_instance : win_max_conc g02 w02 s02 2450 = ROk 3.
Proof. rewrite (C02_max_concurrency_exact_past g02 2 500 w02 h02 s02 2450 pre_past). vm_compute. reflexivity. Qed.

(** ** C02_rate_exact_past : 9 passes / 0.5 s = 18.0 *)
Example C02_rate_exact_past_premises_hold : exists g wsc wiv w h slots now, C02_pre_past g wsc wiv w h slots now.
Proof. exists g02, 2, 500, w02, h02, s02, 2450. exact pre_past. Qed.

Example C02_rate_exact_past_instance :
  qps_with_time g02 w02 s02 2450 Pass = ROk (qps_of_sum w02 9) /\ fbits (qps_of_sum w02 9) = fbits (f64_of_Z 18).
Proof.
  split; [|vm_compute; reflexivity].
  rewrite (C02_rate_exact_past g02 2 500 w02 h02 s02 2450 Pass pre_past).
  replace (spec_sum g02 w02 2450 Pass h02) with 9 by (vm_compute; reflexivity). reflexivity.
Qed.

(** ** C02_count_exact : whole-array count at 2700: buckets 2000, 2250, 2500 are valid (5+4+1); at 3100
    bucket 2000 has expired (3100 - 2000 > 1000) *)
Example C02_count_exact_premises_hold :
  exists g h slots now, 0 < bl g /\ 0 < sc g /\ wf_hist g h /\ run_writes g (ring0 g) h = Some slots /\
                        (forall e, In e h -> fst e <= now).
Proof.
  exists g02, h02, s02, 3100. split; [reflexivity|]. split; [reflexivity|]. split; [exact wf_h02|].
  split; [exact s02_reached|]. intros e Hin. in_h02 Hin.
Qed.

Example C02_count_exact_instance :
  count_with_time g02 s02 2700 Pass = 10 /\ count_with_time g02 s02 3100 Pass = 5.
Proof.
  split.
  - rewrite (C02_count_exact g02 h02 s02 2700 Pass); [vm_compute; reflexivity|reflexivity|reflexivity|exact wf_h02|exact s02_reached|].
    intros e Hin. in_h02 Hin.
  - rewrite (C02_count_exact g02 h02 s02 3100 Pass); [vm_compute; reflexivity|reflexivity|reflexivity|exact wf_h02|exact s02_reached|].
    intros e Hin. in_h02 Hin.
Qed.
