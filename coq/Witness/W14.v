(** W14 — non-vacuity witnesses for Props/C14.v.

    Unconditional (no premise; nothing to witness):
      C14_accounting_every_schedule   (forall base mode progs steps, ok_c14 ... = true)
      C14_check_then_insert_refuted   (exists ...)
      C14_rollover_race_loses         (exists ...)
    With premises (the run equation [run_case ... = (st, ths, tr)], a definition of st/ths/tr, satisfiable for
    every input because [run_case] is a total function):
      C14_one_node, C14_all_threads_finish. *)
From SV Require Import Model.Base Model.LeapArray Model.World Model.Conc Spec.C14Spec Proofs.C14Proofs Props.C14.
Open Scope N_scope.

(** three threads (one of them with two nested entries), a brand-new resource (mode 1), a schedule that
    interleaves the threads segment by segment and moves the clock across a bucket boundary *)
Definition w14_base : N := 600000.
Definition w14_progs : list (list top) :=
  [[TB 1 true; TX]; [TB 2 false; TX]; [TB 1 true; TB 3 true; TX; TX]].
Definition w14_steps : list (nat * N) :=
  [(0%nat, 0); (1%nat, 0); (2%nat, 3); (0%nat, 0); (1%nat, 120); (2%nat, 0); (2%nat, 0); (0%nat, 450);
   (1%nat, 0); (0%nat, 7); (2%nat, 0); (1%nat, 0); (2%nat, 30); (0%nat, 0); (2%nat, 0); (1%nat, 600)].

(** the same with the resource used 60 s earlier (mode 0) and a pre-loaded bucket (mode 2) *)
Definition w14_run (racy : bool) (mode : N) := run_case racy w14_base mode w14_progs w14_steps.

(** ---- C14_one_node ---- *)
Example C14_one_node_premises_hold : exists base mode progs steps st ths tr,
  run_case false base mode progs steps = (st, ths, tr).
Proof.
  exists w14_base, 1, w14_progs, w14_steps,
    (fst (fst (w14_run false 1))), (snd (fst (w14_run false 1))), (snd (w14_run false 1)).
  unfold w14_run. destruct (run_case false w14_base 1 w14_progs w14_steps) as [[st ths] tr]. reflexivity.
Qed.

Example C14_one_node_instance :
  let st := fst (fst (w14_run false 1)) in
  (length (c_nodes st) <= 1)%nat /\ Forall (fun x => snd (fst (fst x)) = 0%nat) (c_seen st).
Proof.
  intro st.
  apply (C14_one_node w14_base 1 w14_progs w14_steps st (snd (fst (w14_run false 1))) (snd (w14_run false 1))).
  unfold st, w14_run. destruct (run_case false w14_base 1 w14_progs w14_steps) as [[st' ths] tr]. reflexivity.
Qed.

(** the witness is not degenerate: the run really created a node and recorded all four entries, and the schedule
    prefix really interleaved the threads (the point trace is non-empty) *)
Example C14_one_node_witness_nontrivial :
  let '(st, ths, tr) := w14_run false 1 in
  length (c_nodes st) = 1%nat /\ length (c_seen st) = 4%nat /\ length ths = 3%nat /\ (10 <= length tr)%nat.
Proof. vm_compute. repeat split; repeat constructor. Qed.

(** second instance: resource used 60 s earlier *)
Example C14_one_node_instance_mode0 :
  let st := fst (fst (w14_run false 0)) in
  (length (c_nodes st) <= 1)%nat /\ Forall (fun x => snd (fst (fst x)) = 0%nat) (c_seen st).
Proof.
  intro st.
  apply (C14_one_node w14_base 0 w14_progs w14_steps st (snd (fst (w14_run false 0))) (snd (w14_run false 0))).
  unfold st, w14_run. destruct (run_case false w14_base 0 w14_progs w14_steps) as [[st' ths] tr]. reflexivity.
Qed.

(** ---- C14_all_threads_finish ---- *)
Example C14_all_threads_finish_premises_hold : exists racy base mode progs steps st ths tr,
  run_case racy base mode progs steps = (st, ths, tr).
Proof.
  exists true, w14_base, 2, w14_progs, w14_steps,
    (fst (fst (w14_run true 2))), (snd (fst (w14_run true 2))), (snd (w14_run true 2)).
  unfold w14_run. destruct (run_case true w14_base 2 w14_progs w14_steps) as [[st ths] tr]. reflexivity.
Qed.

Example C14_all_threads_finish_instance : all_done (snd (fst (w14_run true 2))) = true.
Proof.
  apply (C14_all_threads_finish true w14_base 2 w14_progs w14_steps
           (fst (fst (w14_run true 2))) (snd (fst (w14_run true 2))) (snd (w14_run true 2))).
  unfold w14_run. destruct (run_case true w14_base 2 w14_progs w14_steps) as [[st ths] tr]. reflexivity.
Qed.

Example C14_all_threads_finish_instance_atomic : all_done (snd (fst (w14_run false 1))) = true.
Proof.
  apply (C14_all_threads_finish false w14_base 1 w14_progs w14_steps
           (fst (fst (w14_run false 1))) (snd (fst (w14_run false 1))) (snd (w14_run false 1))).
  unfold w14_run. destruct (run_case false w14_base 1 w14_progs w14_steps) as [[st ths] tr]. reflexivity.
Qed.

(** the schedule given does NOT by itself finish the threads (so [all_done] is the work of the round-robin
    completion the theorem covers, not of a trivially complete schedule): after the explicit steps alone at
    least one thread is unfinished *)
Example C14_all_threads_finish_witness_nontrivial :
  let st0 := init_state false w14_base 1 in
  let ths := map (fun p => thr0 (compile p []) w14_base) w14_progs in
  all_done (snd (fst (run_sched false st0 ths w14_steps))) = false /\ length ths = 3%nat.
Proof. vm_compute. split; reflexivity. Qed.

(** for the unconditional main theorem, a concrete evaluation showing the predicate is evaluated on a run with
    non-zero totals (not trivially true on an empty observation) *)
Example C14_accounting_witness_nontrivial :
  let o := fst (model_obs false w14_base 1 w14_progs w14_steps) in
  ok_c14 w14_base 1 w14_progs w14_steps o = true /\
  length (o_builds o) = 4%nat /\ length (o_exits o) = 4%nat /\ 0 < o_pass o.
Proof. vm_compute. repeat split. Qed.
