(** W16 — non-vacuity witnesses for Props/C16.v.

    Unconditional: C16_unchecked_deadline_refuted (exists ...).
    With premises (the run equation [crun_case ... = (st, ths, tr)]; [crun_case] is total, so the premise is a
    definition of st/ths/tr and is satisfiable for every rule, prelude, program list and schedule):
      C16_atomic_transitions_every_schedule, C16_listeners_in_step, C16_all_threads_finish. *)
From SV Require Import Model.Base Model.F64 Model.LeapArray Model.Breaker Model.ConcCb Spec.C16Spec
  Proofs.C16Proofs Props.C16.
Open Scope N_scope.

(** error-count breaker (threshold 1.0, min 1 request, 10 s window in 2 buckets, retry 1 s); the prelude opens it
    and waits out the retry timeout; four threads: a probe that fails, an ordinary entry, an entry that a later
    slot rejects, and a late entry that probes again and succeeds *)
Definition w16_base : N := 1700000000000.
Definition w16_r : brule := mkBR 1 ErrCount 1000 1 10000 2 0 (f64_of_bits 4607182418800017408).
Definition w16_pre : list pre_op := [PB; PX true; PA 1000].
Definition w16_progs : list (list ctop) :=
  [[KB false; KX true]; [KB false; KX false]; [KB true]; [KB false; KX false]].
Definition w16_steps : list (nat * N) :=
  [(0%nat,0);(1%nat,0);(2%nat,0);(0%nat,0);(1%nat,3);(2%nat,0);(0%nat,0);(0%nat,0);(1%nat,0);(0%nat,0);
   (0%nat,0);(0%nat,0);(0%nat,0);(0%nat,0);(3%nat,1200);(3%nat,0);(3%nat,0);(1%nat,0);(3%nat,0);(3%nat,0);
   (3%nat,0);(3%nat,0)].
Definition w16_run (recheck : bool) := crun_case recheck w16_base w16_r w16_pre w16_progs w16_steps.

(** what happens on this run: the whole cycle Closed -> Open -> Half-Open -> Open -> Half-Open -> Closed, a
    rejected ordinary entry, a failed and a successful probe *)
Example W16_run_log :
  s_log (fst (fst (w16_run true))) =
  [EBuild 0 true; ETrans 0 Closed Open 1700000000000 1700000001000; EExit 0 true 0;
   ETrans 1 Open HalfOpen 1700000001003 1700000001000; EBuild 1 true; EBuild 2 false;
   ETrans 1 HalfOpen Open 1700000001003 1700000002003; EExit 1 true 3;
   ETrans 4 Open HalfOpen 1700000002203 1700000002003; EBuild 4 true;
   ETrans 4 HalfOpen Closed 1700000002203 1700000002003; EExit 4 false 0; EBuild 3 false].
Proof. vm_compute. reflexivity. Qed.

Ltac run_eq := unfold w16_run;
  match goal with |- ?r = _ => destruct r as [[? ?] ?]; reflexivity end.

(** ---- C16_atomic_transitions_every_schedule ---- *)
Example C16_atomic_transitions_every_schedule_premises_hold : exists base r pre progs steps st ths tr,
  crun_case true base r pre progs steps = (st, ths, tr).
Proof.
  exists w16_base, w16_r, w16_pre, w16_progs, w16_steps,
    (fst (fst (w16_run true))), (snd (fst (w16_run true))), (snd (w16_run true)).
  run_eq.
Qed.

Example C16_atomic_transitions_every_schedule_instance :
  ok_c16 w16_r (s_log (fst (fst (w16_run true)))) = true.
Proof.
  apply (C16_atomic_transitions_every_schedule w16_base w16_r w16_pre w16_progs w16_steps
           (fst (fst (w16_run true))) (snd (fst (w16_run true))) (snd (w16_run true))).
  run_eq.
Qed.

(** the predicate is not trivially true on such logs: the same programs and schedule shape WITHOUT the re-check can
    violate it (that is C16_unchecked_deadline_refuted), and a tampered copy of the log above (second probe one
    millisecond before the deadline in force) is rejected *)
Example W16_predicate_discriminates :
  ok_c16 w16_r
    [EBuild 0 true; ETrans 0 Closed Open 1700000000000 1700000001000; EExit 0 true 0;
     ETrans 1 Open HalfOpen 1700000001003 1700000001000; EBuild 1 true;
     ETrans 1 HalfOpen Open 1700000001003 1700000002003; EExit 1 true 3;
     ETrans 4 Open HalfOpen 1700000002002 1700000002003; EBuild 4 true] = false.
Proof. vm_compute. reflexivity. Qed.

(** ---- C16_listeners_in_step ---- *)
Example C16_listeners_in_step_premises_hold : exists base r pre progs steps st ths tr,
  crun_case true base r pre progs steps = (st, ths, tr).
Proof.
  exists w16_base, w16_r, w16_pre, w16_progs, w16_steps,
    (fst (fst (w16_run true))), (snd (fst (w16_run true))), (snd (w16_run true)).
  run_eq.
Qed.

Example C16_listeners_in_step_instance :
  log_state Closed (s_log (fst (fst (w16_run true)))) = s_state (fst (fst (w16_run true))).
Proof.
  apply (C16_listeners_in_step w16_base w16_r w16_pre w16_progs w16_steps
           (fst (fst (w16_run true))) (snd (fst (w16_run true))) (snd (w16_run true))).
  run_eq.
Qed.

(** a second witness that ends in a state other than the initial one (so the equation is not Closed = Closed):
    the same run cut before the last thread's successful probe *)
Definition w16_progs_b : list (list ctop) := [[KB false; KX true]; [KB false; KX false]; [KB true]].
Definition w16_steps_b : list (nat * N) :=
  [(0%nat,0);(1%nat,0);(2%nat,0);(0%nat,0);(1%nat,3);(2%nat,0);(0%nat,0);(0%nat,0);(1%nat,0);(0%nat,0)].
Definition w16_run_b := crun_case true w16_base w16_r w16_pre w16_progs_b w16_steps_b.
Example C16_listeners_in_step_instance_open :
  log_state Closed (s_log (fst (fst w16_run_b))) = s_state (fst (fst w16_run_b)) /\
  s_state (fst (fst w16_run_b)) = Open.
Proof.
  split.
  - apply (C16_listeners_in_step w16_base w16_r w16_pre w16_progs_b w16_steps_b
             (fst (fst w16_run_b)) (snd (fst w16_run_b)) (snd w16_run_b)).
    unfold w16_run_b. destruct (crun_case true w16_base w16_r w16_pre w16_progs_b w16_steps_b) as [[? ?] ?]. reflexivity.
  - vm_compute. reflexivity.
Qed.

(** ---- C16_all_threads_finish ---- *)
Example C16_all_threads_finish_premises_hold : exists recheck base r pre progs steps st ths tr,
  crun_case recheck base r pre progs steps = (st, ths, tr).
Proof.
  exists false, w16_base, w16_r, w16_pre, w16_progs, w16_steps,
    (fst (fst (w16_run false))), (snd (fst (w16_run false))), (snd (w16_run false)).
  run_eq.
Qed.

Example C16_all_threads_finish_instance : call_done (snd (fst (w16_run false))) = true.
Proof.
  apply (C16_all_threads_finish false w16_base w16_r w16_pre w16_progs w16_steps
           (fst (fst (w16_run false))) (snd (fst (w16_run false))) (snd (w16_run false))).
  run_eq.
Qed.

Example C16_all_threads_finish_instance_recheck : call_done (snd (fst (w16_run true))) = true.
Proof.
  apply (C16_all_threads_finish true w16_base w16_r w16_pre w16_progs w16_steps
           (fst (fst (w16_run true))) (snd (fst (w16_run true))) (snd (w16_run true))).
  run_eq.
Qed.

(** the explicit schedule alone leaves threads unfinished: finishing is the work of the completion phase *)
Example C16_all_threads_finish_witness_nontrivial :
  let st0 := prelude true (cbs0 w16_base w16_r) (cthr0 []) w16_pre in
  let ths := map (fun p => cthr0 (ccompile p)) w16_progs in
  call_done (snd (fst (crun_sched true st0 ths w16_steps))) = false /\ length ths = 4%nat.
Proof. vm_compute. split; reflexivity. Qed.
