(** Non-vacuity witnesses for Props/C07.v (throttling).

    Unconditional theorems (no premise): C07_spacing, C07_reject_iff (an equivalence, no hypothesis).
    [C07_flow_example] is a closed computation.

    Theorems with premises, each with a [_premises_hold] and an [_instance] example below:
      C07_queue_bound, C07_reject_keeps_state, C07_flow_refines_pacer,
      C07_flow_refines_pacers_multi, C07_hotspot_refines_pacer. *)
From SV Require Import Model.Base Model.F64 Model.Throttle Model.Hotspot Spec.C07Spec Spec.C07SpecExec
  Proofs.C07Proofs.
From SV Require Import Spec.C05hSpec Spec.MultiSpec Proofs.C05hProofs Proofs.MultiProofs.
From SV Require Import Props.C07.
From Coq Require Import Lia.
Open Scope Z_scope.

(** * C07_queue_bound *)

(** flow rule (non-strict limit): last admission scheduled at 1000, arrival at 700, cost 500, queue
    limit 900: the request is QUEUED (t = 700 < sch = 1500, wait 800 <= 900) *)
Example C07_queue_bound_premises_hold : exists strict s t cost maxq s' sch,
  pace strict s t cost maxq = (s', Some sch).
Proof. exists false, 1000, 700, 500, 900, 1500, 1500. vm_compute. reflexivity. Qed.

Example C07_queue_bound_instance :
  1500 = 1500 /\ 1000 + 500 <= 1500 /\
  (1500 = 700 \/ (700 < 1500 /\ 1500 = 1000 + 500 /\ 1500 - 700 <= 900)).
Proof. apply (C07_queue_bound false 1000 700 500 900 1500 1500). vm_compute. reflexivity. Qed.

(** hotspot rule (strict limit): same request with limit 801 is queued (wait 800 < 801) ... *)
Example C07_queue_bound_premises_hold_strict : exists strict s t cost maxq s' sch,
  pace strict s t cost maxq = (s', Some sch).
Proof. exists true, 1000, 700, 500, 801, 1500, 1500. vm_compute. reflexivity. Qed.

Example C07_queue_bound_instance_strict :
  1500 = 1500 /\ 1000 + 500 <= 1500 /\
  (1500 = 700 \/ (700 < 1500 /\ 1500 = 1000 + 500 /\ 1500 - 700 < 801)).
Proof. apply (C07_queue_bound true 1000 700 500 801 1500 1500). vm_compute. reflexivity. Qed.

(** ... and a request arriving after the schedule is free (t = 2000 >= s + cost) is admitted at once *)
Example C07_queue_bound_instance_immediate :
  2000 = 2000 /\ 1000 + 500 <= 2000 /\
  (2000 = 2000 \/ (2000 < 2000 /\ 2000 = 1000 + 500 /\ 2000 - 2000 <= 900)).
Proof. apply (C07_queue_bound false 1000 2000 500 900 2000 2000). vm_compute. reflexivity. Qed.

(** * C07_reject_keeps_state *)

(** flow: a wait of 800 exceeds the limit 799 *)
Example C07_reject_keeps_state_premises_hold : exists strict s t cost maxq s',
  pace strict s t cost maxq = (s', None).
Proof. exists false, 1000, 700, 500, 799, 1000. vm_compute. reflexivity. Qed.

Example C07_reject_keeps_state_instance : forall s',
  pace false 1000 700 500 799 = (s', None) -> s' = 1000.
Proof. intros s' H. exact (C07_reject_keeps_state false 1000 700 500 799 s' H). Qed.

(** hotspot (strict): a wait equal to the limit 800 is already rejected *)
Example C07_reject_keeps_state_premises_hold_strict : exists strict s t cost maxq s',
  pace strict s t cost maxq = (s', None).
Proof. exists true, 1000, 700, 500, 800, 1000. vm_compute. reflexivity. Qed.

Example C07_reject_keeps_state_instance_strict : fst (pace true 1000 700 500 800) = 1000.
Proof.
  apply (C07_reject_keeps_state true 1000 700 500 800 (fst (pace true 1000 700 500 800))).
  vm_compute. reflexivity.
Qed.

(** * C07_flow_refines_pacer *)

(** 2 per second, queue up to 600 ms, statistic interval 1000 ms; last admission at 4.8 s, clock 5 s *)
Definition w07_r1 : trule := mkTR 1 (f64_of_Z 2) 600 1000.

(** queued admission (300 ms), rejection by the queue limit (batch 2 would wait 1000 ms), queued
    admission (500 ms), clock advance, another queued admission, an empty batch (always admitted),
    a batch above the threshold (rejected unnamed), a long pause, an immediate admission of a
    batch of 2, and two more queued ones *)
Definition w07_ops1 : list tcmd :=
  [TB 1; TB 2; TB 1; TA 400000000; TB 1; TB 0; TB 3; TA 2000000000; TB 2; TB 1; TB 1].

Example w07_trace1 :
  trun (mkTW 5000000000 [(w07_r1, 4800000000)]) w07_ops1 =
  [TOAdmit 5300000000; TOBlock 1 5300000000; TOAdmit 5800000000; TOTick; TOAdmit 6300000000;
   TOAdmit 6300000000; TOBlock 0 6300000000; TOTick; TOAdmit 8300000000; TOAdmit 8800000000;
   TOAdmit 9300000000].
Proof. vm_compute. reflexivity. Qed.

Example C07_flow_refines_pacer_premises_hold : exists r ops s now,
  has_panic (trun (mkTW now [(r, s)]) ops) = false.
Proof. exists w07_r1, w07_ops1, 4800000000, 5000000000. vm_compute. reflexivity. Qed.

Example C07_flow_refines_pacer_instance :
  ok_c07_flow w07_r1 4800000000 5000000000 w07_ops1
    (trun (mkTW 5000000000 [(w07_r1, 4800000000)]) w07_ops1) = true.
Proof. apply (C07_flow_refines_pacer w07_r1 w07_ops1 4800000000 5000000000). vm_compute. reflexivity. Qed.

(** the premise is a real restriction (announced in the theorem's comment): with a statistic interval
    of 10^13 ms the cost saturates at i64::MAX and [last + cost] overflows: the model panics *)
Example w07_panic_exists :
  has_panic (trun (mkTW 5000000000 [(mkTR 3 (f64_of_Z 1) 600 10000000000000, 5)]) [TB 0; TB 1; TB 1]) = true.
Proof. vm_compute. reflexivity. Qed.

(** * C07_flow_refines_pacers_multi *)

(** second rule: 5 per 4000 ms (800 ms per unit), queue up to 300 ms *)
Definition w07_r2 : trule := mkTR 2 (f64_of_Z 5) 300 4000.

Definition w07_ops2 : list tcmd :=
  [TB 1; TB 1; TB 1; TB 0; TB 3; TA 2000000000; TB 2; TB 2; TA 100000000; TB 1].

(** second build: queued by both rules in turn (500 ms then 300 ms); third: queued 200 ms by rule 1, then
    rejected by rule 2 (the clock has advanced); batch 3: rejected unnamed by rule 1; later a
    rejection by rule 1, and a last build queued by both *)
Example w07_trace2 :
  trun (mkTW 5000000000 [(w07_r1, 0); (w07_r2, 0)]) w07_ops2 =
  [TOAdmit 5000000000; TOAdmit 5800000000; TOBlock 2 6000000000; TOAdmit 6000000000;
   TOBlock 0 6000000000; TOTick; TOAdmit 8000000000; TOBlock 1 8000000000; TOTick;
   TOAdmit 8800000000].
Proof. vm_compute. reflexivity. Qed.

Example C07_flow_refines_pacers_multi_premises_hold : exists cs ops now,
  has_panic (trun (mkTW now cs) ops) = false.
Proof. exists [(w07_r1, 0); (w07_r2, 0)], w07_ops2, 5000000000. vm_compute. reflexivity. Qed.

Example C07_flow_refines_pacers_multi_instance :
  ok_c07_flow_multi [(w07_r1, 0); (w07_r2, 0)] 5000000000 w07_ops2
    (trun (mkTW 5000000000 [(w07_r1, 0); (w07_r2, 0)]) w07_ops2) = true.
Proof.
  apply (C07_flow_refines_pacers_multi [(w07_r1, 0); (w07_r2, 0)] w07_ops2 5000000000).
  vm_compute. reflexivity.
Qed.

(** * C07_hotspot_refines_pacer *)

Open Scope N_scope.

(** rule 7: throttle, 2 per 1 s (cost 500 ms per unit), queue strictly below 600 ms, first positional
    argument; value 9 is allowed 10 per second (cost 100 ms), value 4 nothing *)
Definition w07_hr : hrule := mkHR 7 HThrottle 2 0 1 600 0 0 [(9, 10); (4, 0)].

(** a controller that has already admitted value 5 at 9800 ms, and an entry still open *)
Definition w07_hc : hctl := mkHC w07_hr (fset fempty 5 9800) fempty fempty.
Definition w07_open : list (N * hentry) := [(42, mkHE (Some [5]) None)].

Definition w07_hops : list hcmd :=
  [HB 1 (Some [5]) None 1; HB 2 (Some [5]) None 1; HB 3 (Some [5]) None 2;
   HB 4 (Some [9]) None 1; HB 5 (Some [9]) None 1; HB 6 (Some [9]) None 3;
   HB 7 (Some [4]) None 1; HB 8 None None 1; HX 2; HX 99; HA 700;
   HB 9 (Some [5; 6]) None 1; HB 10 (Some [6]) None 2; HB 11 (Some [6]) None 1;
   HB 12 (Some [6]) None 1; HB 13 (Some [6]) None 2].

(** value 5: queued 300 ms, queued 500 ms, batch 2 rejected (wait 1000 ms); value 9 (override): first
    sight admitted at once, then queued 100 ms and 300 ms; value 4 (override 0): rejected; no
    argument: admitted unchecked; an exit, an unknown exit; value 6: first sight, two queued, one rejected *)
Example w07_htrace :
  hrun (mkHW 10000 [w07_hc] w07_open) w07_hops =
  [HOAdmit 10300; HOAdmit 10800; HOBlock 7 2 10800; HOAdmit 10800; HOAdmit 10900; HOAdmit 11200;
   HOBlock 7 0 11200; HOAdmit 11200; HOExited; HONoEntry; HOTick; HOAdmit 11900; HOAdmit 11900;
   HOAdmit 12400; HOAdmit 12900; HOBlock 7 2 12900].
Proof. vm_compute. reflexivity. Qed.

Example C07_hotspot_refines_pacer_premises_hold : exists r (ops : list hcmd) c (now : N) (open : list (N * hentry)),
  hc_rule c = r /\ h_kind r = HThrottle.
Proof. exists w07_hr, w07_hops, w07_hc, 10000, w07_open. split; reflexivity. Qed.

Example C07_hotspot_refines_pacer_instance :
  ok_c07_hot w07_hr (hc_time w07_hc) 10000 w07_hops (hrun (mkHW 10000 [w07_hc] w07_open) w07_hops) = true.
Proof. apply (C07_hotspot_refines_pacer w07_hr w07_hops w07_hc 10000 w07_open); reflexivity. Qed.

(** the same with a fresh controller [hctl0] and no open entry *)
Example C07_hotspot_refines_pacer_instance_fresh :
  ok_c07_hot w07_hr (hc_time (hctl0 w07_hr)) 10000 w07_hops (hrun (mkHW 10000 [hctl0 w07_hr] []) w07_hops) = true.
Proof. apply (C07_hotspot_refines_pacer w07_hr w07_hops (hctl0 w07_hr) 10000 []); reflexivity. Qed.

(** the conclusion is not satisfied by an arbitrary trace: shifting one admission by a millisecond
    violates the predicate (the instance above says something) *)
Example w07_hot_discriminates :
  ok_c07_hot w07_hr (hc_time w07_hc) 10000 w07_hops
    (HOAdmit 10301 :: tl (hrun (mkHW 10000 [w07_hc] w07_open) w07_hops)) = false.
Proof. vm_compute. reflexivity. Qed.
