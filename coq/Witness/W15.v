(** W15 — non-vacuity witnesses for Props/C15.v.

    Unconditional: C15_known_contexts_ordered (closed boolean equation),
                   C15_inverted_order_deadlocks (exists ...).
    With premises: C15_lock_order_no_deadlock  (Forall ranked progs; lreach (start_of progs) s),
                   C15_managers_no_deadlock    (Forall (balanced /\ contexts known) progs; lreach ...). *)
From SV Require Import Model.Base Model.Locks Spec.C15Spec Proofs.LocksProofs Props.C15.

(** three threads: a flow-rule load (rule map, controller map, generator map, node map nested), an entry (controller
    map read, then node map) and a breaker-rule load (current rules, breaker map, then breaker rules and generator
    map under them) *)
Definition w15_progs : list (list lop) :=
  [ [Acq 2; Acq 1; Acq 0; Acq 15; Rel 15; Rel 0; Rel 1; Rel 2];
    [Acq 1; Rel 1; Acq 15; Rel 15];
    [Acq 9; Acq 8; Acq 10; Rel 10; Acq 6; Rel 6; Rel 8; Rel 9] ]%nat.

(** run a list of thread choices *)
Fixpoint w15_run (s : list lthr) (is : list nat) : option (list lthr) :=
  match is with
  | [] => Some s
  | i :: tl => match lstep s i with Some s' => w15_run s' tl | None => None end
  end.
Lemma w15_run_reach : forall is s s', w15_run s is = Some s' -> lreach s s'.
Proof.
  induction is as [|i tl IH]; simpl; intros s s' H.
  - inversion H; subst. apply lreach_refl.
  - destruct (lstep s i) as [s1|] eqn:E; [|discriminate].
    eapply lreach_step; [exact E|]. apply IH. exact H.
Qed.

(** the state after: thread 0 takes the rule map, thread 1 the controller map, thread 2 the current rules and the
    breaker map, thread 2 the breaker rules.  In it thread 0 is BLOCKED (it wants the controller map thread 1
    holds) — contention, but no deadlock *)
Definition w15_choices : list nat := [0; 1; 2; 2; 2]%nat.
Definition w15_s : list lthr :=
  [ mkLT [2] [Acq 1; Acq 0; Acq 15; Rel 15; Rel 0; Rel 1; Rel 2];
    mkLT [1] [Rel 1; Acq 15; Rel 15];
    mkLT [10; 8; 9] [Rel 10; Acq 6; Rel 6; Rel 8; Rel 9] ]%nat.
Lemma w15_s_reached : lreach (start_of w15_progs) w15_s.
Proof. apply (w15_run_reach w15_choices). vm_compute. reflexivity. Qed.

Example W15_state_nontrivial :
  lstep w15_s 0 = None /\ lstep w15_s 1 <> None /\ Forall (fun t => l_code t <> []) w15_s.
Proof. split; [vm_compute; reflexivity|]. split; [vm_compute; discriminate|]. repeat constructor; discriminate. Qed.

(** ---- C15_lock_order_no_deadlock ---- *)
Example C15_lock_order_no_deadlock_premises_hold : exists rank progs s,
  Forall (fun p => ranked rank [] p = true) progs /\ lreach (start_of progs) s.
Proof.
  exists lock_rank, w15_progs, w15_s. split.
  - repeat constructor.
  - exact w15_s_reached.
Qed.

Example C15_lock_order_no_deadlock_instance : ~ deadlocked w15_s.
Proof.
  apply (C15_lock_order_no_deadlock lock_rank w15_progs w15_s).
  - repeat constructor.
  - exact w15_s_reached.
Qed.

(** a different order: any injective rank works, here the identity on three locks taken in increasing order by
    four threads, two of them running the same program *)
Definition w15_progs_b : list (list lop) :=
  [ [Acq 1; Acq 2; Acq 3; Rel 3; Rel 2; Rel 1]; [Acq 2; Acq 3; Rel 2; Rel 3];
    [Acq 1; Acq 3; Rel 1; Rel 3]; [Acq 1; Acq 2; Acq 3; Rel 3; Rel 2; Rel 1] ]%nat.
Definition w15_s_b : list lthr :=
  [ mkLT [1] [Acq 2; Acq 3; Rel 3; Rel 2; Rel 1]; mkLT [3; 2] [Rel 2; Rel 3];
    mkLT [] [Acq 1; Acq 3; Rel 1; Rel 3]; mkLT [] [Acq 1; Acq 2; Acq 3; Rel 3; Rel 2; Rel 1] ]%nat.
Example C15_lock_order_no_deadlock_instance_b : ~ deadlocked w15_s_b.
Proof.
  apply (C15_lock_order_no_deadlock (fun l => l) w15_progs_b w15_s_b).
  - repeat constructor.
  - apply (w15_run_reach [0; 1; 1]%nat). vm_compute. reflexivity.
Qed.
(** in that state three of the four threads are blocked *)
Example W15_state_b_nontrivial : lstep w15_s_b 0 = None /\ lstep w15_s_b 2 = None /\ lstep w15_s_b 3 = None.
Proof. vm_compute. repeat split. Qed.

(** ---- C15_managers_no_deadlock ---- *)
Example C15_managers_no_deadlock_premises_hold : exists progs s,
  Forall (fun p => balanced [] p = true /\ forallb (ctx_in known_contexts) (contexts [] p) = true) progs /\
  lreach (start_of progs) s.
Proof.
  exists w15_progs, w15_s. split.
  - repeat constructor.
  - exact w15_s_reached.
Qed.

Example C15_managers_no_deadlock_instance : ~ deadlocked w15_s.
Proof.
  apply (C15_managers_no_deadlock w15_progs w15_s).
  - repeat constructor.
  - exact w15_s_reached.
Qed.

(** the premise is a real restriction: the inverted pair of C15_inverted_order_deadlocks does not meet it (its second
    thread takes lock 8 while holding lock 10, which is not a known context and violates the order) *)
Example W15_premise_excludes_inverted :
  forallb (ctx_in known_contexts) (contexts [] [Acq 10; Acq 8; Rel 8; Rel 10]%nat) = false /\
  ranked lock_rank [] [Acq 10; Acq 8; Rel 8; Rel 10]%nat = false.
Proof. vm_compute. split; reflexivity. Qed.
