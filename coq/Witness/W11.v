(** Non-vacuity witnesses for Props/C11.v.

    Unconditional theorems (no premise; nothing to witness):
      - C11_equal_reload_keeps_objects   (forall iso ops, ok_c11 ... = true)
      - C11_changed_rule_immediate       (forall iso nres pool ops, mrun ... = ref_run ...)

    Theorem with premises:
      - C11_rebuild_is_identity  (5 premises) — witnessed below with four rules on resource 7:
        the old controllers are those the model's [build] creates from an empty list for the
        rules in the order A B C D (ids 11..14); the rules offered afterwards are the equal rules
        (same resource and key) under different ids (21..24), partly different statistic classes
        and validity-irrelevant fields, in the order C A D B.  The resulting permutation is not
        the identity. *)
From SV Require Import Model.Base Model.Manager Spec.C10Spec Spec.C11Spec Run.Common Run.RunMgr Run.RunC10
  Proofs.C10Proofs Proofs.C11Proofs Props.C11.
From Coq Require Import Permutation.
Open Scope N_scope.

(** rules first loaded for resource 7 (ids 11..14, keys 5 3 9 1) *)
Definition w11_rA := mkRule 11 7 5 true 2.
Definition w11_rB := mkRule 12 7 3 true 2.
Definition w11_rC := mkRule 13 7 9 true 4.
Definition w11_rD := mkRule 14 7 1 true 6.

(** the controllers [build] creates for them from nothing, identities starting at 1 *)
Definition w11_old : list ctl := fst (fst (build 7 [w11_rA; w11_rB; w11_rC; w11_rD] [] 1)).
Definition w11_next : N := snd (build 7 [w11_rA; w11_rB; w11_rC; w11_rD] [] 1).

Example w11_old_value :
  w11_old = [mkCtl w11_rA 1 2; mkCtl w11_rB 3 4; mkCtl w11_rC 5 6; mkCtl w11_rD 7 8] /\ w11_next = 9.
Proof. vm_compute. split; reflexivity. Qed.

(** the reload: equal rules (same resource, same key), other ids, other statistic classes, other order *)
Definition w11_rules : list rule :=
  [mkRule 23 7 9 true 8; mkRule 21 7 5 true 2; mkRule 24 7 1 true 6; mkRule 22 7 3 true 1].

Example C11_rebuild_is_identity_premises_hold : exists res rules old (next : N),
  Forall (fun c => r_res (c_rule c) = res) old /\
  Forall (fun r => r_res r = res) rules /\
  NoDupClasses old /\
  NoDup (map RunMgr.class_of rules) /\
  (forall k, In k (map RunMgr.class_of rules) <-> In k (map (fun c => RunMgr.class_of (c_rule c)) old)).
Proof.
  exists 7, w11_rules, w11_old, w11_next.
  split; [|split; [|split; [|split]]].
  - vm_compute. repeat constructor.
  - vm_compute. repeat constructor.
  - unfold NoDupClasses. vm_compute.
    repeat (constructor; [simpl; intuition discriminate|]). constructor.
  - vm_compute.
    repeat (constructor; [simpl; intuition discriminate|]). constructor.
  - intro k. vm_compute. tauto.
Qed.

Lemma w11_premises :
  Forall (fun c => r_res (c_rule c) = 7) w11_old /\
  Forall (fun r => r_res r = 7) w11_rules /\
  NoDupClasses w11_old /\
  NoDup (map RunMgr.class_of w11_rules) /\
  (forall k, In k (map RunMgr.class_of w11_rules) <-> In k (map (fun c => RunMgr.class_of (c_rule c)) w11_old)).
Proof.
  split; [|split; [|split; [|split]]].
  - vm_compute. repeat constructor.
  - vm_compute. repeat constructor.
  - unfold NoDupClasses. vm_compute.
    repeat (constructor; [simpl; intuition discriminate|]). constructor.
  - vm_compute.
    repeat (constructor; [simpl; intuition discriminate|]). constructor.
  - intro k. vm_compute. tauto.
Qed.

(** what the rebuild returns: the old objects (old rule objects with ids 13 11 14 12, old identities
    and statistic identities) in the order of the offered rules — not the identity permutation *)
Example w11_build_value :
  build 7 w11_rules w11_old w11_next =
  ([mkCtl w11_rC 5 6; mkCtl w11_rA 1 2; mkCtl w11_rD 7 8; mkCtl w11_rB 3 4], [], 9).
Proof. vm_compute. reflexivity. Qed.

Example w11_not_identity : fst (fst (build 7 w11_rules w11_old w11_next)) <> w11_old.
Proof. vm_compute. discriminate. Qed.

(** the conclusion of the theorem at these values *)
Example C11_rebuild_is_identity_instance :
  let '(nw, rest, nx) := build 7 w11_rules w11_old w11_next in
  nx = w11_next /\ rest = [] /\ Permutation nw w11_old /\
  map (fun c => RunMgr.class_of (c_rule c)) nw = map RunMgr.class_of w11_rules.
Proof.
  destruct w11_premises as (H1 & H2 & H3 & H4 & H5).
  exact (C11_rebuild_is_identity 7 w11_rules w11_old w11_next H1 H2 H3 H4 H5).
Qed.

(** the same, with the returned triple spelled out *)
Example C11_rebuild_is_identity_instance_concrete :
  Permutation [mkCtl w11_rC 5 6; mkCtl w11_rA 1 2; mkCtl w11_rD 7 8; mkCtl w11_rB 3 4]
              [mkCtl w11_rA 1 2; mkCtl w11_rB 3 4; mkCtl w11_rC 5 6; mkCtl w11_rD 7 8].
Proof.
  pose proof C11_rebuild_is_identity_instance as H.
  rewrite w11_build_value in H. destruct H as (_ & _ & H & _).
  destruct w11_old_value as (E & _). rewrite E in H. exact H.
Qed.
