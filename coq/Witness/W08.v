(** Non-vacuity witnesses for Props/C08.v (warm-up flow control).

    Unconditional theorems (no premise): C08_tokens_bounded, C08_sync_total.

    Theorems with premises, each with a [_premises_hold] and an [_instance] example below:
      C08_range_nonempty, C08_warm_means_threshold, C08_drain_only, C08_idle_cools,
      C08_allowance_antitone_in_tokens, C08_allowance_between_cold_and_full.

    Shared values: a warm-up rule with threshold 100.0/s, cold factor 3, warm-up period 10 s
    (warning line 500 tokens, maximum 1000 tokens), and calculator states reached by RUNNING the
    model on traffic (not hand-made records). *)
From SV Require Import Model.Base Model.F64 Model.LeapArray Model.World Model.WarmUp Proofs.C08Proofs.
From SV Require Import Proofs.C08Float Proofs.C08Bounds Props.C08.
From Coq Require Import Reals Lra Lia.
From Flocq Require Import Core Binary.
Open Scope N_scope.

(** * Helpers: concrete binary64 values without normalising their (opaque) boundedness proofs *)

Definition w08_is_fin_val (x : f64) (s : bool) (m : positive) (e : Z) : bool :=
  match x with B754_finite _ _ s' m' e' _ => Bool.eqb s s' && Pos.eqb m m' && Z.eqb e e' | _ => false end.

Lemma w08_B2R_conc : forall x s m e, w08_is_fin_val x s m e = true ->
  B2R 53 1024 x = F2R (Float radix2 (cond_Zopp s (Zpos m)) e).
Proof.
  intros x s m e H. destruct x; try discriminate. unfold w08_is_fin_val in H.
  apply andb_prop in H. destruct H as [H H3]. apply andb_prop in H. destruct H as [H1 H2].
  apply Bool.eqb_prop in H1. apply Pos.eqb_eq in H2. apply Z.eqb_eq in H3. subst. reflexivity.
Qed.

Definition w08_parts (x : f64) : option (bool * positive * Z) :=
  match x with B754_finite _ _ s m e _ => Some (s, m, e) | _ => None end.

(** rewrite [B2R 53 1024 x] into [IZR m * / IZR (2^k)] for a closed finite float [x] *)
Ltac w08_conc x :=
  let v := eval vm_compute in (w08_parts x) in
  match v with Some (?s, ?m, ?e) =>
    rewrite (w08_B2R_conc x s m e) by (vm_compute; reflexivity); unfold F2R; simpl end.

(** the stored tokens and refill time after a refill, and the refill result written with them
    (avoids comparing float records by full normalisation) *)
Definition w08_sync_sl (w : wu) (now : N) (pq : f64) : N * N :=
  match sync_token w now pq with WVal u => (wu_stored u, wu_last u) | WOverflow => (0, 0) end.

Lemma w08_sync_eq : forall w now pq,
  sync_token w now pq =
  WVal (mkWU (wu_thr w) (wu_cold w) (wu_warning w) (wu_max w) (wu_slope w)
             (fst (w08_sync_sl w now pq)) (snd (w08_sync_sl w now pq))).
Proof.
  intros [t c wn mx s st la] now pq. unfold w08_sync_sl, sync_token. simpl.
  destruct (now - now mod 1000 <=? la); [reflexivity|].
  unfold cool_down; simpl.
  destruct ((st <? wn) || flt pq (ffloor (fdiv t (f64_of_N c)))); reflexivity.
Qed.

(** * Shared concrete values *)

Definition w08_thr : f64 := f64_of_N 100.
Definition w08_new : wu := wu_new w08_thr 3 10.

Example w08_new_shape :
  (wu_cold w08_new, wu_warning w08_new, wu_max w08_new, wu_stored w08_new, wu_last w08_new) = (3, 500, 1000, 0, 0).
Proof. vm_compute. reflexivity. Qed.

(** floor(q/c) = 33, the pass rate below which the bucket refills *)
Example w08_floor_qc : fbits (ffloor (fdiv (wu_thr w08_new) (f64_of_N (wu_cold w08_new)))) = fbits (f64_of_N 33).
Proof. vm_compute. reflexivity. Qed.

(** a short history on the model (default configuration, clock starting at 20 s): a threshold
    query, admissions and rejections over two seconds, threshold queries that refill *)
Definition w08_ops_short : list wcmd :=
  [WT; WB 1; WA 1000; WB 20; WB 20; WB 20; WT; WA 1000; WT].

Example w08_ops_short_obs :
  map (fun o => match o with WOThr _ => WOThr 0 | o => o end)
      (wrun default_cfg (wworld0 default_cfg 20000 w08_thr 3 10) w08_ops_short) =
  [WOThr 0; WOAdmit; WOTick; WOAdmit; WOBlock; WOBlock; WOThr 0; WOTick; WOThr 0].
Proof. vm_compute. reflexivity. Qed.

(** the calculator after that history: still cold, 980 of 1000 tokens, refilled at 22 s *)
Definition w08_cold : wu := ww_wu (wfold default_cfg (wworld0 default_cfg 20000 w08_thr 3 10) w08_ops_short).

Example w08_cold_shape :
  (wu_cold w08_cold, wu_warning w08_cold, wu_max w08_cold, wu_stored w08_cold, wu_last w08_cold)
  = (3, 500, 1000, 980, 22000).
Proof. vm_compute. reflexivity. Qed.

(** eleven seconds of 80 unit requests per second: the rule warms up (admissions and rejections in
    every second), the tokens fall below the warning line *)
Definition w08_ops_long : list wcmd :=
  WT :: concat (repeat (repeat (WB 1) 80 ++ [WA 1000]) 11) ++ [WT].

Definition w08_warm : wu := ww_wu (wfold default_cfg (wworld0 default_cfg 20000 w08_thr 3 10) w08_ops_long).

Example w08_warm_shape :
  (wu_warning w08_warm, wu_max w08_warm, wu_stored w08_warm, wu_last w08_warm) = (500, 1000, 469, 31000).
Proof. vm_compute. reflexivity. Qed.

(** * C08_range_nonempty *)

Example C08_range_nonempty_premises_hold : exists thr cold period,
  wu_warning (wu_new thr cold period) < U64MAX.
Proof. exists w08_thr, 3, 10. vm_compute. reflexivity. Qed.

Example C08_range_nonempty_instance :
  wu_warning (wu_new w08_thr 3 10) < wu_max (wu_new w08_thr 3 10).
Proof. apply (C08_range_nonempty w08_thr 3 10). vm_compute. reflexivity. Qed.

(** a second instance: fractional threshold 7.5/s (bits 0x401E000000000000), cold factor left at its
    default (0 -> 3), period 1 s: warning line 3, maximum 5 *)
Example C08_range_nonempty_instance2 :
  let thr := f64_of_bits 4620130267728707584 in
  wu_warning (wu_new thr 0 1) < wu_max (wu_new thr 0 1) /\
  (wu_warning (wu_new thr 0 1), wu_max (wu_new thr 0 1)) = (3, 5).
Proof.
  intro thr. split.
  - apply (C08_range_nonempty thr 0 1). vm_compute. reflexivity.
  - vm_compute. reflexivity.
Qed.

(** * C08_warm_means_threshold *)

Example C08_warm_means_threshold_premises_hold : exists w, wu_stored w < wu_warning w.
Proof. exists w08_warm. vm_compute. reflexivity. Qed.

Example C08_warm_means_threshold_instance : allowed_of w08_warm = wu_thr w08_warm.
Proof. apply (C08_warm_means_threshold w08_warm). vm_compute. reflexivity. Qed.

(** ... and the threshold of that state is the configured 100.0 *)
Example w08_warm_thr : fbits (allowed_of w08_warm) = fbits (f64_of_N 100).
Proof. rewrite C08_warm_means_threshold_instance. vm_compute. reflexivity. Qed.

(** * C08_drain_only : the cold state, next second, 50 passed in the previous interval (>= 33) *)

Definition w08_drain_u : wu :=
  mkWU (wu_thr w08_cold) (wu_cold w08_cold) (wu_warning w08_cold) (wu_max w08_cold) (wu_slope w08_cold) 930 23000.

Lemma w08_drain_sync : sync_token w08_cold 23400 (f64_of_N 50) = WVal w08_drain_u.
Proof.
  rewrite w08_sync_eq.
  assert (E : w08_sync_sl w08_cold 23400 (f64_of_N 50) = (930, 23000)) by (vm_compute; reflexivity).
  rewrite E. reflexivity.
Qed.

Example C08_drain_only_premises_hold : exists w now pq u,
  wu_warning w <= wu_stored w /\ wu_stored w <= wu_max w /\
  flt pq (ffloor (fdiv (wu_thr w) (f64_of_N (wu_cold w)))) = false /\
  sync_token w now pq = WVal u.
Proof.
  exists w08_cold, 23400, (f64_of_N 50), w08_drain_u.
  split; [vm_compute; discriminate|]. split; [vm_compute; discriminate|].
  split; [vm_compute; reflexivity|]. exact w08_drain_sync.
Qed.

Example C08_drain_only_instance : wu_stored w08_drain_u <= wu_stored w08_cold.
Proof.
  apply (C08_drain_only w08_cold 23400 (f64_of_N 50) w08_drain_u).
  - vm_compute; discriminate.
  - vm_compute; discriminate.
  - vm_compute; reflexivity.
  - exact w08_drain_sync.
Qed.

(** the instance is a strict decrease: 930 <= 980 *)
Example w08_drain_values : (wu_stored w08_drain_u, wu_stored w08_cold) = (930, 980).
Proof. vm_compute. reflexivity. Qed.

(** * C08_idle_cools : the warmed-up state (469 tokens, refilled at 31 s), then idle until 49.25 s with
      7 passed in the previous interval: the refill 18 s * 100/s = 1800 tokens reaches the maximum *)

Definition w08_idle_u : wu :=
  mkWU (wu_thr w08_warm) (wu_cold w08_warm) (wu_warning w08_warm) (wu_max w08_warm) (wu_slope w08_warm) 993 49000.

Lemma w08_idle_sync : sync_token w08_warm 49250 (f64_of_N 7) = WVal w08_idle_u.
Proof.
  rewrite w08_sync_eq.
  assert (E : w08_sync_sl w08_warm 49250 (f64_of_N 7) = (993, 49000)) by (vm_compute; reflexivity).
  rewrite E. reflexivity.
Qed.

Example C08_idle_cools_premises_hold : exists w now pq u,
  wu_last w < now - now mod 1000 /\
  flt pq (ffloor (fdiv (wu_thr w) (f64_of_N (wu_cold w)))) = true /\
  wu_max w <= f64_to_u64 (fdiv (fmul (f64_of_N (now - now mod 1000 - wu_last w)) (wu_thr w)) f64_thousand) /\
  sync_token w now pq = WVal u.
Proof.
  exists w08_warm, 49250, (f64_of_N 7), w08_idle_u.
  split; [vm_compute; reflexivity|]. split; [vm_compute; reflexivity|].
  split; [vm_compute; discriminate|]. exact w08_idle_sync.
Qed.

Example C08_idle_cools_instance :
  wu_stored w08_idle_u = wu_max w08_warm - f64_to_u64 (f64_of_N 7) /\
  wu_last w08_idle_u = 49250 - 49250 mod 1000.
Proof.
  apply (C08_idle_cools w08_warm 49250 (f64_of_N 7) w08_idle_u).
  - vm_compute; reflexivity.
  - vm_compute; reflexivity.
  - vm_compute; discriminate.
  - exact w08_idle_sync.
Qed.

(** * C08_allowance_antitone_in_tokens : 600 and 900 stored tokens (both above the warning line 500) *)

Lemma w08_thr_pos : (0 < B2R 53 1024 (wu_thr w08_new))%R.
Proof. w08_conc (wu_thr w08_new). lra. Qed.

Lemma w08_slope_nonneg : (0 <= B2R 53 1024 (wu_slope w08_new))%R.
Proof. w08_conc (wu_slope w08_new). lra. Qed.

(** the slope is not the degenerate 0 either *)
Lemma w08_slope_pos : (0 < B2R 53 1024 (wu_slope w08_new))%R.
Proof. w08_conc (wu_slope w08_new). lra. Qed.

Example C08_allowance_antitone_in_tokens_premises_hold : exists w s1 s2,
  is_finite 53 1024 (wu_thr w) = true /\ (0 < B2R 53 1024 (wu_thr w))%R /\
  is_finite 53 1024 (wu_slope w) = true /\ (0 <= B2R 53 1024 (wu_slope w))%R /\
  (wu_warning w <= s1)%N /\ (s1 <= s2)%N /\
  is_finite 53 1024 (allowed_of (with_stored w s1)) = true /\
  is_finite 53 1024 (allowed_of (with_stored w s2)) = true.
Proof.
  exists w08_new, 600, 900.
  split; [vm_compute; reflexivity|]. split; [exact w08_thr_pos|].
  split; [vm_compute; reflexivity|]. split; [exact w08_slope_nonneg|].
  split; [vm_compute; discriminate|]. split; [vm_compute; discriminate|].
  split; vm_compute; reflexivity.
Qed.

Example C08_allowance_antitone_in_tokens_instance :
  fle (allowed_of (with_stored w08_new 900)) (allowed_of (with_stored w08_new 600)) = true.
Proof.
  apply (C08_allowance_antitone_in_tokens w08_new 600 900).
  - vm_compute; reflexivity.
  - exact w08_thr_pos.
  - vm_compute; reflexivity.
  - exact w08_slope_nonneg.
  - vm_compute; discriminate.
  - vm_compute; discriminate.
  - vm_compute; reflexivity.
  - vm_compute; reflexivity.
Qed.

(** the two allowances are different floats (the inequality is strict here) *)
Example w08_antitone_strict :
  flt (allowed_of (with_stored w08_new 900)) (allowed_of (with_stored w08_new 600)) = true.
Proof. vm_compute. reflexivity. Qed.

(** * C08_allowance_between_cold_and_full : threshold 100, cold factor 3, period 10 s, 700 tokens *)

Lemma w08_thr_range : (1 <= B2R 53 1024 w08_thr <= 1073741824)%R.
Proof. w08_conc w08_thr. lra. Qed.

Lemma w08_thr_val : B2R 53 1024 w08_thr = 100%R.
Proof. w08_conc w08_thr. lra. Qed.

Example C08_allowance_between_cold_and_full_premises_hold : exists thr cold period s,
  is_finite 53 1024 thr = true /\
  (1 <= B2R 53 1024 thr <= 1073741824)%R /\
  (cold <= 1048576)%N /\ (1 <= period <= 1048576)%N /\
  (s <= wu_max (wu_new thr cold period))%N.
Proof.
  exists w08_thr, 3, 10, 700.
  split; [vm_compute; reflexivity|]. split; [exact w08_thr_range|].
  split; [vm_compute; discriminate|]. split; [split; vm_compute; discriminate|].
  vm_compute; discriminate.
Qed.

Example C08_allowance_between_cold_and_full_instance :
  is_finite 53 1024 (allowed_of (with_stored (wu_new w08_thr 3 10) 700)) = true /\
  (100 / 3 * (1 - / 1099511627776)
   <= B2R 53 1024 (allowed_of (with_stored (wu_new w08_thr 3 10) 700))
   <= 100 * (1 + / 1099511627776))%R.
Proof.
  pose proof (C08_allowance_between_cold_and_full w08_thr 3 10 700) as H.
  cbv zeta in H. rewrite w08_thr_val in H.
  change (IZR (Z.of_N (if (3 <=? 1)%N then 3%N else 3%N))) with 3%R in H.
  apply H.
  - vm_compute; reflexivity.
  - lra.
  - vm_compute; discriminate.
  - split; vm_compute; discriminate.
  - vm_compute; discriminate.
Qed.

(** the allowance of that instance is a genuinely intermediate value: 33.3.. < a < 100, here a = 55.55.. *)
Example w08_between_value :
  flt (f64_of_N 55) (allowed_of (with_stored (wu_new w08_thr 3 10) 700)) = true /\
  flt (allowed_of (with_stored (wu_new w08_thr 3 10) 700)) (f64_of_N 56) = true.
Proof. split; vm_compute; reflexivity. Qed.

(** the same theorem at the two ends of the token range (0 tokens: full threshold, 1000: cold) and
    with the cold factor left at its default (cold = 0 is read as 3) *)
Example C08_allowance_between_cold_and_full_instance_ends :
  is_finite 53 1024 (allowed_of (with_stored (wu_new w08_thr 0 10) 0)) = true /\
  is_finite 53 1024 (allowed_of (with_stored (wu_new w08_thr 0 10) 1000)) = true.
Proof.
  split.
  - apply (C08_allowance_between_cold_and_full w08_thr 0 10 0).
    + vm_compute; reflexivity.
    + exact w08_thr_range.
    + vm_compute; discriminate.
    + split; vm_compute; discriminate.
    + vm_compute; discriminate.
  - apply (C08_allowance_between_cold_and_full w08_thr 0 10 1000).
    + vm_compute; reflexivity.
    + exact w08_thr_range.
    + vm_compute; discriminate.
    + split; vm_compute; discriminate.
    + vm_compute; discriminate.
Qed.

(** * C08_saturated_second_never_lowers_allowance : the cold state (980 tokens), next second, 50 passed (>= 33):
      930 tokens are left, still above the warning line 500 *)
Lemma w08_cold_thr_pos : (0 < B2R 53 1024 (wu_thr w08_cold))%R.
Proof. w08_conc (wu_thr w08_cold). lra. Qed.
Lemma w08_cold_slope_nonneg : (0 <= B2R 53 1024 (wu_slope w08_cold))%R.
Proof. w08_conc (wu_slope w08_cold). lra. Qed.

Example C08_saturated_second_never_lowers_allowance_premises_hold : exists w now pq u,
  is_finite 53 1024 (wu_thr w) = true /\ (0 < B2R 53 1024 (wu_thr w))%R /\
  is_finite 53 1024 (wu_slope w) = true /\ (0 <= B2R 53 1024 (wu_slope w))%R /\
  wu_warning w <= wu_stored w /\ wu_stored w <= wu_max w /\
  flt pq (ffloor (fdiv (wu_thr w) (f64_of_N (wu_cold w)))) = false /\
  sync_token w now pq = WVal u /\ wu_warning w <= wu_stored u /\
  is_finite 53 1024 (allowed_of w) = true /\ is_finite 53 1024 (allowed_of u) = true.
Proof.
  exists w08_cold, 23400, (f64_of_N 50), w08_drain_u.
  split; [vm_compute; reflexivity|]. split; [exact w08_cold_thr_pos|].
  split; [vm_compute; reflexivity|]. split; [exact w08_cold_slope_nonneg|].
  split; [vm_compute; discriminate|]. split; [vm_compute; discriminate|].
  split; [vm_compute; reflexivity|]. split; [exact w08_drain_sync|].
  split; [vm_compute; discriminate|]. split; vm_compute; reflexivity.
Qed.

Example C08_saturated_second_never_lowers_allowance_instance :
  fle (allowed_of w08_cold) (allowed_of w08_drain_u) = true.
Proof.
  apply (C08_saturated_second_never_lowers_allowance w08_cold 23400 (f64_of_N 50) w08_drain_u).
  - vm_compute; reflexivity.
  - exact w08_cold_thr_pos.
  - vm_compute; reflexivity.
  - exact w08_cold_slope_nonneg.
  - vm_compute; discriminate.
  - vm_compute; discriminate.
  - vm_compute; reflexivity.
  - exact w08_drain_sync.
  - vm_compute; discriminate.
  - vm_compute; reflexivity.
  - vm_compute; reflexivity.
Qed.

(** strictly larger here *)
Example w08_ramp_strict : flt (allowed_of w08_cold) (allowed_of w08_drain_u) = true.
Proof. vm_compute. reflexivity. Qed.
