(** Non-vacuity witnesses for Props/C10.v.

    Unconditional theorems (no premise; nothing to witness):
      - C10_manager_refines_reference_map   (forall iso nres pool ops, mrun ... = ref_run ...)
      - C10_controllers_belong_to_resource  (forall iso ops res, Forall ... (m_live ... res))
    (Props/C10.v also has its own Example C10_example.)

    No theorem of Props/C10.v has a premise.  The second theorem is a [Forall] over the list of
    controllers of a resource in a reachable manager state; a [Forall] over a list that is always
    empty would say nothing, so below is one concrete reachable state (nine operations on three
    resources: load-all with an invalid rule, a duplicate under rule equality and a rule naming
    the empty resource; load-for-resource whose list also contains rules naming ANOTHER resource;
    appends; a clear of one resource) in which the lists are non-empty (3, 2 and 0 controllers),
    and the instance of the theorem on them.  The load-for-resource with foreign rules is the case
    in which the statement could fail (build skips rules whose resource is not the one rebuilt):
    the foreign rule is indeed not among the controllers. *)
From SV Require Import Model.Base Model.Manager Spec.C10Spec Run.Common Run.RunMgr Run.RunC10
  Proofs.C10Proofs Props.C10.
Open Scope N_scope.

Definition w10_ops : list mop :=
  [MLoadAll [mkRule 1 1 5 true 1; mkRule 2 1 6 false 1; mkRule 3 2 5 true 2; mkRule 4 1 5 true 1;
             mkRule 5 0 9 true 3; mkRule 6 3 1 true 4];
   MAppend (mkRule 7 1 7 true 1);
   MLoadRes 2 [mkRule 8 2 5 true 2; mkRule 9 1 8 true 1; mkRule 10 2 6 true 2];   (* rule 9 names resource 1 *)
   MAppend (mkRule 11 1 8 true 9);
   MAppend (mkRule 12 1 8 true 9);            (* equal to rule 11: refused *)
   MAppend (mkRule 13 2 4 false 2);           (* invalid: refused *)
   MClearRes 3;
   MLoadRes 0 [mkRule 14 0 1 true 1];         (* the empty resource name: error *)
   MLoadRes 1 [mkRule 15 1 8 true 9; mkRule 16 1 5 true 1; mkRule 17 1 2 true 1]].

Definition w10_final (iso : bool) : mgr := fold_left (fun m o => fst (mstep iso m o)) w10_ops mgr0.

(** return values along the run *)
Fixpoint w10_rets (iso : bool) (m : mgr) (ops : list mop) : list mret :=
  match ops with [] => [] | o :: tl => snd (mstep iso m o) :: w10_rets iso (fst (mstep iso m o)) tl end.

Example w10_return_values :
  w10_rets false mgr0 w10_ops = [RTrue; RTrue; RTrue; RTrue; RFalse; RFalse; RUnit; RErr; RTrue] /\
  w10_rets true  mgr0 w10_ops = [RTrue; RTrue; RTrue; RTrue; RFalse; RTrue;  RUnit; RErr; RTrue].
Proof. vm_compute. split; reflexivity. Qed.

(** the controllers at the end: non-empty lists for resources 1 and 2 (rule 9, which names
    resource 1, is not among those of resource 2; rules 15 and 16 reuse the controllers of the
    equal rules 11 and 1, rule 17 the statistic of the dropped rule 7) *)
Example w10_live_value :
  m_live (w10_final false) 1 =
    [mkCtl (mkRule 11 1 8 true 9) 13 14; mkCtl (mkRule 1 1 5 true 1) 3 4; mkCtl (mkRule 17 1 2 true 1) 15 10] /\
  m_live (w10_final false) 2 =
    [mkCtl (mkRule 3 2 5 true 2) 1 2; mkCtl (mkRule 10 2 6 true 2) 11 12] /\
  m_live (w10_final false) 3 = [] /\
  m_live (w10_final false) 0 = [mkCtl (mkRule 5 0 9 true 3) 5 6].
Proof. vm_compute. repeat split; reflexivity. Qed.

Example w10_live_nonempty :
  length (m_live (w10_final false) 1) = 3%nat /\ length (m_live (w10_final false) 2) = 2%nat /\
  length (m_live (w10_final true) 1) = 3%nat /\ length (m_live (w10_final true) 2) = 2%nat.
Proof. vm_compute. repeat split; reflexivity. Qed.

(** the theorem at this run, resources 1 and 2 *)
Example C10_controllers_belong_to_resource_instance :
  Forall (fun c => r_res (c_rule c) = 1) (m_live (w10_final false) 1) /\
  Forall (fun c => r_res (c_rule c) = 2) (m_live (w10_final false) 2) /\
  Forall (fun c => r_res (c_rule c) = 1) (m_live (w10_final true) 1).
Proof.
  repeat split.
  - exact (C10_controllers_belong_to_resource false w10_ops 1).
  - exact (C10_controllers_belong_to_resource false w10_ops 2).
  - exact (C10_controllers_belong_to_resource true w10_ops 1).
Qed.

(** the same spelled out *)
Example C10_controllers_belong_to_resource_instance_concrete :
  Forall (fun c => r_res (c_rule c) = 1)
    [mkCtl (mkRule 11 1 8 true 9) 13 14; mkCtl (mkRule 1 1 5 true 1) 3 4; mkCtl (mkRule 17 1 2 true 1) 15 10].
Proof.
  pose proof (C10_controllers_belong_to_resource false w10_ops 1) as H.
  destruct w10_live_value as (E & _). unfold w10_final in E. rewrite E in H. exact H.
Qed.

(** the first theorem at a concrete run of the command interpreter (three resources, both families) *)
Definition w10_pool : list rule :=
  [mkRule 1 1 5 true 1; mkRule 2 1 6 false 1; mkRule 3 2 5 true 2; mkRule 4 1 5 true 1;
   mkRule 5 0 9 true 3; mkRule 6 3 1 true 4; mkRule 7 1 7 true 1; mkRule 8 2 6 true 2].
Definition w10_cmds : list mcmd :=
  [CLoadAll [0; 1; 2; 3; 4; 5]%nat; CGetAll; CAppend 6; CAppend 1; CLoadRes 2 [2; 0; 7]%nat; CEnforced 2;
   CLoadAll [0; 1; 2; 3; 4; 5]%nat; CClearRes 3; CGetRes 3; CEnforced 1; CLoadRes 0 [4]%nat; CClear; CGetAll].

Example C10_manager_refines_reference_map_instance :
  mrun false 3 w10_pool mgr0 w10_cmds = ref_run false 3 w10_pool ref0 w10_cmds /\
  mrun true 3 w10_pool mgr0 w10_cmds = ref_run true 3 w10_pool ref0 w10_cmds.
Proof. split; apply C10_manager_refines_reference_map. Qed.

Example w10_mrun_value :
  mrun false 3 w10_pool mgr0 w10_cmds =
  [[1]; [9; 1000005; 2000005; 3000001]; [1]; [0]; [1]; [2000005; 2000006]; [1]; [9]; [];
   [1000005]; [2]; [9]; []]%Z.
Proof. vm_compute. reflexivity. Qed.
