(** Non-vacuity witnesses for Props/C18.v.

    Unconditional theorem: C18_norm_idempotent.

    C18_metric_roundtrip (premise [item_wf i]): an item whose resource name contains two field separators
    and a two-byte UTF-8 character ("a|b|" ++ [195;169]), resource type 6, a 13-digit timestamp, one counter
    at u64::MAX, concurrency at u32::MAX and a zero counter.
    C18_metric_parse_in_range (premise [from_line l = Some i]): a hand-written line that is NOT the image of
    [to_line] — leading '+' on the timestamp, garbage in the (ignored) time field, type byte 200 (out of the
    enum, mapped to 0) — and a second, short line with only the eight mandatory fields.  A third line shows
    that the premise can fail (a counter above u64::MAX is a parse error). *)
From SV Require Import Model.Base Model.MetricLine Proofs.C18Proofs Props.C18.
Open Scope N_scope.

Definition i18 : mitem :=
  mkMI [97; 124; 98; 124; 195; 169] 6 1700000000123 18446744073709551615 0 7 1 20 3 4294967295.

(** ** C18_metric_roundtrip *)
Lemma i18_wf : item_wf i18.
Proof.
  unfold item_wf, i18; simpl. repeat (split; [discriminate|]). repeat constructor; discriminate.
Qed.

Example C18_metric_roundtrip_premises_hold : exists i, item_wf i.
Proof. exists i18. exact i18_wf. Qed.

Example C18_metric_roundtrip_instance :
  from_line (to_line i18) =
  Some (mkMI [97; 95; 98; 95; 195; 169] 6 1700000000123 18446744073709551615 0 7 1 20 3 4294967295).
Proof. rewrite (C18_metric_roundtrip i18 i18_wf). vm_compute. reflexivity. Qed.

(** ** C18_metric_parse_in_range *)
(* "+12|x|res|1|2|3|4|5|6|7|200" *)
Definition l18 : bytes :=
  [43; 49; 50; 124; 120; 124; 114; 101; 115; 124; 49; 124; 50; 124; 51; 124; 52; 124; 53; 124; 54; 124; 55;
   124; 50; 48; 48].
Definition p18 : mitem := mkMI [114; 101; 115] 0 12 1 2 3 4 5 6 7.
(* "99|?|r|18446744073709551615|0|0|0|8" : eight fields only *)
Definition l18s : bytes :=
  [57; 57; 124; 63; 124; 114; 124;
   49; 56; 52; 52; 54; 55; 52; 52; 48; 55; 51; 55; 48; 57; 53; 53; 49; 54; 49; 53; 124; 48; 124; 48; 124; 48; 124; 56].
Definition p18s : mitem := mkMI [114] 0 99 18446744073709551615 0 0 0 8 0 0.

Example C18_metric_parse_in_range_premises_hold : exists l i, from_line l = Some i.
Proof. exists l18, p18. vm_compute. reflexivity. Qed.

Example C18_metric_parse_in_range_instance :
  mi_type p18 <= 6 /\ mi_ts p18 <= U64_MAX /\ mi_pass p18 <= U64_MAX /\ mi_block p18 <= U64_MAX /\
  mi_complete p18 <= U64_MAX /\ mi_error p18 <= U64_MAX /\ mi_avg_rt p18 <= U64_MAX /\
  mi_occupied p18 <= U64_MAX /\ mi_conc p18 <= U32_MAX.
Proof. apply (C18_metric_parse_in_range l18 p18). vm_compute. reflexivity. Qed.

Example C18_metric_parse_in_range_instance_short :
  mi_type p18s <= 6 /\ mi_ts p18s <= U64_MAX /\ mi_pass p18s <= U64_MAX /\ mi_block p18s <= U64_MAX /\
  mi_complete p18s <= U64_MAX /\ mi_error p18s <= U64_MAX /\ mi_avg_rt p18s <= U64_MAX /\
  mi_occupied p18s <= U64_MAX /\ mi_conc p18s <= U32_MAX.
Proof. apply (C18_metric_parse_in_range l18s p18s). vm_compute. reflexivity. Qed.

(** the premise discriminates: the same short line with the counter u64::MAX + 1 does not parse *)
Example C18_parse_can_fail :
  from_line [57; 57; 124; 63; 124; 114; 124;
   49; 56; 52; 52; 54; 55; 52; 52; 48; 55; 51; 55; 48; 57; 53; 53; 49; 54; 49; 54; 124; 48; 124; 48; 124; 48; 124; 56] = None.
Proof. vm_compute. reflexivity. Qed.
