(** Non-vacuity witnesses for Props/C12.v.

    Unconditional theorems (no premise, nothing to witness):
      C12_hotspot_never_hangs, C12_manager_total.

    Theorems with premises, each with a [_premises_hold] and an [_instance] example below:
      C12_flow_statistic_always_built, C12_entries_never_panic,
      C12_valid_breaker_premises, C12_valid_hotspot_premises, C12_valid_isolation_premises. *)
From SV Require Import Model.Base Model.F64 Model.LeapArray Model.World Model.Hotspot Model.Breaker Model.Rules
  Model.Manager Spec.WorldSpec Spec.C04Spec Spec.C06Spec Spec.C10Spec Run.Common Run.RunMgr Run.RunC10
  Proofs.WorldProofs Proofs.C04Proofs Proofs.C06Proofs Proofs.C10Proofs Proofs.C12Proofs Props.C12.
From Coq Require Import Lia.
Open Scope N_scope.

(** * Shared concrete values *)

(** a second, non-default configuration: 6 buckets of 250 ms, default metric 3 samples over 1.5 s *)
Definition w12_cfg2 : cfg := mkCfg (mkG 6 250) 3 1500.

Lemma w12_cfg2_ok : geom_ok w12_cfg2.
Proof. repeat split; vm_compute; reflexivity. Qed.

(** Flow controllers as the rule manager generates them ([stat_for]), on two resources:
    resource 0 : rule 1, threshold 2.5, private 3 x 500 ms ring (interval 1500);
                 rule 2, threshold 3, default metric (interval 0);
                 rule 3, threshold +inf, window over the 10 s ring (interval 2000);
                 rule 4, threshold NaN, private 1 x 700 ms ring (interval 700);
    resource 1 : rule 5, threshold 1, private 6 x 500 ms ring (interval 3000). *)
Definition w12_fl (res : N) : list fctl :=
  if res =? 0 then [mkF 1 (TFin 5 (-1)) (stat_for default_cfg 1500); mkF 2 (TFin 3 0) (stat_for default_cfg 0);
                    mkF 3 TPosInf (stat_for default_cfg 2000); mkF 4 TNaN (stat_for default_cfg 700)]
  else if res =? 1 then [mkF 5 (TFin 1 0) (stat_for default_cfg 3000)] else [].

(** the statistic kinds really are the ones announced (two private rings and a reuse window on resource 0) *)
Example w12_fl_kinds :
  map (fun f => match f_stat f with
                | SDefault => 0 | SReuse _ => 1 | SPrivate g _ _ => 100 + sc g | SBroken => 9 end) (w12_fl 0 ++ w12_fl 1)
  = [103; 0; 1; 101; 106].
Proof. vm_compute. reflexivity. Qed.

Definition w12_iso (res : N) : list (N * N) := if res =? 0 then [(10, 3)] else [(11, 1); (12, 5)].

Definition w12_base : N := 600000.

(** admissions, a flow rejection (rule 1), isolation rejections (rule 11), a rejection by an extra
    slot (type 9), exits (one of an unknown entry), clock advances and reads of three nodes and of
    the inbound node *)
Definition w12_ops : list cmd :=
  [WB 1 0 1 true None; WA 500; WB 2 0 1 false None; WB 3 0 1 true None; WB 4 1 1 true None; WB 5 1 1 false None;
   WX 1; WR 0; WRI; WA 1000; WB 6 0 1 false None; WB 7 0 2 false (Some 9); WX 99; WR 1;
   WB 8 2 7 true None; WB 9 2 1 true None; WR 2].

Example w12_history :
  run_typed (world0 default_cfg w12_base w12_fl w12_iso) w12_ops =
  [ZAdmit; ZTick; ZAdmit; ZBlock 1 1 2; ZAdmit; ZBlock 2 11 1; ZExited; ZRead 1 2 1 1 500; ZRead 1 2 1 1 500;
   ZTick; ZAdmit; ZBlock 9 0 0; ZNoEntry; ZRead 1 0 0 0 0; ZBlock 2 11 0; ZAdmit; ZRead 1 1 7 0 0].
Proof. vm_compute. reflexivity. Qed.

Lemma w12_fl_ok : flow_ok default_cfg w12_base w12_fl.
Proof.
  intros res. unfold w12_fl.
  destruct (res =? 0); [|destruct (res =? 1)];
    repeat (apply Forall_cons; [apply stat_for_ok; [exact default_cfg_ok|unfold w12_base; lia]|]); apply Forall_nil.
Qed.

(** the same rule intervals under the second configuration (statistics generated for that configuration) *)
Definition w12_fl2 (res : N) : list fctl :=
  if res =? 0 then [mkF 1 (TFin 5 (-1)) (stat_for w12_cfg2 1000); mkF 2 (TFin 3 0) (stat_for w12_cfg2 0);
                    mkF 3 TPosInf (stat_for w12_cfg2 500); mkF 4 TNaN (stat_for w12_cfg2 700)]
  else if res =? 1 then [mkF 5 (TFin 1 0) (stat_for w12_cfg2 3000)] else [].

Example w12_fl2_kinds :
  map (fun f => match f_stat f with
                | SDefault => 0 | SReuse _ => 1 | SPrivate g _ _ => 100 + sc g | SBroken => 9 end) (w12_fl2 0 ++ w12_fl2 1)
  = [104; 0; 1; 101; 101].
Proof. vm_compute. reflexivity. Qed.

Lemma w12_fl2_ok : flow_ok w12_cfg2 w12_base w12_fl2.
Proof.
  intros res. unfold w12_fl2.
  destruct (res =? 0); [|destruct (res =? 1)];
    repeat (apply Forall_cons; [apply stat_for_ok; [exact w12_cfg2_ok|unfold w12_base; lia]|]); apply Forall_nil.
Qed.

(** * C12_flow_statistic_always_built *)
Example C12_flow_statistic_always_built_premises_hold :
  exists c interval, geom_ok c /\ c = w12_cfg2 /\ interval = 700.
Proof. exists w12_cfg2, 700. split; [exact w12_cfg2_ok|split; reflexivity]. Qed.

Example C12_flow_statistic_always_built_instance : stat_for w12_cfg2 700 <> SBroken.
Proof. apply (C12_flow_statistic_always_built w12_cfg2 700). exact w12_cfg2_ok. Qed.

Example C12_flow_statistic_always_built_instance_default : stat_for default_cfg 1500 <> SBroken.
Proof. apply (C12_flow_statistic_always_built default_cfg 1500). exact default_cfg_ok. Qed.

(** * C12_entries_never_panic *)
Example C12_entries_never_panic_premises_hold :
  exists c base fl (iso : N -> list (N * N)) (ops : list cmd),
    geom_ok c /\ iv (c_total c) <= base /\ flow_ok c base fl /\
    (* non-degeneracy of the chosen values *)
    fl 0 = w12_fl 0 /\ iso 1 = [(11, 1); (12, 5)] /\ ops = w12_ops.
Proof.
  exists default_cfg, w12_base, w12_fl, w12_iso, w12_ops.
  split; [exact default_cfg_ok|]. split; [vm_compute; discriminate|]. split; [exact w12_fl_ok|].
  repeat split; reflexivity.
Qed.

Example C12_entries_never_panic_instance :
  ok_c04 default_cfg (ghost0 w12_base) w12_ops (run_typed (world0 default_cfg w12_base w12_fl w12_iso) w12_ops) = true.
Proof.
  apply (C12_entries_never_panic default_cfg w12_base w12_fl w12_iso w12_ops).
  - exact default_cfg_ok.
  - vm_compute; discriminate.
  - exact w12_fl_ok.
Qed.

(** second configuration *)
Example C12_entries_never_panic_premises_hold_cfg2 :
  exists c base fl (iso : N -> list (N * N)) (ops : list cmd),
    geom_ok c /\ iv (c_total c) <= base /\ flow_ok c base fl /\
    c = w12_cfg2 /\ fl 0 = w12_fl2 0 /\ ops = w12_ops.
Proof.
  exists w12_cfg2, w12_base, w12_fl2, w12_iso, w12_ops.
  split; [exact w12_cfg2_ok|]. split; [vm_compute; discriminate|]. split; [exact w12_fl2_ok|].
  repeat split; reflexivity.
Qed.

Example C12_entries_never_panic_instance_cfg2 :
  ok_c04 w12_cfg2 (ghost0 w12_base) w12_ops (run_typed (world0 w12_cfg2 w12_base w12_fl2 w12_iso) w12_ops) = true.
Proof.
  apply (C12_entries_never_panic w12_cfg2 w12_base w12_fl2 w12_iso w12_ops).
  - exact w12_cfg2_ok.
  - vm_compute; discriminate.
  - exact w12_fl2_ok.
Qed.

(** the history under the second configuration also has admissions and rejections of several kinds *)
Example w12_history_cfg2 :
  filter (fun o => match o with ZBlock _ _ _ => true | ZAdmit => true | _ => false end)
         (run_typed (world0 w12_cfg2 w12_base w12_fl2 w12_iso) w12_ops) =
  [ZAdmit; ZAdmit; ZBlock 1 1 2; ZAdmit; ZBlock 2 11 1; ZAdmit; ZBlock 9 0 0; ZBlock 2 11 0; ZAdmit].
Proof. vm_compute. reflexivity. Qed.

(** * C12_valid_breaker_premises : an error-ratio breaker rule, threshold 0.5, retry 3 s, interval 1 s *)
Definition w12_cb : cb_rule := mkCbR false 1 3000 1000 (fdiv (f64_of_Z 1) (f64_of_Z 2)).

Example C12_valid_breaker_premises_premises_hold : exists r, valid_cb r = true /\ r = w12_cb.
Proof. exists w12_cb. split; [vm_compute|]; reflexivity. Qed.

Example C12_valid_breaker_premises_instance :
  0 < cr_interval w12_cb /\ 0 < cr_retry w12_cb /\ cr_res_empty w12_cb = false.
Proof. apply (C12_valid_breaker_premises w12_cb). vm_compute. reflexivity. Qed.

(** * C12_valid_hotspot_premises : a QPS rule on parameter index 2 with a key, duration 5 s *)
Definition w12_hot : hot_rule := mkHotR false true (-2) true 5.

Example C12_valid_hotspot_premises_premises_hold : exists r, valid_hot r = true /\ r = w12_hot.
Proof. exists w12_hot. split; [vm_compute|]; reflexivity. Qed.

Example C12_valid_hotspot_premises_instance :
  hr_res_empty w12_hot = false /\ (hr_qps w12_hot = true -> 0 < hr_dur w12_hot).
Proof. apply (C12_valid_hotspot_premises w12_hot). vm_compute. reflexivity. Qed.

(** * C12_valid_isolation_premises *)
Definition w12_isor : iso_rule := mkIsoR false 4.

Example C12_valid_isolation_premises_premises_hold : exists r, valid_iso r = true /\ r = w12_isor.
Proof. exists w12_isor. split; [vm_compute|]; reflexivity. Qed.

Example C12_valid_isolation_premises_instance : 0 < ir_thr w12_isor /\ ir_res_empty w12_isor = false.
Proof. apply (C12_valid_isolation_premises w12_isor). vm_compute. reflexivity. Qed.
