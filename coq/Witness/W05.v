(** Non-vacuity witnesses for Props/C05.v.

    Unconditional theorems: none (the file's two [Example]s are closed computations).

    Theorems with premises, each with a [_premises_hold] and an [_instance] example below:
      C05_isolation_exact, C05_isolation_cap, C05_hotspot_exact, C05_hotspot_cap, C05_hotspot_exact_multi. *)
From SV Require Import Model.Base Model.LeapArray Model.World Spec.WorldSpec Spec.C05Spec
  Proofs.WorldProofs Proofs.C05Proofs.
From SV Require Import Model.Hotspot Spec.C05hSpec Proofs.C05hProofs.
From SV Require Import Model.F64 Model.Throttle Spec.C07Spec Spec.MultiSpec Proofs.C07Proofs Proofs.MultiProofs.
From SV Require Import Props.C05.
From Coq Require Import Lia.
Open Scope N_scope.

(** * Isolation part: shared concrete values *)

(** a second, non-default configuration: 6 buckets of 250 ms, default metric 3 samples over 1.5 s *)
Definition w05_cfg2 : cfg := mkCfg (mkG 6 250) 3 1500.
Lemma w05_cfg2_ok : geom_ok w05_cfg2.
Proof. repeat split; vm_compute; reflexivity. Qed.

(** resource 0 : rules 3 (threshold 2) and 4 (threshold 5) ; resource 1 : rule 5 (threshold 1) *)
Definition w05_iso (res : N) : list (N * N) :=
  if res =? 0 then [(3, 2); (4, 5)] else if res =? 1 then [(5, 1)] else [].

Definition w05_base : N := 20000.

(** admissions, rejections on both resources (incl. a batch larger than the threshold and a batch
    that does not fit the remaining room), exits (one unknown id), clock advances, reads;
    capacity freed by an exit is used by the next request; every batch >= 1 *)
Definition w05_ops : list cmd :=
  [WB 1 0 1 false None; WB 2 0 1 true None; WB 3 0 1 false None; WA 300; WX 1; WB 4 0 1 false None;
   WB 5 1 2 false None; WB 6 1 1 true None; WX 7; WR 0; WB 8 0 3 true None; WX 6; WA 700;
   WB 9 1 1 false None; WB 10 1 1 false None; WRI].

Example w05_history :
  run_typed (world0 default_cfg w05_base (fun _ => []) w05_iso) w05_ops =
  [ZAdmit; ZAdmit; ZBlock 2 3 2; ZTick; ZExited; ZAdmit; ZBlock 2 5 0; ZAdmit; ZNoEntry; ZRead 2 3 1 1 300;
   ZBlock 2 3 2; ZExited; ZTick; ZAdmit; ZBlock 2 5 1; ZRead 1 0 0 0 0].
Proof. vm_compute. reflexivity. Qed.

(** the same history followed by a build with batch 0 (admitted although the resource is full:
    in flight becomes 3 > 2, which is why C05_isolation_cap asks for batches >= 1) *)
Definition w05_ops0 : list cmd := w05_ops ++ [WB 11 0 0 false None; WR 0].

Example w05_history0 :
  skipn 16 (run_typed (world0 default_cfg w05_base (fun _ => []) w05_iso) w05_ops0) = [ZAdmit; ZRead 3 0 0 0 0].
Proof. vm_compute. reflexivity. Qed.

(** * C05_isolation_exact *)
Example C05_isolation_exact_premises_hold :
  exists c base (rules : N -> list (N * N)) ops,
    geom_ok c /\ iv (c_total c) <= base /\ forallb no_extra ops = true /\
    (* the chosen values *)
    c = default_cfg /\ base = w05_base /\ rules 0 = [(3, 2); (4, 5)] /\ rules 1 = [(5, 1)] /\ ops = w05_ops0.
Proof.
  exists default_cfg, w05_base, w05_iso, w05_ops0.
  split; [exact default_cfg_ok|]. split; [vm_compute; discriminate|]. split; [vm_compute; reflexivity|].
  repeat split; reflexivity.
Qed.

Example C05_isolation_exact_instance :
  ok_c05_iso w05_iso w05_base w05_ops0 (run_typed (world0 default_cfg w05_base (fun _ => []) w05_iso) w05_ops0) = true.
Proof.
  apply (C05_isolation_exact default_cfg w05_base w05_iso w05_ops0).
  - exact default_cfg_ok.
  - vm_compute; discriminate.
  - vm_compute; reflexivity.
Qed.

(** under the second configuration *)
Example C05_isolation_exact_premises_hold_cfg2 :
  exists c base (rules : N -> list (N * N)) ops,
    geom_ok c /\ iv (c_total c) <= base /\ forallb no_extra ops = true /\
    c = w05_cfg2 /\ base = 1500 /\ rules 0 = [(3, 2); (4, 5)] /\ ops = w05_ops.
Proof.
  exists w05_cfg2, 1500, w05_iso, w05_ops.
  split; [exact w05_cfg2_ok|]. split; [vm_compute; discriminate|]. split; [vm_compute; reflexivity|].
  repeat split; reflexivity.
Qed.

Example C05_isolation_exact_instance_cfg2 :
  ok_c05_iso w05_iso 1500 w05_ops (run_typed (world0 w05_cfg2 1500 (fun _ => []) w05_iso) w05_ops) = true.
Proof.
  apply (C05_isolation_exact w05_cfg2 1500 w05_iso w05_ops).
  - exact w05_cfg2_ok.
  - vm_compute; discriminate.
  - vm_compute; reflexivity.
Qed.

(** * C05_isolation_cap *)

(** the ghost state after the history (the theorem's [gh']): the computed value *)
Definition w05_gh' : ghost :=
  match ghost_after (ghost0 w05_base) w05_ops (run_typed (world0 default_cfg w05_base (fun _ => []) w05_iso) w05_ops) with
  | Some g => g
  | None => ghost0 0
  end.

Lemma w05_gh'_eq :
  ghost_after (ghost0 w05_base) w05_ops (run_typed (world0 default_cfg w05_base (fun _ => []) w05_iso) w05_ops)
  = Some w05_gh'.
Proof.
  unfold w05_gh'.
  destruct (ghost_after (ghost0 w05_base) w05_ops
              (run_typed (world0 default_cfg w05_base (fun _ => []) w05_iso) w05_ops)) eqn:E; [reflexivity|].
  exfalso. vm_compute in E. discriminate E.
Qed.

(** the final state is not the initial one: two entries of resource 0 and one of resource 1 in flight,
    at time base + 1000, three entries open *)
Example w05_gh'_values :
  g_fly w05_gh' 0 = 2 /\ g_fly w05_gh' 1 = 1 /\ g_fly w05_gh' 2 = 0 /\ g_now w05_gh' = 21000 /\
  map fst (g_open w05_gh') = [9; 4; 2].
Proof. vm_compute. repeat split; reflexivity. Qed.

Example C05_isolation_cap_premises_hold :
  exists c base (rules : N -> list (N * N)) ops gh',
    geom_ok c /\ iv (c_total c) <= base /\ forallb no_extra ops = true /\ forallb batch_pos ops = true /\
    ghost_after (ghost0 base) ops (run_typed (world0 c base (fun _ => []) rules) ops) = Some gh' /\
    (* the chosen values *)
    c = default_cfg /\ base = w05_base /\ rules 0 = [(3, 2); (4, 5)] /\ rules 1 = [(5, 1)] /\ ops = w05_ops.
Proof.
  exists default_cfg, w05_base, w05_iso, w05_ops, w05_gh'.
  split; [exact default_cfg_ok|]. split; [vm_compute; discriminate|].
  split; [vm_compute; reflexivity|]. split; [vm_compute; reflexivity|]. split; [exact w05_gh'_eq|].
  repeat split; reflexivity.
Qed.

(** the conclusion for these values, as stated by the theorem *)
Example C05_isolation_cap_instance :
  forall res r t, In (r, t) (w05_iso res) -> g_fly w05_gh' res <= t.
Proof.
  apply (C05_isolation_cap default_cfg w05_base w05_iso w05_ops w05_gh').
  - exact default_cfg_ok.
  - vm_compute; discriminate.
  - vm_compute; reflexivity.
  - vm_compute; reflexivity.
  - exact w05_gh'_eq.
Qed.

(** ... and specialised to the three concrete rules (the bound is attained for rules 3 and 5) *)
Example C05_isolation_cap_instance_rules :
  g_fly w05_gh' 0 <= 2 /\ g_fly w05_gh' 0 <= 5 /\ g_fly w05_gh' 1 <= 1.
Proof.
  split; [|split].
  - apply (C05_isolation_cap_instance 0 3 2). vm_compute. auto.
  - apply (C05_isolation_cap_instance 0 4 5). vm_compute. auto.
  - apply (C05_isolation_cap_instance 1 5 1). vm_compute. auto.
Qed.

(** * Hotspot part: shared concrete values *)

(** rule 1 : concurrency threshold 2, value 9 limited to 1; the value is the attachment with key 7 if
    present, else the last positional parameter (index -1).
    rule 2 : concurrency threshold 1, value 5 allowed 3, value 4 allowed 2; first positional parameter. *)
Definition w05_r1 : hrule := mkHR 1 HConc 2 0 0 0 (-1) 7 [(9, 1)].
Definition w05_r2 : hrule := mkHR 2 HConc 1 0 0 0 0 0 [(5, 3); (4, 2)].

Definition w05_hops : list hcmd :=
  [HB 1 (Some [5]) None 1; HB 2 (Some [4; 5]) None 3; HB 3 (Some [5]) None 1; HB 4 (Some [9]) None 1;
   HB 5 (Some [1; 9]) None 1; HA 100; HX 1; HB 6 (Some [5]) None 1; HB 7 None None 1;
   HB 8 (Some [2]) (Some [(7, 9)]) 1; HX 42; HB 9 (Some [4; 6]) None 1; HB 10 (Some [9; 6]) None 1;
   HB 11 (Some [3; 6]) None 1; HB 12 (Some [8; 6]) None 1].

Example w05_hot_history :
  hrun (mkHW 1000 [hctl0 w05_r1] []) w05_hops =
  [HOAdmit 1000; HOAdmit 1000; HOBlock 1 3 1000; HOAdmit 1000; HOBlock 1 2 1000; HOTick; HOExited;
   HOAdmit 1100; HOAdmit 1100; HOBlock 1 2 1100; HONoEntry; HOAdmit 1100; HOAdmit 1100; HOBlock 1 3 1100;
   HOBlock 1 3 1100].
Proof. vm_compute. reflexivity. Qed.

(** * C05_hotspot_exact *)
Example C05_hotspot_exact_premises_hold :
  exists r (base : N) (ops : list hcmd), h_kind r = HConc /\ r = w05_r1 /\ base = 1000 /\ ops = w05_hops.
Proof. exists w05_r1, 1000, w05_hops. repeat split; reflexivity. Qed.

Example C05_hotspot_exact_instance :
  ok_c05h w05_r1 [] w05_hops (hrun (mkHW 1000 [hctl0 w05_r1] []) w05_hops) = true.
Proof. apply (C05_hotspot_exact w05_r1 1000 w05_hops). reflexivity. Qed.

(** * C05_hotspot_cap *)
Example C05_hotspot_cap_premises_hold :
  exists r (base : N) (ops : list hcmd) (v : N), h_kind r = HConc /\ r = w05_r1 /\ base = 1000 /\ ops = w05_hops /\ v = 5.
Proof. exists w05_r1, 1000, w05_hops, 5. repeat split; reflexivity. Qed.

Example C05_hotspot_cap_instance :
  count_open w05_r1 5 (open_after [] w05_hops (hrun (mkHW 1000 [hctl0 w05_r1] []) w05_hops)) <= thr_of w05_r1 5.
Proof. apply (C05_hotspot_cap w05_r1 1000 w05_hops 5). reflexivity. Qed.

(** the numbers in that instance: two entries with value 5 are open, the bound is 2;
    value 9 has one open entry and the override 1 *)
Example w05_hot_cap_values :
  count_open w05_r1 5 (open_after [] w05_hops (hrun (mkHW 1000 [hctl0 w05_r1] []) w05_hops)) = 2 /\
  thr_of w05_r1 5 = 2 /\
  count_open w05_r1 9 (open_after [] w05_hops (hrun (mkHW 1000 [hctl0 w05_r1] []) w05_hops)) = 1 /\
  thr_of w05_r1 9 = 1.
Proof. vm_compute. repeat split; reflexivity. Qed.

(** * C05_hotspot_exact_multi *)
Example w05_hot_history_multi :
  hrun (mkHW 1000 (map hctl0 [w05_r1; w05_r2]) []) w05_hops =
  [HOAdmit 1000; HOAdmit 1000; HOBlock 1 3 1000; HOAdmit 1000; HOBlock 1 2 1000; HOTick; HOExited;
   HOAdmit 1100; HOAdmit 1100; HOBlock 1 2 1100; HONoEntry; HOAdmit 1100; HOBlock 2 2 1100; HOAdmit 1100;
   HOBlock 1 3 1100].
Proof. vm_compute. reflexivity. Qed.

Example C05_hotspot_exact_multi_premises_hold :
  exists rs (base : N) (ops : list hcmd),
    Forall (fun r => h_kind r = HConc) rs /\ rs = [w05_r1; w05_r2] /\ base = 1000 /\ ops = w05_hops.
Proof. exists [w05_r1; w05_r2], 1000, w05_hops. split; [repeat constructor|repeat split; reflexivity]. Qed.

Example C05_hotspot_exact_multi_instance :
  ok_c05h_multi [w05_r1; w05_r2] [] w05_hops (hrun (mkHW 1000 (map hctl0 [w05_r1; w05_r2]) []) w05_hops) = true.
Proof. apply (C05_hotspot_exact_multi [w05_r1; w05_r2] 1000 w05_hops). repeat constructor. Qed.
