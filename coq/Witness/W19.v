(** W19 — non-vacuity witnesses for Props/C19.v.

    Unconditional: none (every theorem of Props/C19.v has at least one premise).
    With premises:
      C19_index_points_at_seconds   (writer_new = Some w0; names without line feed)
      C19_retention                 (writer_new = Some w0)
      C19_torn_tail                 (names without line feed)
      C19_lines_parse_back          (item_wf i)
      C19_find_by_time_exact        (good_dir fs)
      C19_written_directory_is_good (writer_new = Some w0; ws_ok ws; every file shorter than 2^64 bytes)
      C19_search_after_writes       (same three)

    One history serves all writer theorems: a writer with a 200-byte roll-over limit and at most 3 files; ten writes
    over nine seconds, three resources (one name containing the field separator), one write in the past (dropped),
    several seconds per file; the log rolls over three times and the oldest file is removed by retention.  The
    directory it leaves behind is given explicitly as abstract files ([w19_fs]) and is shown to be (a) what the
    writer model produces and (b) a [good_dir]; the search instance reads across two files. *)
From SV Require Import Model.Base Model.MetricLine Model.MetricLog Spec.C19Inv Spec.C19Search Spec.C19CrashPoint
  Proofs.C19Proofs Proofs.C19SearchProofs Proofs.C19GoodProofs Props.C19.
Open Scope N_scope.

Definition w19_ia : mitem := mkMI [97; 124; 98] 3 0 5 0 7 1 20 0 4.      (* "a|b" *)
Definition w19_ib : mitem := mkMI [99; 100] 0 0 12 3 9 0 35 0 2.         (* "cd"  *)
Definition w19_ic : mitem := mkMI [101] 1 0 1 1 1 0 2 0 1.               (* "e"   *)

Definition w19_now : N := 1700000000000.
Definition w19_ws : list (N * list mitem) :=
  [ (1700000000123, [w19_ia; w19_ib]); (1700000000900, [w19_ic]); (1700000001500, [w19_ia; w19_ic]);
    (1700000003000, [w19_ib]); (1700000002000, [w19_ia]); (1700000004100, [w19_ia; w19_ib; w19_ic]);
    (1700000005100, [w19_ic]); (1700000006000, [w19_ib; w19_ia]); (1700000007000, [w19_ia; w19_ib; w19_ic]);
    (1700000008000, [w19_ic]) ].

Definition w19_w0 : mlw := mkMLW [mkMF 19675 0 [] []] (Some (19675, 0)) 1700000000 200 3.
Lemma w19_new : writer_new w19_now 200 3 = Some w19_w0.
Proof. vm_compute. reflexivity. Qed.

(** the directory left behind: files .1, .2, .3 of day 19675 (file .0 was removed by retention) *)
Definition w19_f1 : afile :=
  mkAF 19675 1
    [with_ts 1700000003000 w19_ib; with_ts 1700000004100 w19_ia; with_ts 1700000004100 w19_ib;
     with_ts 1700000004100 w19_ic; with_ts 1700000005100 w19_ic]
    [(1700000003, 0); (1700000004, 44); (1700000005, 173)].
Definition w19_f2 : afile :=
  mkAF 19675 2
    [with_ts 1700000006000 w19_ib; with_ts 1700000006000 w19_ia; with_ts 1700000007000 w19_ia;
     with_ts 1700000007000 w19_ib; with_ts 1700000007000 w19_ic]
    [(1700000006, 0); (1700000007, 88)].
Definition w19_f3 : afile := mkAF 19675 3 [with_ts 1700000008000 w19_ic] [(1700000008, 0)].
Definition w19_fs : list afile := [w19_f1; w19_f2; w19_f3].

Lemma w19_dir_is : w_dir (after_writes w19_w0 w19_ws) = map conc w19_fs.
Proof. vm_compute. reflexivity. Qed.

(** tactics for the concrete side conditions *)
Ltac w19_le := vm_compute; discriminate.
Ltac w19_name := unfold name_ok; simpl; intros H; repeat (destruct H as [H|H]; [discriminate H|]); exact H.
Ltac w19_wf :=
  unfold item_wf; simpl;
  repeat (match goal with |- _ /\ _ => split end); try w19_le; repeat (constructor; try w19_le).
Ltac w19_entry k :=
  match goal with
  | |- entry_ok ?items _ =>
      exists (firstn k items), (skipn k items);
      split; [reflexivity|]; split; [vm_compute; reflexivity|];
      split; [repeat constructor | vm_compute; reflexivity]
  end.

Lemma w19_names : Forall (fun x : N * list mitem => Forall name_ok (snd x)) w19_ws.
Proof. repeat (constructor; [repeat (constructor; [w19_name|]); constructor|]). constructor. Qed.

Lemma w19_ws_ok : ws_ok w19_ws.
Proof.
  unfold ws_ok, w19_ws.
  repeat (constructor; [split; [w19_le|]; repeat (constructor; [split; [w19_wf|w19_name]|]); constructor|]).
  constructor.
Qed.

Lemma w19_sizes : Forall (fun f => N.of_nat (length (f_log f)) < U64) (w_dir (after_writes w19_w0 w19_ws)).
Proof. rewrite w19_dir_is. repeat constructor. Qed.

Lemma w19_good : good_dir w19_fs.
Proof.
  unfold good_dir. split; [vm_compute; reflexivity|]. split.
  { constructor; [split; [|simpl; repeat split]|].
    { constructor; [w19_entry 0%nat|]. constructor; [w19_entry 1%nat|]. constructor; [w19_entry 4%nat|]. constructor. }
    constructor; [split; [|simpl; repeat split]|].
    { constructor; [w19_entry 0%nat|]. constructor; [w19_entry 2%nat|]. constructor. }
    constructor; [split; [|simpl; exact I]|constructor].
    constructor; [w19_entry 0%nat|]. constructor. }
  split.
  { repeat (constructor; [repeat (constructor; [split; [w19_wf|w19_name]|]); constructor|]). constructor. }
  split.
  { vm_compute. repeat split; discriminate. }
  repeat (constructor; [repeat (constructor; [split; reflexivity|]); constructor|]). constructor.
Qed.

(** ---- C19_index_points_at_seconds ---- *)
Example C19_index_points_at_seconds_premises_hold : exists now max_size max_files w0 (ws : list (N * list mitem)),
  writer_new now max_size max_files = Some w0 /\ Forall (fun x => Forall name_ok (snd x)) ws.
Proof. exists w19_now, 200, 3, w19_w0, w19_ws. split; [exact w19_new|exact w19_names]. Qed.

Example C19_index_points_at_seconds_instance : Forall file_ok (w_dir (after_writes w19_w0 w19_ws)).
Proof. exact (C19_index_points_at_seconds w19_now 200 3 w19_w0 w19_ws w19_new w19_names). Qed.

(** not a statement about an empty directory or empty indexes: three files, six index entries in all *)
Example W19_directory_nontrivial :
  map (fun f => (f_no f, length (f_log f), length (f_idx f))) (w_dir (after_writes w19_w0 w19_ws)) =
  [(1, 214%nat, 48%nat); (2, 217%nat, 32%nat); (3, 41%nat, 16%nat)].
Proof. vm_compute. reflexivity. Qed.

(** ---- C19_retention ---- *)
Example C19_retention_premises_hold : exists now max_size max_files w0,
  writer_new now max_size max_files = Some w0.
Proof. exists w19_now, 200, 3, w19_w0. exact w19_new. Qed.

Example C19_retention_instance :
  N.of_nat (length (w_dir (after_writes w19_w0 w19_ws))) <= N.max 3 1.
Proof. exact (C19_retention w19_now 200 3 w19_w0 w19_ws w19_new). Qed.

(** the bound is reached, and four files were created in all (the oldest, .0, is gone) *)
Example W19_retention_tight :
  length (w_dir (after_writes w19_w0 w19_ws)) = 3%nat /\
  map f_no (w_dir (after_writes w19_w0 (firstn 7 w19_ws))) = [0; 1; 2] /\
  map f_no (w_dir (after_writes w19_w0 w19_ws)) = [1; 2; 3].
Proof. vm_compute. repeat split. Qed.

(** ---- C19_torn_tail ---- *)
Definition w19_items : list mitem :=
  [with_ts 1700000004100 w19_ia; with_ts 1700000004100 w19_ib; with_ts 1700000005100 w19_ic].

Lemma w19_items_names : Forall name_ok w19_items.
Proof. repeat (constructor; [w19_name|]). constructor. Qed.

Example C19_torn_tail_premises_hold : exists (items : list mitem) (k : nat), Forall name_ok items.
Proof. exists w19_items, 60%nat. exact w19_items_names. Qed.

(** cut at byte 60: in the middle of the second line (the first line and its line feed take 44 bytes) *)
Example C19_torn_tail_instance :
  exists n partial,
    split_lines (firstn 60 (log_of w19_items)) [] = map to_line (firstn n w19_items) ++ partial /\
    (length partial <= 1)%nat /\
    (length (log_of (firstn n w19_items)) <= 60)%nat.
Proof. exact (C19_torn_tail w19_items 60%nat w19_items_names). Qed.

Example W19_torn_tail_nontrivial :
  length (log_of w19_items) = 129%nat /\
  split_lines (firstn 60 (log_of w19_items)) [] =
    map to_line (firstn 1 w19_items) ++ [firstn 16 (to_line (with_ts 1700000004100 w19_ib))].
Proof. vm_compute. split; reflexivity. Qed.

(** ---- C19_lines_parse_back ---- *)
Definition w19_i : mitem := mkMI [97; 124; 98; 13] 6 1700000000123 18446744073709551615 0 7 1 20 3 4294967295.

Lemma w19_i_wf : item_wf w19_i.
Proof. w19_wf. Qed.

Example C19_lines_parse_back_premises_hold : exists i, item_wf i.
Proof. exists w19_i. exact w19_i_wf. Qed.

Example C19_lines_parse_back_instance : from_line (to_line w19_i) = Some (norm w19_i).
Proof. exact (C19_lines_parse_back w19_i w19_i_wf). Qed.

Example W19_norm_nontrivial : norm w19_i <> w19_i.
Proof. vm_compute. discriminate. Qed.

(** ---- C19_find_by_time_exact ---- *)
Example C19_find_by_time_exact_premises_hold : exists fs : list afile, good_dir fs.
Proof. exists w19_fs. exact w19_good. Qed.

(** search for resource "cd" from second ...004 (inside file .1) to second ...007 (inside file .2) *)
Example C19_find_by_time_exact_instance :
  find_by_time (map conc w19_fs) 1700000004000 1700000007999 [99; 100] =
  expected_by_time w19_fs (1700000004000 / 1000) (1700000007999 / 1000) [99; 100].
Proof. exact (C19_find_by_time_exact w19_fs 1700000004000 1700000007999 [99; 100] w19_good). Qed.

Example W19_search_nontrivial :
  map mi_ts (find_by_time (map conc w19_fs) 1700000004000 1700000007999 [99; 100]) =
    [1700000004100; 1700000006000; 1700000007000] /\
  length (find_by_time (map conc w19_fs) 1700000004000 1700000007999 []) = 9%nat.
Proof. vm_compute. split; reflexivity. Qed.

(** ---- C19_written_directory_is_good ---- *)
Example C19_written_directory_is_good_premises_hold : exists now max_size max_files w0 (ws : list (N * list mitem)),
  writer_new now max_size max_files = Some w0 /\ ws_ok ws /\
  Forall (fun f => N.of_nat (length (f_log f)) < U64) (w_dir (after_writes w0 ws)).
Proof. exists w19_now, 200, 3, w19_w0, w19_ws. split; [exact w19_new|]. split; [exact w19_ws_ok|exact w19_sizes]. Qed.

Example C19_written_directory_is_good_instance :
  exists fs, good_dir fs /\ w_dir (after_writes w19_w0 w19_ws) = map conc fs.
Proof. exact (C19_written_directory_is_good w19_now 200 3 w19_w0 w19_ws w19_new w19_ws_ok w19_sizes). Qed.

(** ---- C19_search_after_writes ---- *)
Example C19_search_after_writes_premises_hold : exists now max_size max_files w0 (ws : list (N * list mitem)),
  writer_new now max_size max_files = Some w0 /\ ws_ok ws /\
  Forall (fun f => N.of_nat (length (f_log f)) < U64) (w_dir (after_writes w0 ws)).
Proof. exact C19_written_directory_is_good_premises_hold. Qed.

Example C19_search_after_writes_instance :
  exists fs, good_dir fs /\ w_dir (after_writes w19_w0 w19_ws) = map conc fs /\
    forall begin_ms end_ms res,
      find_by_time (w_dir (after_writes w19_w0 w19_ws)) begin_ms end_ms res =
      expected_by_time fs (begin_ms / 1000) (end_ms / 1000) res.
Proof. exact (C19_search_after_writes w19_now 200 3 w19_w0 w19_ws w19_new w19_ws_ok w19_sizes). Qed.
