(** Non-vacuity witnesses for Props/C17.v.

    Unconditional theorems: C17_unservable_rejected (an iff), C17_same_on_every_thread.

    The single premise of the two conditional theorems is [cfg_check c = true].  Witness: a NON-default
    configuration, ring 30 x 200 ms (interval 6000 ms) with a metric window 3 x 400 ms (interval 1200 ms): each
    window bucket spans two ring buckets and the ring interval is five window intervals.  The default
    configuration (20 x 500 / 2 x 500) is a second witness.  For contrast, a configuration that validation
    rejects (window bucket 500 ms not a multiple of the ring bucket 200 ms) is shown to fail the premise and
    to make node construction panic, so the premise is what separates the two cases. *)
From SV Require Import Model.Base Model.LeapArray Model.World Model.Config Proofs.WorldProofs Proofs.C17Proofs Props.C17.
Open Scope N_scope.

Definition c17 : stat_cfg := mkSC 30 6000 3 1200.
Definition c17_bad : stat_cfg := mkSC 30 6000 3 1500.

(** ** C17_check_implies_usable *)
Example C17_check_implies_usable_premises_hold : exists c, cfg_check c = true.
Proof. exists c17. vm_compute. reflexivity. Qed.

Example C17_check_implies_usable_instance :
  exists g, node_new c17 = Some (g, mkW 3 1200) /\ sc g = 30 /\ iv g = 6000 /\ geom_ok (mkCfg g 3 1200).
Proof. apply (C17_check_implies_usable c17). vm_compute. reflexivity. Qed.

(** the geometry the theorem speaks of, computed: 30 buckets of 200 ms *)
Example C17_check_implies_usable_computed : node_new c17 = Some (mkG 30 200, mkW 3 1200).
Proof. vm_compute. reflexivity. Qed.

Example C17_check_implies_usable_instance_default :
  exists g, node_new default_stat_cfg = Some (g, mkW 2 1000) /\ sc g = 20 /\ iv g = 10000 /\ geom_ok (mkCfg g 2 1000).
Proof. apply (C17_check_implies_usable default_stat_cfg). vm_compute. reflexivity. Qed.

(** ** C17_accepted_never_panics *)
Example C17_accepted_never_panics_premises_hold : exists c, cfg_check c = true.
Proof. exists c17. vm_compute. reflexivity. Qed.

Example C17_accepted_never_panics_instance : node_new c17 <> None.
Proof. apply (C17_accepted_never_panics c17). vm_compute. reflexivity. Qed.

(** the premise is not always true, and where it fails the conclusion fails too *)
Example C17_premise_discriminates : cfg_check c17_bad = false /\ node_new c17_bad = None.
Proof. split; vm_compute; reflexivity. Qed.
