(** Non-vacuity witnesses for Props/C09.v.

    Unconditional theorems: none (both theorems of Props/C09.v have premises; C09_example is a closed example).

    C09_decision_table: default configuration (ring 20 x 500 ms, metric window 2 x 500 ms), four system rules
    (QPS >= 3, concurrency >= 4, load > 2 under BBR, CPU > 0 without BBR) and a history of 22 commands in which
    EVERY rule trips once, inbound entries are admitted in between, an outbound entry is admitted, the clock
    advances twice (the window slides), entries exit (one unknown id) and the load / CPU readings change;
    one inbound entry is admitted although the load is above its threshold because the BBR estimate
    still has capacity.

    C09_max_single_bucket_exact: the C02 ring (4 x 250 ms, window 2 x 250 ms) with recycled buckets and
    several Complete events per bucket. *)
From SV Require Import Model.Base Model.F64 Model.LeapArray Model.World Model.System
  Spec.C02Spec Spec.WorldSpec Spec.C09Spec Proofs.LeapArrayProofs Proofs.C02Proofs Proofs.WorldProofs
  Proofs.C09Proofs Props.C09.
Open Scope N_scope.

(** ** C09_decision_table *)
Definition rs09 : list srule :=
  [mkSR 1 MQps false (f64_of_Z 3); mkSR 2 MConc false (f64_of_Z 4);
   mkSR 3 MLoad true (f64_of_Z 2); mkSR 4 MCpu false (f64_of_Z 0)].
Definition ops09 : list scmd :=
  [SB 1 1 true; SB 2 1 true; SB 3 1 true;
   SB 4 1 true;                            (* QPS = 3.0 : rule 1 trips *)
   SB 5 1 false;                           (* outbound: admitted regardless *)
   SA 1500; SB 6 1 true;
   SB 14 1 true;                           (* 4 in flight : rule 2 trips *)
   SX 1; SX 2; SX 9;                       (* two exits (rt 1500), one unknown id *)
   SLoad (f64_of_Z 5);
   SB 7 1 true;                            (* load 5 > 2 but BBR estimate 6 > 2 in flight : admitted *)
   SA 2000;
   SB 8 1 true;                            (* completions slid out: estimate 0 < 3 in flight : rule 3 trips *)
   SLoad (f64_of_Z 1); SX 3; SCpu (f64_of_Z 1);
   SB 11 2 true;                           (* cpu 1 > 0 : rule 4 trips *)
   SX 5; SCpu (f64_of_Z 0); SB 12 2 true].
Definition base09 : N := 20000.
Definition f0 : f64 := f64_of_Z 0.

Example C09_decision_table_premises_hold :
  exists (c : cfg) (base : N), geom_ok c /\ iv (c_total c) <= base.
Proof. exists default_cfg, base09. split; [exact default_cfg_ok|discriminate]. Qed.

Example C09_decision_table_instance :
  ok_c09 default_cfg rs09 (mkSG base09 [] 0 f0 f0 []) ops09
         (srun (mkSW default_cfg base09 (fresh_node default_cfg) f0 f0 rs09 []) ops09) = true.
Proof. apply (C09_decision_table default_cfg rs09 base09 f0 f0 ops09); [exact default_cfg_ok|discriminate]. Qed.

(** what the model answered on this history (blocks rendered as (rule, bits of the value)):
    admissions and one block per rule with values 3.0, 4.0, 5.0, 1.0 *)
Definition obs_code (o : sobs) : N * Z :=
  match o with
  | SOAdmit => (1, 0%Z) | SOExited => (2, 0%Z) | SONoEntry => (3, 0%Z) | SOTick => (4, 0%Z)
  | SOBlock r v => (10 + r, fbits v)
  end.
Example C09_decision_table_history_is_interesting :
  map obs_code (srun (mkSW default_cfg base09 (fresh_node default_cfg) f0 f0 rs09 []) ops09) =
  [(1, 0%Z); (1, 0%Z); (1, 0%Z); (11, fbits (f64_of_Z 3)); (1, 0%Z); (4, 0%Z); (1, 0%Z);
   (12, fbits (f64_of_Z 4)); (2, 0%Z); (2, 0%Z); (3, 0%Z); (4, 0%Z); (1, 0%Z); (4, 0%Z);
   (13, fbits (f64_of_Z 5)); (4, 0%Z); (2, 0%Z); (4, 0%Z); (14, fbits (f64_of_Z 1)); (2, 0%Z); (4, 0%Z); (1, 0%Z)].
Proof. vm_compute. reflexivity. Qed.

(** ** C09_max_single_bucket_exact *)
Definition g09 : geom := mkG 4 250.
Definition w09 : win := mkW 2 500.
Definition h09 : list ev_t :=
  [ (1000, WAdd Complete 9); (1100, WAdd Rt 40); (1300, WAdd Pass 2); (1600, WAdd Complete 7);
    (2100, WAdd Complete 5);                                                      (* recycles slot 0 *)
    (2300, WAdd Pass 4); (2300, WAdd Complete 1); (2400, WAdd Complete 2); (2400, WConc 3);  (* recycles slot 1 *)
    (2600, WAdd Pass 1); (2600, WAdd Complete 2); (2650, WAdd Rt 50);                 (* recycles slot 2 *)
    (2700, WAdd Block 2) ].
Definition s09 : list slot :=
  [ (2000, mkB 0 0 5 0 0 MAX_RT 0); (2250, mkB 4 0 3 0 0 MAX_RT 3);
    (2500, mkB 1 2 2 0 50 50 0);    (0, bucket0) ].

Lemma pre09 : read_pre g09 2 500 w09 h09 s09 2700.
Proof.
  unfold read_pre. split; [reflexivity|]. split; [reflexivity|].
  split; [unfold wf_hist; simpl; repeat split; discriminate|].
  split; [|split; [discriminate|vm_compute; reflexivity]].
  intros e Hin. simpl in Hin.
  repeat (destruct Hin as [<-|Hin]; [discriminate|]). destruct Hin.
Qed.

Example C09_max_single_bucket_exact_premises_hold :
  exists g wsc wiv w h slots now, read_pre g wsc wiv w h slots now.
Proof. exists g09, 2, 500, w09, h09, s09, 2700. exact pre09. Qed.

(** window at 2700 = buckets {2250, 2500}: Complete 1+2 = 3 vs 2 (the 9, 7 and 5 are outside), Pass 4 vs 1 *)
Example C09_max_single_bucket_exact_instance :
  win_max_single g09 w09 s09 2700 Complete = ROk 3 /\ win_max_single g09 w09 s09 2700 Pass = ROk 4.
Proof.
  split; rewrite (C09_max_single_bucket_exact g09 2 500 w09 h09 s09 2700 _ pre09); vm_compute; reflexivity.
Qed.
