(** Non-vacuity witnesses for Props/C20.v.

    Unconditional theorem: C20_contract.

    C20_release_on_every_path has one premise: no request of the list drops its future
    ([forallb (fun q => negb (q_drop q)) l = true]); the run starts with nothing in flight (k = 0 is fixed in
    the statement).  Witness: six requests covering all four inner outcomes (ready Ok, ready Err, pending-then-Ok,
    pending-then-Err, twice for two of them), none dropped.

    NOTE (restriction, not vacuity): the model is sequential — a request completes before the next one starts —
    so with nothing dropped and a start at 0 in flight, every request sees 0 in flight.  Hence under this premise
    the requests are EITHER all admitted (thr >= 1) OR all rejected (thr = 0); a list in which some requests are
    admitted and others rejected cannot satisfy the premise (a rejection with thr >= 1 needs a leaked admission,
    i.e. a dropped future, see C20_example in Props/C20.v).  Both regimes are witnessed below:
      thr = 2, fallback responding : all six admitted, the inner service is called each time;
      thr = 0, fallback responding : all six rejected with the fallback response, inner service never called;
      thr = 0, no fallback         : all six rejected with an error.
    The last example shows the premise is needed: with one dropped pending future the conclusion is false. *)
From SV Require Import Model.Base Model.Tower Spec.C20Spec Proofs.C20Proofs Props.C20.
Open Scope N_scope.

Definition l20 : list treq :=
  [mkQ ReadyOk false; mkQ PendErr false; mkQ ReadyErr false; mkQ PendOk false; mkQ PendErr false; mkQ ReadyOk false].

Example C20_release_on_every_path_premises_hold :
  exists (l : list treq), forallb (fun q => negb (q_drop q)) l = true.
Proof. exists l20. vm_compute. reflexivity. Qed.

(** all admitted (thr = 2, fallback 1) *)
Example C20_release_on_every_path_instance :
  forallb (fun o => o_inflight o =? 0) (trun_tower 2 1 0 l20) = true.
Proof. apply (C20_release_on_every_path 2 1 l20). vm_compute. reflexivity. Qed.

Example C20_release_on_every_path_run_admitted :
  trun_tower 2 1 0 l20 =
  [mkTO 1 TROkInner 0 1; mkTO 1 TRErr 0 3; mkTO 1 TRErr 0 1; mkTO 1 TROkInner 0 3; mkTO 1 TRErr 0 3; mkTO 1 TROkInner 0 1].
Proof. vm_compute. reflexivity. Qed.

(** all rejected (thr = 0): with a responding fallback, and without fallback *)
Example C20_release_on_every_path_instance_rejected :
  forallb (fun o => o_inflight o =? 0) (trun_tower 0 1 0 l20) = true /\
  forallb (fun o => o_inflight o =? 0) (trun_tower 0 0 0 l20) = true.
Proof.
  split; [apply (C20_release_on_every_path 0 1 l20)|apply (C20_release_on_every_path 0 0 l20)]; vm_compute; reflexivity.
Qed.

Example C20_release_on_every_path_run_rejected :
  trun_tower 0 1 0 l20 = repeat (mkTO 0 TROkFallback 0 0) 6 /\ trun_tower 0 0 0 l20 = repeat (mkTO 0 TRErr 0 0) 6.
Proof. split; vm_compute; reflexivity. Qed.

(** the premise is needed: one dropped pending future and the conclusion fails (and the next request at
    thr = 1 is rejected) *)
Example C20_release_needs_no_drop :
  let l := [mkQ ReadyOk false; mkQ PendOk true; mkQ ReadyOk false] in
  forallb (fun q => negb (q_drop q)) l = false /\
  forallb (fun o => o_inflight o =? 0) (trun_tower 1 1 0 l) = false /\
  trun_tower 1 1 0 l = [mkTO 1 TROkInner 0 1; mkTO 1 TRDropped 1 1; mkTO 0 TROkFallback 1 0].
Proof. repeat split; vm_compute; reflexivity. Qed.
