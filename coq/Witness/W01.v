(** Non-vacuity witnesses for Props/C01.v.

    Unconditional theorems: none ([C01_example] is a closed computation).

    Theorems with premises, each with a [_premises_hold] and an [_instance] example below:
      C01_admit_iff_fits, C01_generated_controllers_ok.

    Remark on [flow_ok c base rules] (= every controller of every resource satisfies [fctl_rel c [] base]):
    it does not mention the threshold at all, so fractional, infinite and NaN thresholds are allowed; for a
    statistic on the default metric it is [True]; for a window over the 10 s ring it asks that the window
    is one [win_new] accepts; for a private ring it asks that the ring is the fresh ring of its geometry
    (reached by the empty history), that its window is accepted and that [iv g <= base], i.e. the start time
    is at least the rule's statistic interval.  All generated controllers ([stat_for]) meet it by
    [C01_generated_controllers_ok] as soon as [interval <= base].  The witnesses below use six rules on
    three resources, three of them on private rings, with thresholds 2.5, 3, +inf, NaN, 1 and -inf. *)
From SV Require Import Model.Base Model.LeapArray Model.World Spec.WorldSpec Spec.C01Spec
  Proofs.WorldProofs Proofs.C05Proofs Proofs.C01Proofs Proofs.C04Proofs.
From SV Require Import Props.C01.
From Coq Require Import Lia.
Open Scope N_scope.

(** * Shared concrete values *)

(** a second, non-default configuration: 6 buckets of 250 ms, default metric 3 samples over 1.5 s *)
Definition w01_cfg2 : cfg := mkCfg (mkG 6 250) 3 1500.
Lemma w01_cfg2_ok : geom_ok w01_cfg2.
Proof. repeat split; vm_compute; reflexivity. Qed.

(** Flow controllers as the rule manager generates them ([stat_for default_cfg interval]):
    resource 0 : rule 1, threshold 2.5, private 3 x 500 ms ring (interval 1500);
                 rule 2, threshold 3, window of 4 buckets over the 10 s ring (interval 2000);
                 rule 3, threshold +inf, default metric (interval 0);
                 rule 4, threshold NaN, private 1 x 700 ms ring (interval 700);
    resource 1 : rule 5, threshold 1, private 6 x 500 ms ring (interval 3000);
    resource 2 : rule 6, threshold -inf, default metric (interval 1000 = the default metric's). *)
Definition w01_fl (res : N) : list fctl :=
  if res =? 0 then [mkF 1 (TFin 5 (-1)) (stat_for default_cfg 1500); mkF 2 (TFin 3 0) (stat_for default_cfg 2000);
                    mkF 3 TPosInf (stat_for default_cfg 0); mkF 4 TNaN (stat_for default_cfg 700)]
  else if res =? 1 then [mkF 5 (TFin 1 0) (stat_for default_cfg 3000)]
  else if res =? 2 then [mkF 6 TNegInf (stat_for default_cfg 1000)] else [].

Example w01_fl_stats :
  map f_stat (w01_fl 0 ++ w01_fl 1 ++ w01_fl 2) =
  [SPrivate (mkG 3 500) (mkW 3 1500) (ring0 (mkG 3 500)); SReuse (mkW 4 2000); SDefault;
   SPrivate (mkG 1 700) (mkW 1 700) (ring0 (mkG 1 700));
   SPrivate (mkG 6 500) (mkW 6 3000) (ring0 (mkG 6 500)); SDefault].
Proof. vm_compute. reflexivity. Qed.

Definition w01_base : N := 600000.

(** admissions; rejections by rule 1 (private ring), by rule 2 (window over the node ring, while rule 1
    fits), by rule 5 and by rule 6 (-inf rejects even an empty batch); exits (one unknown id); clock
    advances after which earlier admissions leave the windows; a batch of 2 and a batch of 0; reads *)
Definition w01_ops : list cmd :=
  [WB 1 0 1 true None; WB 2 0 1 false None; WB 3 0 1 true None; WB 4 1 1 true None; WB 5 1 1 false None;
   WX 1; WR 0; WA 1500; WB 6 0 1 false None; WB 7 0 1 false None; WA 500; WB 8 0 1 false None; WB 9 0 2 false None;
   WX 99; WA 3000; WB 10 1 1 false None; WB 11 0 0 false None; WB 12 2 0 false None; WRI].

Example w01_history :
  run_typed (world0 default_cfg w01_base w01_fl (fun _ => [])) w01_ops =
  [ZAdmit; ZAdmit; ZBlock 1 1 2; ZAdmit; ZBlock 1 5 1; ZExited; ZRead 1 2 1 1 0; ZTick; ZAdmit; ZBlock 1 2 3;
   ZTick; ZAdmit; ZBlock 1 1 2; ZNoEntry; ZTick; ZAdmit; ZAdmit; ZBlock 1 6 0; ZRead 1 0 0 0 0].
Proof. vm_compute. reflexivity. Qed.

Lemma w01_fl_ok : flow_ok default_cfg w01_base w01_fl.
Proof.
  intros res. unfold w01_fl.
  destruct (res =? 0); [|destruct (res =? 1); [|destruct (res =? 2)]];
    repeat (apply Forall_cons;
            [apply C01_generated_controllers_ok; [exact default_cfg_ok|unfold w01_base; lia]|]); apply Forall_nil.
Qed.

(** the same under the second configuration (statistics generated for that configuration) *)
Definition w01_fl2 (res : N) : list fctl :=
  if res =? 0 then [mkF 1 (TFin 5 (-1)) (stat_for w01_cfg2 1000); mkF 2 (TFin 3 0) (stat_for w01_cfg2 0);
                    mkF 3 TPosInf (stat_for w01_cfg2 500); mkF 4 TNaN (stat_for w01_cfg2 700)]
  else if res =? 1 then [mkF 5 (TFin 1 0) (stat_for w01_cfg2 3000)]
  else if res =? 2 then [mkF 6 TNegInf (stat_for w01_cfg2 1500)] else [].

Example w01_fl2_stats :
  map f_stat (w01_fl2 0 ++ w01_fl2 1 ++ w01_fl2 2) =
  [SPrivate (mkG 4 250) (mkW 4 1000) (ring0 (mkG 4 250)); SDefault; SReuse (mkW 2 500);
   SPrivate (mkG 1 700) (mkW 1 700) (ring0 (mkG 1 700));
   SPrivate (mkG 1 3000) (mkW 1 3000) (ring0 (mkG 1 3000)); SDefault].
Proof. vm_compute. reflexivity. Qed.

Example w01_history2 :
  run_typed (world0 w01_cfg2 w01_base w01_fl2 (fun _ => [])) w01_ops =
  [ZAdmit; ZAdmit; ZBlock 1 1 2; ZAdmit; ZBlock 1 5 1; ZExited; ZRead 1 2 1 1 0; ZTick; ZAdmit; ZAdmit;
   ZTick; ZBlock 1 1 2; ZBlock 1 1 2; ZNoEntry; ZTick; ZAdmit; ZAdmit; ZBlock 1 6 0; ZRead 1 0 0 0 0].
Proof. vm_compute. reflexivity. Qed.

Lemma w01_fl2_ok : flow_ok w01_cfg2 w01_base w01_fl2.
Proof.
  intros res. unfold w01_fl2.
  destruct (res =? 0); [|destruct (res =? 1); [|destruct (res =? 2)]];
    repeat (apply Forall_cons;
            [apply C01_generated_controllers_ok; [exact w01_cfg2_ok|unfold w01_base; lia]|]); apply Forall_nil.
Qed.

(** * C01_admit_iff_fits *)
Example C01_admit_iff_fits_premises_hold :
  exists c base rules ops,
    geom_ok c /\ iv (c_total c) <= base /\ flow_ok c base rules /\ forallb no_extra ops = true /\
    (* the chosen values *)
    c = default_cfg /\ base = w01_base /\ rules 0 = w01_fl 0 /\ rules 1 = w01_fl 1 /\ rules 2 = w01_fl 2 /\
    ops = w01_ops.
Proof.
  exists default_cfg, w01_base, w01_fl, w01_ops.
  split; [exact default_cfg_ok|]. split; [vm_compute; discriminate|]. split; [exact w01_fl_ok|].
  split; [vm_compute; reflexivity|]. repeat split; reflexivity.
Qed.

Example C01_admit_iff_fits_instance :
  ok_c01 default_cfg w01_fl w01_base w01_ops (run_typed (world0 default_cfg w01_base w01_fl (fun _ => [])) w01_ops) = true.
Proof.
  apply (C01_admit_iff_fits default_cfg w01_base w01_fl w01_ops).
  - exact default_cfg_ok.
  - vm_compute; discriminate.
  - exact w01_fl_ok.
  - vm_compute; reflexivity.
Qed.

Example C01_admit_iff_fits_premises_hold_cfg2 :
  exists c base rules ops,
    geom_ok c /\ iv (c_total c) <= base /\ flow_ok c base rules /\ forallb no_extra ops = true /\
    c = w01_cfg2 /\ base = w01_base /\ rules 0 = w01_fl2 0 /\ rules 1 = w01_fl2 1 /\ ops = w01_ops.
Proof.
  exists w01_cfg2, w01_base, w01_fl2, w01_ops.
  split; [exact w01_cfg2_ok|]. split; [vm_compute; discriminate|]. split; [exact w01_fl2_ok|].
  split; [vm_compute; reflexivity|]. repeat split; reflexivity.
Qed.

Example C01_admit_iff_fits_instance_cfg2 :
  ok_c01 w01_cfg2 w01_fl2 w01_base w01_ops (run_typed (world0 w01_cfg2 w01_base w01_fl2 (fun _ => [])) w01_ops) = true.
Proof.
  apply (C01_admit_iff_fits w01_cfg2 w01_base w01_fl2 w01_ops).
  - exact w01_cfg2_ok.
  - vm_compute; discriminate.
  - exact w01_fl2_ok.
  - vm_compute; reflexivity.
Qed.

(** * C01_generated_controllers_ok : rule 7, threshold 2.5, statistic interval 1500 (a private ring),
    at a time of at least 1500 *)
Example C01_generated_controllers_ok_premises_hold :
  exists c interval now (rule : N) (t : thr),
    geom_ok c /\ interval <= now /\
    c = default_cfg /\ interval = 1500 /\ now = 1500 /\ rule = 7 /\ t = TFin 5 (-1).
Proof.
  exists default_cfg, 1500, 1500, 7, (TFin 5 (-1)).
  split; [exact default_cfg_ok|]. split; [lia|]. repeat split; reflexivity.
Qed.

Example C01_generated_controllers_ok_instance :
  fctl_rel default_cfg [] 1500 (mkF 7 (TFin 5 (-1)) (stat_for default_cfg 1500)).
Proof. apply (C01_generated_controllers_ok default_cfg 1500 1500 7 (TFin 5 (-1))); [exact default_cfg_ok|lia]. Qed.

(** what that instance says once [stat_for] is computed: the five conditions on the private ring *)
Example C01_generated_controllers_ok_instance_unfolded :
  let g := mkG 3 500 in let w := mkW 3 1500 in
  0 < bl g /\ 0 < sc g /\ win_new g (w_sc w) (w_iv w) = Some w /\ iv g <= 1500 /\
  ring_rel g (ring0 g) (passes []) 1500.
Proof. exact C01_generated_controllers_ok_instance. Qed.

(** a non-default configuration and a NaN threshold *)
Example C01_generated_controllers_ok_instance_cfg2 :
  fctl_rel w01_cfg2 [] 3000 (mkF 8 TNaN (stat_for w01_cfg2 3000)).
Proof. apply (C01_generated_controllers_ok w01_cfg2 3000 3000 8 TNaN); [exact w01_cfg2_ok|lia]. Qed.
