(** Non-vacuity witnesses for Props/C03.v.

    Unconditional theorems: none.  (Props/C03.v also has its own Example C03_example, one
    error-count breaker.)

    Theorem with premises:
      - C03_refines_state_machine  (1 premise [wf_rules rules base]: every rule's statistic interval
        is positive and not larger than the start time) — witnessed with three breakers on one
        resource, one per strategy, with different window geometries:
          rule 1  slow-request ratio, threshold 0.5, max rt 50 ms, min 2 requests, window 1000 ms / 2 buckets, retry 1000 ms
          rule 3  error count,        threshold 3,                min 1 request,  window 2000 ms / "0" buckets (= 1), retry 500 ms
          rule 2  error ratio,        threshold 0.5,              min 3 requests, window 3000 ms / 3 buckets, retry 2000 ms
        (consulted in this order), start time 5000, and a history of 50 commands in which every
        breaker opens, rejects, lets a probe through and closes; a probe is rejected by another rule
        (rule 1) and by a later breaker (rule 3), both returning to Open; two breakers re-open on a
        failed probe; an exit of an entry that was never admitted; entries completing out of order. *)
From SV Require Import Model.Base Model.F64 Model.LeapArray Model.Breaker Spec.C03Spec
  Proofs.RingClearProofs Proofs.C03Proofs Props.C03.
Open Scope N_scope.

(** 0.5 as binary64 (0x3FE0000000000000) *)
Definition w03_half : f64 := f64_of_bits 4602678819172646912.

Definition w03_r1 : brule := mkBR 1 SlowRatio 1000 2 1000 2 50 w03_half.
Definition w03_r2 : brule := mkBR 2 ErrRatio 2000 3 3000 3 0 w03_half.
Definition w03_r3 : brule := mkBR 3 ErrCount 500 1 2000 0 0 (f64_of_Z 3).
Definition w03_rules : list brule := [w03_r1; w03_r3; w03_r2].
Definition w03_base : N := 5000.

Definition w03_ops : list bcmd :=
  [BB 1 false; BA 100; BX 1 false;                (* a slow request: 1 of 1, below the minimum of 2 *)
   BB 2 false; BB 3 false; BA 10; BX 2 true;      (* 1 slow of 2: rule 1 opens *)
   BA 100; BX 3 false;
   BB 4 false;                                    (* rejected by rule 1 *)
   BA 400; BB 5 true;                             (* rejected by another rule, rule 1 still Open *)
   BA 500; BB 6 true;                             (* retry time reached: probe, rejected by another rule -> back to Open *)
   BB 7 false;                                    (* the probe *)
   BB 8 false;                                    (* Half-Open rejects *)
   BA 10; BX 7 true;                              (* fast probe: rule 1 closes; its error makes rule 2 open (2 of 4) *)
   BX 9 false;                                    (* exit without entry *)
   BB 10 false; BA 700; BB 11 false; BX 11 true;  (* rejected by rule 2 *)
   BA 1500; BB 12 false; BA 60; BX 12 false;      (* rule 2 probes and closes *)
   BA 2000; BB 13 false; BX 13 false; BB 14 false; BX 14 true;
   BB 15 false; BB 16 false; BX 16 true;          (* rule 2 opens again *)
   BA 5; BX 15 true;                              (* third error in the window: rule 3 opens *)
   BA 600; BB 17 false;                           (* rule 3 probes, rule 2 rejects: rule 3 back to Open *)
   BA 2000; BB 18 false; BA 20; BX 18 true;       (* both probe; the probe fails: both re-open *)
   BB 19 false;
   BA 2500; BB 20 false; BX 20 false;             (* both probe and close *)
   BB 21 false].

Example C03_refines_state_machine_premises_hold : exists rules base (ops : list bcmd),
  wf_rules rules base.
Proof.
  exists w03_rules, w03_base, w03_ops.
  intros r Hr. simpl in Hr.
  destruct Hr as [<-|[<-|[<-|[]]]]; vm_compute; split; (reflexivity || discriminate).
Qed.

Lemma w03_wf : wf_rules w03_rules w03_base.
Proof.
  intros r Hr. simpl in Hr.
  destruct Hr as [<-|[<-|[<-|[]]]]; vm_compute; split; (reflexivity || discriminate).
Qed.

(** the three window geometries differ *)
Example w03_geometries :
  map brule_geom w03_rules = [mkG 2 500; mkG 1 2000; mkG 3 1000].
Proof. vm_compute. reflexivity. Qed.

Example C03_refines_state_machine_instance :
  ok_c03 (map (fun r => (r, sm0)) w03_rules) w03_base [] w03_ops
         (brun (mkBW w03_base (map brk0 w03_rules) []) w03_ops) = true.
Proof. exact (C03_refines_state_machine w03_rules w03_base w03_ops w03_wf). Qed.

(** * What happens in this history *)

Definition w03_obs := brun (mkBW w03_base (map brk0 w03_rules) []) w03_ops.

Definition w03_trans_of (o : bobs) : list transition :=
  match o with BOAdmit t | BOBlock _ t | BOExited t => t | _ => [] end.

(** every transition announced, in order: each breaker goes Closed -> Open -> Half-Open -> Closed;
    rules 1 and 3 have a probe rolled back; rules 3 and 2 re-open on a failed probe *)
Example w03_transitions :
  flat_map (fun x => w03_trans_of (fst x)) w03_obs =
  [(1, Closed, Open); (1, Open, HalfOpen); (1, HalfOpen, Open); (1, Open, HalfOpen); (1, HalfOpen, Closed);
   (2, Closed, Open); (2, Open, HalfOpen); (2, HalfOpen, Closed);
   (2, Closed, Open); (3, Closed, Open);
   (3, Open, HalfOpen); (3, HalfOpen, Open);
   (3, Open, HalfOpen); (2, Open, HalfOpen); (3, HalfOpen, Open); (2, HalfOpen, Open);
   (3, Open, HalfOpen); (2, Open, HalfOpen); (3, HalfOpen, Closed); (2, HalfOpen, Closed)].
Proof. vm_compute. reflexivity. Qed.

(** admissions, rejections by a breaker (type 3), rejections by another rule (type 100), exits
    without entry *)
Example w03_counts :
  (length (filter (fun x => match fst x with BOAdmit _ => true | _ => false end) w03_obs) = 12 /\
   length (filter (fun x => match fst x with BOBlock 3 _ => true | _ => false end) w03_obs) = 6 /\
   length (filter (fun x => match fst x with BOBlock 100 _ => true | _ => false end) w03_obs) = 2 /\
   length (filter (fun x => match fst x with BONoEntry => true | _ => false end) w03_obs) = 2)%nat.
Proof. vm_compute. repeat split; reflexivity. Qed.

(** state and retry time of every breaker at the end *)
Example w03_final_states :
  snd (last w03_obs (BOTick, [])) = [(Closed, 6110); (Closed, 13505); (Closed, 15005)].
Proof. vm_compute. reflexivity. Qed.

(** the predicate is not trivially true: it rejects, for the same rules and history, the behaviour
    of a system whose slow-request breaker has a larger allowed response time (and so never opens) *)
Example w03_ok_c03_rejects :
  ok_c03 (map (fun r => (r, sm0)) w03_rules) w03_base [] w03_ops
         (brun (mkBW w03_base (map brk0 [mkBR 1 SlowRatio 1000 2 1000 2 500 w03_half; w03_r3; w03_r2]) []) w03_ops)
  = false.
Proof. vm_compute. reflexivity. Qed.
