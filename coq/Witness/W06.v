(** Non-vacuity witnesses for Props/C06.v.

    Unconditional theorems: C06_noninterference ([C06_example] is a closed computation).

    Theorems with premises, each with a [_premises_hold] and an [_instance] example below:
      C06_bucket_bound, C06_reject_only_if_insufficient, C06_step_refines_bucket. *)
From SV Require Import Model.Base Model.Hotspot Spec.C06Spec Proofs.C06Proofs.
From SV Require Import Props.C06.
From Coq Require Import Lia.
Open Scope N_scope.

(** * C06_bucket_bound : threshold 2, burst 1, duration 1 s; ten requests of one value over 4 s, with
    batches 1..4, several at the same millisecond, admissions and rejections of every kind (no token
    left within the duration; refill too small for the batch; batch larger than the bucket) and refills
    after more than one duration *)
Definition w06_l : list (N * N) :=
  [(5000, 2); (5000, 1); (5000, 1); (5400, 1); (6001, 2); (6001, 1); (7500, 3); (7500, 1); (9000, 4); (9000, 2)].

Example w06_decisions :
  tb_run 2 1 1000 None w06_l = [true; true; false; false; true; false; false; true; false; true].
Proof. vm_compute. reflexivity. Qed.

Example C06_bucket_bound_premises_hold :
  exists q b D l, 0 < D /\ nondecr_t (first_time l) l /\
                  q = 2 /\ b = 1 /\ D = 1000 /\ l = w06_l.
Proof.
  exists 2, 1, 1000, w06_l. split; [lia|]. split; [|repeat split; reflexivity].
  cbn. repeat split; lia.
Qed.

Example C06_bucket_bound_instance : bound_ok 2 1 1000 w06_l (tb_run 2 1 1000 None w06_l) = true.
Proof. apply (C06_bucket_bound 2 1 1000 w06_l); [lia|]. cbn. repeat split; lia. Qed.

(** the numbers in that instance: 8 tokens admitted in 4 s; the bound is 1000 * 8 <= 1000 * 3 + 2 * 4000 *)
Example w06_bound_values :
  admitted w06_l (tb_run 2 1 1000 None w06_l) = 8 /\ first_time w06_l = 5000 /\ last_time w06_l 5000 = 9000.
Proof. vm_compute. repeat split; reflexivity. Qed.

(** * C06_reject_only_if_insufficient *)

(** (a) within the duration, no token left *)
Example C06_reject_only_if_insufficient_premises_hold :
  exists q b D st now n st', tb_step q b D st now n = (st', false) /\
    q = 2 /\ b = 1 /\ D = 1000 /\ st = Some (5000, 0) /\ now = 5400 /\ n = 1.
Proof.
  exists 2, 1, 1000, (Some (5000, 0)), 5400, 1, (Some (5000, 0)).
  split; [vm_compute; reflexivity|repeat split; reflexivity].
Qed.

Example C06_reject_only_if_insufficient_instance :
  Some (5000, 0) = Some (5000, 0) /\
  (2 = 0 \/ 2 + 1 < 1 \/
   ((5400 - 5000 <= 1000 /\ 0 < 1) \/
    (1000 < 5400 - 5000 /\ (2 + 1 < 1 \/ (5400 - 5000) * 2 / 1000 + 0 < 1)))).
Proof. apply (C06_reject_only_if_insufficient 2 1 1000 (Some (5000, 0)) 5400 1 (Some (5000, 0))). vm_compute. reflexivity. Qed.

(** (b) after a refill of 1.2 durations (2 tokens) a batch of 3 still does not fit, although 3 <= q + b *)
Example C06_reject_only_if_insufficient_premises_hold_b :
  exists q b D st now n st', tb_step q b D st now n = (st', false) /\
    q = 2 /\ b = 1 /\ D = 1000 /\ st = Some (5000, 0) /\ now = 6200 /\ n = 3.
Proof.
  exists 2, 1, 1000, (Some (5000, 0)), 6200, 3, (Some (5000, 0)).
  split; [vm_compute; reflexivity|repeat split; reflexivity].
Qed.

Example C06_reject_only_if_insufficient_instance_b :
  Some (5000, 0) = Some (5000, 0) /\
  (2 = 0 \/ 2 + 1 < 3 \/
   ((6200 - 5000 <= 1000 /\ 0 < 3) \/
    (1000 < 6200 - 5000 /\ (2 + 1 < 3 \/ (6200 - 5000) * 2 / 1000 + 0 < 3)))).
Proof. apply (C06_reject_only_if_insufficient 2 1 1000 (Some (5000, 0)) 6200 3 (Some (5000, 0))). vm_compute. reflexivity. Qed.

(** (c) a fresh bucket and a batch larger than q + b *)
Example C06_reject_only_if_insufficient_premises_hold_c :
  exists q b D st now n st', tb_step q b D st now n = (st', false) /\
    q = 2 /\ b = 1 /\ D = 1000 /\ st = None /\ now = 9000 /\ n = 4.
Proof.
  exists 2, 1, 1000, None, 9000, 4, None.
  split; [vm_compute; reflexivity|repeat split; reflexivity].
Qed.

Example C06_reject_only_if_insufficient_instance_c :
  @None (N * N) = None /\ (2 = 0 \/ 2 + 1 < 4 \/ False).
Proof. apply (C06_reject_only_if_insufficient 2 1 1000 None 9000 4 None). vm_compute. reflexivity. Qed.

(** * C06_step_refines_bucket *)

(** the rule of [C06_example]: threshold 2 (value 7: 1), burst 1, duration 1 s *)
Definition w06_r : hrule := mkHR 1 HReject 2 1 1 0 0 0 [(7, 1)].

(** the controller after a request list *)
Fixpoint w06_after (c : hctl) (l : list req) : hctl :=
  match l with
  | [] => c
  | (now, v, n) :: tl => w06_after (fst (reject_check c v n now)) tl
  end.

Lemma w06_synced0 r : synced (hctl0 r).
Proof. intros v. split; reflexivity. Qed.

(** [synced] is kept by every step (this is the first conjunct of C06_step_refines_bucket itself) *)
Lemma w06_after_synced l : forall c, synced c -> synced (w06_after c l).
Proof.
  induction l as [|[[now v] n] tl IH]; intros c Hs; [exact Hs|].
  cbn [w06_after]. apply IH.
  pose proof (C06_step_refines_bucket c v n now Hs) as H.
  destruct (reject_check c v n now) as [c' r]. cbv zeta in H.
  destruct (tb_step (thr_of (hc_rule c) v) (h_burst (hc_rule c)) (h_dur (hc_rule c) * 1000) (st_of c v) now n).
  destruct H as [H _]. exact H.
Qed.

(** mixed traffic over the values 3 and 7 (four admissions, one rejection) *)
Definition w06_traffic : list req := [(5000, 3, 2); (5000, 7, 1); (5000, 3, 1); (5000, 3, 1); (5000, 7, 1)].

Example w06_traffic_results :
  ctl_run (hctl0 w06_r) w06_traffic = [HPass; HPass; HPass; HBlock 2; HPass].
Proof. vm_compute. reflexivity. Qed.

(** the controller reached after that traffic: both values known, no token left for either *)
Definition w06_c : hctl := w06_after (hctl0 w06_r) w06_traffic.

Example w06_c_state :
  st_of w06_c 3 = Some (5000, 0) /\ st_of w06_c 7 = Some (5000, 0) /\ st_of w06_c 4 = None.
Proof. vm_compute. repeat split; reflexivity. Qed.

Lemma w06_c_synced : synced w06_c.
Proof. apply w06_after_synced. apply w06_synced0. Qed.

Example C06_step_refines_bucket_premises_hold :
  exists c (v n now : N), synced c /\ c = w06_c /\ v = 3 /\ n = 2 /\ now = 6001.
Proof. exists w06_c, 3, 2, 6001. split; [exact w06_c_synced|repeat split; reflexivity]. Qed.

(** the theorem's conclusion at these values (an admission after a refill of one duration) *)
Example C06_step_refines_bucket_instance :
  let '(c', r) := reject_check w06_c 3 2 6001 in
  let q := thr_of (hc_rule w06_c) 3 in
  let '(st', d) := tb_step q (h_burst (hc_rule w06_c)) (h_dur (hc_rule w06_c) * 1000) (st_of w06_c 3) 6001 2 in
  synced c' /\ hc_rule c' = hc_rule w06_c /\ is_pass r = d /\ r <> HStuck /\ (forall ms, r <> HWait ms) /\
  st_of c' 3 = st' /\ (forall v', v' <> 3 -> st_of c' v' = st_of w06_c v').
Proof. exact (C06_step_refines_bucket w06_c 3 2 6001 w06_c_synced). Qed.

(** ... which, with both sides computed, reads: *)
Example C06_step_refines_bucket_instance_computed :
  let c' := fst (reject_check w06_c 3 2 6001) in
  snd (reject_check w06_c 3 2 6001) = HPass /\
  tb_step 2 1 1000 (Some (5000, 0)) 6001 2 = (Some (6001, 0), true) /\
  synced c' /\ st_of c' 3 = Some (6001, 0) /\ st_of c' 7 = st_of w06_c 7.
Proof.
  pose proof C06_step_refines_bucket_instance as H.
  destruct (reject_check w06_c 3 2 6001) as [c' r] eqn:E. cbv zeta in H.
  replace (tb_step (thr_of (hc_rule w06_c) 3) (h_burst (hc_rule w06_c)) (h_dur (hc_rule w06_c) * 1000)
                   (st_of w06_c 3) 6001 2) with (Some (6001, 0), true) in H by (vm_compute; reflexivity).
  destruct H as (Hs & _ & Hp & _ & _ & Hst & Hoth).
  cbn [fst snd]. split; [|split; [vm_compute; reflexivity|split; [exact Hs|split; [exact Hst|apply Hoth; discriminate]]]].
  destruct r; try discriminate Hp. reflexivity.
Qed.

(** a second instance on the same controller: a rejection (value 7 within the duration, no token left) *)
Example C06_step_refines_bucket_premises_hold_b :
  exists c (v n now : N), synced c /\ c = w06_c /\ v = 7 /\ n = 1 /\ now = 5400.
Proof. exists w06_c, 7, 1, 5400. split; [exact w06_c_synced|repeat split; reflexivity]. Qed.

Example C06_step_refines_bucket_instance_b :
  let '(c', r) := reject_check w06_c 7 1 5400 in
  let q := thr_of (hc_rule w06_c) 7 in
  let '(st', d) := tb_step q (h_burst (hc_rule w06_c)) (h_dur (hc_rule w06_c) * 1000) (st_of w06_c 7) 5400 1 in
  synced c' /\ hc_rule c' = hc_rule w06_c /\ is_pass r = d /\ r <> HStuck /\ (forall ms, r <> HWait ms) /\
  st_of c' 7 = st' /\ (forall v', v' <> 7 -> st_of c' v' = st_of w06_c v').
Proof. exact (C06_step_refines_bucket w06_c 7 1 5400 w06_c_synced). Qed.

Example w06_step_b_values :
  snd (reject_check w06_c 7 1 5400) = HBlock 1 /\ tb_step 1 1 1000 (Some (5000, 0)) 5400 1 = (Some (5000, 0), false).
Proof. vm_compute. split; reflexivity. Qed.
