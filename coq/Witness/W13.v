(** Non-vacuity witnesses for Props/C13.v.

    Unconditional theorems (no premise; nothing to witness):
      - C13_contract     (forall pre chk stat res, ... ok_C13 ... = true for the add_all chain)
      - C13_add_sorts    (forall added, is_chain_of added (add_all added))
    (Props/C13.v also has its own Example C13_example.)

    Theorems with premises:
      - C13_contract_any_sorted_chain  (3 premises [is_chain_of]) — witnessed with a chain that is an
        ascending arrangement of the added slots but NOT the one [add_all] builds: slots with equal
        order values stand in the other order, in all three phases.  Two equal-order check slots
        block with different types, so the chain's order decides the type of the error (the last
        blocking check wins): the witnessed chain yields another outcome than the add_all chain,
        and the theorem covers both.  A second instance is an admitted entry (with a waiting check).
      - C13_perm_test_sound  (1 premise [perm_b l1 l2 = true]) — witnessed with a six-element list
        containing a repeated element and a non-identity rearrangement of it. *)
From SV Require Import Model.Base Model.SlotChain Spec.C13Spec Proofs.C13Proofs Props.C13.
Open Scope N_scope.

(** * C13_perm_test_sound *)

Definition w13_l1 : list sl := [mkS 3 7; mkS 1 5; mkS 3 7; mkS 2 5; mkS 9 1; mkS 3 7].
Definition w13_l2 : list sl := [mkS 9 1; mkS 3 7; mkS 2 5; mkS 3 7; mkS 3 7; mkS 1 5].

Example C13_perm_test_sound_premises_hold : exists l1 l2, perm_b l1 l2 = true.
Proof. exists w13_l1, w13_l2. vm_compute. reflexivity. Qed.

Example w13_lists_differ : w13_l1 <> w13_l2 /\ count_sl (mkS 3 7) w13_l1 = 3%nat.
Proof. split; [vm_compute; discriminate | vm_compute; reflexivity]. Qed.

Example C13_perm_test_sound_instance : forall x, count_sl x w13_l1 = count_sl x w13_l2.
Proof. apply (C13_perm_test_sound w13_l1 w13_l2). vm_compute. reflexivity. Qed.

(** the test is not trivially true: it rejects a list with one occurrence less *)
Example w13_perm_b_rejects : perm_b w13_l1 (tl w13_l2 ++ [mkS 3 7]) = false /\ perm_b w13_l1 (tl w13_l2) = false.
Proof. vm_compute. split; reflexivity. Qed.

(** * C13_contract_any_sorted_chain *)

(** slots as added (any order) *)
Definition w13_pre  : list sl := [mkS 1 5; mkS 2 1; mkS 8 5].
Definition w13_chk  : list sl := [mkS 3 7; mkS 4 7; mkS 5 2; mkS 10 7].
Definition w13_stat : list sl := [mkS 6 9; mkS 7 3; mkS 11 9].

(** a sorted chain in which equal order values stand the other way round than add_all puts them *)
Definition w13_chain : chain :=
  mkChain [mkS 2 1; mkS 8 5; mkS 1 5]
          [mkS 5 2; mkS 10 7; mkS 4 7; mkS 3 7]
          [mkS 7 3; mkS 11 9; mkS 6 9].

Example w13_chain_is_not_add_all :
  add_all w13_pre = [mkS 2 1; mkS 1 5; mkS 8 5] /\
  add_all w13_chk = [mkS 5 2; mkS 3 7; mkS 4 7; mkS 10 7] /\
  add_all w13_stat = [mkS 7 3; mkS 6 9; mkS 11 9] /\
  ch_pre w13_chain <> add_all w13_pre /\ ch_chk w13_chain <> add_all w13_chk /\
  ch_stat w13_chain <> add_all w13_stat.
Proof. vm_compute. repeat split; try reflexivity; discriminate. Qed.

Lemma w13_is_chain added l : perm_b added l = true -> ascending l = true -> is_chain_of added l.
Proof. intros H1 H2. split; [exact (C13_perm_test_sound added l H1) | exact H2]. Qed.

(** results: checks 3 and 4 (equal order value 7) block with different types, 5 waits, 10 passes *)
Definition w13_res : N -> cres :=
  fun id => if id =? 3 then CBlocked 21 else if id =? 4 then CBlocked 11 else if id =? 5 then CWait 100 else CPass.

Example C13_contract_any_sorted_chain_premises_hold : exists pre chk stat c (res : N -> cres),
  is_chain_of pre (ch_pre c) /\ is_chain_of chk (ch_chk c) /\ is_chain_of stat (ch_stat c).
Proof.
  exists w13_pre, w13_chk, w13_stat, w13_chain, w13_res.
  repeat split; try (vm_compute; reflexivity);
    apply C13_perm_test_sound; vm_compute; reflexivity.
Qed.

(** what the witnessed chain does: blocked with type 21 (slot 3 comes last among the blocking ones);
    the add_all chain is blocked with type 11 *)
Example w13_run_value :
  build_and_exit w13_chain w13_res =
  (Some 21,
   [EPrep (mkS 2 1); EPrep (mkS 8 5); EPrep (mkS 1 5);
    ECheck (mkS 5 2); ECheck (mkS 10 7); ECheck (mkS 4 7); ECheck (mkS 3 7);
    EBlocked (mkS 7 3) 21; EBlocked (mkS 11 9) 21; EBlocked (mkS 6 9) 21], []) /\
  fst (fst (build_and_exit (mkChain (add_all w13_pre) (add_all w13_chk) (add_all w13_stat)) w13_res)) = Some 11.
Proof. vm_compute. split; reflexivity. Qed.

Example C13_contract_any_sorted_chain_instance :
  let '(r, tb, te) := build_and_exit w13_chain w13_res in
  ok_C13 w13_pre w13_chk w13_stat w13_res r tb te = true.
Proof.
  apply (C13_contract_any_sorted_chain w13_pre w13_chk w13_stat w13_chain w13_res);
    apply w13_is_chain; vm_compute; reflexivity.
Qed.

(** the same with the run spelled out *)
Example C13_contract_any_sorted_chain_instance_concrete :
  ok_C13 w13_pre w13_chk w13_stat w13_res (Some 21)
   [EPrep (mkS 2 1); EPrep (mkS 8 5); EPrep (mkS 1 5);
    ECheck (mkS 5 2); ECheck (mkS 10 7); ECheck (mkS 4 7); ECheck (mkS 3 7);
    EBlocked (mkS 7 3) 21; EBlocked (mkS 11 9) 21; EBlocked (mkS 6 9) 21] [] = true.
Proof.
  pose proof C13_contract_any_sorted_chain_instance as H.
  destruct w13_run_value as (E & _). rewrite E in H. exact H.
Qed.

(** second instance: an admitted entry (a waiting check, no blocking one), completions on exit *)
Definition w13_res_pass : N -> cres := fun id => if id =? 5 then CWait 100 else CPass.

Example w13_run_value_pass :
  build_and_exit w13_chain w13_res_pass =
  (None,
   [EPrep (mkS 2 1); EPrep (mkS 8 5); EPrep (mkS 1 5);
    ECheck (mkS 5 2); ECheck (mkS 10 7); ECheck (mkS 4 7); ECheck (mkS 3 7);
    EPass (mkS 7 3); EPass (mkS 11 9); EPass (mkS 6 9)],
   [EDone (mkS 7 3); EDone (mkS 11 9); EDone (mkS 6 9)]).
Proof. vm_compute. reflexivity. Qed.

Example C13_contract_any_sorted_chain_instance_admitted :
  let '(r, tb, te) := build_and_exit w13_chain w13_res_pass in
  ok_C13 w13_pre w13_chk w13_stat w13_res_pass r tb te = true.
Proof.
  apply (C13_contract_any_sorted_chain w13_pre w13_chk w13_stat w13_chain w13_res_pass);
    apply w13_is_chain; vm_compute; reflexivity.
Qed.

(** the predicate is not trivially true: it rejects the witnessed run with one notification dropped,
    with the error type of the other blocking check, and with a completion after a blocked entry *)
Example w13_ok_C13_rejects :
  ok_C13 w13_pre w13_chk w13_stat w13_res (Some 21)
   [EPrep (mkS 2 1); EPrep (mkS 8 5); EPrep (mkS 1 5);
    ECheck (mkS 5 2); ECheck (mkS 10 7); ECheck (mkS 4 7); ECheck (mkS 3 7);
    EBlocked (mkS 7 3) 21; EBlocked (mkS 11 9) 21] [] = false /\
  ok_C13 w13_pre w13_chk w13_stat w13_res (Some 5)
   [EPrep (mkS 2 1); EPrep (mkS 8 5); EPrep (mkS 1 5);
    ECheck (mkS 5 2); ECheck (mkS 10 7); ECheck (mkS 4 7); ECheck (mkS 3 7);
    EBlocked (mkS 7 3) 5; EBlocked (mkS 11 9) 5; EBlocked (mkS 6 9) 5] [] = false /\
  ok_C13 w13_pre w13_chk w13_stat w13_res (Some 21)
   [EPrep (mkS 2 1); EPrep (mkS 8 5); EPrep (mkS 1 5);
    ECheck (mkS 5 2); ECheck (mkS 10 7); ECheck (mkS 4 7); ECheck (mkS 3 7);
    EBlocked (mkS 7 3) 21; EBlocked (mkS 11 9) 21; EBlocked (mkS 6 9) 21] [EDone (mkS 7 3)] = false.
Proof. vm_compute. repeat split; reflexivity. Qed.
