(** Invariants of the World model relative to the ghost bookkeeping of Spec/WorldSpec.v. *)
From SV Require Import Model.Base Model.F64 Model.LeapArray Model.World
  Spec.C02Spec Spec.WorldSpec Spec.C01Spec Proofs.LeapArrayProofs Proofs.WindowProofs Proofs.C02Proofs.
From Coq Require Import ZifyBool ZifyN.
Open Scope N_scope.

(** * Appending writes to a reached ring *)

Lemma run_strict_app g s0 h1 h2 :
  run_strict g s0 (h1 ++ h2) =
  match run_strict g s0 h1 with Some s1 => run_strict g s1 h2 | None => None end.
Proof.
  revert s0; induction h1 as [|[t w] tl IH]; intros s0; simpl; auto.
  destruct (write g s0 t w); auto.
Qed.

Lemma nondecr_app p h1 h2 q :
  nondecr p h1 -> (forall e, In e h1 -> fst e <= q) -> p <= q -> nondecr q h2 -> nondecr p (h1 ++ h2).
Proof.
  revert p; induction h1 as [|[t w] tl IH]; simpl; intros p H1 Hle Hpq H2.
  - apply (nondecr_weaken p q); auto.
  - destruct H1 as [Hpt Hnd]. split; auto.
    apply IH; auto. apply (Hle (t, w)). auto.
Qed.

(** A ring that was reached by a well-formed history [h] whose times are all <= [now]. *)
Record ring_rel (g : geom) (slots : list slot) (h : list ev_t) (now : N) : Prop := {
  rr_run : run_strict g (ring0 g) h = Some slots;
  rr_wf : wf_hist g h;
  rr_le : forall e, In e h -> fst e <= now
}.

Lemma ring_rel_init g now : ring_rel g (ring0 g) [] now.
Proof. split; [reflexivity | exact I | intros e []]. Qed.

Lemma ring_rel_mono g slots h now now' : now <= now' -> ring_rel g slots h now -> ring_rel g slots h now'.
Proof. intros Hle [H1 H2 H3]. split; auto. intros e He. specialize (H3 e He). lia. Qed.

(** one more write at the current time is accepted and keeps the relation *)
Lemma ring_rel_write g slots h now w :
  0 < bl g -> 0 < sc g -> bl g <= now -> ring_rel g slots h now ->
  exists slots', write g slots now w = WOk slots' /\ ring_rel g slots' (h ++ [(now, w)]) now.
Proof.
  intros Hb Hs Hnow [Hrun Hwf Hle].
  assert (Hwf' : wf_hist g (h ++ [(now, w)])).
  { unfold wf_hist in *. apply (nondecr_app (bl g) h [(now, w)] now); auto. simpl. split; auto. lia. }
  destruct (wf_reaches g _ Hb Hs Hwf') as [s' [_ Hr']].
  rewrite run_strict_app, Hrun in Hr'. simpl in Hr'.
  destruct (write g slots now w) as [s1| |] eqn:Hw; try discriminate.
  inversion Hr'; subst s1. exists s'. split; auto. split; auto.
  - rewrite run_strict_app, Hrun. simpl. rewrite Hw. reflexivity.
  - intros e He. apply in_app_or in He. destruct He as [He|[<-|[]]]; auto. simpl; lia.
Qed.

(** * Nodes *)

Definition geom_ok (c : cfg) : Prop :=
  0 < bl (c_total c) /\ 0 < sc (c_total c) /\
  win_new (c_total c) (c_msc c) (c_miv c) = Some (mkW (c_msc c) (c_miv c)).

Lemma default_cfg_ok : geom_ok default_cfg.
Proof. repeat split; vm_compute; reflexivity. Qed.

Record node_rel (c : cfg) (nd : node) (h : list ev_t) (fly now : N) : Prop := {
  nr_ring : ring_rel (c_total c) (n_slots nd) h now;
  nr_conc : n_conc nd = fly
}.

Lemma node_rel_fresh c now : node_rel c (fresh_node c) [] 0 now.
Proof. split; [apply ring_rel_init|reflexivity]. Qed.

Lemma node_rel_mono c nd h fly now now' : now <= now' -> node_rel c nd h fly now -> node_rel c nd h fly now'.
Proof. intros H [H1 H2]. split; auto. eapply ring_rel_mono; eauto. Qed.

Lemma node_write_rel c nd h fly now w :
  geom_ok c -> bl (c_total c) <= now -> node_rel c nd h fly now ->
  node_rel c (node_write c nd now w) (h ++ [(now, w)]) fly now /\
  n_conc (node_write c nd now w) = n_conc nd.
Proof.
  intros (Hb & Hs & _) Hnow [Hr Hc].
  destruct (ring_rel_write _ _ _ _ w Hb Hs Hnow Hr) as (s' & Hw & Hr').
  unfold node_write. rewrite Hw. simpl. split; auto. split; auto.
Qed.

Lemma node_pass_rel c nd h fly now batch :
  geom_ok c -> bl (c_total c) <= now -> node_rel c nd h fly now ->
  node_rel c (node_pass c nd now batch) (h ++ ev_pass now fly batch) (fly + 1) now.
Proof.
  intros Hg Hnow Hrel. unfold node_pass, ev_pass.
  assert (H1 : node_rel c (mkNode (n_slots nd) (n_conc nd + 1)) h (fly + 1) now).
  { destruct Hrel as [Hr Hc]. split; auto. simpl. lia. }
  destruct (node_write_rel c _ h (fly + 1) now (WConc (n_conc nd + 1)) Hg Hnow H1) as [H2 _].
  destruct (node_write_rel c _ _ (fly + 1) now (WAdd Pass batch) Hg Hnow H2) as [H3 _].
  rewrite <- app_assoc in H3. simpl in H3.
  destruct Hrel as [_ Hc]. rewrite Hc in *. exact H3.
Qed.

Lemma node_block_rel c nd h fly now batch :
  geom_ok c -> bl (c_total c) <= now -> node_rel c nd h fly now ->
  node_rel c (node_block c nd now batch) (h ++ ev_block now batch) fly now.
Proof.
  intros Hg Hnow Hrel. unfold node_block, ev_block.
  destruct (node_write_rel c _ h fly now (WAdd Block batch) Hg Hnow Hrel) as [H2 _]. exact H2.
Qed.

Lemma node_complete_rel c nd h fly now batch rt :
  geom_ok c -> bl (c_total c) <= now -> node_rel c nd h fly now ->
  node_rel c (node_complete c nd now batch rt) (h ++ ev_done now batch rt) (fly - 1) now.
Proof.
  intros Hg Hnow Hrel. unfold node_complete, ev_done.
  destruct (node_write_rel c _ h fly now (WAdd Rt rt) Hg Hnow Hrel) as [H2 _].
  destruct (node_write_rel c _ _ fly now (WAdd Complete batch) Hg Hnow H2) as [H3 _].
  rewrite <- app_assoc in H3. simpl in H3.
  destruct H3 as [Hr Hc]. split; auto. simpl. lia.
Qed.

(** reading a related node gives the direct computation from its ghost events *)
Lemma node_sum_rel c nd h fly now ev :
  geom_ok c -> iv (c_total c) <= now -> node_rel c nd h fly now ->
  node_sum c nd now ev = ROk (spec_sum (c_total c) (mkW (c_msc c) (c_miv c)) now ev h).
Proof.
  intros (Hb & Hs & Hw) Hiv [[Hrun Hwf Hle] _]. unfold node_sum.
  apply (sum_exact (c_total c) (c_msc c) (c_miv c)).
  unfold read_pre. repeat split; auto. apply run_strict_run_writes; auto.
Qed.

(** * Flow controllers *)

Lemma passes_app h1 h2 : passes (h1 ++ h2) = passes h1 ++ passes h2.
Proof. apply filter_app. Qed.

Definition fctl_rel (c : cfg) (h : list ev_t) (now : N) (f : fctl) : Prop :=
  match f_stat f with
  | SDefault | SBroken => True
  | SReuse w => win_new (c_total c) (w_sc w) (w_iv w) = Some w
  | SPrivate g w slots =>
      0 < bl g /\ 0 < sc g /\ win_new g (w_sc w) (w_iv w) = Some w /\ iv g <= now /\
      ring_rel g slots (passes h) now
  end.

Lemma bl_le_iv g : 0 < sc g -> bl g <= iv g.
Proof. intros H. unfold iv. nia. Qed.

Lemma fctl_rel_mono c h now now' f : now <= now' -> fctl_rel c h now f -> fctl_rel c h now' f.
Proof.
  unfold fctl_rel. destruct (f_stat f); auto.
  intros Hle (H1 & H2 & H3 & H4 & H5). split; [|split; [|split; [|split]]]; auto; try lia. eapply ring_rel_mono; eauto.
Qed.

Lemma ctl_sum_rel c nd h fly now f :
  geom_ok c -> iv (c_total c) <= now -> node_rel c nd h fly now -> fctl_rel c h now f ->
  ctl_sum c nd f now = ROk (spec_ctl_sum c f now h).
Proof.
  intros Hg Hiv Hn Hf. unfold ctl_sum, spec_ctl_sum, fctl_rel in *.
  destruct (f_stat f) as [|w|g w slots|] eqn:E; auto.
  - apply (node_sum_rel c nd h fly now Pass Hg Hiv Hn).
  - destruct Hg as (Hb & Hs & _). destruct Hn as [[Hrun Hwf Hle] _].
    apply (sum_exact (c_total c) (w_sc w) (w_iv w)).
    unfold read_pre. repeat split; auto. apply run_strict_run_writes; auto.
  - destruct Hf as (Hb & Hs & Hw & Hiv' & [Hrun Hwf Hle]).
    apply (sum_exact g (w_sc w) (w_iv w)).
    unfold read_pre. repeat split; auto. apply run_strict_run_writes; auto.
Qed.

Lemma ctl_record_rel c h now f batch :
  fctl_rel c h now f ->
  fctl_rel c (h ++ [(now, WAdd Pass batch)]) now (ctl_record f now batch) /\
  f_rule (ctl_record f now batch) = f_rule f /\ f_thr (ctl_record f now batch) = f_thr f.
Proof.
  unfold fctl_rel, ctl_record. destruct (f_stat f) as [|w|g w slots|] eqn:E; rewrite ?E; auto.
  intros (Hb & Hs & Hw & Hiv & Hr).
  assert (Hnow : bl g <= now) by (pose proof (bl_le_iv g Hs); lia).
  destruct (ring_rel_write g slots _ now (WAdd Pass batch) Hb Hs Hnow Hr) as (s' & Hwr & Hr').
  rewrite Hwr. simpl. split; [|split; reflexivity].
  split; [|split; [|split; [|split]]]; auto.
  rewrite passes_app. simpl. exact Hr'.
Qed.

(** events that are not passes do not touch the private rings *)
Lemma fctl_rel_nonpass c h now f extra :
  passes extra = [] -> fctl_rel c h now f -> fctl_rel c (h ++ extra) now f.
Proof.
  intros He. unfold fctl_rel. destruct (f_stat f); auto.
  rewrite passes_app, He, app_nil_r. auto.
Qed.

Lemma flow_slot_rel c nd h fly now fs batch :
  geom_ok c -> iv (c_total c) <= now -> node_rel c nd h fly now ->
  Forall (fctl_rel c h now) fs ->
  flow_slot c nd fs now batch = spec_flow_slot c fs now batch h.
Proof.
  intros Hg Hiv Hn. induction fs as [|f tl IH]; simpl; auto. intros HF.
  inversion HF as [|? ? Hf Htl]; subst.
  unfold ctl_check. rewrite (ctl_sum_rel c nd h fly now f Hg Hiv Hn Hf).
  destruct (gt_thr _ _); auto.
Qed.

Lemma spec_flow_slot_not_panic c fs now batch h : spec_flow_slot c fs now batch h <> SPanic.
Proof. induction fs as [|f tl IH]; simpl; [discriminate|]. destruct (gt_thr _ _); auto. discriminate. Qed.

(** * The world *)

Record world_rel (w : world) (gh : ghost) : Prop := {
  wr_now : w_now w = g_now gh;
  wr_nodes : forall res, node_rel (w_cfg w) (w_nodes w res) (g_hist gh res) (g_fly gh res) (w_now w);
  wr_inb : node_rel (w_cfg w) (w_inbound w) (g_inb gh) (g_inbfly gh) (w_now w);
  wr_flow : forall res, Forall (fctl_rel (w_cfg w) (g_hist gh res) (w_now w)) (w_flow w res);
  wr_open : w_open w = g_open gh
}.

Definition flow_ok (c : cfg) (now : N) (fl : N -> list fctl) : Prop :=
  forall res, Forall (fctl_rel c [] now) (fl res).

Lemma world_rel_init c base fl iso :
  flow_ok c base fl -> world_rel (world0 c base fl iso) (ghost0 base).
Proof. intros Hf. split; simpl; auto; intros; apply node_rel_fresh. Qed.

Lemma set_fun_same {A} (f : N -> A) k v : set_fun f k v k = v.
Proof. unfold set_fun. rewrite N.eqb_refl. reflexivity. Qed.
Lemma set_fun_other {A} (f : N -> A) k v k' : k' <> k -> set_fun f k v k' = f k'.
Proof. unfold set_fun. intros H. apply N.eqb_neq in H. rewrite H. reflexivity. Qed.

Lemma iso_slot_not_panic nd rules batch : iso_slot nd rules batch <> SPanic.
Proof. induction rules as [|[r t] tl IH]; simpl; [discriminate|]. destruct (_ <? _); auto. discriminate. Qed.

Lemma Forall_map_rel c h now fs batch :
  Forall (fctl_rel c h now) fs ->
  Forall (fctl_rel c (h ++ [(now, WAdd Pass batch)]) now) (map (fun f => ctl_record f now batch) fs).
Proof.
  induction 1 as [|f tl Hf Htl IH]; simpl; constructor; auto.
  apply (ctl_record_rel c h now f batch Hf).
Qed.

Lemma Forall_rel_ext c h now fs extra :
  passes extra = [] -> Forall (fctl_rel c h now) fs -> Forall (fctl_rel c (h ++ extra) now) fs.
Proof. intros He. induction 1; constructor; auto. apply fctl_rel_nonpass; auto. Qed.

(** What a command does, seen from the ghost: the outcome is never a panic, it is one the
    ghost accepts, reads return the ghost's expectation, and the relation is kept. *)
Lemma read_node_rel c nd h fly now :
  geom_ok c -> iv (c_total c) <= now -> node_rel c nd h fly now ->
  read_node c nd now = expect_read c h fly now.
Proof.
  intros Hg Hiv Hn. unfold read_node, expect_read.
  rewrite !(node_sum_rel c nd h fly now _ Hg Hiv Hn).
  destruct Hn as [_ Hc]. rewrite Hc. reflexivity.
Qed.

Lemma exec_rel w gh x :
  geom_ok (w_cfg w) -> iv (c_total (w_cfg w)) <= w_now w -> world_rel w gh ->
  let '(w', o) := exec w x in
  w_cfg w' = w_cfg w /\ w_now w <= w_now w' /\
  exists gh', gh_step gh x o = Some gh' /\ world_rel w' gh' /\
    match x with
    | WR res => o = expect_read (w_cfg w) (g_hist gh res) (g_fly gh res) (g_now gh)
    | WRI => o = expect_read (w_cfg w) (g_inb gh) (g_inbfly gh) (g_now gh)
    | WB id res batch inb extra =>
        (* the outcome is the verdict of the three check slots, flow's computed from the ghost *)
        let r := later (later (spec_flow_slot (w_cfg w) (w_flow w res) (w_now w) batch (g_hist gh res))
                              (iso_slot (mkNode [] (g_fly gh res)) (w_iso w res) batch))
                       (match extra with Some k => SBlock k 0 0 | None => SPass end) in
        o = match r with SPass => ZAdmit | SBlock bt rl sn => ZBlock bt rl sn | SPanic => ZPanic end
        /\ w_flow w' res = (match r with SPass => map (fun f => ctl_record f (w_now w) batch) (w_flow w res) | _ => w_flow w res end)
        /\ (forall res', res' <> res -> w_flow w' res' = w_flow w res') /\ w_iso w' = w_iso w
    | _ => w_flow w' = w_flow w /\ w_iso w' = w_iso w
    end.
Proof.
  intros Hg Hiv [Hnow Hnodes Hinb Hflow Hopen].
  assert (Hbl : bl (c_total (w_cfg w)) <= w_now w).
  { destruct Hg as (_ & Hs & _). pose proof (bl_le_iv _ Hs). lia. }
  (* the three state changes, each keeping the relation *)
  assert (Hadmit : forall (id res batch : N) (inb : bool),
    world_rel (mkWorld (w_cfg w) (w_now w)
                 (set_fun (w_nodes w) res (node_pass (w_cfg w) (w_nodes w res) (w_now w) batch))
                 (if inb then node_pass (w_cfg w) (w_inbound w) (w_now w) batch else w_inbound w)
                 (set_fun (w_flow w) res (map (fun f => ctl_record f (w_now w) batch) (w_flow w res)))
                 (w_iso w) ((id, mkE res batch (w_now w) inb) :: w_open w))
              (gh_admit gh id res batch inb)).
  { intros id res batch inb. split; cbn.
    - exact Hnow.
    - rewrite <- Hnow. intros res'. unfold set_fun. destruct (res' =? res) eqn:E.
      + apply N.eqb_eq in E; subst res'. apply node_pass_rel; auto.
      + apply Hnodes.
    - rewrite <- Hnow. destruct inb; auto. apply node_pass_rel; auto.
    - rewrite <- Hnow. intros res'. unfold set_fun. destruct (res' =? res) eqn:E.
      + apply N.eqb_eq in E; subst res'. unfold ev_pass.
        replace (g_hist gh res ++ [(w_now w, WConc (g_fly gh res + 1)); (w_now w, WAdd Pass batch)])
          with ((g_hist gh res ++ [(w_now w, WConc (g_fly gh res + 1))]) ++ [(w_now w, WAdd Pass batch)])
          by (rewrite <- app_assoc; reflexivity).
        apply Forall_map_rel. apply Forall_rel_ext; auto.
      + apply Hflow.
    - rewrite Hopen, Hnow. reflexivity. }
  assert (Hblock : forall (res batch : N) (inb : bool),
    world_rel (mkWorld (w_cfg w) (w_now w)
                 (set_fun (w_nodes w) res (node_block (w_cfg w) (w_nodes w res) (w_now w) batch))
                 (if inb then node_block (w_cfg w) (w_inbound w) (w_now w) batch else w_inbound w)
                 (w_flow w) (w_iso w) (w_open w))
              (gh_block gh res batch inb)).
  { intros res batch inb. split; cbn.
    - exact Hnow.
    - rewrite <- Hnow. intros res'. unfold set_fun. destruct (res' =? res) eqn:E.
      + apply N.eqb_eq in E; subst res'. apply node_block_rel; auto.
      + apply Hnodes.
    - rewrite <- Hnow. destruct inb; auto. apply node_block_rel; auto.
    - rewrite <- Hnow. intros res'. unfold set_fun. destruct (res' =? res) eqn:E.
      + apply N.eqb_eq in E; subst res'. apply Forall_rel_ext; auto.
      + apply Hflow.
    - exact Hopen. }
  destruct x as [id res batch inb extra|id|dt|res|]; cbn [exec].
  - (* build *)
    cbn [step].
    rewrite (flow_slot_rel _ _ _ _ _ _ batch Hg Hiv (Hnodes res) (Hflow res)).
    set (r1 := spec_flow_slot (w_cfg w) (w_flow w res) (w_now w) batch (g_hist gh res)).
    assert (Hiso : iso_slot (w_nodes w res) (w_iso w res) batch =
                   iso_slot (mkNode [] (g_fly gh res)) (w_iso w res) batch).
    { destruct (Hnodes res) as [_ Hc]. clear - Hc. induction (w_iso w res) as [|[r t] tl IH]; simpl; auto.
      rewrite Hc, IH. reflexivity. }
    rewrite Hiso. set (r2 := iso_slot (mkNode [] (g_fly gh res)) (w_iso w res) batch).
    set (r3 := match extra with Some k => SBlock k 0 0 | None => SPass end).
    assert (H1 : r1 <> SPanic) by apply spec_flow_slot_not_panic.
    assert (H2 : r2 <> SPanic) by apply iso_slot_not_panic.
    assert (H3 : r3 <> SPanic) by (unfold r3; destruct extra; discriminate).
    assert (HL : later (later r1 r2) r3 <> SPanic).
    { unfold later. destruct r3; try congruence. destruct r2; congruence. }
    destruct r1 as [|bt1 rl1 sn1|] eqn:E1; [| |congruence].
    + destruct (later (later SPass r2) r3) as [|bt rl sn|] eqn:EL; [| |congruence].
      * cbn. split; [reflexivity|]. split; [lia|].
        exists (gh_admit gh id res batch inb). split; [reflexivity|]. split; [apply Hadmit|].
        split; [reflexivity|]. split; [apply set_fun_same|]. split; [|reflexivity].
        intros res' Hne. apply set_fun_other; auto.
      * cbn. split; [reflexivity|]. split; [lia|].
        exists (gh_block gh res batch inb). split; [reflexivity|]. split; [apply Hblock|].
        split; [reflexivity|]. split; [reflexivity|]. split; [|reflexivity]. auto.
    + destruct (later (later (SBlock bt1 rl1 sn1) r2) r3) as [|bt rl sn|] eqn:EL; [| |congruence].
      * exfalso. unfold later in EL. destruct r3; try congruence; destruct r2; congruence.
      * cbn. split; [reflexivity|]. split; [lia|].
        exists (gh_block gh res batch inb). split; [reflexivity|]. split; [apply Hblock|].
        split; [reflexivity|]. split; [reflexivity|]. split; [|reflexivity]. auto.
  - (* exit *)
    cbn [step]. rewrite Hopen.
    destruct (find_entry id (g_open gh)) as [[e rest]|] eqn:EF; cbn.
    + split; [reflexivity|]. split; [lia|]. rewrite EF.
      exists (gh_exit gh e rest). split; [reflexivity|]. split; [|split; reflexivity].
      split; cbn.
      * exact Hnow.
      * rewrite <- Hnow. intros res'. unfold set_fun. destruct (res' =? e_res e) eqn:E.
        -- apply N.eqb_eq in E; subst res'. apply node_complete_rel; auto.
        -- apply Hnodes.
      * rewrite <- Hnow. destruct (e_inbound e); auto. apply node_complete_rel; auto.
      * rewrite <- Hnow. intros res'. unfold set_fun. destruct (res' =? e_res e) eqn:E.
        -- apply N.eqb_eq in E; subst res'. apply Forall_rel_ext; auto.
        -- apply Hflow.
      * reflexivity.
    + split; [reflexivity|]. split; [lia|]. rewrite EF. exists gh.
      split; [reflexivity|]. split; [|split; reflexivity]. split; auto.
  - (* advance *)
    cbn. split; [reflexivity|]. split; [lia|].
    exists (gh_tick gh dt). split; [reflexivity|]. split; [|split; reflexivity].
    split; cbn.
    + lia.
    + intros res'. eapply node_rel_mono; [|apply Hnodes]. lia.
    + eapply node_rel_mono; [|apply Hinb]. lia.
    + intros res'. eapply Forall_impl; [|apply Hflow]. intros f. apply fctl_rel_mono. lia.
    + exact Hopen.
  - (* read resource node *)
    split; [reflexivity|]. split; [lia|].
    rewrite (read_node_rel _ _ _ _ _ Hg Hiv (Hnodes res)).
    exists gh. split; [reflexivity|]. split; [split; auto|]. rewrite Hnow. reflexivity.
  - split; [reflexivity|]. split; [lia|].
    rewrite (read_node_rel _ _ _ _ _ Hg Hiv Hinb).
    exists gh. split; [reflexivity|]. split; [split; auto|]. rewrite Hnow. reflexivity.
Qed.

(** Generic lifting of a per-step fact to whole histories. *)
Lemma gh_step_not_panic gh x gh' : gh_step gh x ZPanic = Some gh' -> False.
Proof. destruct x; simpl; discriminate. Qed.

Lemma ok_trace_holds (J : world -> Prop) (Q : cmd -> Prop) (chk : ghost -> cmd -> wout -> bool) :
  (forall w gh x, geom_ok (w_cfg w) -> iv (c_total (w_cfg w)) <= w_now w -> world_rel w gh -> J w -> Q x ->
     forall w' o, exec w x = (w', o) -> chk gh x o = true /\ J w') ->
  forall ops w gh,
    geom_ok (w_cfg w) -> iv (c_total (w_cfg w)) <= w_now w -> world_rel w gh -> J w -> Forall Q ops ->
    ok_trace chk gh ops (run_typed w ops) = true.
Proof.
  intros Hstep. induction ops as [|x tl IH]; intros w gh Hg Hiv Hrel HJ HQ; [reflexivity|].
  inversion HQ as [|? ? HQx HQtl]; subst.
  cbn [run_typed]. pose proof (exec_rel w gh x Hg Hiv Hrel) as H.
  destruct (exec w x) as [w' o] eqn:Ex.
  destruct H as (Hc & Hnow & gh' & Hs & Hrel' & _).
  destruct (Hstep w gh x Hg Hiv Hrel HJ HQx w' o Ex) as [Hchk HJ'].
  assert (Ho : o <> ZPanic) by (intros ->; eapply gh_step_not_panic; eauto).
  assert (Htail : ok_trace chk gh' tl (run_typed w' tl) = true).
  { apply IH; rewrite ?Hc; auto. lia. }
  destruct o; try congruence; cbn [ok_trace]; rewrite Hs, Hchk, Htail; reflexivity.
Qed.
