From SV Require Import Model.Base Model.SlotChain Spec.C13Spec.
From Coq Require Import Permutation Sorted ZifyBool ZifyN.
Open Scope N_scope.

Lemma sl_eqb_refl x : sl_eqb x x = true.
Proof. unfold sl_eqb. rewrite !N.eqb_refl. reflexivity. Qed.

Lemma sl_eqb_eq x y : sl_eqb x y = true <-> x = y.
Proof.
  unfold sl_eqb. destruct x, y; simpl. split.
  - intros H. apply andb_prop in H. destruct H as [H1 H2].
    apply N.eqb_eq in H1, H2. subst. reflexivity.
  - intros H. inversion H. subst. rewrite !N.eqb_refl. reflexivity.
Qed.

(** * Sorted permutations *)

Definition is_chain_of (added l : list sl) : Prop :=
  (forall x, count_sl x added = count_sl x l) /\ ascending l = true.

Lemma count_insert x y l : count_sl x (insert_slot y l) = count_sl x (y :: l).
Proof.
  induction l as [|z tl IH]; simpl; auto.
  destruct (s_ord y <? s_ord z); simpl; auto.
  rewrite IH. simpl. destruct (sl_eqb x y), (sl_eqb x z); auto.
Qed.

Lemma ascending_cons x l : ascending (x :: l) = true <->
  (match l with [] => True | y :: _ => s_ord x <= s_ord y end) /\ ascending l = true.
Proof.
  destruct l as [|y tl]; simpl.
  - split; auto.
  - rewrite andb_true_iff. rewrite N.leb_le. tauto.
Qed.

Lemma ascending_insert y l : ascending l = true -> ascending (insert_slot y l) = true.
Proof.
  induction l as [|z tl IH]; intros H; [reflexivity|].
  cbn [insert_slot]. destruct (s_ord y <? s_ord z) eqn:E.
  - apply ascending_cons. split; [lia|exact H].
  - apply ascending_cons in H. destruct H as [H1 H2].
    apply ascending_cons. split; [|apply IH; exact H2].
    destruct tl as [|w tl']; cbn [insert_slot]; [lia|].
    destruct (s_ord y <? s_ord w); lia.
Qed.

Lemma add_all_chain_gen added acc :
  ascending acc = true ->
  (forall x, count_sl x (fold_left (fun a s => insert_slot s a) added acc) = (count_sl x added + count_sl x acc)%nat) /\
  ascending (fold_left (fun a s => insert_slot s a) added acc) = true.
Proof.
  revert acc; induction added as [|y tl IH]; intros acc Hacc; simpl; [split; auto|].
  destruct (IH (insert_slot y acc) (ascending_insert y acc Hacc)) as [H1 H2].
  split; auto. intros x. rewrite H1, count_insert. simpl. destruct (sl_eqb x y); lia.
Qed.

Lemma add_all_chain added : is_chain_of added (add_all added).
Proof.
  destruct (add_all_chain_gen added [] eq_refl) as [H1 H2]. split; auto.
  intros x. unfold add_all. rewrite H1. simpl. lia.
Qed.

Lemma perm_b_of_counts l1 l2 : (forall x, count_sl x l1 = count_sl x l2) -> perm_b l1 l2 = true.
Proof.
  intros H. unfold perm_b. apply forallb_forall. intros x _. rewrite H. apply Nat.eqb_refl.
Qed.

Lemma phase_ok_chain added l : is_chain_of added l -> phase_ok added l = true.
Proof. intros [H1 H2]. unfold phase_ok. rewrite perm_b_of_counts, H2; auto. Qed.

(** * Splitting the trace *)

Lemma take_prep_app l rest :
  (match rest with EPrep _ :: _ => False | _ => True end) ->
  take_prep (map EPrep l ++ rest) = (l, rest).
Proof.
  intros Hr. induction l as [|x tl IH]; simpl.
  - destruct rest as [|[] ?]; simpl; auto. contradiction.
  - rewrite IH. reflexivity.
Qed.
Lemma take_check_app l rest :
  (match rest with ECheck _ :: _ => False | _ => True end) ->
  take_check (map ECheck l ++ rest) = (l, rest).
Proof.
  intros Hr. induction l as [|x tl IH]; simpl.
  - destruct rest as [|[] ?]; simpl; auto. contradiction.
  - rewrite IH. reflexivity.
Qed.
Lemma take_pass_app l rest :
  (match rest with EPass _ :: _ => False | _ => True end) ->
  take_pass (map EPass l ++ rest) = (l, rest).
Proof.
  intros Hr. induction l as [|x tl IH]; simpl.
  - destruct rest as [|[] ?]; simpl; auto. contradiction.
  - rewrite IH. reflexivity.
Qed.
Lemma take_done_app l rest :
  (match rest with EDone _ :: _ => False | _ => True end) ->
  take_done (map EDone l ++ rest) = (l, rest).
Proof.
  intros Hr. induction l as [|x tl IH]; simpl.
  - destruct rest as [|[] ?]; simpl; auto. contradiction.
  - rewrite IH. reflexivity.
Qed.
Lemma take_blocked_app k l rest :
  (match rest with EBlocked _ _ :: _ => False | _ => True end) ->
  take_blocked k (map (fun s => EBlocked s k) l ++ rest) = (l, rest).
Proof.
  intros Hr. induction l as [|x tl IH]; simpl.
  - destruct rest as [|[] ?]; simpl; auto. contradiction.
  - rewrite N.eqb_refl, IH. reflexivity.
Qed.

(** * The outcome of the check loop *)

Lemma run_checks_none res l :
  run_checks res l None = None -> existsb (is_blocking res) l = false.
Proof.
  induction l as [|s tl IH]; simpl; auto. unfold is_blocking at 1.
  destruct (res (s_id s)) eqn:E; simpl; auto.
  intros H. exfalso. clear - H. revert H. generalize k. induction tl as [|t tl IH]; simpl; intros k0 H; [discriminate|].
  destruct (res (s_id t)); eauto.
Qed.

Lemma run_checks_some res l cur k :
  run_checks res l cur = Some k -> cur = Some k \/ existsb (blocks_with res k) l = true.
Proof.
  revert cur; induction l as [|s tl IH]; simpl; intros cur H; auto.
  unfold blocks_with at 1. destruct (res (s_id s)) eqn:E.
  - destruct (IH _ H); auto.
  - destruct (IH _ H) as [H0|H0].
    + inversion H0; subst. rewrite N.eqb_refl. auto.
    + rewrite H0, orb_true_r. auto.
  - destruct (IH _ H); auto.
Qed.

(** existsb is invariant under same-multiset lists *)
Lemma count_pos_in x l : (0 < count_sl x l)%nat <-> In x l.
Proof.
  induction l as [|y tl IH]; simpl; [split; [lia|tauto]|].
  destruct (sl_eqb x y) eqn:E.
  - apply sl_eqb_eq in E. subst. split; auto. lia.
  - rewrite IH. split; auto. intros [H|H]; auto. subst. rewrite sl_eqb_refl in E. discriminate.
Qed.

Lemma existsb_counts (f : sl -> bool) l1 l2 :
  (forall x, count_sl x l1 = count_sl x l2) -> existsb f l1 = existsb f l2.
Proof.
  intros H. destruct (existsb f l1) eqn:E1; symmetry.
  - apply existsb_exists in E1. destruct E1 as [x [Hin Hf]]. apply existsb_exists. exists x. split; auto.
    apply count_pos_in. rewrite <- H. apply count_pos_in. auto.
  - destruct (existsb f l2) eqn:E2; auto.
    apply existsb_exists in E2. destruct E2 as [x [Hin Hf]].
    assert (existsb f l1 = true); [|congruence].
    apply existsb_exists. exists x. split; auto.
    apply count_pos_in. rewrite H. apply count_pos_in. auto.
Qed.

(** * Main theorem: for every chain that is a sorted arrangement of the added slots *)

Lemma model_satisfies_spec pre chk stat c res :
  is_chain_of pre (ch_pre c) -> is_chain_of chk (ch_chk c) -> is_chain_of stat (ch_stat c) ->
  let '(r, tb, te) := build_and_exit c res in ok_C13 pre chk stat res r tb te = true.
Proof.
  intros Hp Hc Hs. unfold build_and_exit, entry.
  destruct (run_checks res (ch_chk c) None) as [k|] eqn:Hr.
  - (* blocked *)
    unfold ok_C13, chain_exit. rewrite app_nil_r.
    rewrite take_prep_app; [|destruct (ch_chk c), (ch_stat c); simpl; auto].
    rewrite take_check_app; [|destruct (ch_stat c); simpl; auto].
    rewrite (phase_ok_chain _ _ Hp), (phase_ok_chain _ _ Hc). simpl.
    apply run_checks_some in Hr. destruct Hr as [Hr|Hr]; [discriminate|].
    rewrite (existsb_counts _ chk (ch_chk c)) by (apply Hc). rewrite Hr. simpl.
    pose proof (take_blocked_app k (ch_stat c) []) as Ht. rewrite app_nil_r in Ht.
    unfold notify. rewrite Ht by exact I.
    rewrite (phase_ok_chain _ _ Hs). reflexivity.
  - unfold ok_C13, chain_exit.
    rewrite take_prep_app; [|destruct (ch_chk c), (ch_stat c); simpl; auto].
    rewrite take_check_app; [|destruct (ch_stat c); simpl; auto].
    rewrite (phase_ok_chain _ _ Hp), (phase_ok_chain _ _ Hc). simpl.
    apply run_checks_none in Hr.
    rewrite (existsb_counts _ chk (ch_chk c)) by (apply Hc). rewrite Hr. simpl.
    pose proof (take_pass_app (ch_stat c) []) as Ht. rewrite app_nil_r in Ht.
    change (map (notify None) (ch_stat c)) with (map EPass (ch_stat c)).
    rewrite Ht by exact I.
    pose proof (take_done_app (ch_stat c) []) as Hd. rewrite app_nil_r in Hd.
    rewrite Hd by exact I.
    rewrite (phase_ok_chain _ _ Hs). reflexivity.
Qed.

Lemma model_add_satisfies_spec pre chk stat res :
  let c := mkChain (add_all pre) (add_all chk) (add_all stat) in
  let '(r, tb, te) := build_and_exit c res in ok_C13 pre chk stat res r tb te = true.
Proof.
  intros c. apply (model_satisfies_spec pre chk stat c res); apply add_all_chain.
Qed.

(** The boolean multiset test means what it says. *)
Lemma perm_b_sound l1 l2 : perm_b l1 l2 = true -> forall x, count_sl x l1 = count_sl x l2.
Proof.
  unfold perm_b. intros H x. rewrite forallb_forall in H.
  destruct (in_dec (fun a b => match sl_eqb a b as e return (sl_eqb a b = e -> _) with
                               | true => fun E => left (proj1 (sl_eqb_eq a b) E)
                               | false => fun E => right (fun Heq => eq_ind (sl_eqb a b) (fun v => v = false -> False)
                                                        (fun H0 => ltac:(rewrite (proj2 (sl_eqb_eq a b) Heq) in H0; discriminate)) _ eq_refl E)
                               end eq_refl) x (l1 ++ l2)) as [Hin|Hnin].
  - apply Nat.eqb_eq. apply H. exact Hin.
  - assert (~ In x l1 /\ ~ In x l2) as [H1 H2] by (split; intro; apply Hnin; apply in_or_app; auto).
    rewrite <- count_pos_in in H1, H2. lia.
Qed.
