(** C19: every directory the writer leaves behind is well formed ([good_dir]). *)
From SV Require Import Model.Base Model.MetricLine Model.MetricLog Spec.C19Inv Spec.C19Search Proofs.C18Proofs Proofs.C19Proofs Proofs.C19SearchProofs.
From Coq Require Import Lia ZifyBool ZifyN ZifyNat.
Open Scope N_scope.

(** * Keys and the listing order *)

Definition klt (a b : N * N) : Prop := fst a < fst b \/ (fst a = fst b /\ snd a < snd b).
Definition fkey (f : mfile) : N * N := (f_day f, f_no f).
Definition akey (f : afile) : N * N := (a_day f, a_no f).

Lemma file_ltb_klt : forall x y, file_ltb x y = true <-> klt (fkey x) (fkey y).
Proof.
  intros x y. unfold file_ltb, klt, fkey. cbn [fst snd].
  destruct (f_day x <? f_day y) eqn:E1.
  - split; [intros _; left; lia | reflexivity].
  - destruct (f_day y <? f_day x) eqn:E2.
    + split; [discriminate | intros [H|[H _]]; lia].
    + split; intros H; [right; lia | lia].
Qed.

Lemma klt_asym : forall a b, klt a b -> ~ klt b a.
Proof. unfold klt. intros a b H1 H2. lia. Qed.

Fixpoint ksorted (l : list (N * N)) : Prop :=
  match l with [] => True | x :: tl => Forall (klt x) tl /\ ksorted tl end.

Lemma ksorted_app : forall a b,
  ksorted (a ++ b) <-> ksorted a /\ ksorted b /\ Forall (fun x => Forall (klt x) b) a.
Proof.
  induction a as [|x a IH]; intros b; cbn [List.app ksorted].
  - split; [intros H; repeat split; [exact H | constructor] | intros (_ & H & _); exact H].
  - split.
    + intros (H1 & H2). apply Forall_app in H1. destruct H1 as [H1a H1b].
      apply IH in H2. destruct H2 as (H3 & H4 & H5).
      repeat split; try assumption. constructor; assumption.
    + intros ((H1 & H2) & H3 & H4). inversion H4; subst. split.
      * apply Forall_app. split; assumption.
      * apply IH. repeat split; assumption.
Qed.

Lemma ksorted_skipn : forall k l, ksorted l -> ksorted (skipn k l).
Proof.
  induction k as [|k IH]; intros l H; [exact H|].
  destruct l as [|x l]; [exact H|]. cbn [skipn]. apply IH. destruct H as [_ H]. exact H.
Qed.

Lemma ksorted_filter : forall (p : mfile -> bool) l,
  ksorted (map fkey l) -> ksorted (map fkey (filter p l)).
Proof.
  induction l as [|x l IH]; intros H; [exact I|].
  cbn [map ksorted] in H. destruct H as [H1 H2].
  cbn [filter]. destruct (p x); [|apply IH; exact H2].
  cbn [map ksorted]. split; [|apply IH; exact H2].
  rewrite Forall_map in *. apply Forall_filter_. exact H1.
Qed.

Lemma insert_file_sorted : forall x l,
  Forall (klt (fkey x)) (map fkey l) -> insert_file x l = x :: l.
Proof.
  intros x [|y tl] H; [reflexivity|]. cbn [insert_file]. cbn [map] in H. inversion H; subst.
  destruct (file_ltb y x) eqn:E; [|reflexivity].
  apply file_ltb_klt in E. exfalso. eapply klt_asym; eassumption.
Qed.

Lemma sorted_files_sorted : forall l, ksorted (map fkey l) -> sorted_files l = l.
Proof.
  induction l as [|x l IH]; intros H; [reflexivity|].
  cbn [map ksorted] in H. destruct H as [H1 H2].
  unfold sorted_files in *. cbn [fold_right]. rewrite IH by exact H2.
  apply insert_file_sorted. exact H1.
Qed.

Lemma klt_nokey : forall f d n, klt (fkey f) (d, n) -> nokey d n f.
Proof.
  intros f d n H. unfold nokey, same_file. unfold klt, fkey in H. cbn [fst snd] in H.
  destruct (f_day f =? d) eqn:E1; [|reflexivity].
  destruct (f_no f =? n) eqn:E2; [|reflexivity]. lia.
Qed.

Lemma filter_nokey_id : forall d n l,
  Forall (nokey d n) l -> filter (fun f => negb (same_file f d n)) l = l.
Proof.
  intros d n l H. induction H as [|x l Hx Hl IH]; cbn [filter]; [reflexivity|].
  unfold nokey in Hx. rewrite Hx. cbn [negb]. rewrite IH. reflexivity.
Qed.

Lemma next_name_above : forall dir t,
  ksorted (map fkey dir) ->
  Forall (fun f => f_day f <= day_of_ms t) dir ->
  exists n, next_name dir t = (day_of_ms t, n) /\
            Forall (fun f => klt (fkey f) (day_of_ms t, n)) dir.
Proof.
  intros dir t Hs Hd. unfold next_name. cbv zeta.
  generalize dependent (day_of_ms t). intros D Hd.
  pose proof (ksorted_filter (fun f => f_day f =? D) dir Hs) as Hsf.
  rewrite sorted_files_sorted by exact Hsf.
  destruct (rev (filter (fun f => f_day f =? D) dir)) as [|last r] eqn:E.
  - exists 0. split; [reflexivity|].
    assert (EF : filter (fun f => f_day f =? D) dir = []).
    { apply (f_equal (@rev mfile)) in E. rewrite rev_involutive in E. exact E. }
    rewrite Forall_forall in *. intros f Hf. left. cbn [fst fkey].
    specialize (Hd f Hf).
    assert (f_day f <> D).
    { intro Heq. assert (HI : In f (filter (fun f => f_day f =? D) dir)).
      { apply filter_In. split; [exact Hf | lia]. }
      rewrite EF in HI. contradiction. }
    lia.
  - exists (f_no last + 1). split; [reflexivity|].
    assert (EF : filter (fun f => f_day f =? D) dir = rev r ++ [last]).
    { apply (f_equal (@rev mfile)) in E. rewrite rev_involutive in E. exact E. }
    rewrite EF, map_app in Hsf. apply ksorted_app in Hsf. destruct Hsf as (_ & _ & Hlt).
    assert (Hl : f_day last = D).
    { assert (HI : In last (filter (fun f => f_day f =? D) dir)).
      { rewrite EF. apply in_or_app. right. left. reflexivity. }
      apply filter_In in HI. lia. }
    rewrite Forall_forall. intros f Hf. unfold klt, fkey. cbn [fst snd].
    destruct (N.eq_dec (f_day f) D) as [e|ne].
    + right. split; [exact e|].
      assert (HI : In f (rev r ++ [last])).
      { rewrite <- EF. apply filter_In. split; [exact Hf | lia]. }
      apply in_app_or in HI. destruct HI as [HI | [<- | []]]; [|lia].
      rewrite Forall_forall in Hlt. specialize (Hlt (fkey f) (in_map fkey _ _ HI)).
      inversion Hlt as [|? ? Hk _]; subst. unfold klt, fkey in Hk. cbn [fst snd] in Hk. lia.
    + left. rewrite Forall_forall in Hd. specialize (Hd f Hf). lia.
Qed.

Lemma remove_deprecated_sorted : forall dir mf,
  ksorted (map fkey dir) -> exists k, remove_deprecated dir mf = skipn k dir.
Proof.
  intros dir mf H. unfold remove_deprecated. cbv zeta. rewrite sorted_files_sorted by exact H.
  destruct (_ <=? _); [eexists; reflexivity | exists 0%nat; reflexivity].
Qed.

(** * The invariant on abstract files *)

Definition file_good (L : N) (f : afile) : Prop :=
  Forall (entry_ok (a_items f)) (a_ents f) /\ increasing (map fst (a_ents f)) /\
  Forall (fun e => fst e <= L) (a_ents f) /\
  Forall (fun i => item_wf i /\ name_ok i) (a_items f) /\
  a_day f <= L / 86400.

Definition FI (L : N) (fs : list afile) : Prop :=
  ksorted (map akey fs) /\ Forall (file_good L) fs /\
  nondecr (map sec_of (flat_map a_items fs)) /\
  Forall (fun i => sec_of i <= L) (flat_map a_items fs).

Definition GI (L : N) (dir : list mfile) (cur : option (N * N)) (fs0 : list afile) (cf : afile) : Prop :=
  dir = map conc (fs0 ++ [cf]) /\ cur = Some (akey cf) /\ FI L (fs0 ++ [cf]).

Lemma fkey_conc : forall fs, map fkey (map conc fs) = map akey fs.
Proof. intros fs. rewrite map_map. reflexivity. Qed.

Lemma file_good_mono : forall L L' f, L <= L' -> file_good L f -> file_good L' f.
Proof.
  intros L L' f HL (H1 & H2 & H3 & H4 & H5).
  repeat split; try assumption.
  - eapply Forall_impl; [|exact H3]. cbv beta. intros; lia.
  - pose proof (N.div_le_mono L L' 86400). lia.
Qed.

Lemma FI_mono : forall L L' fs, L <= L' -> FI L fs -> FI L' fs.
Proof.
  intros L L' fs HL (H1 & H2 & H3 & H4). repeat split; try assumption.
  - eapply Forall_impl; [|exact H2]. intros f. apply file_good_mono. exact HL.
  - eapply Forall_impl; [|exact H4]. cbv beta. intros; lia.
Qed.

Lemma skipn_map_ : forall {A B} (f : A -> B) k l, skipn k (map f l) = map f (skipn k l).
Proof.
  intros A B f. induction k as [|k IH]; intros l; [reflexivity|].
  destruct l as [|x l]; [reflexivity|]. cbn [map skipn]. apply IH.
Qed.

Lemma FI_skipn : forall L k fs, FI L fs -> FI L (skipn k fs).
Proof.
  intros L k fs (H1 & H2 & H3 & H4).
  rewrite <- (firstn_skipn k fs), flat_map_app in H3, H4.
  repeat split.
  - rewrite <- skipn_map_. apply ksorted_skipn. exact H1.
  - apply Forall_skipn_. exact H2.
  - rewrite map_app in H3. eapply nondecr_app_r. exact H3.
  - apply Forall_app in H4. apply H4.
Qed.

Lemma FI_snoc_empty : forall L fs d n,
  FI L fs -> Forall (fun f => klt (akey f) (d, n)) fs -> d <= L / 86400 ->
  FI L (fs ++ [mkAF d n [] []]).
Proof.
  intros L fs d n (H1 & H2 & H3 & H4) Hk Hd.
  assert (HFM : flat_map a_items (fs ++ [mkAF d n [] []]) = flat_map a_items fs).
  { rewrite flat_map_app. cbn [flat_map a_items List.app]. apply app_nil_r. }
  repeat split.
  - rewrite map_app. apply ksorted_app. split; [exact H1|]. split.
    + cbn [map ksorted]. split; [constructor | exact I].
    + rewrite Forall_map. eapply Forall_impl; [|exact Hk]. intros f Hf.
      constructor; [exact Hf | constructor].
  - apply Forall_app. split; [exact H2|]. constructor; [|constructor].
    unfold file_good. cbn [a_items a_ents a_day map increasing].
    repeat split; try constructor. exact Hd.
  - rewrite HFM. exact H3.
  - rewrite HFM. exact H4.
Qed.

Lemma day_of_ms_sec : forall t, day_of_ms t = t / 1000 / 86400.
Proof. intros t. unfold day_of_ms. rewrite N.div_div by lia. reflexivity. Qed.

(** * Rolling *)

Lemma roll_GI : forall L sec w t fs,
  w_dir w = map conc fs -> FI L fs -> L <= sec -> day_of_ms t = sec / 86400 ->
  exists fs0 n, GI sec (w_dir (roll w t)) (w_cur (roll w t)) fs0 (mkAF (sec / 86400) n [] []).
Proof.
  intros L sec w t fs Hd HF HL Hday.
  apply (FI_mono L sec) in HF; [|exact HL].
  assert (Hs : ksorted (map fkey (w_dir w))).
  { rewrite Hd, fkey_conc. exact (proj1 HF). }
  destruct (next_name_above (w_dir w) t Hs) as (n & Hn & Hlt).
  { rewrite Hd, Forall_map. destruct HF as (_ & HG & _).
    eapply Forall_impl; [|exact HG]. intros f (_ & _ & _ & _ & H).
    rewrite Hday. exact H. }
  destruct (remove_deprecated_sorted (w_dir w) (w_max_files w) Hs) as [k Hk].
  unfold roll. rewrite Hn, Hk. cbn [w_dir w_cur].
  rewrite Hday in *.
  rewrite filter_nokey_id.
  2:{ apply Forall_skipn_. eapply Forall_impl; [|exact Hlt]. intros f. apply klt_nokey. }
  exists (skipn k fs), n.
  split. { rewrite Hd, skipn_map_, map_app. reflexivity. }
  split; [reflexivity|].
  apply FI_snoc_empty.
  - apply FI_skipn. exact HF.
  - apply Forall_skipn_. rewrite Hd, Forall_map in Hlt. exact Hlt.
  - lia.
Qed.

(** * Appending to the current (last) file *)

Lemma upd_cur_last : forall w g fs0 cf,
  w_dir w = map conc (fs0 ++ [cf]) -> w_cur w = Some (akey cf) ->
  ksorted (map akey (fs0 ++ [cf])) ->
  w_dir (upd_cur w g) = map conc fs0 ++ [g (conc cf)] /\ w_cur (upd_cur w g) = Some (akey cf).
Proof.
  intros w g fs0 cf Hd Hc Hs. unfold upd_cur. rewrite Hc. unfold akey.
  cbn [w_dir w_cur]. split; [|reflexivity].
  rewrite Hd, !map_app. cbn [map].
  replace (same_file (conc cf) (a_day cf) (a_no cf)) with true
    by (symmetry; apply same_file_refl).
  rewrite map_nokey; [reflexivity|].
  rewrite map_app in Hs. apply ksorted_app in Hs. destruct Hs as (_ & _ & Hs).
  rewrite Forall_map in *. eapply Forall_impl; [|exact Hs]. intros f Hf.
  inversion Hf as [|? ? Hk _]; subst. apply klt_nokey. exact Hk.
Qed.

Lemma nondecr_app : forall L a b,
  nondecr a -> Forall (fun x => x <= L) a -> nondecr b -> Forall (fun y => L <= y) b ->
  nondecr (a ++ b).
Proof.
  intros L. induction a as [|x a IH]; intros b Ha Hla Hb Hlb; [exact Hb|].
  inversion Hla as [|? ? Hx Hla']; subst.
  destruct a as [|y a'].
  - cbn [List.app]. destruct b as [|z b']; [exact I|].
    inversion Hlb; subst. split; [lia | exact Hb].
  - destruct Ha as [Hxy Ha]. change (x <= y /\ nondecr ((y :: a') ++ b)).
    split; [exact Hxy|]. apply IH; assumption.
Qed.

Lemma nondecr_const : forall s l, Forall (fun x => x = s) l -> nondecr l.
Proof.
  intros s l H. induction H as [|x l Hx Hl IH]; [exact I|].
  destruct l as [|y l']; [exact I|]. inversion Hl; subst. split; [lia | exact IH].
Qed.

Lemma FI_replace_last : forall L L' fs0 cf cf' new,
  FI L (fs0 ++ [cf]) -> L <= L' -> akey cf' = akey cf -> a_items cf' = a_items cf ++ new ->
  file_good L' cf' -> Forall (fun i => sec_of i = L') new ->
  FI L' (fs0 ++ [cf']).
Proof.
  intros L L' fs0 cf cf' new (H1 & H2 & H3 & H4) HL Hk Hi Hg Hn.
  assert (HFM : flat_map a_items (fs0 ++ [cf']) = flat_map a_items (fs0 ++ [cf]) ++ new).
  { rewrite !flat_map_app. cbn [flat_map]. rewrite !app_nil_r, Hi, app_assoc. reflexivity. }
  split; [|split; [|split]].
  - rewrite map_app in *. cbn [map] in *. rewrite Hk. exact H1.
  - apply Forall_app in H2. destruct H2 as [H2 _]. apply Forall_app. split.
    + eapply Forall_impl; [|exact H2]. intros f. apply file_good_mono. exact HL.
    + constructor; [exact Hg | constructor].
  - rewrite HFM, map_app. apply nondecr_app with (L := L).
    + exact H3.
    + rewrite Forall_map. exact H4.
    + apply nondecr_const with (s := L'). rewrite Forall_map. exact Hn.
    + rewrite Forall_map. eapply Forall_impl; [|exact Hn]. cbv beta. intros; lia.
  - rewrite HFM. apply Forall_app. split.
    + eapply Forall_impl; [|exact H4]. cbv beta. intros; lia.
    + eapply Forall_impl; [|exact Hn]. cbv beta. intros; lia.
Qed.

Lemma items_with_ts_ok : forall ts items,
  Forall (fun i => item_wf (with_ts ts i) /\ name_ok i) items ->
  Forall (fun i => item_wf i /\ name_ok i) (map (with_ts ts) items).
Proof.
  intros ts items H. rewrite Forall_map. eapply Forall_impl; [|exact H].
  intros i [H1 H2]. split; [exact H1 | exact H2].
Qed.

Lemma FI_last_good : forall L fs0 cf, FI L (fs0 ++ [cf]) -> file_good L cf.
Proof.
  intros L fs0 cf (_ & H & _). apply Forall_app in H. destruct H as [_ H].
  inversion H; assumption.
Qed.

Lemma GI_append_new : forall L sec w fs0 cf ts items,
  GI L (w_dir w) (w_cur w) fs0 cf -> L <= sec -> sec = ts / 1000 ->
  Forall (fun e => fst e < sec) (a_ents cf) -> Forall (fun i => sec_of i < sec) (a_items cf) ->
  items <> [] ->
  Forall (fun i => item_wf (with_ts ts i) /\ name_ok i) items ->
  exists cf',
    GI sec (w_dir (upd_cur w (fun x => f_log_add (lines_of ts items) (f_idx_add sec x))))
           (w_cur (upd_cur w (fun x => f_log_add (lines_of ts items) (f_idx_add sec x)))) fs0 cf'.
Proof.
  intros L sec w fs0 cf ts items (Hd & Hc & HF) HL Hsec Hlt Hlti Hne Hit.
  pose proof (FI_last_good _ _ _ HF) as (G1 & G2 & G3 & G4 & G5).
  set (cf' := mkAF (a_day cf) (a_no cf) (a_items cf ++ map (with_ts ts) items)
                   (a_ents cf ++ [(sec, N.of_nat (length (log_of (a_items cf))))])).
  exists cf'.
  destruct (upd_cur_last w (fun x => f_log_add (lines_of ts items) (f_idx_add sec x)) fs0 cf Hd Hc (proj1 HF))
    as [Ed Ec].
  pose proof (sec_of_with_ts ts items) as Hsecs. rewrite <- Hsec in Hsecs.
  split; [|split].
  - rewrite Ed, map_app. cbn [map]. f_equal. f_equal.
    unfold f_log_add, f_idx_add, conc, cf'.
    cbn [f_day f_no f_log f_idx a_day a_no a_items a_ents].
    rewrite lines_of_log, log_of_app, idx_of_snoc. reflexivity.
  - rewrite Ec. reflexivity.
  - apply FI_replace_last with (L := L) (cf := cf) (new := map (with_ts ts) items);
      try assumption; try reflexivity.
    unfold file_good, cf'. cbn [a_day a_items a_ents].
    split; [|split; [|split; [|split]]].
    + apply Forall_app. split.
      * eapply Forall_impl; [|exact G1]. intros e. apply entry_ok_app.
      * constructor; [|constructor].
        exists (a_items cf), (map (with_ts ts) items). cbn [fst snd].
        split; [reflexivity|]. split; [reflexivity|]. split; [exact Hlti|].
        destruct items as [|i items]; [contradiction|]. cbn [map]. rewrite Hsec. reflexivity.
    + rewrite map_app. cbn [map fst]. apply increasing_snoc; [exact G2|].
      rewrite Forall_map. exact Hlt.
    + apply Forall_app. split.
      * eapply Forall_impl; [|exact Hlt]. cbv beta. intros; lia.
      * constructor; [cbn [fst]; lia | constructor].
    + apply Forall_app. split; [exact G4|]. apply items_with_ts_ok. exact Hit.
    + pose proof (N.div_le_mono L sec 86400). lia.
Qed.

Lemma GI_append_same : forall L w fs0 cf ts items,
  GI L (w_dir w) (w_cur w) fs0 cf -> L = ts / 1000 ->
  Forall (fun i => item_wf (with_ts ts i) /\ name_ok i) items ->
  exists cf',
    GI L (w_dir (upd_cur w (f_log_add (lines_of ts items))))
         (w_cur (upd_cur w (f_log_add (lines_of ts items)))) fs0 cf'.
Proof.
  intros L w fs0 cf ts items (Hd & Hc & HF) Hsec Hit.
  pose proof (FI_last_good _ _ _ HF) as (G1 & G2 & G3 & G4 & G5).
  set (cf' := mkAF (a_day cf) (a_no cf) (a_items cf ++ map (with_ts ts) items) (a_ents cf)).
  exists cf'.
  destruct (upd_cur_last w (f_log_add (lines_of ts items)) fs0 cf Hd Hc (proj1 HF)) as [Ed Ec].
  pose proof (sec_of_with_ts ts items) as Hsecs. rewrite <- Hsec in Hsecs.
  split; [|split].
  - rewrite Ed, map_app. cbn [map]. f_equal. f_equal.
    unfold f_log_add, conc, cf'.
    cbn [f_day f_no f_log f_idx a_day a_no a_items a_ents].
    rewrite lines_of_log, log_of_app. reflexivity.
  - rewrite Ec. reflexivity.
  - apply FI_replace_last with (L := L) (cf := cf) (new := map (with_ts ts) items);
      try assumption; try reflexivity; try lia.
    unfold file_good, cf'. cbn [a_day a_items a_ents].
    split; [|split; [|split; [|split]]].
    + eapply Forall_impl; [|exact G1]. intros e. apply entry_ok_app.
    + exact G2.
    + exact G3.
    + apply Forall_app. split; [exact G4|]. apply items_with_ts_ok. exact Hit.
    + exact G5.
Qed.

(** * One write *)

Definition GInv (w : mlw) : Prop :=
  exists fs0 cf, GI (w_latest w) (w_dir w) (w_cur w) fs0 cf.

Lemma FI_last_items : forall L fs0 cf, FI L (fs0 ++ [cf]) -> Forall (fun i => sec_of i <= L) (a_items cf).
Proof.
  intros L fs0 cf (_ & _ & _ & H4).
  rewrite flat_map_app in H4. apply Forall_app in H4. destruct H4 as [_ H4].
  cbn [flat_map] in H4. rewrite app_nil_r in H4. exact H4.
Qed.

Lemma mw2_GI : forall w ts items,
  GInv w -> items <> [] -> (ts / 1000 <? w_latest w) = false ->
  Forall (fun i => item_wf (with_ts ts i) /\ name_ok i) items ->
  exists fs0 cf, GI (ts / 1000) (w_dir (mw2 w ts items)) (w_cur (mw2 w ts items)) fs0 cf.
Proof.
  intros w ts items (fs0 & cf & H) Hne Hlt Hit. unfold mw2, mw1.
  destruct (w_latest w <? ts / 1000) eqn:E.
  - rewrite upd_cur_twice by (intros x; split; reflexivity).
    destruct (w_latest w / 86400 <? ts / 1000 / 86400) eqn:E2.
    + destruct H as (Hd & Hc & HF).
      destruct (roll_GI (w_latest w) (ts / 1000) w ts (fs0 ++ [cf]) Hd HF) as (fs0' & n & HG);
        [lia | apply day_of_ms_sec |].
      destruct (GI_append_new (ts / 1000) (ts / 1000) (roll w ts) fs0' _ ts items HG) as [cf' HG'];
        try assumption; try reflexivity; try lia; try (cbn [a_ents a_items]; constructor).
      exists fs0', cf'. exact HG'.
    + pose proof H as (Hd & Hc & HF).
      pose proof (FI_last_good _ _ _ HF) as (_ & _ & G3 & _).
      pose proof (FI_last_items _ _ _ HF) as G6.
      destruct (GI_append_new (w_latest w) (ts / 1000) w fs0 cf ts items H) as [cf' HG'];
        try assumption; try reflexivity; try lia.
      * eapply Forall_impl; [|exact G3]. cbv beta. intros; lia.
      * eapply Forall_impl; [|exact G6]. cbv beta. intros; lia.
      * exists fs0, cf'. exact HG'.
  - assert (EL : w_latest w = ts / 1000) by lia.
    destruct (GI_append_same (w_latest w) w fs0 cf ts items H EL Hit) as [cf' HG'].
    exists fs0, cf'. rewrite <- EL. exact HG'.
Qed.

Lemma mw3_GI : forall w ts items,
  (exists fs0 cf, GI (ts / 1000) (w_dir (mw2 w ts items)) (w_cur (mw2 w ts items)) fs0 cf) ->
  exists fs0 cf, GI (ts / 1000) (w_dir (mw3 w ts items)) (w_cur (mw3 w ts items)) fs0 cf.
Proof.
  intros w ts items H. unfold mw3.
  destruct (cur_file (mw2 w ts items)); [|exact H].
  destruct (_ <=? _); [|exact H].
  destruct H as (fs0 & cf & Hd & Hc & HF).
  destruct (roll_GI (ts / 1000) (ts / 1000) (mw2 w ts items) ts (fs0 ++ [cf]) Hd HF) as (fs0' & n & HG);
    [lia | apply day_of_ms_sec |].
  eexists; eexists; exact HG.
Qed.

Lemma mwrite_GInv : forall w ts items,
  GInv w -> Forall (fun i => item_wf (with_ts ts i) /\ name_ok i) items ->
  GInv (fst (mwrite w ts items)).
Proof.
  intros w ts items H Hit. apply mwrite_cases; [exact H|]. intros Hne Hlt.
  unfold GInv, mw_end. cbn [w_dir w_cur w_latest].
  replace (N.max (w_latest w) (ts / 1000)) with (ts / 1000) by lia.
  apply mw3_GI. apply mw2_GI; assumption.
Qed.

Lemma after_writes_GInv : forall ws w,
  GInv w ->
  Forall (fun x => fst x <= U64_MAX /\ Forall (fun i => item_wf (with_ts (fst x) i) /\ name_ok i) (snd x)) ws ->
  GInv (after_writes w ws).
Proof.
  unfold after_writes. induction ws as [|x ws IH]; intros w H Hws; cbn [fold_left]; [exact H|].
  inversion Hws as [|? ? [_ Hx] Hrest]; subst.
  apply IH; [|exact Hrest]. apply mwrite_GInv; assumption.
Qed.

(** * The final directory *)

Lemma sec_of_lt_U64 : forall i, item_wf i -> sec_of i < U64.
Proof.
  intros i (_ & H & _). unfold sec_of.
  pose proof (N.mul_div_le (mi_ts i) 1000). unfold U64_MAX in H. unfold U64. lia.
Qed.

Lemma FI_good_dir : forall L fs,
  FI L fs ->
  Forall (fun f => N.of_nat (length (f_log f)) < U64) (map conc fs) ->
  good_dir fs.
Proof.
  intros L fs (H1 & H2 & H3 & H4) HU. unfold good_dir.
  split; [|split; [|split; [|split]]].
  - apply sorted_files_sorted. rewrite fkey_conc. exact H1.
  - eapply Forall_impl; [|exact H2]. intros f (G1 & G2 & _). split; assumption.
  - eapply Forall_impl; [|exact H2]. intros f (_ & _ & _ & G4 & _). exact G4.
  - exact H3.
  - rewrite Forall_map in HU. pose proof (Forall_and H2 HU) as HB.
    eapply Forall_impl; [|exact HB]. cbv beta. intros f [(G1 & _ & _ & G4 & _) Hlen].
    change (f_log (conc f)) with (log_of (a_items f)) in Hlen.
    eapply Forall_impl; [|exact G1]. intros e (pre & post & Eit & Eoff & _ & Epost).
    split.
    + destruct post as [|i post]; [contradiction|]. rewrite <- Epost.
      apply sec_of_lt_U64. rewrite Eit in G4. apply Forall_app in G4. destruct G4 as [_ G4].
      inversion G4 as [|? ? [Hw _] _]; subst. exact Hw.
    + rewrite Eit, log_of_app, app_length in Hlen. lia.
Qed.

Theorem c19_written_dir_good : forall now max_size max_files w0 ws,
  writer_new now max_size max_files = Some w0 ->
  Forall (fun x => fst x <= U64_MAX /\ Forall (fun i => item_wf (with_ts (fst x) i) /\ name_ok i) (snd x)) ws ->
  Forall (fun f => N.of_nat (length (f_log f)) < U64) (w_dir (after_writes w0 ws)) ->
  exists fs, good_dir fs /\ w_dir (after_writes w0 ws) = map conc fs.
Proof.
  intros now ms mf w0 ws H Hws HU. apply writer_new_shape in H. destruct H as [_ ->].
  match type of HU with context [after_writes ?w ws] => set (w0 := w) in * end.
  assert (H0 : GInv w0).
  { unfold GInv, w0. cbn [w_dir w_cur w_latest].
    destruct (roll_GI 0 (now / 1000) (mkMLW [] None 0 ms mf) now []) as (fs0 & n & HG).
    - reflexivity.
    - repeat split; constructor.
    - lia.
    - apply day_of_ms_sec.
    - eexists; eexists; exact HG. }
  destruct (after_writes_GInv ws w0 H0 Hws) as (fs0 & cf & Hd & _ & HF).
  exists (fs0 ++ [cf]). split; [|exact Hd].
  apply FI_good_dir with (L := w_latest (after_writes w0 ws)); [exact HF|].
  rewrite <- Hd. exact HU.
Qed.

Print Assumptions c19_written_dir_good.
