(** C05 (hotspot part): the hotspot model with one concurrency rule satisfies [ok_c05h];
    corollary: the number of simultaneously open entries per value never exceeds the bound. *)
From SV Require Import Model.Base Model.Hotspot Spec.C05hSpec.
From Coq Require Import ZifyBool ZifyN ZifyNat.
Open Scope N_scope.

(** the concurrency counter of the rule's controller counts the open entries per value;
    an absent counter stands for 0 *)
Definition conc_inv (c : hctl) (open : list (N * hentry)) : Prop :=
  forall v, match hc_conc c v with
            | None => count_open (hc_rule c) v open = 0
            | Some k => k = count_open (hc_rule c) v open
            end.

Lemma count_open_cons r v id e open :
  count_open r v ((id, e) :: open) =
  (if opt_eqb (extract r (he_args e) (he_att e)) v then 1 else 0) + count_open r v open.
Proof. unfold count_open. simpl. destruct (opt_eqb _ v); simpl; lia. Qed.

Lemma find_hentry_count r v id open e rest :
  find_hentry id open = Some (e, rest) ->
  count_open r v open = (if opt_eqb (extract r (he_args e) (he_att e)) v then 1 else 0) + count_open r v rest.
Proof.
  revert rest. induction open as [|[i e0] tl IH]; simpl; intros rest H; [discriminate|].
  destruct (i =? id).
  - inversion H; subst. apply count_open_cons.
  - destruct (find_hentry id tl) as [[e' tl']|]; [|discriminate].
    inversion H; subst. rewrite !count_open_cons, (IH tl' eq_refl). lia.
Qed.

(** ** One step of the model with a single concurrency controller *)

(** the controller invariant: it carries rule [r] and its counters count [open] *)
Definition cinv (r : hrule) (c : hctl) (open : list (N * hentry)) : Prop :=
  hc_rule c = r /\ conc_inv c open.

(** a build whose value cannot be extracted passes; nothing changes but the open list *)
Lemma step_build_none r c now open id args att n :
  h_kind r = HConc -> cinv r c open ->
  extract r args att = None ->
  hexec (mkHW now [c] open) (HB id args att n) =
    (mkHW now [c] ((id, mkHE args att) :: open), HOAdmit now) /\
  cinv r c ((id, mkHE args att) :: open).
Proof.
  intros Hk [Hr Hinv] Ex.
  unfold hexec. cbn [hw_ctls hw_now hw_open hslot]. rewrite Hr, Ex. cbn [map].
  unfold conc_adjust. rewrite Hr, Hk, Ex.
  split; [reflexivity|]. split; [exact Hr|].
  intros v'. specialize (Hinv v'). rewrite Hr in *.
  rewrite count_open_cons. cbn [he_args he_att]. rewrite Ex. cbn [opt_eqb].
  destruct (hc_conc c v'); lia.
Qed.

Lemma fset_inv_up r c v open id args att m :
  hc_rule c = r -> conc_inv c open ->
  extract r args att = Some v ->
  (forall v', v' <> v -> m v' = hc_conc c v') ->
  m v = Some (count_open r v open + 1) ->
  cinv r (mkHC r (hc_time c) (hc_tok c) m) ((id, mkHE args att) :: open).
Proof.
  intros Hr Hinv Ex Hother Hsame. split; [reflexivity|].
  intros v'. cbn [hc_conc hc_rule].
  rewrite count_open_cons. cbn [he_args he_att]. rewrite Ex. cbn [opt_eqb].
  destruct (v =? v') eqn:E.
  - apply N.eqb_eq in E. subst v'. rewrite Hsame. lia.
  - assert (Hne : v' <> v) by (intros ->; rewrite N.eqb_refl in E; discriminate).
    rewrite (Hother v' Hne). specialize (Hinv v'). rewrite Hr in Hinv.
    destruct (hc_conc c v'); lia.
Qed.

Lemma fset_same (m : fmap) k x : fset m k x k = Some x.
Proof. unfold fset. rewrite N.eqb_refl. reflexivity. Qed.

Lemma fset_other (m : fmap) k x k' : k' <> k -> fset m k x k' = m k'.
Proof. intros H. unfold fset. destruct (k' =? k) eqn:E; [apply N.eqb_eq in E; contradiction|reflexivity]. Qed.

(** a build with value [v] below the bound passes and the counter of [v] goes up
    (an absent counter is first created at 0) *)
Lemma step_build_pass r c now open id args att n v :
  h_kind r = HConc -> cinv r c open ->
  extract r args att = Some v ->
  count_open r v open + 1 <=? thr_of r v = true ->
  exists c',
    hexec (mkHW now [c] open) (HB id args att n) =
      (mkHW now [c'] ((id, mkHE args att) :: open), HOAdmit now) /\
    cinv r c' ((id, mkHE args att) :: open).
Proof.
  intros Hk [Hr Hinv] Ex Et.
  pose proof (Hinv v) as Hv. rewrite Hr in Hv.
  unfold hexec. cbn [hw_ctls hw_now hw_open hslot]. rewrite Hr, Ex.
  unfold perform. rewrite Hr, Hk. unfold conc_check. rewrite Hr.
  destruct (hc_conc c v) as [k|] eqn:Ec.
  - subst k. rewrite Et. cbn [map]. unfold conc_adjust. rewrite Hr, Hk, Ex, Ec.
    eexists. split; [reflexivity|].
    apply fset_inv_up with (v := v); auto.
    + intros v' Hne. apply fset_other; exact Hne.
    + apply fset_same.
  - rewrite Hv, N.add_0_l in Et. rewrite Et.
    cbn [map]. unfold conc_adjust. cbn [hc_rule hc_conc hc_time hc_tok]. rewrite Hk, Ex.
    rewrite fset_same.
    eexists. split; [reflexivity|].
    apply fset_inv_up with (v := v); auto.
    + intros v' Hne. rewrite !fset_other by exact Hne. reflexivity.
    + rewrite fset_same, Hv. reflexivity.
Qed.

(** a build with value [v] at the bound is rejected with snapshot k + 1; the open list is
    unchanged (an absent counter is created at 0, which keeps the invariant) *)
Lemma step_build_block r c now open id args att n v :
  h_kind r = HConc -> cinv r c open ->
  extract r args att = Some v ->
  count_open r v open + 1 <=? thr_of r v = false ->
  exists c',
    hexec (mkHW now [c] open) (HB id args att n) =
      (mkHW now [c'] open, HOBlock (h_id r) (count_open r v open + 1) now) /\
    cinv r c' open.
Proof.
  intros Hk [Hr Hinv] Ex Et.
  pose proof (Hinv v) as Hv. rewrite Hr in Hv.
  unfold hexec. cbn [hw_ctls hw_now hw_open hslot]. rewrite Hr, Ex.
  unfold perform. rewrite Hr, Hk. unfold conc_check. rewrite Hr.
  destruct (hc_conc c v) as [k|] eqn:Ec.
  - subst k. rewrite Et. exists c. split; [reflexivity|]. split; assumption.
  - rewrite Hv, N.add_0_l in Et. rewrite Hv, N.add_0_l. rewrite Et. cbn [hc_rule].
    eexists. split; [reflexivity|].
    split; [reflexivity|]. intros v'. cbn [hc_conc hc_rule].
    destruct (v' =? v) eqn:E.
    + apply N.eqb_eq in E. subst v'. rewrite fset_same. lia.
    + assert (Hne : v' <> v) by (intros ->; rewrite N.eqb_refl in E; discriminate).
      rewrite fset_other by exact Hne. specialize (Hinv v'). rewrite Hr in Hinv. exact Hinv.
Qed.

(** completion of an open entry: the counter of its value goes down *)
Lemma step_exit_some r c now open id e rest :
  h_kind r = HConc -> cinv r c open ->
  find_hentry id open = Some (e, rest) ->
  exists c',
    hexec (mkHW now [c] open) (HX id) = (mkHW now [c'] rest, HOExited) /\
    cinv r c' rest.
Proof.
  intros Hk [Hr Hinv] Ef.
  unfold hexec. cbn [hw_ctls hw_now hw_open]. rewrite Ef. cbn [map].
  eexists. split; [reflexivity|].
  unfold conc_adjust. rewrite Hr, Hk.
  destruct (extract r (he_args e) (he_att e)) as [v|] eqn:Ex.
  - pose proof (Hinv v) as Hv. rewrite Hr in Hv.
    pose proof (find_hentry_count r v id open e rest Ef) as Hcv.
    rewrite Ex in Hcv. cbn [opt_eqb] in Hcv. rewrite N.eqb_refl in Hcv.
    destruct (hc_conc c v) as [k|] eqn:Ec.
    + split; [reflexivity|]. intros v'. cbn [hc_conc hc_rule].
      pose proof (find_hentry_count r v' id open e rest Ef) as Hc.
      rewrite Ex in Hc. cbn [opt_eqb] in Hc.
      destruct (v =? v') eqn:E.
      * apply N.eqb_eq in E. subst v'. rewrite fset_same. lia.
      * assert (Hne : v' <> v) by (intros ->; rewrite N.eqb_refl in E; discriminate).
        rewrite fset_other by exact Hne.
        specialize (Hinv v'). rewrite Hr in Hinv. destruct (hc_conc c v'); lia.
    + exfalso. lia.
  - split; [exact Hr|]. intros v'.
    pose proof (find_hentry_count r v' id open e rest Ef) as Hc.
    rewrite Ex in Hc. cbn [opt_eqb] in Hc.
    specialize (Hinv v'). rewrite Hr in *. destruct (hc_conc c v'); lia.
Qed.

Lemma step_exit_none c now open id :
  find_hentry id open = None ->
  hexec (mkHW now [c] open) (HX id) = (mkHW now [c] open, HONoEntry).
Proof. intros Ef. unfold hexec. cbn [hw_open]. rewrite Ef. reflexivity. Qed.

(** ** The main theorem, for any world with the single controller in its invariant *)
Theorem c05h_holds r : h_kind r = HConc ->
  forall ops now c open, cinv r c open ->
  ok_c05h r open ops (hrun (mkHW now [c] open) ops) = true.
Proof.
  intros Hk. induction ops as [|x tl IH]; intros now c open Hc; [reflexivity|].
  destruct x as [id args att n|id|dt]; cbn [hrun].
  - (* build *)
    destruct (extract r args att) as [v|] eqn:Ex.
    + destruct (count_open r v open + 1 <=? thr_of r v) eqn:Et.
      * destruct (step_build_pass r c now open id args att n v Hk Hc Ex Et) as (c' & He & Hc').
        rewrite He. cbn [ok_c05h]. rewrite Ex, Et. cbn [andb]. apply IH. exact Hc'.
      * destruct (step_build_block r c now open id args att n v Hk Hc Ex Et) as (c' & He & Hc').
        rewrite He. cbn [ok_c05h]. rewrite Ex, Et, !N.eqb_refl. cbn [andb negb]. apply IH. exact Hc'.
    + destruct (step_build_none r c now open id args att n Hk Hc Ex) as (He & Hc').
      rewrite He. cbn [ok_c05h]. rewrite Ex. apply IH. exact Hc'.
  - (* exit *)
    destruct (find_hentry id open) as [[e rest]|] eqn:Ef.
    + destruct (step_exit_some r c now open id e rest Hk Hc Ef) as (c' & He & Hc').
      rewrite He. cbn [ok_c05h]. rewrite Ef. apply IH. exact Hc'.
    + rewrite (step_exit_none c now open id Ef). cbn [ok_c05h]. rewrite Ef. apply IH. exact Hc.
  - (* clock advance *)
    cbn [hexec hw_now hw_ctls hw_open ok_c05h]. apply IH. exact Hc.
Qed.

Lemma cinv_init r : cinv r (hctl0 r) [].
Proof. split; [reflexivity|]. intros v. reflexivity. Qed.

Theorem c05h_holds_init : forall r base ops,
  h_kind r = HConc ->
  ok_c05h r [] ops (hrun (mkHW base [hctl0 r] []) ops) = true.
Proof. intros r base ops Hk. apply c05h_holds; auto using cinv_init. Qed.

(** ** Corollary: the per-value cap *)

(** the open-entry list the specification tracks along a run *)
Fixpoint open_after (open : list (N * hentry)) (ops : list hcmd) (obs : list hobs) : list (N * hentry) :=
  match ops, obs with
  | HB id args att _ :: ops', HOAdmit _ :: obs' => open_after ((id, mkHE args att) :: open) ops' obs'
  | HX id :: ops', _ :: obs' =>
      match find_hentry id open with
      | Some (_, rest) => open_after rest ops' obs'
      | None => open_after open ops' obs'
      end
  | _ :: ops', _ :: obs' => open_after open ops' obs'
  | _, _ => open
  end.

Definition cap_inv (r : hrule) (open : list (N * hentry)) : Prop :=
  forall v, count_open r v open <= thr_of r v.

(** any observation list accepted by the specification keeps every value within its bound *)
Lemma ok_c05h_cap r : forall ops obs open,
  ok_c05h r open ops obs = true -> cap_inv r open -> cap_inv r (open_after open ops obs).
Proof.
  induction ops as [|x tl IH]; intros obs open Hok Hcap; [destruct obs; exact Hcap|].
  destruct obs as [|o obs']; [destruct x; exact Hcap|].
  destruct x as [id args att n|id|dt]; cbn [ok_c05h open_after] in *.
  - destruct (extract r args att) as [v|] eqn:Ex.
    + destruct o as [ca|rl sn ca| | | |]; try discriminate.
      * apply andb_prop in Hok. destruct Hok as [Ht Hok].
        apply (IH _ _ Hok). intros v'. rewrite count_open_cons. cbn [he_args he_att].
        rewrite Ex. cbn [opt_eqb]. specialize (Hcap v').
        destruct (v =? v') eqn:E; [apply N.eqb_eq in E; subst v'|]; lia.
      * apply andb_prop in Hok. destruct Hok as [_ Hok]. apply (IH _ _ Hok Hcap).
    + destruct o as [ca|rl sn ca| | | |]; try discriminate.
      apply (IH _ _ Hok). intros v'. rewrite count_open_cons. cbn [he_args he_att].
      rewrite Ex. cbn [opt_eqb]. specialize (Hcap v'). lia.
  - destruct (find_hentry id open) as [[e rest]|] eqn:Ef.
    + destruct o; try discriminate. apply (IH _ _ Hok). intros v'.
      pose proof (find_hentry_count r v' id open e rest Ef) as Hc. specialize (Hcap v').
      destruct (opt_eqb _ v'); lia.
    + destruct o; try discriminate. apply (IH _ _ Hok Hcap).
  - destruct o; try discriminate. apply (IH _ _ Hok Hcap).
Qed.

Theorem c05h_cap : forall r base ops v,
  h_kind r = HConc ->
  count_open r v (open_after [] ops (hrun (mkHW base [hctl0 r] []) ops)) <= thr_of r v.
Proof.
  intros r base ops v Hk.
  apply (ok_c05h_cap r ops _ [] (c05h_holds_init r base ops Hk)).
  intros v'. unfold count_open. cbn [filter length]. lia.
Qed.
