(** C14: in flight = built - exited, per node. *)
From SV Require Import Model.Base Model.LeapArray Model.World Model.Conc Spec.C14Spec.
From SV Require Import Proofs.C14Frame Proofs.C14Code Proofs.C14Inv Proofs.C14Logs.
From Coq Require Import Lia ZifyBool ZifyN.
Open Scope N_scope.

Definition ns (s : sel) (st : cstate) : N := countb (fun x : N * nat * N * bool => sel_in s (snd x)) (c_seen st).
Definition nx (s : sel) (st : cstate) : N := countb (fun x : N * N * bool * N => sel_in s (snd (fst x))) (c_exits st).

Lemma countb_app {A} (f : A -> bool) l x : countb f (l ++ [x]) = countb f l + (if f x then 1 else 0).
Proof. unfold countb. rewrite filter_app, app_length. simpl. destruct (f x); simpl; lia. Qed.

Lemma sumN_upd : forall hs tid h h', nth_error hs tid = Some h -> sumN (upd hs tid h') + h = sumN hs + h'.
Proof.
  induction hs as [|x tl IH]; intros [|tid] h h' H; simpl in *; try discriminate.
  - inversion H; subst. lia.
  - specialize (IH _ _ h' H). lia.
Qed.
Lemma sumN_ge : forall hs tid h, nth_error hs tid = Some h -> h <= sumN hs.
Proof.
  induction hs as [|x tl IH]; intros [|tid] h H; simpl in *; try discriminate.
  - inversion H; subst. lia.
  - specialize (IH _ _ H). lia.
Qed.

Lemma n_conc_map_slot nd i f : n_conc (map_slot nd i f) = n_conc nd.
Proof. unfold map_slot. destruct (nth_error (n_slots nd) i); auto. Qed.

Definition hstep (s : sel) (i : instr) (h : N) : N :=
  match i with
  | IInc s0 => if sel_eqb s0 s then h + 1 else h
  | IDec s0 => if sel_eqb s0 s then h - 1 else h
  | _ => h
  end.

Lemma cover_step s i tl h : cover s (i :: tl) h = true ->
  cover s tl (hstep s i h) = true /\
  match i with IDec s0 => sel_eqb s0 s = true -> 0 < h | _ => True end.
Proof.
  destruct i; simpl; auto.
  destruct (sel_eqb s0 s); simpl; intros H; [|split; auto; discriminate].
  apply andb_prop in H. destruct H. split; auto. intros _. lia.
Qed.

Lemma n_conc_eff t i s nd :
  n_conc (node_eff t i s nd) =
  match i with
  | IInc s0 => if sel_eqb s0 s then n_conc nd + 1 else n_conc nd
  | IDec s0 => if sel_eqb s0 s then n_conc nd - 1 else n_conc nd
  | _ => n_conc nd
  end.
Proof.
  destruct i; simpl; auto; try (destruct (sel_eqb s0 s); simpl; auto);
  repeat match goal with
  | |- context [match ?x with _ => _ end] => destruct x
  end; auto; apply n_conc_map_slot.
Qed.

Definition conc_ok (s : sel) (st : cstate) (ths : list thr) : Prop :=
  (exists hs, length hs = length ths /\ sumN hs = n_conc (gnode st s) /\
     forall tid t h, nth_error ths tid = Some t -> nth_error hs tid = Some h -> cover s (t_code t) h = true) /\
  n_conc (gnode st s) + nx s st + sumf (fun t => cntI s (t_code t)) ths + sumf (fun t => cntR s (t_code t)) ths =
  ns s st + sumf (fun t => cntS s (t_code t)) ths + sumf (fun t => cntD s (t_code t)) ths.

Lemma exec_ns racy tid st t i st' t' p s :
  exec racy tid st t i = (st', t', p) ->
  ns s st' = ns s st + match i with ISeen _ inb => if sel_in s inb then 1 else 0 | _ => 0 end.
Proof.
  intros H. apply exec_seen in H. unfold ns. destruct i; rewrite H; try lia.
  rewrite countb_app. reflexivity.
Qed.

Lemma exec_nx racy tid st t i tl st' t' p s :
  balanced (i :: tl) (length (t_starts t)) = true ->
  exec racy tid st t i = (st', t', p) ->
  nx s st' = nx s st + match i with IRt _ inb => if sel_in s inb then 1 else 0 | _ => 0 end.
Proof.
  intros Hb H. apply exec_exits in H. unfold nx.
  destruct i; try (destruct H as [-> _]; lia).
  simpl in Hb. destruct (t_starts t); [discriminate|]. destruct H as [-> _].
  rewrite countb_app. reflexivity.
Qed.

Lemma conc_exec s st ths tid t i tl st' t' p :
  J1 st ths -> conc_ok s st ths -> nth_error ths tid = Some t -> t_code t = i :: tl ->
  exec false (N.of_nat tid) st (set_code t tl false) i = (st', t', p) ->
  conc_ok s st' (upd ths tid t').
Proof.
  intros HJ [(hs & Hlen & Hsum & Hcov) Heq] Hn Hc H.
  destruct (J1_facts _ _ _ _ _ _ HJ Hn Hc) as (Hm & Hn0 & Htch & Hb & _).
  pose proof (exec_code _ _ _ _ _ _ _ _ H) as [Hc' _]. simpl in Hc'.
  pose proof (exec_gnode _ _ (set_code t tl false) _ _ _ _ s Hm Hn0 Htch H) as Hg.
  pose proof (exec_ns _ _ _ _ _ _ _ _ s H) as Hns.
  pose proof (exec_nx _ _ _ (set_code t tl false) _ tl _ _ _ s Hb H) as Hnx.
  assert (Hh : exists h, nth_error hs tid = Some h).
  { destruct (nth_error hs tid) eqn:E; eauto. apply nth_error_None in E.
    assert (tid < length ths)%nat by (apply nth_error_Some; congruence). lia. }
  destruct Hh as [h Hh].
  pose proof (Hcov _ _ _ Hn Hh) as Hcv. rewrite Hc in Hcv.
  apply cover_step in Hcv. destruct Hcv as [Hcv Hpos].
  pose proof (sumN_ge _ _ _ Hh) as Hge.
  pose proof (sumN_upd _ _ _ (hstep s i h) Hh) as Hup.
  unfold conc_ok. rewrite Hg, n_conc_eff.
  split.
  - exists (upd hs tid (hstep s i h)). rewrite !length_upd. split; auto. split.
    + unfold hstep in *.
      destruct i; try lia; destruct (sel_eqb s0 s); try lia.
    + intros tid2 t2 h2 Hn2 Hh2.
      apply nth_upd_cases in Hn2 as [[<- ->]|[Hne Hn2]].
      * rewrite (nth_error_upd_same _ _ _ _ Hh) in Hh2.
        assert (h2 = hstep s i h) by congruence. subst h2. rewrite Hc'. auto.
      * rewrite nth_error_upd_other in Hh2 by auto. eauto.
  - rewrite Hns, Hnx.
    pose proof (sumf_upd (fun t => cntI s (t_code t)) _ _ _ t' Hn) as HI.
    pose proof (sumf_upd (fun t => cntR s (t_code t)) _ _ _ t' Hn) as HR.
    pose proof (sumf_upd (fun t => cntS s (t_code t)) _ _ _ t' Hn) as HS.
    pose proof (sumf_upd (fun t => cntD s (t_code t)) _ _ _ t' Hn) as HD.
    simpl in HI, HR, HS, HD. rewrite Hc, Hc' in HI, HR, HS, HD.
    destruct i; simpl in HI, HR, HS, HD; try lia.
    + destruct (sel_eqb s0 s); lia.
    + destruct (sel_eqb s0 s); try lia.
Qed.

Lemma conc_done s st ths tid t :
  conc_ok s st ths -> nth_error ths tid = Some t -> t_code t = [] ->
  conc_ok s st (upd ths tid (set_code t [] true)).
Proof.
  intros [(hs & Hlen & Hsum & Hcov) Heq] Hn Hc. split.
  - exists hs. rewrite length_upd. split; auto. split; auto.
    intros tid2 t2 h2 Hn2 Hh2. apply nth_upd_cases in Hn2 as [[<- ->]|[Hne Hn2]]; eauto.
  - pose proof (sumf_upd (fun t => cntI s (t_code t)) _ _ _ (set_code t [] true) Hn) as HI.
    pose proof (sumf_upd (fun t => cntR s (t_code t)) _ _ _ (set_code t [] true) Hn) as HR.
    pose proof (sumf_upd (fun t => cntS s (t_code t)) _ _ _ (set_code t [] true) Hn) as HS.
    pose proof (sumf_upd (fun t => cntD s (t_code t)) _ _ _ (set_code t [] true) Hn) as HD.
    simpl in HI, HR, HS, HD. rewrite Hc in HI, HR, HS, HD. simpl in *. lia.
Qed.
