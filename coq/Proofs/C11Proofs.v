(** C11 (identity part): along any run, a resource whose prescribed rule classes (pairwise
    different) did not change keeps its controller objects. *)
From SV Require Import Model.Base Model.Manager Spec.C10Spec Spec.C11Spec Proofs.C10Proofs.
From Coq Require Import Permutation.
Open Scope N_scope.

(** the two [class_of] are the same function *)
Lemma class_of_same : C11Spec.class_of = SV.Run.RunMgr.class_of.
Proof. reflexivity. Qed.

(** the identity observation of a controller list *)
Definition snap (l : list ctl) : idobs := map (fun c => (class_of (c_rule c), c_tok c, c_stat c)) l.

(** * same_ids *)

Lemma mem3_In x l : mem3 x l = true <-> In x l.
Proof.
  induction l as [|[[a b] c] tl IH]; cbn [mem3 In]; [split; [discriminate|tauto]|].
  destruct x as [[a' b'] c'].
  rewrite orb_true_iff, IH, !andb_true_iff, !N.eqb_eq. split; intros [H|H]; auto; left.
  - destruct H as [[-> ->] ->]; reflexivity.
  - inversion H; auto.
Qed.

Lemma same_ids_spec a b :
  same_ids a b = true <-> length a = length b /\ (forall x, In x a -> In x b) /\ (forall x, In x b -> In x a).
Proof.
  unfold same_ids. rewrite !andb_true_iff, Nat.eqb_eq, !forallb_forall.
  split.
  - intros [[H1 H2] H3]. repeat split; auto; intros x Hx; [apply mem3_In, H2, Hx|apply mem3_In, H3, Hx].
  - intros (H1 & H2 & H3). repeat split; auto; intros x Hx; [apply mem3_In, H2, Hx|apply mem3_In, H3, Hx].
Qed.

Lemma same_ids_refl a : same_ids a a = true.
Proof. apply same_ids_spec; auto. Qed.

Lemma same_ids_trans a b c : same_ids a b = true -> same_ids b c = true -> same_ids a c = true.
Proof.
  rewrite !same_ids_spec. intros (L1 & A1 & B1) (L2 & A2 & B2). repeat split; auto; congruence.
Qed.

Lemma same_ids_perm l l' : Permutation l l' -> same_ids (snap l) (snap l') = true.
Proof.
  intros P. assert (P' : Permutation (snap l) (snap l')) by (apply Permutation_map; exact P).
  apply same_ids_spec. repeat split.
  - apply Permutation_length; exact P'.
  - intros x. apply Permutation_in; exact P'.
  - intros x. apply Permutation_in, Permutation_sym; exact P'.
Qed.

(** * sorted class lists *)

Lemma nlist_eqb_eq : forall a b, nlist_eqb a b = true -> a = b.
Proof.
  induction a as [|x a IH]; intros [|y b] H; cbn [nlist_eqb] in H; try discriminate; [reflexivity|].
  apply andb_true_iff in H. destruct H as [H1 H2]. apply N.eqb_eq in H1. subst. f_equal; auto.
Qed.

Lemma nodup_classes_NoDup : forall l, nodup_classes l = true -> NoDup l.
Proof.
  induction l as [|x tl IH]; intros H; cbn [nodup_classes] in H; constructor.
  - apply andb_true_iff in H. destruct H as [H _]. intros Hin.
    assert (E : existsb (N.eqb x) tl = true) by (apply existsb_exists; exists x; split; [exact Hin|apply N.eqb_refl]).
    rewrite E in H. discriminate.
  - apply IH. apply andb_true_iff in H. tauto.
Qed.

Lemma insert_sorted_perm x : forall l, Permutation (insert_sorted x l) (x :: l).
Proof.
  induction l as [|y tl IH]; cbn [insert_sorted]; [reflexivity|].
  destruct (x <=? y); [reflexivity|].
  eapply perm_trans; [apply perm_skip, IH|apply perm_swap].
Qed.

Lemma sorted_perm l : Permutation (sorted_classes l) (map SV.Run.RunMgr.class_of l).
Proof.
  unfold sorted_classes. rewrite class_of_same.
  induction l as [|r tl IH]; cbn [map fold_right]; [reflexivity|].
  eapply perm_trans; [apply insert_sorted_perm|]. apply perm_skip, IH.
Qed.

Lemma sorted_nil l : sorted_classes l = [] -> l = [].
Proof.
  intros H. pose proof (sorted_perm l) as P. rewrite H in P.
  apply Permutation_nil in P. destruct l; [reflexivity|discriminate].
Qed.

(** * structure of one manager step on one resource *)

Lemma build_filter res : forall rules old next,
  build res (filter (fun r => r_res r =? res) rules) old next = build res rules old next.
Proof.
  induction rules as [|r tl IH]; intros old next; cbn [filter]; [reflexivity|].
  destruct (r_res r =? res) eqn:E; cbn [build]; rewrite E; cbn [negb]; [|apply IH].
  destruct (reuse_index r old 0 None) as [[i|] [j|]].
  - destruct (nth_error old i); rewrite IH; reflexivity.
  - destruct (nth_error old i); rewrite IH; reflexivity.
  - destruct (nth_error old j); rewrite IH; reflexivity.
  - rewrite IH; reflexivity.
Qed.

Lemma build_all_struct rs live : forall ks next acc acc' nx,
  build_all ks rs live next acc = (acc', nx) ->
  forall k, acc' k = acc k \/
            exists nxt rest nx', build k (valid_of (group rs k)) (live k) nxt = (acc' k, rest, nx').
Proof.
  induction ks as [|k0 tl IH]; intros next acc acc' nx H k; cbn [build_all] in H.
  - inversion H; subst; auto.
  - destruct (valid_of (group rs k0)) as [|r0 vl] eqn:V; [eapply IH; eauto|].
    destruct (build k0 (r0 :: vl) (live k0) next) as [[nw rest] nx1] eqn:B.
    destruct (IH _ _ _ _ H k) as [E|E]; [|right; exact E].
    destruct nw as [|c l]; [left; exact E|].
    unfold set_map in E. destruct (k =? k0) eqn:Ek; [|left; exact E].
    apply N.eqb_eq in Ek; subst k0. right. rewrite V, E. eauto.
Qed.

Definition Step3 (m : mgr) (f' : refmap) (l' : list ctl) (k : N) : Prop :=
  l' = m_live m k \/ l' = [] \/
  exists R nxt rest nx, build k R (m_live m k) nxt = (l', rest, nx) /\
                        filter (fun r => r_res r =? k) R = ref_rules f' k.

Lemma given_eqb_eq mg ml mk mn fg rs :
  (forall k, mg k = fg k) -> given_eqb (mkMgr mg ml mk mn) rs = ref_given_eqb (mkRef fg mk) rs.
Proof.
  intros Hg. unfold given_eqb, ref_given_eqb. cbn [m_given m_keys rf_given rf_keys].
  apply forallb_ext'. intros k. rewrite Hg. reflexivity.
Qed.

Lemma step_struct iso m f o k :
  inv m f -> Step3 m (fst (rstep iso f o)) (m_live (fst (mstep iso m o)) k) k.
Proof.
  intros I. destruct m as [mg ml mk mn], f as [fg fk].
  destruct I as (Hg & Hk & Hl). cbn in Hg, Hk, Hl. subst fk. unfold Step3.
  destruct o as [rs|res rs|r| |res]; cbn [mstep rstep m_given m_live m_keys m_next rf_given rf_keys].
  - rewrite (given_eqb_eq _ _ _ _ _ _ Hg).
    destruct (ref_given_eqb (mkRef fg mk) rs); [left; reflexivity|].
    destruct (build_all (res_of rs) rs ml mn (fun _ => [])) as [live' nx] eqn:B.
    cbn [fst m_live]. destruct (build_all_struct _ _ _ _ _ _ _ B k) as [E|(nxt & rest & nx' & B')].
    + right; left; exact E.
    + right; right. exists (valid_of (group rs k)), nxt, rest, nx'. split; [exact B'|].
      unfold ref_rules, valid_of. cbn [rf_given]. rewrite filter_and. reflexivity.
  - destruct (res =? 0); [left; reflexivity|].
    destruct (dedup rs) as [|g0 gl] eqn:D.
    + cbn [fst m_live]. unfold set_map. destruct (k =? res); [right; left|left]; reflexivity.
    + rewrite (Hg res). destruct (set_eqb (fg res) (g0 :: gl)); [left; reflexivity|].
      destruct (build res (valid_of (g0 :: gl)) (ml res) mn) as [[nw rest] nx] eqn:B.
      cbn [fst m_live]. unfold ref_rules, set_map. cbn [rf_given].
      destruct (k =? res) eqn:E; [|left; reflexivity].
      apply N.eqb_eq in E; subst k. right; right.
      exists (valid_of (g0 :: gl)), mn, rest, nx. split; [exact B|].
      unfold valid_of. rewrite filter_and. reflexivity.
  - rewrite (Hg (r_res r)).
    destruct (mem_rule r (if iso then valid_of (fg (r_res r)) else fg (r_res r))); [left; reflexivity|].
    destruct (negb (r_valid r)); [left; reflexivity|].
    destruct (build (r_res r) (valid_of (fg (r_res r) ++ [r])) (ml (r_res r)) mn) as [[nw rest] nx] eqn:B.
    cbn [fst m_live]. unfold ref_rules, set_map. cbn [rf_given].
    destruct (k =? r_res r) eqn:E; [|left; reflexivity].
    apply N.eqb_eq in E; subst k. right; right.
    exists (valid_of (fg (r_res r) ++ [r])), mn, rest, nx. split; [exact B|].
    unfold valid_of. rewrite filter_and. reflexivity.
  - cbn [fst m_live]. right; left; reflexivity.
  - cbn [fst m_live]. unfold set_map. destruct (k =? res); [right; left|left]; reflexivity.
Qed.

(** * a step that keeps the prescribed classes (pairwise different) of a resource keeps its
    controllers, up to order *)

Lemma ref_rules_res f k : Forall (fun r => r_res r = k) (ref_rules f k).
Proof.
  apply Forall_forall. intros r H. unfold ref_rules in H. apply filter_In in H.
  destruct H as [_ H]. apply andb_true_iff in H. destruct H as [_ H]. apply N.eqb_eq; exact H.
Qed.

Lemma step_perm iso m f o k :
  inv m f -> LiveRes (m_live m) ->
  sorted_classes (ref_rules (fst (rstep iso f o)) k) = sorted_classes (ref_rules f k) ->
  nodup_classes (sorted_classes (ref_rules f k)) = true ->
  Permutation (m_live (fst (mstep iso m o)) k) (m_live m k).
Proof.
  intros I L HS ND.
  destruct (step_inv iso m f o I) as [I' _].
  pose proof (step_struct iso m f o k I) as S.
  set (m' := fst (mstep iso m o)) in *. set (f' := fst (rstep iso f o)) in *.
  destruct I as (_ & _ & Hl). destruct I' as (_ & _ & Hl').
  specialize (Hl k). specialize (Hl' k).
  destruct S as [E|[E|(R & nxt & rest & nx & B & HR)]].
  - rewrite E. reflexivity.
  - rewrite E in *. cbn [map] in Hl'. symmetry in Hl'. apply map_eq_nil in Hl'.
    rewrite Hl' in HS. cbn in HS. symmetry in HS. apply sorted_nil in HS.
    rewrite HS in Hl. cbn [map] in Hl. apply map_eq_nil in Hl. rewrite Hl. constructor.
  - rewrite <- build_filter, HR in B.
    assert (P : Permutation (map SV.Run.RunMgr.class_of (ref_rules f' k))
                            (map SV.Run.RunMgr.class_of (ref_rules f k))).
    { eapply perm_trans; [apply Permutation_sym, sorted_perm|]. rewrite HS. apply sorted_perm. }
    assert (N1 : NoDup (map SV.Run.RunMgr.class_of (ref_rules f k))).
    { eapply Permutation_NoDup; [apply sorted_perm|]. apply nodup_classes_NoDup; exact ND. }
    assert (N2 : NoDup (map SV.Run.RunMgr.class_of (ref_rules f' k))).
    { eapply Permutation_NoDup; [apply Permutation_sym; exact P|exact N1]. }
    assert (LR : Forall (fun c => r_res (c_rule c) = k) (m_live m k)).
    { apply Forall_forall. intros c Hc. apply (L k c Hc). }
    destruct (build_perm k (ref_rules f' k) (m_live m k) nxt) as (nw & B' & Pn & _).
    + apply (class_exact_res k); [apply ref_rules_res|exact LR].
    + apply ref_rules_res.
    + unfold NoDupClasses. change (NoDup (map cls (m_live m k))). rewrite Hl. exact N1.
    + exact N2.
    + intros x. change (In x (map SV.Run.RunMgr.class_of (ref_rules f' k)) <-> In x (map cls (m_live m k))).
      rewrite Hl. split; apply Permutation_in; [exact P|apply Permutation_sym; exact P].
    + rewrite B in B'. inversion B'; subst nw. exact Pn.
Qed.

(** * the bookkeeping invariant *)

Definition LastOK (m : mgr) (f : refmap) (last : lastmap) : Prop :=
  forall k cls0 ob0, In (k, (cls0, ob0)) last ->
    cls0 = sorted_classes (ref_rules f k) /\
    (nodup_classes cls0 = true -> same_ids (snap (m_live m k)) ob0 = true).

Lemma lookup_last_In res : forall last v, lookup_last res last = Some v -> In (res, v) last.
Proof.
  induction last as [|[k v0] tl IH]; intros v H; cbn [lookup_last] in H; [discriminate|].
  destruct (k =? res) eqn:E.
  - apply N.eqb_eq in E. inversion H; subst. left; reflexivity.
  - right; apply IH; exact H.
Qed.

Lemma c11_gen iso : forall ops m f last,
  inv m f -> LiveRes (m_live m) -> LastOK m f last ->
  ok_c11 iso f last ops (c11_run iso m ops) = true.
Proof.
  induction ops as [|[o|res] tl IH]; intros m f last I L LO; cbn [ok_c11 c11_run]; [reflexivity| |].
  - apply IH.
    + apply step_inv; exact I.
    + apply mstep_live_res; exact L.
    + intros k cls0 ob0 Hin. apply filter_In in Hin. destruct Hin as [Hin E]. cbn [fst snd] in E.
      apply nlist_eqb_eq in E. destruct (LO _ _ _ Hin) as [Ec Hs]. split; [symmetry; exact E|].
      intros ND. eapply same_ids_trans; [|apply Hs; exact ND].
      apply same_ids_perm. eapply step_perm; eauto; congruence.
  - apply andb_true_iff. split.
    + destruct (lookup_last res last) as [[cls0 ob0]|] eqn:LL; [|reflexivity].
      apply lookup_last_In in LL. destruct (LO _ _ _ LL) as [Ec Hs].
      match goal with |- (if ?c then _ else _) = true => destruct c eqn:C end; [|reflexivity].
      apply andb_true_iff in C. destruct C as [C _]. apply andb_true_iff in C. destruct C as [C _].
      apply andb_true_iff in C. destruct C as [_ C]. apply Hs. rewrite Ec. exact C.
    + apply IH; auto.
      intros k cls0 ob0 [Hin|Hin].
      * inversion Hin; subst. split; [reflexivity|]. intros _. apply same_ids_refl.
      * apply filter_In in Hin. destruct Hin as [Hin _]. apply (LO _ _ _ Hin).
Qed.

Theorem c11_identity : forall iso ops,
  ok_c11 iso ref0 [] ops (c11_run iso mgr0 ops) = true.
Proof.
  intros. apply c11_gen.
  - apply inv0.
  - intros k c [].
  - intros k cls0 ob0 [].
Qed.

Print Assumptions c11_identity.
