(** C19: the line-limited search on a well-formed directory, and both searches on a directory whose
    last file was torn by a crash. *)
From SV Require Import Model.Base Model.MetricLine Model.MetricLog Spec.C19Inv Spec.C19Search Spec.C19Crash
  Proofs.C18Proofs Proofs.C19Proofs Proofs.C19SearchProofs Proofs.C19GoodProofs.
From Coq Require Import Lia ZifyBool ZifyN ZifyNat.
Open Scope N_scope.

(** * The listing order looks at the keys only *)

Fixpoint chain (l : list mfile) : Prop :=
  match l with
  | x :: ((y :: _) as tl) => file_ltb y x = false /\ chain tl
  | _ => True
  end.

Lemma file_ltb_irrefl : forall x, file_ltb x x = false.
Proof. intros x. unfold file_ltb. rewrite !N.ltb_irrefl. reflexivity. Qed.

Lemma file_ltb_keys : forall x y x' y', fkey x = fkey x' -> fkey y = fkey y' ->
  file_ltb x y = file_ltb x' y'.
Proof.
  intros x y x' y' Hx Hy. unfold fkey in Hx, Hy. injection Hx as Hx1 Hx2. injection Hy as Hy1 Hy2.
  unfold file_ltb. rewrite Hx1, Hx2, Hy1, Hy2. reflexivity.
Qed.

Lemma sorted_chain : forall l, sorted_files l = l -> chain l.
Proof.
  induction l as [|x l IH]; intros H; [exact I|].
  change (sorted_files (x :: l)) with (insert_file x (sorted_files l)) in H.
  destruct (sorted_files l) as [|y tl] eqn:E.
  - cbn [insert_file] in H. injection H as H. subst l. exact I.
  - cbn [insert_file] in H. destruct (file_ltb y x) eqn:L.
    + injection H as H1 H2. subst y. rewrite file_ltb_irrefl in L. discriminate.
    + injection H as H. subst l. split; [exact L|]. apply IH. reflexivity.
Qed.

Lemma chain_sorted : forall l, chain l -> sorted_files l = l.
Proof.
  induction l as [|x l IH]; intros H; [reflexivity|].
  change (sorted_files (x :: l)) with (insert_file x (sorted_files l)).
  destruct l as [|y tl]; [reflexivity|].
  destruct H as [H1 H2]. rewrite IH by exact H2. cbn [insert_file]. rewrite H1. reflexivity.
Qed.

Lemma chain_keys : forall l l', map fkey l = map fkey l' -> chain l -> chain l'.
Proof.
  induction l as [|x l IH]; intros [|x' l'] E H; try discriminate; [exact I|].
  cbn [map] in E. injection E as Ed En El.
  assert (Ex : fkey x = fkey x') by (unfold fkey; rewrite Ed, En; reflexivity).
  destruct l as [|y tl]; destruct l' as [|y' tl']; try discriminate; [exact I|].
  destruct H as [H1 H2]. split.
  - cbn [map] in El. injection El as Ed' En' _.
    assert (Ey : fkey y = fkey y') by (unfold fkey; rewrite Ed', En'; reflexivity).
    rewrite <- (file_ltb_keys y x y' x' Ey Ex). exact H1.
  - apply IH; assumption.
Qed.

Lemma sorted_files_keys : forall l l', map fkey l = map fkey l' ->
  sorted_files l = l -> sorted_files l' = l'.
Proof.
  intros l l' E H. apply chain_sorted. apply (chain_keys l l' E). apply sorted_chain. exact H.
Qed.

(** * A torn index *)

Lemma find_offset_short : forall fuel R bsec off, (length R < 16)%nat ->
  find_offset fuel R bsec off = OffErr.
Proof.
  intros [|f] R bsec off H; [reflexivity|]. cbn [find_offset].
  destruct (length R <? 8)%nat eqn:E; [reflexivity|].
  replace (length (skipn 8 R) <? 8)%nat with true; [reflexivity|].
  rewrite skipn_length. symmetry. apply Nat.ltb_lt. apply Nat.ltb_ge in E. lia.
Qed.

Lemma find_offset_idx_tail : forall bsec ents R,
  Forall (fun e => fst e < U64 /\ snd e < U64) ents -> (length R < 16)%nat ->
  forall fuel off, (length ents < fuel)%nat ->
  find_offset fuel (idx_of ents ++ R) bsec off =
  match find (fun e : N * N => bsec <=? fst e) ents with Some e => OffOk (snd e) | None => OffErr end.
Proof.
  intros bsec ents R H HR. induction H as [|e tl [He1 He2] Htl IH]; intros fuel off Hf.
  - change (idx_of []) with (@nil N). cbn [List.app find]. apply find_offset_short. exact HR.
  - destruct fuel as [|fuel]; [cbn [length] in Hf; lia|].
    rewrite idx_of_cons, <- !app_assoc, find_offset_step by assumption. cbn [find].
    destruct (bsec <=? fst e); [reflexivity|]. apply IH. cbn [length] in Hf. lia.
Qed.

Lemma idx_of_len16 : forall ents, length (idx_of ents) = (16 * length ents)%nat.
Proof.
  induction ents as [|e tl IH]; [reflexivity|].
  rewrite idx_of_cons, !app_length, !be64_length, IH. cbn [length]. lia.
Qed.

Lemma idx_of_app : forall a b, idx_of (a ++ b) = idx_of a ++ idx_of b.
Proof. intros a b. unfold idx_of. apply flat_map_app. Qed.

Lemma firstn_idx_app : forall A B j, (16 * length A <= j < 16 * S (length A))%nat ->
  exists R, (length R < 16)%nat /\ firstn j (idx_of (A ++ B)) = idx_of A ++ R.
Proof.
  intros A B j Hj. rewrite idx_of_app, firstn_app.
  rewrite (firstn_all2 (n := j) (idx_of A)) by (rewrite idx_of_len16; lia).
  exists (firstn (j - length (idx_of A)) (idx_of B)). split; [|reflexivity].
  pose proof (firstn_le_length (j - length (idx_of A)) (idx_of B)) as HL.
  rewrite idx_of_len16 in *. rewrite firstn_length. lia.
Qed.

(** * A torn log *)

Lemma firstn_log_app : forall A B k, Forall name_ok B ->
  (length (log_of A) <= k)%nat ->
  match B with [] => True | b :: _ => (k < length (log_of A) + S (length (to_line b)))%nat end ->
  exists P, nolf P /\ firstn k (log_of (A ++ B)) = log_of A ++ P.
Proof.
  intros A B k HB H1 H2. rewrite log_of_app, firstn_app.
  rewrite (firstn_all2 (n := k) (log_of A)) by exact H1.
  exists (firstn (k - length (log_of A)) (log_of B)). split; [|reflexivity].
  destruct B as [|b B'].
  - change (log_of []) with (@nil N). rewrite firstn_nil. constructor.
  - inversion HB as [|? ? Hb _]; subst.
    change (to_line b ++ 10 :: log_of B') with (to_line b ++ (10 :: log_of B')).
    rewrite log_of_cons, firstn_app.
    replace (k - length (log_of A) - length (to_line b))%nat with 0%nat by lia.
    cbn [firstn]. rewrite app_nil_r. apply nolf_firstn. apply to_line_nolf. exact Hb.
Qed.

Lemma firstn_S_app : forall {A} (a : list A) b tl, firstn (S (length a)) (a ++ b :: tl) = a ++ [b].
Proof.
  intros A a b tl. rewrite firstn_app, firstn_all2 by lia.
  replace (S (length a) - length a)%nat with 1%nat by lia. reflexivity.
Qed.

Lemma torn_log_shape_gen : forall (items : list mitem) (n k : nat),
  (n <= length items)%nat ->
  (length (log_of (firstn n items)) <= k)%nat ->
  (n < length items -> k < length (log_of (firstn (S n) items)))%nat ->
  Forall name_ok items ->
  exists P, nolf P /\ firstn k (log_of items) = log_of (firstn n items) ++ P.
Proof.
  intros items n k H1 H3 H4 Hn.
  assert (E : items = firstn n items ++ skipn n items) by (symmetry; apply firstn_skipn).
  assert (LA : length (firstn n items) = n) by (apply firstn_length_le; exact H1).
  revert H3 E LA. generalize (firstn n items) (skipn n items). intros A B H3 E LA. subst items n.
  apply firstn_log_app.
  - apply Forall_app in Hn. tauto.
  - exact H3.
  - destruct B as [|b B']; [exact I|].
    assert (HA : (length A < length (A ++ b :: B'))%nat) by (rewrite app_length; cbn [length]; lia).
    specialize (H4 HA).
    rewrite firstn_S_app, log_of_app, app_length, log_of_cons_length in H4.
    change (log_of []) with (@nil N) in H4. cbn [length] in H4. lia.
Qed.

Lemma torn_log_shape : forall t, torn_ok t -> Forall name_ok (t_items t) ->
  exists P, nolf P /\
    firstn (t_k t) (log_of (t_items t)) = log_of (firstn (t_n t) (t_items t)) ++ P.
Proof.
  intros t (H1 & _ & H3 & H4 & _) Hn. apply torn_log_shape_gen; assumption.
Qed.

(** * A file as the search sees it: its index finds what the entries say, and from the offset of
      an entry it reads the lines of the items behind it, followed by the lines [T] *)

Definition repr (mf : mfile) (a : afile) (T : list bytes) : Prop :=
  (forall bsec, find_offset (S (length (f_idx mf))) (f_idx mf) bsec 0 =
                match find (fun e : N * N => bsec <=? fst e) (a_ents a) with
                | Some e => OffOk (snd e) | None => OffErr end) /\
  (forall pre post, a_items a = pre ++ post ->
     lines_from mf (N.of_nat (length (log_of pre))) = map to_line post ++ T).

(** the last file may also hold one more index entry than [a] has (a dangling entry, written before
    the first line of its second): when no entry of [a] is at or after the begin second the index
    may still give an offset, from which only the lines [T] are read *)
Definition repr_last (mf : mfile) (a : afile) (T : list bytes) : Prop :=
  (forall bsec,
     find_offset (S (length (f_idx mf))) (f_idx mf) bsec 0 =
       match find (fun e : N * N => bsec <=? fst e) (a_ents a) with
       | Some e => OffOk (snd e) | None => OffErr end
     \/
     (find (fun e : N * N => bsec <=? fst e) (a_ents a) = None /\
      exists off, find_offset (S (length (f_idx mf))) (f_idx mf) bsec 0 = OffOk off /\
                  lines_from mf off = T)) /\
  (forall pre post, a_items a = pre ++ post ->
     lines_from mf (N.of_nat (length (log_of pre))) = map to_line post ++ T).

Inductive dir_repr : list mfile -> list afile -> list bytes -> Prop :=
| dr_nil : dir_repr [] [] []
| dr_one : forall mf a T, repr_last mf a T -> dir_repr [mf] [a] T
| dr_cons : forall mf a ms fs T, repr mf a [] -> dir_repr ms fs T -> dir_repr (mf :: ms) (a :: fs) T.

Lemma lines_log_tail : forall post P, Forall name_ok post -> nolf P ->
  map clean_line (split_lines (log_of post ++ P) []) =
  map to_line post ++ map clean_line (split_lines P []).
Proof.
  intros post P H HP. induction H as [|i items Hi Hrest IH].
  - reflexivity.
  - rewrite log_of_cons, <- app_assoc, <- app_comm_cons.
    rewrite split_lines_app_gen by (apply to_line_nolf; exact Hi).
    cbn [List.rev List.app map]. rewrite IH, clean_line_to_line. reflexivity.
Qed.

Lemma repr_file : forall mf a P R,
  f_log mf = log_of (a_items a) ++ P -> nolf P -> Forall name_ok (a_items a) ->
  f_idx mf = idx_of (a_ents a) ++ R -> (length R < 16)%nat ->
  Forall (fun e => fst e < U64 /\ snd e < U64) (a_ents a) ->
  repr mf a (map clean_line (split_lines P [])).
Proof.
  intros mf a P R HL HP Hn HI HR HU. split.
  - intros bsec. rewrite HI. apply find_offset_idx_tail; [exact HU | exact HR |].
    rewrite app_length. pose proof (idx_of_length (a_ents a)). lia.
  - intros pre post Hit. unfold lines_from.
    rewrite HL, Hit, Nat2N.id, log_of_app, <- app_assoc, skipn_len_app by reflexivity.
    apply lines_log_tail; [|exact HP].
    rewrite Hit in Hn. apply Forall_app in Hn. tauto.
Qed.

Lemma repr_conc : forall a, Forall name_ok (a_items a) ->
  Forall (fun e => fst e < U64 /\ snd e < U64) (a_ents a) -> repr (conc a) a [].
Proof.
  intros a Hn HU.
  apply (repr_file (conc a) a [] []); try assumption.
  - cbn [conc f_log]. rewrite app_nil_r. reflexivity.
  - constructor.
  - cbn [conc f_idx]. rewrite app_nil_r. reflexivity.
  - cbn [length]. lia.
Qed.

Lemma repr_lines_zero : forall mf a T, repr mf a T ->
  lines_from mf 0 = map to_line (a_items a) ++ T.
Proof. intros mf a T [_ H]. exact (H [] (a_items a) eq_refl). Qed.

Lemma repr_last_lines_zero : forall mf a T, repr_last mf a T ->
  lines_from mf 0 = map to_line (a_items a) ++ T.
Proof. intros mf a T [_ H]. exact (H [] (a_items a) eq_refl). Qed.

Lemma repr_last_of_repr : forall mf a T, repr mf a T -> repr_last mf a T.
Proof. intros mf a T [H1 H2]. split; [|exact H2]. intros bsec. left. apply H1. Qed.

(** * Reading by time with trailing lines *)

Lemma read_by_time_app : forall L1 L2 bsec esec res acc,
  read_by_time (L1 ++ L2) bsec esec res acc =
  (let '(r, c) := read_by_time L1 bsec esec res acc in
   if c then read_by_time L2 bsec esec res (List.rev r) else (r, false)).
Proof.
  induction L1 as [|l L1 IH]; intros L2 bsec esec res acc.
  - cbn [List.app read_by_time]. rewrite rev_involutive. reflexivity.
  - cbn [List.app read_by_time]. destruct (from_line l) as [it|]; [|apply IH].
    destruct ((mi_ts it / 1000 <? bsec) || (esec <? mi_ts it / 1000))%bool; [reflexivity|].
    apply IH.
Qed.

Lemma read_by_time_any : forall T bsec esec res acc, exists extra c,
  (length extra <= length T)%nat /\
  read_by_time T bsec esec res acc = (List.rev acc ++ extra, c).
Proof.
  induction T as [|l T IH]; intros bsec esec res acc.
  - exists [], true. split; [cbn [length]; lia|]. cbn [read_by_time]. rewrite app_nil_r. reflexivity.
  - cbn [read_by_time]. destruct (from_line l) as [it|].
    + destruct ((mi_ts it / 1000 <? bsec) || (esec <? mi_ts it / 1000))%bool.
      * exists [], false. split; [cbn [length]; lia|]. rewrite app_nil_r. reflexivity.
      * destruct (match res with [] => true | _ :: _ => false end || bytes_eqb res (mi_res it))%bool.
        -- destruct (IH bsec esec res (it :: acc)) as (extra & c & HL & E).
           exists (it :: extra), c. split; [cbn [length]; lia|].
           rewrite E. cbn [List.rev]. rewrite <- app_assoc. reflexivity.
        -- destruct (IH bsec esec res acc) as (extra & c & HL & E).
           exists extra, c. split; [cbn [length]; lia | exact E].
    + destruct (IH bsec esec res acc) as (extra & c & HL & E).
      exists extra, c. split; [cbn [length]; lia | exact E].
Qed.

Lemma read_items_tail : forall bsec esec res items T, Forall (okb bsec) items ->
  exists extra c, (length extra <= length T)%nat /\
    read_by_time (map to_line items ++ T) bsec esec res [] =
    (if forallb (fun i => sec_of i <=? esec) items then (sel esec res items ++ extra, c)
     else (sel esec res items, false)).
Proof.
  intros bsec esec res items T H.
  rewrite read_by_time_app, (read_items bsec esec res items H []). cbn [List.rev List.app].
  destruct (forallb (fun i => sec_of i <=? esec) items).
  - destruct (read_by_time_any T bsec esec res (List.rev (sel esec res items))) as (extra & c & HL & E).
    exists extra, c. split; [exact HL|]. rewrite E, rev_involutive. reflexivity.
  - exists [], false. split; [cbn [length]; lia | reflexivity].
Qed.

Lemma read_files_tail : forall ms fs T, dir_repr ms fs T ->
  forall bsec esec res, Forall (okb bsec) (flat_map a_items fs) ->
  exists extra, (length extra <= length T)%nat /\
    read_files_by_time ms bsec esec res = sel esec res (flat_map a_items fs) ++ extra.
Proof.
  intros ms fs T D. induction D as [|mf a T R|mf a ms fs T R D IH]; intros bsec esec res H.
  - exists []. split; [cbn [length]; lia | reflexivity].
  - cbn [flat_map] in *. rewrite app_nil_r in *.
    cbn [read_files_by_time]. rewrite (repr_last_lines_zero mf a T R).
    destruct (read_items_tail bsec esec res (a_items a) T H) as (extra & c & HL & E).
    rewrite E. destruct (forallb _ (a_items a)).
    + exists extra. split; [exact HL|]. destruct c; [rewrite app_nil_r|]; reflexivity.
    + exists []. split; [cbn [length]; lia|]. rewrite app_nil_r. reflexivity.
  - cbn [flat_map] in *. apply Forall_app in H. destruct H as [H1 H2].
    cbn [read_files_by_time]. rewrite (repr_lines_zero mf a [] R), app_nil_r.
    rewrite (read_items bsec esec res (a_items a) H1 []). cbn [List.rev List.app].
    rewrite sel_app. destruct (forallb _ (a_items a)).
    + destruct (IH bsec esec res H2) as (extra & HL & E). exists extra. split; [exact HL|].
      rewrite E, app_assoc. reflexivity.
    + exists []. split; [cbn [length]; lia|]. rewrite app_nil_r. reflexivity.
Qed.

(** * What an index entry found by the search gives *)

Lemma entry_found : forall f fs e bsec, gd (f :: fs) ->
  find (fun e : N * N => bsec <=? fst e) (a_ents f) = Some e ->
  exists pre post,
    a_items f = pre ++ post /\ snd e = N.of_nat (length (log_of pre)) /\
    after_offset (a_items f) (N.to_nat (snd e)) = post /\
    Forall (okb bsec) (post ++ flat_map a_items fs).
Proof.
  intros f fs e bsec (G1 & G2 & G3 & G4) E.
  inversion G1 as [|? ? Ge _]; inversion G2 as [|? ? Gi Gis]; subst.
  apply find_some in E. destruct E as [Ein Eb].
  rewrite Forall_forall in Ge. destruct (Ge e Ein) as (pre & post & Hit & Hoff & Hpre & Hpost).
  destruct post as [|i0 post]; [contradiction|].
  exists pre, (i0 :: post). split; [exact Hit|]. split; [exact Hoff|]. split.
  { rewrite Hit, Hoff, Nat2N.id. apply after_offset_pre. }
  rewrite Hit in Gi. apply Forall_app in Gi. destruct Gi as [_ Gi].
  cbn [flat_map] in G3. rewrite Hit, <- app_assoc, map_app in G3.
  apply nondecr_app_r in G3. cbn [List.app map] in G3.
  pose proof (nondecr_head _ _ G3) as HF. rewrite Hpost in HF.
  assert (HW : Forall (fun i => item_wf i /\ name_ok i) ((i0 :: post) ++ flat_map a_items fs)).
  { apply Forall_app. split; [exact Gi|]. apply Forall_flat_map. exact Gis. }
  assert (HS : Forall (fun i => fst e <= sec_of i) ((i0 :: post) ++ flat_map a_items fs)).
  { cbn [List.app]. constructor; [lia|]. rewrite Forall_map in HF. exact HF. }
  pose proof (Forall_and HW HS) as HB.
  eapply Forall_impl; [|exact HB]. cbv beta. intros i [[Hw Hn] Hs].
  split; [exact Hw|]. split; [exact Hn|]. lia.
Qed.

(** * Search by time *)

Lemma search_time_tail : forall ms fs T, dir_repr ms fs T ->
  forall bsec esec res, gd fs ->
  exists extra, (length extra <= length T)%nat /\
    search_from ms bsec (rdf bsec esec res) =
    match from_first_entry fs bsec with None => [] | Some items => sel esec res items end ++ extra.
Proof.
  intros ms fs T D. induction D as [|mf a T R|mf a ms fs T R D IH]; intros bsec esec res G.
  - exists []. split; [cbn [length]; lia | reflexivity].
  - cbn [search_from from_first_entry].
    destruct (proj1 R bsec) as [E0|(E0 & off & E1 & E2)]; cycle 1.
    { rewrite E0, E1. unfold rdf. rewrite E2.
      destruct (read_by_time_any T bsec esec res []) as (extra & c & HL & E3).
      rewrite E3. cbn [List.rev List.app]. exists extra. split; [exact HL|].
      destruct c; [cbn [read_files_by_time]; rewrite app_nil_r|]; reflexivity. }
    rewrite E0.
    destruct (find (fun e : N * N => bsec <=? fst e) (a_ents a)) as [e|] eqn:E.
    + destruct (entry_found a [] e bsec G E) as (pre & post & Hit & Hoff & HA & HB).
      rewrite HA. cbn [flat_map] in *. rewrite app_nil_r in *.
      unfold rdf. rewrite Hoff, (proj2 R pre post Hit).
      destruct (read_items_tail bsec esec res post T HB) as (extra & c & HL & E2).
      rewrite E2. destruct (forallb _ post).
      * exists extra. split; [exact HL|]. destruct c; [cbn [read_files_by_time]; rewrite app_nil_r|]; reflexivity.
      * exists []. split; [cbn [length]; lia|]. rewrite app_nil_r. reflexivity.
    + exists []. split; [cbn [length]; lia | reflexivity].
  - pose proof (gd_tail a fs G) as Gt.
    cbn [search_from from_first_entry]. rewrite (proj1 R bsec).
    destruct (find (fun e : N * N => bsec <=? fst e) (a_ents a)) as [e|] eqn:E.
    + destruct (entry_found a fs e bsec G E) as (pre & post & Hit & Hoff & HA & HB).
      rewrite HA. apply Forall_app in HB. destruct HB as [HB1 HB2].
      unfold rdf. rewrite Hoff, (proj2 R pre post Hit), app_nil_r.
      rewrite (read_items bsec esec res post HB1 []). cbn [List.rev List.app].
      rewrite sel_app. destruct (forallb _ post).
      * destruct (read_files_tail ms fs T D bsec esec res HB2) as (extra & HL & E2).
        exists extra. split; [exact HL|]. rewrite E2, app_assoc. reflexivity.
      * exists []. split; [cbn [length]; lia|]. rewrite app_nil_r. reflexivity.
    + apply IH. exact Gt.
Qed.

(** * Reading with a line limit *)

Definition sec_at (l : list mitem) (k : nat) : N := sec_of (nth k l dummy_item).

(** whatever was taken beyond the limit belongs to the second of the last line within it *)
Definition minv (max : N) (pre : list mitem) : Prop :=
  0 < max -> forall k, (N.to_nat max <= k < length pre)%nat ->
  sec_at pre k = sec_at pre (N.to_nat max - 1).

(** once the limit is reached, [last] is the second of the last line taken *)
Definition lastok (max : N) (pre : list mitem) (last : N) : Prop :=
  0 < max -> (N.to_nat max <= length pre)%nat -> last = sec_at pre (length pre - 1).

Lemma minv_snoc : forall max pre last i, minv max pre ->
  ((length pre < N.to_nat max)%nat \/ (lastok max pre last /\ sec_of i = last)) ->
  minv max (pre ++ [i]).
Proof.
  intros max pre last i Hinv Hor Hpos k Hk. rewrite app_length in Hk. cbn [length] in Hk.
  unfold sec_at. destruct (Nat.eq_dec k (length pre)) as [->|Hne].
  - destruct Hor as [Hlt|[Hl Hs]]; [lia|].
    rewrite app_nth2 by lia. rewrite Nat.sub_diag. cbn [nth].
    rewrite app_nth1 by lia. rewrite Hs, (Hl Hpos) by lia.
    destruct (Nat.eq_dec (length pre - 1) (N.to_nat max - 1)) as [->|Hne]; [reflexivity|].
    apply Hinv; [exact Hpos | lia].
  - rewrite !app_nth1 by lia. apply Hinv; [exact Hpos | lia].
Qed.

Lemma lastok_snoc : forall max pre i, lastok max (pre ++ [i]) (sec_of i).
Proof.
  intros max pre i _ _. unfold sec_at. rewrite app_length. cbn [length].
  rewrite app_nth2 by lia.
  replace (length pre + 1 - 1 - length pre)%nat with 0%nat by lia. reflexivity.
Qed.

Lemma rev_map_snoc : forall (l : list mitem) i,
  List.rev (map norm (l ++ [i])) = norm i :: List.rev (map norm l).
Proof. intros l i. rewrite map_app, rev_app_distr. reflexivity. Qed.

Lemma read_max_items : forall max T items, Forall item_wf items ->
  forall pre0 accI last,
  minv max (pre0 ++ accI) -> lastok max (pre0 ++ accI) last ->
  exists n, (n <= length items)%nat /\ minv max ((pre0 ++ accI) ++ firstn n items) /\
    (((N.to_nat max <= length (pre0 ++ accI) + n)%nat /\
      read_max (map to_line items ++ T) max last (N.of_nat (length pre0)) (List.rev (map norm accI)) =
      (map norm (accI ++ firstn n items), false))
     \/
     (n = length items /\ exists last', lastok max ((pre0 ++ accI) ++ items) last' /\
      read_max (map to_line items ++ T) max last (N.of_nat (length pre0)) (List.rev (map norm accI)) =
      read_max T max last' (N.of_nat (length pre0)) (List.rev (map norm (accI ++ items))))).
Proof.
  intros max T items H. induction H as [|i items Hw Hrest IH]; intros pre0 accI last Hinv Hlast.
  - exists 0%nat. cbn [firstn length map List.app]. rewrite !app_nil_r.
    split; [lia|]. split; [exact Hinv|]. right. split; [reflexivity|].
    exists last. split; [exact Hlast | reflexivity].
  - cbn [map List.app read_max]. rewrite (c18_roundtrip i Hw).
    change (mi_ts (norm i) / 1000) with (sec_of i).
    rewrite rev_length, map_length.
    destruct ((max <=? N.of_nat (length pre0) + N.of_nat (length accI)) && negb (sec_of i =? last))%bool eqn:C.
    + exists 0%nat. cbn [firstn]. rewrite !app_nil_r.
      split; [lia|]. split; [exact Hinv|]. left. split.
      * rewrite app_length. lia.
      * rewrite rev_involutive. reflexivity.
    + assert (Hinv' : minv max (pre0 ++ accI ++ [i])).
      { rewrite app_assoc. apply (minv_snoc max (pre0 ++ accI) last i Hinv).
        rewrite app_length.
        destruct (max <=? N.of_nat (length pre0) + N.of_nat (length accI)) eqn:C1.
        - right. split; [exact Hlast|]. cbn [andb] in C. lia.
        - left. lia. }
      assert (Hlast' : lastok max (pre0 ++ accI ++ [i]) (sec_of i)).
      { rewrite app_assoc. apply lastok_snoc. }
      destruct (IH pre0 (accI ++ [i]) (sec_of i) Hinv' Hlast') as (n & Hn & Hi & Hd).
      rewrite rev_map_snoc in Hd.
      exists (S n). cbn [firstn length].
      replace ((pre0 ++ accI) ++ i :: firstn n items) with ((pre0 ++ accI ++ [i]) ++ firstn n items)
        by (rewrite <- !app_assoc; reflexivity).
      replace ((pre0 ++ accI) ++ i :: items) with ((pre0 ++ accI ++ [i]) ++ items)
        by (rewrite <- !app_assoc; reflexivity).
      replace (accI ++ i :: firstn n items) with ((accI ++ [i]) ++ firstn n items)
        by (rewrite <- !app_assoc; reflexivity).
      replace (accI ++ i :: items) with ((accI ++ [i]) ++ items)
        by (rewrite <- !app_assoc; reflexivity).
      split; [lia|]. split; [exact Hi|].
      destruct Hd as [[Hm E]|[Hm E]].
      * left. split; [|exact E]. rewrite !app_length in *. cbn [length] in *. lia.
      * right. split; [lia | exact E].
Qed.

Lemma read_max_any : forall T max last prev acc, exists extra c,
  (length extra <= length T)%nat /\ read_max T max last prev acc = (List.rev acc ++ extra, c).
Proof.
  induction T as [|l T IH]; intros max last prev acc.
  - eexists [], _. split; [cbn [length]; lia|]. cbn [read_max]. rewrite app_nil_r. reflexivity.
  - cbn [read_max]. destruct (from_line l) as [it|].
    + destruct ((max <=? prev + N.of_nat (length acc)) && negb (mi_ts it / 1000 =? last))%bool.
      * exists [], false. split; [cbn [length]; lia|]. rewrite app_nil_r. reflexivity.
      * destruct (IH max (mi_ts it / 1000) prev (it :: acc)) as (extra & c & HL & E).
        exists (it :: extra), c. split; [cbn [length]; lia|].
        rewrite E. cbn [List.rev]. rewrite <- app_assoc. reflexivity.
    + destruct (IH max last prev acc) as (extra & c & HL & E).
      exists extra, c. split; [cbn [length]; lia | exact E].
Qed.

Lemma minv_nil : forall max, minv max [].
Proof. intros max _ k Hk. cbn [length] in Hk. lia. Qed.

Lemma lastok_short : forall max pre last, (length pre < N.to_nat max)%nat -> lastok max pre last.
Proof. intros max pre last H _ H2. lia. Qed.

(** reading the files that follow, [pre] being what was taken so far *)
Lemma read_files_max_tail : forall max ms fs T, dir_repr ms fs T ->
  Forall item_wf (flat_map a_items fs) ->
  forall pre, minv max pre ->
  exists n extra, (n <= length (flat_map a_items fs))%nat /\ (length extra <= length T)%nat /\
    minv max (pre ++ firstn n (flat_map a_items fs)) /\
    (n = length (flat_map a_items fs) \/ (N.to_nat max <= length pre + n)%nat) /\
    read_files_max ms max (map norm pre) = map norm (pre ++ firstn n (flat_map a_items fs)) ++ extra.
Proof.
  intros max ms fs T D. induction D as [|mf a T R|mf a ms fs T R D IH]; intros Hw pre Hinv.
  - exists 0%nat, []. cbn [flat_map firstn length read_files_max]. rewrite !app_nil_r.
    split; [lia|]. split; [lia|]. split; [exact Hinv|]. split; [left|]; reflexivity.
  - cbn [flat_map] in *. rewrite app_nil_r in *. cbn [read_files_max]. rewrite map_length.
    destruct (max <=? N.of_nat (length pre)) eqn:C.
    + exists 0%nat, []. cbn [firstn length]. rewrite !app_nil_r.
      split; [lia|]. split; [lia|]. split; [exact Hinv|]. split; [right; lia | reflexivity].
    + rewrite (repr_last_lines_zero mf a T R).
      destruct (read_max_items max T (a_items a) Hw pre [] (latest_sec (map norm pre)))
        as (n & Hn & Hi & Hd).
      { rewrite app_nil_r. exact Hinv. }
      { rewrite app_nil_r. apply lastok_short. lia. }
      cbn [map List.rev List.app] in Hd. rewrite !app_nil_r in *.
      destruct Hd as [[Hm E]|[Hm (last' & _ & E)]].
      * rewrite E. exists n, []. rewrite app_nil_r, map_app.
        split; [exact Hn|]. split; [cbn [length]; lia|]. split; [exact Hi|].
        split; [right; exact Hm | reflexivity].
      * rewrite E.
        destruct (read_max_any T max last' (N.of_nat (length pre)) (List.rev (map norm (a_items a))))
          as (extra & c & HL & E2).
        rewrite E2, rev_involutive. subst n. rewrite firstn_all in *.
        exists (length (a_items a)), extra. rewrite firstn_all.
        split; [lia|]. split; [exact HL|]. split; [exact Hi|]. split; [left; reflexivity|].
        destruct c; cbn [read_files_max]; rewrite map_app, app_assoc; reflexivity.
  - cbn [flat_map] in *. apply Forall_app in Hw. destruct Hw as [Hw1 Hw2].
    cbn [read_files_max]. rewrite map_length.
    destruct (max <=? N.of_nat (length pre)) eqn:C.
    + exists 0%nat, []. cbn [firstn length]. rewrite !app_nil_r.
      split; [lia|]. split; [lia|]. split; [exact Hinv|]. split; [right; lia | reflexivity].
    + rewrite (repr_lines_zero mf a [] R).
      destruct (read_max_items max [] (a_items a) Hw1 pre [] (latest_sec (map norm pre)))
        as (n & Hn & Hi & Hd).
      { rewrite app_nil_r. exact Hinv. }
      { rewrite app_nil_r. apply lastok_short. lia. }
      cbn [map List.rev List.app] in Hd. rewrite !app_nil_r in *.
      assert (HF : firstn n (a_items a ++ flat_map a_items fs) = firstn n (a_items a)).
      { rewrite firstn_app. replace (n - length (a_items a))%nat with 0%nat by lia.
        cbn [firstn]. apply app_nil_r. }
      destruct Hd as [[Hm E]|[Hm (last' & _ & E)]].
      * rewrite E. exists n, []. rewrite HF, app_nil_r, map_app, app_length.
        split; [lia|]. split; [cbn [length]; lia|]. split; [exact Hi|].
        split; [right; exact Hm | reflexivity].
      * rewrite E. cbn [read_max]. rewrite rev_involutive, rev_length, map_length.
        subst n. rewrite firstn_all in Hi.
        destruct (N.of_nat (length pre) + N.of_nat (length (a_items a)) <? max) eqn:C2.
        -- rewrite <- map_app.
           destruct (IH Hw2 (pre ++ a_items a) Hi) as (n' & extra & Hn' & HL & Hi' & Hor & E2).
           exists (length (a_items a) + n')%nat, extra.
           rewrite firstn_app_2, app_assoc, app_length.
           split; [lia|]. split; [exact HL|]. split; [exact Hi'|].
           split; [|exact E2]. rewrite app_length in Hor. lia.
        -- exists (length (a_items a)), []. rewrite HF, firstn_all, app_nil_r, map_app, app_length.
           split; [lia|]. split; [cbn [length]; lia|]. split; [exact Hi|].
           split; [right; lia | reflexivity].
Qed.

(** * Search with a line limit *)

Definition rdm (max : N) : mfile -> N -> list mfile -> list mitem :=
  fun f off rest =>
    let '(items, cont) := read_max (lines_from f off) max 0 0 [] in
    if cont then read_files_max rest max items else items.

Lemma nth_firstn_lt : forall {A} (l : list A) n k d, (k < n)%nat -> nth k (firstn n l) d = nth k l d.
Proof.
  intros A l. induction l as [|x l IH]; intros n k d H.
  - rewrite firstn_nil. reflexivity.
  - destruct n as [|n]; [lia|]. cbn [firstn]. destruct k as [|k]; [reflexivity|].
    cbn [nth]. apply IH. lia.
Qed.

Lemma max_ok_intro : forall items max n, (n <= length items)%nat ->
  minv max (firstn n items) -> (n = length items \/ (N.to_nat max <= n)%nat) ->
  max_ok items max (map norm (firstn n items)).
Proof.
  intros items max n Hn Hinv Hor. exists n. split; [reflexivity|]. split; [exact Hor|].
  intros Hpos k Hk. specialize (Hinv Hpos k). rewrite firstn_length_le in Hinv by exact Hn.
  unfold sec_at in Hinv. rewrite !nth_firstn_lt in Hinv by lia. apply Hinv. exact Hk.
Qed.

Lemma gd_items_wf : forall fs, gd fs -> Forall item_wf (flat_map a_items fs).
Proof.
  intros fs (_ & G2 & _). apply Forall_flat_map.
  eapply Forall_impl; [|exact G2]. cbv beta. intros f H.
  eapply Forall_impl; [|exact H]. cbv beta. intros i [Hw _]. exact Hw.
Qed.

Lemma okb_wf : forall bsec items, Forall (okb bsec) items -> Forall item_wf items.
Proof. intros bsec items H. eapply Forall_impl; [|exact H]. intros i (Hw & _). exact Hw. Qed.

Lemma search_max_tail : forall ms fs T, dir_repr ms fs T ->
  forall bsec max, gd fs ->
  exists extra, (length extra <= length T)%nat /\
    match from_first_entry fs bsec with
    | None => search_from ms bsec (rdm max) = extra
    | Some items => exists out, max_ok items max out /\ search_from ms bsec (rdm max) = out ++ extra
    end.
Proof.
  intros ms fs T D. induction D as [|mf a T R|mf a ms fs T R D IH]; intros bsec max G.
  - exists []. split; [cbn [length]; lia|]. cbn [from_first_entry search_from]. reflexivity.
  - cbn [search_from from_first_entry].
    destruct (proj1 R bsec) as [E0|(E0 & off & E1 & E2)]; cycle 1.
    { rewrite E0, E1. unfold rdm. rewrite E2.
      destruct (read_max_any T max 0 0 []) as (extra & c & HL & E3).
      rewrite E3. cbn [List.rev List.app]. exists extra. split; [exact HL|].
      destruct c; reflexivity. }
    rewrite E0.
    destruct (find (fun e : N * N => bsec <=? fst e) (a_ents a)) as [e|] eqn:E.
    + destruct (entry_found a [] e bsec G E) as (pre & post & Hit & Hoff & HA & HB).
      rewrite HA. cbn [flat_map] in *. rewrite app_nil_r in *.
      unfold rdm. rewrite Hoff, (proj2 R pre post Hit).
      destruct (read_max_items max T post (okb_wf _ _ HB) [] [] 0 (minv_nil max))
        as (n & Hn & Hi & Hd).
      { intros Hp Hm. cbn [length List.app] in Hm. lia. }
      cbn [map List.rev List.app length] in Hd, Hi. change (N.of_nat 0) with 0 in Hd.
      destruct Hd as [[Hm E2]|[Hm (last' & _ & E2)]].
      * rewrite E2. exists []. split; [cbn [length]; lia|].
        exists (map norm (firstn n post)). split; [|rewrite app_nil_r; reflexivity].
        apply max_ok_intro; [exact Hn | exact Hi | right; lia].
      * rewrite E2.
        destruct (read_max_any T max last' 0 (List.rev (map norm post))) as (extra & c & HL & E3).
        rewrite E3, rev_involutive. exists extra. split; [exact HL|].
        exists (map norm post). split; [|destruct c; reflexivity].
        subst n. rewrite firstn_all in Hi. rewrite <- (firstn_all post) at 2.
        apply max_ok_intro; [lia | rewrite firstn_all; exact Hi | left; reflexivity].
    + exists []. split; [cbn [length]; lia|]. cbn [search_from]. reflexivity.
  - pose proof (gd_tail a fs G) as Gt.
    cbn [search_from from_first_entry]. rewrite (proj1 R bsec).
    destruct (find (fun e : N * N => bsec <=? fst e) (a_ents a)) as [e|] eqn:E.
    + destruct (entry_found a fs e bsec G E) as (pre & post & Hit & Hoff & HA & HB).
      rewrite HA. apply Forall_app in HB. destruct HB as [HB1 HB2].
      unfold rdm. rewrite Hoff, (proj2 R pre post Hit).
      destruct (read_max_items max [] post (okb_wf _ _ HB1) [] [] 0 (minv_nil max))
        as (n & Hn & Hi & Hd).
      { intros Hp Hm. cbn [length List.app] in Hm. lia. }
      cbn [map List.rev List.app length] in Hd, Hi. change (N.of_nat 0) with 0 in Hd.
      assert (HF : forall n', firstn (length post + n') (post ++ flat_map a_items fs) =
                              post ++ firstn n' (flat_map a_items fs)).
      { intros n'. apply firstn_app_2. }
      destruct Hd as [[Hm E2]|[Hm (last' & _ & E2)]].
      * rewrite E2. exists []. split; [cbn [length]; lia|].
        exists (map norm (firstn n post)). split; [|rewrite app_nil_r; reflexivity].
        assert (HF2 : firstn n (post ++ flat_map a_items fs) = firstn n post).
        { rewrite firstn_app. replace (n - length post)%nat with 0%nat by lia.
          cbn [firstn]. apply app_nil_r. }
        rewrite <- HF2. apply max_ok_intro.
        -- rewrite app_length. lia.
        -- rewrite HF2. exact Hi.
        -- right. lia.
      * rewrite E2. cbn [read_max]. rewrite rev_involutive, rev_length, map_length.
        subst n. rewrite firstn_all in Hi.
        destruct (0 + N.of_nat (length post) <? max) eqn:C.
        -- destruct (read_files_max_tail max ms fs T D (okb_wf _ _ HB2) post Hi)
             as (n' & extra & Hn' & HL & Hi' & Hor & E3).
           rewrite E3. exists extra. split; [exact HL|].
           exists (map norm (post ++ firstn n' (flat_map a_items fs))). split; [|reflexivity].
           rewrite <- HF. apply max_ok_intro.
           ++ rewrite app_length. lia.
           ++ rewrite HF. exact Hi'.
           ++ rewrite app_length. lia.
        -- exists []. split; [cbn [length]; lia|].
           exists (map norm post). split; [|rewrite app_nil_r; reflexivity].
           replace post with (firstn (length post + 0) (post ++ flat_map a_items fs)) at 2
             by (rewrite HF; cbn [firstn]; apply app_nil_r).
           apply max_ok_intro.
           ++ rewrite app_length. lia.
           ++ rewrite HF. cbn [firstn]. rewrite app_nil_r. exact Hi.
           ++ right. lia.
    + apply IH. exact Gt.
Qed.

(** * Directories *)

Lemma dir_repr_snoc : forall fs lastf c T,
  Forall (fun f => Forall name_ok (a_items f) /\
                   Forall (fun e => fst e < U64 /\ snd e < U64) (a_ents f)) fs ->
  repr_last lastf c T -> dir_repr (map conc fs ++ [lastf]) (fs ++ [c]) T.
Proof.
  intros fs lastf c T H R. induction H as [|f fs [Hn Hu] _ IH].
  - apply dr_one. exact R.
  - cbn [map List.app]. apply dr_cons; [apply repr_conc; assumption | exact IH].
Qed.

Lemma dir_repr_conc : forall fs,
  Forall (fun f => Forall name_ok (a_items f) /\
                   Forall (fun e => fst e < U64 /\ snd e < U64) (a_ents f)) fs ->
  dir_repr (map conc fs) fs [].
Proof.
  intros fs H. induction H as [|f fs [Hn Hu] _ IH].
  - apply dr_nil.
  - cbn [map]. apply dr_cons; [apply repr_conc; assumption | exact IH].
Qed.

Lemma good_dir_gd : forall fs, good_dir fs -> gd fs.
Proof.
  intros fs (_ & H1 & H2 & H3 & H4).
  split; [|split; [exact H2 | split; [exact H3 | exact H4]]].
  eapply Forall_impl; [|exact H1]. intros f [H _]. exact H.
Qed.

Lemma good_dir_files : forall fs, good_dir fs ->
  Forall (fun f => Forall name_ok (a_items f) /\
                   Forall (fun e => fst e < U64 /\ snd e < U64) (a_ents f)) fs.
Proof.
  intros fs (_ & _ & H2 & _ & H4). pose proof (Forall_and H2 H4) as H.
  eapply Forall_impl; [|exact H]. cbv beta. intros f [Hi Hu]. split; [|exact Hu].
  eapply Forall_impl; [|exact Hi]. cbv beta. intros i [_ Hn]. exact Hn.
Qed.

Lemma le0_nil : forall {A} (l : list A), (length l <= 0)%nat -> l = [].
Proof. intros A [|x l] H; [reflexivity | cbn [length] in H; lia]. Qed.

(** the line-limited search on a well-formed directory: a prefix in write order of what lies
    behind the first index entry at or after the begin second, cut at a second boundary *)
Lemma c19_find_max_lines_prefix : forall fs begin_ms max,
  good_dir fs ->
  match from_first_entry fs (begin_ms / 1000) with
  | None => find_max_lines (map conc fs) begin_ms max = []
  | Some items => max_ok items max (find_max_lines (map conc fs) begin_ms max)
  end.
Proof.
  intros fs begin_ms max G.
  pose proof (dir_repr_conc fs (good_dir_files fs G)) as D.
  destruct (search_max_tail _ _ _ D (begin_ms / 1000) max (good_dir_gd fs G)) as (extra & HL & H).
  apply le0_nil in HL. subst extra.
  unfold find_max_lines. rewrite (proj1 G). fold (rdm max).
  destruct (from_first_entry fs (begin_ms / 1000)) as [items|].
  - destruct H as (out & Hm & E). rewrite E, app_nil_r. exact Hm.
  - exact H.
Qed.

Lemma Forall_firstn_ : forall {A} (P : A -> Prop) n l, Forall P l -> Forall P (firstn n l).
Proof.
  intros A P n l H. rewrite <- (firstn_skipn n l) in H. apply Forall_app in H. tauto.
Qed.

(** the torn last file, as the search sees it *)
Lemma torn_repr : forall day no t, torn_ok t -> Forall name_ok (t_items t) ->
  Forall (fun e => fst e < U64 /\ snd e < U64) (a_ents (cut_file day no t)) ->
  exists T, (length T <= 1)%nat /\ repr (torn_file day no t) (cut_file day no t) T.
Proof.
  intros day no t Hok Hn Hu.
  destruct (torn_log_shape t Hok Hn) as (P & HP & EL).
  destruct Hok as (H1 & H2 & _ & _ & _ & H6 & _).
  destruct (firstn_idx_app (firstn (t_m t) (t_ents t)) (skipn (t_m t) (t_ents t)) (t_j t))
    as (R & HR & EI).
  { rewrite firstn_length_le by exact H2. exact H6. }
  rewrite firstn_skipn in EI.
  exists (map clean_line (split_lines P [])). split.
  - rewrite map_length. apply split_lines_nolf_len. exact HP.
  - apply (repr_file (torn_file day no t) (cut_file day no t) P R).
    + exact EL.
    + exact HP.
    + cbn [cut_file a_items]. apply Forall_firstn_. exact Hn.
    + exact EI.
    + exact HR.
    + exact Hu.
Qed.

Lemma torn_dir : forall fs day no t, torn_ok t -> Forall name_ok (t_items t) ->
  good_dir (fs ++ [cut_file day no t]) ->
  sorted_files (map conc fs ++ [torn_file day no t]) = map conc fs ++ [torn_file day no t] /\
  exists T, (length T <= 1)%nat /\
    dir_repr (map conc fs ++ [torn_file day no t]) (fs ++ [cut_file day no t]) T.
Proof.
  intros fs day no t Hok Hn G. split.
  - apply (sorted_files_keys (map conc (fs ++ [cut_file day no t]))); [|exact (proj1 G)].
    rewrite !map_app. reflexivity.
  - pose proof (good_dir_files _ G) as HF. apply Forall_app in HF. destruct HF as [HF1 HF2].
    inversion HF2 as [|? ? [_ Hu] _]; subst.
    destruct (torn_repr day no t Hok Hn Hu) as (T & HT & R).
    exists T. split; [exact HT|]. apply dir_repr_snoc; [exact HF1 | apply repr_last_of_repr; exact R].
Qed.

(** search by time after a crash: what the search prescribes on the directory reduced to what was
    written completely, and at most one more item (the torn line, when it happens to parse) *)
Lemma c19_search_by_time_after_crash : forall fs day no t begin_ms end_ms res,
  torn_ok t -> Forall name_ok (t_items t) ->
  good_dir (fs ++ [cut_file day no t]) ->
  exists extra, (length extra <= 1)%nat /\
    find_by_time (map conc fs ++ [torn_file day no t]) begin_ms end_ms res =
    expected_by_time (fs ++ [cut_file day no t]) (begin_ms / 1000) (end_ms / 1000) res ++ extra.
Proof.
  intros fs day no t begin_ms end_ms res Hok Hn G.
  destruct (torn_dir fs day no t Hok Hn G) as (Hs & T & HT & D).
  destruct (search_time_tail _ _ _ D (begin_ms / 1000) (end_ms / 1000) res (good_dir_gd _ G))
    as (extra & HL & E).
  exists extra. split; [lia|].
  unfold find_by_time, expected_by_time. cbv zeta. rewrite Hs. exact E.
Qed.

(** the line-limited search after a crash *)
Lemma c19_search_max_lines_after_crash : forall fs day no t begin_ms max,
  torn_ok t -> Forall name_ok (t_items t) ->
  good_dir (fs ++ [cut_file day no t]) ->
  exists extra, (length extra <= 1)%nat /\
    match from_first_entry (fs ++ [cut_file day no t]) (begin_ms / 1000) with
    | None => find_max_lines (map conc fs ++ [torn_file day no t]) begin_ms max = extra
    | Some items => exists out, max_ok items max out /\
                    find_max_lines (map conc fs ++ [torn_file day no t]) begin_ms max = out ++ extra
    end.
Proof.
  intros fs day no t begin_ms max Hok Hn G.
  destruct (torn_dir fs day no t Hok Hn G) as (Hs & T & HT & D).
  destruct (search_max_tail _ _ _ D (begin_ms / 1000) max (good_dir_gd _ G)) as (extra & HL & H).
  exists extra. split; [lia|].
  unfold find_max_lines. rewrite Hs. fold (rdm max).
  destruct (from_first_entry (fs ++ [cut_file day no t]) (begin_ms / 1000)) as [items|].
  - exact H.
  - exact H.
Qed.


(** * A crash between the index entry of a new second and its first line *)

Lemma find_app_ : forall {A} (p : A -> bool) a b,
  find p (a ++ b) = match find p a with Some x => Some x | None => find p b end.
Proof.
  intros A p a b. induction a as [|x a IH]; cbn [List.app find]; [reflexivity|].
  destruct (p x); [reflexivity | exact IH].
Qed.

Lemma firstn_S_nth : forall {A} (l : list A) m d, (m < length l)%nat ->
  firstn (S m) l = firstn m l ++ [nth m l d].
Proof.
  intros A l. induction l as [|x l IH]; intros m d H; [cbn [length] in H; lia|].
  destruct m as [|m]; [reflexivity|].
  change (firstn (S (S m)) (x :: l)) with (x :: firstn (S m) l).
  change (firstn (S m) (x :: l)) with (x :: firstn m l).
  cbn [nth List.app]. f_equal. apply IH. cbn [length] in H. lia.
Qed.

Lemma torn_ok_ok2 : forall t, torn_ok t -> torn_ok2 t.
Proof.
  intros t (H1 & H2 & H3 & H4 & H5 & H6 & H7).
  repeat (split; [assumption|]). left. split; assumption.
Qed.

(** the torn last file with a dangling entry, as the search sees it *)
Lemma torn_repr_dangling : forall day no t P,
  (t_m t < length (t_ents t))%nat ->
  (16 * S (t_m t) <= t_j t < 16 * S (S (t_m t)))%nat ->
  snd (nth (t_m t) (t_ents t) (0, 0)) = N.of_nat (length (log_of (firstn (t_n t) (t_items t)))) ->
  fst (nth (t_m t) (t_ents t) (0, 0)) < U64 -> snd (nth (t_m t) (t_ents t) (0, 0)) < U64 ->
  nolf P -> firstn (t_k t) (log_of (t_items t)) = log_of (firstn (t_n t) (t_items t)) ++ P ->
  Forall name_ok (t_items t) ->
  Forall (fun e => fst e < U64 /\ snd e < U64) (firstn (t_m t) (t_ents t)) ->
  repr_last (torn_file day no t) (cut_file day no t) (map clean_line (split_lines P [])).
Proof.
  intros day no t P Hm Hj Hoff Hd1 Hd2 HP EL Hn Hu.
  destruct (firstn_idx_app (firstn (S (t_m t)) (t_ents t)) (skipn (S (t_m t)) (t_ents t)) (t_j t))
    as (R & HR & EI).
  { rewrite firstn_length_le by lia. exact Hj. }
  rewrite firstn_skipn in EI. rewrite (firstn_S_nth (t_ents t) (t_m t) (0, 0) Hm) in EI.
  remember (nth (t_m t) (t_ents t) (0, 0)) as d eqn:Ed.
  split.
  - intros bsec. cbn [torn_file f_idx cut_file a_ents]. rewrite EI.
    rewrite (find_offset_idx_tail bsec (firstn (t_m t) (t_ents t) ++ [d]) R).
    + rewrite find_app_.
      destruct (find (fun e : N * N => bsec <=? fst e) (firstn (t_m t) (t_ents t))) as [e|] eqn:E;
        [left; reflexivity|].
      cbn [find]. destruct (bsec <=? fst d) eqn:Eb; [|left; reflexivity].
      right. split; [reflexivity|]. exists (snd d). split; [reflexivity|].
      unfold lines_from. cbn [torn_file f_log].
      rewrite EL, Hoff, Nat2N.id, skipn_len_app by reflexivity. reflexivity.
    + apply Forall_app. split; [exact Hu|]. constructor; [split; assumption | constructor].
    + exact HR.
    + rewrite (app_length (idx_of (firstn (t_m t) (t_ents t) ++ [d])) R).
      pose proof (idx_of_length (firstn (t_m t) (t_ents t) ++ [d])). lia.
  - intros pre post Hit. cbn [cut_file a_items] in Hit. unfold lines_from. cbn [torn_file f_log].
    rewrite EL, Hit, Nat2N.id, log_of_app, <- app_assoc, skipn_len_app by reflexivity.
    apply lines_log_tail; [|exact HP].
    pose proof (Forall_firstn_ name_ok (t_n t) (t_items t) Hn) as Hn'.
    rewrite Hit in Hn'. apply Forall_app in Hn'. tauto.
Qed.

Lemma torn_dir2 : forall fs day no t, torn_ok2 t -> Forall name_ok (t_items t) ->
  good_dir (fs ++ [cut_file day no t]) ->
  sorted_files (map conc fs ++ [torn_file day no t]) = map conc fs ++ [torn_file day no t] /\
  exists T, (length T <= 1)%nat /\
    dir_repr (map conc fs ++ [torn_file day no t]) (fs ++ [cut_file day no t]) T.
Proof.
  intros fs day no t (H1 & H2 & H3 & H4 & H5 & [[H6 H7]|(Hm & Hj & _ & Hoff & Hd1 & Hd2)]) Hn G.
  - apply torn_dir; [|exact Hn | exact G]. repeat (split; [assumption|]). exact H7.
  - split.
    + apply (sorted_files_keys (map conc (fs ++ [cut_file day no t]))); [|exact (proj1 G)].
      rewrite !map_app. reflexivity.
    + pose proof (good_dir_files _ G) as HF. apply Forall_app in HF. destruct HF as [HF1 HF2].
      inversion HF2 as [|? ? [_ Hu] _]; subst.
      destruct (torn_log_shape_gen (t_items t) (t_n t) (t_k t) H1 H3 H4 Hn) as (P & HP & EL).
      exists (map clean_line (split_lines P [])). split.
      * rewrite map_length. apply split_lines_nolf_len. exact HP.
      * apply dir_repr_snoc; [exact HF1|].
        apply torn_repr_dangling; assumption.
Qed.

(** search by time after a crash, the index possibly one complete entry ahead of the lines *)
Lemma c19_search_by_time_after_crash2 : forall fs day no t begin_ms end_ms res,
  torn_ok2 t -> Forall name_ok (t_items t) ->
  good_dir (fs ++ [cut_file day no t]) ->
  exists extra, (length extra <= 1)%nat /\
    find_by_time (map conc fs ++ [torn_file day no t]) begin_ms end_ms res =
    expected_by_time (fs ++ [cut_file day no t]) (begin_ms / 1000) (end_ms / 1000) res ++ extra.
Proof.
  intros fs day no t begin_ms end_ms res Hok Hn G.
  destruct (torn_dir2 fs day no t Hok Hn G) as (Hs & T & HT & D).
  destruct (search_time_tail _ _ _ D (begin_ms / 1000) (end_ms / 1000) res (good_dir_gd _ G))
    as (extra & HL & E).
  exists extra. split; [lia|].
  unfold find_by_time, expected_by_time. cbv zeta. rewrite Hs. exact E.
Qed.

(** the line-limited search after such a crash *)
Lemma c19_search_max_lines_after_crash2 : forall fs day no t begin_ms max,
  torn_ok2 t -> Forall name_ok (t_items t) ->
  good_dir (fs ++ [cut_file day no t]) ->
  exists extra, (length extra <= 1)%nat /\
    match from_first_entry (fs ++ [cut_file day no t]) (begin_ms / 1000) with
    | None => find_max_lines (map conc fs ++ [torn_file day no t]) begin_ms max = extra
    | Some items => exists out, max_ok items max out /\
                    find_max_lines (map conc fs ++ [torn_file day no t]) begin_ms max = out ++ extra
    end.
Proof.
  intros fs day no t begin_ms max Hok Hn G.
  destruct (torn_dir2 fs day no t Hok Hn G) as (Hs & T & HT & D).
  destruct (search_max_tail _ _ _ D (begin_ms / 1000) max (good_dir_gd _ G)) as (extra & HL & H).
  exists extra. split; [lia|].
  unfold find_max_lines. rewrite Hs. fold (rdm max).
  destruct (from_first_entry (fs ++ [cut_file day no t]) (begin_ms / 1000)) as [items|]; exact H.
Qed.

(** * A concrete case: the hypotheses are satisfiable and both sides agree *)

Definition ex_it (res : bytes) (ts p : N) : mitem := mkMI res 0 ts p 0 0 0 0 0 0.
Definition ex_ra : bytes := [97].
Definition ex_rb : bytes := [98; 124; 99].
Definition ex_off (items : list mitem) (k : nat) : N := N.of_nat (length (log_of (firstn k items))).

(** first file: seconds 1, 1, 2; second file: second 2 goes on (no new entry), then 3, 3, 4, 5, 5 *)
Definition ex_items1 := [ex_it ex_ra 1000 1; ex_it ex_rb 1500 2; ex_it ex_ra 2000 3].
Definition ex_f1 := mkAF 0 0 ex_items1 [(1, ex_off ex_items1 0); (2, ex_off ex_items1 2)].
Definition ex_items2 :=
  [ex_it ex_rb 2100 4; ex_it ex_ra 2200 5; ex_it ex_ra 3000 6; ex_it ex_rb 3001 7; ex_it ex_ra 4000 8;
   ex_it ex_rb 5000 9; ex_it ex_ra 5001 10].
Definition ex_ents2 := [(3, ex_off ex_items2 2); (4, ex_off ex_items2 4); (5, ex_off ex_items2 5)].
Definition ex_f2 := mkAF 0 1 ex_items2 ex_ents2.

Ltac ex_entry k items :=
  exists (firstn k items), (skipn k items);
  split; [vm_compute; reflexivity|]; split; [vm_compute; reflexivity|];
  split; [repeat constructor; vm_compute; reflexivity | vm_compute; reflexivity].

Ltac ex_item :=
  split; [unfold item_wf, U64_MAX, U32_MAX; cbn; repeat split; try lia;
          unfold ex_ra, ex_rb; repeat constructor; lia
         | unfold name_ok; cbn; lia].

Example ex_good_dir : good_dir [ex_f1; ex_f2].
Proof.
  split; [vm_compute; reflexivity|]. split.
  { constructor; [|constructor; [|constructor]].
    - split; [|vm_compute; repeat split; reflexivity].
      constructor; [ex_entry 0%nat ex_items1|]. constructor; [ex_entry 2%nat ex_items1|]. constructor.
    - split; [|vm_compute; repeat split; reflexivity].
      constructor; [ex_entry 2%nat ex_items2|]. constructor; [ex_entry 4%nat ex_items2|].
      constructor; [ex_entry 5%nat ex_items2|]. constructor. }
  split.
  { repeat (constructor; [repeat (constructor; [ex_item|]); constructor|]). constructor. }
  split.
  { vm_compute. repeat split; discriminate. }
  repeat constructor; vm_compute; reflexivity.
Qed.

(** the crash: of the second file 5 lines and 2 index entries are complete; the sixth line is cut
    after 10 bytes, the third index entry after 9 bytes *)
Definition ex_torn : torn :=
  mkTorn ex_items2 ex_ents2 5 2 (length (log_of (firstn 5 ex_items2)) + 10) (16 * 2 + 9).
(** the same, the sixth line complete but for its line feed *)
Definition ex_torn2 : torn :=
  mkTorn ex_items2 ex_ents2 5 2 (length (log_of (firstn 6 ex_items2)) - 1) (16 * 2 + 15).

Ltac ex_torn_ok :=
  unfold torn_ok; cbn [t_items t_ents t_n t_m t_k t_j];
  repeat match goal with
         | |- _ /\ _ => split
         | |- (_ < _)%nat -> _ => intros _
         | |- _ = _ -> _ => let H := fresh in intros H; vm_compute in H; discriminate H
         | |- (_ <= _)%nat => apply Nat.leb_le; vm_compute; reflexivity
         | |- (_ < _)%nat => apply Nat.ltb_lt; vm_compute; reflexivity
         end.

Example ex_torn_ok1 : torn_ok ex_torn /\ (t_n ex_torn < length (t_items ex_torn))%nat /\
                      (16 * t_m ex_torn < t_j ex_torn)%nat.
Proof. split; [ex_torn_ok | split; apply Nat.ltb_lt; vm_compute; reflexivity]. Qed.

Example ex_torn_ok2 : torn_ok ex_torn2.
Proof. ex_torn_ok. Qed.

Example ex_names : Forall name_ok ex_items2.
Proof. repeat constructor; unfold name_ok; cbn; lia. Qed.

Example ex_good_cut : good_dir ([ex_f1] ++ [cut_file 0 1 ex_torn]).
Proof.
  split; [vm_compute; reflexivity|]. split.
  { constructor; [|constructor; [|constructor]].
    - split; [|vm_compute; repeat split; reflexivity].
      constructor; [ex_entry 0%nat ex_items1|]. constructor; [ex_entry 2%nat ex_items1|]. constructor.
    - split; [|vm_compute; repeat split; reflexivity].
      constructor; [ex_entry 2%nat (firstn 5 ex_items2)|].
      constructor; [ex_entry 4%nat (firstn 5 ex_items2)|]. constructor. }
  split.
  { repeat (constructor; [repeat (constructor; [ex_item|]); constructor|]). constructor. }
  split.
  { vm_compute. repeat split; discriminate. }
  repeat constructor; vm_compute; reflexivity.
Qed.

(** the theorems apply *)
Example ex_by_time_thm := fun b e res =>
  c19_search_by_time_after_crash [ex_f1] 0 1 ex_torn b e res (proj1 ex_torn_ok1) ex_names ex_good_cut.
Example ex_max_thm := fun b max =>
  c19_search_max_lines_after_crash [ex_f1] 0 1 ex_torn b max (proj1 ex_torn_ok1) ex_names ex_good_cut.
Example ex_prefix_thm := fun b max => c19_find_max_lines_prefix [ex_f1; ex_f2] b max ex_good_dir.

Definition ex_dir := map conc [ex_f1] ++ [torn_file 0 1 ex_torn].
Definition ex_dir2 := map conc [ex_f1] ++ [torn_file 0 1 ex_torn2].
Definition ex_cut := [ex_f1] ++ [cut_file 0 1 ex_torn].

Definition ex_cut2 := [ex_f1] ++ [cut_file 0 1 ex_torn2].
Definition ex_behind (fs : list afile) (bsec : N) : list mitem :=
  match from_first_entry fs bsec with Some l => l | None => [] end.
Definition ex_line6 : mitem := norm (ex_it ex_rb 5000 9).

(** search by time: the torn line does not parse, nothing extra *)
Example ex_by_time_1 :
  find_by_time ex_dir 1000 9000 [] = expected_by_time ex_cut 1 9 [] ++ [] /\
  length (expected_by_time ex_cut 1 9 []) = 8%nat.
Proof. vm_compute. split; reflexivity. Qed.
(** the torn line lacks only its line feed: it parses and comes as one extra item *)
Example ex_by_time_2 :
  find_by_time ex_dir2 1000 9000 [] = expected_by_time ex_cut2 1 9 [] ++ [ex_line6].
Proof. vm_compute. reflexivity. Qed.
(** ... unless it lies beyond the end time *)
Example ex_by_time_3 :
  find_by_time ex_dir2 2000 4999 [] = expected_by_time ex_cut2 2 4 [] ++ [].
Proof. vm_compute. reflexivity. Qed.
(** ... or is of another resource *)
Example ex_by_time_4 :
  find_by_time ex_dir2 2000 9999 ex_ra = expected_by_time ex_cut2 2 9 ex_ra ++ [] /\
  find_by_time ex_dir2 2000 9999 [98; 95; 99] = expected_by_time ex_cut2 2 9 [98; 95; 99] ++ [ex_line6].
Proof. vm_compute. split; reflexivity. Qed.
(** begin after the last complete index entry: nothing on both sides (the torn entry is not used) *)
Example ex_by_time_5 :
  find_by_time ex_dir2 5000 9999 [] = [] /\ expected_by_time ex_cut2 5 9 [] = [].
Proof. vm_compute. split; reflexivity. Qed.

(** line-limited search: limit 2 runs on to the end of second 2 in the next file, limit 0 gives
    nothing, limit 7 takes everything and the parsable torn line *)
Example ex_max_1 :
  length (ex_behind ex_cut2 2) = 6%nat /\
  find_max_lines ex_dir2 2000 0 = [] /\
  find_max_lines ex_dir2 2000 1 = map norm (firstn 1 (ex_behind ex_cut2 2)) ++ [] /\
  find_max_lines ex_dir2 2000 2 = map norm (firstn 3 (ex_behind ex_cut2 2)) ++ [] /\
  find_max_lines ex_dir2 2000 6 = map norm (firstn 6 (ex_behind ex_cut2 2)) ++ [] /\
  find_max_lines ex_dir2 2000 7 = map norm (firstn 6 (ex_behind ex_cut2 2)) ++ [ex_line6] /\
  find_max_lines ex_dir 2000 7 = map norm (firstn 6 (ex_behind ex_cut 2)) ++ [].
Proof. vm_compute. repeat split; reflexivity. Qed.
(** begin after the last complete index entry *)
Example ex_max_2 :
  from_first_entry ex_cut2 5 = None /\ find_max_lines ex_dir2 5000 3 = [].
Proof. vm_compute. split; reflexivity. Qed.

(** the intact directory: a second spanning two files, limits 0, 1, 2, 7 and beyond the data *)
Example ex_prefix_1 :
  length (ex_behind [ex_f1; ex_f2] 2) = 8%nat /\
  find_max_lines (map conc [ex_f1; ex_f2]) 2000 0 = [] /\
  find_max_lines (map conc [ex_f1; ex_f2]) 2000 1 = map norm (firstn 1 (ex_behind [ex_f1; ex_f2] 2)) /\
  find_max_lines (map conc [ex_f1; ex_f2]) 2000 2 = map norm (firstn 3 (ex_behind [ex_f1; ex_f2] 2)) /\
  find_max_lines (map conc [ex_f1; ex_f2]) 2000 7 = map norm (firstn 8 (ex_behind [ex_f1; ex_f2] 2)) /\
  find_max_lines (map conc [ex_f1; ex_f2]) 6000 7 = [] /\ from_first_entry [ex_f1; ex_f2] 6 = None.
Proof. vm_compute. repeat split; reflexivity. Qed.

(** a crash between the index entry of second 5 and its first line: 5 lines and 2 index entries
    have their lines complete, the third entry (second 5, pointing at the end of the five lines) is
    complete as well and 5 bytes of a fourth follow; the sixth line lacks only its line feed *)
Definition ex_ents3 := ex_ents2 ++ [(6, ex_off ex_items2 7)].
Definition ex_torn3 : torn :=
  mkTorn ex_items2 ex_ents3 5 2 (length (log_of (firstn 6 ex_items2)) - 1) (16 * 3 + 5).
(** the same with the sixth line cut after 10 bytes and the index ending with the dangling entry *)
Definition ex_torn4 : torn :=
  mkTorn ex_items2 ex_ents2 5 2 (length (log_of (firstn 5 ex_items2)) + 10) (16 * 3).

Ltac ex_atom :=
  match goal with
  | |- (_ < _)%nat -> _ => intros _; ex_atom
  | |- _ = _ -> _ =>
      first [ intros _; vm_compute; reflexivity
            | let H := fresh in intros H; vm_compute in H; discriminate H ]
  | |- (_ <= _)%nat => apply Nat.leb_le; vm_compute; reflexivity
  | |- (_ < _)%nat => apply Nat.ltb_lt; vm_compute; reflexivity
  | |- _ => vm_compute; reflexivity
  end.

Ltac ex_torn_ok2 :=
  unfold torn_ok2; cbn [t_items t_ents t_n t_m t_k t_j];
  do 5 (split; [ex_atom|]); right; repeat split; ex_atom.

Example ex_torn_ok3 : torn_ok2 ex_torn3.
Proof. ex_torn_ok2. Qed.
Example ex_torn_ok4 : torn_ok2 ex_torn4.
Proof. ex_torn_ok2. Qed.
(** these are not crashes in the sense of [torn_ok]: the index is a whole entry ahead *)
Example ex_torn3_not_ok : ~ torn_ok ex_torn3.
Proof.
  intros (_ & _ & _ & _ & _ & [_ H] & _). cbn [t_m t_j ex_torn3] in H.
  apply Nat.ltb_lt in H. vm_compute in H. discriminate H.
Qed.

Example ex_good_cut3 : good_dir ([ex_f1] ++ [cut_file 0 1 ex_torn3]).
Proof. exact ex_good_cut. Qed.
Example ex_good_cut4 : good_dir ([ex_f1] ++ [cut_file 0 1 ex_torn4]).
Proof. exact ex_good_cut. Qed.

Example ex_by_time_thm2 := fun b e res =>
  c19_search_by_time_after_crash2 [ex_f1] 0 1 ex_torn3 b e res ex_torn_ok3 ex_names ex_good_cut3.
Example ex_max_thm2 := fun b max =>
  c19_search_max_lines_after_crash2 [ex_f1] 0 1 ex_torn3 b max ex_torn_ok3 ex_names ex_good_cut3.

Definition ex_dir3 := map conc [ex_f1] ++ [torn_file 0 1 ex_torn3].
Definition ex_dir4 := map conc [ex_f1] ++ [torn_file 0 1 ex_torn4].
Definition ex_cut3 := [ex_f1] ++ [cut_file 0 1 ex_torn3].
Definition ex_cut4 := [ex_f1] ++ [cut_file 0 1 ex_torn4].

(** begin at second 5: the search starts at the dangling entry, that is at the torn line, and
    returns it when it parses and matches; the reduced directory has nothing from second 5 on *)
Example ex_by_time_6 :
  expected_by_time ex_cut3 5 9 [] = [] /\
  find_by_time ex_dir3 5000 9000 [] = expected_by_time ex_cut3 5 9 [] ++ [ex_line6] /\
  find_by_time ex_dir3 5000 9000 ex_ra = expected_by_time ex_cut3 5 9 ex_ra ++ [] /\
  find_by_time ex_dir4 5000 9000 [] = expected_by_time ex_cut4 5 9 [] ++ [] /\
  find_by_time ex_dir3 6000 9000 [] = expected_by_time ex_cut3 6 9 [] ++ [].
Proof. vm_compute. repeat split; reflexivity. Qed.
(** begin earlier: as without the dangling entry *)
Example ex_by_time_7 :
  find_by_time ex_dir3 1000 9000 [] = expected_by_time ex_cut3 1 9 [] ++ [ex_line6] /\
  find_by_time ex_dir3 2000 4999 [] = expected_by_time ex_cut3 2 4 [] ++ [] /\
  find_by_time ex_dir4 1000 9000 [] = expected_by_time ex_cut4 1 9 [] ++ [].
Proof. vm_compute. repeat split; reflexivity. Qed.
(** line-limited search *)
Example ex_max_3 :
  from_first_entry ex_cut3 5 = None /\
  find_max_lines ex_dir3 5000 0 = [] /\
  find_max_lines ex_dir3 5000 3 = [ex_line6] /\
  find_max_lines ex_dir4 5000 3 = [] /\
  find_max_lines ex_dir3 6000 3 = [] /\
  find_max_lines ex_dir3 2000 2 = map norm (firstn 3 (ex_behind ex_cut3 2)) ++ [] /\
  find_max_lines ex_dir3 2000 7 = map norm (firstn 6 (ex_behind ex_cut3 2)) ++ [ex_line6].
Proof. vm_compute. repeat split; reflexivity. Qed.


Print Assumptions c19_find_max_lines_prefix.
Print Assumptions c19_search_by_time_after_crash.
Print Assumptions c19_search_max_lines_after_crash.
Print Assumptions c19_search_by_time_after_crash2.
Print Assumptions c19_search_max_lines_after_crash2.
