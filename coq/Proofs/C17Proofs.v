From SV Require Import Model.Base Model.LeapArray Model.World Model.Config
  Proofs.LeapArrayProofs Proofs.WindowProofs Proofs.C02Proofs Proofs.WorldProofs.
From Coq Require Import ZifyBool ZifyN.
Open Scope N_scope.

Lemma ring_new_of_check psc piv :
  psc <> 0 -> piv <> 0 -> piv mod psc = 0 ->
  ring_new psc piv = Some (mkG psc (piv / psc)) /\ iv (mkG psc (piv / psc)) = piv /\ 0 < piv / psc.
Proof.
  intros H1 H2 H3. unfold ring_new.
  apply N.eqb_neq in H1. rewrite H1. apply N.eqb_eq in H3. rewrite H3. simpl.
  split; [reflexivity|]. apply N.eqb_eq in H3. apply N.eqb_neq in H1.
  assert (Hiv : psc * (piv / psc) = piv).
  { pose proof (N.div_mod' piv psc). lia. }
  split; [exact Hiv|].
  destruct (piv / psc) eqn:E; [|lia]. rewrite N.mul_0_r in Hiv. lia.
Qed.

(** an accepted configuration yields working statistics with the configured geometry *)
Theorem check_implies_usable c :
  cfg_check c = true ->
  exists g, node_new c = Some (g, mkW (sc_metric c) (iv_metric c)) /\
    sc g = sc_total c /\ iv g = iv_total c /\
    geom_ok (mkCfg g (sc_metric c) (iv_metric c)).
Proof.
  intros H. unfold cfg_check in H.
  pose proof (proj1 (reuse_accepted_iff _ _ _ _) H) as (H1 & H2 & H3 & H4 & H5 & H6 & H7 & H8).
  destruct (ring_new_of_check _ _ H4 H5 H6) as (Hr & Hiv & Hbl).
  exists (mkG (sc_total c) (iv_total c / sc_total c)).
  unfold node_new. rewrite Hr.
  assert (Hw : win_new (mkG (sc_total c) (iv_total c / sc_total c)) (sc_metric c) (iv_metric c)
               = Some (mkW (sc_metric c) (iv_metric c))).
  { unfold win_new. cbn [sc]. rewrite Hiv, H. reflexivity. }
  rewrite Hw. split; [reflexivity|]. split; [reflexivity|]. split; [exact Hiv|].
  unfold geom_ok. cbn [c_total c_msc c_miv bl sc]. split; [exact Hbl|]. split; [lia|exact Hw].
Qed.

(** a configuration whose default metric window cannot be served is rejected *)
Theorem unservable_rejected c :
  cfg_check c = false <->
  ~ (sc_metric c <> 0 /\ iv_metric c <> 0 /\ iv_metric c mod sc_metric c = 0 /\
     sc_total c <> 0 /\ iv_total c <> 0 /\ iv_total c mod sc_total c = 0 /\
     iv_total c mod iv_metric c = 0 /\ (iv_metric c / sc_metric c) mod (iv_total c / sc_total c) = 0).
Proof.
  unfold cfg_check. rewrite <- reuse_accepted_iff.
  destruct (check_reuse _ _ _ _); split; intros H; try congruence; try discriminate; try (exfalso; apply H; reflexivity).
Qed.

(** an accepted configuration never makes node construction panic *)
Theorem accepted_never_panics c : cfg_check c = true -> node_new c <> None.
Proof. intros H. destruct (check_implies_usable c H) as (g & Hn & _). rewrite Hn. discriminate. Qed.

(** the configuration in effect is the same for every thread *)
Theorem same_on_every_thread c t1 t2 :
  store_read (store_init c) t1 = store_read (store_init c) t2 /\ store_read (store_init c) t1 = c.
Proof. split; reflexivity. Qed.
