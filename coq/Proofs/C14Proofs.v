(** C14: the theorems. *)
From SV Require Import Model.Base Model.LeapArray Model.World Model.Conc Spec.C14Spec.
From SV Require Import Proofs.C14Frame Proofs.C14Code Proofs.C14Inv Proofs.C14Logs Proofs.C14Conc Proofs.C14Acc
  Proofs.C14Calm Proofs.C14Warm Proofs.C14Obs Proofs.C14Main.
From Coq Require Import Lia ZifyBool ZifyN.
Open Scope N_scope.

Lemma rdn_exact B ix nd now ev :
  shape B ix nd -> start G now = B -> 1000 <= B -> sum_or0 nd now ev = tot ev nd.
Proof.
  intros [Hl Hs] Hst HB.
  unfold sum_or0, node_sum, sum_with_time, satisfied, start_range.
  change (c_total default_cfg) with G. cbn [c_msc c_miv default_cfg w_iv].
  rewrite Hst. change (bl G =? 0) with false. cbv iota.
  replace (B <? 1000) with false by lia. cbn [rmap]. unfold valid_values, tot.
  apply sum_get_filter_eq. intros sl Hin.
  apply In_nth_error in Hin as [j Hj]. destruct (Hs _ _ Hj) as [->|[_ Hf]].
  - right. apply bget_bucket0.
  - left. rewrite Hf. unfold deprecated. change (iv G) with 10000. change (bl G) with 500.
    assert (now - B < 500).
    { rewrite <- Hst. unfold start. change (bl G) with 500.
      pose proof (N.mod_lt now 500). pose proof (N.mod_le now 500). lia. }
    assert (B <= now). { rewrite <- Hst. unfold start. lia. }
    lia.
Qed.

Lemma plist_eqb_refl l : plist_eqb l l = true.
Proof.
  induction l as [|[b i] tl IH]; simpl; auto. unfold pair_eqb. simpl.
  rewrite N.eqb_refl, Bool.eqb_reflx, IH. reflexivity.
Qed.

Lemma threads_ok_intro : forall progs k o,
  (forall i p, nth_error progs i = Some p ->
     builds_of (k + N.of_nat i) (o_builds o) = prog_builds p /\
     exits_of (k + N.of_nat i) (o_exits o) = prog_exits p []) ->
  threads_ok progs k o = true.
Proof.
  induction progs as [|p tl IH]; intros k o H; simpl; auto.
  destruct (H O p eq_refl) as [H1 H2]. replace (k + N.of_nat 0) with k in * by lia.
  rewrite H1, H2, !plist_eqb_refl. simpl. apply IH.
  intros i q Hq. specialize (H (S i) q Hq).
  replace (k + 1 + N.of_nat i) with (k + N.of_nat (S i)) by lia. exact H.
Qed.

Theorem c14_accounting : forall base mode progs steps,
  ok_c14 base mode progs steps (fst (model_obs false base mode progs steps)) = true.
Proof.
  intros base mode progs steps. unfold ok_c14.
  destruct (base <? 100000) eqn:Eb; [reflexivity|]. assert (Hbase : 100000 <= base) by lia.
  unfold model_obs. destruct (run_case false base mode progs steps) as [[st ths] tr] eqn:Er. cbn [fst].
  destruct (run_Inv base mode progs steps Hbase st ths tr Er) as [HI Hdone].
  destruct HI as (HJ & Hlen & Hdn & Hlg & Hcn & Hle & Hcalm).
  destruct HJ as (Hm & Hth & Hso).
  rewrite (obs_of_eq st ths Hm Hso).
  cbn [o_done o_builds o_exits o_tok o_conc o_pass o_complete o_rt o_iconc o_ipass o_icomplete o_irt].
  (* every thread has consumed its code *)
  assert (Hcode : forall t, In t ths -> t_code t = []).
  { intros t Ht. apply In_nth_error in Ht as [tid Hn]. apply (Hdn _ _ Hn).
    unfold all_done in Hdone. rewrite forallb_forall in Hdone. apply Hdone. eapply nth_error_In; eauto. }
  assert (Hz : forall (F : list instr -> N -> N), (forall x, F [] x = 0) ->
                 sumf (fun t => F (t_code t) (t_rt t)) ths = 0).
  { intros F HF. apply (sumf_zero base Hbase). intros t Ht. rewrite (Hcode t Ht). apply HF. }
  (* final facts *)
  assert (FC : forall s, n_conc (gnode st s) + nx s st = ns s st).
  { intros s. destruct (Hcn s) as [_ He].
    rewrite (Hz (fun c _ => cntI s c)), (Hz (fun c _ => cntR s c)), (Hz (fun c _ => cntS s c)),
            (Hz (fun c _ => cntD s c)) in He by reflexivity. lia. }
  assert (FA : forall s ev, ev3 ev -> tot ev (gnode st s) <= pre mode ev + logR s ev st).
  { intros s ev Hev. specialize (Hle s ev Hev). unfold acc_le, Lg, Rg in Hle.
    rewrite (Hz (fun c r => pendL s ev c r)), (Hz (fun c _ => pendR s ev c)) in Hle by reflexivity. lia. }
  assert (FR : forall s ev, ev3 ev -> rdn st s ev <= pre mode ev + logR s ev st).
  { intros s ev Hev. specialize (FA s ev Hev). pose proof (sum_or0_le (gnode st s) (c_now st) ev). unfold rdn. lia. }
  assert (Hp1 : forall ev, pre mode ev <= (if mode =? 1 then 0 else 1)).
  { intros ev. unfold pre. destruct (mode =? 1), ev; lia. }
  assert (Hp0 : pre mode Rt = 0) by (unfold pre; destruct (mode =? 1); reflexivity).
  rewrite Hdone. cbn [andb].
  repeat (apply andb_true_intro; split).
  - (* threads_ok *)
    apply threads_ok_intro. intros i p Hp. cbn [o_builds o_exits].
    assert (Hi : (i < length ths)%nat) by (rewrite Hlen; apply nth_error_Some; congruence).
    destruct (nth_error ths i) as [t|] eqn:Et; [|apply nth_error_None in Et; lia].
    destruct (Hlg _ _ Et) as [H1 H2]. rewrite (Hcode t) in H1, H2 by (eapply nth_error_In; eauto).
    simpl in H1, H2. rewrite app_nil_r in H1, H2.
    unfold wantb, wantx in *. rewrite (nth_error_nth _ _ _ Hp) in H1, H2.
    replace (0 + N.of_nat i) with (N.of_nat i) by lia.
    rewrite builds_of_obuilds. split; auto.
  - (* tokens *)
    destruct Hso as [_ Hs2]. unfold obuilds.
    destruct (c_map st) eqn:Em.
    + apply forallb_forall. intros x Hx. apply in_map_iff in Hx as (y & <- & _). reflexivity.
    + destruct (c_seen st); [reflexivity|]. assert (None = Some 0%nat) by (apply Hs2; discriminate). discriminate.
  - rewrite countb_obuilds_res. specialize (FC SRes). unfold nx in FC. simpl in FC. apply N.eqb_eq. exact FC.
  - rewrite countb_obuilds_inb. specialize (FC SInb). unfold nx in FC. simpl in FC. apply N.eqb_eq. exact FC.
  - rewrite b_batches_res. specialize (FR SRes Pass (or_introl eq_refl)). specialize (Hp1 Pass). simpl in FR. apply N.leb_le. lia.
  - rewrite x_batches_res. specialize (FR SRes Complete (or_intror (or_introl eq_refl))). specialize (Hp1 Complete). simpl in FR. apply N.leb_le. lia.
  - rewrite x_rts_res. specialize (FR SRes Rt (or_intror (or_intror eq_refl))). simpl in FR. apply N.leb_le. lia.
  - rewrite b_batches_inb. specialize (FR SInb Pass (or_introl eq_refl)). specialize (Hp1 Pass). simpl in FR. apply N.leb_le. lia.
  - rewrite x_batches_inb. specialize (FR SInb Complete (or_intror (or_introl eq_refl))). specialize (Hp1 Complete). simpl in FR. apply N.leb_le. lia.
  - rewrite x_rts_inb. specialize (FR SInb Rt (or_intror (or_intror eq_refl))). simpl in FR. apply N.leb_le. lia.
  - (* exactness *)
    destruct (calm base mode steps) eqn:Ecm; [|reflexivity].
    destruct (Hcalm Ecm) as [HE Heq].
    destruct HE as (Hlo & Hhi & Hsh & _).
    assert (Hrg := range_ok base mode steps Ecm (c_now st)).
    destruct Hrg as [Hst _]; [lia|].
    assert (HBB : 1000 <= BB base).
    { unfold BB. rewrite start_div. pose proof (N.div_mod base 500). pose proof (N.mod_lt base 500). lia. }
    assert (FE : forall s ev, ev3 ev -> rdn st s ev = pre2 mode ev + logR s ev st).
    { intros s ev Hev. specialize (Heq s ev Hev). unfold acc_eq, Lg, Rg in Heq.
      rewrite (Hz (fun c r => pendL s ev c r)), (Hz (fun c _ => pendR s ev c)) in Heq by reflexivity.
      unfold rdn. rewrite (rdn_exact _ _ _ _ ev (Hsh s) Hst HBB). lia. }
    assert (Hq : forall ev, ev = Pass \/ ev = Complete -> pre2 mode ev = (if mode =? 2 then 1 else 0)).
    { intros ev [->| ->]; unfold pre2; destruct (mode =? 2); reflexivity. }
    assert (Hq0 : pre2 mode Rt = 0) by (unfold pre2; destruct (mode =? 2); reflexivity).
    repeat (apply andb_true_intro; split); apply N.eqb_eq.
    + rewrite b_batches_res, (FE SRes Pass (or_introl eq_refl)), Hq by auto. reflexivity.
    + rewrite x_batches_res, (FE SRes Complete (or_intror (or_introl eq_refl))), Hq by auto. reflexivity.
    + rewrite x_rts_res, (FE SRes Rt (or_intror (or_intror eq_refl))), Hq0. reflexivity.
    + rewrite b_batches_inb, (FE SInb Pass (or_introl eq_refl)), Hq by auto. reflexivity.
    + rewrite x_batches_inb, (FE SInb Complete (or_intror (or_introl eq_refl))), Hq by auto. reflexivity.
    + rewrite x_rts_inb, (FE SInb Rt (or_intror (or_intror eq_refl))), Hq0. reflexivity.
Qed.

Theorem c14_one_node : forall base mode progs steps st ths tr,
  run_case false base mode progs steps = (st, ths, tr) ->
  (length (c_nodes st) <= 1)%nat /\ Forall (fun x => snd (fst (fst x)) = 0%nat) (c_seen st).
Proof. exact c14_one_node0. Qed.

Theorem c14_all_finish : forall racy base mode progs steps st ths tr,
  run_case racy base mode progs steps = (st, ths, tr) -> all_done ths = true.
Proof. exact c14_all_finish0. Qed.


Theorem c14_racy_refuted : exists base mode progs steps,
  ok_c14 base mode progs steps (fst (model_obs true base mode progs steps)) = false.
Proof.
  exists 1700000000000, 1, [[TB 1 false]; [TB 1 false]], [(0%nat, 0); (1%nat, 0)].
  vm_compute. reflexivity.
Qed.

Theorem c14_rollover_loses : exists base progs steps,
  100000 <= base /\
  let o := fst (model_obs false base 0 progs steps) in
  o_pass o < b_batches false (o_builds o).
Proof.
  exists 1700000000000, [[TB 1 false]; [TB 1 false]],
    ([(0%nat, 0); (0%nat, 0); (0%nat, 0)] ++ repeat (1%nat, 0) 7).
  split; [vm_compute; discriminate|]. vm_compute. reflexivity.
Qed.
