(** C14: structural invariant (one node, lookup before use, balanced exits). *)
From SV Require Import Model.Base Model.LeapArray Model.World Model.Conc Spec.C14Spec.
From SV Require Import Proofs.C14Frame Proofs.C14Code.
From Coq Require Import Lia ZifyBool ZifyN.
Open Scope N_scope.

Definition fresh : node := fresh_node default_cfg.
Definition gnode (st : cstate) (s : sel) : node :=
  match s with SRes => nth 0 (c_nodes st) fresh | SInb => c_inb st end.

Definition mapok (st : cstate) : Prop :=
  match c_map st with
  | None => c_nodes st = []
  | Some k => k = 0%nat /\ length (c_nodes st) = 1%nat
  end.

Definition code_ok (st : cstate) (code : list instr) (t : thr) : Prop :=
  t_node t = 0%nat /\ (c_map st = Some 0%nat \/ nsafe code (t_miss t) = true) /\
  balanced code (length (t_starts t)) = true /\ rtok SRes code /\ rtok SInb code.

Definition thr_ok (st : cstate) (t : thr) : Prop := code_ok st (t_code t) t.

Definition seen_ok (st : cstate) : Prop :=
  Forall (fun x => snd (fst (fst x)) = 0%nat) (c_seen st) /\ (c_seen st <> [] -> c_map st = Some 0%nat).

Definition J1 (st : cstate) (ths : list thr) : Prop :=
  mapok st /\ (forall tid t, nth_error ths tid = Some t -> thr_ok st t) /\ seen_ok st.

Lemma nth_upd_cases {A} (l : list A) i j x y :
  nth_error (upd l i x) j = Some y -> (i = j /\ y = x) \/ (i <> j /\ nth_error l j = Some y).
Proof.
  rewrite nth_error_upd. destruct (Nat.eqb_spec i j).
  - destruct (nth_error l j); intros H; inversion H; auto.
  - auto.
Qed.

Lemma c_map_set_node st t s nd : c_map (set_node st t s nd) = c_map st.
Proof. destruct s; auto. Qed.
Lemma c_seen_set_node st t s nd : c_seen (set_node st t s nd) = c_seen st.
Proof. destruct s; auto. Qed.
Lemma c_exits_set_node st t s nd : c_exits (set_node st t s nd) = c_exits st.
Proof. destruct s; auto. Qed.
Lemma c_now_set_node st t s nd : c_now (set_node st t s nd) = c_now st.
Proof. destruct s; auto. Qed.
Lemma len_nodes_set_node st t s nd : length (c_nodes (set_node st t s nd)) = length (c_nodes st).
Proof. destruct s; simpl; auto. apply length_upd. Qed.

Lemma mapok_set_node st t s nd : mapok st -> mapok (set_node st t s nd).
Proof.
  unfold mapok. rewrite c_map_set_node. destruct (c_map st).
  - rewrite len_nodes_set_node; auto.
  - destruct s; simpl; auto. intros ->. reflexivity.
Qed.

Lemma exec_map_mono tid st t i st' t' p k :
  exec false tid st t i = (st', t', p) -> c_map st = Some k -> c_map st' = Some k.
Proof.
  intros H Hk. destruct i; destr_exec H; simpl; auto; try (rewrite c_map_set_node; auto); congruence.
Qed.

Lemma exec_mapok tid st t i st' t' p :
  mapok st -> exec false tid st t i = (st', t', p) -> mapok st'.
Proof.
  intros Hm H. destruct i; destr_exec H; try apply mapok_set_node; auto.
  unfold mapok in *. simpl. rewrite Heqo in Hm. rewrite Hm. simpl. auto.
Qed.

Lemma exec_node0 tid st t i st' t' p :
  mapok st -> t_node t = 0%nat -> exec false tid st t i = (st', t', p) -> t_node t' = 0%nat.
Proof.
  intros Hm Hn H. unfold mapok in Hm. destruct i; destr_exec H; simpl; auto.
  - tauto.
  - tauto.
  - rewrite Hm. reflexivity.
Qed.

Lemma exec_nsafe tid st t i tl st' t' p :
  mapok st -> (c_map st = Some 0%nat \/ nsafe (i :: tl) (t_miss t) = true) ->
  exec false tid st t i = (st', t', p) ->
  (c_map st' = Some 0%nat \/ nsafe tl (t_miss t') = true) /\
  (touches i = true -> c_map st = Some 0%nat).
Proof.
  intros Hm Hs H. unfold mapok in Hm.
  assert (Hmono : c_map st = Some 0%nat -> c_map st' = Some 0%nat) by (eapply exec_map_mono; eauto).
  destruct Hs as [Hs|Hs]; [split; auto|].
  destruct i; try destruct s; simpl in Hs; try discriminate;
    try (apply andb_prop in Hs; destruct Hs as [Hs1 Hs2]); try discriminate;
    destr_exec H; simpl; try rewrite c_map_set_node; split; auto; try discriminate.
  - left. destruct Hm as [-> _]. auto.
  - left. destruct Hm as [-> _]. auto.
  - left. rewrite Hm. auto.
  - right. rewrite Heqb. simpl in Hs. auto.
Qed.

Lemma exec_balanced racy tid st t i tl st' t' p :
  balanced (i :: tl) (length (t_starts t)) = true ->
  exec racy tid st t i = (st', t', p) ->
  balanced tl (length (t_starts t')) = true.
Proof.
  intros Hb H. destruct i; destr_exec H; simpl in *; auto. discriminate.
Qed.

Lemma exec_seen racy tid st t i st' t' p :
  exec racy tid st t i = (st', t', p) ->
  match i with
  | ISeen b inb => c_seen st' = c_seen st ++ [(tid, t_node t, b, inb)]
  | _ => c_seen st' = c_seen st
  end.
Proof. intros H. destruct i; destr_exec H; simpl; try rewrite c_seen_set_node; auto. Qed.

Lemma exec_local tid st t i tl st' t' p :
  mapok st -> code_ok st (i :: tl) t -> exec false tid st t i = (st', t', p) ->
  mapok st' /\ code_ok st' tl t' /\ (touches i = true -> c_map st = Some 0%nat).
Proof.
  intros Hm (Hn & Hs & Hb & Hr1 & Hr2) H.
  apply rtok_tl in Hr1. apply rtok_tl in Hr2.
  destruct (exec_nsafe _ _ _ _ _ _ _ _ Hm Hs H) as [Hs' Ht].
  split; [eapply exec_mapok; eauto|]. split; auto.
  split; [eapply exec_node0; eauto|].
  split; auto. split; [eapply exec_balanced; eauto|]. auto.
Qed.

Lemma thr_ok_mono st st' t :
  (c_map st = Some 0%nat -> c_map st' = Some 0%nat) -> thr_ok st t -> thr_ok st' t.
Proof. unfold thr_ok, code_ok. intuition. Qed.

Lemma code_ok_set st t i tl :
  thr_ok st t -> t_code t = i :: tl -> code_ok st (i :: tl) (set_code t tl false).
Proof. unfold thr_ok, code_ok. intros H Hc. rewrite Hc in H. simpl. exact H. Qed.

Lemma J1_exec st ths tid t i tl st' t' p :
  J1 st ths -> nth_error ths tid = Some t -> t_code t = i :: tl ->
  exec false (N.of_nat tid) st (set_code t tl false) i = (st', t', p) -> J1 st' (upd ths tid t').
Proof.
  intros (Hm & Ht & Hse & Hsm) Hn Hc H.
  pose proof (code_ok_set _ _ _ _ (Ht _ _ Hn) Hc) as Hco.
  destruct (exec_local _ _ _ _ _ _ _ _ Hm Hco H) as (Hm' & Hco' & Htch).
  pose proof (exec_code _ _ _ _ _ _ _ _ H) as [Hc' _]. simpl in Hc'.
  assert (Hmono : c_map st = Some 0%nat -> c_map st' = Some 0%nat) by (eapply exec_map_mono; eauto).
  split; auto. split.
  - intros tid2 t2 Hn2. apply nth_upd_cases in Hn2 as [[-> ->]|[Hne Hn2]].
    + unfold thr_ok. rewrite Hc'. auto.
    + eapply thr_ok_mono; eauto.
  - pose proof (exec_seen _ _ _ _ _ _ _ _ H) as Hs. unfold seen_ok.
    destruct i; try (rewrite Hs; split; auto; fail).
    rewrite Hs. split.
    + apply Forall_app. split; auto. constructor; auto. simpl. apply Hco.
    + intros _. apply Hmono. apply Htch. reflexivity.
Qed.

Lemma J1_done st ths tid t :
  J1 st ths -> nth_error ths tid = Some t -> t_code t = [] -> J1 st (upd ths tid (set_code t [] true)).
Proof.
  intros (Hm & Ht & Hse) Hn Hc. split; auto. split; auto.
  intros tid2 t2 Hn2. apply nth_upd_cases in Hn2 as [[-> ->]|[Hne Hn2]]; eauto.
  specialize (Ht _ _ Hn). unfold thr_ok, code_ok in *. rewrite Hc in Ht. simpl. auto.
Qed.

Lemma J1_adv st ths dt : J1 st ths -> J1 (advance st dt) ths.
Proof. intros H. exact H. Qed.

(** what a step may assume about the stepping thread *)
Lemma J1_facts st ths tid t i tl :
  J1 st ths -> nth_error ths tid = Some t -> t_code t = i :: tl ->
  mapok st /\ t_node t = 0%nat /\ (touches i = true -> c_map st = Some 0%nat) /\
  balanced (i :: tl) (length (t_starts t)) = true /\ rtok SRes (i :: tl) /\ rtok SInb (i :: tl).
Proof.
  intros (Hm & Ht & Hse) Hn Hc. specialize (Ht _ _ Hn). unfold thr_ok, code_ok in Ht. rewrite Hc in Ht.
  destruct Ht as (H1 & H2 & H3 & H4 & H5). repeat split; auto.
  intros Htc. destruct H2 as [H2|H2]; auto.
  destruct i; try destruct s; simpl in Htc; try discriminate; simpl in H2; discriminate.
Qed.

(** * effect of one instruction on a node *)
Lemma nodes_single st : mapok st -> c_map st = Some 0%nat -> exists x, c_nodes st = [x].
Proof.
  unfold mapok. intros H E. rewrite E in H. destruct H as [_ H].
  destruct (c_nodes st) as [|x [|y l]]; simpl in H; try discriminate. eauto.
Qed.

Definition bucket_fn (t : thr) (sl : slot) : slot := (start G (t_now t), snd sl).

Definition node_eff (t : thr) (i : instr) (s : sel) (nd : node) : node :=
  match i with
  | IInc s0 => if sel_eqb s0 s then mkNode (n_slots nd) (n_conc nd + 1) else nd
  | IDec s0 => if sel_eqb s0 s then mkNode (n_slots nd) (n_conc nd - 1) else nd
  | IBucket s0 =>
      if sel_eqb s0 s then
        match nth_error (n_slots nd) (slot_ix t) with
        | Some (s1, v) =>
            if s1 =? 0 then map_slot nd (slot_ix t) (bucket_fn t)
            else if s1 =? start G (t_now t) then nd
            else if s1 <? start G (t_now t) then map_slot nd (slot_ix t) (bucket_fn t)
            else nd
        | None => nd
        end
      else nd
  | IReset s0 => if sel_eqb s0 s && t_rst t then map_slot nd (slot_ix t) (fun sl => (fst sl, bucket0)) else nd
  | IMaxc s0 => if sel_eqb s0 s && t_ok t then map_slot nd (slot_ix t) (fun sl => (fst sl, bconc (t_c t) (snd sl))) else nd
  | IAdd s0 ev n => if sel_eqb s0 s && t_ok t then map_slot nd (slot_ix t) (fun sl => (fst sl, badd ev n (snd sl))) else nd
  | IAddRt s0 => if sel_eqb s0 s && t_ok t then map_slot nd (slot_ix t) (fun sl => (fst sl, badd Rt (t_rt t) (snd sl))) else nd
  | _ => nd
  end.

Lemma exec_gnode tid st t i st' t' p s :
  mapok st -> t_node t = 0%nat -> (touches i = true -> c_map st = Some 0%nat) ->
  exec false tid st t i = (st', t', p) ->
  gnode st' s = node_eff t i s (gnode st s).
Proof.
  intros Hm Hn Ht H.
  destruct i; try destruct s0;
    try (destruct (nodes_single st Hm (Ht eq_refl)) as [x Hx]);
    destruct s; unfold node_eff, bucket_fn; cbn [sel_eqb andb gnode];
    unfold exec in H; cbv zeta in H; cbn [get_node] in H; rewrite ?Hn, ?Hx in H; cbn [nth] in H;
    destr_exec H; simpl; rewrite ?Hn, ?Hx; simpl; auto;
    repeat match goal with E : ?x = _ |- context [?x] => rewrite E end; auto.
  unfold mapok in Hm. rewrite Heqo in Hm. rewrite Hm. reflexivity.
Qed.

(** * J1 along runs *)
Definition J1r (r : N) (st : cstate) (ths : list thr) : Prop := J1 st ths.

Lemma J1_finish fuel st ths st' ths' tr :
  J1 st ths -> finish false fuel st ths = (st', ths', tr) -> J1 st' ths'.
Proof.
  intros HJ H. eapply (finish_inv false J1r) with (r := 0); eauto; unfold J1r.
  - intros; eapply J1_exec; eauto.
  - intros; eapply J1_done; eauto.
Qed.

Lemma J1_run_sched steps st ths st' ths' tr :
  J1 st ths -> run_sched false st ths steps = (st', ths', tr) -> J1 st' ths'.
Proof.
  intros HJ H. eapply (run_sched_inv false J1r) with (r := 0); eauto; unfold J1r.
  - intros; eapply J1_exec; eauto.
  - intros; eapply J1_done; eauto.
Qed.

Lemma thr_ok_thr0 st p now : thr_ok st (thr0 (compile p []) now).
Proof.
  unfold thr_ok, code_ok, thr0; simpl. split; auto. split.
  - right. apply nsafe_compile.
  - split; [apply (balanced_compile p [])|]. split; apply rtok_compile.
Qed.

Lemma J1_thr0s st progs now :
  mapok st -> seen_ok st -> J1 st (map (fun p => thr0 (compile p []) now) progs).
Proof.
  intros Hm Hs. split; auto. split; auto.
  intros tid t Hn. apply nth_error_In in Hn. apply in_map_iff in Hn as (p & <- & _).
  apply thr_ok_thr0.
Qed.

Lemma mapok_cstate0 now : mapok (cstate0 now).
Proof. reflexivity. Qed.
Lemma seen_ok_nil st : c_seen st = [] -> seen_ok st.
Proof. intros E. unfold seen_ok. rewrite E. split; auto. congruence. Qed.

Lemma warm_mapok st : mapok st -> c_seen st = [] -> mapok (warm false st).
Proof.
  intros Hm Hs. unfold warm.
  destruct (finish false _ st _) as [[st' ths'] tr] eqn:E.
  assert (HJ : J1 st [thr0 (compile [TB 1 true; TX] []) (c_now st)]).
  { apply (J1_thr0s st [[TB 1 true; TX]] (c_now st)); auto. apply seen_ok_nil; auto. }
  apply (J1_finish _ _ _ _ _ _ HJ) in E. destruct E as (Hm' & _). exact Hm'.
Qed.

Lemma warm_logs st : c_seen (warm false st) = [] /\ c_exits (warm false st) = [].
Proof. unfold warm. destruct (finish false _ _ _) as [[st' ths'] tr]. split; reflexivity. Qed.

Lemma mapok_ext st st' : c_map st' = c_map st -> c_nodes st' = c_nodes st -> mapok st -> mapok st'.
Proof. unfold mapok. intros -> ->. auto. Qed.

Opaque warm.

Lemma init_mapok base mode : mapok (init_state false base mode) /\ c_seen (init_state false base mode) = [] /\ c_exits (init_state false base mode) = [].
Proof.
  unfold init_state. destruct (mode =? 0); [|destruct (mode =? 2)].
  - cbv zeta.
    pose proof (warm_mapok (cstate0 (base - 60000)) (mapok_cstate0 _) eq_refl) as H.
    revert H. generalize (warm false (cstate0 (base - 60000))). intros W HW.
    split; [|split; reflexivity]. exact HW.
  - split; [apply warm_mapok; [apply mapok_cstate0|reflexivity]|]. apply warm_logs.
  - split; [apply mapok_cstate0|split; reflexivity].
Qed.

Lemma J1_init base mode progs :
  J1 (init_state false base mode) (map (fun p => thr0 (compile p []) base) progs).
Proof.
  destruct (init_mapok base mode) as (Hm & Hs & _). apply J1_thr0s; auto. apply seen_ok_nil; auto.
Qed.

Lemma run_case_J1 base mode progs steps st ths tr :
  run_case false base mode progs steps = (st, ths, tr) -> J1 st ths.
Proof.
  unfold run_case. intros H.
  destruct (run_sched false _ _ steps) as [[st1 ths1] tr1] eqn:E1.
  destruct (finish false (code_total ths1) st1 ths1) as [[st2 ths2] tr2] eqn:E2.
  inversion H; subst.
  eapply J1_finish; [|eauto]. eapply J1_run_sched; [|eauto]. apply J1_init.
Qed.

Theorem c14_one_node0 : forall base mode progs steps st ths tr,
  run_case false base mode progs steps = (st, ths, tr) ->
  (length (c_nodes st) <= 1)%nat /\ Forall (fun x => snd (fst (fst x)) = 0%nat) (c_seen st).
Proof.
  intros base mode progs steps st ths tr H. apply run_case_J1 in H.
  destruct H as (Hm & _ & Hs & _). split; auto.
  unfold mapok in Hm. destruct (c_map st); [lia|]. rewrite Hm. simpl. lia.
Qed.
