(** C14: while the clock stays inside one bucket nothing is lost. *)
From SV Require Import Model.Base Model.LeapArray Model.World Model.Conc Spec.C14Spec.
From SV Require Import Proofs.C14Frame Proofs.C14Code Proofs.C14Inv Proofs.C14Logs Proofs.C14Acc.
From Coq Require Import Lia ZifyBool ZifyN.
Open Scope N_scope.

Lemma exec_regs racy tid st t i st' t' p :
  exec racy tid st t i = (st', t', p) ->
  match i with
  | IBucket _ => True
  | _ => t_ok t' = t_ok t /\ (t_rst t = false -> t_rst t' = false) /\
         t_now t' = match i with IClock => c_now st | _ => t_now t end
  end.
Proof. intros H. destruct i; auto; destr_exec H; simpl; auto. Qed.

Lemma get_node_gnode st t s : t_node t = 0%nat -> get_node st t s = gnode st s.
Proof. intros H. destruct s; simpl; auto. rewrite H. reflexivity. Qed.

Lemma exec_bucket racy tid st t s0 st' t' p s1 v :
  exec racy tid st t (IBucket s0) = (st', t', p) -> t_node t = 0%nat ->
  nth_error (n_slots (gnode st s0)) (slot_ix t) = Some (s1, v) ->
  s1 = 0 \/ s1 = start G (t_now t) ->
  t_ok t' = true /\ t_rst t' = false /\ t_now t' = t_now t.
Proof.
  intros H Hn E Hs. unfold exec in H. cbv zeta in H. rewrite (get_node_gnode _ _ _ Hn), E in H.
  destruct (s1 =? 0) eqn:E0; [inversion H; subst; simpl; auto|].
  destruct (s1 =? start G (t_now t)) eqn:E1; [inversion H; subst; simpl; auto|].
  lia.
Qed.

Section Calm.
Variables (B : N) (ix : nat) (lo hi : N).
Hypothesis HB0 : B <> 0.
Hypothesis Hix : (ix < 20)%nat.
Hypothesis Hrange : forall x, lo <= x <= hi -> start G x = B /\ N.to_nat (idx G x) = ix.

Definition stampB (nd : node) : Prop := exists v, nth_error (n_slots nd) ix = Some (B, v).
Definition shape (nd : node) : Prop :=
  length (n_slots nd) = 20%nat /\
  forall j sl, nth_error (n_slots nd) j = Some sl -> sl = (0, bucket0) \/ (j = ix /\ fst sl = B).

Lemma shape_slot nd : shape nd -> exists s1 v, nth_error (n_slots nd) ix = Some (s1, v) /\ ((s1 = 0 /\ v = bucket0) \/ s1 = B).
Proof.
  intros [Hl Hs]. destruct (nth_error (n_slots nd) ix) as [[s1 v]|] eqn:E.
  - exists s1, v. split; auto. destruct (Hs _ _ E) as [H|[_ H]]; [inversion H; auto|auto].
  - apply nth_error_None in E. lia.
Qed.

Lemma shape_map_slot nd f :
  shape nd -> (forall sl, nth_error (n_slots nd) ix = Some sl -> fst (f sl) = B) -> shape (map_slot nd ix f).
Proof.
  intros [Hl Hs] Hf. unfold map_slot. destruct (nth_error (n_slots nd) ix) as [sl|] eqn:E; [|split; auto].
  split; simpl; [rewrite length_upd; auto|].
  intros j sl' Hj. apply nth_upd_cases in Hj as [[<- ->]|[Hne Hj]]; eauto.
Qed.

Lemma stampB_map_slot nd f :
  shape nd -> (forall sl, nth_error (n_slots nd) ix = Some sl -> fst (f sl) = B) -> stampB (map_slot nd ix f).
Proof.
  intros Hsh Hf. destruct (shape_slot nd Hsh) as (s1 & v & E & _).
  unfold stampB, map_slot. rewrite E. simpl. rewrite (nth_error_upd_same _ _ _ _ E).
  specialize (Hf _ E). destruct (f (s1, v)) as [a b]. simpl in Hf. subst a. eauto.
Qed.

Lemma eff_calm t i s nd :
  shape nd -> slot_ix t = ix -> start G (t_now t) = B -> t_rst t = false ->
  (needs s [i] = true -> t_ok t = true /\ stampB nd) ->
  shape (node_eff t i s nd) /\ (stampB nd -> stampB (node_eff t i s nd)) /\
  match i with IBucket s0 => sel_eqb s0 s = true -> stampB (node_eff t i s nd) | _ => True end /\
  econd s t i nd.
Proof.
  intros Hsh Hx Hst Hrst Hnd.
  destruct (shape_slot nd Hsh) as (s1 & v & E & Hs1).
  assert (Htriv : shape nd /\ (stampB nd -> stampB nd)) by (split; auto).
  destruct i; cbn [node_eff econd]; try (split; [exact Hsh|split; [auto|split; exact I]]);
    cbn [needs] in Hnd; rewrite ?Hx, ?Hst, ?Hrst; rewrite ?andb_false_r;
    destruct (sel_eqb s0 s) eqn:Es; cbn [andb];
    try (split; [exact Hsh|split; [intros Hq; exact Hq|split; exact I]]; fail);
    try (split; [exact Hsh|split; [auto|split; [auto|intros; discriminate]]]; fail);
    try (split; [exact Hsh|split; [auto|split; [intros; discriminate|auto]]]; fail).
  - (* IBucket *)
    rewrite E. destruct Hs1 as [[-> ->]| ->].
    + replace (0 =? 0) with true by reflexivity.
      assert (Hf : forall sl, nth_error (n_slots nd) ix = Some sl -> fst (bucket_fn t sl) = B)
        by (intros; unfold bucket_fn; simpl; auto).
      split; [apply shape_map_slot; auto|]. split; [intros _; apply stampB_map_slot; auto|].
      split; auto. intros _. apply stampB_map_slot; auto.
    + replace (B =? 0) with false by lia. rewrite N.eqb_refl.
      assert (stampB nd) by (exists v; auto). split; [exact Hsh|]. split; auto.
  - (* IReset *) split; [exact Hsh|split; [auto|split; auto]].
  - (* IMaxc *)
    destruct (Hnd eq_refl) as [Hok [v' Hv']]. rewrite Hok.
    assert (Hf : forall sl, nth_error (n_slots nd) ix = Some sl -> fst ((fun sl => (fst sl, bconc (t_c t) (snd sl))) sl) = B)
      by (intros sl Hsl; rewrite Hv' in Hsl; inversion Hsl; subst; reflexivity).
    split; [apply shape_map_slot; auto|]. split; auto. intros _. apply stampB_map_slot; auto.
  - (* IAdd *)
    destruct (Hnd eq_refl) as [Hok [v' Hv']]. rewrite Hok.
    assert (Hf : forall sl, nth_error (n_slots nd) ix = Some sl -> fst ((fun sl => (fst sl, badd ev n (snd sl))) sl) = B)
      by (intros sl Hsl; rewrite Hv' in Hsl; inversion Hsl; subst; reflexivity).
    split; [apply shape_map_slot; auto|]. split; [intros _; apply stampB_map_slot; auto|].
    split; auto. intros _. split; auto. rewrite Hv'. discriminate.
  - (* IAddRt *)
    destruct (Hnd eq_refl) as [Hok [v' Hv']]. rewrite Hok.
    assert (Hf : forall sl, nth_error (n_slots nd) ix = Some sl -> fst ((fun sl => (fst sl, badd Rt (t_rt t) (snd sl))) sl) = B)
      by (intros sl Hsl; rewrite Hv' in Hsl; inversion Hsl; subst; reflexivity).
    split; [apply shape_map_slot; auto|]. split; [intros _; apply stampB_map_slot; auto|].
    split; auto. intros _. split; auto. rewrite Hv'. discriminate.
Qed.

Lemma needs_one s i tl : needs s [i] = true -> needs s (i :: tl) = true.
Proof. destruct i; simpl; auto; try (intros; discriminate); destruct (sel_eqb s0 s); auto; intros; discriminate. Qed.

Lemma needs_tl s i tl : needs s tl = true ->
  match i with
  | IBucket s0 => sel_eqb s0 s = false -> needs s (i :: tl) = true
  | _ => needs s (i :: tl) = true
  end.
Proof. destruct i; simpl; auto; destruct (sel_eqb s0 s); auto. Qed.

Definition thr_calm (st : cstate) (code : list instr) (t : thr) : Prop :=
  lo <= t_now t <= hi /\ t_rst t = false /\
  forall s, needs s code = true -> t_ok t = true /\ stampB (gnode st s).

Definition Ecalm (r : N) (st : cstate) (ths : list thr) : Prop :=
  lo <= c_now st /\ c_now st + r <= hi /\ (forall s, shape (gnode st s)) /\
  forall tid t, nth_error ths tid = Some t -> thr_calm st (t_code t) t.

Lemma Ecalm_exec r st ths tid t i tl st' t' p :
  J1 st ths -> Ecalm r st ths -> nth_error ths tid = Some t -> t_code t = i :: tl ->
  exec false (N.of_nat tid) st (set_code t tl false) i = (st', t', p) ->
  Ecalm r st' (upd ths tid t') /\ forall s, econd s (set_code t tl false) i (gnode st s).
Proof.
  intros HJ (Hlo & Hhi & Hsh & Hth) Hn Hc H.
  destruct (J1_facts _ _ _ _ _ _ HJ Hn Hc) as (Hm & Hn0 & Htch & _).
  pose proof (exec_code _ _ _ _ _ _ _ _ H) as [Hc' _]. simpl in Hc'.
  pose proof (exec_now _ _ _ _ _ _ _ _ H) as Hnow.
  destruct (Hth _ _ Hn) as (Htn & Hrst & Hnd). rewrite Hc in Hnd.
  destruct (Hrange _ Htn) as [HstB Hix'].
  set (t0 := set_code t tl false) in *.
  assert (HE : forall s, shape (node_eff t0 i s (gnode st s)) /\
                 (stampB (gnode st s) -> stampB (node_eff t0 i s (gnode st s))) /\
                 match i with IBucket s0 => sel_eqb s0 s = true -> stampB (node_eff t0 i s (gnode st s)) | _ => True end /\
                 econd s t0 i (gnode st s)).
  { intros s. apply eff_calm; auto. intros Hq. apply Hnd. apply needs_one; auto. }
  assert (Hg : forall s, gnode st' s = node_eff t0 i s (gnode st s)).
  { intros s. eapply exec_gnode; eauto. }
  split; [|intros s; apply HE].
  split; [lia|]. split; [lia|]. split; [intros s; rewrite Hg; apply HE|].
  intros tid2 t2 Hn2. apply nth_upd_cases in Hn2 as [[<- ->]|[Hne Hn2]].
  - rewrite Hc'. unfold thr_calm.
    destruct i.
    10: {
      (* IBucket *)
      destruct (shape_slot _ (Hsh s)) as (s1 & v & Es & Hs1).
      assert (Hex : t_ok t' = true /\ t_rst t' = false /\ t_now t' = t_now t0).
      { apply (exec_bucket false (N.of_nat tid) st t0 s st' t' p s1 v H Hn0).
        - change (slot_ix t0) with (N.to_nat (idx G (t_now t))). rewrite Hix'. exact Es.
        - change (t_now t0) with (t_now t). rewrite HstB. destruct Hs1 as [[? _]|?]; auto. }
      destruct Hex as (Hok & Hr' & Hnw). rewrite Hnw. split; auto. split; auto.
      intros s2 Hq. split; auto. rewrite Hg.
      destruct (HE s2) as (_ & Hstab & Hbk & _).
      destruct (sel_eqb s s2) eqn:E2; [auto|].
      apply Hstab. apply Hnd. simpl. rewrite E2. auto. }
    all: pose proof (exec_regs _ _ _ _ _ _ _ _ H) as (Hok & Hr' & Hnw); cbv beta iota in Hnw;
      (split; [rewrite Hnw; try exact Htn; lia|]); (split; [auto|]);
      intros s2 Hq; rewrite Hok; (match type of Hc with t_code _ = ?i :: _ => pose proof (needs_tl s2 i tl Hq) as Hq2 end); cbv beta iota in Hq2;
      (match type of Hq2 with needs _ (?i :: _) = true => destruct (Hnd s2 Hq2) as [Hk1 Hk2] end);
      (split; [exact Hk1|]); rewrite Hg; apply HE; auto.
  - destruct (Hth _ _ Hn2) as (Htn2 & Hrst2 & Hnd2). split; auto. split; auto.
    intros s2 Hq. destruct (Hnd2 _ Hq). split; auto. rewrite Hg. apply HE; auto.
Qed.

Lemma Ecalm_done r st ths tid t :
  Ecalm r st ths -> nth_error ths tid = Some t -> t_code t = [] ->
  Ecalm r st (upd ths tid (set_code t [] true)).
Proof.
  intros (Hlo & Hhi & Hsh & Hth) Hn Hc. split; auto. split; auto. split; auto.
  intros tid2 t2 Hn2. apply nth_upd_cases in Hn2 as [[<- ->]|[Hne Hn2]]; eauto.
  destruct (Hth _ _ Hn) as (Htn & Hrst & Hnd). split; auto. split; auto. simpl. discriminate.
Qed.

Lemma gnode_advance st dt s : gnode (advance st dt) s = gnode st s.
Proof. destruct s; reflexivity. Qed.

Lemma Ecalm_adv r st ths dt : Ecalm (dt + r) st ths -> Ecalm r (advance st dt) ths.
Proof.
  intros (Hlo & Hhi & Hsh & Hth). split; [simpl; lia|]. split; [simpl; lia|].
  split; [intros s; rewrite gnode_advance; auto|].
  intros tid t Hn. destruct (Hth _ _ Hn) as (A & B' & C). split; [exact A|]. split; [exact B'|].
  intros s Hq. rewrite gnode_advance. auto.
Qed.
End Calm.
