(** C12: construction of flow statistics never fails, the hotspot retry loop is unreachable
    from fresh controllers, and validity implies the premises of the family theorems. *)
From SV Require Import Model.Base Model.F64 Model.LeapArray Model.World Model.Hotspot Model.Breaker Model.Rules
  Spec.C06Spec Proofs.WorldProofs Proofs.C06Proofs.
From Coq Require Import ZifyBool ZifyN.
Open Scope N_scope.

(** * 1. stat_for never yields SBroken *)

(** a ring built for a non-zero interval divided by a non-zero sample count accepts its own window *)
Lemma own_ring_ok scnt interval :
  interval <> 0 -> scnt <> 0 -> interval mod scnt = 0 ->
  exists g w, ring_new scnt interval = Some g /\ win_new g scnt interval = Some w.
Proof.
  intros Hi Hs Hm.
  exists (mkG scnt (interval / scnt)), (mkW scnt interval).
  assert (Hmul : scnt * (interval / scnt) = interval).
  { pose proof (N.div_mod' interval scnt) as H. rewrite Hm, N.add_0_r in H. symmetry. exact H. }
  assert (Es : (scnt =? 0) = false) by (apply N.eqb_neq; exact Hs).
  assert (Ei : (interval =? 0) = false) by (apply N.eqb_neq; exact Hi).
  split.
  - unfold ring_new. rewrite Es, Hm. reflexivity.
  - unfold win_new, iv. cbn [sc bl]. rewrite Hmul.
    unfold check_reuse, check_stat. rewrite Es, Ei, Hm.
    rewrite N.mod_same by exact Hi.
    assert (Hd : interval / scnt <> 0).
    { intros H0. rewrite H0, N.mul_0_r in Hmul. apply Hi. symmetry. exact Hmul. }
    rewrite N.mod_same by exact Hd. reflexivity.
Qed.

Theorem stat_for_never_broken : forall c interval, geom_ok c -> stat_for c interval <> SBroken.
Proof.
  intros c interval (Hbl & _ & _). unfold stat_for.
  destruct (interval =? 0) eqn:E0; [discriminate|].
  apply N.eqb_neq in E0. cbn [orb].
  destruct (interval =? c_miv c); [discriminate|].
  set (tot := c_total c) in *.
  set (scnt := if (bl tot <? interval) && (interval <? iv tot) && (interval mod bl tot =? 0)
               then interval / bl tot else 1).
  assert (Hsc : scnt <> 0 /\ interval mod scnt = 0).
  { unfold scnt.
    destruct ((bl tot <? interval) && (interval <? iv tot) && (interval mod bl tot =? 0)) eqn:E.
    - apply andb_prop in E. destruct E as [E Em]. apply andb_prop in E. destruct E as [Elt _].
      apply N.ltb_lt in Elt. apply N.eqb_eq in Em.
      assert (Hb : bl tot <> 0) by lia.
      pose proof (N.div_mod' interval (bl tot)) as Hdm. rewrite Em, N.add_0_r in Hdm.
      split.
      + intros H0. rewrite H0, N.mul_0_r in Hdm. lia.
      + rewrite Hdm at 1. apply N.mod_mul.
        intros H0. rewrite H0, N.mul_0_r in Hdm. lia.
    - split; [discriminate|apply N.mod_1_r]. }
  destruct Hsc as [Hs Hm].
  destruct (check_reuse scnt interval (sc tot) (iv tot)); [discriminate|].
  destruct (own_ring_ok scnt interval E0 Hs Hm) as (g & w & Hr & Hw).
  rewrite Hr, Hw. discriminate.
Qed.

(** * 2. the hotspot retry loop is unreachable *)

(** reject controllers keep both counters in step *)
Definition good (c : hctl) : Prop := h_kind (hc_rule c) = HReject -> synced c.

Lemma perform_good c v batch now :
  good c ->
  good (fst (perform c v batch now)) /\ snd (perform c v batch now) <> HStuck.
Proof.
  intros Hg. unfold perform, good in *.
  destruct (h_kind (hc_rule c)) eqn:Ek.
  - unfold conc_check. destruct (hc_conc c v) as [cur|].
    + destruct (cur + 1 <=? thr_of (hc_rule c) v); cbn [fst snd]; split; try discriminate;
        intros H; rewrite Ek in H; discriminate.
    + destruct (1 <=? thr_of (hc_rule c) v); cbn [fst snd hc_rule]; split; try discriminate;
        intros H; rewrite Ek in H; discriminate.
  - specialize (Hg eq_refl).
    pose proof (reject_check_ref c v batch now Hg) as H.
    destruct (reject_check c v batch now) as [c' r]. cbv zeta in H.
    destruct (tb_step (thr_of (hc_rule c) v) (h_burst (hc_rule c)) (h_dur (hc_rule c) * 1000) (st_of c v) now batch)
      as [st' d].
    destruct H as (Hs' & _ & _ & Hns & _). cbn [fst snd]. split; auto.
  - unfold throttle_check.
    assert (Hk : forall tm, h_kind (hc_rule (mkHC (hc_rule c) tm (hc_tok c) (hc_conc c))) = HReject ->
                            synced (mkHC (hc_rule c) tm (hc_tok c) (hc_conc c))).
    { intros tm H. cbn [hc_rule] in H. rewrite Ek in H. discriminate. }
    assert (Hc : h_kind (hc_rule c) = HReject -> synced c).
    { intros H. rewrite Ek in H. discriminate. }
    destruct (thr_of (hc_rule c) v =? 0); [cbn [fst snd]; split; [exact Hc|discriminate]|].
    destruct (hc_time c v) as [last|].
    + destruct ((last + throttle_cost (hc_rule c) (thr_of (hc_rule c) v) batch <=? now)
                || (last + throttle_cost (hc_rule c) (thr_of (hc_rule c) v) batch - now <? h_maxq (hc_rule c))).
      * destruct (now <? last + throttle_cost (hc_rule c) (thr_of (hc_rule c) v) batch);
          cbn [fst snd]; split; try discriminate; apply Hk.
      * cbn [fst snd]; split; [exact Hc|discriminate].
    + cbn [fst snd]; split; [apply Hk|discriminate].
Qed.

Lemma hslot_good cs args att batch now :
  Forall good cs ->
  Forall good (fst (fst (hslot cs args att batch now))) /\ snd (fst (hslot cs args att batch now)) <> HHang.
Proof.
  revert now. induction cs as [|c tl IH]; intros now Hf.
  - cbn [hslot fst snd]. split; [constructor|discriminate].
  - inversion Hf as [|c0 tl0 Hc Htl]; subst. cbn [hslot].
    destruct (extract (hc_rule c) args att) as [v|].
    + pose proof (perform_good c v batch now Hc) as [Hg Hns].
      destruct (perform c v batch now) as [c' r]. cbn [fst snd] in Hg, Hns.
      destruct r as [|s|ms|].
      * specialize (IH now Htl). destruct (hslot tl args att batch now) as [[tl' o] now'].
        cbn [fst snd] in *. destruct IH as [IH1 IH2]. split; [constructor; assumption|exact IH2].
      * cbn [fst snd]. split; [constructor; assumption|discriminate].
      * specialize (IH (now + ms) Htl). destruct (hslot tl args att batch (now + ms)) as [[tl' o] now'].
        cbn [fst snd] in *. destruct IH as [IH1 IH2]. split; [constructor; assumption|exact IH2].
      * exfalso. apply Hns. reflexivity.
    + specialize (IH now Htl). destruct (hslot tl args att batch now) as [[tl' o] now'].
      cbn [fst snd] in *. destruct IH as [IH1 IH2]. split; [constructor; assumption|exact IH2].
Qed.

Lemma conc_adjust_good up c args att : good c -> good (conc_adjust up c args att).
Proof.
  intros Hg. unfold conc_adjust.
  destruct (h_kind (hc_rule c)) eqn:Ek; try exact Hg.
  destruct (extract (hc_rule c) args att) as [v|]; try exact Hg.
  (* the adjusted controller has the same rule and the same time/token maps *)
  destruct (hc_conc c v) as [cur|]; exact Hg.
Qed.

Lemma map_conc_adjust_good up args att cs :
  Forall good cs -> Forall good (map (fun c => conc_adjust up c args att) cs).
Proof.
  induction 1 as [|c tl Hc Htl IH]; cbn [map]; constructor; auto using conc_adjust_good.
Qed.

Lemma hexec_good w x :
  Forall good (hw_ctls w) ->
  Forall good (hw_ctls (fst (hexec w x))) /\ snd (hexec w x) <> HOHang.
Proof.
  intros Hf. destruct x as [id args att batch|id|dt]; cbn [hexec].
  - pose proof (hslot_good (hw_ctls w) args att batch (hw_now w) Hf) as [H1 H2].
    destruct (hslot (hw_ctls w) args att batch (hw_now w)) as [[cs o] now']. cbn [fst snd] in H1, H2.
    destruct o as [|r s|].
    + cbn [fst snd hw_ctls]. split; [apply map_conc_adjust_good; exact H1|discriminate].
    + cbn [fst snd hw_ctls]. split; [exact H1|discriminate].
    + exfalso. apply H2. reflexivity.
  - destruct (find_hentry id (hw_open w)) as [[e rest]|].
    + cbn [fst snd hw_ctls]. split; [apply map_conc_adjust_good; exact Hf|discriminate].
    + cbn [fst snd]. split; [exact Hf|discriminate].
  - cbn [fst snd hw_ctls]. split; [exact Hf|discriminate].
Qed.

Lemma hrun_good ops : forall w, Forall good (hw_ctls w) -> ~ In HOHang (hrun w ops).
Proof.
  induction ops as [|x tl IH]; intros w Hf; cbn [hrun].
  - intros [].
  - pose proof (hexec_good w x Hf) as [H1 H2].
    destruct (hexec w x) as [w' o]. cbn [fst snd] in H1, H2.
    specialize (IH w' H1).
    destruct o; try (intros [Heq|Hin]; [discriminate Heq|exact (IH Hin)]).
    exfalso. apply H2. reflexivity.
Qed.

Lemma hctl0_good r : good (hctl0 r).
Proof. intros _ v. unfold hctl0, fempty. cbn [hc_time hc_tok]. tauto. Qed.

Theorem hotspot_never_hangs : forall rules base ops,
  ~ In HOHang (hrun (mkHW base (map hctl0 rules) []) ops).
Proof.
  intros rules base ops. apply hrun_good. cbn [hw_ctls].
  induction rules as [|r tl IH]; cbn [map]; constructor; [apply hctl0_good|exact IH].
Qed.

(** * 3. validity implies the premises of the family theorems *)

Theorem valid_cb_premises : forall r, valid_cb r = true -> 0 < cr_interval r /\ 0 < cr_retry r /\ cr_res_empty r = false.
Proof.
  intros r H. unfold valid_cb in H.
  repeat (apply andb_prop in H; destruct H as [H ?]).
  destruct (cr_res_empty r); [discriminate|].
  repeat split; lia.
Qed.

Theorem valid_hot_premises : forall r, valid_hot r = true ->
  hr_res_empty r = false /\ (hr_qps r = true -> 0 < hr_dur r).
Proof.
  intros r H. unfold valid_hot in H.
  repeat (apply andb_prop in H; destruct H as [H ?]).
  destruct (hr_res_empty r); [discriminate|].
  split; [reflexivity|]. intros Hq. rewrite Hq in *. lia.
Qed.

Theorem valid_iso_premises : forall r, valid_iso r = true -> 0 < ir_thr r /\ ir_res_empty r = false.
Proof.
  intros r H. unfold valid_iso in H.
  apply andb_prop in H. destruct H as [H1 H2].
  destruct (ir_res_empty r); [discriminate|].
  split; [lia|reflexivity].
Qed.

Print Assumptions stat_for_never_broken.
Print Assumptions hotspot_never_hangs.
Print Assumptions valid_cb_premises.
Print Assumptions valid_hot_premises.
Print Assumptions valid_iso_premises.
