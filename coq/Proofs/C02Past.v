(** C02: window reads for a read time that may lie before some writes (what qps_previous
    does).  As long as no bucket of the read window has been recycled for a later bucket of
    the same slot, the read returns exactly the events of the window. *)
From SV Require Import Model.Base Model.F64 Model.LeapArray Spec.C02Spec
  Proofs.LeapArrayProofs Proofs.WindowProofs Proofs.C02Proofs Proofs.C02Count.
From Coq Require Import ZifyBool ZifyN.
Open Scope N_scope.

(** The newest recorded event satisfies every bound that all recorded events satisfy. *)
Lemma lastt_rev_bound g (h : list ev_t) b :
  0 < b -> (forall e, In e h -> start g (fst e) < b) -> start g (lastt (rev h)) < b.
Proof.
  intros Hb H. destruct (rev h) as [|x l] eqn:E; simpl.
  - unfold start. simpl. lia.
  - apply H. apply in_rev. rewrite E. simpl; auto.
Qed.

(** Generic read lemma (cf. [window_read_exact]): the hypothesis "every write is at or before
    the read time" is replaced by "no write has reached the bucket that recycles the oldest
    bucket of the read window". *)
Lemma window_read_exact_past op e0 m d
  (op_comm : forall a b, op a b = op b a)
  (op_assoc : forall a b c, op a (op b c) = op (op a b) c)
  (m_reset_base : op (m bucket0) e0 = e0)
  (m_apply : forall w b, m (apply_w w b) = match d w with Some x => op x (m b) | None => m b end)
  g wsc wiv w h slots now :
  0 < bl g -> 0 < sc g -> win_new g wsc wiv = Some w -> wf_hist g h ->
  run_writes g (ring0 g) h = Some slots -> iv g <= now ->
  (forall e, In e h -> start g (fst e) < start g now - w_iv w + bl g + iv g) ->
  satisfied g w slots now =
    ROk (valid_values g slots now
           (fun s => (start g now - w_iv w + bl g <=? s) && (s <=? start g now))) /\
  fold_right (fun (sl : slot) acc => op (m (snd sl)) acc) e0
             (valid_values g slots now
                (fun s => (start g now - w_iv w + bl g <=? s) && (s <=? start g now)))
  = spec_agg op e0 d g h (start g now - w_iv w + bl g) (start g now).
Proof.
  intros Hb Hs Hw Hwf Hrun Hiv Hfresh.
  destruct (wf_reaches g h Hb Hs Hwf) as [s' [_ Hr]].
  pose proof (run_strict_run_writes _ _ _ _ Hr) as Hr'.
  assert (s' = slots) by congruence. subst s'. clear Hr'.
  apply win_new_facts in Hw. destruct Hw as (-> & Hwiv & Hwle & _ & Hivpos).
  simpl in *.
  pose proof (iv_le_start g now Hb Hiv) as Hst.
  split.
  - unfold satisfied, start_range. simpl.
    assert (bl g =? 0 = false) as -> by lia.
    assert (start g now <? wiv = false) as -> by lia.
    reflexivity.
  - rewrite agg_filter.
    + rewrite <- (spec_agg_rev op e0 d op_comm op_assoc g h).
      pose proof (run_strict_agginv op e0 m d op_comm op_assoc m_reset_base m_apply g Hb Hs
                    h (ring0 g) [] (bl g) slots) as HA.
      rewrite app_nil_r in HA.
      assert (Hrange : start g (lastt (rev h)) < start g now - wiv + bl g + iv g).
      { apply lastt_rev_bound; auto. lia. }
      assert (Ht : times_le [] (bl g)) by (intros ev Hev; destruct Hev).
      apply HA; auto; try lia; [apply Inv_init | apply AggInv_init; auto].
    + intros sl _ Hin. unfold inr in Hin. unfold deprecated.
      pose proof (start_gt g now Hb). lia.
Qed.

Lemma sum_exact_past : forall g wsc wiv w h slots now ev,
  (0 < bl g /\ 0 < sc g /\ win_new g wsc wiv = Some w /\ wf_hist g h /\
   run_writes g (ring0 g) h = Some slots /\ iv g <= now /\
   (forall e, In e h -> start g (fst e) < start g now - w_iv w + bl g + iv g)) ->
  sum_with_time g w slots now ev = ROk (spec_sum g w now ev h).
Proof.
  intros g wsc wiv w h slots now ev (Hb & Hs & Hw & Hwf & Hrun & Hiv & Hfresh).
  destruct (window_read_exact_past N.add 0 (bget ev) (d_sum ev) N.add_comm N.add_assoc (sum_reset ev)
              (sum_apply ev) g wsc wiv w h slots now Hb Hs Hw Hwf Hrun Hiv Hfresh) as (Hsat & Hagg).
  unfold sum_with_time. rewrite Hsat. simpl. unfold sum_get. rewrite Hagg, spec_sum_agg. reflexivity.
Qed.

Lemma min_rt_exact_past : forall g wsc wiv w h slots now,
  (0 < bl g /\ 0 < sc g /\ win_new g wsc wiv = Some w /\ wf_hist g h /\
   run_writes g (ring0 g) h = Some slots /\ iv g <= now /\
   (forall e, In e h -> start g (fst e) < start g now - w_iv w + bl g + iv g)) ->
  win_min_rt g w slots now = ROk (spec_min_rt g w now h).
Proof.
  intros g wsc wiv w h slots now (Hb & Hs & Hw & Hwf & Hrun & Hiv & Hfresh).
  destruct (window_read_exact_past N.min MAX_RT b_minrt d_min N.min_comm min_assoc eq_refl
              min_apply g wsc wiv w h slots now Hb Hs Hw Hwf Hrun Hiv Hfresh) as (Hsat & Hagg).
  unfold win_min_rt. rewrite Hsat. simpl. unfold min_minrt. rewrite Hagg, spec_min_agg. reflexivity.
Qed.

Lemma max_conc_exact_past : forall g wsc wiv w h slots now,
  (0 < bl g /\ 0 < sc g /\ win_new g wsc wiv = Some w /\ wf_hist g h /\
   run_writes g (ring0 g) h = Some slots /\ iv g <= now /\
   (forall e, In e h -> start g (fst e) < start g now - w_iv w + bl g + iv g)) ->
  win_max_conc g w slots now = ROk (spec_max_conc g w now h).
Proof.
  intros g wsc wiv w h slots now (Hb & Hs & Hw & Hwf & Hrun & Hiv & Hfresh).
  destruct (window_read_exact_past N.max 0 b_maxc d_maxc N.max_comm max_assoc eq_refl
              maxc_apply g wsc wiv w h slots now Hb Hs Hw Hwf Hrun Hiv Hfresh) as (Hsat & Hagg).
  unfold win_max_conc. rewrite Hsat. simpl. unfold max_maxc. rewrite Hagg, spec_maxc_agg. reflexivity.
Qed.

Lemma rate_exact_past : forall g wsc wiv w h slots now ev,
  (0 < bl g /\ 0 < sc g /\ win_new g wsc wiv = Some w /\ wf_hist g h /\
   run_writes g (ring0 g) h = Some slots /\ iv g <= now /\
   (forall e, In e h -> start g (fst e) < start g now - w_iv w + bl g + iv g)) ->
  qps_with_time g w slots now ev = ROk (qps_of_sum w (spec_sum g w now ev h)).
Proof.
  intros g wsc wiv w h slots now ev H. unfold qps_with_time.
  rewrite (sum_exact_past g wsc wiv w h slots now ev H). reflexivity.
Qed.

Print Assumptions sum_exact_past.
Print Assumptions min_rt_exact_past.
Print Assumptions max_conc_exact_past.
Print Assumptions rate_exact_past.
