(** Proofs about the LeapArray model: the ring reflects the write history, and every
    window aggregate equals the aggregate computed directly from the events. *)
From SV Require Import Model.Base Model.F64 Model.LeapArray.
From Coq Require Import ZifyBool ZifyN.

Open Scope N_scope.

(** * Arithmetic of bucket starts and slot indices *)

Lemma start_eq g t : 0 < bl g -> start g t = bl g * (t / bl g).
Proof.
  unfold start; intros H. pose proof (N.div_mod' t (bl g)).
  assert (t mod bl g <= t) by (apply N.mod_le; lia). lia.
Qed.
Lemma start_mod g t : 0 < bl g -> start g t mod bl g = 0.
Proof. intros H. rewrite start_eq by auto. rewrite N.mul_comm. apply N.mod_mul. lia. Qed.
Lemma start_div g t : 0 < bl g -> start g t / bl g = t / bl g.
Proof. intros H. rewrite start_eq by auto. rewrite N.mul_comm. apply N.div_mul. lia. Qed.
Lemma start_idx g t : 0 < bl g -> idx g (start g t) = idx g t.
Proof. unfold idx; intros. rewrite start_div; auto. Qed.
Lemma start_start g t : 0 < bl g -> start g (start g t) = start g t.
Proof. intros. rewrite (start_eq g (start g t)), start_div by auto. symmetry; apply start_eq; auto. Qed.
Lemma start_le g t : start g t <= t.
Proof. unfold start; lia. Qed.
Lemma start_mono g a b : 0 < bl g -> a <= b -> start g a <= start g b.
Proof. intros. rewrite !start_eq by auto. apply N.mul_le_mono_l. apply N.div_le_mono; lia. Qed.
Lemma start_gt g t : 0 < bl g -> t < start g t + bl g.
Proof. intros H. unfold start. pose proof (N.mod_lt t (bl g)). assert (t mod bl g <= t) by (apply N.mod_le; lia). lia. Qed.
Lemma start_pos g t : 0 < bl g -> bl g <= t -> 0 < start g t.
Proof.
  intros H Ht. rewrite start_eq by auto.
  assert (1 <= t / bl g).
  { replace 1 with (bl g / bl g) by (apply N.div_same; lia). apply N.div_le_mono; lia. }
  assert (bl g * 1 <= bl g * (t / bl g)) by (apply N.mul_le_mono_l; auto). lia.
Qed.
Lemma start_of_multiple g s : 0 < bl g -> s mod bl g = 0 -> start g s = s.
Proof. intros H Hs. unfold start. rewrite Hs. lia. Qed.
Lemma idx_lt g t : 0 < sc g -> idx g t < sc g.
Proof. intros. unfold idx. apply N.mod_lt. lia. Qed.

(** Two different bucket starts mapped to the same slot are at least one interval apart. *)
Lemma same_slot_gap g a b :
  0 < bl g -> 0 < sc g -> a mod bl g = 0 -> b mod bl g = 0 ->
  idx g a = idx g b -> a < b -> a + iv g <= b.
Proof.
  intros Hb Hs Ha Hbm Hidx Hlt. unfold idx, iv in *.
  assert (Ea : a = bl g * (a / bl g)) by (pose proof (N.div_mod' a (bl g)); lia).
  assert (Eb : b = bl g * (b / bl g)) by (pose proof (N.div_mod' b (bl g)); lia).
  set (qa := a / bl g) in *. set (qb := b / bl g) in *.
  assert (Hq : qa < qb).
  { destruct (N.lt_ge_cases qa qb) as [H|H]; auto. exfalso.
    assert (bl g * qb <= bl g * qa) by (apply N.mul_le_mono_l; auto). lia. }
  assert (Hq2 : qa + sc g <= qb).
  { pose proof (N.div_mod' qa (sc g)) as Da. pose proof (N.div_mod' qb (sc g)) as Db.
    rewrite Hidx in Da.
    assert (Hr : qb mod sc g < sc g) by (apply N.mod_lt; lia).
    set (ka := qa / sc g) in *. set (kb := qb / sc g) in *. set (r := qb mod sc g) in *.
    assert (ka < kb).
    { destruct (N.lt_ge_cases ka kb) as [H|H]; auto. exfalso.
      assert (sc g * kb <= sc g * ka) by (apply N.mul_le_mono_l; auto). lia. }
    assert (H0 : sc g * (ka + 1) <= sc g * kb) by (apply N.mul_le_mono_l; lia).
    rewrite N.mul_add_distr_l, N.mul_1_r in H0. lia. }
  assert (H : bl g * (qa + sc g) <= bl g * qb) by (apply N.mul_le_mono_l; auto).
  rewrite N.mul_add_distr_l in H. rewrite (N.mul_comm (sc g) (bl g)). lia.
Qed.

(** * The ring reflects the history *)

(** Ghost history: newest first. *)
Definition hist := list ev_t.

(** The bucket value implied by the history for bucket start [s]. *)
Definition agg (g : geom) (evs : hist) (s : N) : bucket :=
  fold_right (fun (e : ev_t) acc => if start g (fst e) =? s then apply_w (snd e) acc else acc)
             bucket0 evs.

Definition slot_ok (g : geom) (evs : hist) (i : nat) (sl : slot) : Prop :=
  let '(s, v) := sl in
  (s = 0 /\ v = bucket0 /\ forall e, In e evs -> N.to_nat (idx g (fst e)) <> i) \/
  (s <> 0 /\ s mod bl g = 0 /\ N.to_nat (idx g s) = i /\ v = agg g evs s /\
   (exists e, In e evs /\ start g (fst e) = s) /\
   forall e, In e evs -> N.to_nat (idx g (fst e)) = i -> start g (fst e) <= s).

Definition Inv (g : geom) (slots : list slot) (evs : hist) : Prop :=
  length slots = N.to_nat (sc g) /\
  forall i sl, nth_error slots i = Some sl -> slot_ok g evs i sl.

Lemma Inv_init g : Inv g (ring0 g) [].
Proof.
  split; [apply repeat_length|].
  intros i sl H. apply nth_error_repeat in H. subst sl. left. repeat split; auto.
Qed.

Lemma agg_no_event g evs s :
  (forall e, In e evs -> start g (fst e) <> s) -> agg g evs s = bucket0.
Proof.
  induction evs as [|e evs IH]; simpl; intros H; auto.
  destruct (start g (fst e) =? s) eqn:E.
  - apply N.eqb_eq in E. exfalso. apply (H e); auto.
  - apply IH. intros e' He'. apply H; auto.
Qed.

Definition times_le (evs : hist) (t : N) : Prop := forall e, In e evs -> fst e <= t.

(** Shape of a write at a time not earlier than every recorded event: it is always
    accepted, and lands in one of the three branches of get_bucket_of_time. *)
Lemma write_cases g slots evs t w :
  0 < bl g -> 0 < sc g -> times_le evs t -> Inv g slots evs ->
  exists s v, nth_error slots (N.to_nat (idx g t)) = Some (s, v) /\
    ( (s = 0 /\ v = bucket0 /\
       write g slots t w = WOk (upd slots (N.to_nat (idx g t)) (start g t, apply_w w bucket0)))
   \/ (s <> 0 /\ s = start g t /\ v = agg g evs s /\
       write g slots t w = WOk (upd slots (N.to_nat (idx g t)) (s, apply_w w v)))
   \/ (s <> 0 /\ s + iv g <= start g t /\
       write g slots t w = WOk (upd slots (N.to_nat (idx g t)) (start g t, apply_w w bucket0)))).
Proof.
  intros Hb Hs Hmono [Hlen Hall].
  set (i := N.to_nat (idx g t)).
  assert (Hi : (i < length slots)%nat).
  { rewrite Hlen. unfold i. pose proof (idx_lt g t Hs). lia. }
  destruct (nth_error slots i) as [[s v]|] eqn:Hnth; [|apply nth_error_None in Hnth; lia].
  exists s, v. split; auto.
  pose proof (Hall i (s, v) Hnth) as Hok. unfold write. fold i. rewrite Hnth.
  assert (bl g =? 0 = false) as -> by lia.
  destruct Hok as [(-> & -> & Hno)|(Hnz & Hm & Hix & Hv & [e [He Hse]] & Hmax)].
  - left. repeat split; auto.
  - assert (s =? 0 = false) as -> by lia.
    destruct (s =? start g t) eqn:E1.
    + right; left. apply N.eqb_eq in E1. repeat split; auto.
    + right; right.
      assert (s <= start g t).
      { rewrite <- Hse. apply start_mono; auto. }
      assert (s < start g t) by lia.
      assert (s <? start g t = true) as -> by lia.
      repeat split; auto.
      apply same_slot_gap; auto. { apply start_mod; auto. }
      rewrite start_idx by auto. unfold i in Hix. lia.
Qed.

Lemma write_inv g slots evs t w slots' :
  0 < bl g -> 0 < sc g -> 0 < start g t -> times_le evs t ->
  Inv g slots evs -> write g slots t w = WOk slots' -> Inv g slots' ((t, w) :: evs).
Proof.
  intros Hb Hs Hpos Hmono HI Hw.
  destruct (write_cases g slots evs t w Hb Hs Hmono HI) as (s & v & Hi & Hcases).
  destruct HI as [Hlen Hall].
  set (i := N.to_nat (idx g t)) in *.
  (* common conclusion: the slot now holds (start t, agg of the extended history) *)
  assert (Hcase : forall v',
     v' = agg g ((t, w) :: evs) (start g t) ->
     (forall e, In e evs -> N.to_nat (idx g (fst e)) = i -> start g (fst e) <= start g t) ->
     Inv g (upd slots i (start g t, v')) ((t, w) :: evs)).
  { intros v' -> Hle. split; [rewrite length_upd; exact Hlen|].
    intros j sl Hj. destruct (Nat.eq_dec i j) as [<-|Hne].
    - rewrite (nth_error_upd_same _ _ _ _ Hi) in Hj. inversion Hj; subst sl; clear Hj.
      right. repeat split; try lia.
      + apply start_mod; auto.
      + rewrite start_idx; auto.
      + exists (t, w). split; simpl; auto.
      + intros e [<-|He] Hidx; simpl; [lia|]. apply Hle; auto.
    - rewrite nth_error_upd_other in Hj by auto.
      pose proof (Hall j sl Hj) as Hokj. destruct sl as [sj vj].
      destruct Hokj as [(-> & -> & Hno)|(Hnz & Hm & Hix & Hv & [e0 [He0 Hse0]] & Hmax)].
      + left; repeat split; auto. intros e [<-|He]; simpl; [fold i; congruence|auto].
      + right; repeat split; auto.
        * simpl. destruct (start g t =? sj) eqn:E; [|exact Hv].
          exfalso. apply N.eqb_eq in E. apply Hne. unfold i. rewrite <- Hix, <- E, start_idx; auto.
        * exists e0. split; simpl; auto.
        * intros e [<-|He] Hidx; simpl in *; [fold i in Hidx; congruence|auto]. }
  assert (Hevle : forall e, In e evs -> start g (fst e) <= start g t).
  { intros e He. apply start_mono; auto. }
  pose proof (Hall i (s, v) Hi) as Hok.
  destruct Hcases as [(-> & -> & Hw')|[(Hnz & -> & -> & Hw')|(Hnz & Hgap & Hw')]];
    rewrite Hw' in Hw; inversion Hw; subst slots'; clear Hw Hw'.
  - apply Hcase; auto. simpl. rewrite N.eqb_refl.
    destruct Hok as [(_ & _ & Hno)|(Hnz & _)]; [|congruence].
    rewrite agg_no_event; auto.
    intros e He Heq. apply (Hno e He). unfold i.
    rewrite <- (start_idx g t), <- Heq, start_idx; auto.
  - apply Hcase; auto. simpl. rewrite N.eqb_refl. reflexivity.
  - apply Hcase; auto. simpl. rewrite N.eqb_refl.
    destruct Hok as [(-> & _)|(_ & Hm & Hix & Hv & _ & Hmax)]; [congruence|].
    rewrite agg_no_event; auto.
    intros e He Heq.
    assert (N.to_nat (idx g (fst e)) = i).
    { unfold i. rewrite <- (start_idx g t), <- Heq, start_idx; auto. }
    specialize (Hmax e He H). unfold iv in Hgap.
    assert (0 < sc g * bl g) by (apply N.mul_pos_pos; auto). lia.
Qed.

(** * Window aggregates

    Generic in a commutative, associative [op] with a base value [e]: the aggregate over a
    list is [fold_right op e], so [e] sits at the bottom of every aggregate and no identity
    law is needed.  [m] measures a bucket, [d] is what a write contributes. *)

Definition inr (lo hi s : N) : bool := (lo <=? s) && (s <=? hi).

Section Aggregate.
  Variable op : N -> N -> N.
  Variable e0 : N.
  Variable m : bucket -> N.
  Variable d : wop -> option N.
  Hypothesis op_comm : forall a b, op a b = op b a.
  Hypothesis op_assoc : forall a b c, op a (op b c) = op (op a b) c.
  Hypothesis m_reset_base : op (m bucket0) e0 = e0.
  Hypothesis m_apply : forall w b,
    m (apply_w w b) = match d w with Some x => op x (m b) | None => m b end.

  Definition win_agg (slots : list slot) (lo hi : N) : N :=
    fold_right (fun (sl : slot) acc => if inr lo hi (fst sl) then op (m (snd sl)) acc else acc) e0 slots.

  Definition spec_agg (g : geom) (evs : hist) (lo hi : N) : N :=
    fold_right (fun (ev : ev_t) acc =>
                  if inr lo hi (start g (fst ev))
                  then match d (snd ev) with Some x => op x acc | None => acc end
                  else acc) e0 evs.

  Lemma op_swap a b c : op a (op b c) = op b (op a c).
  Proof. rewrite op_assoc, (op_comm a b), <- op_assoc. reflexivity. Qed.

  Lemma win_agg_absorb slots lo hi : op (m bucket0) (win_agg slots lo hi) = win_agg slots lo hi.
  Proof.
    induction slots as [|sl tl IH]; simpl; auto.
    destruct (inr lo hi (fst sl)); auto.
    rewrite op_swap, IH. reflexivity.
  Qed.

  (** Replacing a slot that is outside the range. *)
  Lemma win_agg_upd_out slots i old new lo hi :
    nth_error slots i = Some old -> inr lo hi (fst old) = false ->
    win_agg (upd slots i new) lo hi =
    if inr lo hi (fst new) then op (m (snd new)) (win_agg slots lo hi) else win_agg slots lo hi.
  Proof.
    revert i; induction slots as [|h tl IH]; intros [|i] H Hout; simpl in *; try discriminate.
    - inversion H; subst. rewrite Hout. reflexivity.
    - rewrite (IH i H Hout). destruct (inr lo hi (fst h)), (inr lo hi (fst new)); auto.
      apply op_swap.
  Qed.

  (** Updating a slot in place (same stamp). *)
  Lemma win_agg_upd_same slots i s v w lo hi :
    nth_error slots i = Some (s, v) ->
    win_agg (upd slots i (s, apply_w w v)) lo hi =
    if inr lo hi s then match d w with Some x => op x (win_agg slots lo hi) | None => win_agg slots lo hi end
    else win_agg slots lo hi.
  Proof.
    revert i; induction slots as [|h tl IH]; intros [|i] H; simpl in *; try discriminate.
    - inversion H; subst. simpl. destruct (inr lo hi s); auto.
      rewrite m_apply. destruct (d w); auto; try (rewrite op_assoc; reflexivity).
    - rewrite (IH i H). destruct (inr lo hi (fst h)), (inr lo hi s); auto.
      destruct (d w); auto. apply op_swap.
  Qed.

  Definition lastt (evs : hist) : N := match evs with [] => 0 | ev :: _ => fst ev end.

  (** Every range not yet overtaken by the ring is aggregated exactly. *)
  Definition AggInv (g : geom) (slots : list slot) (evs : hist) : Prop :=
    forall lo hi, 0 < lo -> start g (lastt evs) < lo + iv g ->
      win_agg slots lo hi = spec_agg g evs lo hi.

  Lemma AggInv_init g : AggInv g (ring0 g) [].
  Proof.
    intros lo hi Hlo _. simpl. unfold ring0.
    induction (N.to_nat (sc g)) as [|n IH]; simpl; auto.
    assert (inr lo hi 0 = false) as -> by (unfold inr; lia). exact IH.
  Qed.

  Lemma write_agginv g slots evs t w slots' :
    0 < bl g -> 0 < sc g -> 0 < start g t -> times_le evs t ->
    Inv g slots evs -> AggInv g slots evs ->
    write g slots t w = WOk slots' -> AggInv g slots' ((t, w) :: evs).
  Proof.
    intros Hb Hs Hpos Hmono HI HS Hw lo hi Hlo Hrng. simpl in Hrng.
    assert (Hold : win_agg slots lo hi = spec_agg g evs lo hi).
    { apply HS; auto. destruct evs as [|ev evs]; simpl.
      - unfold start; simpl. lia.
      - assert (fst ev <= t) by (apply Hmono; simpl; auto).
        pose proof (start_mono g (fst ev) t Hb H). lia. }
    destruct (write_cases g slots evs t w Hb Hs Hmono HI) as (s & v & Hi & Hcases).
    assert (Hnew : forall old, nth_error slots (N.to_nat (idx g t)) = Some old ->
               inr lo hi (fst old) = false ->
               win_agg (upd slots (N.to_nat (idx g t)) (start g t, apply_w w bucket0)) lo hi
               = spec_agg g ((t, w) :: evs) lo hi).
    { intros old Ho Hout. rewrite (win_agg_upd_out _ _ _ _ _ _ Ho Hout). simpl.
      destruct (inr lo hi (start g t)); auto.
      rewrite m_apply, <- Hold. destruct (d w).
      - rewrite <- op_assoc, win_agg_absorb. reflexivity.
      - apply win_agg_absorb. }
    destruct Hcases as [(-> & -> & Hw')|[(Hnz & -> & -> & Hw')|(Hnz & Hgap & Hw')]];
      rewrite Hw' in Hw; inversion Hw; subst slots'; clear Hw Hw'.
    - apply (Hnew _ Hi). simpl. unfold inr. lia.
    - rewrite (win_agg_upd_same _ _ _ _ _ _ _ Hi). simpl. rewrite Hold. reflexivity.
    - apply (Hnew _ Hi). simpl. unfold inr. lia.
  Qed.
End Aggregate.

(** * Histories given oldest-first, as the code sees them *)

(** Strict run: refuses (None) as soon as any write is not accepted. *)
Fixpoint run_strict (g : geom) (slots : list slot) (h : list ev_t) : option (list slot) :=
  match h with
  | [] => Some slots
  | (t, w) :: tl => match write g slots t w with WOk s' => run_strict g s' tl | _ => None end
  end.

Lemma run_strict_run_writes g slots h s' : run_strict g slots h = Some s' -> run_writes g slots h = Some s'.
Proof.
  revert slots; induction h as [|[t w] tl IH]; simpl; intros slots H; auto.
  destruct (write g slots t w); try discriminate. auto.
Qed.

(** Well-formed history (oldest first): times never decrease and are at least one bucket
    length (the real clock is ~1.7e12 ms; stamp 0 is the "never used" marker). *)
Fixpoint nondecr (prev : N) (h : list ev_t) : Prop :=
  match h with
  | [] => True
  | (t, _) :: tl => prev <= t /\ nondecr t tl
  end.

Definition wf_hist (g : geom) (h : list ev_t) : Prop := nondecr (bl g) h.

Lemma nondecr_weaken a b h : a <= b -> nondecr b h -> nondecr a h.
Proof. destruct h as [|[t w] tl]; simpl; auto. intros H [H1 H2]. split; auto. lia. Qed.

Lemma nondecr_all_ge p h : nondecr p h -> forall ev, In ev h -> p <= fst ev.
Proof.
  revert p; induction h as [|[t w] tl IH]; simpl; intros p H ev Hin; [contradiction|].
  destruct H as [H1 H2]. destruct Hin as [<-|Hin]; simpl; auto.
  specialize (IH t H2 ev Hin). lia.
Qed.

(** The state reached from an invariant state, with the ghost history extended. *)
Lemma run_strict_inv g :
  0 < bl g -> 0 < sc g ->
  forall h slots evs p,
    bl g <= p -> times_le evs p -> nondecr p h -> Inv g slots evs ->
    exists slots', run_strict g slots h = Some slots' /\ Inv g slots' (rev h ++ evs).
Proof.
  intros Hb Hs. induction h as [|[t w] tl IH]; simpl; intros slots evs p Hp Hle Hnd HI.
  - exists slots. auto.
  - destruct Hnd as [Hpt Hnd].
    assert (Hmono : times_le evs t) by (intros ev Hev; specialize (Hle ev Hev); lia).
    destruct (write_cases g slots evs t w Hb Hs Hmono HI) as (s & v & Hi & Hc).
    assert (Hpos : 0 < start g t) by (apply start_pos; auto; lia).
    assert (exists s', write g slots t w = WOk s') as [s' Hw].
    { destruct Hc as [(_ & _ & H)|[(_ & _ & _ & H)|(_ & _ & H)]]; eauto. }
    rewrite Hw.
    pose proof (write_inv g slots evs t w s' Hb Hs Hpos Hmono HI Hw) as HI'.
    destruct (IH s' ((t, w) :: evs) t) as (s'' & Hr & HI''); auto; try lia.
    { intros ev [<-|Hev]; simpl; [lia|]. apply Hmono; auto. }
    exists s''. split; auto. rewrite <- app_assoc. exact HI''.
Qed.

Lemma run_strict_agginv op e0 m d
  (op_comm : forall a b, op a b = op b a)
  (op_assoc : forall a b c, op a (op b c) = op (op a b) c)
  (m_reset_base : op (m bucket0) e0 = e0)
  (m_apply : forall w b, m (apply_w w b) = match d w with Some x => op x (m b) | None => m b end) g :
  0 < bl g -> 0 < sc g ->
  forall h slots evs p slots',
    bl g <= p -> times_le evs p -> nondecr p h -> Inv g slots evs ->
    AggInv op e0 m d g slots evs ->
    run_strict g slots h = Some slots' -> AggInv op e0 m d g slots' (rev h ++ evs).
Proof.
  intros Hb Hs. induction h as [|[t w] tl IH]; simpl; intros slots evs p slots' Hp Hle Hnd HI HA Hr.
  - inversion Hr; subst; auto.
  - destruct Hnd as [Hpt Hnd].
    assert (Hmono : times_le evs t) by (intros ev Hev; specialize (Hle ev Hev); lia).
    assert (Hpos : 0 < start g t) by (apply start_pos; auto; lia).
    destruct (write g slots t w) as [s1| |] eqn:Hw; try discriminate.
    pose proof (write_inv g slots evs t w s1 Hb Hs Hpos Hmono HI Hw) as HI'.
    pose proof (write_agginv op e0 m d op_comm op_assoc m_reset_base m_apply
                  g slots evs t w s1 Hb Hs Hpos Hmono HI HA Hw) as HA'.
    rewrite <- app_assoc. simpl.
    apply (IH s1 ((t, w) :: evs) t); auto; try lia.
    intros ev [<-|Hev]; simpl; [lia|]. apply Hmono; auto.
Qed.
