(** C19: a crash at any byte of what one write issues leaves a torn directory in the sense of
    Spec/C19Crash.v ([torn_ok2]), with nothing written earlier lost; so both searches return what
    they prescribe on the completely written part, and at most one more item. *)
From SV Require Import Model.Base Model.MetricLine Model.MetricLog Spec.C19Inv Spec.C19Search Spec.C19Crash
  Spec.C19CrashPoint Proofs.C18Proofs Proofs.C19Proofs Proofs.C19SearchProofs Proofs.C19GoodProofs
  Proofs.C19CrashProofs.
From Coq Require Import Lia ZifyBool ZifyN ZifyNat.
Open Scope N_scope.

(** * The crash emulation compares directories by their keys *)

Lemma insert_num_file : forall x l, insert_num x l = insert_file x l.
Proof.
  intros x l. induction l as [|y tl IH]; [reflexivity|]. cbn [insert_num insert_file].
  change (num_ltb y x) with (file_ltb y x). rewrite IH. reflexivity.
Qed.

Lemma sort_num_files : forall l, fold_right insert_num [] l = sorted_files l.
Proof.
  induction l as [|x l IH]; [reflexivity|]. unfold sorted_files in *. cbn [fold_right].
  rewrite IH, insert_num_file. reflexivity.
Qed.

Lemma combine_keys : forall a b, length a = length b ->
  forallb (fun p : mfile * mfile =>
             (f_day (fst p) =? f_day (snd p)) && (f_no (fst p) =? f_no (snd p)) &&
             (length (f_log (fst p)) <=? length (f_log (snd p)))%nat &&
             (length (f_idx (fst p)) <=? length (f_idx (snd p)))%nat) (combine a b) = true ->
  map fkey a = map fkey b.
Proof.
  induction a as [|x a IH]; intros [|y b] HL H; try discriminate; [reflexivity|].
  cbn [combine forallb fst snd] in H. apply andb_prop in H. destruct H as [H1 H2].
  cbn [map]. f_equal.
  - unfold fkey. f_equal; lia.
  - apply IH; [cbn [length] in HL; lia | exact H2].
Qed.

Lemma same_names_keys : forall a b, same_names a b = true ->
  map fkey (sorted_files a) = map fkey (sorted_files b).
Proof.
  intros a b H. unfold same_names in H. cbv zeta in H. rewrite !sort_num_files in H.
  apply andb_prop in H. destruct H as [H1 H2].
  apply combine_keys; [apply Nat.eqb_eq; exact H1 | exact H2].
Qed.

Lemma find_self : forall l a, ksorted (map fkey l) -> In a l ->
  find (fun b => same_file b (f_day a) (f_no a)) l = Some a.
Proof.
  induction l as [|y tl IH]; intros a Hs Hin; [contradiction|].
  cbn [map ksorted] in Hs. destruct Hs as [Hy Hs]. cbn [find].
  destruct Hin as [->|Hin].
  - unfold same_file. rewrite !N.eqb_refl. reflexivity.
  - assert (Hk : klt (fkey y) (fkey a)).
    { rewrite Forall_forall in Hy. apply Hy. apply in_map. exact Hin. }
    pose proof (klt_nokey y (f_day a) (f_no a) Hk) as Hn. unfold nokey in Hn. rewrite Hn.
    apply IH; assumption.
Qed.

Lemma crash_file_same : forall k a, crash_file k a a = a.
Proof. intros k a. unfold crash_file. cbv zeta. rewrite !N.eqb_refl. reflexivity. Qed.

(** a write that changes nothing has no crash point *)
Lemma crash_same : forall k l, ksorted (map fkey l) -> crash k l l = None.
Proof.
  intros k l Hs. unfold crash. cbv zeta.
  destruct (same_names l l && negb match l with [] => true | _ :: _ => false end)%bool; [|reflexivity].
  match goal with |- (if ?c then _ else _) = _ => assert (E : c = false) end.
  { apply not_true_is_false. intros HE. apply existsb_exists in HE. destruct HE as (a & Hin & Ha).
    rewrite (find_self l a Hs Hin), !Nat.eqb_refl in Ha. discriminate Ha. }
  rewrite E. reflexivity.
Qed.

(** only the last file was touched: the crash point cuts that file *)
Lemma crash_last : forall k pre x x' d, ksorted (map fkey (pre ++ [x])) -> fkey x' = fkey x ->
  crash k (pre ++ [x]) (pre ++ [x']) = Some d -> d = pre ++ [crash_file k x x'].
Proof.
  intros k pre x x' d Hs Hk H. unfold crash in H. cbv zeta in H.
  destruct (same_names _ _ && _)%bool; [|discriminate H].
  destruct (existsb _ _); [|discriminate H]. injection H as <-.
  rewrite map_app. cbn [map]. f_equal.
  - rewrite <- (map_id pre) at 2. apply map_ext_in. intros a Hin.
    rewrite (find_self _ a Hs) by (apply in_or_app; left; exact Hin). apply crash_file_same.
  - f_equal. unfold fkey in Hk. injection Hk as -> ->.
    rewrite (find_self _ x Hs) by (apply in_or_app; right; left; reflexivity). reflexivity.
Qed.

(** * Which file is current *)

Lemma upd_cur_cur : forall w f, w_cur (upd_cur w f) = w_cur w.
Proof.
  intros w f. unfold upd_cur. destruct (w_cur w) as [[d n]|] eqn:E; [reflexivity | exact E].
Qed.

Lemma klt_trans : forall a b c, klt a b -> klt b c -> klt a c.
Proof. unfold klt. intros a b c H1 H2. lia. Qed.

Lemma klt_irrefl : forall a, ~ klt a a.
Proof. unfold klt. intros a H. lia. Qed.

(** a roll makes a file above all others current *)
Lemma roll_cur_gt : forall w t fs L,
  w_dir w = map conc fs -> FI L fs -> L / 86400 <= day_of_ms t ->
  exists K, w_cur (roll w t) = Some K /\ Forall (fun f => klt (akey f) K) fs.
Proof.
  intros w t fs L Hd HF HL.
  assert (Hs : ksorted (map fkey (w_dir w))).
  { rewrite Hd, fkey_conc. exact (proj1 HF). }
  destruct (next_name_above (w_dir w) t Hs) as (n & Hn & Hlt).
  { rewrite Hd, Forall_map. destruct HF as (_ & HG & _).
    eapply Forall_impl; [|exact HG]. intros f (_ & _ & _ & _ & H).
    change (f_day (conc f)) with (a_day f). lia. }
  exists (day_of_ms t, n). split.
  - unfold roll. rewrite Hn. reflexivity.
  - rewrite Hd, Forall_map in Hlt. exact Hlt.
Qed.

Definition wrote (w : mlw) (ts : N) (items : list mitem) (x : mfile) : mfile :=
  f_log_add (lines_of ts items) (if w_latest w <? ts / 1000 then f_idx_add (ts / 1000) x else x).

Lemma last_in : forall {A} (l : list A) x, In x (l ++ [x]).
Proof. intros A l x. apply in_or_app. right. left. reflexivity. Qed.

(** one write either appends to the current file and keeps it current, or ends with a file above
    the previous current file being current *)
Lemma mw3_paths : forall w ts items fs0 cf,
  GI (w_latest w) (w_dir w) (w_cur w) fs0 cf -> items <> [] -> (ts / 1000 <? w_latest w) = false ->
  Forall (fun i => item_wf (with_ts ts i) /\ name_ok i) items ->
  w_dir (mw3 w ts items) = map conc fs0 ++ [wrote w ts items (conc cf)] \/
  exists K, w_cur (mw3 w ts items) = Some K /\ klt (akey cf) K.
Proof.
  intros w ts items fs0 cf HG Hne Hlt Hit.
  destruct (mw2_GI w ts items (ex_intro _ fs0 (ex_intro _ cf HG)) Hne Hlt Hit)
    as (fsx & cfx & Hdx & Hcx & HFx).
  pose proof HG as (Hd & Hc & HF).
  assert (H2 : (w_cur (mw2 w ts items) = Some (akey cf) /\
                w_dir (mw2 w ts items) = map conc fs0 ++ [wrote w ts items (conc cf)]) \/
               exists K, w_cur (mw2 w ts items) = Some K /\ klt (akey cf) K).
  { unfold mw2, mw1, wrote. destruct (w_latest w <? ts / 1000) eqn:E1.
    - destruct (w_latest w / 86400 <? ts / 1000 / 86400) eqn:E2.
      + right. destruct (roll_cur_gt w ts (fs0 ++ [cf]) (w_latest w) Hd HF) as (K & HK & HKl).
        { rewrite day_of_ms_sec. lia. }
        exists K. rewrite !upd_cur_cur. split; [exact HK|].
        rewrite Forall_forall in HKl. apply HKl. apply last_in.
      + left. rewrite upd_cur_twice by (intros x; split; reflexivity).
        destruct (upd_cur_last w (fun x => f_log_add (lines_of ts items) (f_idx_add (ts / 1000) x))
                               fs0 cf Hd Hc (proj1 HF)) as [Ed Ec].
        split; [exact Ec | exact Ed].
    - left. destruct (upd_cur_last w (f_log_add (lines_of ts items)) fs0 cf Hd Hc (proj1 HF)) as [Ed Ec].
      split; [exact Ec | exact Ed]. }
  unfold mw3. destruct (cur_file (mw2 w ts items)) as [f|].
  - destruct (w_max_size (mw2 w ts items) <=? N.of_nat (length (f_log f))).
    + right. destruct (roll_cur_gt (mw2 w ts items) ts (fsx ++ [cfx]) (ts / 1000) Hdx HFx) as (K & HK & HKl).
      { rewrite day_of_ms_sec. lia. }
      exists K. split; [exact HK|].
      rewrite Forall_forall in HKl. specialize (HKl cfx (last_in _ _)).
      destruct H2 as [[H2 _]|(K1 & H2 & H3)]; rewrite Hcx in H2.
      * assert (E : akey cfx = akey cf) by congruence. rewrite <- E. exact HKl.
      * assert (E : akey cfx = K1) by congruence. rewrite E in HKl. eapply klt_trans; eassumption.
    + destruct H2 as [[_ H2]|H2]; [left; exact H2 | right; exact H2].
  - destruct H2 as [[_ H2]|H2]; [left; exact H2 | right; exact H2].
Qed.

(** * Complete lines within the first bytes *)

Lemma fit_le : forall items b, (complete_lines items b <= length items)%nat.
Proof.
  induction items as [|i tl IH]; intros b; cbn [complete_lines length]; [lia|].
  destruct (S (length (to_line i)) <=? b)%nat; [|lia]. specialize (IH (b - S (length (to_line i)))%nat). lia.
Qed.

Lemma fit_log_le : forall items b, (length (log_of (firstn (complete_lines items b) items)) <= b)%nat.
Proof.
  induction items as [|i tl IH]; intros b; cbn [complete_lines].
  - cbn [firstn]. change (log_of []) with (@nil N). cbn [length]. lia.
  - destruct (S (length (to_line i)) <=? b)%nat eqn:E.
    + cbn [firstn]. rewrite log_of_cons_length. specialize (IH (b - S (length (to_line i)))%nat). lia.
    + cbn [firstn]. change (log_of []) with (@nil N). cbn [length]. lia.
Qed.

Lemma fit_next : forall items b, (complete_lines items b < length items)%nat ->
  (b < length (log_of (firstn (S (complete_lines items b)) items)))%nat.
Proof.
  induction items as [|i tl IH]; intros b H; cbn [complete_lines length] in *; [lia|].
  destruct (S (length (to_line i)) <=? b)%nat eqn:E.
  - change (firstn (S (S (complete_lines tl (b - S (length (to_line i)))))) (i :: tl))
      with (i :: firstn (S (complete_lines tl (b - S (length (to_line i))))) tl).
    rewrite log_of_cons_length.
    specialize (IH (b - S (length (to_line i)))%nat). lia.
  - change (firstn 1 (i :: tl)) with (i :: firstn 0 tl). rewrite log_of_cons_length. lia.
Qed.

Lemma log_firstn_le : forall n (l : list mitem), (length (log_of (firstn n l)) <= length (log_of l))%nat.
Proof.
  intros n l. rewrite <- (firstn_skipn n l) at 2. rewrite log_of_app, app_length. lia.
Qed.

Lemma log_of_pos : forall l : list mitem, l <> [] -> (1 <= length (log_of l))%nat.
Proof. intros [|i l] H; [contradiction|]. rewrite log_of_cons_length. lia. Qed.

(** * The completely written part is a well-formed directory *)

Lemma cut_FI : forall L L' fs0 cf newp ents',
  FI L (fs0 ++ [cf]) -> L <= L' ->
  Forall (fun i => item_wf i /\ name_ok i) newp -> Forall (fun i => sec_of i = L') newp ->
  (ents' = a_ents cf \/
   (ents' = a_ents cf ++ [(L', N.of_nat (length (log_of (a_items cf))))] /\ L < L' /\ newp <> [])) ->
  FI L' (fs0 ++ [mkAF (a_day cf) (a_no cf) (a_items cf ++ newp) ents']).
Proof.
  intros L L' fs0 cf newp ents' HF HL Hwf Hsec Hor.
  pose proof (FI_last_good _ _ _ HF) as (G1 & G2 & G3 & G4 & G5).
  pose proof (FI_last_items _ _ _ HF) as G6.
  apply FI_replace_last with (L := L) (cf := cf) (new := newp); try assumption; try reflexivity.
  unfold file_good. cbn [a_day a_items a_ents].
  assert (G5' : a_day cf <= L' / 86400) by (pose proof (N.div_le_mono L L' 86400); lia).
  assert (G4' : Forall (fun i => item_wf i /\ name_ok i) (a_items cf ++ newp))
    by (apply Forall_app; split; assumption).
  destruct Hor as [->|(-> & Hlt & Hne)].
  - split; [|split; [|split; [|split]]]; try assumption.
    + eapply Forall_impl; [|exact G1]. intros e. apply entry_ok_app.
    + eapply Forall_impl; [|exact G3]. cbv beta. intros; lia.
  - split; [|split; [|split; [|split]]]; try assumption.
    + apply Forall_app. split.
      * eapply Forall_impl; [|exact G1]. intros e. apply entry_ok_app.
      * constructor; [|constructor].
        exists (a_items cf), newp. cbn [fst snd].
        split; [reflexivity|]. split; [reflexivity|]. split.
        -- eapply Forall_impl; [|exact G6]. cbv beta. intros; lia.
        -- destruct newp as [|i newp]; [contradiction|]. inversion Hsec; assumption.
    + rewrite map_app. cbn [map fst]. apply increasing_snoc; [exact G2|].
      rewrite Forall_map. eapply Forall_impl; [|exact G3]. cbv beta. intros; lia.
    + apply Forall_app. split.
      * eapply Forall_impl; [|exact G3]. cbv beta. intros; lia.
      * constructor; [cbn [fst]; lia | constructor].
Qed.

(** * The crash point of the last file *)

Lemma crash_file_eq : forall k day no LOGb IDXb LOG IDX, (length LOGb < length LOG)%nat ->
  crash_file k (mkMF day no LOGb IDXb) (mkMF day no LOG IDX) =
  if k <? N.of_nat (length IDX) - N.of_nat (length IDXb)
  then mkMF day no (firstn (length LOGb) LOG) (firstn (length IDXb + N.to_nat k) IDX)
  else mkMF day no
         (firstn (Nat.min (length LOG)
                    (length LOGb + N.to_nat (k - (N.of_nat (length IDX) - N.of_nat (length IDXb))))) LOG)
         IDX.
Proof.
  intros k day no LOGb IDXb LOG IDX H. unfold crash_file. cbn [f_log f_idx f_day f_no]. cbv zeta.
  replace (N.of_nat (length LOGb) =? N.of_nat (length LOG)) with false by lia. cbn [andb].
  destruct (k <? N.of_nat (length IDX) - N.of_nat (length IDXb)); f_equal; f_equal; lia.
Qed.

Lemma complete_lines_zero : forall items, complete_lines items 0 = 0%nat.
Proof. intros [|i tl]; reflexivity. Qed.

(** the log clauses of [torn_ok2] *)
Lemma torn_log_ok : forall (C new : list mitem) b,
  let n' := complete_lines new b in
  let tk := Nat.min (length (log_of (C ++ new))) (length (log_of C) + b) in
  (length C + n' <= length (C ++ new))%nat /\
  (length (log_of (firstn (length C + n') (C ++ new))) <= tk)%nat /\
  (length C + n' < length (C ++ new) ->
   tk < length (log_of (firstn (S (length C + n')) (C ++ new))))%nat /\
  (length C + n' = length (C ++ new) -> tk = length (log_of (C ++ new)))%nat.
Proof.
  intros C new b n' tk. subst n' tk.
  pose proof (fit_le new b) as F3. pose proof (fit_log_le new b) as F1.
  pose proof (fit_next new b) as F2. pose proof (log_firstn_le (complete_lines new b) new) as F4.
  rewrite firstn_app_2.
  replace (S (length C + complete_lines new b)) with (length C + S (complete_lines new b))%nat by lia.
  rewrite firstn_app_2, !log_of_app, !app_length.
  split; [lia|]. split; [lia|]. split; [intros H; specialize (F2 ltac:(lia)); lia|].
  intros H. assert (E : complete_lines new b = length new) by lia.
  rewrite E, firstn_all in F1. lia.
Qed.

Lemma sec_lt_U64 : forall ts, ts <= U64_MAX -> ts / 1000 < U64.
Proof.
  intros ts H. pose proof (N.mul_div_le ts 1000). unfold U64_MAX in H. unfold U64. lia.
Qed.

(** from a description of the torn last file to the conclusions *)
Lemma finish : forall L sec fs0 cf new t n' d IDX,
  FI L (fs0 ++ [cf]) -> L <= sec ->
  Forall (fun i => item_wf i /\ name_ok i) new -> Forall (fun i => sec_of i = sec) new ->
  Forall (fun f => N.of_nat (length (f_log f)) < U64)
         (map conc fs0 ++ [mkMF (a_day cf) (a_no cf) (log_of (a_items cf ++ new)) IDX]) ->
  t_items t = a_items cf ++ new -> t_n t = (length (a_items cf) + n')%nat -> (n' <= length new)%nat ->
  (firstn (t_m t) (t_ents t) = a_ents cf \/
   (firstn (t_m t) (t_ents t) = a_ents cf ++ [(sec, N.of_nat (length (log_of (a_items cf))))] /\
    L < sec /\ (1 <= n')%nat)) ->
  torn_ok2 t ->
  d = map conc fs0 ++ [torn_file (a_day cf) (a_no cf) t] ->
  good_dir (fs0 ++ [cf]) /\
  sorted_files (map conc (fs0 ++ [cf])) = map conc (fs0 ++ [cf]) /\
  sorted_files d = map conc fs0 ++ [torn_file (a_day cf) (a_no cf) t] /\
  torn_ok2 t /\ Forall name_ok (t_items t) /\
  good_dir (fs0 ++ [cut_file (a_day cf) (a_no cf) t]) /\
  flat_map a_items (fs0 ++ [cut_file (a_day cf) (a_no cf) t]) =
    flat_map a_items (fs0 ++ [cf]) ++ firstn n' new.
Proof.
  intros L sec fs0 cf new t n' d IDX HF HL Hwf Hsec HU Hit Hn Hn' Hents Hok Hd.
  apply Forall_app in HU. destruct HU as [HU1 HU2]. inversion HU2 as [|? ? HU3 _]; subst.
  cbn [f_log] in HU3. rewrite log_of_app, app_length in HU3.
  pose proof (FI_last_good _ _ _ HF) as (_ & _ & _ & G4 & _).
  assert (Gb : good_dir (fs0 ++ [cf])).
  { apply FI_good_dir with (L := L); [exact HF|]. rewrite map_app. apply Forall_app. split; [exact HU1|].
    constructor; [|constructor]. cbn [conc f_log]. lia. }
  assert (Ecut : cut_file (a_day cf) (a_no cf) t =
                 mkAF (a_day cf) (a_no cf) (a_items cf ++ firstn n' new) (firstn (t_m t) (t_ents t))).
  { unfold cut_file. rewrite Hit, Hn, firstn_app_2. reflexivity. }
  split; [exact Gb|]. split; [exact (proj1 Gb)|]. split.
  { apply (sorted_files_keys (map conc (fs0 ++ [cf]))); [|exact (proj1 Gb)].
    rewrite !map_app. reflexivity. }
  split; [exact Hok|]. split.
  { rewrite Hit. apply Forall_app. split.
    - eapply Forall_impl; [|exact G4]. intros i [_ H]. exact H.
    - eapply Forall_impl; [|exact Hwf]. intros i [_ H]. exact H. }
  split.
  { rewrite Ecut. apply FI_good_dir with (L := sec).
    - apply cut_FI with (L := L); try assumption.
      + apply Forall_firstn_. exact Hwf.
      + apply Forall_firstn_. exact Hsec.
      + destruct Hents as [->|(-> & Hlt & H1)]; [left; reflexivity|]. right.
        split; [reflexivity|]. split; [exact Hlt|].
        destruct new as [|i new]; [cbn [length] in Hn'; lia|].
        destruct n' as [|n']; [lia|]. discriminate.
    - rewrite map_app. apply Forall_app. split; [exact HU1|].
      constructor; [|constructor]. cbn [conc f_log a_items].
      pose proof (log_firstn_le n' new). rewrite log_of_app, app_length. lia. }
  rewrite Ecut, !flat_map_app. cbn [flat_map a_items]. rewrite !app_nil_r, app_assoc. reflexivity.
Qed.

Lemma wrote_eq : forall w ts items cf,
  wrote w ts items (conc cf) =
  mkMF (a_day cf) (a_no cf) (log_of (a_items cf ++ map (with_ts ts) items))
       (idx_of (if w_latest w <? ts / 1000
                then a_ents cf ++ [(ts / 1000, N.of_nat (length (log_of (a_items cf))))]
                else a_ents cf)).
Proof.
  intros w ts items cf. unfold wrote, f_log_add, f_idx_add, conc.
  destruct (w_latest w <? ts / 1000); cbn [f_day f_no f_log f_idx];
    rewrite lines_of_log, log_of_app, ?idx_of_snoc; cbn [fst snd]; reflexivity.
Qed.

(** * One write, interrupted *)

Lemma crash_point_core : forall w ts items k d fs0 cf,
  GI (w_latest w) (w_dir w) (w_cur w) fs0 cf -> ts <= U64_MAX ->
  Forall (fun i => item_wf (with_ts ts i) /\ name_ok i) items ->
  Forall (fun f => N.of_nat (length (f_log f)) < U64) (w_dir (fst (mwrite w ts items))) ->
  crash k (w_dir w) (w_dir (fst (mwrite w ts items))) = Some d ->
  exists t n',
    n' = complete_lines (map (with_ts ts) items)
           (N.to_nat (k - (if w_latest w <? ts / 1000 then 16 else 0))) /\
    good_dir (fs0 ++ [cf]) /\
    sorted_files (map conc (fs0 ++ [cf])) = map conc (fs0 ++ [cf]) /\
    sorted_files d = map conc fs0 ++ [torn_file (a_day cf) (a_no cf) t] /\
    torn_ok2 t /\ Forall name_ok (t_items t) /\
    good_dir (fs0 ++ [cut_file (a_day cf) (a_no cf) t]) /\
    flat_map a_items (fs0 ++ [cut_file (a_day cf) (a_no cf) t]) =
      flat_map a_items (fs0 ++ [cf]) ++ firstn n' (map (with_ts ts) items).
Proof.
  intros w ts items k d fs0 cf HG Hts Hit HU H. pose proof HG as (Hd & Hc & HF).
  assert (Hs : ksorted (map fkey (w_dir w))) by (rewrite Hd, fkey_conc; exact (proj1 HF)).
  assert (Hcases : fst (mwrite w ts items) = w \/
                   (items <> [] /\ (ts / 1000 <? w_latest w) = false /\
                    fst (mwrite w ts items) = mw_end w ts items)).
  { rewrite mwrite_eq. destruct items as [|i0 itl]; [left; reflexivity|].
    destruct (ts =? 0); [left; reflexivity|]. destruct (cur_file w); [|left; reflexivity].
    destruct (ts / 1000 <? w_latest w) eqn:E; [left; reflexivity|].
    right. split; [discriminate|]. split; reflexivity. }
  destruct Hcases as [E|(Hne & Hlt & E)]; rewrite E in *.
  { rewrite crash_same in H by exact Hs. discriminate H. }
  change (w_dir (mw_end w ts items)) with (w_dir (mw3 w ts items)) in *.
  destruct (mw3_paths w ts items fs0 cf HG Hne Hlt Hit) as [Ed|(K & HK & HKl)].
  2:{ exfalso.
      assert (SN : same_names (w_dir w) (w_dir (mw3 w ts items)) = true).
      { unfold crash in H. destruct (same_names _ _); [reflexivity|]. cbn [andb] in H. discriminate H. }
      apply same_names_keys in SN. rewrite (sorted_files_sorted _ Hs) in SN.
      destruct (mw3_GI w ts items (mw2_GI w ts items (ex_intro _ fs0 (ex_intro _ cf HG)) Hne Hlt Hit))
        as (fsy & cfy & Hdy & Hcy & HFy).
      rewrite Hdy in SN. rewrite sorted_files_sorted in SN by (rewrite fkey_conc; exact (proj1 HFy)).
      rewrite Hd, !fkey_conc, !map_app in SN. cbn [map] in SN.
      apply app_inj_tail in SN. destruct SN as [_ SN].
      rewrite Hcy in HK. assert (EK : akey cfy = K) by congruence.
      apply (klt_irrefl K). rewrite <- EK at 1. rewrite <- SN. exact HKl. }
  rewrite Ed in H, HU. rewrite Hd, map_app in H, Hs. cbn [map] in H, Hs.
  apply crash_last in H; [|exact Hs | rewrite wrote_eq; reflexivity].
  rewrite wrote_eq in H, HU.
  assert (Hwf := items_with_ts_ok ts items Hit).
  assert (Hsecn := sec_of_with_ts ts items).
  assert (Hnew : map (with_ts ts) items <> []) by (destruct items; [contradiction | discriminate]).
  assert (HL : w_latest w <= ts / 1000) by lia.
  remember (map (with_ts ts) items) as new eqn:Enew.
  remember (a_items cf) as C eqn:EC. remember (a_ents cf) as E' eqn:EE.
  change (conc cf) with (mkMF (a_day cf) (a_no cf) (log_of (a_items cf)) (idx_of (a_ents cf))) in H.
  rewrite <- EC, <- EE in H.
  pose proof (log_of_pos new Hnew) as Hpos.
  assert (LA : length (log_of (C ++ new)) = (length (log_of C) + length (log_of new))%nat)
    by (rewrite log_of_app, app_length; reflexivity).
  rewrite crash_file_eq in H by lia.
  assert (HUl : N.of_nat (length (log_of C)) < U64).
  { apply Forall_app in HU. destruct HU as [_ HU]. inversion HU as [|? ? HU3 _]; subst.
    cbn [f_log] in HU3. lia. }
  destruct (w_latest w <? ts / 1000) eqn:E1.
  - (* a new second: 16 index bytes first *)
    rewrite !idx_of_len16, app_length in H. cbn [length] in H.
    replace (N.of_nat (16 * (length E' + 1)) - N.of_nat (16 * length E')) with 16 in H by lia.
    destruct (k <? 16) eqn:E2.
    + (* within the index entry *)
      pose proof (torn_log_ok C new 0) as T. cbv zeta in T. rewrite complete_lines_zero in T.
      replace (Nat.min (length (log_of (C ++ new))) (length (log_of C) + 0)) with (length (log_of C)) in T by lia.
      destruct T as (T1 & T2 & T3 & T4).
      exists (mkTorn (C ++ new) (E' ++ [(ts / 1000, N.of_nat (length (log_of C)))])
                     (length C + 0) (length E') (length (log_of C)) (16 * length E' + N.to_nat k)), 0%nat.
      split. { replace (k - 16) with 0 by lia. rewrite complete_lines_zero. reflexivity. }
      rewrite EC, EE in *.
      eapply finish with (L := w_latest w) (sec := ts / 1000); try eassumption; try reflexivity; try lia.
      * left. cbn [t_m t_ents]. rewrite firstn_app, firstn_all, Nat.sub_diag. cbn [firstn]. apply app_nil_r.
      * unfold torn_ok2. cbn [t_items t_ents t_n t_m t_k t_j].
        split; [exact T1|]. split; [rewrite app_length; lia|]. split; [exact T2|]. split; [exact T3|].
        split; [exact T4|]. left. split; [lia|]. rewrite app_length. cbn [length]. lia.
    + (* the index entry complete, within the lines *)
      remember (N.to_nat (k - 16)) as b eqn:Eb.
      pose proof (torn_log_ok C new b) as T. cbv zeta in T. destruct T as (T1 & T2 & T3 & T4).
      pose proof (fit_le new b) as F3.
      destruct (complete_lines new b) as [|m'] eqn:En'.
      * (* no line complete: the entry dangles *)
        exists (mkTorn (C ++ new) (E' ++ [(ts / 1000, N.of_nat (length (log_of C)))])
                       (length C + 0) (length E')
                       (Nat.min (length (log_of (C ++ new))) (length (log_of C) + b))
                       (16 * (length E' + 1))), 0%nat.
        split; [reflexivity|].
        rewrite EC, EE in *.
        eapply finish with (L := w_latest w) (sec := ts / 1000); try eassumption; try reflexivity; try lia.
        -- left. cbn [t_m t_ents]. rewrite firstn_app, firstn_all, Nat.sub_diag. cbn [firstn]. apply app_nil_r.
        -- unfold torn_ok2. cbn [t_items t_ents t_n t_m t_k t_j].
           split; [exact T1|]. split; [rewrite app_length; lia|]. split; [exact T2|]. split; [exact T3|].
           split; [exact T4|]. right. rewrite app_length. cbn [length].
           rewrite app_nth2 by lia. rewrite Nat.sub_diag. cbn [nth fst snd].
           rewrite firstn_app_2. cbn [firstn]. rewrite app_nil_r.
           split; [lia|]. split; [lia|]. split; [lia|]. split; [reflexivity|].
           split; [apply sec_lt_U64; exact Hts | exact HUl].
        -- rewrite H. unfold torn_file. cbn [t_items t_ents t_k t_j]. f_equal. f_equal. f_equal.
           symmetry. apply firstn_all2. rewrite idx_of_len16, app_length. cbn [length]. lia.
      * exists (mkTorn (C ++ new) (E' ++ [(ts / 1000, N.of_nat (length (log_of C)))])
                       (length C + S m') (S (length E'))
                       (Nat.min (length (log_of (C ++ new))) (length (log_of C) + b))
                       (16 * (length E' + 1))), (S m').
        split; [reflexivity|].
        rewrite EC, EE in *.
        eapply finish with (L := w_latest w) (sec := ts / 1000); try eassumption; try reflexivity; try lia.
        -- right. cbn [t_m t_ents]. split; [|split; lia].
           apply firstn_all2. rewrite app_length. cbn [length]. lia.
        -- unfold torn_ok2. cbn [t_items t_ents t_n t_m t_k t_j].
           split; [exact T1|]. split; [rewrite app_length; cbn [length]; lia|]. split; [exact T2|].
           split; [exact T3|]. split; [exact T4|]. left. split; lia.
        -- rewrite H. unfold torn_file. cbn [t_items t_ents t_k t_j]. f_equal. f_equal. f_equal.
           symmetry. apply firstn_all2. rewrite idx_of_len16, app_length. cbn [length]. lia.
  - (* the same second as the previous write: lines only *)
    replace (N.of_nat (length (idx_of E')) - N.of_nat (length (idx_of E'))) with 0 in H by lia.
    replace (k <? 0) with false in H by lia.
    remember (N.to_nat (k - 0)) as b eqn:Eb.
    pose proof (torn_log_ok C new b) as T. cbv zeta in T. destruct T as (T1 & T2 & T3 & T4).
    pose proof (fit_le new b) as F3.
    exists (mkTorn (C ++ new) E' (length C + complete_lines new b) (length E')
                   (Nat.min (length (log_of (C ++ new))) (length (log_of C) + b))
                   (16 * length E')), (complete_lines new b).
    split; [reflexivity|].
    rewrite EC, EE in *.
    eapply finish with (L := w_latest w) (sec := ts / 1000); try eassumption; try reflexivity; try lia.
    + left. cbn [t_m t_ents]. apply firstn_all.
    + unfold torn_ok2. cbn [t_items t_ents t_n t_m t_k t_j].
      split; [exact T1|]. split; [lia|]. split; [exact T2|]. split; [exact T3|].
      split; [exact T4|]. left. split; lia.
    + rewrite H. unfold torn_file. cbn [t_items t_ents t_k t_j]. f_equal. f_equal. f_equal.
      symmetry. apply firstn_all2. rewrite idx_of_len16. lia.
Qed.

(** * Any history of writes, the last one interrupted *)

Lemma writer_new_GInv : forall now ms mf w0, writer_new now ms mf = Some w0 -> GInv w0.
Proof.
  intros now ms mf w0 H. apply writer_new_shape in H. destruct H as [_ ->].
  unfold GInv. cbn [w_dir w_cur w_latest].
  destruct (roll_GI 0 (now / 1000) (mkMLW [] None 0 ms mf) now []) as (fs0 & n & HG).
  - reflexivity.
  - repeat split; constructor.
  - lia.
  - apply day_of_ms_sec.
  - eexists; eexists; exact HG.
Qed.

(** a crash after the first [k] bytes the last write issued leaves a torn directory: the files
    before the last are intact, the last is torn in the sense of [torn_ok2], its completely written
    part makes a well-formed directory, nothing written earlier is lost, and of the new items
    exactly those whose lines were issued completely are there *)
Lemma c19_crash_point_is_torn : forall now max_size max_files w0 ws ts items k d,
  writer_new now max_size max_files = Some w0 -> ws_ok (ws ++ [(ts, items)]) ->
  Forall (fun f => N.of_nat (length (f_log f)) < U64) (w_dir (fst (mwrite (after_writes w0 ws) ts items))) ->
  crash k (w_dir (after_writes w0 ws)) (w_dir (fst (mwrite (after_writes w0 ws) ts items))) = Some d ->
  exists fs0 fs day no t n',
    good_dir fs0 /\ sorted_files (w_dir (after_writes w0 ws)) = map conc fs0 /\
    sorted_files d = map conc fs ++ [torn_file day no t] /\
    torn_ok2 t /\ Forall name_ok (t_items t) /\ good_dir (fs ++ [cut_file day no t]) /\
    flat_map a_items (fs ++ [cut_file day no t]) =
      flat_map a_items fs0 ++ firstn n' (map (with_ts ts) items) /\
    n' = complete_lines (map (with_ts ts) items)
           (N.to_nat (k - (if w_latest (after_writes w0 ws) <? ts / 1000 then 16 else 0))).
Proof.
  intros now ms mf w0 ws ts items k d Hw Hws HU H.
  unfold ws_ok in Hws. apply Forall_app in Hws. destruct Hws as [Hws Hlast].
  inversion Hlast as [|? ? [Hts Hit] _]; subst. cbn [fst snd] in Hts, Hit.
  destruct (after_writes_GInv ws w0 (writer_new_GInv _ _ _ _ Hw) Hws) as (fs0 & cf & HG).
  destruct (crash_point_core _ ts items k d fs0 cf HG Hts Hit HU H)
    as (t & n' & Hn' & C1 & C2 & C3 & C4 & C5 & C6 & C7).
  exists (fs0 ++ [cf]), fs0, (a_day cf), (a_no cf), t, n'.
  rewrite (proj1 HG). repeat (split; [assumption|]). exact Hn'.
Qed.

Lemma find_by_time_sorted : forall d X b e res, sorted_files d = X -> sorted_files X = X ->
  find_by_time d b e res = find_by_time X b e res.
Proof. intros d X b e res H1 H2. unfold find_by_time. rewrite H1, H2. reflexivity. Qed.

Lemma find_max_lines_sorted : forall d X b max, sorted_files d = X -> sorted_files X = X ->
  find_max_lines d b max = find_max_lines X b max.
Proof. intros d X b max H1 H2. unfold find_max_lines. rewrite H1, H2. reflexivity. Qed.

(** so a search by time after such a crash returns what it prescribes on the completely written
    part, and at most one more item *)
Lemma c19_search_by_time_after_crash_point : forall now max_size max_files w0 ws ts items k d,
  writer_new now max_size max_files = Some w0 -> ws_ok (ws ++ [(ts, items)]) ->
  Forall (fun f => N.of_nat (length (f_log f)) < U64) (w_dir (fst (mwrite (after_writes w0 ws) ts items))) ->
  crash k (w_dir (after_writes w0 ws)) (w_dir (fst (mwrite (after_writes w0 ws) ts items))) = Some d ->
  exists fs0 fs day no t n',
    good_dir fs0 /\ sorted_files (w_dir (after_writes w0 ws)) = map conc fs0 /\
    good_dir (fs ++ [cut_file day no t]) /\
    flat_map a_items (fs ++ [cut_file day no t]) =
      flat_map a_items fs0 ++ firstn n' (map (with_ts ts) items) /\
    n' = complete_lines (map (with_ts ts) items)
           (N.to_nat (k - (if w_latest (after_writes w0 ws) <? ts / 1000 then 16 else 0))) /\
    forall begin_ms end_ms res, exists extra, (length extra <= 1)%nat /\
      find_by_time d begin_ms end_ms res =
      expected_by_time (fs ++ [cut_file day no t]) (begin_ms / 1000) (end_ms / 1000) res ++ extra.
Proof.
  intros now ms mf w0 ws ts items k d Hw Hws HU H.
  destruct (c19_crash_point_is_torn now ms mf w0 ws ts items k d Hw Hws HU H)
    as (fs0 & fs & day & no & t & n' & C1 & C2 & C3 & C4 & C5 & C6 & C7 & C8).
  exists fs0, fs, day, no, t, n'. repeat (split; [assumption|]).
  intros b e res.
  rewrite (find_by_time_sorted d _ b e res C3 (proj1 (torn_dir2 fs day no t C4 C5 C6))).
  apply c19_search_by_time_after_crash2; assumption.
Qed.

(** ... and so does the line-limited search *)
Lemma c19_search_max_lines_after_crash_point : forall now max_size max_files w0 ws ts items k d,
  writer_new now max_size max_files = Some w0 -> ws_ok (ws ++ [(ts, items)]) ->
  Forall (fun f => N.of_nat (length (f_log f)) < U64) (w_dir (fst (mwrite (after_writes w0 ws) ts items))) ->
  crash k (w_dir (after_writes w0 ws)) (w_dir (fst (mwrite (after_writes w0 ws) ts items))) = Some d ->
  exists fs0 fs day no t n',
    good_dir fs0 /\ sorted_files (w_dir (after_writes w0 ws)) = map conc fs0 /\
    good_dir (fs ++ [cut_file day no t]) /\
    flat_map a_items (fs ++ [cut_file day no t]) =
      flat_map a_items fs0 ++ firstn n' (map (with_ts ts) items) /\
    n' = complete_lines (map (with_ts ts) items)
           (N.to_nat (k - (if w_latest (after_writes w0 ws) <? ts / 1000 then 16 else 0))) /\
    forall begin_ms max, exists extra, (length extra <= 1)%nat /\
      match from_first_entry (fs ++ [cut_file day no t]) (begin_ms / 1000) with
      | None => find_max_lines d begin_ms max = extra
      | Some items' => exists out, max_ok items' max out /\ find_max_lines d begin_ms max = out ++ extra
      end.
Proof.
  intros now ms mf w0 ws ts items k d Hw Hws HU H.
  destruct (c19_crash_point_is_torn now ms mf w0 ws ts items k d Hw Hws HU H)
    as (fs0 & fs & day & no & t & n' & C1 & C2 & C3 & C4 & C5 & C6 & C7 & C8).
  exists fs0, fs, day, no, t, n'. repeat (split; [assumption|]).
  intros b max.
  rewrite (find_max_lines_sorted d _ b max C3 (proj1 (torn_dir2 fs day no t C4 C5 C6))).
  apply c19_search_max_lines_after_crash2; assumption.
Qed.

(** * A concrete history *)

Definition xp_mk (r : bytes) (p : N) : mitem := mkMI r 0 0 p 0 0 0 0 0 0.
Definition xp_ra : bytes := [97].
Definition xp_rb : bytes := [98; 124; 99].
(** second 1001 (two items), the same second again (one item), then second 1003 (two items) *)
Definition xp_W1 := (1001000, [xp_mk xp_ra 1; xp_mk xp_rb 2]).
Definition xp_W2 := (1001500, [xp_mk xp_ra 3]).
Definition xp_W3 := (1003000, [xp_mk xp_rb 4; xp_mk xp_ra 5]).
Definition xp_w0 : mlw :=
  match writer_new 1000000 100000 3 with Some w => w | None => mkMLW [] None 0 0 0 end.
Definition xp_crash (ws : list (N * list mitem)) (last : N * list mitem) (k : N) : list mfile :=
  match crash k (w_dir (after_writes xp_w0 ws))
              (w_dir (fst (mwrite (after_writes xp_w0 ws) (fst last) (snd last)))) with
  | Some d => d | None => [] end.

Example xp_new : writer_new 1000000 100000 3 = Some xp_w0.
Proof. vm_compute. reflexivity. Qed.

Ltac xp_item :=
  split; [unfold item_wf, U64_MAX, U32_MAX; cbn; repeat split; try lia;
          unfold xp_ra, xp_rb; repeat constructor; lia
         | unfold name_ok; cbn; lia].

Example xp_ws_ok : ws_ok ([xp_W1; xp_W2] ++ [xp_W3]).
Proof.
  unfold ws_ok. repeat (constructor; [split; [unfold U64_MAX; cbn; lia|];
                                      repeat (constructor; [xp_item|]); constructor|]).
  constructor.
Qed.

Example xp_small : forall ts items,
  (ts, items) = xp_W3 ->
  Forall (fun f => N.of_nat (length (f_log f)) < U64)
         (w_dir (fst (mwrite (after_writes xp_w0 [xp_W1; xp_W2]) ts items))).
Proof.
  intros ts items E. injection E as -> ->.
  apply Forall_forall. intros f Hf. apply N.ltb_lt. revert f Hf. apply forallb_forall.
  vm_compute. reflexivity.
Qed.

(** the write of second 1003 issues 16 index bytes, a line of 36 bytes and its line feed, a line of
    34 bytes and its line feed; crash points: within the index entry, right after it, after the
    first line but for its line feed, after the first line, after everything *)
Definition xp_l1 : N := N.of_nat (length (to_line (with_ts 1003000 (xp_mk xp_rb 4)))).
Definition xp_ks : list N := [5; 16; 16 + xp_l1; 16 + xp_l1 + 1; 16 + xp_l1 + 1 + 35].

Example xp_is_crash : forall k, In k xp_ks ->
  crash k (w_dir (after_writes xp_w0 [xp_W1; xp_W2]))
          (w_dir (fst (mwrite (after_writes xp_w0 [xp_W1; xp_W2]) (fst xp_W3) (snd xp_W3))))
  = Some (xp_crash [xp_W1; xp_W2] xp_W3 k).
Proof.
  intros k Hk. cbn [xp_ks In] in Hk.
  repeat (destruct Hk as [<-|Hk]; [vm_compute; reflexivity|]). contradiction.
Qed.

(** the theorems apply to each of these crash points *)
Example xp_thm := fun k (Hk : In k xp_ks) =>
  c19_crash_point_is_torn 1000000 100000 3 xp_w0 [xp_W1; xp_W2] (fst xp_W3) (snd xp_W3) k _
    xp_new xp_ws_ok (xp_small _ _ eq_refl) (xp_is_crash k Hk).
Example xp_thm_time := fun k (Hk : In k xp_ks) =>
  c19_search_by_time_after_crash_point 1000000 100000 3 xp_w0 [xp_W1; xp_W2] (fst xp_W3) (snd xp_W3) k _
    xp_new xp_ws_ok (xp_small _ _ eq_refl) (xp_is_crash k Hk).
Example xp_thm_max := fun k (Hk : In k xp_ks) =>
  c19_search_max_lines_after_crash_point 1000000 100000 3 xp_w0 [xp_W1; xp_W2] (fst xp_W3) (snd xp_W3) k _
    xp_new xp_ws_ok (xp_small _ _ eq_refl) (xp_is_crash k Hk).

(** writes that change nothing, and writes that roll, have no crash point *)
Example xp_no_crash :
  crash 3 (w_dir (after_writes xp_w0 [xp_W1; xp_W2]))
          (w_dir (fst (mwrite (after_writes xp_w0 [xp_W1; xp_W2]) 1000500 (snd xp_W1)))) = None /\
  crash 3 (w_dir (after_writes xp_w0 [xp_W1; xp_W2]))
          (w_dir (fst (mwrite (after_writes xp_w0 [xp_W1; xp_W2]) 1003000 []))) = None /\
  crash 3 (w_dir (after_writes xp_w0 [xp_W1; xp_W2]))
          (w_dir (fst (mwrite (after_writes xp_w0 [xp_W1; xp_W2]) 90000000000 (snd xp_W1)))) = None.
Proof. vm_compute. repeat split; reflexivity. Qed.

(** both sides agree.  The completely written part after a crash at [k]: *)
Definition xp_C : list mitem :=
  map (with_ts 1001000) (snd xp_W1) ++ map (with_ts 1001500) (snd xp_W2).
Definition xp_new3 : list mitem := map (with_ts 1003000) (snd xp_W3).
Definition xp_cut (k : N) : list afile :=
  let n' := complete_lines xp_new3 (N.to_nat (k - 16)) in
  [mkAF 0 0 (xp_C ++ firstn n' xp_new3)
        ([(1001, 0)] ++ match n' with O => [] | _ => [(1003, N.of_nat (length (log_of xp_C)))] end)].
Definition xp_line1 : mitem := norm (with_ts 1003000 (xp_mk xp_rb 4)).

Example xp_lines_complete : map (fun k => complete_lines xp_new3 (N.to_nat (k - 16))) xp_ks = [0; 0; 0; 1; 2]%nat.
Proof. vm_compute. reflexivity. Qed.

(** search from second 1003: nothing when the index entry is torn or dangling and the line does not
    parse, the torn line alone when it lacks only its line feed, the complete lines afterwards *)
Example xp_by_time :
  let D := xp_crash [xp_W1; xp_W2] xp_W3 in
  find_by_time (D 5) 1003000 1009000 [] = expected_by_time (xp_cut 5) 1003 1009 [] ++ [] /\
  find_by_time (D 16) 1003000 1009000 [] = expected_by_time (xp_cut 16) 1003 1009 [] ++ [] /\
  expected_by_time (xp_cut (16 + xp_l1)) 1003 1009 [] = [] /\
  find_by_time (D (16 + xp_l1)) 1003000 1009000 [] =
    expected_by_time (xp_cut (16 + xp_l1)) 1003 1009 [] ++ [xp_line1] /\
  expected_by_time (xp_cut (16 + xp_l1 + 1)) 1003 1009 [] = [xp_line1] /\
  find_by_time (D (16 + xp_l1 + 1)) 1003000 1009000 [] =
    expected_by_time (xp_cut (16 + xp_l1 + 1)) 1003 1009 [] ++ [] /\
  find_by_time (D (16 + xp_l1 + 1 + 35)) 1003000 1009000 [] =
    expected_by_time (xp_cut (16 + xp_l1 + 1 + 35)) 1003 1009 [] ++ [].
Proof. vm_compute. repeat split; reflexivity. Qed.

(** search from the beginning: everything written earlier is found at every crash point *)
Example xp_by_time_all :
  let D := xp_crash [xp_W1; xp_W2] xp_W3 in
  length (expected_by_time (xp_cut 5) 1001 1009 []) = 3%nat /\
  find_by_time (D 5) 1001000 1009000 [] = expected_by_time (xp_cut 5) 1001 1009 [] ++ [] /\
  find_by_time (D 16) 1001000 1009000 [] = expected_by_time (xp_cut 16) 1001 1009 [] ++ [] /\
  find_by_time (D (16 + xp_l1)) 1001000 1009000 [] =
    expected_by_time (xp_cut (16 + xp_l1)) 1001 1009 [] ++ [xp_line1] /\
  find_by_time (D (16 + xp_l1 + 1)) 1001000 1009000 [] =
    expected_by_time (xp_cut (16 + xp_l1 + 1)) 1001 1009 [] ++ [] /\
  length (expected_by_time (xp_cut (16 + xp_l1 + 1)) 1001 1009 []) = 4%nat.
Proof. vm_compute. repeat split; reflexivity. Qed.

(** the line-limited search, and a write into the same second (no index bytes) cut within its line *)
Example xp_max :
  let D := xp_crash [xp_W1; xp_W2] xp_W3 in
  from_first_entry (xp_cut 16) 1003 = None /\ find_max_lines (D 16) 1003000 3 = [] /\
  find_max_lines (D (16 + xp_l1)) 1003000 3 = [xp_line1] /\
  find_max_lines (D (16 + xp_l1 + 1)) 1001000 2 =
    map norm (firstn 3 (xp_C ++ firstn 1 xp_new3)) ++ [] /\
  find_max_lines (D (16 + xp_l1)) 1001000 9 = map norm xp_C ++ [xp_line1].
Proof. vm_compute. repeat split; reflexivity. Qed.

Example xp_same_second :
  let d := xp_crash [xp_W1] xp_W2 7 in
  let cut := [mkAF 0 0 (map (with_ts 1001000) (snd xp_W1)) [(1001, 0)]] in
  crash 7 (w_dir (after_writes xp_w0 [xp_W1]))
          (w_dir (fst (mwrite (after_writes xp_w0 [xp_W1]) (fst xp_W2) (snd xp_W2)))) = Some d /\
  complete_lines (map (with_ts 1001500) (snd xp_W2)) (N.to_nat (7 - 0)) = 0%nat /\
  find_by_time d 1001000 1009000 [] = expected_by_time cut 1001 1009 [] ++ [] /\
  length (expected_by_time cut 1001 1009 []) = 2%nat.
Proof. vm_compute. repeat split; reflexivity. Qed.

Print Assumptions c19_crash_point_is_torn.
Print Assumptions c19_search_by_time_after_crash_point.
Print Assumptions c19_search_max_lines_after_crash_point.
