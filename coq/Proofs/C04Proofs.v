From SV Require Import Model.Base Model.LeapArray Model.World Spec.C02Spec Spec.WorldSpec Spec.C04Spec
  Proofs.WorldProofs.
From Coq Require Import ZifyBool ZifyN.
Open Scope N_scope.

Lemma wout_eqb_refl_read a b c d e : wout_eqb (ZRead a b c d e) (ZRead a b c d e) = true.
Proof. simpl. rewrite !N.eqb_refl. reflexivity. Qed.

Lemma gh_step_not_panic gh x gh' : gh_step gh x ZPanic = Some gh' -> False.
Proof. destruct x; simpl; discriminate. Qed.

Lemma c04_holds_from w gh ops :
  geom_ok (w_cfg w) -> iv (c_total (w_cfg w)) <= w_now w -> world_rel w gh ->
  ok_c04 (w_cfg w) gh ops (run_typed w ops) = true.
Proof.
  revert w gh. induction ops as [|x tl IH]; intros w gh Hg Hiv Hrel; [reflexivity|].
  cbn [run_typed]. pose proof (exec_rel w gh x Hg Hiv Hrel) as H.
  destruct (exec w x) as [w' o]. destruct H as (Hc & Hnow & gh' & Hstep & Hrel' & Hx).
  assert (Ho : o <> ZPanic) by (intros ->; eapply gh_step_not_panic; eauto).
  assert (Htail : ok_c04 (w_cfg w) gh' tl (run_typed w' tl) = true).
  { rewrite <- Hc. apply IH; rewrite ?Hc; auto. lia. }
  destruct o; try congruence; cbn [ok_c04]; rewrite Hstep, Htail, andb_true_r;
    destruct x; auto; rewrite Hx; apply wout_eqb_refl_read.
Qed.

Theorem c04_accounting c base fl iso ops :
  geom_ok c -> iv (c_total c) <= base -> flow_ok c base fl ->
  ok_c04 c (ghost0 base) ops (run_typed (world0 c base fl iso) ops) = true.
Proof.
  intros Hg Hiv Hf.
  apply (c04_holds_from (world0 c base fl iso) (ghost0 base) ops); auto.
  apply world_rel_init; auto.
Qed.

(** rules produced by stat_for are well-formed at any time >= their interval *)
Lemma stat_for_ok (c : cfg) (interval now rule : N) (t : thr) :
  geom_ok c -> interval <= now ->
  fctl_rel c [] now (mkF rule t (stat_for c interval)).
Proof.
  intros (Hb & Hs & Hw) Hle. unfold fctl_rel, stat_for. cbn [f_stat]. cbv zeta.
  destruct ((interval =? 0) || (interval =? c_miv c)); [exact I|].
  match goal with |- context [check_reuse ?s interval _ _] => set (scnt := s) end.
  destruct (check_reuse scnt interval (sc (c_total c)) (iv (c_total c))) eqn:E.
  - unfold win_new. cbn [w_sc w_iv]. rewrite E. reflexivity.
  - destruct (ring_new scnt interval) as [g|] eqn:Er; [|exact I].
    destruct (win_new g scnt interval) as [w|] eqn:Ew; [|exact I].
    pose proof (WindowProofs.win_new_facts _ _ _ _ Ew) as (-> & Hwiv & Hwle & Hsg & Hivg).
    unfold ring_new in Er.
    destruct ((scnt =? 0) || negb (interval mod scnt =? 0)) eqn:E2; [discriminate|].
    inversion Er; subst g. cbn [w_sc w_iv] in *. cbn [bl sc] in *.
    apply orb_false_elim in E2. destruct E2 as [E3 E4].
    apply negb_false_iff in E4. apply N.eqb_eq in E4. apply N.eqb_neq in E3.
    assert (Hiv : iv (mkG scnt (interval / scnt)) = interval).
    { unfold iv. cbn [sc bl]. pose proof (N.div_mod' interval scnt). lia. }
    assert (0 < interval / scnt).
    { destruct (interval / scnt) eqn:Ed; [|lia]. exfalso. unfold iv in Hivg. cbn [sc bl] in Hivg. lia. }
    split; [auto|]. split; [lia|]. split; [exact Ew|]. split; [lia|].
    split; [reflexivity | exact I | intros e []].
Qed.
