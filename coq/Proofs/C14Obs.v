(** C14: the observation in terms of the final state. *)
From SV Require Import Model.Base Model.LeapArray Model.World Model.Conc Spec.C14Spec.
From SV Require Import Proofs.C14Frame Proofs.C14Code Proofs.C14Inv Proofs.C14Logs Proofs.C14Conc Proofs.C14Acc.
From Coq Require Import Lia ZifyBool ZifyN.
Open Scope N_scope.

(** * tokens *)
Lemma renumber_zeros_seen : forall l, Forall (fun k => k = 0%nat) l ->
  renumber l [0%nat] = (repeat 1 (length l), [0%nat]).
Proof.
  induction l as [|k tl IH]; intros H; [reflexivity|].
  inversion H; subst. simpl. rewrite (IH H3). reflexivity.
Qed.

Lemma renumber_zeros : forall l, Forall (fun k => k = 0%nat) l ->
  renumber l [] = (repeat 1 (length l), match l with [] => [] | _ => [0%nat] end).
Proof.
  intros [|k tl] H; [reflexivity|]. inversion H; subst. simpl.
  rewrite (renumber_zeros_seen tl H3). reflexivity.
Qed.

Lemma map_combine_repeat {A B C} (f : A * B -> C) (c : B) : forall l,
  map f (combine l (repeat c (length l))) = map (fun x => f (x, c)) l.
Proof. induction l as [|x tl IH]; simpl; auto. f_equal; auto. Qed.

Definition obuilds (st : cstate) : list (N * N * N * bool) :=
  map (fun x : N * nat * N * bool => (fst (fst (fst x)), 1, snd (fst x), snd x)) (c_seen st).

Lemma filter_map {A B} (f : B -> bool) (g : A -> B) : forall l,
  filter f (map g l) = map g (filter (fun x => f (g x)) l).
Proof. induction l as [|x tl IH]; simpl; auto. destruct (f (g x)); simpl; rewrite IH; auto. Qed.

Lemma builds_of_obuilds tid st : builds_of tid (obuilds st) = blog tid st.
Proof. unfold builds_of, obuilds, blog. rewrite filter_map, map_map. reflexivity. Qed.

Lemma countb_map {A B} (f : B -> bool) (g : A -> B) l : countb f (map g l) = countb (fun x => f (g x)) l.
Proof. unfold countb. rewrite filter_map, map_length. reflexivity. Qed.

Lemma countb_obuilds_res st : countb (fun _ => true) (obuilds st) = ns SRes st.
Proof. unfold obuilds. rewrite countb_map. reflexivity. Qed.
Lemma countb_obuilds_inb st : countb (fun x : N * N * N * bool => snd x) (obuilds st) = ns SInb st.
Proof. unfold obuilds. rewrite countb_map. reflexivity. Qed.

Lemma sumN_map_ext {A} (f g : A -> N) l : (forall x, f x = g x) -> sumN (map f l) = sumN (map g l).
Proof. intros H. induction l as [|x tl IH]; simpl; auto. rewrite H, IH. reflexivity. Qed.

Lemma b_batches_res st : b_batches false (obuilds st) = sb SRes (c_seen st).
Proof. unfold b_batches, obuilds, sb. rewrite map_map. reflexivity. Qed.
Lemma b_batches_inb st : b_batches true (obuilds st) = sb SInb (c_seen st).
Proof.
  unfold b_batches, obuilds, sb. rewrite map_map. apply sumN_map_ext.
  intros x. simpl. destruct (snd x); reflexivity.
Qed.
Lemma x_batches_res l : x_batches false l = sxb SRes l.
Proof. reflexivity. Qed.
Lemma x_batches_inb l : x_batches true l = sxb SInb l.
Proof.
  unfold x_batches, sxb. apply sumN_map_ext. intros x. simpl. destruct (snd (fst x)); reflexivity.
Qed.
Lemma x_rts_res l : x_rts false l = sxr SRes l.
Proof. reflexivity. Qed.
Lemma x_rts_inb l : x_rts true l = sxr SInb l.
Proof.
  unfold x_rts, sxr. apply sumN_map_ext. intros x. simpl. destruct (snd (fst x)); reflexivity.
Qed.

(** * readings *)
Lemma sum_get_filter_le ev (P : slot -> bool) l : sum_get ev (filter P l) <= sum_get ev l.
Proof. induction l as [|x tl IH]; simpl; [lia|]. destruct (P x); simpl; lia. Qed.

Lemma sum_get_filter_eq ev (P : slot -> bool) l :
  (forall sl, In sl l -> P sl = true \/ bget ev (snd sl) = 0) -> sum_get ev (filter P l) = sum_get ev l.
Proof.
  induction l as [|x tl IH]; intros H; simpl; auto.
  assert (IH' : sum_get ev (filter P tl) = sum_get ev tl) by (apply IH; intros; apply H; right; auto).
  destruct (H x (or_introl eq_refl)) as [Hp|Hz].
  - rewrite Hp. simpl. lia.
  - destruct (P x); simpl; lia.
Qed.

Lemma sum_or0_le nd now ev : sum_or0 nd now ev <= tot ev nd.
Proof.
  unfold sum_or0, node_sum, sum_with_time, satisfied.
  destruct (start_range _ _ now) as [[lo hi]|]; simpl; [|lia].
  apply sum_get_filter_le.
Qed.

Lemma tot_fresh ev : tot ev fresh = 0.
Proof. destruct ev; reflexivity. Qed.

Lemma sum_or0_fresh now ev : sum_or0 fresh now ev = 0.
Proof. pose proof (sum_or0_le fresh now ev). rewrite tot_fresh in H. lia. Qed.

(** the observation, field by field *)
Definition rdn (st : cstate) (s : sel) (ev : mevent) : N := sum_or0 (gnode st s) (c_now st) ev.

Lemma obs_of_eq st ths :
  mapok st -> seen_ok st ->
  obs_of st ths =
  mkO (all_done ths) (obuilds st) (c_exits st)
      (match c_map st with Some _ => 1 | None => 0 end)
      (n_conc (gnode st SRes)) (rdn st SRes Pass) (rdn st SRes Complete) (rdn st SRes Rt)
      (n_conc (gnode st SInb)) (rdn st SInb Pass) (rdn st SInb Complete) (rdn st SInb Rt).
Proof.
  intros Hm [Hs1 Hs2]. unfold obs_of.
  assert (Hz : Forall (fun k => k = 0%nat) (map (fun x : N * nat * N * bool => snd (fst (fst x))) (c_seen st))).
  { apply Forall_forall. intros k Hk. apply in_map_iff in Hk as (x & <- & Hx).
    rewrite Forall_forall in Hs1. apply Hs1; auto. }
  rewrite (renumber_zeros _ Hz). rewrite map_length.
  rewrite (map_combine_repeat (fun xt : (N * nat * N * bool) * N => let '(x, t) := xt in (fst (fst (fst x)), t, snd (fst x), snd x))).
  fold (obuilds st).
  unfold rdn, final_node, mapok in *. simpl gnode.
  destruct (c_map st) as [k|] eqn:Em.
  - destruct Hm as [-> Hl]. destruct (c_nodes st) as [|x [|y l]] eqn:En; simpl in Hl; try discriminate.
    simpl. f_equal.
    destruct (c_seen st); reflexivity.
  - rewrite Hm. simpl. rewrite !sum_or0_fresh. f_equal.
Qed.
