(** The LeapArray ring under writes at non-decreasing times interleaved with clears
    ([reset_valid]): shape and aggregate invariants stated with an explicit time bound,
    and the exact value of [count_with_time] read right after a write. *)
From SV Require Import Model.Base Model.F64 Model.LeapArray Model.Breaker
                       Proofs.LeapArrayProofs Proofs.WindowProofs.
From Coq Require Import ZifyBool ZifyN.

Open Scope N_scope.

(** * Arithmetic helpers *)

Lemma mult_gap c a b : 0 < c -> a mod c = 0 -> b mod c = 0 -> b < a -> b + c <= a.
Proof.
  intros Hc Ha Hb Hlt.
  assert (Ea : a = c * (a / c)) by (pose proof (N.div_mod' a c); lia).
  assert (Eb : b = c * (b / c)) by (pose proof (N.div_mod' b c); lia).
  set (qa := a / c) in *. set (qb := b / c) in *.
  assert (Hq : qb < qa).
  { destruct (N.lt_ge_cases qb qa) as [H|H]; auto. exfalso.
    assert (c * qa <= c * qb) by (apply N.mul_le_mono_l; auto). lia. }
  assert (H : c * (qb + 1) <= c * qa) by (apply N.mul_le_mono_l; lia).
  rewrite N.mul_add_distr_l, N.mul_1_r in H. lia.
Qed.

Lemma iv_mod g s : 0 < bl g -> (s + iv g) mod bl g = s mod bl g.
Proof. intros H. unfold iv. apply N.mod_add. lia. Qed.

Lemma iv_idx g s : 0 < bl g -> 0 < sc g -> idx g (s + iv g) = idx g s.
Proof.
  intros Hb Hs. unfold idx, iv. rewrite N.div_add by lia.
  replace (s / bl g + sc g) with (s / bl g + 1 * sc g) by lia.
  apply N.mod_add. lia.
Qed.

Lemma iv_pos g : 0 < bl g -> 0 < sc g -> 0 < iv g.
Proof. intros. unfold iv. apply N.mul_pos_pos; auto. Qed.

Lemma bl_le_iv g : 0 < bl g -> 0 < sc g -> bl g <= iv g.
Proof.
  intros Hb Hs. unfold iv.
  assert (1 * bl g <= sc g * bl g) by (apply N.mul_le_mono_r; lia). lia.
Qed.

(** * Weak shape invariant with an explicit time bound *)

Definition InvW (g : geom) (slots : list slot) (T : N) : Prop :=
  length slots = N.to_nat (sc g) /\
  forall i s v, nth_error slots i = Some (s, v) ->
    (s = 0 /\ v = bucket0) \/
    (s <> 0 /\ s mod bl g = 0 /\ N.to_nat (idx g s) = i /\ s <= start g T).

Lemma InvW_init g T : InvW g (ring0 g) T.
Proof.
  split; [apply repeat_length|].
  intros i s v H. apply nth_error_repeat in H. inversion H; subst. left; auto.
Qed.

Lemma InvW_mono g slots T T' : 0 < bl g -> T <= T' -> InvW g slots T -> InvW g slots T'.
Proof.
  intros Hb Hle [Hlen Hall]. split; auto.
  intros i s v H. destruct (Hall i s v H) as [?|(H1 & H2 & H3 & H4)]; [left; auto|right].
  repeat split; auto. pose proof (start_mono g T T' Hb Hle). lia.
Qed.

Lemma InvW_stamp_mod g slots T sl :
  0 < bl g -> InvW g slots T -> In sl slots -> fst sl mod bl g = 0.
Proof.
  intros Hb [_ Hall] Hin. apply In_nth_error in Hin. destruct Hin as [i Hi].
  destruct sl as [s v]. destruct (Hall i s v Hi) as [[-> _]|(_ & H & _)]; simpl; auto.
Qed.

Lemma writeW_cases g slots T t w :
  0 < bl g -> 0 < sc g -> T <= t -> InvW g slots T ->
  exists s v, nth_error slots (N.to_nat (idx g t)) = Some (s, v) /\
    ( (s = 0 /\ v = bucket0 /\
       write g slots t w = WOk (upd slots (N.to_nat (idx g t)) (start g t, apply_w w bucket0)))
   \/ (s <> 0 /\ s = start g t /\
       write g slots t w = WOk (upd slots (N.to_nat (idx g t)) (s, apply_w w v)))
   \/ (s <> 0 /\ s + iv g <= start g t /\
       write g slots t w = WOk (upd slots (N.to_nat (idx g t)) (start g t, apply_w w bucket0)))).
Proof.
  intros Hb Hs HT [Hlen Hall].
  set (i := N.to_nat (idx g t)).
  assert (Hi : (i < length slots)%nat).
  { rewrite Hlen. unfold i. pose proof (idx_lt g t Hs). lia. }
  destruct (nth_error slots i) as [[s v]|] eqn:Hnth; [|apply nth_error_None in Hnth; lia].
  exists s, v. split; auto.
  pose proof (Hall i s v Hnth) as Hok. unfold write. fold i. rewrite Hnth.
  assert (bl g =? 0 = false) as -> by lia.
  destruct Hok as [(-> & ->)|(Hnz & Hm & Hix & Hle)].
  - left. repeat split; auto.
  - assert (s =? 0 = false) as -> by lia.
    destruct (s =? start g t) eqn:E1.
    + right; left. apply N.eqb_eq in E1. repeat split; auto.
    + right; right.
      pose proof (start_mono g T t Hb HT) as Hm2.
      assert (s < start g t) by lia.
      assert (s <? start g t = true) as -> by lia.
      repeat split; auto.
      apply same_slot_gap; auto. { apply start_mod; auto. }
      rewrite start_idx by auto. unfold i in Hix. lia.
Qed.

Lemma writeW_ok g slots T t w :
  0 < bl g -> 0 < sc g -> T <= t -> InvW g slots T -> exists s', write g slots t w = WOk s'.
Proof.
  intros Hb Hs HT HI.
  destruct (writeW_cases g slots T t w Hb Hs HT HI) as (s & v & _ & Hc).
  destruct Hc as [(_ & _ & H)|[(_ & _ & H)|(_ & _ & H)]]; eauto.
Qed.

Lemma writeW_inv g slots T t w slots' :
  0 < bl g -> 0 < sc g -> bl g <= t -> T <= t ->
  InvW g slots T -> write g slots t w = WOk slots' -> InvW g slots' t.
Proof.
  intros Hb Hs Hbt HT HI Hw.
  destruct (writeW_cases g slots T t w Hb Hs HT HI) as (s & v & Hi & Hcases).
  pose proof (start_pos g t Hb Hbt) as Hpos.
  pose proof (start_mono g T t Hb HT) as Hmono.
  destruct HI as [Hlen Hall].
  set (i := N.to_nat (idx g t)) in *.
  assert (Hcase : forall v', InvW g (upd slots i (start g t, v')) t).
  { intros v'. split; [rewrite length_upd; exact Hlen|].
    intros j sj vj Hj. destruct (Nat.eq_dec i j) as [<-|Hne].
    - rewrite (nth_error_upd_same _ _ _ _ Hi) in Hj. inversion Hj; subst; clear Hj.
      right. repeat split; try lia.
      + apply start_mod; auto.
      + rewrite start_idx; auto.
    - rewrite nth_error_upd_other in Hj by auto.
      destruct (Hall j sj vj Hj) as [?|(H1 & H2 & H3 & H4)]; [left; auto|right].
      repeat split; auto. lia. }
  destruct Hcases as [(-> & -> & Hw')|[(Hnz & -> & Hw')|(Hnz & Hgap & Hw')]];
    rewrite Hw' in Hw; inversion Hw; subst slots'; apply Hcase.
Qed.

(** after an accepted write at [t] the slot of [t] carries the stamp [start t] *)
Definition stamped (g : geom) (slots : list slot) (t : N) : Prop :=
  exists v, nth_error slots (N.to_nat (idx g t)) = Some (start g t, v).

Lemma write_stamped g slots t w slots' : write g slots t w = WOk slots' -> stamped g slots' t.
Proof.
  unfold write, stamped. destruct (bl g =? 0); [discriminate|].
  destruct (nth_error slots (N.to_nat (idx g t))) as [[s v]|] eqn:Hn; [|discriminate].
  destruct (s =? 0).
  { intros H; inversion H; subst. eexists. eapply nth_error_upd_same; eauto. }
  destruct (s =? start g t) eqn:E.
  { apply N.eqb_eq in E. intros H; inversion H; subst. eexists. eapply nth_error_upd_same; eauto. }
  destruct (s <? start g t); [|discriminate].
  intros H; inversion H; subst. eexists. eapply nth_error_upd_same; eauto.
Qed.

(** * Clears keep the shape *)

Lemma nth_error_reset g slots now i :
  nth_error (reset_valid g slots now) i =
  option_map (fun sl : slot => if deprecated now (iv g) (fst sl) then sl else (fst sl, bucket0))
             (nth_error slots i).
Proof. unfold reset_valid. apply nth_error_map. Qed.

Lemma reset_InvW g slots T T' :
  0 < bl g -> T <= T' -> InvW g slots T -> InvW g (reset_valid g slots T') T'.
Proof.
  intros Hb HT HI. apply (InvW_mono g slots T T' Hb HT) in HI. destruct HI as [Hlen Hall].
  split; [unfold reset_valid; rewrite map_length; auto|].
  intros i s v H. rewrite nth_error_reset in H.
  destruct (nth_error slots i) as [[s0 v0]|] eqn:Hn; simpl in H; [|discriminate].
  specialize (Hall i s0 v0 Hn).
  destruct (deprecated T' (iv g) s0); inversion H; subst; clear H; auto.
  destruct Hall as [[-> _]|?]; [left; auto|right; auto].
Qed.

(** * Aggregate invariant with an explicit time bound *)

Section AggregateT.
  Variable op : N -> N -> N.
  Variable e0 : N.
  Variable m : bucket -> N.
  Variable d : wop -> option N.
  Hypothesis op_comm : forall a b, op a b = op b a.
  Hypothesis op_assoc : forall a b c, op a (op b c) = op (op a b) c.
  Hypothesis m_reset_base : op (m bucket0) e0 = e0.
  Hypothesis m_apply : forall w b,
    m (apply_w w b) = match d w with Some x => op x (m b) | None => m b end.

  (** [live] : the writes since the last clear, newest first *)
  Definition AggT (g : geom) (slots : list slot) (live : hist) (T : N) : Prop :=
    forall lo hi, 0 < lo -> start g T < lo + iv g ->
      win_agg op e0 m slots lo hi = spec_agg op e0 d g live lo hi.

  Lemma AggT_init g T : AggT g (ring0 g) [] T.
  Proof.
    intros lo hi Hlo _. simpl. unfold ring0.
    induction (N.to_nat (sc g)) as [|n IH]; simpl; auto.
    assert (inr lo hi 0 = false) as -> by (unfold inr; lia). exact IH.
  Qed.

  Lemma AggT_mono g slots live T T' :
    0 < bl g -> T <= T' -> AggT g slots live T -> AggT g slots live T'.
  Proof.
    intros Hb Hle HA lo hi Hlo Hr. apply HA; auto.
    pose proof (start_mono g T T' Hb Hle). lia.
  Qed.

  Lemma writeT_agg g slots live T t w slots' :
    0 < bl g -> 0 < sc g -> T <= t ->
    InvW g slots T -> AggT g slots live T ->
    write g slots t w = WOk slots' -> AggT g slots' ((t, w) :: live) t.
  Proof.
    intros Hb Hs HT HI HS Hw lo hi Hlo Hrng.
    pose proof (start_mono g T t Hb HT) as Hmono.
    assert (Hold : win_agg op e0 m slots lo hi = spec_agg op e0 d g live lo hi).
    { apply HS; auto. lia. }
    destruct (writeW_cases g slots T t w Hb Hs HT HI) as (s & v & Hi & Hcases).
    assert (Hnew : forall old, nth_error slots (N.to_nat (idx g t)) = Some old ->
               inr lo hi (fst old) = false ->
               win_agg op e0 m (upd slots (N.to_nat (idx g t)) (start g t, apply_w w bucket0)) lo hi
               = spec_agg op e0 d g ((t, w) :: live) lo hi).
    { intros old Ho Hout.
      rewrite (win_agg_upd_out op e0 m op_comm op_assoc _ _ _ _ _ _ Ho Hout). simpl.
      destruct (inr lo hi (start g t)); auto.
      rewrite m_apply, <- Hold. destruct (d w).
      - rewrite <- op_assoc, (win_agg_absorb op e0 m op_comm op_assoc m_reset_base). reflexivity.
      - apply (win_agg_absorb op e0 m op_comm op_assoc m_reset_base). }
    destruct Hcases as [(-> & -> & Hw')|[(Hnz & -> & Hw')|(Hnz & Hgap & Hw')]];
      rewrite Hw' in Hw; inversion Hw; subst slots'; clear Hw Hw'.
    - apply (Hnew _ Hi). simpl. unfold inr. lia.
    - rewrite (win_agg_upd_same op e0 m d op_comm op_assoc m_apply _ _ _ _ _ _ _ Hi).
      simpl. rewrite Hold. reflexivity.
    - apply (Hnew _ Hi). simpl. unfold inr. lia.
  Qed.

  (** a clear at [T'] empties every range that is still admissible at [T'] *)
  Lemma reset_AggT g slots T' :
    0 < bl g -> 0 < sc g -> (forall sl, In sl slots -> fst sl mod bl g = 0) ->
    AggT g (reset_valid g slots T') [] T'.
  Proof.
    intros Hb Hs Hmod lo hi Hlo Hr. simpl. unfold reset_valid.
    induction slots as [|[s v] tl IH]; simpl; auto.
    rewrite IH by (intros sl Hin; apply Hmod; right; auto).
    assert (Hnd : inr lo hi s = true -> deprecated T' (iv g) s = false).
    { intros E. unfold inr in E. unfold deprecated.
      assert (Hsm : s mod bl g = 0) by (apply (Hmod (s, v)); left; auto).
      assert (H1 : (s + iv g) mod bl g = 0) by (rewrite iv_mod; auto).
      pose proof (start_mod g T' Hb) as H2.
      assert (H3 : start g T' < s + iv g) by lia.
      pose proof (mult_gap (bl g) _ _ Hb H1 H2 H3) as H4.
      pose proof (start_gt g T' Hb). lia. }
    destruct (deprecated T' (iv g) s) eqn:Ed; simpl; destruct (inr lo hi s) eqn:E; auto.
    specialize (Hnd eq_refl). discriminate.
  Qed.
End AggregateT.

(** * Reading the counters right after a write *)

Lemma bget_bucket0 ev : bget ev bucket0 = 0.
Proof. destruct ev; reflexivity. Qed.

Lemma sum_filter_agree g slots now ev lo hi :
  (forall sl, In sl slots ->
     negb (deprecated now (iv g) (fst sl)) = inr lo hi (fst sl) \/ snd sl = bucket0) ->
  count_with_time g slots now ev = win_agg N.add 0 (bget ev) slots lo hi.
Proof.
  unfold count_with_time, valid_values.
  induction slots as [|sl tl IH]; simpl; intros H; auto.
  rewrite <- IH by (intros; apply H; auto). rewrite andb_true_r.
  destruct (H sl (or_introl eq_refl)) as [E|E].
  - rewrite E. destruct (inr lo hi (fst sl)); reflexivity.
  - rewrite E, bget_bucket0.
    destruct (negb (deprecated now (iv g) (fst sl))), (inr lo hi (fst sl)); simpl;
      rewrite ?E, ?bget_bucket0; lia.
Qed.

Lemma count_after_write g slots now ev :
  0 < bl g -> 0 < sc g -> iv g <= now -> InvW g slots now -> stamped g slots now ->
  count_with_time g slots now ev
  = win_agg N.add 0 (bget ev) slots (now - iv g + 1) (start g now).
Proof.
  intros Hb Hs Hiv [Hlen Hall] [v0 Hst].
  apply sum_filter_agree. intros [s v] Hin. simpl.
  apply In_nth_error in Hin. destruct Hin as [i Hi].
  destruct (Hall i s v Hi) as [[-> ->]|(Hnz & Hm & Hix & Hle)]; [right; auto|left].
  pose proof (start_le g now) as Hsl.
  pose proof (iv_pos g Hb Hs) as Hivp.
  assert (Hne : s + iv g <> now).
  { intros E.
    assert (Hnm : now mod bl g = 0) by (rewrite <- E, iv_mod; auto).
    assert (Hsn : start g now = now) by (apply start_of_multiple; auto).
    assert (Hii : idx g now = idx g s) by (rewrite <- E; apply iv_idx; auto).
    assert (Hst' : nth_error slots i = Some (start g now, v0))
      by (rewrite <- Hix, <- Hii; exact Hst).
    pose proof (eq_trans (eq_sym Hi) Hst') as X. inversion X. lia. }
  unfold deprecated, inr. lia.
Qed.

(** * The sum instance *)

Definition AggS (ev : mevent) := AggT N.add 0 (bget ev) (d_sum ev).

Lemma sum_base ev : bget ev bucket0 + 0 = 0.
Proof. rewrite bget_bucket0. reflexivity. Qed.

Lemma AggS_write ev g slots live T t w slots' :
  0 < bl g -> 0 < sc g -> T <= t ->
  InvW g slots T -> AggS ev g slots live T ->
  write g slots t w = WOk slots' -> AggS ev g slots' ((t, w) :: live) t.
Proof.
  apply (writeT_agg N.add 0 (bget ev) (d_sum ev) N.add_comm N.add_assoc (sum_base ev) (sum_apply ev)).
Qed.

Lemma AggS_reset ev g slots T' :
  0 < bl g -> 0 < sc g -> (forall sl, In sl slots -> fst sl mod bl g = 0) ->
  AggS ev g (reset_valid g slots T') [] T'.
Proof. apply (reset_AggT N.add 0 (bget ev) (d_sum ev) N.add_comm N.add_assoc (sum_base ev) (sum_apply ev)). Qed.

Lemma AggS_init ev g T : AggS ev g (ring0 g) [] T.
Proof. apply (AggT_init N.add 0 (bget ev) (d_sum ev) N.add_comm N.add_assoc (sum_base ev)). Qed.

Lemma AggS_mono ev g slots live T T' :
  0 < bl g -> T <= T' -> AggS ev g slots live T -> AggS ev g slots live T'.
Proof. apply (AggT_mono N.add 0 (bget ev) (d_sum ev) N.add_comm N.add_assoc (sum_base ev)). Qed.
