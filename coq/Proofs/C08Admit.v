(** C08 — warm-up: admissions and rejections tied to the allowance bounds.
    An entry is admitted only when the window's pass count plus its batch (added in binary64 as the
    code does) is at most about q; an entry is rejected only when that sum exceeds about q/c. *)
From Coq Require Import List ZArith NArith Reals Lia Lra Bool.
From Flocq Require Import Core Binary Bits.
From SV Require Import Model.Base Model.F64 Model.LeapArray Model.World Model.WarmUp.
From SV Require Import Proofs.C08Proofs Proofs.C08Float Proofs.C08Bounds.
Import ListNotations.

Local Notation b2r := (B2R 53 1024).
Local Notation fin := (is_finite 53 1024).
Local Notation sgn := (Bsign 53 1024).
Local Notation pinf := (B754_infinity 53 1024 false).

(** the state after a history (same definition as [wfold] in Props/C08.v) *)
Definition wfold' (c : cfg) (w : wworld) (l : list wcmd) : wworld := fold_left (fun w x => fst (wexec c w x)) l w.

(** * The calculator keeps its static fields, and its tokens stay below the maximum *)

Definition wu_like (w0 u : wu) : Prop :=
  wu_thr u = wu_thr w0 /\ wu_cold u = wu_cold w0 /\ wu_warning u = wu_warning w0 /\
  wu_max u = wu_max w0 /\ wu_slope u = wu_slope w0 /\ (wu_stored u <= wu_max w0)%N.

Lemma wu_like_refl : forall w0, (wu_stored w0 <= wu_max w0)%N -> wu_like w0 w0.
Proof. intros w0 H. repeat split; exact H. Qed.

Lemma sync_token_like : forall w0 w now pq u,
  wu_like w0 w -> sync_token w now pq = WVal u -> wu_like w0 u.
Proof.
  intros w0 w now pq u (A & B & C & D & E & F) H.
  assert (wu_stored w <= wu_max w)%N as Hinv by (rewrite D; exact F).
  pose proof (sync_token_inv w now pq u Hinv H) as Hs.
  unfold sync_token in H.
  destruct (_ <=? _)%N.
  - inversion H; subst. repeat split; assumption.
  - destruct (cool_down w (now - now mod 1000) pq) as [nv|]; [|discriminate].
    inversion H; subst; clear H. cbn [wu_stored wu_max] in Hs.
    unfold wu_like. cbn [wu_thr wu_cold wu_warning wu_max wu_slope wu_stored].
    rewrite <- D. repeat split; assumption.
Qed.

Lemma wu_allowed_like : forall c w0 w u a,
  wu_like w0 (ww_wu w) -> wu_allowed c w = Some (u, a) -> wu_like w0 u /\ a = allowed_of u.
Proof.
  intros c w0 w u a L. unfold wu_allowed.
  destruct (qps_prev c (ww_node w) (ww_now w)) as [pq|]; [|discriminate].
  destruct (sync_token (ww_wu w) (ww_now w) pq) as [u'|] eqn:E; [|discriminate].
  intros E'; inversion E'; subst. split; [|reflexivity]. eapply sync_token_like; eauto.
Qed.

Lemma wexec_like : forall c w0 w x,
  wu_like w0 (ww_wu w) -> wu_like w0 (ww_wu (fst (wexec c w x))).
Proof.
  intros c w0 w x L.
  destruct x as [batch|dt|]; unfold wexec.
  - destruct (wu_allowed c w) as [[u a]|] eqn:E; [|exact L].
    destruct (wu_allowed_like c w0 w u a L E) as [Lu _].
    destruct (node_sum c (ww_node w) (ww_now w) Pass); [|exact L].
    destruct (flt _ _); exact Lu.
  - exact L.
  - destruct (wu_allowed c w) as [[u a]|] eqn:E; [|exact L].
    destruct (wu_allowed_like c w0 w u a L E) as [Lu _]. exact Lu.
Qed.

Lemma wfold_like : forall c w0 l w,
  wu_like w0 (ww_wu w) -> wu_like w0 (ww_wu (wfold' c w l)).
Proof.
  intros c w0 l; induction l as [|x tl IH]; intros w L; unfold wfold'; cbn [fold_left].
  - exact L.
  - apply IH. apply wexec_like. exact L.
Qed.

(** the allowance reads only thr, warning, slope and the stored tokens *)
Lemma allowed_like : forall w0 u, wu_like w0 u -> allowed_of u = allowed_of (with_stored w0 (wu_stored u)).
Proof.
  intros w0 u (A & B & C & D & E & F). unfold allowed_of, with_stored.
  cbn [wu_thr wu_warning wu_slope wu_stored]. rewrite A, C, E. reflexivity.
Qed.

(** * The sum the check compares with the allowance *)

Lemma ofN_pos : forall n, pos (f64_of_N n).
Proof. intros n. exact (rspec_pos _ _ (ofN_rspec n)). Qed.

(** the sum of two non-negative values is finite or +infinity *)
Lemma add_pos_inf : forall x y, pos x -> pos y -> fin (fadd x y) = false -> fadd x y = pinf.
Proof.
  intros x y Px Py NF.
  destruct Py as [E|[Fy Sy]]; [subst; apply add_inf_r; exact Px|].
  destruct Px as [E|[Fx Sx]]; [subst; apply add_inf_l; right; split; assumption|].
  revert NF. unfold fadd, b64_plus.
  match goal with |- context [Bplus 53 1024 ?a ?b ?nn ?m x y] =>
    pose proof (Bplus_correct 53 1024 a b nn m x y Fx Fy) as H end.
  destruct (Rlt_bool _ _).
  - destruct H as (_ & B & _). intros NF. rewrite B in NF. discriminate.
  - intros _. destruct H as [H _]. rewrite Sx in H. apply overflow_pinf. exact H.
Qed.

Lemma flt_fin_inf : forall a, fin a = true -> flt a pinf = true.
Proof. intros a F. destruct a as [s|s|s p H|s m e H]; try discriminate; destruct s; reflexivity. Qed.

Lemma flt_real : forall a x, fin a = true -> fin x = true ->
  (flt a x = true -> (b2r a < b2r x)%R) /\ (flt a x = false -> (b2r x <= b2r a)%R).
Proof.
  intros a x Fa Fx. unfold flt, fcmp. rewrite Bcompare_correct by assumption.
  destruct (Rcompare_spec (b2r a) (b2r x)); split; intros; try discriminate; lra.
Qed.

(** * What a build command does, in terms of the allowance of the refreshed calculator *)

Lemma wexec_WB_cases : forall c w batch w' o,
  wexec c w (WB batch) = (w', o) -> o <> WOPanic ->
  exists u cur, wu_allowed c w = Some (u, allowed_of u) /\
    node_sum c (ww_node w) (ww_now w) Pass = ROk cur /\
    o = if flt (allowed_of u) (fadd (f64_of_N cur) (f64_of_N batch)) then WOBlock else WOAdmit.
Proof.
  intros c w batch w' o. unfold wexec.
  destruct (wu_allowed c w) as [[u a]|] eqn:E.
  - assert (a = allowed_of u) as Ea.
    { revert E. unfold wu_allowed. destruct (qps_prev _ _ _); [|discriminate].
      destruct (sync_token _ _ _); [|discriminate]. intros E; inversion E; reflexivity. }
    subst a.
    destruct (node_sum c (ww_node w) (ww_now w) Pass) as [cur|].
    + intros H _. exists u, cur. split; [reflexivity|]. split; [reflexivity|].
      destruct (flt _ _); inversion H; reflexivity.
    + intros H N. inversion H; subst. congruence.
  - intros H N. inversion H; subst. congruence.
Qed.

Section Rule.
Variables (c : cfg) (base : N) (thr : f64) (cold period : N).
Hypothesis Fthr : is_finite 53 1024 thr = true.
Hypothesis Hq : (1 <= B2R 53 1024 thr <= 1073741824)%R.
Hypothesis Hcold : (cold <= 1048576)%N.
Hypothesis Hperiod : (1 <= period <= 1048576)%N.

Lemma reach_like : forall l,
  wu_like (wu_new thr cold period) (ww_wu (wfold' c (wworld0 c base thr cold period) l)).
Proof.
  intros l. apply wfold_like. unfold wworld0. cbn [ww_wu]. apply wu_like_refl.
  unfold wu_new. cbn [wu_stored wu_max]. apply N.le_0_l.
Qed.

(** the allowance any reachable state computes lies within the bounds *)
Lemma reach_allowance : forall l u a,
  wu_allowed c (wfold' c (wworld0 c base thr cold period) l) = Some (u, a) ->
  fin a = true /\
  (b2r thr / IZR (Z.of_N (if (cold <=? 1)%N then 3%N else cold)) * (1 - / 1099511627776) <= b2r a
     <= b2r thr * (1 + / 1099511627776))%R.
Proof.
  intros l u a E.
  destruct (wu_allowed_like c _ _ u a (reach_like l) E) as [Lu Ea]. subst a.
  rewrite (allowed_like _ _ Lu).
  destruct Lu as (_ & _ & _ & _ & _ & Hs).
  exact (c08_allowance_bounds thr cold period (wu_stored u) Fthr Hq Hcold Hperiod Hs).
Qed.
End Rule.

(** an entry is admitted only when the pass count of the window plus the batch, as the check adds
    them, is at most about q: in particular that sum is finite *)
Lemma c08_admitted_within_threshold_fin : forall c base thr cold period l batch w',
  is_finite 53 1024 thr = true -> (1 <= B2R 53 1024 thr <= 1073741824)%R ->
  (cold <= 1048576)%N -> (1 <= period <= 1048576)%N ->
  let w := fold_left (fun w x => fst (wexec c w x)) l (wworld0 c base thr cold period) in
  wexec c w (WB batch) = (w', WOAdmit) ->
  exists cur, node_sum c (ww_node w) (ww_now w) Pass = ROk cur /\
    is_finite 53 1024 (fadd (f64_of_N cur) (f64_of_N batch)) = true /\
    (B2R 53 1024 (fadd (f64_of_N cur) (f64_of_N batch)) <= B2R 53 1024 thr * (1 + / 1099511627776))%R.
Proof.
  intros c base thr cold period l batch w' Fthr Hq Hcold Hperiod w H.
  destruct (wexec_WB_cases c w batch w' WOAdmit H) as (u & cur & EA & EN & EO); [discriminate|].
  exists cur. split; [exact EN|].
  destruct (reach_allowance c base thr cold period Fthr Hq Hcold Hperiod l u _ EA) as (Fa & _ & Hhi).
  set (sum := fadd (f64_of_N cur) (f64_of_N batch)) in *.
  destruct (flt (allowed_of u) sum) eqn:Ef; [discriminate|].
  destruct (fin sum) eqn:Fs.
  - split; [reflexivity|].
    pose proof (proj2 (flt_real _ _ Fa Fs) Ef). lra.
  - exfalso. pose proof (add_pos_inf _ _ (ofN_pos cur) (ofN_pos batch) Fs) as Ei. fold sum in Ei.
    rewrite Ei, (flt_fin_inf _ Fa) in Ef. discriminate.
Qed.

Lemma c08_admitted_within_threshold : forall c base thr cold period l batch w',
  is_finite 53 1024 thr = true -> (1 <= B2R 53 1024 thr <= 1073741824)%R ->
  (cold <= 1048576)%N -> (1 <= period <= 1048576)%N ->
  let w := fold_left (fun w x => fst (wexec c w x)) l (wworld0 c base thr cold period) in
  wexec c w (WB batch) = (w', WOAdmit) ->
  exists cur, node_sum c (ww_node w) (ww_now w) Pass = ROk cur /\
    (B2R 53 1024 (fadd (f64_of_N cur) (f64_of_N batch)) <= B2R 53 1024 thr * (1 + / 1099511627776))%R.
Proof.
  intros c base thr cold period l batch w' Fthr Hq Hcold Hperiod w H.
  destruct (c08_admitted_within_threshold_fin c base thr cold period l batch w' Fthr Hq Hcold Hperiod H)
    as (cur & A & _ & B).
  exists cur. split; assumption.
Qed.

(** an entry is rejected only when that sum exceeds about q/c (or overflowed to +infinity) *)
Lemma c08_blocked_only_above_cold_rate : forall c base thr cold period l batch w',
  is_finite 53 1024 thr = true -> (1 <= B2R 53 1024 thr <= 1073741824)%R ->
  (cold <= 1048576)%N -> (1 <= period <= 1048576)%N ->
  let w := fold_left (fun w x => fst (wexec c w x)) l (wworld0 c base thr cold period) in
  wexec c w (WB batch) = (w', WOBlock) ->
  exists cur, node_sum c (ww_node w) (ww_now w) Pass = ROk cur /\
    (is_finite 53 1024 (fadd (f64_of_N cur) (f64_of_N batch)) = true ->
     (B2R 53 1024 thr / IZR (Z.of_N (if (cold <=? 1)%N then 3%N else cold)) * (1 - / 1099511627776)
        < B2R 53 1024 (fadd (f64_of_N cur) (f64_of_N batch)))%R).
Proof.
  intros c base thr cold period l batch w' Fthr Hq Hcold Hperiod w H.
  destruct (wexec_WB_cases c w batch w' WOBlock H) as (u & cur & EA & EN & EO); [discriminate|].
  exists cur. split; [exact EN|]. intros Fs.
  destruct (reach_allowance c base thr cold period Fthr Hq Hcold Hperiod l u _ EA) as (Fa & Hlo & _).
  set (sum := fadd (f64_of_N cur) (f64_of_N batch)) in *.
  destruct (flt (allowed_of u) sum) eqn:Ef; [|discriminate].
  pose proof (proj1 (flt_real _ _ Fa Fs) Ef). lra.
Qed.

(** the only other way to be rejected: the sum overflowed to +infinity (never with counts and
    batches below 2^1023) *)
Lemma c08_blocked_sum_finite_or_inf : forall cur batch,
  is_finite 53 1024 (fadd (f64_of_N cur) (f64_of_N batch)) = false ->
  fadd (f64_of_N cur) (f64_of_N batch) = B754_infinity 53 1024 false.
Proof. intros cur batch. apply add_pos_inf; apply ofN_pos. Qed.

(** * Non-vacuity: a reachable state where a build is admitted, and one where it is rejected
    (threshold 100/s, cold factor 3, warm-up period 10 s, default configuration, clock at 20 s) *)

Definition adm_thr : f64 := f64_of_N 100.
Definition adm_hist_a : list wcmd := [WT; WB 1; WA 1000].
Definition adm_hist_b : list wcmd := [WT; WB 1; WA 1000; WB 20].
Definition adm_state (l : list wcmd) : wworld :=
  fold_left (fun w x => fst (wexec default_cfg w x)) l (wworld0 default_cfg 20000 adm_thr 3 10).

Definition adm_is_fin_val (x : f64) (s : bool) (m : positive) (e : Z) : bool :=
  match x with B754_finite _ _ s' m' e' _ => Bool.eqb s s' && Pos.eqb m m' && Z.eqb e e' | _ => false end.

Lemma adm_B2R_conc : forall x s m e, adm_is_fin_val x s m e = true ->
  B2R 53 1024 x = F2R (Float radix2 (cond_Zopp s (Zpos m)) e).
Proof.
  intros x s m e H. destruct x; try discriminate. unfold adm_is_fin_val in H.
  apply andb_prop in H. destruct H as [H H3]. apply andb_prop in H. destruct H as [H1 H2].
  apply Bool.eqb_prop in H1. apply Pos.eqb_eq in H2. apply Z.eqb_eq in H3. subst. reflexivity.
Qed.

Definition adm_parts (x : f64) : option (bool * positive * Z) :=
  match x with B754_finite _ _ s m e _ => Some (s, m, e) | _ => None end.

Lemma adm_thr_val : B2R 53 1024 adm_thr = 100%R.
Proof.
  let v := eval vm_compute in (adm_parts adm_thr) in
  match v with Some (?s, ?m, ?e) =>
    rewrite (adm_B2R_conc adm_thr s m e) by (vm_compute; reflexivity); unfold F2R; simpl end.
  lra.
Qed.

Example adm_admit_obs : snd (wexec default_cfg (adm_state adm_hist_a) (WB 20)) = WOAdmit.
Proof. vm_compute. reflexivity. Qed.

Example adm_block_obs : snd (wexec default_cfg (adm_state adm_hist_b) (WB 20)) = WOBlock.
Proof. vm_compute. reflexivity. Qed.

(** the admitted build saw 0 passes in the window and compared 0 + 20 = 20.0 with the allowance;
    the theorem bounds that sum by 100 (1 + 2^-40) *)
Example c08_admitted_within_threshold_instance :
  node_sum default_cfg (ww_node (adm_state adm_hist_a)) (ww_now (adm_state adm_hist_a)) Pass = ROk 0%N /\
  fbits (fadd (f64_of_N 0) (f64_of_N 20)) = fbits (f64_of_N 20) /\
  (B2R 53 1024 (fadd (f64_of_N 0) (f64_of_N 20)) <= 100 * (1 + / 1099511627776))%R.
Proof.
  split; [vm_compute; reflexivity|]. split; [vm_compute; reflexivity|].
  destruct (c08_admitted_within_threshold default_cfg 20000 adm_thr 3 10 adm_hist_a 20
              (fst (wexec default_cfg (adm_state adm_hist_a) (WB 20)))) as (cur & A & B).
  - vm_compute; reflexivity.
  - rewrite adm_thr_val. lra.
  - vm_compute; discriminate.
  - split; vm_compute; discriminate.
  - rewrite <- adm_admit_obs. apply surjective_pairing.
  - assert (ROk cur = ROk 0%N) as E by (rewrite <- A; vm_compute; reflexivity).
    inversion E; subst cur. rewrite adm_thr_val in B. exact B.
Qed.

(** the rejected build saw 20 passes and compared 20 + 20 = 40.0 with the allowance; the theorem
    places that sum above 100/3 (1 - 2^-40) *)
Example c08_blocked_only_above_cold_rate_instance :
  node_sum default_cfg (ww_node (adm_state adm_hist_b)) (ww_now (adm_state adm_hist_b)) Pass = ROk 20%N /\
  fbits (fadd (f64_of_N 20) (f64_of_N 20)) = fbits (f64_of_N 40) /\
  (100 / 3 * (1 - / 1099511627776) < B2R 53 1024 (fadd (f64_of_N 20) (f64_of_N 20)))%R.
Proof.
  split; [vm_compute; reflexivity|]. split; [vm_compute; reflexivity|].
  destruct (c08_blocked_only_above_cold_rate default_cfg 20000 adm_thr 3 10 adm_hist_b 20
              (fst (wexec default_cfg (adm_state adm_hist_b) (WB 20)))) as (cur & A & B).
  - vm_compute; reflexivity.
  - rewrite adm_thr_val. lra.
  - vm_compute; discriminate.
  - split; vm_compute; discriminate.
  - rewrite <- adm_block_obs. apply surjective_pairing.
  - assert (ROk cur = ROk 20%N) as E by (rewrite <- A; vm_compute; reflexivity).
    inversion E; subst cur. rewrite adm_thr_val in B.
    change (IZR (Z.of_N (if (3 <=? 1)%N then 3%N else 3%N))) with 3%R in B.
    apply B. vm_compute. reflexivity.
Qed.

Print Assumptions c08_admitted_within_threshold_fin.
Print Assumptions c08_admitted_within_threshold.
Print Assumptions c08_blocked_only_above_cold_rate.
Print Assumptions c08_blocked_only_above_cold_rate_instance.
