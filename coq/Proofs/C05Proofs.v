From SV Require Import Model.Base Model.LeapArray Model.World Spec.WorldSpec Spec.C01Spec Spec.C05Spec
  Proofs.WorldProofs.
From Coq Require Import ZifyBool ZifyN.
Open Scope N_scope.

(** the isolation slot, characterised *)
Lemma iso_slot_spec nd rules n :
  match iso_slot nd rules n with
  | SPass => forallb (fun rt : N * N => n_conc nd + n <=? snd rt) rules = true
  | SBlock bt r sn =>
      forallb (fun rt : N * N => n_conc nd + n <=? snd rt) rules = false /\ bt = 2 /\ sn = n_conc nd /\
      existsb (fun rt : N * N => (fst rt =? r) && (snd rt <? n_conc nd + n)) rules = true
  | SPanic => False
  end.
Proof.
  induction rules as [|[r t] tl IH]; simpl; auto.
  destruct (t <? n_conc nd + n) eqn:E.
  - assert (n_conc nd + n <=? t = false) as -> by lia. simpl.
    rewrite N.eqb_refl. simpl. auto.
  - assert (n_conc nd + n <=? t = true) as -> by lia. simpl.
    destruct (iso_slot nd tl n); auto.
    destruct IH as (H1 & H2 & H3 & H4). rewrite H4, orb_true_r. auto.
Qed.

(** worlds without flow rules; extra slots are not used in the C05 histories *)
Definition no_extra (x : cmd) : bool := match x with WB _ _ _ _ (Some _) => false | _ => true end.

Lemma c05_step rules w gh x :
  geom_ok (w_cfg w) -> iv (c_total (w_cfg w)) <= w_now w -> world_rel w gh ->
  ((forall res, w_flow w res = []) /\ w_iso w = rules) -> no_extra x = true ->
  forall w' o, exec w x = (w', o) ->
    chk_c05 rules gh x o = true /\ ((forall res, w_flow w' res = []) /\ w_iso w' = rules).
Proof.
  intros Hg Hiv Hrel [Hfl Hiso] Hne w' o Ex.
  pose proof (exec_rel w gh x Hg Hiv Hrel) as H. rewrite Ex in H.
  destruct H as (_ & _ & gh' & _ & _ & Hx).
  destruct x as [id res n inb extra|id|dt|res|]; cbn [chk_c05]; cbv zeta.
  - destruct extra; [discriminate|]. rewrite (Hfl res) in Hx. cbn [spec_flow_slot later map] in Hx.
    destruct Hx as (Ho & Hf1 & Hf2 & Hi).
    pose proof (iso_slot_spec (mkNode [] (g_fly gh res)) (w_iso w res) n) as Hs.
    cbn [n_conc] in Hs. rewrite Hiso in *.
    split.
    + destruct (iso_slot (mkNode [] (g_fly gh res)) (rules res) n) as [|bt r sn|]; subst o; cbn [later].
      * exact Hs.
      * destruct Hs as (H1 & -> & -> & H4). rewrite H1, H4, !N.eqb_refl. reflexivity.
      * contradiction.
    + split; [|congruence]. intros res'. destruct (N.eq_dec res' res) as [->|Hn].
      * rewrite Hf1. destruct (iso_slot _ _ _); cbn [later map]; auto.
      * rewrite Hf2; auto.
  - destruct Hx as [Hf Hi]. split; auto. rewrite Hf, Hi. auto.
  - destruct Hx as [Hf Hi]. split; auto. rewrite Hf, Hi. auto.
  - cbn [exec] in Ex. inversion Ex; subst. auto.
  - cbn [exec] in Ex. inversion Ex; subst. auto.
Qed.

Theorem c05_isolation_exact c base rules ops :
  geom_ok c -> iv (c_total c) <= base -> forallb no_extra ops = true ->
  ok_c05_iso rules base ops (run_typed (world0 c base (fun _ => []) rules) ops) = true.
Proof.
  intros Hg Hiv Hne. unfold ok_c05_iso.
  assert (Hstep : forall w gh x, geom_ok (w_cfg w) -> iv (c_total (w_cfg w)) <= w_now w -> world_rel w gh ->
     ((forall res, w_flow w res = []) /\ w_iso w = rules) -> no_extra x = true ->
     forall w' o, exec w x = (w', o) ->
       chk_c05 rules gh x o = true /\ ((forall res, w_flow w' res = []) /\ w_iso w' = rules)).
  { intros w gh x H1 H2 H3 H4 H5 w' o Ex. eapply c05_step; eauto. }
  assert (Hrel : world_rel (world0 c base (fun _ => []) rules) (ghost0 base)).
  { apply world_rel_init. intros res. constructor. }
  assert (HQ : Forall (fun x => no_extra x = true) ops).
  { apply Forall_forall. intros x Hx. rewrite forallb_forall in Hne. auto. }
  exact (ok_trace_holds _ _ _ Hstep ops (world0 c base (fun _ => []) rules) (ghost0 base) Hg Hiv Hrel (conj (fun _ => eq_refl) eq_refl) HQ).
Qed.

(** Consequence: with batch counts >= 1 the number of in-flight entries of a resource never
    exceeds any of its thresholds. *)
Definition batch_pos (x : cmd) : bool := match x with WB _ _ n _ _ => 1 <=? n | _ => true end.

Definition capped (rules : N -> list (N * N)) (gh : ghost) : Prop :=
  forall res r t, In (r, t) (rules res) -> g_fly gh res <= t.

Lemma c05_cap_step rules gh x o gh' :
  batch_pos x = true -> chk_c05 rules gh x o = true -> gh_step gh x o = Some gh' ->
  capped rules gh -> capped rules gh'.
Proof.
  intros Hb Hchk Hs Hcap. destruct x as [id res n inb extra|id|dt|res|]; destruct o; simpl in Hs; try discriminate.
  - inversion Hs; subst gh'. intros res' r t Hin. cbn [gh_admit g_fly].
    unfold set_fun. destruct (res' =? res) eqn:E.
    + apply N.eqb_eq in E; subst res'. simpl in Hchk, Hb. rewrite forallb_forall in Hchk.
      specialize (Hchk (r, t) Hin). simpl in Hchk. lia.
    + apply (Hcap res' r t Hin).
  - inversion Hs; subst gh'. intros res' r t Hin. cbn. apply (Hcap res' r t Hin).
  - destruct (find_entry id (g_open gh)) as [[e rest]|]; [|discriminate].
    inversion Hs; subst gh'. intros res' r t Hin. cbn [gh_exit g_fly].
    unfold set_fun. destruct (res' =? e_res e) eqn:E.
    + apply N.eqb_eq in E; subst res'. pose proof (Hcap _ r t Hin). lia.
    + apply (Hcap res' r t Hin).
  - destruct (find_entry id (g_open gh)); [discriminate|]. inversion Hs; subst; auto.
  - inversion Hs; subst gh'. intros res' r t Hin. cbn. apply (Hcap res' r t Hin).
  - inversion Hs; subst; auto.
  - inversion Hs; subst; auto.
Qed.

Lemma c05_cap_trace rules ops : forall gh outs gh',
  forallb batch_pos ops = true -> ok_trace (chk_c05 rules) gh ops outs = true ->
  ghost_after gh ops outs = Some gh' -> capped rules gh -> capped rules gh'.
Proof.
  induction ops as [|x tl IH]; intros gh outs gh' Hb Hok Hafter Hcap; destruct outs as [|o outs]; simpl in *; try discriminate.
  - inversion Hafter; subst; auto.
  - apply andb_prop in Hb. destruct Hb as [Hbx Hbt].
    destruct (gh_step gh x o) as [gh1|] eqn:Es; [|discriminate].
    apply andb_prop in Hok. destruct Hok as [Hc Hok].
    eapply IH; eauto. eapply c05_cap_step; eauto.
Qed.

Theorem c05_isolation_cap c base rules ops gh' :
  geom_ok c -> iv (c_total c) <= base -> forallb no_extra ops = true -> forallb batch_pos ops = true ->
  ghost_after (ghost0 base) ops (run_typed (world0 c base (fun _ => []) rules) ops) = Some gh' ->
  forall res r t, In (r, t) (rules res) -> g_fly gh' res <= t.
Proof.
  intros Hg Hiv Hne Hb Hafter.
  eapply c05_cap_trace; eauto.
  - apply c05_isolation_exact; auto.
  - intros res r t _. simpl. lia.
Qed.
