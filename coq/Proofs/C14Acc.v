(** C14: accounting of the event counters against the logs. *)
From SV Require Import Model.Base Model.LeapArray Model.World Model.Conc Spec.C14Spec.
From SV Require Import Proofs.C14Frame Proofs.C14Code Proofs.C14Inv Proofs.C14Logs.
From Coq Require Import Lia ZifyBool ZifyN.
Open Scope N_scope.

Definition tot (ev : mevent) (nd : node) : N := sum_get ev (n_slots nd).

Lemma sum_get_upd ev : forall l i sl sl', nth_error l i = Some sl ->
  sum_get ev (upd l i sl') + bget ev (snd sl) = sum_get ev l + bget ev (snd sl').
Proof.
  induction l as [|x tl IH]; intros [|i] sl sl' H; simpl in *; try discriminate.
  - inversion H; subst. lia.
  - specialize (IH _ _ sl' H). lia.
Qed.

Lemma tot_map_slot ev nd i f :
  match nth_error (n_slots nd) i with
  | Some sl => tot ev (map_slot nd i f) + bget ev (snd sl) = tot ev nd + bget ev (snd (f sl))
  | None => map_slot nd i f = nd
  end.
Proof.
  unfold map_slot, tot. destruct (nth_error (n_slots nd) i) eqn:E; auto.
  simpl. apply sum_get_upd; auto.
Qed.

Lemma bget_badd ev ev' n b : bget ev (badd ev' n b) = bget ev b + (if mevent_eqb ev' ev then n else 0).
Proof. destruct ev, ev'; simpl; lia. Qed.
Lemma bget_bconc ev c b : bget ev (bconc c b) = bget ev b.
Proof. destruct ev; reflexivity. Qed.
Lemma bget_bucket0 ev : bget ev bucket0 = 0.
Proof. destruct ev; reflexivity. Qed.

(** when the step is guaranteed not to lose anything *)
Definition econd (s : sel) (t : thr) (i : instr) (nd : node) : Prop :=
  match i with
  | IReset s0 => sel_eqb s0 s = true -> t_rst t = false
  | IAdd s0 _ _ | IAddRt s0 =>
      sel_eqb s0 s = true -> t_ok t = true /\ nth_error (n_slots nd) (slot_ix t) <> None
  | _ => True
  end.

Lemma tot_eff s ev t i nd :
  tot ev (node_eff t i s nd) <= tot ev nd + pendL s ev [i] (t_rt t) /\
  (econd s t i nd -> match i with IRt _ _ => True | _ => tot ev (node_eff t i s nd) = tot ev nd + pendL s ev [i] (t_rt t) end).
Proof.
  destruct i; cbn [node_eff econd pendL]; try (split; [lia|intros; lia]); try (split; [lia|auto]).
  - destruct (sel_eqb s0 s); unfold tot; simpl; split; intros; lia.
  - destruct (sel_eqb s0 s); unfold tot; simpl; split; intros; lia.
  - (* IBucket *)
    destruct (sel_eqb s0 s); [|split; intros; lia].
    destruct (nth_error (n_slots nd) (slot_ix t)) as [[s1 v]|] eqn:E; [|split; intros; lia].
    pose proof (tot_map_slot ev nd (slot_ix t) (bucket_fn t)) as Hm. rewrite E in Hm. simpl in Hm.
    destruct (s1 =? 0); [split; intros; lia|].
    destruct (s1 =? start G (t_now t)); [split; intros; lia|].
    destruct (s1 <? start G (t_now t)); split; intros; lia.
  - (* IReset *)
    destruct (sel_eqb s0 s); cbn [andb]; [|split; intros; lia].
    destruct (t_rst t); [|split; intros; lia].
    pose proof (tot_map_slot ev nd (slot_ix t) (fun sl => (fst sl, bucket0))) as Hm.
    destruct (nth_error (n_slots nd) (slot_ix t)) as [sl|] eqn:E.
    + cbn [fst snd] in Hm. rewrite bget_bucket0 in Hm. split; [lia|]. intros Hc. specialize (Hc eq_refl). discriminate.
    + rewrite Hm. split; intros; lia.
  - (* IMaxc *)
    destruct (sel_eqb s0 s); cbn [andb]; [|split; intros; lia].
    destruct (t_ok t); [|split; intros; lia].
    pose proof (tot_map_slot ev nd (slot_ix t) (fun sl => (fst sl, bconc (t_c t) (snd sl)))) as Hm.
    destruct (nth_error (n_slots nd) (slot_ix t)) as [sl|] eqn:E.
    + cbn [fst snd] in Hm. rewrite bget_bconc in Hm. split; intros; lia.
    + rewrite Hm. split; intros; lia.
  - (* IAdd *)
    destruct (sel_eqb s0 s); cbn [andb]; [|split; intros; lia].
    pose proof (tot_map_slot ev nd (slot_ix t) (fun sl => (fst sl, badd ev0 n (snd sl)))) as Hm.
    destruct (nth_error (n_slots nd) (slot_ix t)) as [sl|] eqn:E.
    + cbn [fst snd] in Hm. rewrite bget_badd in Hm.
      destruct (t_ok t); [split; intros; lia|].
      split; [lia|]. intros Hc. destruct (Hc eq_refl). discriminate.
    + split; [destruct (t_ok t); try rewrite Hm; lia|].
      intros Hc. destruct (Hc eq_refl) as [_ Hc2]. congruence.
  - (* IAddRt *)
    destruct (sel_eqb s0 s); cbn [andb]; [|split; intros; lia].
    pose proof (tot_map_slot ev nd (slot_ix t) (fun sl => (fst sl, badd Rt (t_rt t) (snd sl)))) as Hm.
    destruct (nth_error (n_slots nd) (slot_ix t)) as [sl|] eqn:E.
    + cbn [fst snd] in Hm. rewrite bget_badd in Hm.
      destruct (t_ok t); [split; intros; lia|].
      split; [lia|]. intros Hc. destruct (Hc eq_refl). discriminate.
    + split; [destruct (t_ok t); try rewrite Hm; lia|].
      intros Hc. destruct (Hc eq_refl) as [_ Hc2]. congruence.
Qed.

(** * what the logs say was recorded *)
Definition sb (s : sel) (l : list (N * nat * N * bool)) : N :=
  sumN (map (fun x => if sel_in s (snd x) then snd (fst x) else 0) l).
Definition sxb (s : sel) (l : list (N * N * bool * N)) : N :=
  sumN (map (fun x => if sel_in s (snd (fst x)) then snd (fst (fst x)) else 0) l).
Definition sxr (s : sel) (l : list (N * N * bool * N)) : N :=
  sumN (map (fun x => if sel_in s (snd (fst x)) then snd x else 0) l).

Definition logR (s : sel) (ev : mevent) (st : cstate) : N :=
  match ev with
  | Pass => sb s (c_seen st)
  | Complete => sxb s (c_exits st)
  | Rt => sxr s (c_exits st)
  | _ => 0
  end.

Lemma sumN_map_app {A} (f : A -> N) l x : sumN (map f (l ++ [x])) = sumN (map f l) + f x.
Proof. induction l as [|h tl IH]; simpl; [lia|]. rewrite IH. lia. Qed.

Definition ev3 (ev : mevent) : Prop := ev = Pass \/ ev = Complete \/ ev = Rt.

Lemma pendL_indep s ev code rt rt' : mevent_eqb Rt ev = false -> pendL s ev code rt = pendL s ev code rt'.
Proof.
  intros He. induction code as [|i tl IH]; cbn [pendL]; auto.
  destruct i; auto; rewrite ?He, ?andb_false_r; try rewrite IH; auto.
Qed.

(** the local step: [d] is what an exit adds to both sides of the round-trip account *)
Lemma acc_local s ev tid st t i tl st' t' p :
  ev3 ev -> mapok st -> t_node t = 0%nat -> (touches i = true -> c_map st = Some 0%nat) ->
  balanced (i :: tl) (length (t_starts t)) = true -> rtok s (i :: tl) ->
  exec false tid st t i = (st', t', p) ->
  exists d,
    logR s ev st' + pendR s ev tl = logR s ev st + pendR s ev (i :: tl) + d /\
    tot ev (gnode st' s) + pendL s ev tl (t_rt t') <= tot ev (gnode st s) + pendL s ev (i :: tl) (t_rt t) + d /\
    (econd s t i (gnode st s) ->
     tot ev (gnode st' s) + pendL s ev tl (t_rt t') = tot ev (gnode st s) + pendL s ev (i :: tl) (t_rt t) + d).
Proof.
  intros Hev Hm Hn Htch Hb Hr H.
  pose proof (exec_gnode _ _ _ _ _ _ _ s Hm Hn Htch H) as Hg.
  pose proof (exec_seen _ _ _ _ _ _ _ _ H) as Hs.
  pose proof (exec_exits _ _ _ _ _ _ _ _ H) as Hx.
  destruct (tot_eff s ev t i (gnode st s)) as [Hle Heq].
  rewrite Hg.
  destruct i; try (destruct Hx as [Hx Hrt]; rewrite Hrt).
  15: {
    (* IRt *)
    simpl in Hb. destruct (t_starts t) as [|s0 rest]; [discriminate|]. destruct Hx as [Hx Hrt].
    destruct Hr as [Hr _]. rewrite Hrt. cbn [node_eff pendL pendR].
    unfold logR. rewrite Hx, Hs. unfold sxb, sxr. rewrite !sumN_map_app. cbn [fst snd].
    destruct Hev as [->|[->| ->]]; cbn [mevent_eqb andb].
    - rewrite (pendL_indep s Pass tl (c_now st - s0) (t_rt t)) by reflexivity.
      exists 0. split; [lia|]. split; intros; lia.
    - rewrite (pendL_indep s Complete tl (c_now st - s0) (t_rt t)) by reflexivity.
      exists 0. split; [lia|]. split; intros; lia.
    - rewrite Hr. exists (if sel_in s inb then c_now st - s0 else 0). split; [lia|]. split; intros; lia. }
  4: {
    (* ISeen *)
    exists 0. unfold logR. rewrite Hx, Hs. unfold sb. rewrite sumN_map_app. cbn [fst snd node_eff pendL pendR].
    destruct Hev as [->|[->| ->]]; cbn [mevent_eqb andb]; (split; [lia|]); split; intros; lia. }
  all: exists 0; unfold logR; rewrite Hx, Hs;
    (split; [cbn [pendR]; lia|]);
    cbn [pendL] in *; (split; [lia|]); intros Hc; specialize (Heq Hc); lia.
Qed.

Definition Lg (s : sel) (ev : mevent) (st : cstate) (ths : list thr) : N :=
  tot ev (gnode st s) + sumf (fun t => pendL s ev (t_code t) (t_rt t)) ths.
Definition Rg (s : sel) (ev : mevent) (st : cstate) (ths : list thr) : N :=
  logR s ev st + sumf (fun t => pendR s ev (t_code t)) ths.

Lemma acc_step s ev st ths tid t i tl st' t' p :
  ev3 ev -> J1 st ths -> nth_error ths tid = Some t -> t_code t = i :: tl ->
  exec false (N.of_nat tid) st (set_code t tl false) i = (st', t', p) ->
  exists d,
    Rg s ev st' (upd ths tid t') = Rg s ev st ths + d /\
    Lg s ev st' (upd ths tid t') <= Lg s ev st ths + d /\
    (econd s (set_code t tl false) i (gnode st s) -> Lg s ev st' (upd ths tid t') = Lg s ev st ths + d).
Proof.
  intros Hev HJ Hn Hc H.
  destruct (J1_facts _ _ _ _ _ _ HJ Hn Hc) as (Hm & Hn0 & Htch & Hb & Hr1 & Hr2).
  assert (Hr : rtok s (i :: tl)) by (destruct s; auto).
  pose proof (exec_code _ _ _ _ _ _ _ _ H) as [Hc' _]. simpl in Hc'.
  destruct (acc_local s ev _ _ (set_code t tl false) _ tl _ _ _ Hev Hm Hn0 Htch Hb Hr H) as (d & HR & HL & HE).
  exists d. unfold Lg, Rg.
  pose proof (sumf_upd (fun t => pendL s ev (t_code t) (t_rt t)) _ _ _ t' Hn) as HsL.
  pose proof (sumf_upd (fun t => pendR s ev (t_code t)) _ _ _ t' Hn) as HsR.
  cbn beta in HsL, HsR. rewrite Hc, Hc' in HsL, HsR.
  change (t_rt (set_code t tl false)) with (t_rt t) in *.
  split; [lia|]. split; [lia|]. intros Hcnd. specialize (HE Hcnd). lia.
Qed.

Definition acc_le (s : sel) (ev : mevent) (pre : N) (st : cstate) (ths : list thr) : Prop :=
  Lg s ev st ths <= pre + Rg s ev st ths.
Definition acc_eq (s : sel) (ev : mevent) (pre : N) (st : cstate) (ths : list thr) : Prop :=
  Lg s ev st ths = pre + Rg s ev st ths.

Lemma acc_le_exec s ev pre st ths tid t i tl st' t' p :
  ev3 ev -> J1 st ths -> acc_le s ev pre st ths -> nth_error ths tid = Some t -> t_code t = i :: tl ->
  exec false (N.of_nat tid) st (set_code t tl false) i = (st', t', p) ->
  acc_le s ev pre st' (upd ths tid t').
Proof.
  intros Hev HJ HA Hn Hc H. destruct (acc_step s ev _ _ _ _ _ _ _ _ _ Hev HJ Hn Hc H) as (d & HR & HL & _).
  unfold acc_le in *. lia.
Qed.

Lemma acc_eq_exec s ev pre st ths tid t i tl st' t' p :
  ev3 ev -> J1 st ths -> acc_eq s ev pre st ths -> nth_error ths tid = Some t -> t_code t = i :: tl ->
  exec false (N.of_nat tid) st (set_code t tl false) i = (st', t', p) ->
  econd s (set_code t tl false) i (gnode st s) ->
  acc_eq s ev pre st' (upd ths tid t').
Proof.
  intros Hev HJ HA Hn Hc H Hcnd. destruct (acc_step s ev _ _ _ _ _ _ _ _ _ Hev HJ Hn Hc H) as (d & HR & _ & HE).
  specialize (HE Hcnd). unfold acc_eq in *. lia.
Qed.

Lemma LR_done s ev st ths tid t :
  nth_error ths tid = Some t -> t_code t = [] ->
  Lg s ev st (upd ths tid (set_code t [] true)) = Lg s ev st ths /\
  Rg s ev st (upd ths tid (set_code t [] true)) = Rg s ev st ths.
Proof.
  intros Hn Hc. unfold Lg, Rg.
  pose proof (sumf_upd (fun t => pendL s ev (t_code t) (t_rt t)) _ _ _ (set_code t [] true) Hn) as HsL.
  pose proof (sumf_upd (fun t => pendR s ev (t_code t)) _ _ _ (set_code t [] true) Hn) as HsR.
  cbn beta in HsL, HsR. rewrite Hc in HsL, HsR. simpl in HsL, HsR. lia.
Qed.
