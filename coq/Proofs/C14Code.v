(** C14: scan functions over thread code and what [compile] guarantees about them. *)
From SV Require Import Model.Base Model.LeapArray Model.World Model.Conc Spec.C14Spec.
From Coq Require Import Lia ZifyBool ZifyN.
Open Scope N_scope.

Definition sel_eqb (a b : sel) : bool :=
  match a, b with SRes, SRes | SInb, SInb => true | _, _ => false end.
Lemma sel_eqb_spec a b : reflect (a = b) (sel_eqb a b).
Proof. destruct a, b; simpl; constructor; congruence. Qed.
Lemma sel_eqb_refl a : sel_eqb a a = true.
Proof. destruct a; auto. Qed.

Definition sel_in (s : sel) (inb : bool) : bool := match s with SRes => true | SInb => inb end.

(** instructions that read or write the resource's node (or log the entry) *)
Definition touches (i : instr) : bool :=
  match i with
  | ISeen _ _ => true
  | IInc SRes | IDec SRes | IBucket SRes | IReset SRes | IMaxc SRes | IAdd SRes _ _ | IAddRt SRes => true
  | _ => false
  end.

Fixpoint nsafe (code : list instr) (miss : bool) : bool :=
  match code with
  | [] => true
  | ILookup :: tl => nsafe tl true
  | IInsert :: tl => miss || nsafe tl miss
  | i :: tl => negb (touches i) && nsafe tl miss
  end.

Fixpoint balanced (code : list instr) (n : nat) : bool :=
  match code with
  | [] => true
  | IStart :: tl => balanced tl (S n)
  | IRt _ _ :: tl => match n with O => false | S m => balanced tl m end
  | _ :: tl => balanced tl n
  end.

Fixpoint pend_b (code : list instr) : list (N * bool) :=
  match code with
  | [] => []
  | ISeen b i :: tl => (b, i) :: pend_b tl
  | _ :: tl => pend_b tl
  end.
Fixpoint pend_x (code : list instr) : list (N * bool) :=
  match code with
  | [] => []
  | IRt b i :: tl => (b, i) :: pend_x tl
  | _ :: tl => pend_x tl
  end.

(** in-flight: increments / decrements of selector [s] *)
Fixpoint cover (s : sel) (code : list instr) (h : N) : bool :=
  match code with
  | [] => true
  | IInc s' :: tl => cover s tl (if sel_eqb s' s then h + 1 else h)
  | IDec s' :: tl => if sel_eqb s' s then (0 <? h) && cover s tl (h - 1) else cover s tl h
  | _ :: tl => cover s tl h
  end.

Fixpoint cntI (s : sel) (code : list instr) : N :=
  match code with
  | [] => 0
  | IInc s' :: tl => (if sel_eqb s' s then 1 else 0) + cntI s tl
  | _ :: tl => cntI s tl
  end.
Fixpoint cntD (s : sel) (code : list instr) : N :=
  match code with
  | [] => 0
  | IDec s' :: tl => (if sel_eqb s' s then 1 else 0) + cntD s tl
  | _ :: tl => cntD s tl
  end.
Fixpoint cntS (s : sel) (code : list instr) : N :=
  match code with
  | [] => 0
  | ISeen _ inb :: tl => (if sel_in s inb then 1 else 0) + cntS s tl
  | _ :: tl => cntS s tl
  end.
Fixpoint cntR (s : sel) (code : list instr) : N :=
  match code with
  | [] => 0
  | IRt _ inb :: tl => (if sel_in s inb then 1 else 0) + cntR s tl
  | _ :: tl => cntR s tl
  end.

(** accounting: what the remaining code will still add to event [ev] of node [s] ... *)
Fixpoint pendL (s : sel) (ev : mevent) (code : list instr) (rt : N) : N :=
  match code with
  | [] => 0
  | IAdd s' ev' n :: tl => (if sel_eqb s' s && mevent_eqb ev' ev then n else 0) + pendL s ev tl rt
  | IAddRt s' :: tl => (if sel_eqb s' s && mevent_eqb Rt ev then rt else 0) + pendL s ev tl rt
  | IRt _ _ :: tl => if mevent_eqb Rt ev then 0 else pendL s ev tl rt
  | _ :: tl => pendL s ev tl rt
  end.
(** ... and what it will still log *)
Fixpoint pendR (s : sel) (ev : mevent) (code : list instr) : N :=
  match code with
  | [] => 0
  | ISeen b inb :: tl => (if mevent_eqb Pass ev && sel_in s inb then b else 0) + pendR s ev tl
  | IRt b inb :: tl => (if mevent_eqb Complete ev && sel_in s inb then b else 0) + pendR s ev tl
  | _ :: tl => pendR s ev tl
  end.

Fixpoint rtok (s : sel) (code : list instr) : Prop :=
  match code with
  | [] => True
  | IRt b inb :: tl => (forall rt, pendL s Rt tl rt = if sel_in s inb then rt else 0) /\ rtok s tl
  | _ :: tl => rtok s tl
  end.

(** a use of the bucket of [s] comes before the next lookup of it *)
Fixpoint needs (s : sel) (code : list instr) : bool :=
  match code with
  | [] => false
  | IBucket s' :: tl => if sel_eqb s' s then false else needs s tl
  | IAdd s' _ _ :: tl => if sel_eqb s' s then true else needs s tl
  | IAddRt s' :: tl => if sel_eqb s' s then true else needs s tl
  | IMaxc s' :: tl => if sel_eqb s' s then true else needs s tl
  | _ :: tl => needs s tl
  end.

(** * compile *)
Ltac comp_tac IH :=
  match goal with
  | |- forall ops, _ => 
      induction ops as [|[b inb|] tl IH]; intros; [reflexivity| |]
  end.

Lemma nsafe_compile : forall ops m, nsafe (compile ops []) m = true.
Proof.
  induction ops as [|[b inb|] tl IH]; intros m; [reflexivity| |].
  - reflexivity.
  - simpl. apply IH.
Qed.

Lemma balanced_compile : forall ops open, balanced (compile ops open) (length open) = true.
Proof.
  induction ops as [|[b inb|] tl IH]; intros open; [reflexivity| |].
  - destruct inb; simpl; apply (IH ((b, _) :: open)).
  - destruct open as [|[b inb] open']; [apply IH|].
    destruct inb; simpl; apply IH.
Qed.

Lemma pend_b_compile : forall ops open, pend_b (compile ops open) = prog_builds ops.
Proof.
  induction ops as [|[b inb|] tl IH]; intros open; [reflexivity| |].
  - destruct inb; simpl; f_equal; apply IH.
  - destruct open as [|[b inb] open']; [apply IH|].
    destruct inb; simpl; apply IH.
Qed.

Lemma pend_x_compile : forall ops open, pend_x (compile ops open) = prog_exits ops open.
Proof.
  induction ops as [|[b inb|] tl IH]; intros open; [reflexivity| |].
  - destruct inb; simpl; apply IH.
  - destruct open as [|[b inb] open']; [apply IH|].
    destruct inb; simpl; f_equal; apply IH.
Qed.

Definition hopen (s : sel) (open : list (N * bool)) : N :=
  N.of_nat (length (filter (fun x => sel_in s (snd x)) open)).

Lemma hopen_cons s b inb open :
  hopen s ((b, inb) :: open) = hopen s open + (if sel_in s inb then 1 else 0).
Proof. unfold hopen. simpl. destruct (sel_in s inb); simpl; lia. Qed.

Lemma cover_compile s : forall ops open, cover s (compile ops open) (hopen s open) = true.
Proof.
  induction ops as [|[b inb|] tl IH]; intros open; [reflexivity| |].
  - specialize (IH ((b, inb) :: open)). rewrite hopen_cons in IH.
    generalize dependent (hopen s open). intros h IH.
    destruct inb, s; simpl in *; auto; replace (h + 0) with h in IH by lia; auto.
  - destruct open as [|[b inb] open']; [apply IH|].
    specialize (IH open'). rewrite hopen_cons.
    generalize dependent (hopen s open'). intros h IH.
    destruct inb, s; simpl in *; auto;
      try (replace (h + 0) with h by lia; auto);
      (replace (0 <? h + 1) with true by lia); (replace (h + 1 - 1) with h by lia); auto.
Qed.

Lemma cnt_compile s : forall ops open,
  cntI s (compile ops open) + cntR s (compile ops open) = cntS s (compile ops open) + cntD s (compile ops open).
Proof.
  induction ops as [|[b inb|] tl IH]; intros open; [reflexivity| |].
  - specialize (IH ((b, inb) :: open)). destruct inb, s; simpl in *; lia.
  - destruct open as [|[b inb] open']; [apply IH|].
    specialize (IH open'). destruct inb, s; simpl in *; lia.
Qed.

Lemma pendL_rt_compile s : forall ops open rt, pendL s Rt (compile ops open) rt = 0.
Proof.
  induction ops as [|[b inb|] tl IH]; intros open rt; [reflexivity| |].
  - specialize (IH ((b, inb) :: open) rt). destruct inb, s; simpl in *; lia.
  - destruct open as [|[b inb] open']; [apply IH|]. reflexivity.
Qed.

Lemma pend_compile s ev : ev = Pass \/ ev = Complete -> forall ops open rt,
  pendL s ev (compile ops open) rt = pendR s ev (compile ops open).
Proof.
  intros Hev. induction ops as [|[b inb|] tl IH]; intros open rt; [reflexivity| |].
  - specialize (IH ((b, inb) :: open) rt). destruct Hev; subst ev; destruct inb, s; simpl in *; lia.
  - destruct open as [|[b inb] open']; [apply IH|].
    specialize (IH open' rt). destruct Hev; subst ev; destruct inb, s; simpl in *; lia.
Qed.

Lemma pendR_rt s code : pendR s Rt code = 0.
Proof. induction code as [|i tl IH]; simpl; auto. destruct i; simpl; auto. Qed.

Lemma rtok_compile s : forall ops open, rtok s (compile ops open).
Proof.
  induction ops as [|[b inb|] tl IH]; intros open; [exact I| |].
  - specialize (IH ((b, inb) :: open)). destruct inb, s; simpl in *; auto.
  - destruct open as [|[b inb] open']; [apply IH|].
    specialize (IH open'). pose proof (pendL_rt_compile s tl open') as Hz.
    destruct inb, s; simpl in *; (split; [intros rt; rewrite Hz; lia|auto]).
Qed.

Lemma rtok_tl s i tl : rtok s (i :: tl) -> rtok s tl.
Proof. destruct i; simpl; tauto. Qed.

Lemma needs_compile s : forall ops open, needs s (compile ops open) = false.
Proof.
  induction ops as [|[b inb|] tl IH]; intros open; [reflexivity| |].
  - specialize (IH ((b, inb) :: open)). destruct inb, s; simpl in *; auto.
  - destruct open as [|[b inb] open']; [apply IH|].
    specialize (IH open'). destruct inb, s; simpl in *; auto.
Qed.

