(** C14: the invariant of a whole run. *)
From SV Require Import Model.Base Model.LeapArray Model.World Model.Conc Spec.C14Spec.
From SV Require Import Proofs.C14Frame Proofs.C14Code Proofs.C14Inv Proofs.C14Logs Proofs.C14Conc Proofs.C14Acc
  Proofs.C14Calm Proofs.C14Warm Proofs.C14Obs.
From Coq Require Import Lia ZifyBool ZifyN.
Open Scope N_scope.

(** * buckets *)
Lemma start_div x : start G x = 500 * (x / 500).
Proof. unfold start. change (bl G) with 500. pose proof (N.div_mod x 500). lia. Qed.

Lemma same_bucket lo hi x : start G lo = start G hi -> lo <= x <= hi ->
  start G x = start G lo /\ N.to_nat (idx G x) = N.to_nat (idx G lo).
Proof.
  intros H Hx. rewrite !start_div in *.
  assert (lo / 500 <= x / 500) by (apply N.div_le_mono; lia).
  assert (x / 500 <= hi / 500) by (apply N.div_le_mono; lia).
  assert (E : x / 500 = lo / 500) by lia.
  split; [lia|]. unfold idx. change (bl G) with 500. rewrite E. reflexivity.
Qed.

(** * the state before the threads start *)
Definition init_explicit (base mode : N) : cstate :=
  if mode =? 0 then mkCS base [wnode (base - 60000)] (Some 0%nat) (wnode (base - 60000)) [] []
  else if mode =? 2 then mkCS base [wnode base] (Some 0%nat) (wnode base) [] []
  else cstate0 base.

Lemma init_eq base mode : 100000 <= base -> init_state false base mode = init_explicit base mode.
Proof.
  intros Hb. unfold init_state, init_explicit.
  rewrite (warm_eq (base - 60000)) by lia. rewrite (warm_eq base) by lia.
  destruct (mode =? 0); [reflexivity|]. destruct (mode =? 2); reflexivity.
Qed.

Lemma tot_wnode X ev : tot ev (wnode X) = bget ev wbucket.
Proof.
  unfold tot, wnode. cbn [n_slots].
  pose proof (sum_get_upd ev (ring0 G) _ _ (start G X, wbucket) (ring0_nth _ (idx_lt X))) as H.
  cbn [snd] in H. rewrite bget_bucket0 in H.
  pose proof (tot_fresh ev) as Hf. change (tot ev fresh) with (sum_get ev (ring0 G)) in Hf. lia.
Qed.

Lemma shape_fresh B ix : shape B ix fresh.
Proof.
  split; [reflexivity|]. intros j sl Hj. left.
  change (n_slots fresh) with (ring0 G) in Hj.
  exact (nth_error_repeat _ _ _ _ Hj).
Qed.

Lemma shape_wnode X : shape (start G X) (N.to_nat (idx G X)) (wnode X).
Proof.
  split.
  - unfold wnode. cbn [n_slots]. rewrite length_upd. reflexivity.
  - intros j sl Hj. unfold wnode in Hj. cbn [n_slots] in Hj.
    apply nth_upd_cases in Hj as [[<- ->]|[Hne Hj]]; [right; auto|left].
    exact (nth_error_repeat _ _ _ _ Hj).
Qed.

Section Main.
Variables (base mode : N) (progs : list (list top)) (steps : list (nat * N)).
Hypothesis Hbase : 100000 <= base.

Definition wantb (tid : nat) : list (N * bool) := prog_builds (nth tid progs []).
Definition wantx (tid : nat) : list (N * bool) := prog_exits (nth tid progs []) [].
Definition pre (ev : mevent) : N := if mode =? 1 then 0 else match ev with Rt => 0 | _ => 1 end.
Definition pre2 (ev : mevent) : N := if mode =? 2 then match ev with Rt => 0 | _ => 1 end else 0.
Definition hi : N := base + total_dt steps.
Definition BB : N := start G base.
Definition ixx : nat := N.to_nat (idx G base).
Definition iscalm : bool := calm base mode steps.

Definition done_ok (ths : list thr) : Prop :=
  forall tid t, nth_error ths tid = Some t -> t_done t = true -> t_code t = [].

Definition Inv (r : N) (st : cstate) (ths : list thr) : Prop :=
  J1 st ths /\ length ths = length progs /\ done_ok ths /\
  logs_ok wantb wantx st ths /\ (forall s, conc_ok s st ths) /\
  (forall s ev, ev3 ev -> acc_le s ev (pre ev) st ths) /\
  (iscalm = true -> Ecalm BB ixx base hi r st ths /\ forall s ev, ev3 ev -> acc_eq s ev (pre2 ev) st ths).

Lemma BB_pos : BB <> 0.
Proof. unfold BB. pose proof (start_pos base). lia. Qed.
Lemma ixx_lt : (ixx < 20)%nat.
Proof. apply idx_lt. Qed.
Lemma range_ok : iscalm = true -> forall x, base <= x <= hi -> start G x = BB /\ N.to_nat (idx G x) = ixx.
Proof.
  unfold iscalm, calm. intros Hc x Hx. apply andb_prop in Hc. destruct Hc as [_ Hc].
  apply N.eqb_eq in Hc. apply (same_bucket base hi x); auto.
Qed.

Lemma Inv_exec r st ths tid t i tl st' t' p :
  Inv r st ths -> nth_error ths tid = Some t -> t_done t = false -> t_code t = i :: tl ->
  exec false (N.of_nat tid) st (set_code t tl false) i = (st', t', p) ->
  Inv r st' (upd ths tid t').
Proof.
  intros (HJ & Hlen & Hdn & Hlg & Hcn & Hle & Hcalm) Hn Hd Hc H.
  pose proof (exec_code _ _ _ _ _ _ _ _ H) as [_ Hd']. simpl in Hd'.
  split; [eapply J1_exec; eauto|]. split; [rewrite length_upd; auto|].
  split.
  { intros tid2 t2 Hn2 Hd2. apply nth_upd_cases in Hn2 as [[<- ->]|[Hne Hn2]]; [congruence|eauto]. }
  split; [eapply logs_exec; eauto|]. split; [intros s; eapply conc_exec; eauto|].
  split; [intros s ev Hev; eapply acc_le_exec; eauto|].
  intros Hcm. destruct (Hcalm Hcm) as [HE Heq].
  destruct (Ecalm_exec BB ixx base hi BB_pos ixx_lt (range_ok Hcm) _ _ _ _ _ _ _ _ _ _ HJ HE Hn Hc H) as [HE' Hcnd].
  split; auto. intros s ev Hev. eapply acc_eq_exec; eauto.
Qed.

Lemma Inv_done r st ths tid t :
  Inv r st ths -> nth_error ths tid = Some t -> t_done t = false -> t_code t = [] ->
  Inv r st (upd ths tid (set_code t [] true)).
Proof.
  intros (HJ & Hlen & Hdn & Hlg & Hcn & Hle & Hcalm) Hn Hd Hc.
  split; [eapply J1_done; eauto|]. split; [rewrite length_upd; auto|].
  split.
  { intros tid2 t2 Hn2 Hd2. apply nth_upd_cases in Hn2 as [[<- ->]|[Hne Hn2]]; [reflexivity|eauto]. }
  split; [eapply logs_done; eauto|]. split; [intros s; eapply conc_done; eauto|].
  split.
  { intros s ev Hev. specialize (Hle s ev Hev). unfold acc_le in *.
    destruct (LR_done s ev st ths tid t Hn Hc) as [-> ->]. exact Hle. }
  intros Hcm. destruct (Hcalm Hcm) as [HE Heq]. split.
  - eapply Ecalm_done; eauto.
  - intros s ev Hev. specialize (Heq s ev Hev). unfold acc_eq in *.
    destruct (LR_done s ev st ths tid t Hn Hc) as [-> ->]. exact Heq.
Qed.

Lemma Inv_adv r st ths dt : Inv (dt + r) st ths -> Inv r (advance st dt) ths.
Proof.
  intros (HJ & Hlen & Hdn & Hlg & Hcn & Hle & Hcalm).
  split; [exact HJ|]. split; auto. split; auto. split; [exact Hlg|]. split; [exact Hcn|].
  split; [exact Hle|].
  intros Hcm. destruct (Hcalm Hcm) as [HE Heq]. split; [|exact Heq].
  apply Ecalm_adv; auto.
  - apply BB_pos.
  - apply ixx_lt.
  - apply range_ok; auto.
Qed.

(** * the invariant holds initially *)
Definition ths0 : list thr := map (fun p => thr0 (compile p []) base) progs.

Lemma ths0_nth tid t : nth_error ths0 tid = Some t ->
  exists p, nth_error progs tid = Some p /\ t = thr0 (compile p []) base.
Proof.
  unfold ths0. rewrite nth_error_map. destruct (nth_error progs tid) as [p|]; simpl; intros H; inversion H.
  eauto.
Qed.

Lemma ths0_in t : In t ths0 -> exists p, t = thr0 (compile p []) base.
Proof. unfold ths0. intros H. apply in_map_iff in H as (p & <- & _). eauto. Qed.

Lemma sumf_add2 f g h k ths :
  (forall t, In t ths -> f t + g t = h t + k t) -> sumf f ths + sumf g ths = sumf h ths + sumf k ths.
Proof.
  induction ths as [|t tl IH]; intros H; simpl; [lia|].
  assert (f t + g t = h t + k t) by (apply H; left; auto).
  assert (sumf f tl + sumf g tl = sumf h tl + sumf k tl) by (apply IH; intros; apply H; right; auto).
  lia.
Qed.

Lemma sumf_zero f ths : (forall t, In t ths -> f t = 0) -> sumf f ths = 0.
Proof.
  induction ths as [|t tl IH]; intros H; simpl; [lia|].
  rewrite (H t (or_introl eq_refl)), IH; [lia|]. intros; apply H; right; auto.
Qed.

Lemma sumN_zeros {A} (l : list A) : sumN (map (fun _ => 0) l) = 0.
Proof. induction l; simpl; auto. Qed.

Lemma bget_wbucket ev : ev3 ev -> bget ev wbucket = match ev with Rt => 0 | _ => 1 end.
Proof. intros [->|[->| ->]]; reflexivity. Qed.

Lemma init_facts :
  let st0 := init_explicit base mode in
  c_now st0 = base /\ c_seen st0 = [] /\ c_exits st0 = [] /\
  (forall s, n_conc (gnode st0 s) = 0) /\
  (forall s ev, ev3 ev -> tot ev (gnode st0 s) <= pre ev) /\
  (iscalm = true -> forall s, shape BB ixx (gnode st0 s) /\ forall ev, ev3 ev -> tot ev (gnode st0 s) = pre2 ev).
Proof.
  unfold init_explicit, pre, pre2, iscalm, calm.
  destruct (mode =? 0) eqn:E0; [|destruct (mode =? 2) eqn:E2].
  - replace (mode =? 1) with false by lia.
    split; [reflexivity|]. split; [reflexivity|]. split; [reflexivity|].
    split; [intros []; reflexivity|]. split.
    + intros [] ev Hev; simpl gnode; rewrite tot_wnode, (bget_wbucket ev Hev); lia.
    + simpl. discriminate.
  - replace (mode =? 1) with false by lia.
    split; [reflexivity|]. split; [reflexivity|]. split; [reflexivity|].
    split; [intros []; reflexivity|]. split.
    + intros [] ev Hev; simpl gnode; rewrite tot_wnode, (bget_wbucket ev Hev); lia.
    + intros _ s. split.
      * destruct s; simpl gnode; apply (shape_wnode base).
      * intros ev Hev. destruct s; simpl gnode; rewrite tot_wnode, (bget_wbucket ev Hev); reflexivity.
  - split; [reflexivity|]. split; [reflexivity|]. split; [reflexivity|].
    split; [intros []; reflexivity|]. split.
    + intros [] ev Hev; simpl gnode; change (fresh_node default_cfg) with fresh; rewrite tot_fresh; lia.
    + intros _ s. split.
      * destruct s; simpl gnode; apply shape_fresh.
      * intros ev Hev. destruct s; simpl gnode; change (fresh_node default_cfg) with fresh; rewrite tot_fresh; reflexivity.
Qed.

Lemma Inv_init : Inv (total_dt steps) (init_state false base mode) ths0.
Proof.
  pose proof (J1_init base mode progs) as HJ. fold ths0 in HJ.
  rewrite (init_eq base mode Hbase) in *.
  destruct init_facts as (Hnow & Hseen & Hexits & Hconc & Hle & Hcalm).
  set (st0 := init_explicit base mode) in *.
  split; [exact HJ|]. split; [unfold ths0; apply map_length|].
  split. { intros tid t Hn Hd. apply ths0_nth in Hn as (p & _ & ->). discriminate. }
  split.
  { intros tid t Hn. apply ths0_nth in Hn as (p & Hp & ->).
    unfold blog, xlog, exits_of, wantb, wantx. rewrite Hseen, Hexits. simpl.
    rewrite (nth_error_nth _ _ _ Hp). rewrite pend_b_compile, pend_x_compile. auto. }
  split.
  { intros s. split.
    - exists (map (fun _ => 0) ths0). rewrite map_length. split; auto. split.
      + rewrite Hconc. apply sumN_zeros.
      + intros tid t h Hn Hh. apply ths0_nth in Hn as (p & Hp & ->).
        rewrite nth_error_map in Hh. destruct (nth_error ths0 tid); inversion Hh; subst.
        simpl. apply (cover_compile s p []).
    - unfold ns, nx. rewrite Hconc, Hseen, Hexits. unfold countb. simpl.
      pose proof (sumf_add2 (fun t => cntI s (t_code t)) (fun t => cntR s (t_code t))
                            (fun t => cntS s (t_code t)) (fun t => cntD s (t_code t)) ths0) as Hs.
      assert (Hs' := fun H => Hs H). cut (forall t : thr, In t ths0 -> cntI s (t_code t) + cntR s (t_code t) = cntS s (t_code t) + cntD s (t_code t)); [intros Hq; specialize (Hs Hq); lia|]. intros t Ht. apply ths0_in in Ht as (p & ->). simpl. apply cnt_compile. }
  assert (HLR : forall s ev, ev3 ev ->
            sumf (fun t => pendL s ev (t_code t) (t_rt t)) ths0 = sumf (fun t => pendR s ev (t_code t)) ths0 /\
            logR s ev st0 = 0).
  { intros s ev Hev. split.
    - apply sumf_ext. intros t Ht. apply ths0_in in Ht as (p & ->). simpl.
      destruct Hev as [->|[->| ->]].
      + apply pend_compile; auto.
      + apply pend_compile; auto.
      + rewrite pendL_rt_compile, pendR_rt. reflexivity.
    - unfold logR, sb, sxb, sxr. rewrite Hseen, Hexits. destruct ev; reflexivity. }
  split.
  { intros s ev Hev. unfold acc_le, Lg, Rg. destruct (HLR s ev Hev) as [-> ->].
    specialize (Hle s ev Hev). lia. }
  intros Hcm. specialize (Hcalm Hcm). split.
  - split; [lia|]. split; [unfold hi; lia|]. split; [intros s; apply Hcalm|].
    intros tid t Hn. apply ths0_nth in Hn as (p & Hp & ->). split; [simpl; unfold hi; lia|].
    split; [reflexivity|]. intros s Hq. simpl in Hq. rewrite needs_compile in Hq. discriminate.
  - intros s ev Hev. unfold acc_eq, Lg, Rg. destruct (HLR s ev Hev) as [-> ->].
    destruct (Hcalm s) as [_ Ht]. rewrite (Ht ev Hev). lia.
Qed.

Lemma run_Inv st ths tr :
  run_case false base mode progs steps = (st, ths, tr) -> Inv 0 st ths /\ all_done ths = true.
Proof.
  intros H. split; [|eapply c14_all_finish0; eauto].
  unfold run_case in H. fold ths0 in H.
  destruct (run_sched false _ ths0 steps) as [[st1 ths1] tr1] eqn:E1.
  destruct (finish false (code_total ths1) st1 ths1) as [[st2 ths2] tr2] eqn:E2.
  inversion H; subst.
  eapply (finish_inv false Inv); [apply Inv_exec|apply Inv_done| |exact E2].
  eapply (run_sched_inv false Inv); [apply Inv_exec|apply Inv_done|apply Inv_adv| |exact E1].
  replace (total_dt steps + 0) with (total_dt steps) by lia. apply Inv_init.
Qed.
End Main.
