(** C14: what each thread has logged so far + what its code will still log = its program. *)
From SV Require Import Model.Base Model.LeapArray Model.World Model.Conc Spec.C14Spec.
From SV Require Import Proofs.C14Frame Proofs.C14Code Proofs.C14Inv.
From Coq Require Import Lia ZifyBool ZifyN.
Open Scope N_scope.

Definition sumf (f : thr -> N) (ths : list thr) : N := fold_right (fun t acc => f t + acc) 0 ths.

Lemma sumf_upd f : forall ths tid t t', nth_error ths tid = Some t ->
  sumf f (upd ths tid t') + f t = sumf f ths + f t'.
Proof.
  induction ths as [|h tl IH]; intros [|tid] t t' H; simpl in *; try discriminate.
  - inversion H; subst. lia.
  - specialize (IH _ _ t' H). lia.
Qed.

Lemma sumf_ext f g ths : (forall t, In t ths -> f t = g t) -> sumf f ths = sumf g ths.
Proof.
  induction ths as [|h tl IH]; simpl; auto. intros H. rewrite (H h), IH; auto.
Qed.

Lemma exec_exits racy tid st t i st' t' p :
  exec racy tid st t i = (st', t', p) ->
  match i with
  | IRt b inb =>
      match t_starts t with
      | s0 :: rest => c_exits st' = c_exits st ++ [(tid, b, inb, c_now st - s0)] /\ t_rt t' = c_now st - s0
      | [] => c_exits st' = c_exits st /\ t_rt t' = t_rt t
      end
  | _ => c_exits st' = c_exits st /\ t_rt t' = t_rt t
  end.
Proof. intros H. destruct i; destr_exec H; simpl; try rewrite c_exits_set_node; auto. Qed.

Definition blog (tid : N) (st : cstate) : list (N * bool) :=
  map (fun x => (snd (fst x), snd x)) (filter (fun x => fst (fst (fst x)) =? tid) (c_seen st)).
Definition xlog (tid : N) (st : cstate) : list (N * bool) := exits_of tid (c_exits st).

Lemma exec_blog racy tid st t i st' t' p tid2 :
  exec racy tid st t i = (st', t', p) ->
  blog tid2 st' = blog tid2 st ++
    match i with ISeen b inb => if tid =? tid2 then [(b, inb)] else [] | _ => [] end.
Proof.
  intros H. apply exec_seen in H. unfold blog.
  destruct i; rewrite H; try (rewrite app_nil_r; reflexivity).
  rewrite filter_app, map_app. simpl. destruct (tid =? tid2); reflexivity.
Qed.

Lemma exec_xlog racy tid st t i tl st' t' p tid2 :
  balanced (i :: tl) (length (t_starts t)) = true ->
  exec racy tid st t i = (st', t', p) ->
  xlog tid2 st' = xlog tid2 st ++
    match i with IRt b inb => if tid =? tid2 then [(b, inb)] else [] | _ => [] end.
Proof.
  intros Hb H. apply exec_exits in H. unfold xlog, exits_of.
  destruct i; try (destruct H as [-> _]; rewrite app_nil_r; reflexivity).
  simpl in Hb. destruct (t_starts t); [discriminate|]. destruct H as [-> _].
  rewrite filter_app, map_app. simpl. destruct (tid =? tid2); reflexivity.
Qed.

Section Logs.
Variable wantb wantx : nat -> list (N * bool).

Definition logs_ok (st : cstate) (ths : list thr) : Prop :=
  forall tid t, nth_error ths tid = Some t ->
    blog (N.of_nat tid) st ++ pend_b (t_code t) = wantb tid /\
    xlog (N.of_nat tid) st ++ pend_x (t_code t) = wantx tid.

Lemma logs_exec st ths tid t i tl st' t' p :
  J1 st ths -> logs_ok st ths -> nth_error ths tid = Some t -> t_code t = i :: tl ->
  exec false (N.of_nat tid) st (set_code t tl false) i = (st', t', p) ->
  logs_ok st' (upd ths tid t').
Proof.
  intros HJ HL Hn Hc H.
  destruct (J1_facts _ _ _ _ _ _ HJ Hn Hc) as (_ & _ & _ & Hb & _).
  pose proof (exec_code _ _ _ _ _ _ _ _ H) as [Hc' _]. simpl in Hc'.
  intros tid2 t2 Hn2.
  rewrite (exec_blog _ _ _ _ _ _ _ _ (N.of_nat tid2) H).
  rewrite (exec_xlog _ _ _ (set_code t tl false) _ tl _ _ _ (N.of_nat tid2) Hb H).
  apply nth_upd_cases in Hn2 as [[<- ->]|[Hne Hn2]].
  - destruct (HL _ _ Hn) as [H1 H2]. rewrite Hc in H1, H2. rewrite Hc'.
    rewrite <- H1, <- H2. rewrite N.eqb_refl.
    destruct i; simpl; rewrite ?app_nil_r; try rewrite <- app_assoc; simpl; auto.
  - destruct (HL _ _ Hn2) as [H1 H2].
    assert (Hf : (N.of_nat tid =? N.of_nat tid2) = false) by (apply N.eqb_neq; lia).
    rewrite Hf. destruct i; rewrite ?app_nil_r; auto.
Qed.

Lemma logs_done st ths tid t :
  logs_ok st ths -> nth_error ths tid = Some t -> t_code t = [] ->
  logs_ok st (upd ths tid (set_code t [] true)).
Proof.
  intros HL Hn Hc tid2 t2 Hn2. apply nth_upd_cases in Hn2 as [[<- ->]|[Hne Hn2]]; auto.
  specialize (HL _ _ Hn). rewrite Hc in HL. exact HL.
Qed.
End Logs.
