(** C14: the state the warm-up traffic leaves behind, explicitly. *)
From SV Require Import Model.Base Model.LeapArray Model.World Model.Conc Spec.C14Spec.
From SV Require Import Proofs.C14Frame.
From Coq Require Import Lia ZifyBool ZifyN.
Open Scope N_scope.

Fixpoint rall (tid : N) (st : cstate) (t : thr) (code : list instr) : cstate * thr :=
  match code with
  | [] => (st, t)
  | i :: tl => let '(st', t', _) := exec false tid st t i in rall tid st' t' tl
  end.

Lemma exec_set_code racy tid st t i c d :
  exec racy tid st (set_code t c d) i =
  let '(st', t', p) := exec racy tid st t i in (st', set_code t' c d, p).
Proof.
  destruct i; try destruct s; unfold exec, slot_ix; simpl; auto;
    repeat match goal with |- context [match ?x with _ => _ end] => destruct x end; auto.
Qed.

Lemma rall_set_code tid : forall code st t c d,
  fst (rall tid st (set_code t c d) code) = fst (rall tid st t code).
Proof.
  induction code as [|i tl IH]; intros st t c d; simpl; auto.
  rewrite exec_set_code. destruct (exec false tid st t i) as [[st1 t1] p1]. apply IH.
Qed.

Lemma seg_rall tid : forall code st t st' t' p,
  t_done t = false ->
  seg false tid st t code = (st', t', p) ->
  fst (rall tid st t code) = fst (rall tid st' t' (match p with Some _ => t_code t' | None => [] end)) /\
  match p with Some _ => t_done t' = false /\ (length (t_code t') < length code)%nat | None => t_done t' = true end.
Proof.
  induction code as [|i tl IH]; intros st t st' t' p Hd H; simpl in H.
  - inversion H; subst. simpl. auto.
  - destruct (exec false tid st (set_code t tl false) i) as [[st1 t1] p1] eqn:E.
    pose proof (exec_code _ _ _ _ _ _ _ _ E) as [Hc1 Hd1]. simpl in Hc1, Hd1.
    rewrite exec_set_code in E. simpl.
    destruct (exec false tid st t i) as [[st2 t2] p2].
    assert (E1 : st2 = st1) by congruence. assert (E2 : set_code t2 tl false = t1) by congruence.
    subst st2. clear E.
    rewrite <- (rall_set_code tid tl st1 t2 tl false). rewrite E2.
    destruct p1.
    + assert (st' = st1) by congruence. assert (t' = t1) by congruence. assert (p = Some p0) by congruence.
      subst st' t' p. rewrite Hc1. split; auto.
    + destruct (IH _ _ _ _ _ Hd1 H) as [H1 H2]. split; auto.
      destruct p; auto. destruct H2. split; auto.
Qed.

Lemma finish_single : forall fuel st t,
  t_done t = false -> (length (t_code t) < fuel)%nat ->
  fst (fst (finish false fuel st [t])) = fst (rall 0 st t (t_code t)).
Proof.
  induction fuel as [|f IH]; intros st t Hd Hl; [lia|].
  simpl. unfold all_done. simpl. rewrite Hd. simpl. unfold sched_step. simpl. rewrite Hd.
  destruct (seg false 0 st t (t_code t)) as [[st1 t1] p1] eqn:Es.
  destruct (seg_rall _ _ _ _ _ _ _ Hd Es) as [H1 H2].
  destruct p1.
  - destruct H2 as [Hd1 Hl1]. specialize (IH st1 t1 Hd1).
    destruct (finish false f st1 [t1]) as [[st2 ths2] tr2] eqn:E2. simpl in *.
    rewrite H1. apply IH. lia.
  - simpl in H1. rewrite H1.
    destruct f; simpl; auto. unfold all_done. simpl. rewrite H2. simpl. auto.
Qed.

Lemma rall_cons tid st t i tl :
  rall tid st t (i :: tl) = let '(st', t', _) := exec false tid st t i in rall tid st' t' tl.
Proof. reflexivity. Qed.

Definition wbucket : bucket := mkB 1 0 1 0 0 0 1.
Definition wnode (X : N) : node := mkNode (upd (ring0 G) (N.to_nat (idx G X)) (start G X, wbucket)) 0.

Lemma idx_lt X : (N.to_nat (idx G X) < 20)%nat.
Proof. unfold idx. change (sc G) with 20. assert (X / bl G mod 20 < 20) by (apply N.mod_lt; lia). lia. Qed.

Lemma ring0_nth i : (i < 20)%nat -> nth_error (ring0 G) i = Some (0, bucket0).
Proof.
  intros H. destruct (nth_error (ring0 G) i) as [p|] eqn:E.
  - f_equal. exact (nth_error_repeat _ _ _ _ E).
  - apply nth_error_None in E. unfold ring0 in E. rewrite repeat_length in E. change (N.to_nat (sc G)) with 20%nat in E. lia.
Qed.

Arguments rall : simpl never.

Ltac cbnx :=
  cbn [exec get_node set_node nth upd app length
       c_now c_nodes c_map c_inb c_seen c_exits
       t_code t_done t_now t_ok t_rst t_miss t_node t_c t_starts t_rt n_slots n_conc fresh_node fst snd];
  unfold slot_ix, set_flags, map_slot;
  cbn [t_code t_done t_now t_ok t_rst t_miss t_node t_c t_starts t_rt n_slots n_conc];
  change (c_total default_cfg) with G.

Lemma start_pos X : 500 <= X -> (start G X =? 0) = false.
Proof.
  intros HX. unfold start. change (bl G) with 500. apply N.eqb_neq.
  pose proof (N.mod_le X 500). pose proof (N.mod_lt X 500).
  pose proof (N.div_mod X 500). lia.
Qed.

Definition wcode : list instr := compile [TB 1 true; TX] [].

Lemma warm_rall X : 500 <= X ->
  fst (rall 0 (cstate0 X) (thr0 [] X) wcode) =
  mkCS X [wnode X] (Some 0%nat) (wnode X) [(0, 0%nat, 1, true)] [(0, 1, true, 0)].
Proof.
  intros HX.
  assert (Hi := idx_lt X).
  assert (HT := start_pos X HX).
  assert (R0 := ring0_nth _ Hi).
  assert (R1 : forall x, nth_error (upd (ring0 G) (N.to_nat (idx G X)) x) (N.to_nat (idx G X)) = Some x).
  { intros x. eapply nth_error_upd_same; eauto. }
  unfold cstate0, thr0, wcode. cbn [compile app pass_seq complete_seq bucket_seq].
  repeat (rewrite rall_cons; cbnx;
          repeat (progress (rewrite ?R0, ?R1, ?HT, ?N.eqb_refl, ?N.sub_diag, ?upd_upd); cbnx)).
  unfold rall. cbn [fst]. reflexivity.
Qed.

Lemma warm_eq X : 500 <= X ->
  warm false (cstate0 X) = mkCS X [wnode X] (Some 0%nat) (wnode X) [] [].
Proof.
  intros HX. unfold warm.
  change (compile [TB 1 true; TX] []) with wcode.
  change (c_now (cstate0 X)) with X.
  set (th := thr0 wcode X).
  assert (Hlt : (length (t_code th) < code_total [th])%nat) by (unfold code_total; simpl; lia).
  pose proof (finish_single (code_total [th]) (cstate0 X) th eq_refl Hlt) as Hf.
  change (t_code th) with wcode in Hf.
  change (rall 0 (cstate0 X) th wcode) with (rall 0 (cstate0 X) (set_code (thr0 [] X) wcode false) wcode) in Hf.
  rewrite rall_set_code, (warm_rall X HX) in Hf.
  destruct (finish false (code_total [th]) (cstate0 X) [th]) as [[st' a] b].
  simpl in Hf. subst st'. reflexivity.
Qed.
