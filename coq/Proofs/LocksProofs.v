(** Proofs for C15 (lock-order part): programs that respect a lock order never deadlock;
    the known acquisition contexts respect [lock_rank]; an inverted order does deadlock. *)
From SV Require Import Model.Base Model.Locks Spec.C15Spec.

(* ------------------------------------------------------------------ *)
(** * List helpers *)

Lemma Forall_upd {A} (P : A -> Prop) (l : list A) i x :
  Forall P l -> P x -> Forall P (upd l i x).
Proof.
  revert i; induction l as [|h tl IH]; intros [|i] HF Hx; simpl; auto;
    inversion HF; subst; constructor; auto.
Qed.

Lemma Forall_nth_error {A} (P : A -> Prop) (l : list A) i x :
  Forall P l -> nth_error l i = Some x -> P x.
Proof.
  intros HF H. rewrite Forall_forall in HF. apply HF. eapply nth_error_In; eauto.
Qed.

(* ------------------------------------------------------------------ *)
(** * The invariant: every thread's remaining code is ranked w.r.t. what it holds *)

Definition inv (rank : nat -> nat) (s : list lthr) : Prop :=
  Forall (fun t => ranked rank (l_held t) (l_code t) = true) s.

Lemma inv_start : forall rank progs,
  Forall (fun p => ranked rank [] p = true) progs -> inv rank (start_of progs).
Proof.
  intros rank progs H. unfold inv, start_of.
  induction H; simpl; constructor; auto.
Qed.

Lemma inv_lstep : forall rank s i s',
  inv rank s -> lstep s i = Some s' -> inv rank s'.
Proof.
  intros rank s i s' HI Hs. unfold lstep in Hs.
  destruct (nth_error s i) as [t|] eqn:Hn; [|discriminate].
  pose proof (Forall_nth_error _ _ _ _ HI Hn) as Ht. simpl in Ht.
  destruct (l_code t) as [|[l|l] tl] eqn:Hc; [discriminate| |].
  - destruct (is_free s l); [|discriminate].
    inversion Hs; subst. apply Forall_upd; auto. simpl.
    simpl in Ht. apply andb_true_iff in Ht. tauto.
  - inversion Hs; subst. apply Forall_upd; auto. simpl.
    simpl in Ht. apply andb_true_iff in Ht. tauto.
Qed.

Lemma inv_lreach : forall rank a s, lreach a s -> inv rank a -> inv rank s.
Proof.
  intros rank a s H. induction H; intros HI; auto.
  apply IHlreach. eapply inv_lstep; eauto.
Qed.

(* ------------------------------------------------------------------ *)
(** * No deadlock under the invariant *)

Definition blocked (s : list lthr) (t : lthr) (l : nat) : Prop :=
  In t s /\ (exists tl, l_code t = Acq l :: tl) /\ is_free s l = false.

Lemma stuck_blocked : forall s t,
  (forall i, lstep s i = None) -> In t s -> l_code t <> [] -> exists l, blocked s t l.
Proof.
  intros s t Hno Hin Hne.
  destruct (In_nth_error _ _ Hin) as [i Hi].
  specialize (Hno i). unfold lstep in Hno. rewrite Hi in Hno.
  destruct (l_code t) as [|[l|l] tl] eqn:Hc; [congruence| |discriminate].
  destruct (is_free s l) eqn:Hf; [discriminate|].
  exists l. unfold blocked. rewrite Hc. split; auto. split; eauto.
Qed.

Lemma not_free_holder : forall s l,
  is_free s l = false -> exists u, In u s /\ In l (l_held u).
Proof.
  induction s as [|t s IH]; intros l H; simpl in H; [discriminate|].
  apply andb_false_iff in H. destruct H as [H|H].
  - exists t. split; [left; auto|].
    apply negb_false_iff in H. unfold holds in H.
    apply existsb_exists in H. destruct H as [x [Hx He]].
    apply Nat.eqb_eq in He. subst; auto.
  - destruct (IH l H) as [u [Hu Hl]]. exists u. split; [right; auto|auto].
Qed.

Lemma blocked_higher : forall rank s t l,
  inv rank s -> (forall i, lstep s i = None) -> blocked s t l ->
  exists t' l', blocked s t' l' /\ rank l < rank l'.
Proof.
  intros rank s t l HI Hno [Hin [[tl Hc] Hf]].
  destruct (not_free_holder _ _ Hf) as [u [Hu Hl]].
  assert (Hr : ranked rank (l_held u) (l_code u) = true).
  { unfold inv in HI. rewrite Forall_forall in HI. apply HI; auto. }
  assert (Hne : l_code u <> []).
  { intros He. rewrite He in Hr. simpl in Hr.
    destruct (l_held u); [inversion Hl|discriminate]. }
  destruct (stuck_blocked _ _ Hno Hu Hne) as [l' Hb].
  exists u, l'. split; auto.
  destruct Hb as [_ [[tl' Hc'] _]]. rewrite Hc' in Hr. simpl in Hr.
  apply andb_true_iff in Hr. destruct Hr as [Hr _].
  rewrite forallb_forall in Hr. specialize (Hr l Hl).
  apply Nat.ltb_lt in Hr. exact Hr.
Qed.

Lemma awaited_bound : forall (rank : nat -> nat) (s : list lthr),
  exists M, forall t l tl, In t s -> l_code t = Acq l :: tl -> rank l <= M.
Proof.
  intros rank s. induction s as [|a s [M HM]].
  - exists 0. intros t l tl [].
  - destruct (l_code a) as [|[la|la] tla] eqn:Ha.
    + exists M. intros t l tl [He|Hin] Hc; [subst; congruence|eauto].
    + exists (Nat.max M (rank la)). intros t l tl [He|Hin] Hc.
      * subst. rewrite Ha in Hc. inversion Hc; subst. lia.
      * specialize (HM t l tl Hin Hc). lia.
    + exists M. intros t l tl [He|Hin] Hc; [subst; congruence|eauto].
Qed.

Lemma inv_no_deadlock : forall rank s, inv rank s -> ~ deadlocked s.
Proof.
  intros rank s HI [[t [Hin Hne]] Hno].
  destruct (stuck_blocked _ _ Hno Hin Hne) as [l Hb].
  destruct (awaited_bound rank s) as [M HM].
  assert (Hall : forall n t l, blocked s t l -> M - rank l <= n -> False).
  { induction n as [|n IH]; intros t0 l0 Hb0 Hle.
    - destruct (blocked_higher rank s t0 l0 HI Hno Hb0) as [t' [l' [Hb' Hlt]]].
      destruct Hb' as [Hin' [[tl' Hc'] _]].
      specialize (HM t' l' tl' Hin' Hc'). lia.
    - destruct (blocked_higher rank s t0 l0 HI Hno Hb0) as [t' [l' [Hb' Hlt]]].
      apply (IH t' l' Hb').
      destruct Hb' as [Hin' [[tl' Hc'] _]].
      specialize (HM t' l' tl' Hin' Hc'). lia. }
  exact (Hall (M - rank l) t l Hb (le_n _)).
Qed.

Theorem lock_order_no_deadlock : forall rank progs s,
  Forall (fun p => ranked rank [] p = true) progs ->
  lreach (start_of progs) s -> ~ deadlocked s.
Proof.
  intros rank progs s HF HR.
  apply (inv_no_deadlock rank).
  eapply inv_lreach; eauto. apply inv_start; auto.
Qed.

(* ------------------------------------------------------------------ *)
(** * The known contexts respect [lock_rank] *)

Theorem known_contexts_ordered : forallb (ctx_ok lock_rank) known_contexts = true.
Proof. vm_compute. reflexivity. Qed.

(* ------------------------------------------------------------------ *)
(** * From contexts to ranked programs *)

Lemma In_insert_nat : forall x y l, In x (insert_nat y l) <-> x = y \/ In x l.
Proof.
  intros x y l. induction l as [|z tl IH]; simpl.
  - intuition.
  - destruct (Nat.leb y z); simpl; [intuition|]. rewrite IH. intuition.
Qed.

Lemma In_sort_nat : forall x l, In x (sort_nat l) <-> In x l.
Proof.
  intros x l. induction l as [|y tl IH]; simpl; [tauto|].
  rewrite In_insert_nat, IH. intuition.
Qed.

Lemma ranked_of_contexts : forall rank p held,
  balanced held p = true ->
  forallb (ctx_ok rank) (contexts held p) = true ->
  ranked rank held p = true.
Proof.
  intros rank p. induction p as [|[l|l] tl IH]; intros held Hb Hc; simpl in *.
  - exact Hb.
  - apply andb_true_iff in Hc. destruct Hc as [Hc1 Hc2].
    apply andb_true_iff. split; [|apply IH; auto].
    unfold ctx_ok in Hc1. simpl in Hc1.
    rewrite forallb_forall in Hc1. apply forallb_forall.
    intros x Hx. apply Hc1. apply In_sort_nat. exact Hx.
  - apply andb_true_iff in Hb. destruct Hb as [Hb1 Hb2].
    apply andb_true_iff. split; auto.
Qed.

Lemma natlist_eqb_eq : forall a b, natlist_eqb a b = true -> a = b.
Proof.
  induction a as [|x a IH]; intros [|y b] H; simpl in H; try discriminate; auto.
  apply andb_true_iff in H. destruct H as [H1 H2].
  apply Nat.eqb_eq in H1. subst. f_equal. auto.
Qed.

Lemma ctx_in_known_ok : forall c,
  ctx_in known_contexts c = true -> ctx_ok lock_rank c = true.
Proof.
  intros c H. unfold ctx_in in H. apply existsb_exists in H.
  destruct H as [k [Hk He]]. apply andb_true_iff in He. destruct He as [H1 H2].
  apply Nat.eqb_eq in H1. apply natlist_eqb_eq in H2.
  assert (k = c) by (destruct k, c; simpl in *; subst; reflexivity). subst k.
  pose proof known_contexts_ordered as HK. rewrite forallb_forall in HK. auto.
Qed.

Theorem managers_no_deadlock : forall progs s,
  Forall (fun p => balanced [] p = true /\ forallb (ctx_in known_contexts) (contexts [] p) = true) progs ->
  lreach (start_of progs) s -> ~ deadlocked s.
Proof.
  intros progs s HF HR.
  apply (lock_order_no_deadlock lock_rank progs s); auto.
  eapply Forall_impl; [|exact HF]. simpl.
  intros p [Hb Hc]. apply ranked_of_contexts; auto.
  rewrite forallb_forall in Hc. apply forallb_forall.
  intros c Hin. apply ctx_in_known_ok. auto.
Qed.

(* ------------------------------------------------------------------ *)
(** * An inverted order deadlocks *)

Theorem inverted_order_deadlocks : exists s,
  lreach (start_of [[Acq 8; Acq 10; Rel 10; Rel 8]; [Acq 10; Acq 8; Rel 8; Rel 10]]%nat) s /\ deadlocked s.
Proof.
  exists [mkLT [8] [Acq 10; Rel 10; Rel 8]; mkLT [10] [Acq 8; Rel 8; Rel 10]]%nat.
  split.
  - eapply (lreach_step _ 0); [reflexivity|].
    eapply (lreach_step _ 1); [reflexivity|].
    apply lreach_refl.
  - split.
    + eexists. split; [left; reflexivity|]. simpl. discriminate.
    + intros [|[|i]]; try reflexivity.
      unfold lstep. simpl. destruct i; reflexivity.
Qed.
