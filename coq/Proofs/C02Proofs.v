(** Proofs of the C02 statements (stated in Props/C02.v). *)
From SV Require Import Model.Base Model.F64 Model.LeapArray Proofs.LeapArrayProofs Proofs.WindowProofs.
From SV Require Export Spec.C02Spec.
From Coq Require Import ZifyBool ZifyN.
Open Scope N_scope.

Lemma spec_sum_agg g w now ev h :
  spec_sum g w now ev h =
  spec_agg N.add 0 (d_sum ev) g h (start g now - w_iv w + bl g) (start g now).
Proof.
  unfold spec_sum, spec_agg, in_window, inr. induction h as [|[t wr] tl IH]; simpl; auto.
  rewrite IH. destruct ((_ <=? _) && (_ <=? _)); auto.
  destruct wr as [e n|c]; simpl; auto. destruct (mevent_eqb e ev); auto.
Qed.

Lemma spec_min_agg g w now h :
  spec_min_rt g w now h =
  spec_agg N.min MAX_RT d_min g h (start g now - w_iv w + bl g) (start g now).
Proof.
  unfold spec_min_rt, spec_agg, in_window, inr. induction h as [|[t wr] tl IH]; simpl; auto.
  rewrite IH. destruct ((_ <=? _) && (_ <=? _)); auto.
  destruct wr as [e n|c]; simpl; auto. destruct e; auto.
Qed.

Lemma spec_maxc_agg g w now h :
  spec_max_conc g w now h =
  spec_agg N.max 0 d_maxc g h (start g now - w_iv w + bl g) (start g now).
Proof.
  unfold spec_max_conc, spec_agg, in_window, inr. induction h as [|[t wr] tl IH]; simpl; auto.
  rewrite IH. destruct ((_ <=? _) && (_ <=? _)); auto.
  destruct wr as [e n|c]; simpl; auto.
Qed.

Lemma sum_reset ev : bget ev bucket0 + 0 = 0.
Proof. destruct ev; reflexivity. Qed.

Definition read_pre (g : geom) (wsc wiv : N) (w : win) (h : list ev_t) (slots : list slot) (now : N) : Prop :=
  0 < bl g /\ win_new g wsc wiv = Some w /\ wf_hist g h /\
  (forall ev, In ev h -> fst ev <= now) /\ iv g <= now /\
  run_writes g (ring0 g) h = Some slots.

Lemma read_pre_strict g wsc wiv w h slots now :
  read_pre g wsc wiv w h slots now -> run_strict g (ring0 g) h = Some slots.
Proof.
  intros (Hb & Hw & Hwf & Hle & Hiv & Hrun).
  apply win_new_facts in Hw. destruct Hw as (_ & _ & _ & Hs & _).
  destruct (wf_reaches g h Hb Hs Hwf) as [s' [_ Hr]].
  pose proof (run_strict_run_writes _ _ _ _ Hr). congruence.
Qed.

Lemma sum_exact g wsc wiv w h slots now ev :
  read_pre g wsc wiv w h slots now ->
  sum_with_time g w slots now ev = ROk (spec_sum g w now ev h).
Proof.
  intros Hpre. pose proof (read_pre_strict _ _ _ _ _ _ _ Hpre) as Hr.
  destruct Hpre as (Hb & Hw & Hwf & Hle & Hiv & _).
  destruct (window_read_exact N.add 0 (bget ev) (d_sum ev) N.add_comm N.add_assoc (sum_reset ev)
              (sum_apply ev) g wsc wiv w h slots now Hb Hw Hwf Hle Hiv Hr)
    as (lo & hi & _ & -> & -> & Hsat & Hagg).
  unfold sum_with_time. rewrite Hsat. simpl. unfold sum_get. rewrite Hagg, spec_sum_agg. reflexivity.
Qed.

Lemma min_rt_exact g wsc wiv w h slots now :
  read_pre g wsc wiv w h slots now ->
  win_min_rt g w slots now = ROk (spec_min_rt g w now h).
Proof.
  intros Hpre. pose proof (read_pre_strict _ _ _ _ _ _ _ Hpre) as Hr.
  destruct Hpre as (Hb & Hw & Hwf & Hle & Hiv & _).
  destruct (window_read_exact N.min MAX_RT b_minrt d_min N.min_comm min_assoc eq_refl
              min_apply g wsc wiv w h slots now Hb Hw Hwf Hle Hiv Hr)
    as (lo & hi & _ & -> & -> & Hsat & Hagg).
  unfold win_min_rt. rewrite Hsat. simpl. unfold min_minrt. rewrite Hagg, spec_min_agg. reflexivity.
Qed.

Lemma max_conc_exact g wsc wiv w h slots now :
  read_pre g wsc wiv w h slots now ->
  win_max_conc g w slots now = ROk (spec_max_conc g w now h).
Proof.
  intros Hpre. pose proof (read_pre_strict _ _ _ _ _ _ _ Hpre) as Hr.
  destruct Hpre as (Hb & Hw & Hwf & Hle & Hiv & _).
  destruct (window_read_exact N.max 0 b_maxc d_maxc N.max_comm max_assoc eq_refl
              maxc_apply g wsc wiv w h slots now Hb Hw Hwf Hle Hiv Hr)
    as (lo & hi & _ & -> & -> & Hsat & Hagg).
  unfold win_max_conc. rewrite Hsat. simpl. unfold max_maxc. rewrite Hagg, spec_maxc_agg. reflexivity.
Qed.

Lemma rate_exact g wsc wiv w h slots now ev :
  read_pre g wsc wiv w h slots now ->
  qps_with_time g w slots now ev = ROk (qps_of_sum w (spec_sum g w now ev h)).
Proof. intros H. unfold qps_with_time. rewrite (sum_exact _ _ _ _ _ _ _ ev H). reflexivity. Qed.

Lemma avg_rt_exact g wsc wiv w h slots now :
  read_pre g wsc wiv w h slots now ->
  win_avg_rt g w slots now = ROk (avg_of (spec_sum g w now Rt h) (spec_sum g w now Complete h)).
Proof.
  intros H. unfold win_avg_rt.
  rewrite (sum_exact _ _ _ _ _ _ _ Complete H), (sum_exact _ _ _ _ _ _ _ Rt H). reflexivity.
Qed.

Lemma writes_accepted g h :
  0 < bl g -> 0 < sc g -> wf_hist g h ->
  exists slots, run_strict g (ring0 g) h = Some slots /\ run_writes g (ring0 g) h = Some slots.
Proof.
  intros Hb Hs Hwf. destruct (wf_reaches g h Hb Hs Hwf) as [s' [_ Hr]].
  exists s'. split; auto. apply run_strict_run_writes; auto.
Qed.

(** Every slot holds exactly the events of the newest bucket mapped to it. *)
Lemma slots_reflect_history g h slots :
  0 < bl g -> 0 < sc g -> wf_hist g h -> run_writes g (ring0 g) h = Some slots ->
  length slots = N.to_nat (sc g) /\
  forall i s v, nth_error slots i = Some (s, v) ->
    (s = 0 /\ v = bucket0 /\ forall e, In e h -> N.to_nat (idx g (fst e)) <> i) \/
    (s <> 0 /\ N.to_nat (idx g s) = i /\ v = agg g (rev h) s /\
     (exists e, In e h /\ start g (fst e) = s) /\
     forall e, In e h -> N.to_nat (idx g (fst e)) = i -> start g (fst e) <= s).
Proof.
  intros Hb Hs Hwf Hrun. destruct (wf_reaches g h Hb Hs Hwf) as [s' [[Hlen Hall] Hr]].
  pose proof (run_strict_run_writes _ _ _ _ Hr). assert (s' = slots) by congruence. subst s'.
  split; auto. intros i s v Hn. specialize (Hall i (s, v) Hn). simpl in Hall.
  destruct Hall as [(-> & -> & Hno)|(Hnz & Hm & Hix & Hv & [e [He Hse]] & Hmax)].
  - left. repeat split; auto. intros e He. apply Hno. apply in_rev in He. exact He.
  - right. repeat split; auto.
    + exists e. split; auto. apply in_rev; auto.
    + intros e' He'. apply Hmax. apply in_rev in He'. exact He'.
Qed.

(** Construction verdicts *)
Lemma ring_refused_iff sample_count interval_ms :
  ring_new sample_count interval_ms = None <-> (sample_count = 0 \/ interval_ms mod sample_count <> 0).
Proof.
  unfold ring_new. destruct (sample_count =? 0) eqn:E1; simpl.
  - split; auto. intros _. left. apply N.eqb_eq; auto.
  - apply N.eqb_neq in E1. destruct (interval_ms mod sample_count =? 0) eqn:E2; simpl.
    + apply N.eqb_eq in E2. split; [discriminate|]. intros [H|H]; congruence.
    + apply N.eqb_neq in E2. split; auto.
Qed.

Lemma divides_iff a b : b <> 0 -> (a mod b = 0 <-> exists k, a = k * b).
Proof.
  intros Hb. split.
  - intros H. exists (a / b). pose proof (N.div_mod' a b). rewrite H in H0. lia.
  - intros [k ->]. apply N.mod_mul; auto.
Qed.

Lemma reuse_accepted_iff wsc wiv psc piv :
  check_reuse wsc wiv psc piv = true <->
  (wsc <> 0 /\ wiv <> 0 /\ wiv mod wsc = 0 /\ psc <> 0 /\ piv <> 0 /\ piv mod psc = 0 /\
   piv mod wiv = 0 /\ (wiv / wsc) mod (piv / psc) = 0).
Proof.
  split.
  - intros H. apply check_reuse_facts in H. destruct H as (H1&H2&H3&H4&H5&H6&H7&H8).
    repeat split; auto; lia.
  - intros (H1&H2&H3&H4&H5&H6&H7&H8). unfold check_reuse, check_stat.
    apply N.eqb_neq in H1, H2, H4, H5. apply N.eqb_eq in H3, H6, H7, H8.
    rewrite H1, H2, H3, H4, H5, H6, H7, H8. reflexivity.
Qed.
