From SV Require Import Model.Base Model.Hotspot Spec.C06Spec.
From Coq Require Import ZifyBool ZifyN.
Open Scope N_scope.

(** * The reference bucket obeys the bound *)

Fixpoint nondecr_t (prev : N) (l : list (N * N)) : Prop :=
  match l with [] => True | (t, _) :: tl => prev <= t /\ nondecr_t t tl end.

(** invariant: D * (admitted so far + rest) <= D * m + q * (last - first), first <= last <= now *)
Lemma tb_step_inv q b D st now n st' d A first :
  0 < D -> tb_step q b D st now n = (st', d) ->
  match st with
  | None => A = 0
  | Some (last, rest) => first <= last /\ last <= now /\ D * (A + rest) <= D * (q + b) + q * (last - first)
  end ->
  let A' := A + (if d then n else 0) in
  let first' := match st with None => now | Some _ => first end in
  match st' with
  | None => A' = 0 /\ st = None
  | Some (last', rest') => first' <= last' /\ last' <= now /\ D * (A' + rest') <= D * (q + b) + q * (last' - first')
  end.
Proof.
  intros HD Hs Hinv. unfold tb_step in Hs.
  destruct (q =? 0) eqn:Eq.
  { injection Hs as <- <-. destruct st as [[last rest]|]; simpl; rewrite N.add_0_r; auto. }
  destruct (q + b <? n) eqn:Em.
  { injection Hs as <- <-. destruct st as [[last rest]|]; simpl; rewrite N.add_0_r; auto. }
  destruct st as [[last rest]|].
  - destruct Hinv as (Hf & Hl & Hi).
    destruct (D <? now - last) eqn:Eg.
    + set (add := (now - last) * q / D) in *.
      assert (Hadd : D * add <= (now - last) * q).
      { unfold add. apply N.mul_div_le. lia. }
      set (avail := if q + b <? add + rest then q + b else add + rest) in *.
      assert (Hav : avail <= add + rest /\ avail <= q + b).
      { unfold avail. destruct (q + b <? add + rest) eqn:E; lia. }
      destruct (avail <? n) eqn:Ea; injection Hs as <- <-; simpl.
      * rewrite N.add_0_r. repeat split; auto.
      * assert (n <= avail) by lia.
        repeat split; try lia. nia.
    + destruct (n <=? rest) eqn:Er; injection Hs as <- <-; simpl.
      * repeat split; auto. nia.
      * rewrite N.add_0_r. repeat split; auto.
  - injection Hs as <- <-. simpl. subst A. repeat split; try lia. nia.
Qed.

Definition tb_inv (q b D : N) (st : option (N * N)) (A first now0 : N) : Prop :=
  match st with
  | None => A = 0
  | Some (last, rest) => first <= last /\ last <= now0 /\ D * (A + rest) <= D * (q + b) + q * (last - first)
  end.

Lemma tb_run_bound_gen q b D : 0 < D ->
  forall l st A first now0 t1,
  nondecr_t now0 l -> t1 <= now0 -> (st <> None -> t1 <= first) -> tb_inv q b D st A first now0 ->
  D * (A + admitted l (tb_run q b D st l)) <= D * (q + b) + q * (last_time l now0 - t1).
Proof.
  intros HD. induction l as [|[now n] tl IH]; intros st A first now0 t1 Hnd Ht1 Hfirst Hinv; simpl.
  - rewrite N.add_0_r. unfold tb_inv in Hinv. destruct st as [[last rest]|].
    + destruct Hinv as (Hf & Hl & Hi). assert (t1 <= first) by (apply Hfirst; discriminate). nia.
    + subst A. nia.
  - destruct Hnd as [Hle Hnd].
    destruct (tb_step q b D st now n) as [st' d] eqn:Es. simpl.
    assert (Hinv0 : match st with
                    | None => A = 0
                    | Some (last, rest) => first <= last /\ last <= now /\ D * (A + rest) <= D * (q + b) + q * (last - first)
                    end).
    { unfold tb_inv in Hinv. destruct st as [[last rest]|]; auto. destruct Hinv as (H1 & H2 & H3). repeat split; auto. lia. }
    pose proof (tb_step_inv q b D st now n st' d A first HD Es Hinv0) as Hstep. simpl in Hstep.
    rewrite N.add_assoc.
    apply (IH st' (A + (if d then n else 0)) (match st with None => now | Some _ => first end) now t1); auto; try lia.
    + intros Hne. destruct st as [[last rest]|]; [apply Hfirst; discriminate|lia].
    + unfold tb_inv. destruct st' as [[last' rest']|]; [exact Hstep|]. destruct Hstep; auto.
Qed.

(** The bound of C06 for one value: for every non-decreasing request sequence,
    D * admitted <= D * (q + b) + q * (t_last - t_first). *)
Theorem tb_bound q b D l :
  0 < D -> nondecr_t (first_time l) l ->
  bound_ok q b D l (tb_run q b D None l) = true.
Proof.
  intros HD Hnd. unfold bound_ok. apply N.leb_le.
  pose proof (tb_run_bound_gen q b D HD l None 0 0 (first_time l) (first_time l) Hnd (N.le_refl _)) as H.
  simpl in H. apply H; auto. intros Hne; congruence.
Qed.

(** a rejection has one of the stated causes *)
Theorem tb_reject_cause q b D st now n st' :
  tb_step q b D st now n = (st', false) ->
  st' = st /\
  (q = 0 \/ q + b < n \/
   match st with
   | None => False
   | Some (last, rest) =>
       (now - last <= D /\ rest < n) \/
       (D < now - last /\ (q + b < n \/ (now - last) * q / D + rest < n))
   end).
Proof.
  unfold tb_step. destruct (q =? 0) eqn:Eq; [intros H; inversion H; split; auto; left; lia|].
  destruct (q + b <? n) eqn:Em; [intros H; inversion H; split; auto; right; left; lia|].
  destruct st as [[last rest]|]; [|intros H; inversion H].
  destruct (D <? now - last) eqn:Eg.
  - destruct (q + b <? (now - last) * q / D + rest) eqn:E1;
      match goal with |- context [if ?x <? n then _ else _] => destruct (x <? n) eqn:Ea end;
      intros H; inversion H; split; auto; right; right; right; lia.
  - destruct (n <=? rest) eqn:Er; intros H; inversion H. split; auto. right; right; left. lia.
Qed.

(** * The controller model is a family of independent reference buckets *)

(** run one reject controller over a request list *)
Fixpoint ctl_run (c : hctl) (l : list req) : list hres :=
  match l with
  | [] => []
  | (now, v, n) :: tl => let '(c', r) := reject_check c v n now in r :: ctl_run c' tl
  end.

Definition is_pass (r : hres) : bool := match r with HPass => true | _ => false end.

(** the per-value state of a controller *)
Definition st_of (c : hctl) (v : N) : option (N * N) :=
  match hc_time c v, hc_tok c v with
  | Some t, Some k => Some (t, k)
  | _, _ => None
  end.

(** both counters know the same values (no eviction) *)
Definition synced (c : hctl) : Prop := forall v, (hc_time c v = None <-> hc_tok c v = None).

Ltac splits := match goal with |- _ /\ _ => split; [|splits] | _ => idtac end.

Lemma reject_check_ref c v n now :
  synced c ->
  let '(c', r) := reject_check c v n now in
  let q := thr_of (hc_rule c) v in
  let '(st', d) := tb_step q (h_burst (hc_rule c)) (h_dur (hc_rule c) * 1000) (st_of c v) now n in
  synced c' /\ hc_rule c' = hc_rule c /\ is_pass r = d /\ r <> HStuck /\ (forall ms, r <> HWait ms) /\
  st_of c' v = st' /\ (forall v', v' <> v -> st_of c' v' = st_of c v').
Proof.
  intros Hs. unfold reject_check, tb_step.
  set (r := hc_rule c). set (q := thr_of r v).
  destruct (q =? 0) eqn:Eq.
  { splits; auto; try discriminate. }
  destruct (q + h_burst r <? n) eqn:Em.
  { splits; auto; try discriminate. }
  pose proof (Hs v) as Hv. unfold st_of at 1.
  assert (Hsync : forall t k, synced (mkHC r (fset (hc_time c) v t) (fset (hc_tok c) v k) (hc_conc c))).
  { intros t k v'. cbn [hc_time hc_tok]. unfold fset. destruct (v' =? v); [split; discriminate|apply Hs]. }
  assert (Hother : forall tm tk v', v' <> v ->
            st_of (mkHC r (fun k' => if k' =? v then tm else hc_time c k')
                          (fun k' => if k' =? v then tk else hc_tok c k') (hc_conc c)) v' = st_of c v').
  { intros tm tk v' Hne. apply N.eqb_neq in Hne. unfold st_of. cbn [hc_time hc_tok]. rewrite Hne. reflexivity. }
  destruct (hc_time c v) as [last|] eqn:Et; destruct (hc_tok c v) as [rest|] eqn:Ek;
    try (exfalso; destruct Hv as [H1 H2]; (specialize (H1 eq_refl) || specialize (H2 eq_refl)); discriminate).
  - destruct (h_dur r * 1000 <? now - last) eqn:Eg.
    + match goal with |- context [if ?x <? n then _ else _] => destruct (x <? n) eqn:Ea end.
      * splits; auto; try discriminate; try (unfold st_of; rewrite Et, Ek; reflexivity).
      * splits; try discriminate; try reflexivity.
        -- apply Hsync.
        -- unfold st_of. cbn [hc_time hc_tok]. unfold fset. rewrite N.eqb_refl. reflexivity.
        -- intros v' Hne. unfold fset. apply (Hother (Some now) (Some _) v' Hne).
    + destruct (n <=? rest) eqn:Er.
      * splits; try discriminate; try reflexivity.
        -- intros v'. cbn [hc_time hc_tok]. unfold fset.
           destruct (v' =? v) eqn:E; [apply N.eqb_eq in E; subst; rewrite Et; split; discriminate|apply Hs].
        -- unfold st_of. cbn [hc_time hc_tok]. unfold fset. rewrite N.eqb_refl, Et. reflexivity.
        -- intros v' Hne. apply N.eqb_neq in Hne. unfold st_of. cbn [hc_time hc_tok]. unfold fset. rewrite Hne. reflexivity.
      * splits; auto; try discriminate; try (unfold st_of; rewrite Et, Ek; reflexivity).
  - splits; try discriminate; try reflexivity.
    + apply Hsync.
    + unfold st_of. cbn [hc_time hc_tok]. unfold fset. rewrite N.eqb_refl. reflexivity.
    + intros v' Hne. unfold fset. apply (Hother (Some now) (Some _) v' Hne).
Qed.

(** Decisions for value [v] in a run over mixed traffic equal the decisions of the
    reference bucket of [v] run over the requests for [v] alone. *)
Lemma ctl_run_proj c l v :
  synced c ->
  proj_dec v l (map is_pass (ctl_run c l)) =
  tb_run (thr_of (hc_rule c) v) (h_burst (hc_rule c)) (h_dur (hc_rule c) * 1000) (st_of c v) (proj v l).
Proof.
  revert c. induction l as [|[[now v'] n] tl IH]; intros c Hs; [reflexivity|].
  cbn [ctl_run]. pose proof (reject_check_ref c v' n now Hs) as H.
  destruct (reject_check c v' n now) as [c' r].
  cbv zeta in H.
  destruct (tb_step (thr_of (hc_rule c) v') (h_burst (hc_rule c)) (h_dur (hc_rule c) * 1000) (st_of c v') now n)
    as [st' d] eqn:Es.
  destruct H as (Hs' & Hr & Hp & _ & _ & Hst & Hother).
  cbn [map combine proj proj_dec flat_map]. fold (proj v tl).
  change (flat_map _ (combine tl (map is_pass (ctl_run c' tl)))) with (proj_dec v tl (map is_pass (ctl_run c' tl))).
  rewrite (IH c' Hs'), Hr.
  destruct (v' =? v) eqn:E.
  - apply N.eqb_eq in E. subst v'. cbn [app tb_run]. rewrite Es, Hp, Hst. reflexivity.
  - apply N.eqb_neq in E. cbn [app]. rewrite Hother by congruence. reflexivity.
Qed.

Theorem ctl_noninterference r l v :
  proj_dec v l (map is_pass (ctl_run (hctl0 r) l)) =
  tb_run (thr_of r v) (h_burst r) (h_dur r * 1000) None (proj v l).
Proof.
  apply (ctl_run_proj (hctl0 r) l v). intros v'. unfold hctl0, fempty. simpl. tauto.
Qed.

(** ... so the bound holds per value in any mixed traffic *)
Lemma proj_nondecr v l p : 
  (fix nd (prev : N) (l : list req) : Prop :=
     match l with [] => True | (t, _, _) :: tl => prev <= t /\ nd t tl end) p l ->
  nondecr_t p (proj v l).
Proof.
  revert p. induction l as [|[[t v'] n] tl IH]; intros p H; simpl; auto.
  destruct H as [H1 H2]. destruct (v' =? v); simpl.
  - split; auto.
  - specialize (IH t H2). clear - IH H1.
    destruct (proj v tl) as [|[t2 n2] tl2]; simpl in *; auto. destruct IH; split; auto; lia.
Qed.
