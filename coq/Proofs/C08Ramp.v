(** C08: under saturating demand a new second never lowers the allowance (ramp region). *)
From SV Require Import Model.Base Model.F64 Model.LeapArray Model.World Model.WarmUp
  Proofs.C08Proofs Proofs.C08Float Proofs.C08Admit.
From Coq Require Import Reals.
From Flocq Require Import Core Binary.
Open Scope N_scope.

Lemma c08_saturated_second_never_lowers_allowance : forall w now pq u,
  is_finite 53 1024 (wu_thr w) = true -> (0 < B2R 53 1024 (wu_thr w))%R ->
  is_finite 53 1024 (wu_slope w) = true -> (0 <= B2R 53 1024 (wu_slope w))%R ->
  wu_warning w <= wu_stored w -> wu_stored w <= wu_max w ->
  flt pq (ffloor (fdiv (wu_thr w) (f64_of_N (wu_cold w)))) = false ->
  sync_token w now pq = WVal u ->
  wu_warning w <= wu_stored u ->
  is_finite 53 1024 (allowed_of w) = true -> is_finite 53 1024 (allowed_of u) = true ->
  fle (allowed_of w) (allowed_of u) = true.
Proof.
  intros w now pq u Ht Htp Hs Hsp Hw Hm Hq Hsync Hwu Hfw Hfu.
  pose proof (c08_drain_only w now pq u Hw Hm Hq Hsync) as Hd.
  pose proof (sync_token_like w w now pq u (wu_like_refl w Hm) Hsync) as Hl.
  pose proof (wu_like_refl w Hm) as Hl0.
  rewrite (allowed_like w u Hl). rewrite (allowed_like w w Hl0).
  rewrite (allowed_like w u Hl) in Hfu. rewrite (allowed_like w w Hl0) in Hfw.
  exact (c08_allowed_antitone w (wu_stored u) (wu_stored w) Ht Htp Hs Hsp Hwu Hd Hfu Hfw).
Qed.
