(** C08 — warm-up: numeric bounds of the allowed threshold (IEEE binary64, Flocq).
    For sane parameters the allowance lies between about q/c and about q. *)
From Coq Require Import ZArith NArith Reals Lia Lra Bool.
From Flocq Require Import Core Binary Bits Relative.
From SV Require Import Model.Base Model.F64 Model.LeapArray Model.World Model.WarmUp Proofs.C08Proofs Proofs.C08Float.

Local Notation b2r := (B2R 53 1024).
Local Notation fin := (is_finite 53 1024).
Local Notation sgn := (Bsign 53 1024).
Local Notation pinf := (B754_infinity 53 1024 false).

Local Instance prec53 : Prec_gt_0 53 := eq_refl.
Local Instance emax1024 : BinarySingleNaN.Prec_lt_emax 53 1024 := eq_refl.
Local Instance vexp : Valid_exp (SpecFloat.fexp 53 1024) := BinarySingleNaN.fexp_correct 53 1024 prec53.
Local Instance vrnd : Valid_rnd (BinarySingleNaN.round_mode BinarySingleNaN.mode_NE) :=
  BinarySingleNaN.valid_rnd_round_mode BinarySingleNaN.mode_NE.

Local Notation rnd := (round radix2 (SpecFloat.fexp 53 1024) (BinarySingleNaN.round_mode BinarySingleNaN.mode_NE)).
Local Notation big := (bpow radix2 1024).
Local Open Scope R_scope.

(** * One rounding step: a relative factor of at most G = 1 + 2^-52 *)

Definition G : R := 1 + / 4503599627370496.

Lemma G_gt1 : 1 < G.
Proof. unfold G. lra. Qed.

Lemma tiny_val : bpow radix2 (-1022) <= / 1267650600228229401496703205376.   (* 2^-100 *)
Proof.
  change (/ 1267650600228229401496703205376) with (/ IZR (2 ^ 100)).
  change (IZR (2 ^ 100)) with (bpow radix2 100). rewrite <- bpow_opp. apply bpow_le. lia.
Qed.

Lemma huge_val : 1267650600228229401496703205376 < big.   (* 2^100 *)
Proof.
  change 1267650600228229401496703205376 with (IZR (2 ^ 100)).
  change (IZR (2 ^ 100)) with (bpow radix2 100). apply bpow_lt. lia.
Qed.

Lemma rnd_rel : forall x, bpow radix2 (-1022) <= x -> x <= rnd x * G /\ rnd x <= x * G.
Proof.
  intros x Hx. assert (0 < x) as Px by (pose proof (bpow_gt_0 radix2 (-1022)); lra).
  pose proof (relative_error_N_FLT radix2 (-1074) 53 prec53 (fun z => negb (Z.even z)) x) as H.
  change (-1074 + 53 - 1)%Z with (-1022)%Z in H.
  rewrite (Rabs_pos_eq x) in H by lra. specialize (H Hx).
  change (round radix2 (FLT_exp (-1074) 53) (Znearest (fun z => negb (Z.even z))) x) with (rnd x) in H.
  change (bpow radix2 (- (53) + 1)) with (/ IZR (Z.pow_pos radix2 52)) in H.
  change (Z.pow_pos radix2 52) with 4503599627370496%Z in H.
  apply Rabs_le_inv in H. unfold G. split; nra.
Qed.

Definition K99 : R := 633825300114114700748351602688.      (* 2^99 *)
Definition K100 : R := 1267650600228229401496703205376.    (* 2^100 *)
Definition normal (x : R) : Prop := bpow radix2 (-1022) <= x.

Lemma Gpow_pos : forall n, 0 < G ^ n.
Proof. intros n. apply pow_lt. pose proof G_gt1. lra. Qed.

Lemma Gpow_ge1 : forall n, 1 <= G ^ n.
Proof. intros n. apply pow_R1_Rle. pose proof G_gt1. lra. Qed.

Lemma Gpow_mono : forall n m, (n <= m)%nat -> G ^ n <= G ^ m.
Proof. intros n m H. apply Rle_pow; [pose proof G_gt1; lra|exact H]. Qed.

Lemma G16 : G ^ 16 <= 2.
Proof. unfold G. simpl. lra. Qed.

Lemma Gpow_le2 : forall n, (n <= 16)%nat -> G ^ n <= 2.
Proof. intros n H. apply Rle_trans with (G ^ 16); [apply Gpow_mono; exact H|exact G16]. Qed.

Lemma G4 : G ^ 4 <= 1 + / 1099511627776.
Proof. unfold G. simpl. lra. Qed.

Lemma G6 : G ^ 6 * (1 - / 1099511627776) <= 1.
Proof. unfold G. simpl. lra. Qed.

Lemma div_le_mul : forall a b c, 0 < b -> a <= c * b -> a / b <= c.
Proof.
  intros a b c Hb H. apply Rmult_le_reg_r with b; [exact Hb|].
  unfold Rdiv. rewrite Rmult_assoc, Rinv_l by lra. lra.
Qed.

Lemma mul_le_div : forall a b c, 0 < b -> a * b <= c -> a <= c / b.
Proof.
  intros a b c Hb H. apply Rmult_le_reg_r with b; [exact Hb|].
  unfold Rdiv. rewrite Rmult_assoc, Rinv_l by lra. lra.
Qed.

Lemma div_in : forall a b l h, 0 < b -> l * b <= a -> a <= h * b -> l <= a / b <= h.
Proof. intros a b l h Hb H1 H2. split; [apply mul_le_div|apply div_le_mul]; assumption. Qed.

Lemma div_nonneg : forall a b, 0 <= a -> 0 < b -> 0 <= a / b.
Proof. intros a b Ha Hb. apply mul_le_div; [exact Hb|lra]. Qed.

(** [ub n x y]: x is at most y up to n rounding factors; [lb n x y]: x is at least y up to n factors *)
Definition ub (n : nat) (x y : R) : Prop := x <= y * G ^ n.
Definition lb (n : nat) (x y : R) : Prop := y <= x * G ^ n.

Lemma ub_refl : forall x, ub 0 x x.
Proof. intros x. unfold ub. simpl. lra. Qed.

Lemma lb_refl : forall x, lb 0 x x.
Proof. intros x. unfold lb. simpl. lra. Qed.

Lemma ub_weaken : forall n m x y, (n <= m)%nat -> 0 <= y -> ub n x y -> ub m x y.
Proof.
  unfold ub. intros n m x y H Hy U. pose proof (Gpow_mono n m H).
  apply Rle_trans with (y * G ^ n); [exact U|]. apply Rmult_le_compat_l; assumption.
Qed.

Lemma ub_add : forall n x y x' y', ub n x y -> ub n x' y' -> ub n (x + x') (y + y').
Proof. unfold ub. intros n x y x' y' H1 H2. rewrite Rmult_plus_distr_r. lra. Qed.

Lemma ub_div : forall n m x y x' y', ub n x y -> lb m x' y' -> 0 < x' -> 0 < y' -> 0 <= y ->
  ub (n + m) (x / x') (y / y').
Proof.
  unfold ub, lb. intros n m x y x' y' H1 H2 Px Py Hy. rewrite pow_add.
  pose proof (Gpow_pos n) as A. pose proof (Gpow_pos m) as B.
  set (a := G ^ n) in *. set (b := G ^ m) in *.
  apply div_le_mul; [exact Px|].
  replace (y / y' * (a * b) * x') with ((y * a / y') * (x' * b)) by (field; lra).
  apply Rle_trans with (y * a); [exact H1|].
  apply Rle_trans with ((y * a / y') * y'); [right; field; lra|].
  apply Rmult_le_compat_l; [|exact H2].
  apply div_nonneg; [nra|exact Py].
Qed.

Lemma lb_div : forall n m x y x' y', lb n x y -> ub m x' y' -> 0 < x' -> 0 < y' -> 0 <= x ->
  lb (n + m) (x / x') (y / y').
Proof.
  unfold ub, lb. intros n m x y x' y' H1 H2 Px Py Hx. rewrite pow_add.
  pose proof (Gpow_pos n) as A. pose proof (Gpow_pos m) as B.
  set (a := G ^ n) in *. set (b := G ^ m) in *.
  apply div_le_mul; [exact Py|].
  replace (x / x' * (a * b) * y') with ((x * a / x') * (y' * b)) by (field; lra).
  apply Rle_trans with (x * a); [exact H1|].
  apply Rle_trans with ((x * a / x') * x'); [right; field; lra|].
  apply Rmult_le_compat_l; [|exact H2].
  apply div_nonneg; [nra|exact Px].
Qed.

Lemma ub_rnd : forall n x y, ub n x y -> normal y -> ub (S n) (rnd x) y.
Proof.
  unfold ub, normal. intros n x y H Ny.
  pose proof (Gpow_ge1 n) as A. pose proof (bpow_gt_0 radix2 (-1022)) as T.
  assert (bpow radix2 (-1022) <= y * G ^ n) as N2 by nra.
  destruct (rnd_rel _ N2) as [_ U].
  apply Rle_trans with (rnd (y * G ^ n)); [apply rnd_le; exact H|].
  change (G ^ S n) with (G * G ^ n). replace (y * (G * G ^ n)) with (y * G ^ n * G) by ring. exact U.
Qed.

Lemma lb_rnd : forall n x y, lb n x y -> normal x -> lb (S n) (rnd x) y.
Proof.
  unfold lb, normal. intros n x y H Nx. destruct (rnd_rel _ Nx) as [L _].
  pose proof (Gpow_pos n) as A. change (G ^ S n) with (G * G ^ n).
  apply Rle_trans with (x * G ^ n); [exact H|].
  rewrite <- Rmult_assoc.
  apply Rmult_le_compat_r; lra.
Qed.

Lemma normal_of : forall y, / K99 <= y -> normal y.
Proof. intros y H. unfold normal. pose proof tiny_val. unfold K99 in H. lra. Qed.

Lemma ub_hi : forall n x y, ub n x y -> (n <= 16)%nat -> 0 <= y <= K99 -> x <= K100.
Proof.
  unfold ub, K99, K100. intros n x y H Hn Hy.
  pose proof (Gpow_le2 n Hn). pose proof (Gpow_ge1 n).
  assert (y * G ^ n <= y * 2) by (apply Rmult_le_compat_l; lra). lra.
Qed.

Lemma lb_pos : forall n x y, lb n x y -> 0 < y -> 0 < x.
Proof.
  unfold lb. intros n x y H Hy. pose proof (Gpow_pos n) as g.
  destruct (Rlt_le_dec 0 x) as [P|P]; [exact P|]. exfalso.
  assert (x * G ^ n <= 0) by nra. lra.
Qed.

Lemma lb_normal : forall n x y, lb n x y -> (n <= 16)%nat -> / K99 <= y -> normal x.
Proof.
  intros n x y H Hn Hy.
  assert (0 < y) as Py by (unfold K99 in Hy; lra).
  pose proof (lb_pos _ _ _ H Py) as Px. unfold lb in H.
  pose proof (Gpow_le2 n Hn). pose proof (Gpow_ge1 n).
  assert (x * G ^ n <= x * 2) by (apply Rmult_le_compat_l; lra).
  unfold normal. pose proof tiny_val. unfold K99 in Hy. lra.
Qed.

(** * Finite outcomes of the rounded operations *)

Lemma rnd_K100 : rnd K100 = K100.
Proof.
  unfold K100. change 1267650600228229401496703205376 with (IZR (2 ^ 100)).
  change (IZR (2 ^ 100)) with (bpow radix2 100).
  apply round_generic; [exact vrnd|]. apply generic_format_bpow. vm_compute. discriminate.
Qed.

Lemma rspec_fin : forall r z, rspec r z -> 0 <= r <= K100 ->
  fin z = true /\ sgn z = false /\ b2r z = rnd r.
Proof.
  intros r z S [H0 H1]. unfold rspec in S.
  pose proof (rnd_ge0 r H0) as G0. pose proof (rnd_le _ _ H1) as G1. rewrite rnd_K100 in G1.
  rewrite Rlt_bool_true in S.
  - destruct S as (A & B & C). auto.
  - rewrite Rabs_pos_eq by exact G0. pose proof huge_val. unfold K100 in G1. lra.
Qed.

Lemma step : forall r z n m yu yl,
  rspec r z -> 0 <= r -> ub n r yu -> lb m r yl -> (n <= 16)%nat -> (m <= 16)%nat ->
  / K99 <= yu <= K99 -> / K99 <= yl ->
  nnf z /\ ub (S n) (b2r z) yu /\ lb (S m) (b2r z) yl /\ 0 < b2r z.
Proof.
  intros r z n m yu yl S H0 U L Hn Hm [Yu1 Yu2] Yl.
  assert (0 < / K99) as PK by (unfold K99; lra).
  pose proof (ub_hi _ _ _ U Hn (conj (Rlt_le _ _ (Rlt_le_trans _ _ _ PK Yu1)) Yu2)) as Hi.
  pose proof (lb_normal _ _ _ L Hm Yl) as Nr.
  destruct (rspec_fin _ _ S (conj H0 Hi)) as (F & Sg & V).
  split; [split; assumption|]. rewrite V.
  pose proof (lb_rnd _ _ _ L Nr) as L'.
  split; [apply ub_rnd; [exact U|apply normal_of; exact Yu1]|].
  split; [exact L'|]. apply (lb_pos _ _ _ L'). lra.
Qed.

Lemma step_ub : forall r z n yu,
  rspec r z -> 0 <= r -> ub n r yu -> (n <= 16)%nat -> / K99 <= yu <= K99 ->
  nnf z /\ ub (S n) (b2r z) yu /\ 0 <= b2r z.
Proof.
  intros r z n yu S H0 U Hn [Yu1 Yu2].
  assert (0 < / K99) as PK by (unfold K99; lra).
  pose proof (ub_hi _ _ _ U Hn (conj (Rlt_le _ _ (Rlt_le_trans _ _ _ PK Yu1)) Yu2)) as Hi.
  destruct (rspec_fin _ _ S (conj H0 Hi)) as (F & Sg & V).
  split; [split; assumption|]. rewrite V.
  split; [apply ub_rnd; [exact U|apply normal_of; exact Yu1]|apply rnd_ge0; exact H0].
Qed.

Lemma gdiv_rspec : forall x d, nnf x -> nnf d -> 0 < b2r d -> rspec (b2r x / b2r d) (fdiv x d).
Proof.
  intros x d [Fx Sx] [Fd Sd] Pd.
  unfold fdiv, b64_div.
  match goal with |- context [Bdiv 53 1024 ?a ?b ?nn ?m x d] =>
    pose proof (Bdiv_correct 53 1024 a b nn m x d) as H end.
  assert (b2r d <> 0) as Nz by lra. specialize (H Nz).
  unfold rspec. destruct (Rlt_bool _ _).
  - destruct H as (A & B & C). rewrite Fx in B.
    split; [exact A|]. split; [exact B|]. rewrite C by (apply fin_not_nan; exact B).
    rewrite Sx, Sd. reflexivity.
  - rewrite Sx, Sd in H. apply overflow_pinf. exact H.
Qed.

Lemma ofN_fin : forall n, (n <= 18446744073709551616)%N ->
  nnf (f64_of_N n) /\ b2r (f64_of_N n) = rnd (IZR (Z.of_N n)).
Proof.
  intros n H. pose proof (ofN_rspec n) as S.
  assert (0 <= IZR (Z.of_N n) <= K100) as B.
  { split; [apply IZR_le; lia|]. unfold K100. apply IZR_le. lia. }
  destruct (rspec_fin _ _ S B) as (F & Sg & V). split; [split; assumption|exact V].
Qed.

Lemma ofN_le : forall A D, (A <= D)%N -> (D <= 18446744073709551616)%N ->
  nnf (f64_of_N A) /\ 0 <= b2r (f64_of_N A) <= b2r (f64_of_N D).
Proof.
  intros A D H1 H2.
  destruct (ofN_fin A) as [NA VA]; [lia|]. destruct (ofN_fin D H2) as [ND VD].
  split; [exact NA|]. rewrite VA, VD. split.
  - apply rnd_ge0. apply IZR_le. lia.
  - apply rnd_le. apply IZR_le. lia.
Qed.

(** * One step of the bit pattern on a positive normal value adds one unit in the last place *)

Lemma bounded_normal : forall m e, (2^52 <= Zpos m < 2^53)%Z -> (-1074 <= e <= 971)%Z ->
  SpecFloat.bounded 53 1024 m e = true.
Proof.
  intros m e Hm He. unfold SpecFloat.bounded. apply andb_true_iff. split.
  - unfold SpecFloat.canonical_mantissa. apply Zeq_bool_true. rewrite Zpos_digits2_pos.
    rewrite (Zdigits_unique radix2 (Zpos m) 53).
    + unfold SpecFloat.fexp, SpecFloat.emin. lia.
    + change (Z.abs (Zpos m)) with (Zpos m).
      change (Zpower radix2 (53 - 1)) with (2^52)%Z. change (Zpower radix2 53) with (2^53)%Z. exact Hm.
  - apply Z.leb_le. lia.
Qed.

Lemma next_after_is : forall x y : f64, nnf x -> fbits y = (fbits x + 1)%Z -> next_after x = y.
Proof.
  intros x y Nx E. rewrite (next_after_nnf x Nx). rewrite <- E.
  unfold f64_of_bits, fbits, b64_of_bits, bits_of_b64.
  exact (binary_float_of_bits_of_binary_float 52 11 eq_refl eq_refl eq_refl y).
Qed.

Lemma next_after_val : forall x, nnf x -> normal (b2r x) -> b2r x <= K100 ->
  fin (next_after x) = true /\ b2r x <= b2r (next_after x) <= b2r x * G.
Proof.
  intros x Nx Lo Hi. pose proof Nx as [Fx Sx]. unfold normal in Lo.
  pose proof (bpow_gt_0 radix2 (-1022)) as T.
  destruct x as [s|s|s p H|s m e H]; try discriminate.
  - simpl in Lo. lra.
  - simpl in Sx. subst s.
    destruct (bits_fin m e H) as (E & A & B & C).
    assert (b2r (B754_finite 53 1024 false m e H) = IZR (Zpos m) * bpow radix2 e) as V by reflexivity.
    rewrite V in *.
    pose proof (bpow_gt_0 radix2 e) as Pe.
    assert (2^52 <= Zpos m)%Z as M52.
    { destruct (Z.eq_dec e (-1074)) as [Ee|Ne]; [|apply C; lia].
      subst e. apply le_IZR. apply Rmult_le_reg_r with (bpow radix2 (-1074)); [exact Pe|].
      change (IZR (2^52)) with (bpow radix2 52). rewrite <- bpow_plus. exact Lo. }
    assert (4503599627370496 <= IZR (Zpos m)) as M52r.
    { change 4503599627370496 with (IZR (2^52)). apply IZR_le. exact M52. }
    assert (e <= 100)%Z as E100.
    { apply (le_bpow radix2). change (bpow radix2 100) with K100.
      apply Rle_trans with (IZR (Z.pos m) * bpow radix2 e); [|exact Hi]. nra. }
    assert (bpow radix2 e <= IZR (Zpos m) * bpow radix2 e * / 4503599627370496) as Ulp by nra.
    destruct (Z_lt_le_dec (Zpos m + 1) (2^53)) as [Small|Carry].
    + assert (SpecFloat.bounded 53 1024 (m + 1) e = true) as Hb.
      { apply bounded_normal; [rewrite Pos2Z.inj_add|]; lia. }
      set (y := B754_finite 53 1024 false (m + 1) e Hb).
      assert (next_after (B754_finite 53 1024 false m e H) = y) as Ey.
      { apply next_after_is; [exact Nx|]. unfold y.
        destruct (bits_fin (m + 1) e Hb) as (E' & _). rewrite E', E, Pos2Z.inj_add. lia. }
      rewrite Ey. split; [reflexivity|].
      assert (b2r y = (IZR (Zpos m) + 1) * bpow radix2 e) as Vy.
      { unfold y. simpl. unfold F2R. simpl Fnum. simpl Fexp. rewrite Pos2Z.inj_add, plus_IZR. reflexivity. }
      rewrite Vy. unfold G. split; nra.
    + assert (Zpos m + 1 = 2^53)%Z as M53 by lia.
      assert (SpecFloat.bounded 53 1024 4503599627370496 (e + 1) = true) as Hb.
      { apply bounded_normal; lia. }
      set (y := B754_finite 53 1024 false 4503599627370496 (e + 1) Hb).
      assert (next_after (B754_finite 53 1024 false m e H) = y) as Ey.
      { apply next_after_is; [exact Nx|]. unfold y.
        destruct (bits_fin 4503599627370496 (e + 1) Hb) as (E' & _). rewrite E', E. lia. }
      rewrite Ey. split; [reflexivity|].
      assert (b2r y = (IZR (Zpos m) + 1) * bpow radix2 e) as Vy.
      { unfold y. simpl. unfold F2R. simpl Fnum. simpl Fexp.
        rewrite bpow_plus. change (bpow radix2 1) with 2.
        replace (IZR (Zpos m) + 1) with (IZR (2^53)) by (rewrite <- M53, plus_IZR; reflexivity).
        change (IZR (2^53)) with 9007199254740992. lra. }
      rewrite Vy. unfold G. split; nra.
Qed.

(** * The chain of rounded operations of [wu_new] and [allowed_of] *)

Section Chain.
Variable thr : f64.
Variable cN : N.
Hypothesis Fthr : fin thr = true.
Hypothesis Hq : 1 <= b2r thr <= 1073741824.
Hypothesis HcN : (2 <= cN <= 1048576)%N.

Local Notation q := (b2r thr).
Local Notation c := (IZR (Z.of_N cN)).

Lemma Hc : 2 <= c <= 1048576.
Proof. split; apply IZR_le; lia. Qed.

Lemma thr_nnf : nnf thr.
Proof. split; [exact Fthr|apply pos_sgn_false; [exact Fthr|lra]]. Qed.

Lemma mag_cm1q : / K99 <= (c - 1) / q <= K99.
Proof. pose proof Hc. unfold K99. apply div_in; lra. Qed.

Lemma mag_cm1q' : / 1073741824 <= (c - 1) / q <= 1048576.
Proof. pose proof Hc. apply div_in; lra. Qed.

Lemma mag_1q : / K99 <= 1 / q <= K99.
Proof. unfold K99. apply div_in; lra. Qed.

Lemma mag_cq : / K99 <= c / q <= K99.
Proof. pose proof Hc. unfold K99. apply div_in; lra. Qed.

Lemma mag_qc : / K99 <= q / c <= K99.
Proof. pose proof Hc. unfold K99. apply div_in; lra. Qed.

Lemma cm1_props :
  nnf (f64_of_N (cN - 1)) /\ ub 1 (b2r (f64_of_N (cN - 1))) (c - 1) /\
  lb 1 (b2r (f64_of_N (cN - 1))) (c - 1) /\ 0 < b2r (f64_of_N (cN - 1)).
Proof.
  pose proof Hc as HC.
  assert (IZR (Z.of_N (cN - 1)) = c - 1) as E.
  { rewrite N2Z.inj_sub by lia. rewrite minus_IZR. reflexivity. }
  pose proof (ofN_rspec (cN - 1)) as S. rewrite E in S.
  apply (step _ _ 0%nat 0%nat _ _ S); try lia; try lra.
  - apply ub_refl.
  - apply lb_refl.
  - unfold K99. lra.
  - unfold K99. lra.
Qed.

Lemma k_props : let k := fdiv (f64_of_N (cN - 1)) thr in
  nnf k /\ ub 2 (b2r k) ((c - 1) / q) /\ lb 2 (b2r k) ((c - 1) / q) /\ 0 < b2r k.
Proof.
  intros k. pose proof Hc as HC.
  destruct cm1_props as (N1 & U1 & L1 & P1).
  assert (0 < q) as Pq by lra.
  pose proof (gdiv_rspec _ _ N1 thr_nnf Pq) as S.
  apply (step _ _ 1%nat 1%nat _ _ S); try lia.
  - apply div_nonneg; lra.
  - apply (ub_div 1 0 _ _ _ _ U1 (lb_refl q) Pq Pq). lra.
  - apply (lb_div 1 0 _ _ _ _ L1 (ub_refl q) Pq Pq). lra.
  - exact mag_cm1q.
  - apply mag_cm1q.
Qed.

Lemma d_props : forall D, (1 <= D <= 18446744073709551616)%N ->
  nnf (f64_of_N D) /\ / 2 <= b2r (f64_of_N D) <= 36893488147419103232.
Proof.
  intros D HD. pose proof (ofN_rspec D) as S.
  assert (1 <= IZR (Z.of_N D) <= 18446744073709551616) as B.
  { split; apply IZR_le; lia. }
  destruct (step _ _ 0%nat 0%nat (IZR (Z.of_N D)) (IZR (Z.of_N D)) S) as (Nd & U & L & P); try lia; try lra.
  - apply ub_refl.
  - apply lb_refl.
  - unfold K99. lra.
  - unfold K99. lra.
  - split; [exact Nd|]. unfold ub, lb in *.
    pose proof (Gpow_le2 1) as G2. pose proof (Gpow_ge1 1) as G1.
    assert (G ^ 1 <= 2) as G2' by (apply G2; lia).
    split; nra.
Qed.

Lemma slope_props : forall W M, (M <= 18446744073709551616)%N ->
  let sl := if (W <? M)%N then fdiv (fdiv (f64_of_N (cN - 1)) thr) (f64_of_N (M - W)) else f64_of_Z 0 in
  nnf sl /\ 0 <= b2r sl /\ b2r (f64_of_N (M - W)) * b2r sl <= (c - 1) / q * G ^ 3.
Proof.
  intros W M HM sl. pose proof Hc as HC. pose proof mag_cm1q as Mg.
  assert (0 < q) as Pq by lra.
  assert (0 < / K99) as PK by (unfold K99; lra).
  subst sl. destruct (W <? M)%N eqn:EW.
  - apply N.ltb_lt in EW.
    destruct (d_props (M - W)) as (Nd & Bd); [lia|].
    destruct k_props as (Nk & Uk & Lk & Pk).
    set (k := fdiv (f64_of_N (cN - 1)) thr) in *.
    set (d := b2r (f64_of_N (M - W))) in *.
    assert (0 < d) as Pd by lra.
    pose proof (gdiv_rspec _ _ Nk Nd Pd) as S. fold d in S.
    destruct (step_ub _ _ 2%nat ((c - 1) / q / d) S) as (Ns & Us & Ps); try lia.
    + apply div_nonneg; lra.
    + apply (ub_div 2 0 _ _ _ _ Uk (lb_refl d) Pd Pd). lra.
    + pose proof mag_cm1q' as Mg'. unfold K99 in *. apply div_in; [exact Pd| |]; lra.
    + split; [exact Ns|]. split; [exact Ps|].
      unfold ub in Us.
      apply Rle_trans with (d * ((c - 1) / q / d * G ^ 3)).
      * apply Rmult_le_compat_l; lra.
      * right. field. lra.
  - change (f64_of_Z 0) with (f64_of_N 0).
    destruct (ofN_fin 0) as [N0 V0]; [lia|].
    change (IZR (Z.of_N 0)) with 0 in V0. rewrite round_0 in V0 by exact vrnd.
    split; [exact N0|]. rewrite V0. split; [lra|].
    rewrite Rmult_0_r. pose proof (Gpow_pos 3). nra.
Qed.

Lemma quot_props : forall sl dval A,
  nnf sl -> 0 <= b2r sl -> nnf (f64_of_N A) -> 0 <= b2r (f64_of_N A) <= dval ->
  dval * b2r sl <= (c - 1) / q * G ^ 3 ->
  let qt := quot thr sl A in
  nnf qt /\ ub 3 (b2r qt) q /\ lb 6 (b2r qt) (q / c).
Proof.
  intros sl dval A Nsl Psl NA BA Hprod qt. pose proof Hc as HC.
  assert (0 < q) as Pq by lra.
  assert (0 < / K99) as PK by (unfold K99; lra).
  pose proof mag_cm1q as M1. pose proof mag_1q as M2. pose proof mag_cq as M3. pose proof mag_qc as M4.
  (* above * slope *)
  pose proof (mul_rspec _ _ NA Nsl) as S1.
  destruct (step_ub _ _ 3%nat ((c - 1) / q) S1) as (N1 & U1 & P1); try lia.
  { apply Rmult_le_pos; lra. }
  { unfold ub. apply Rle_trans with (dval * b2r sl); [|exact Hprod].
    apply Rmult_le_compat_r; lra. }
  { exact M1. }
  (* 1 / threshold *)
  pose proof (div_rspec _ thr_nnf Pq) as S2.
  destruct (step _ _ 0%nat 0%nat (1 / q) (1 / q) S2) as (N2 & U2 & L2 & P2); try lia.
  { apply div_nonneg; lra. }
  { apply ub_refl. }
  { apply lb_refl. }
  { exact M2. }
  { apply M2. }
  (* the sum *)
  set (t1 := fmul (f64_of_N A) sl) in *. set (t2 := fdiv one thr) in *.
  pose proof (add_rspec _ _ N1 N2 P2) as S3.
  assert (ub 4 (b2r t1 + b2r t2) (c / q)) as U3.
  { replace (c / q) with ((c - 1) / q + 1 / q) by (field; lra).
    apply ub_add; [exact U1|]. apply (ub_weaken 1 4); [lia|lra|exact U2]. }
  assert (lb 1 (b2r t1 + b2r t2) (1 / q)) as L3.
  { unfold lb in *. pose proof (Gpow_pos 1). 
    apply Rle_trans with (b2r t2 * G ^ 1); [exact L2|]. apply Rmult_le_compat_r; lra. }
  destruct (step _ _ 4%nat 1%nat (c / q) (1 / q) S3 (Rplus_le_le_0_compat _ _ P1 (Rlt_le _ _ P2)) U3 L3)
    as (N3 & U4 & L4 & P4); try lia.
  { exact M3. }
  { apply M2. }
  (* the quotient *)
  set (sm := fadd t1 t2) in *.
  pose proof (div_rspec _ N3 P4) as S4.
  assert (0 < 1 / q) as P1q by lra.
  assert (0 < c / q) as Pcq by lra.
  pose proof (ub_div 0 2 _ _ _ _ (ub_refl 1) L4 P4 P1q Rle_0_1) as U5.
  replace (1 / (1 / q)) with q in U5 by (field; lra).
  pose proof (lb_div 0 5 _ _ _ _ (lb_refl 1) U4 P4 Pcq Rle_0_1) as L5.
  replace (1 / (c / q)) with (q / c) in L5 by (field; lra).
  assert (0 <= 1 / b2r sm) as P5 by (apply div_nonneg; lra).
  destruct (step _ _ 2%nat 5%nat q (q / c) S4 P5 U5 L5) as (N5 & U6 & L6 & P6); try lia.
  { unfold K99 in *. lra. }
  { apply M4. }
  split; [exact N5|]. split; [exact U6|exact L6].
Qed.

Lemma allow_props : forall sl dval A,
  nnf sl -> 0 <= b2r sl -> nnf (f64_of_N A) -> 0 <= b2r (f64_of_N A) <= dval ->
  dval * b2r sl <= (c - 1) / q * G ^ 3 ->
  let a := next_after (quot thr sl A) in
  fin a = true /\ q / c * (1 - / 1099511627776) <= b2r a <= q * (1 + / 1099511627776).
Proof.
  intros sl dval A Nsl Psl NA BA Hprod a. pose proof Hc as HC.
  destruct (quot_props sl dval A Nsl Psl NA BA Hprod) as (Nq & Uq & Lq).
  set (qt := quot thr sl A) in *.
  pose proof mag_qc as M4.
  assert (0 < / K99) as PK by (unfold K99; lra).
  assert (normal (b2r qt)) as Nr by (apply (lb_normal _ _ _ Lq); [lia|apply M4]).
  assert (b2r qt <= K100) as Hi by (apply (ub_hi _ _ _ Uq); [lia|unfold K99; lra]).
  destruct (next_after_val qt Nq Nr Hi) as (Fa & A1 & A2). fold a in Fa, A1, A2.
  split; [exact Fa|].
  unfold ub, lb in *.
  pose proof G4 as g4. pose proof G6 as g6. pose proof (Gpow_pos 3) as g3. pose proof (Gpow_pos 6) as g6p.
  assert (0 < b2r qt) as Pqt.
  { apply (lb_pos 6 _ (q / c)); [exact Lq|lra]. }
  split.
  - (* q/c <= qt * G^6 <= a * G^6, and G^6 (1 - 2^-40) <= 1 *)
    apply Rle_trans with (b2r a * G ^ 6 * (1 - / 1099511627776)).
    + apply Rmult_le_compat_r; [lra|]. apply Rle_trans with (b2r qt * G ^ 6); [exact Lq|].
      apply Rmult_le_compat_r; lra.
    + rewrite Rmult_assoc. rewrite <- (Rmult_1_r (b2r a)) at 2.
      apply Rmult_le_compat_l; lra.
  - apply Rle_trans with (b2r qt * G); [exact A2|].
    apply Rle_trans with (q * G ^ 3 * G).
    + apply Rmult_le_compat_r; [pose proof G_gt1; lra|exact Uq].
    + replace (q * G ^ 3 * G) with (q * G ^ 4) by (simpl; ring).
      apply Rmult_le_compat_l; lra.
Qed.

End Chain.

(** * The allowance of the warm-up calculator lies between about q/c and about q *)

Local Opaque fdiv fmul fadd f64_of_N f64_of_Z f64_to_u64 next_after.

Lemma wu_max_le : forall thr cold period,
  (wu_max (wu_new thr cold period) <= 18446744073709551616)%N.
Proof.
  intros thr cold period. unfold wu_new. cbn [wu_max]. unfold sat_add, sat_mul, U64MAX. lia.
Qed.

(** the period plays no role in the bounds *)
Theorem c08_allowance_bounds_any_period : forall thr cold period s,
  is_finite 53 1024 thr = true ->
  (1 <= B2R 53 1024 thr <= 1073741824)%R ->
  (cold <= 1048576)%N ->
  let w := wu_new thr cold period in
  (s <= wu_max w)%N ->
  let q := B2R 53 1024 thr in
  let c := IZR (Z.of_N (if (cold <=? 1)%N then 3%N else cold)) in
  let a := B2R 53 1024 (allowed_of (with_stored w s)) in
  is_finite 53 1024 (allowed_of (with_stored w s)) = true /\
  (q / c * (1 - / 1099511627776) <= a <= q * (1 + / 1099511627776))%R.
Proof.
  intros thr cold period s Fthr Hq Hcold w Hs q c a.
  set (cN := if (cold <=? 1)%N then 3%N else cold) in *.
  assert ((2 <= cN <= 1048576)%N) as HcN.
  { unfold cN. destruct (cold <=? 1)%N eqn:E; [lia|]. apply N.leb_gt in E. lia. }
  pose proof (wu_max_le thr cold period) as HM. fold w in HM.
  assert (wu_thr w = thr) as Et by reflexivity.
  assert (wu_slope w = if (wu_warning w <? wu_max w)%N
                       then fdiv (fdiv (f64_of_N (cN - 1)) thr) (f64_of_N (wu_max w - wu_warning w))
                       else f64_of_Z 0) as Es by reflexivity.
  pose proof (Hc thr cN Fthr HcN) as HC.
  subst a q c.
  destruct (N.lt_ge_cases s (wu_warning w)) as [Lt|Ge].
  - assert (allowed_of (with_stored w s) = thr) as Ea.
    { rewrite (c08_warm_means_threshold (with_stored w s)); [reflexivity|exact Lt]. }
    rewrite Ea. split; [exact Fthr|].
    assert (0 <= b2r thr / IZR (Z.of_N cN)) as P by (apply div_nonneg; lra).
    assert (b2r thr / IZR (Z.of_N cN) <= b2r thr) as L by (apply div_le_mul; nra).
    set (t := b2r thr / IZR (Z.of_N cN)) in *. split; lra.
  - rewrite (allowed_above w s Ge). rewrite Et, Es.
    destruct (slope_props thr cN Fthr Hq HcN (wu_warning w) (wu_max w) HM) as (Nsl & Psl & Hprod).
    destruct (ofN_le (s - wu_warning w) (wu_max w - wu_warning w)) as (NA & BA); [lia|lia|].
    exact (allow_props thr cN Fthr Hq HcN _ _ _ Nsl Psl NA BA Hprod).
Qed.

Theorem c08_allowance_bounds : forall thr cold period s,
  is_finite 53 1024 thr = true ->
  (1 <= B2R 53 1024 thr <= 1073741824)%R ->
  (cold <= 1048576)%N -> (1 <= period <= 1048576)%N ->
  let w := wu_new thr cold period in
  (s <= wu_max w)%N ->
  let q := B2R 53 1024 thr in
  let c := IZR (Z.of_N (if (cold <=? 1)%N then 3%N else cold)) in
  let a := B2R 53 1024 (allowed_of (with_stored w s)) in
  is_finite 53 1024 (allowed_of (with_stored w s)) = true /\
  (q / c * (1 - / 1099511627776) <= a <= q * (1 + / 1099511627776))%R.
Proof.
  intros thr cold period s Fthr Hq Hcold _. exact (c08_allowance_bounds_any_period thr cold period s Fthr Hq Hcold).
Qed.

Print Assumptions c08_allowance_bounds.
