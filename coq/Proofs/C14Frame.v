(** C14: basic facts on the micro-step machine, the invariant frame, termination. *)
From SV Require Import Model.Base Model.LeapArray Model.World Model.Conc Spec.C14Spec.
From Coq Require Import Lia ZifyBool ZifyN.
Open Scope N_scope.

Ltac inv_trip :=
  match goal with
  | H : (_, _, _) = (_, _, _) |- _ => inversion H; subst; clear H
  end.

Ltac destr_exec H :=
  unfold exec in H; cbv zeta in H;
  repeat match type of H with
         | context [match ?x with _ => _ end] => destruct x eqn:?
         end;
  inv_trip.

Lemma exec_code racy tid st t i st' t' p :
  exec racy tid st t i = (st', t', p) -> t_code t' = t_code t /\ t_done t' = t_done t.
Proof. intros H. destruct i; destr_exec H; auto. Qed.

Lemma exec_now racy tid st t i st' t' p :
  exec racy tid st t i = (st', t', p) -> c_now st' = c_now st.
Proof. intros H. destruct i; try destruct s; destr_exec H; auto. Qed.

Lemma upd_upd {A} (l : list A) i x y : upd (upd l i x) i y = upd l i y.
Proof. revert i; induction l as [|h tl IH]; intros [|i]; simpl; auto. f_equal; auto. Qed.

Lemma upd_same {A} (l : list A) i x : nth_error l i = Some x -> upd l i x = l.
Proof. revert i; induction l as [|h tl IH]; intros [|i] H; simpl in *; try discriminate; auto.
  - inversion H; auto.
  - f_equal; auto. Qed.

Lemma nth_error_upd {A} (l : list A) i j x :
  nth_error (upd l i x) j = if Nat.eqb i j then match nth_error l j with Some _ => Some x | None => None end else nth_error l j.
Proof.
  destruct (Nat.eqb_spec i j) as [->|Hn].
  - destruct (nth_error l j) eqn:E.
    + eapply nth_error_upd_same; eauto.
    + apply nth_error_None. rewrite length_upd. apply nth_error_None; auto.
  - apply nth_error_upd_other; auto.
Qed.

Section Frame.
Variable racy : bool.
Variable Inv : N -> cstate -> list thr -> Prop.
Hypothesis Hexec : forall r st ths tid t i tl st' t' p,
  Inv r st ths -> nth_error ths tid = Some t -> t_done t = false -> t_code t = i :: tl ->
  exec racy (N.of_nat tid) st (set_code t tl false) i = (st', t', p) ->
  Inv r st' (upd ths tid t').
Hypothesis Hdone : forall r st ths tid t,
  Inv r st ths -> nth_error ths tid = Some t -> t_done t = false -> t_code t = [] ->
  Inv r st (upd ths tid (set_code t [] true)).
Hypothesis Hadv : forall r st ths dt, Inv (dt + r) st ths -> Inv r (advance st dt) ths.

Lemma seg_inv r tid : forall code st ths t st' t' p,
  Inv r st ths -> nth_error ths tid = Some t -> t_done t = false -> t_code t = code ->
  seg racy (N.of_nat tid) st t code = (st', t', p) ->
  Inv r st' (upd ths tid t').
Proof.
  induction code as [|i tl IH]; intros st ths t st' t' p HI Hn Hd Hc Hs; simpl in Hs.
  - inversion Hs; subst. eapply Hdone; eauto.
  - destruct (exec racy (N.of_nat tid) st (set_code t tl false) i) as [[st1 t1] p1] eqn:E.
    pose proof (exec_code _ _ _ _ _ _ _ _ E) as [Hc1 Hd1]. simpl in Hc1, Hd1.
    assert (HI1 : Inv r st1 (upd ths tid t1)) by (eapply Hexec; eauto).
    destruct p1.
    + inversion Hs; subst; auto.
    + specialize (IH st1 (upd ths tid t1) t1 st' t' p HI1).
      rewrite upd_upd in IH. apply IH; auto.
      eapply nth_error_upd_same; eauto.
Qed.

Lemma sched_step_inv r st ths tid st' ths' tr :
  Inv r st ths -> sched_step racy st ths tid = (st', ths', tr) -> Inv r st' ths'.
Proof.
  unfold sched_step. intros HI H.
  destruct (nth_error ths tid) as [t|] eqn:En; [|inversion H; subst; auto].
  destruct (t_done t) eqn:Ed; [inversion H; subst; auto|].
  destruct (seg racy (N.of_nat tid) st t (t_code t)) as [[st1 t1] p1] eqn:Es.
  inversion H; subst. eapply seg_inv; eauto.
Qed.

Lemma run_sched_inv : forall steps r st ths st' ths' tr,
  Inv (total_dt steps + r) st ths -> run_sched racy st ths steps = (st', ths', tr) -> Inv r st' ths'.
Proof.
  induction steps as [|[tid dt] tl IH]; intros r st ths st' ths' tr HI H; simpl in H.
  - inversion H; subst. unfold total_dt in HI; simpl in HI. replace (0 + r) with r in HI by lia. auto.
  - destruct (sched_step racy (advance st dt) ths tid) as [[st1 ths1] tr1] eqn:E1.
    destruct (run_sched racy st1 ths1 tl) as [[st2 ths2] tr2] eqn:E2.
    inversion H; subst.
    eapply IH; [|eauto]. eapply sched_step_inv; [|eauto]. apply Hadv.
    unfold total_dt in *; simpl in HI. unfold sumN in *.
    replace (dt + (fold_right N.add 0 (map snd tl) + r)) with (dt + fold_right N.add 0 (map snd tl) + r) by lia. auto.
Qed.

Lemma round_inv r : forall tids st ths st' ths' tr,
  Inv r st ths -> round racy st ths tids = (st', ths', tr) -> Inv r st' ths'.
Proof.
  induction tids as [|tid tl IH]; intros st ths st' ths' tr HI H; simpl in H.
  - inversion H; subst; auto.
  - destruct (sched_step racy st ths tid) as [[st1 ths1] tr1] eqn:E1.
    destruct (round racy st1 ths1 tl) as [[st2 ths2] tr2] eqn:E2.
    inversion H; subst. eapply IH; [|eauto]. eapply sched_step_inv; eauto.
Qed.

Lemma finish_inv r : forall fuel st ths st' ths' tr,
  Inv r st ths -> finish racy fuel st ths = (st', ths', tr) -> Inv r st' ths'.
Proof.
  induction fuel as [|f IH]; intros st ths st' ths' tr HI H; simpl in H.
  - inversion H; subst; auto.
  - destruct (all_done ths); [inversion H; subst; auto|].
    destruct (round racy st ths (seq 0 (length ths))) as [[st1 ths1] tr1] eqn:E1.
    destruct (finish racy f st1 ths1) as [[st2 ths2] tr2] eqn:E2.
    inversion H; subst. eapply IH; [|eauto]. eapply round_inv; eauto.
Qed.
End Frame.

(** * Termination *)
Definition mu1 (t : thr) : nat := if t_done t then O else S (length (t_code t)).
Definition mu (ths : list thr) : nat := fold_right (fun t acc => (mu1 t + acc)%nat) O ths.

Lemma mu_upd : forall ths tid t t', nth_error ths tid = Some t ->
  (mu (upd ths tid t') + mu1 t = mu ths + mu1 t')%nat.
Proof.
  induction ths as [|h tl IH]; intros [|tid] t t' H; simpl in *; try discriminate.
  - inversion H; subst. lia.
  - specialize (IH _ _ t' H). lia.
Qed.

Lemma seg_mu racy tid : forall code st t st' t' p,
  t_code t = code -> seg racy tid st t code = (st', t', p) ->
  (mu1 t' < S (length code))%nat.
Proof.
  induction code as [|i tl IH]; intros st t st' t' p Hc Hs; simpl in Hs.
  - inversion Hs; subst. unfold mu1; simpl. lia.
  - destruct (exec racy tid st (set_code t tl false) i) as [[st1 t1] p1] eqn:E.
    pose proof (exec_code _ _ _ _ _ _ _ _ E) as [Hc1 Hd1]. simpl in Hc1, Hd1.
    destruct p1.
    + assert (t1 = t') by congruence. subst t'. unfold mu1. rewrite Hd1, Hc1. simpl. lia.
    + specialize (IH _ _ _ _ _ Hc1 Hs). simpl. lia.
Qed.

Lemma sched_step_mu racy st ths tid st' ths' tr :
  sched_step racy st ths tid = (st', ths', tr) ->
  length ths' = length ths /\ (mu ths' <= mu ths)%nat /\
  (forall t, nth_error ths tid = Some t -> t_done t = false -> (mu ths' < mu ths)%nat).
Proof.
  unfold sched_step. intros H.
  destruct (nth_error ths tid) as [t|] eqn:En; [|inversion H; subst; repeat split; auto; intros; discriminate].
  destruct (t_done t) eqn:Ed; [inversion H; subst; repeat split; auto; intros ? Ht; inversion Ht; subst; congruence|].
  destruct (seg racy (N.of_nat tid) st t (t_code t)) as [[st1 t1] p1] eqn:Es.
  inversion H; subst.
  pose proof (seg_mu _ _ _ _ _ _ _ _ eq_refl Es) as Hm.
  pose proof (mu_upd _ _ _ t1 En) as Hu.
  assert (mu1 t = S (length (t_code t))) by (unfold mu1; rewrite Ed; auto).
  rewrite length_upd. repeat split; auto; intros; lia.
Qed.

Lemma round_mu racy : forall tids st ths st' ths' tr,
  round racy st ths tids = (st', ths', tr) ->
  length ths' = length ths /\ (mu ths' <= mu ths)%nat /\
  (forall tid t, In tid tids -> nth_error ths tid = Some t -> t_done t = false -> (mu ths' < mu ths)%nat).
Proof.
  induction tids as [|tid tl IH]; intros st ths st' ths' tr H; simpl in H.
  - inversion H; subst. repeat split; auto. intros ? ? [].
  - destruct (sched_step racy st ths tid) as [[st1 ths1] tr1] eqn:E1.
    destruct (round racy st1 ths1 tl) as [[st2 ths2] tr2] eqn:E2.
    inversion H; subst.
    destruct (sched_step_mu _ _ _ _ _ _ _ E1) as (L1 & M1 & S1).
    destruct (IH _ _ _ _ _ E2) as (L2 & M2 & S2).
    repeat split; try lia.
    intros tid' t [->|Hin] Hn Hd.
    + specialize (S1 _ Hn Hd). lia.
    + destruct (nth_error ths tid) as [t0|] eqn:En0.
      * destruct (t_done t0) eqn:Ed0.
        -- unfold sched_step in E1. rewrite En0, Ed0 in E1. inversion E1; subst.
           specialize (S2 _ _ Hin Hn Hd). lia.
        -- specialize (S1 _ eq_refl Ed0). lia.
      * unfold sched_step in E1. rewrite En0 in E1. inversion E1; subst.
        specialize (S2 _ _ Hin Hn Hd). lia.
Qed.

Lemma all_done_false ths : all_done ths = false ->
  exists tid t, In tid (seq 0 (length ths)) /\ nth_error ths tid = Some t /\ t_done t = false.
Proof.
  unfold all_done. induction ths as [|h tl IH]; simpl; intros H; [discriminate|].
  destruct (t_done h) eqn:Eh; simpl in H.
  - destruct (IH H) as (tid & t & Hin & Hn & Hd).
    exists (S tid), t. split; [|split; auto].
    right. rewrite <- seq_shift. apply in_map; auto.
  - exists O, h. split; [left; auto|split; auto].
Qed.

Lemma mu_zero ths : mu ths = O -> all_done ths = true.
Proof.
  unfold all_done. induction ths as [|h tl IH]; simpl; auto. intros H.
  unfold mu1 in H. destruct (t_done h); simpl; [apply IH; lia|lia].
Qed.

Lemma finish_done racy : forall fuel st ths st' ths' tr,
  (mu ths <= fuel)%nat -> finish racy fuel st ths = (st', ths', tr) -> all_done ths' = true.
Proof.
  induction fuel as [|f IH]; intros st ths st' ths' tr Hm H; simpl in H.
  - inversion H; subst. apply mu_zero. lia.
  - destruct (all_done ths) eqn:Ea; [inversion H; subst; auto|].
    destruct (round racy st ths (seq 0 (length ths))) as [[st1 ths1] tr1] eqn:E1.
    destruct (finish racy f st1 ths1) as [[st2 ths2] tr2] eqn:E2.
    inversion H; subst.
    destruct (round_mu _ _ _ _ _ _ _ E1) as (L1 & M1 & S1).
    destruct (all_done_false _ Ea) as (tid & t & Hin & Hn & Hd).
    specialize (S1 _ _ Hin Hn Hd).
    eapply IH; [|eauto]. lia.
Qed.

Lemma mu_le_total ths : (mu ths <= code_total ths)%nat.
Proof.
  induction ths as [|h tl IH]; simpl; auto. unfold mu1. destruct (t_done h); lia.
Qed.

Theorem c14_all_finish0 : forall racy base mode progs steps st ths tr,
  run_case racy base mode progs steps = (st, ths, tr) -> all_done ths = true.
Proof.
  intros racy base mode progs steps st ths tr H. unfold run_case in H.
  destruct (run_sched racy _ _ steps) as [[st1 ths1] tr1] eqn:E1.
  destruct (finish racy (code_total ths1) st1 ths1) as [[st2 ths2] tr2] eqn:E2.
  inversion H; subst. eapply finish_done; [|eauto]. apply mu_le_total.
Qed.
