(** C08 — warm-up token bucket: proofs of the integer (token) facts.  Floats are treated as
    opaque values throughout. *)
From Coq Require Import List NArith Lia ZifyBool ZifyN.
From SV Require Import Model.Base Model.F64 Model.LeapArray Model.World Model.WarmUp.
Import ListNotations.
Open Scope N_scope.

Lemma U64MAX_pos : 0 < U64MAX.
Proof. reflexivity. Qed.

Lemma sat_add_eq : forall a b, sat_add a b = N.min U64MAX (a + b).
Proof. reflexivity. Qed.

(** the saturating cast stays in the u64 range *)
Lemma f64_to_u64_le : forall x, f64_to_u64 x <= U64MAX.
Proof.
  intros x. unfold f64_to_u64, U64MAX.
  destruct x as [s|s| |s m e Hb].
  - set (z := Binary.Btrunc _ _ _). clearbody z.
    destruct (z <? 0)%Z eqn:E1; [apply N.le_0_l|].
    destruct (_ <? z)%Z eqn:E2; [apply N.le_refl|]. lia.
  - destruct s; [apply N.le_0_l|apply N.le_refl].
  - apply N.le_0_l.
  - set (z := Binary.Btrunc _ _ _). clearbody z.
    destruct (z <? 0)%Z eqn:E1; [apply N.le_0_l|].
    destruct (_ <? z)%Z eqn:E2; [apply N.le_refl|]. lia.
Qed.

Local Opaque U64MAX fdiv fmul f64_of_N f64_to_u64 ffloor flt f64_thousand next_after fadd f64_of_Z.

(** ** cool_down / sync_token never overflow, keep the maximum, and keep the bound *)

Lemma cool_down_val : forall w cur pq, exists nv, cool_down w cur pq = WVal nv /\ nv <= wu_max w.
Proof.
  intros w cur pq. unfold cool_down.
  destruct (_ || _).
  - eexists; split; [reflexivity|]. apply N.le_min_r.
  - eexists; split; [reflexivity|]. apply N.le_min_r.
Qed.

Theorem c08_sync_total : forall w now pq, sync_token w now pq <> WOverflow.
Proof.
  intros w now pq. unfold sync_token.
  destruct (_ <=? _); [discriminate|].
  destruct (cool_down_val w (now - now mod 1000) pq) as [nv [E _]].
  rewrite E. discriminate.
Qed.

Lemma sync_token_inv : forall w now pq u,
  wu_stored w <= wu_max w -> sync_token w now pq = WVal u ->
  wu_stored u <= wu_max u.
Proof.
  intros w now pq u Hinv. unfold sync_token.
  destruct (_ <=? _).
  - intros E; inversion E; subst; exact Hinv.
  - destruct (cool_down_val w (now - now mod 1000) pq) as [nv [E Hle]].
    rewrite E. intros E'; inversion E'; subst; clear E'. cbn [wu_stored wu_max].
    destruct (nv <? _) eqn:?; lia.
Qed.

(** ** the bound is an invariant of every command *)

Lemma wexec_inv : forall c w x,
  wu_stored (ww_wu w) <= wu_max (ww_wu w) ->
  wu_stored (ww_wu (fst (wexec c w x))) <= wu_max (ww_wu (fst (wexec c w x))).
Proof.
  intros c w x Hinv.
  assert (HA : forall u a, wu_allowed c w = Some (u, a) -> wu_stored u <= wu_max u).
  { intros u a. unfold wu_allowed.
    destruct (qps_prev c (ww_node w) (ww_now w)) as [pq|]; [|discriminate].
    destruct (sync_token (ww_wu w) (ww_now w) pq) as [u'|] eqn:E; [|discriminate].
    intros E'; inversion E'; subst. eapply sync_token_inv; eauto. }
  destruct x as [batch|dt|]; unfold wexec.
  - destruct (wu_allowed c w) as [[u a]|] eqn:E; [|exact Hinv].
    specialize (HA u a eq_refl).
    destruct (node_sum c (ww_node w) (ww_now w) Pass); [|exact Hinv].
    destruct (flt _ _); exact HA.
  - exact Hinv.
  - destruct (wu_allowed c w) as [[u a]|] eqn:E; [|exact Hinv].
    exact (HA u a eq_refl).
Qed.

Lemma wfold_inv : forall c l w,
  wu_stored (ww_wu w) <= wu_max (ww_wu w) ->
  let w' := fold_left (fun w x => fst (wexec c w x)) l w in
  wu_stored (ww_wu w') <= wu_max (ww_wu w').
Proof.
  intros c l; induction l as [|x tl IH]; intros w Hinv; cbn [fold_left].
  - exact Hinv.
  - apply IH. apply wexec_inv. exact Hinv.
Qed.

Theorem c08_tokens_bounded : forall c base thr cold period l,
  let w := fold_left (fun w x => fst (wexec c w x)) l (wworld0 c base thr cold period) in
  wu_stored (ww_wu w) <= wu_max (ww_wu w).
Proof.
  intros c base thr cold period l. apply wfold_inv.
  unfold wworld0, wu_new. cbn [ww_wu wu_stored wu_max]. apply N.le_0_l.
Qed.

Theorem c08_range_nonempty : forall thr cold period,
  wu_warning (wu_new thr cold period) < U64MAX ->
  wu_warning (wu_new thr cold period) < wu_max (wu_new thr cold period).
Proof.
  intros thr cold period. unfold wu_new. cbn [wu_warning wu_max].
  set (wn := f64_to_u64 _). generalize (sat_add wn (sat_mul (f64_to_u64
    (fdiv (fmul (f64_of_N period) thr) (f64_of_N ((if cold <=? 1 then 3 else cold) + 1)))) 2)).
  intros mx0 H. rewrite (sat_add_eq wn 1). lia.
Qed.

Theorem c08_warm_means_threshold : forall w, wu_stored w < wu_warning w -> allowed_of w = wu_thr w.
Proof.
  intros w H. unfold allowed_of.
  destruct (wu_warning w <=? wu_stored w) eqn:E; [lia|reflexivity].
Qed.

Theorem c08_drain_only : forall w now pq u,
  wu_warning w <= wu_stored w -> wu_stored w <= wu_max w ->
  flt pq (ffloor (fdiv (wu_thr w) (f64_of_N (wu_cold w)))) = false ->
  sync_token w now pq = WVal u -> wu_stored u <= wu_stored w.
Proof.
  intros w now pq u Hw Hm Hf. unfold sync_token, cool_down. rewrite Hf.
  destruct (_ <=? wu_last w).
  - intros E; inversion E; subst; lia.
  - destruct (wu_stored w <? wu_warning w) eqn:E1; [lia|].
    cbn [orb]. intros E; inversion E; subst; clear E. cbn [wu_stored].
    generalize (f64_to_u64 pq); intros p. destruct (_ <? p) eqn:?; lia.
Qed.

Theorem c08_idle_cools : forall w now pq u,
  wu_last w < now - now mod 1000 ->
  flt pq (ffloor (fdiv (wu_thr w) (f64_of_N (wu_cold w)))) = true ->
  wu_max w <= f64_to_u64 (fdiv (fmul (f64_of_N (now - now mod 1000 - wu_last w)) (wu_thr w)) f64_thousand) ->
  sync_token w now pq = WVal u ->
  wu_stored u = wu_max w - f64_to_u64 pq /\ wu_last u = now - now mod 1000.
Proof.
  intros w now pq u Hl Hf Hm. unfold sync_token, cool_down. rewrite Hf, Bool.orb_true_r.
  set (cur := now - now mod 1000) in *.
  set (add := f64_to_u64 _) in *.
  set (p := f64_to_u64 pq).
  destruct (cur <=? wu_last w) eqn:E0; [lia|].
  intros E; inversion E; subst; clear E. cbn [wu_stored wu_last].
  split; [|reflexivity].
  rewrite sat_add_eq.
  assert (HU : add <= U64MAX) by apply f64_to_u64_le.
  destruct (_ <? p) eqn:E1; lia.
Qed.
