From SV Require Import Model.Base Model.Tower Spec.C20Spec.
From Coq Require Import ZifyBool ZifyN.
Open Scope N_scope.

Lemma resp_eqb_refl r : resp_eqb r r = true.
Proof. destruct r; reflexivity. Qed.

Theorem c20_holds thr fb : forall l k, ok_c20 thr fb k l (trun_tower thr fb k l) = true.
Proof.
  induction l as [|q tl IH]; intros k; [reflexivity|].
  cbn [trun_tower ok_c20]. unfold tcall.
  destruct (k + 1 <=? thr) eqn:E.
  - destruct (q_drop q && is_pending (q_kind q)) eqn:D; cbn [o_calls o_resp o_inflight o_polls].
    + rewrite !N.eqb_refl, IH. reflexivity.
    + rewrite resp_eqb_refl, !N.eqb_refl, IH. reflexivity.
  - cbn [o_calls o_resp o_inflight o_polls]. rewrite resp_eqb_refl, !N.eqb_refl, IH. reflexivity.
Qed.

(** release on every completed path: if no future is ever dropped, the in-flight count is 0
    after every request, whatever the inner outcomes *)
Theorem c20_no_leak thr fb : forall l,
  forallb (fun q => negb (q_drop q)) l = true ->
  forallb (fun o => o_inflight o =? 0) (trun_tower thr fb 0 l) = true.
Proof.
  induction l as [|q tl IH]; intros H; [reflexivity|].
  cbn [forallb] in H. apply andb_prop in H. destruct H as [Hq Ht].
  cbn [trun_tower]. unfold tcall. apply negb_true_iff in Hq. rewrite Hq. cbn [andb].
  destruct (0 + 1 <=? thr); cbn [forallb o_inflight]; rewrite IH by exact Ht; reflexivity.
Qed.

(** from any number in flight, after any requests: what is in flight at the end is what was in flight at the
    start plus one per future dropped before completion - every other path (response, inner error, rejection,
    fallback) gives its admission back *)
Theorem c20_inflight_accounting thr fb : forall l k,
  last_inflight k (trun_tower thr fb k l) = k + dropped (trun_tower thr fb k l).
Proof.
  unfold dropped.
  induction l as [|q tl IH]; intros k; [cbn; lia|].
  cbn [trun_tower]. unfold tcall.
  destruct (k + 1 <=? thr).
  - destruct (q_drop q && is_pending (q_kind q)).
    + cbn [last_inflight o_inflight filter o_resp resp_eqb length]. rewrite IH. lia.
    + cbn [last_inflight o_inflight filter o_resp]. rewrite IH.
      destruct (is_ok (q_kind q)); cbn [resp_eqb]; lia.
  - cbn [last_inflight o_inflight filter o_resp]. rewrite IH.
    destruct (fb =? 1); cbn [resp_eqb]; lia.
Qed.
