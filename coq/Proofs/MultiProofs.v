(** Multi-rule refinement: a list of flow throttling controllers answers every build as the
    chained reference pacers prescribe ([pace_all]); a list of hotspot concurrency controllers
    answers every build as [first_full] prescribes. *)
From Coq Require Import ZifyBool ZifyN ZifyNat.
From SV Require Import Model.Base Model.F64 Model.Throttle Model.Hotspot Spec.C05hSpec Spec.C07Spec Spec.MultiSpec
  Proofs.C05hProofs Proofs.C07Proofs.

(** * C07: flow throttling, several controllers *)
Open Scope Z_scope.

(** one walk of the slot is the walk over the reference pacers *)
Lemma tslot_pace_all : forall cs now n,
  match tslot cs now n with
  | (cs', TAdmit, now') => pace_all cs now n = (cs', inl now')
  | (cs', TBlocked rl, now') => pace_all cs now n = (cs', inr (rl, now'))
  | (_, TPanic, _) => True
  end.
Proof.
  induction cs as [|[r s] tl IH]; intros now n.
  - reflexivity.
  - cbn [tslot pace_all]. unfold Throttle.throttle_check.
    destruct (n =? 0)%N eqn:En.
    { specialize (IH now n).
      destruct (tslot tl now n) as [[tl' o] now'].
      destruct o as [| rl |]; [rewrite IH; reflexivity | rewrite IH; reflexivity | exact I]. }
    destruct (fle (t_thr r) (f64_of_Z 0)) eqn:Ele; [reflexivity |].
    destruct (flt (t_thr r) (f64_of_N n)) eqn:Elt; [reflexivity |].
    cbv zeta.
    destruct (negb (in_i64 (s + interval_ns r n))) eqn:Eov; [exact I |].
    destruct (pace_cases false s now (interval_ns r n) (maxq_ns r))
      as [[H1 H2]|[[H1 [H2 H3]]|[H1 [H2 H3]]]].
    + (* on time *)
      rewrite H2.
      destruct (s + interval_ns r n <=? now) eqn:E1; [| lia].
      specialize (IH now n).
      destruct (tslot tl now n) as [[tl' o] now'].
      destruct o as [| rl |]; [rewrite IH; reflexivity | rewrite IH; reflexivity | exact I].
    + (* queued *)
      rewrite H3.
      destruct (s + interval_ns r n <=? now) eqn:E1; [lia |].
      destruct (maxq_ns r <? s + interval_ns r n - now) eqn:E2; [lia |].
      destruct (0 <? s + interval_ns r n - now) eqn:E3; [| lia].
      replace (now + (s + interval_ns r n - now)) with (s + interval_ns r n) by lia.
      specialize (IH (s + interval_ns r n) n).
      destruct (tslot tl (s + interval_ns r n) n) as [[tl' o] now'].
      destruct o as [| rl |]; [rewrite IH; reflexivity | rewrite IH; reflexivity | exact I].
    + (* rejected *)
      rewrite H3.
      destruct (s + interval_ns r n <=? now) eqn:E1; [lia |].
      destruct (maxq_ns r <? s + interval_ns r n - now) eqn:E2; [| lia].
      reflexivity.
Qed.

Theorem c07_flow_multi_holds : forall cs ops now,
  has_panic (trun (mkTW now cs) ops) = false ->
  ok_c07_flow_multi cs now ops (trun (mkTW now cs) ops) = true.
Proof.
  intros cs ops. revert cs. induction ops as [|x ops IH]; intros cs now Hp.
  - reflexivity.
  - destruct x as [n | dt].
    + cbn [trun] in Hp |- *. unfold texec in Hp |- *. cbn [tw_ctls tw_now] in Hp |- *.
      pose proof (tslot_pace_all cs now n) as Hs.
      destruct (tslot cs now n) as [[cs' o] now'].
      destruct o as [| rl |].
      * cbn [has_panic existsb orb] in Hp. cbn [ok_c07_flow_multi]. rewrite Hs.
        rewrite Z.eqb_refl. cbn [andb]. apply IH. exact Hp.
      * cbn [has_panic existsb orb] in Hp. cbn [ok_c07_flow_multi]. rewrite Hs.
        rewrite Z.eqb_refl, N.eqb_refl. cbn [andb]. apply IH. exact Hp.
      * cbn [has_panic existsb orb] in Hp. discriminate Hp.
    + cbn [trun texec tw_now tw_ctls] in Hp |- *. cbn [ok_c07_flow_multi].
      cbn [has_panic existsb orb] in Hp.
      apply IH. exact Hp.
Qed.

(** * C05: hotspot concurrency, several controllers *)
Open Scope N_scope.

Definition rule_ok (r : hrule) : Prop := h_kind r = HConc.

(** every controller carries its rule and counts the open entries *)
Definition minv (rs : list hrule) (cs : list hctl) (open : list (N * hentry)) : Prop :=
  Forall2 (fun r c => cinv r c open) rs cs.

(** the check of one controller keeps its invariant (a zero counter may be inserted) *)
Lemma perform_conc : forall r c open v n now,
  h_kind r = HConc -> cinv r c open ->
  exists c',
    perform c v n now =
      (c', if count_open r v open + 1 <=? thr_of r v then HPass else HBlock (count_open r v open + 1)) /\
    cinv r c' open /\ hc_conc c' v = Some (count_open r v open).
Proof.
  intros r c open v n now Hk [Hr Hinv].
  pose proof (Hinv v) as Hv. rewrite Hr in Hv.
  unfold perform. rewrite Hr, Hk. unfold conc_check. rewrite Hr.
  destruct (hc_conc c v) as [k|] eqn:Ec.
  - subst k. exists c. split.
    + destruct (count_open r v open + 1 <=? thr_of r v); reflexivity.
    + split; [split; assumption | exact Ec].
  - rewrite Hv, N.add_0_l. cbn [hc_rule].
    eexists. split.
    + destruct (1 <=? thr_of r v); reflexivity.
    + split.
      * split; [reflexivity |]. intros v'. cbn [hc_conc hc_rule].
        destruct (v' =? v) eqn:E.
        -- apply N.eqb_eq in E. subst v'. rewrite fset_same. lia.
        -- assert (Hne : v' <> v) by (intros ->; rewrite N.eqb_refl in E; discriminate).
           rewrite fset_other by exact Hne. specialize (Hinv v'). rewrite Hr in Hinv. exact Hinv.
      * cbn [hc_conc]. rewrite fset_same. reflexivity.
Qed.

(** admission bookkeeping of one controller *)
Lemma adjust_up_none : forall r c open id args att,
  h_kind r = HConc -> cinv r c open -> extract r args att = None ->
  cinv r (conc_adjust true c args att) ((id, mkHE args att) :: open).
Proof.
  intros r c open id args att Hk [Hr Hinv] Ex.
  unfold conc_adjust. rewrite Hr, Hk, Ex. split; [exact Hr |].
  intros v'. specialize (Hinv v'). rewrite Hr in *.
  rewrite count_open_cons. cbn [he_args he_att]. rewrite Ex. cbn [opt_eqb].
  destruct (hc_conc c v'); lia.
Qed.

Lemma adjust_up_some : forall r c open id args att v,
  h_kind r = HConc -> cinv r c open -> extract r args att = Some v ->
  hc_conc c v = Some (count_open r v open) ->
  cinv r (conc_adjust true c args att) ((id, mkHE args att) :: open).
Proof.
  intros r c open id args att v Hk [Hr Hinv] Ex Ec.
  unfold conc_adjust. rewrite Hr, Hk, Ex, Ec.
  apply fset_inv_up with (v := v); auto.
  - intros v' Hne. apply fset_other; exact Hne.
  - apply fset_same.
Qed.

Lemma adjust_down : forall r c open id e rest,
  h_kind r = HConc -> cinv r c open -> find_hentry id open = Some (e, rest) ->
  cinv r (conc_adjust false c (he_args e) (he_att e)) rest.
Proof.
  intros r c open id e rest Hk Hc Ef.
  destruct (step_exit_some r c 0 open id e rest Hk Hc Ef) as (c' & He & Hc').
  unfold hexec in He. cbn [hw_ctls hw_now hw_open] in He. rewrite Ef in He. cbn [map] in He.
  injection He as He. subst c'. exact Hc'.
Qed.

(** one walk of the slot *)
Lemma hslot_multi : forall rs cs open id args att n now,
  Forall rule_ok rs -> minv rs cs open ->
  exists cs',
    match first_full rs args att open with
    | None =>
        hslot cs args att n now = (cs', HAdmit, now) /\
        minv rs (map (fun c => conc_adjust true c args att) cs') ((id, mkHE args att) :: open)
    | Some (rl, sn) =>
        hslot cs args att n now = (cs', HBlocked rl sn, now) /\ minv rs cs' open
    end.
Proof.
  intros rs cs open id args att n now Hok Hinv. unfold minv in *.
  induction Hinv as [|r c rs cs Hc Hinv IH].
  - exists []. cbn [first_full hslot map]. split; [reflexivity | constructor].
  - inversion Hok as [|r0 rs0 Hk Hok']. subst r0 rs0.
    specialize (IH Hok'). destruct IH as (tl' & IH).
    cbn [first_full hslot]. pose proof Hc as [Hr _]. rewrite Hr.
    destruct (extract r args att) as [v|] eqn:Ex.
    + destruct (perform_conc r c open v n now Hk Hc) as (c' & Hperf & Hc' & Hcv).
      rewrite Hperf. cbv zeta.
      destruct (count_open r v open + 1 <=? thr_of r v) eqn:Et.
      * destruct (first_full rs args att open) as [[rl sn]|].
        -- destruct IH as [Hs Hi]. rewrite Hs. exists (c' :: tl').
           split; [reflexivity | constructor; assumption].
        -- destruct IH as [Hs Hi]. rewrite Hs. exists (c' :: tl').
           split; [reflexivity |]. cbn [map]. constructor; [| exact Hi].
           apply adjust_up_some with (v := v); assumption.
      * exists (c' :: cs). split; [reflexivity | constructor; assumption].
    + destruct (first_full rs args att open) as [[rl sn]|].
      * destruct IH as [Hs Hi]. rewrite Hs. exists (c :: tl').
        split; [reflexivity | constructor; assumption].
      * destruct IH as [Hs Hi]. rewrite Hs. exists (c :: tl').
        split; [reflexivity |]. cbn [map]. constructor; [| exact Hi].
        apply adjust_up_none; assumption.
Qed.

Lemma exit_multi : forall rs cs open id e rest,
  Forall rule_ok rs -> minv rs cs open -> find_hentry id open = Some (e, rest) ->
  minv rs (map (fun c => conc_adjust false c (he_args e) (he_att e)) cs) rest.
Proof.
  intros rs cs open id e rest Hok Hinv Ef. unfold minv in *.
  induction Hinv as [|r c rs cs Hc Hinv IH].
  - constructor.
  - inversion Hok as [|r0 rs0 Hk Hok']. subst r0 rs0.
    cbn [map]. constructor; [| apply IH; exact Hok'].
    apply adjust_down with (id := id) (open := open); assumption.
Qed.

Lemma c05h_multi_gen : forall rs, Forall rule_ok rs ->
  forall ops now cs open, minv rs cs open ->
  ok_c05h_multi rs open ops (hrun (mkHW now cs open) ops) = true.
Proof.
  intros rs Hok. induction ops as [|x tl IH]; intros now cs open Hinv; [reflexivity |].
  destruct x as [id args att n | id | dt]; cbn [hrun].
  - unfold hexec. cbn [hw_ctls hw_now hw_open].
    destruct (hslot_multi rs cs open id args att n now Hok Hinv) as (cs' & H).
    cbn [ok_c05h_multi].
    destruct (first_full rs args att open) as [[rl sn]|].
    + destruct H as [Hs Hi]. rewrite Hs. rewrite !N.eqb_refl. cbn [andb].
      apply IH. exact Hi.
    + destruct H as [Hs Hi]. rewrite Hs. apply IH. exact Hi.
  - unfold hexec. cbn [hw_ctls hw_now hw_open]. cbn [ok_c05h_multi].
    destruct (find_hentry id open) as [[e rest]|] eqn:Ef.
    + apply IH. apply exit_multi with (id := id) (open := open); assumption.
    + apply IH. exact Hinv.
  - cbn [hexec hw_now hw_ctls hw_open ok_c05h_multi]. apply IH. exact Hinv.
Qed.

Theorem c05h_multi_holds : forall rs base ops,
  Forall (fun r => h_kind r = HConc) rs ->
  ok_c05h_multi rs [] ops (hrun (mkHW base (map hctl0 rs) []) ops) = true.
Proof.
  intros rs base ops Hok. apply c05h_multi_gen; [exact Hok |].
  unfold minv. clear Hok. induction rs as [|r rs IH]; cbn [map]; constructor.
  - apply cinv_init.
  - exact IH.
Qed.

Print Assumptions c07_flow_multi_holds.
Print Assumptions c05h_multi_holds.
