(** C08 — warm-up: the allowed threshold is antitone in the stored tokens above the warning
    line (IEEE binary64 reasoning with Flocq). *)
From Coq Require Import ZArith NArith Reals Lia Lra Bool.
From Flocq Require Import Core Binary Bits.
From SV Require Import Model.Base Model.F64 Model.LeapArray Model.World Model.WarmUp.

Local Notation b2r := (B2R 53 1024).
Local Notation fin := (is_finite 53 1024).
Local Notation sgn := (Bsign 53 1024).
Local Notation pinf := (B754_infinity 53 1024 false).

(** * Bit patterns of non-negative finite values are ordered like the values *)

Lemma bits_zero : fbits (B754_zero 53 1024 false) = 0%Z.
Proof. reflexivity. Qed.

Lemma bits_fin : forall m e (H : SpecFloat.bounded 53 1024 m e = true),
  fbits (B754_finite 53 1024 false m e H) = (Zpos m + (e + 1074) * 2^52)%Z /\
  (Zpos m < 2^53)%Z /\ (-1074 <= e <= 971)%Z /\ (-1074 < e -> 2^52 <= Zpos m)%Z.
Proof.
  intros m e H. pose proof H as H0. unfold SpecFloat.bounded in H0.
  apply andb_true_iff in H0. destruct H0 as [A B]. apply Z.leb_le in B.
  unfold SpecFloat.canonical_mantissa, SpecFloat.fexp in A. apply Zeq_bool_eq in A.
  rewrite Zpos_digits2_pos in A.
  change (SpecFloat.emin 53 1024) with (-1074)%Z in A.
  pose proof (Zdigits_correct radix2 (Zpos m)) as D.
  assert (0 < Zdigits radix2 (Zpos m))%Z as Dp by (apply Zdigits_gt_0; discriminate).
  set (d := Zdigits radix2 (Zpos m)) in *.
  change (Z.abs (Zpos m)) with (Zpos m) in D.
  change (radix2 ^ (d - 1))%Z with (2 ^ (d - 1))%Z in D.
  change (radix2 ^ d)%Z with (2 ^ d)%Z in D.
  assert (d <= 53)%Z as D53 by lia.
  assert (Zpos m < 2^53)%Z as M53.
  { apply Z.lt_le_trans with (2^d)%Z. apply D. apply Z.pow_le_mono_r; lia. }
  assert (-1074 < e -> 2^52 <= Zpos m)%Z as Mn.
  { intros He. assert (d = 53)%Z by lia. subst d. rewrite H0 in D.
    change (53 - 1)%Z with 52%Z in D. apply D. }
  split; [|split; [exact M53|split; [lia|exact Mn]]].
  unfold fbits, bits_of_b64, bits_of_binary_float.
  destruct (Zle_bool 0 (Zpos m - 2^52)) eqn:E.
  - apply Zle_bool_imp_le in E. unfold join_bits. rewrite Z.shiftl_mul_pow2 by lia.
    change (SpecFloat.emin (52 + 1) (2 ^ (11 - 1))) with (-1074)%Z. lia.
  - apply Z.leb_gt in E. unfold join_bits. rewrite Z.shiftl_mul_pow2 by lia.
    assert (e = -1074)%Z by lia. subst e. lia.
Qed.

(** finite with a clear sign bit *)
Definition nnf (x : f64) : Prop := fin x = true /\ sgn x = false.

Lemma fle_bits : forall x y, nnf x -> nnf y -> fle x y = (fbits x <=? fbits y)%Z.
Proof.
  intros x y [Fx Sx] [Fy Sy].
  destruct x as [sx|sx|sx px Hx|sx mx ex Hx]; try discriminate;
  destruct y as [sy|sy|sy py Hy|sy my ey Hy]; try discriminate;
  simpl in Sx, Sy; subst.
  - reflexivity.
  - destruct (bits_fin my ey Hy) as (E & A & B & C). rewrite bits_zero, E.
    transitivity true; [reflexivity|]. symmetry. apply Z.leb_le. nia.
  - destruct (bits_fin mx ex Hx) as (E & A & B & C). rewrite bits_zero, E.
    transitivity false; [reflexivity|]. symmetry. apply Z.leb_gt. nia.
  - destruct (bits_fin mx ex Hx) as (E1 & A1 & B1 & C1).
    destruct (bits_fin my ey Hy) as (E2 & A2 & B2 & C2).
    set (P := (2^52)%Z) in *. assert (0 < P)%Z by (unfold P; lia).
    assert (Z.pos mx < 2 * P)%Z by (unfold P in *; lia).
    assert (Z.pos my < 2 * P)%Z by (unfold P in *; lia).
    rewrite E1, E2. clearbody P.
    unfold fle, fcmp, Bcompare, BinarySingleNaN.Bcompare. simpl.
    rewrite Pos2Z.inj_compare.
    symmetry.
    destruct (Z.compare_spec ex ey) as [Ee|Ee|Ee].
    + subst ey. destruct (Z.compare_spec (Z.pos mx) (Z.pos my)) as [Em|Em|Em].
      * apply Z.leb_le. lia.
      * apply Z.leb_le. lia.
      * apply Z.leb_gt. lia.
    + apply Z.leb_le. assert (P <= Z.pos my)%Z by (apply C2; lia). nia.
    + apply Z.leb_gt. assert (P <= Z.pos mx)%Z by (apply C1; lia). nia.
Qed.

Lemma nnf_bits_range : forall x, nnf x -> (0 <= fbits x < 2^63 - 2^52)%Z.
Proof.
  intros x [Fx Sx].
  destruct x as [sx|sx|sx px Hx|sx mx ex Hx]; try discriminate; simpl in Sx; subst.
  - rewrite bits_zero. lia.
  - destruct (bits_fin mx ex Hx) as (E & A & B & C). rewrite E. lia.
Qed.

Lemma sgn_bits : forall r, sgn r = Zle_bool (2^63) (fbits r).
Proof.
  intros r.
  assert (fst (fst (split_bits 52 11 (fbits r))) = sgn r) as H.
  { unfold fbits, bits_of_b64.
    rewrite (split_bits_of_binary_float_correct 52 11 eq_refl eq_refl).
    destruct r; try reflexivity.
    unfold split_bits_of_binary_float. destruct (Zle_bool _ _); reflexivity. }
  rewrite <- H. reflexivity.
Qed.

Lemma bits_of_bits : forall z, (0 <= z < 2^64)%Z -> fbits (f64_of_bits z) = z.
Proof.
  intros z Hz. unfold fbits, f64_of_bits, bits_of_b64, b64_of_bits.
  apply bits_of_binary_float_of_bits. exact Hz.
Qed.

Lemma next_after_nnf : forall x, nnf x -> next_after x = f64_of_bits (fbits x + 1).
Proof.
  intros x Hx. pose proof (nnf_bits_range x Hx) as R. unfold next_after.
  assert ((fbits x <? 9223372036854775808)%Z = true) as E by (apply Z.ltb_lt; lia).
  rewrite E. rewrite Z.mod_small by lia. reflexivity.
Qed.

Lemma fle_refl_true : forall x y, fin x = true -> fin y = true ->
  fle x y = true <-> (b2r x <= b2r y)%R.
Proof.
  intros x y Fx Fy. unfold fle, fcmp. rewrite Bcompare_correct by assumption.
  destruct (Rcompare_spec (b2r x) (b2r y)); split; intros; try reflexivity; try lra; discriminate.
Qed.

Lemma next_after_mono : forall q1 q2, nnf q1 -> nnf q2 -> (b2r q2 <= b2r q1)%R ->
  fin (next_after q1) = true -> fin (next_after q2) = true ->
  fle (next_after q2) (next_after q1) = true.
Proof.
  intros q1 q2 N1 N2 Hle F1 F2.
  pose proof (nnf_bits_range q1 N1) as R1. pose proof (nnf_bits_range q2 N2) as R2.
  rewrite (next_after_nnf q1 N1) in *. rewrite (next_after_nnf q2 N2) in *.
  assert (fle q2 q1 = true) as L by (apply fle_refl_true; [apply N2|apply N1|exact Hle]).
  rewrite (fle_bits q2 q1 N2 N1) in L. apply Z.leb_le in L.
  assert (forall q, (0 <= fbits q < 2^63 - 2^52)%Z -> fin (f64_of_bits (fbits q + 1)) = true ->
          nnf (f64_of_bits (fbits q + 1))) as K.
  { intros q R F. split; [exact F|]. rewrite sgn_bits. rewrite bits_of_bits by lia.
    apply Z.leb_gt. lia. }
  rewrite (fle_bits _ _ (K q2 R2 F2) (K q1 R1 F1)).
  rewrite !bits_of_bits by lia. apply Z.leb_le. lia.
Qed.

(** * Rounded operations on non-negative values *)

Local Instance prec53 : Prec_gt_0 53 := eq_refl.
Local Instance emax1024 : BinarySingleNaN.Prec_lt_emax 53 1024 := eq_refl.
Local Instance vexp : Valid_exp (SpecFloat.fexp 53 1024) := BinarySingleNaN.fexp_correct 53 1024 prec53.
Local Instance vrnd : Valid_rnd (BinarySingleNaN.round_mode BinarySingleNaN.mode_NE) :=
  BinarySingleNaN.valid_rnd_round_mode BinarySingleNaN.mode_NE.

Local Notation rnd := (round radix2 (SpecFloat.fexp 53 1024) (BinarySingleNaN.round_mode BinarySingleNaN.mode_NE)).
Local Notation big := (bpow radix2 1024).
Local Open Scope R_scope.

Definition pos (z : f64) : Prop := z = pinf \/ nnf z.
Definition spos (z : f64) : Prop := z = pinf \/ (nnf z /\ 0 < b2r z).
Definition xle (x y : f64) : Prop :=
  pos x /\ pos y /\ (y = pinf \/ (fin x = true /\ fin y = true /\ b2r x <= b2r y)).

(** the outcome of a correctly rounded operation with exact non-negative result [r] *)
Definition rspec (r : R) (z : f64) : Prop :=
  if Rlt_bool (Rabs (rnd r)) big then b2r z = rnd r /\ fin z = true /\ sgn z = false else z = pinf.

Lemma rnd_ge0 : forall r, 0 <= r -> 0 <= rnd r.
Proof.
  intros r Hr. apply round_ge_generic; [exact vexp|exact vrnd|apply generic_format_0|exact Hr].
Qed.

Lemma rnd_le : forall a b, a <= b -> rnd a <= rnd b.
Proof. intros. apply round_le; [exact vexp|exact vrnd|assumption]. Qed.

Lemma nnf_ge0 : forall x, nnf x -> 0 <= b2r x.
Proof.
  intros x [F S]. destruct x as [s|s|s p H|s m e H]; try discriminate; simpl in *.
  - lra.
  - subst. apply F2R_ge_0. simpl. lia.
Qed.

Lemma pos_sgn_false : forall x, fin x = true -> 0 < b2r x -> sgn x = false.
Proof.
  intros x F P. destruct x as [s|s|s p H|s m e H]; try discriminate; simpl in *.
  - lra.
  - destruct s; [|reflexivity]. exfalso.
    assert (F2R (Float radix2 (Z.neg m) e) < 0). { apply F2R_lt_0. reflexivity. } simpl in P. lra.
Qed.

Lemma pos_fin_nnf : forall x, pos x -> fin x = true -> nnf x.
Proof. intros x [E|N] F; [subst; discriminate|exact N]. Qed.

Lemma rspec_pos : forall r z, rspec r z -> pos z.
Proof.
  intros r z. unfold rspec. destruct (Rlt_bool _ _).
  - intros (A & B & C). right. split; assumption.
  - intros E. left. exact E.
Qed.

Lemma rspec_val : forall r z, rspec r z -> fin z = true -> b2r z = rnd r.
Proof.
  intros r z. unfold rspec. destruct (Rlt_bool _ _).
  - intros (A & B & C) _. exact A.
  - intros E F. subst. discriminate.
Qed.

Lemma xle_inf : forall z, pos z -> xle z pinf.
Proof. intros z P. split; [exact P|]. split; [left; reflexivity|left; reflexivity]. Qed.

Lemma rspec_mono : forall r1 r2 z1 z2, 0 <= r1 -> r1 <= r2 -> rspec r1 z1 -> rspec r2 z2 -> xle z1 z2.
Proof.
  intros r1 r2 z1 z2 H0 H12 S1 S2.
  pose proof (rspec_pos _ _ S1) as P1. pose proof (rspec_pos _ _ S2) as P2.
  split; [exact P1|]. split; [exact P2|].
  pose proof (rnd_ge0 r1 H0) as G1. pose proof (rnd_le r1 r2 H12) as L.
  unfold rspec in S1, S2.
  destruct (Rlt_bool_spec (Rabs (rnd r2)) big) as [B2|B2].
  - destruct S2 as (A2 & F2 & _).
    destruct (Rlt_bool_spec (Rabs (rnd r1)) big) as [B1|B1].
    + destruct S1 as (A1 & F1 & _). right. rewrite A1, A2. auto.
    + exfalso. rewrite Rabs_pos_eq in B1 by lra. rewrite Rabs_pos_eq in B2 by lra. lra.
  - left. exact S2.
Qed.

Lemma overflow_pinf : forall z : f64,
  B2FF 53 1024 z = binary_overflow 53 1024 BinarySingleNaN.mode_NE false -> z = pinf.
Proof.
  intros z. change (binary_overflow 53 1024 BinarySingleNaN.mode_NE false) with (F754_infinity false).
  destruct z; simpl; intros E; try discriminate. inversion E. reflexivity.
Qed.

Lemma fin_not_nan : forall z : f64, fin z = true -> is_nan 53 1024 z = false.
Proof. intros z; destruct z; simpl; auto; discriminate. Qed.

(** ** integer to float *)
Lemma ofN_rspec : forall n, rspec (IZR (Z.of_N n)) (f64_of_N n).
Proof.
  intros n. unfold f64_of_N, f64_of_Z.
  match goal with |- context [binary_normalize 53 1024 ?a ?b ?m ?z ?e ?s] =>
    pose proof (binary_normalize_correct 53 1024 a b m z e s) as H end.
  replace (F2R (Float radix2 (Z.of_N n) 0)) with (IZR (Z.of_N n)) in H
    by (unfold F2R; simpl; ring).
  assert (0 <= IZR (Z.of_N n)) as P by (apply IZR_le; lia).
  unfold rspec. destruct (Rlt_bool _ _).
  - destruct H as (A & B & C). split; [exact A|]. split; [exact B|]. rewrite C.
    destruct (Rcompare_spec (IZR (Z.of_N n)) 0); try reflexivity. lra.
  - rewrite Rlt_bool_false in H by exact P. apply overflow_pinf. exact H.
Qed.

(** ** multiplication *)
Lemma mul_rspec : forall x s, nnf x -> nnf s -> rspec (b2r x * b2r s) (fmul x s).
Proof.
  intros x s [Fx Sx] [Fs Ss]. unfold fmul, b64_mult.
  match goal with |- context [Bmult 53 1024 ?a ?b ?nn ?m x s] =>
    pose proof (Bmult_correct 53 1024 a b nn m x s) as H end.
  unfold rspec. destruct (Rlt_bool _ _).
  - destruct H as (A & B & C). rewrite Fx, Fs in B. simpl in B.
    split; [exact A|]. split; [exact B|]. rewrite C by (apply fin_not_nan; exact B).
    rewrite Sx, Ss. reflexivity.
  - rewrite Sx, Ss in H. apply overflow_pinf. exact H.
Qed.

Lemma mul_inf : forall s, nnf s -> 0 < b2r s -> fmul pinf s = pinf.
Proof.
  intros s [F S] P. destruct s as [b|b|b p H|b m e H]; try discriminate; simpl in *.
  - lra.
  - subst. reflexivity.
Qed.

Lemma mul_mono : forall s x1 x2, nnf s -> 0 < b2r s -> xle x1 x2 -> xle (fmul x1 s) (fmul x2 s).
Proof.
  intros s x1 x2 Ns Ps (P1 & P2 & H).
  assert (forall x, pos x -> pos (fmul x s)) as PP.
  { intros x [E|N]. subst. rewrite mul_inf by assumption. left; reflexivity.
    eapply rspec_pos. apply mul_rspec; assumption. }
  destruct H as [E|(F1 & F2 & L)].
  - subst x2. rewrite mul_inf by assumption. apply xle_inf. apply PP. exact P1.
  - pose proof (pos_fin_nnf _ P1 F1) as N1. pose proof (pos_fin_nnf _ P2 F2) as N2.
    pose proof (nnf_ge0 _ N1). pose proof (nnf_ge0 _ N2).
    eapply rspec_mono; [| |apply mul_rspec; assumption|apply mul_rspec; assumption]; nra.
Qed.

(** ** the constant one *)
Definition one : f64 := f64_of_Z 1.

Lemma one_props : b2r one = 1 /\ fin one = true /\ sgn one = false.
Proof.
  unfold one, f64_of_Z.
  match goal with |- context [binary_normalize 53 1024 ?a ?b ?m ?z ?e ?s] =>
    pose proof (binary_normalize_correct 53 1024 a b m z e s) as H end.
  replace (F2R (Float radix2 1 0)) with 1 in H by (unfold F2R; simpl; ring).
  assert (rnd 1 = 1) as E.
  { apply round_generic; [exact vrnd|]. change 1 with (bpow radix2 0).
    apply generic_format_bpow. vm_compute. discriminate. }
  rewrite E in H. rewrite Rlt_bool_true in H.
  - destruct H as (A & B & C). split; [exact A|]. split; [exact B|]. rewrite C.
    rewrite Rcompare_Gt by lra. reflexivity.
  - rewrite Rabs_R1. change 1 with (bpow radix2 0). apply bpow_lt. lia.
Qed.

(** ** addition of a strictly positive constant *)
Lemma add_rspec : forall t c, nnf t -> nnf c -> 0 < b2r c -> rspec (b2r t + b2r c) (fadd t c).
Proof.
  intros t c [Ft St] [Fc Sc] Pc. pose proof (nnf_ge0 t (conj Ft St)) as Pt.
  unfold fadd, b64_plus.
  match goal with |- context [Bplus 53 1024 ?a ?b ?nn ?m t c] =>
    pose proof (Bplus_correct 53 1024 a b nn m t c Ft Fc) as H end.
  unfold rspec. destruct (Rlt_bool _ _).
  - destruct H as (A & B & C). split; [exact A|]. split; [exact B|]. rewrite C.
    rewrite Rcompare_Gt by lra. reflexivity.
  - destruct H as [H _]. rewrite St in H. apply overflow_pinf. exact H.
Qed.

Lemma add_inf_r : forall t, pos t -> fadd t pinf = pinf.
Proof.
  intros t [E|[F S]]; [subst; reflexivity|].
  destruct t as [b|b|b p H|b m e H]; try discriminate; simpl in S; subst; reflexivity.
Qed.

Lemma add_inf_l : forall c, pos c -> fadd pinf c = pinf.
Proof.
  intros t [E|[F S]]; [subst; reflexivity|].
  destruct t as [b|b|b p H|b m e H]; try discriminate; simpl in S; subst; reflexivity.
Qed.

Lemma spos_pos : forall c, spos c -> pos c.
Proof. intros c [E|[N _]]; [left|right]; assumption. Qed.

Lemma add_spos : forall t c, pos t -> spos c -> spos (fadd t c).
Proof.
  intros t c Pt [E|[Nc Pc]].
  - subst. rewrite add_inf_r by exact Pt. left; reflexivity.
  - destruct Pt as [E|Nt].
    + subst. rewrite add_inf_l by (right; exact Nc). left; reflexivity.
    + pose proof (add_rspec t c Nt Nc Pc) as S.
      destruct (rspec_pos _ _ S) as [E|N]; [left; exact E|]. right. split; [exact N|].
      rewrite (rspec_val _ _ S) by apply N.
      pose proof (nnf_ge0 t Nt).
      apply Rlt_le_trans with (b2r c); [exact Pc|].
      apply round_ge_generic; [exact vexp|exact vrnd| |lra].
      apply generic_format_B2R.
Qed.

Lemma add_mono : forall c t1 t2, spos c -> xle t1 t2 -> xle (fadd t1 c) (fadd t2 c).
Proof.
  intros c t1 t2 Sc (P1 & P2 & H).
  assert (forall t, pos t -> pos (fadd t c)) as PP.
  { intros t Pt. apply spos_pos. apply add_spos; assumption. }
  destruct Sc as [E|[Nc Pc]].
  - subst. rewrite !add_inf_r by assumption. apply xle_inf. left; reflexivity.
  - destruct H as [E|(F1 & F2 & L)].
    + subst t2. rewrite add_inf_l by (right; exact Nc). apply xle_inf. apply PP. exact P1.
    + pose proof (pos_fin_nnf _ P1 F1) as N1. pose proof (pos_fin_nnf _ P2 F2) as N2.
      pose proof (nnf_ge0 _ N1). pose proof (nnf_ge0 _ N2).
      eapply rspec_mono; [| |apply add_rspec; assumption|apply add_rspec; assumption]; lra.
Qed.

(** ** reciprocal *)
Lemma div_rspec : forall d, nnf d -> 0 < b2r d -> rspec (1 / b2r d) (fdiv one d).
Proof.
  intros d [Fd Sd] Pd. destruct one_props as (O1 & O2 & O3).
  unfold fdiv, b64_div.
  match goal with |- context [Bdiv 53 1024 ?a ?b ?nn ?m one d] =>
    pose proof (Bdiv_correct 53 1024 a b nn m one d) as H end.
  assert (b2r d <> 0) as Nz by lra. specialize (H Nz). rewrite O1 in H.
  unfold rspec. destruct (Rlt_bool _ _).
  - destruct H as (A & B & C). rewrite O2 in B.
    split; [exact A|]. split; [exact B|]. rewrite C by (apply fin_not_nan; exact B).
    rewrite O3, Sd. reflexivity.
  - rewrite O3, Sd in H. apply overflow_pinf. exact H.
Qed.

Definition recip (d : f64) : R := if fin d then 1 / b2r d else 0.

Lemma div_inf : fdiv one pinf = B754_zero 53 1024 false.
Proof. vm_compute. reflexivity. Qed.

Lemma div_rspec' : forall d, spos d -> rspec (recip d) (fdiv one d) /\ 0 <= recip d.
Proof.
  intros d [E|[N P]].
  - subst. rewrite div_inf. unfold recip. simpl. split; [|lra].
    unfold rspec. rewrite round_0 by exact vrnd. rewrite Rabs_R0.
    rewrite Rlt_bool_true by apply bpow_gt_0. simpl. auto.
  - unfold recip. destruct N as [F S]. rewrite F. split.
    + apply div_rspec; [split; assumption|exact P].
    + apply Rlt_le. apply Rdiv_lt_0_compat; lra.
Qed.

Lemma div_anti : forall d1 d2, spos d1 -> spos d2 -> xle d1 d2 -> xle (fdiv one d2) (fdiv one d1).
Proof.
  intros d1 d2 S1 S2 (_ & _ & H).
  destruct (div_rspec' d1 S1) as [R1 G1]. destruct (div_rspec' d2 S2) as [R2 G2].
  eapply rspec_mono; [exact G2| |exact R2|exact R1].
  destruct H as [E|(F1 & F2 & L)].
  - subst d2. unfold recip at 1. simpl. exact G1.
  - unfold recip. rewrite F1, F2.
    destruct S1 as [E|[_ Q1]]; [subst; discriminate|].
    unfold Rdiv. rewrite !Rmult_1_l. apply Rinv_le_contravar; assumption.
Qed.

(** ** 1/threshold is strictly positive (or overflows to +infinity) *)
Lemma recip_thr_spos : forall thr, fin thr = true -> 0 < b2r thr -> spos (fdiv one thr).
Proof.
  intros thr F P. pose proof (pos_sgn_false thr F P) as S.
  pose proof (div_rspec thr (conj F S) P) as R.
  destruct (rspec_pos _ _ R) as [E|N]; [left; exact E|]. right. split; [exact N|].
  rewrite (rspec_val _ _ R) by apply N.
  apply Rlt_le_trans with (bpow radix2 (-1074)); [apply bpow_gt_0|].
  apply round_ge_generic; [exact vexp|exact vrnd| |].
  - apply generic_format_bpow. vm_compute. discriminate.
  - pose proof (abs_B2R_lt_emax 53 1024 thr) as U. rewrite Rabs_pos_eq in U by lra.
    apply Rle_trans with (bpow radix2 (-1024)); [apply bpow_le; lia|].
    change (bpow radix2 (-1024)) with (bpow radix2 (Z.opp 1024)). rewrite bpow_opp. unfold Rdiv. rewrite Rmult_1_l. apply Rlt_le.
    apply Rinv_lt_contravar; [|exact U]. apply Rmult_lt_0_compat; [exact P|apply bpow_gt_0].
Qed.

(** * The allowed threshold above the warning line *)

Definition with_stored (w : wu) (s : N) : wu :=
  mkWU (wu_thr w) (wu_cold w) (wu_warning w) (wu_max w) (wu_slope w) s (wu_last w).

(** the quotient before the final [next_after] step, for [a] tokens above the warning line *)
Definition quot (thr slope : f64) (a : N) : f64 :=
  fdiv one (fadd (fmul (f64_of_N a) slope) (fdiv one thr)).

Lemma allowed_above : forall w s, (wu_warning w <= s)%N ->
  allowed_of (with_stored w s) = next_after (quot (wu_thr w) (wu_slope w) (s - wu_warning w)).
Proof.
  intros w s H. unfold allowed_of, with_stored, quot, one.
  cbn [wu_warning wu_stored wu_slope wu_thr].
  rewrite (proj2 (N.leb_le _ _) H). reflexivity.
Qed.

Lemma ofN_mono : forall a1 a2, (a1 <= a2)%N -> xle (f64_of_N a1) (f64_of_N a2).
Proof.
  intros a1 a2 H.
  eapply rspec_mono; [| |apply ofN_rspec|apply ofN_rspec]; apply IZR_le; lia.
Qed.

Lemma quot_anti : forall thr slope a1 a2,
  fin thr = true -> 0 < b2r thr -> nnf slope -> 0 < b2r slope -> (a1 <= a2)%N ->
  xle (quot thr slope a2) (quot thr slope a1).
Proof.
  intros thr slope a1 a2 Ft Pt Ns Ps H. unfold quot.
  pose proof (recip_thr_spos thr Ft Pt) as Sc.
  pose proof (mul_mono slope _ _ Ns Ps (ofN_mono a1 a2 H)) as M.
  pose proof (add_mono _ _ _ Sc M) as A.
  destruct M as (Q1 & Q2 & _).
  apply div_anti; [apply add_spos; assumption|apply add_spos; assumption|exact A].
Qed.

Lemma na_inf : fin (next_after pinf) = false.
Proof. vm_compute. reflexivity. Qed.

Lemma na_final : forall q1 q2, xle q2 q1 ->
  fin (next_after q1) = true -> fin (next_after q2) = true ->
  fle (next_after q2) (next_after q1) = true.
Proof.
  intros q1 q2 (P2 & P1 & H) F1 F2.
  assert (forall q, pos q -> fin (next_after q) = true -> nnf q) as K.
  { intros q [E|N] F; [|exact N]. subst. rewrite na_inf in F. discriminate. }
  pose proof (K _ P1 F1) as N1. pose proof (K _ P2 F2) as N2.
  destruct H as [E|(_ & _ & L)].
  - subst. rewrite na_inf in F1. discriminate.
  - apply next_after_mono; assumption.
Qed.

(** ** a zero slope: the allowance does not depend on the tokens *)
Lemma mul_zero : forall x b, nnf x -> fmul x (B754_zero 53 1024 b) = B754_zero 53 1024 b.
Proof.
  intros x b [F S]. destruct x as [s|s|s p H|s m e H]; try discriminate; simpl in S; subst;
  destruct b; reflexivity.
Qed.

Lemma add_zero_l : forall b c, spos c -> fadd (B754_zero 53 1024 b) c = c.
Proof.
  intros b c [E|[[F S] P]].
  - subst. destruct b; reflexivity.
  - destruct c as [s|s|s p H|s m e H]; try discriminate; simpl in S, P.
    + lra.
    + subst. destruct b; reflexivity.
Qed.

Lemma nan_case : forall b c,
  fin (next_after (fdiv one (fadd (fmul pinf (B754_zero 53 1024 b)) c))) = false.
Proof. intros b c. destruct b; destruct c as [s|s|s p H|s m e H]; reflexivity. Qed.

Lemma zero_slope : forall slope, fin slope = true -> b2r slope = 0 -> exists b, slope = B754_zero 53 1024 b.
Proof.
  intros slope F Z. destruct slope as [s|s|s p H|s m e H]; try discriminate.
  - exists s. reflexivity.
  - exfalso. simpl in Z. apply eq_0_F2R in Z. simpl in Z. destruct s; discriminate.
Qed.

Lemma quot_zero_slope : forall thr b a,
  fin thr = true -> 0 < b2r thr ->
  fin (next_after (quot thr (B754_zero 53 1024 b) a)) = true ->
  quot thr (B754_zero 53 1024 b) a = fdiv one (fdiv one thr).
Proof.
  intros thr b a Ft Pt F. unfold quot in *.
  pose proof (recip_thr_spos thr Ft Pt) as Sc.
  destruct (rspec_pos _ _ (ofN_rspec a)) as [E|N].
  - rewrite E in F. rewrite nan_case in F. discriminate.
  - rewrite mul_zero by exact N. rewrite add_zero_l by exact Sc. reflexivity.
Qed.

Theorem c08_allowed_antitone : forall w s1 s2,
  fin (wu_thr w) = true -> 0 < b2r (wu_thr w) ->
  fin (wu_slope w) = true -> 0 <= b2r (wu_slope w) ->
  (wu_warning w <= s1)%N -> (s1 <= s2)%N ->
  fin (allowed_of (with_stored w s1)) = true ->
  fin (allowed_of (with_stored w s2)) = true ->
  fle (allowed_of (with_stored w s2)) (allowed_of (with_stored w s1)) = true.
Proof.
  intros w s1 s2 Ft Pt Fs Ps H1 H12.
  rewrite (allowed_above w s1) by exact H1.
  rewrite (allowed_above w s2) by lia.
  intros F1 F2.
  destruct (Rle_lt_or_eq_dec _ _ Ps) as [Pos|Z].
  - apply na_final; [|exact F1|exact F2].
    apply quot_anti; [exact Ft|exact Pt| |exact Pos|lia].
    split; [exact Fs|apply pos_sgn_false; assumption].
  - destruct (zero_slope _ Fs (eq_sym Z)) as [b Eb]. rewrite Eb in *.
    pose proof (quot_zero_slope _ _ _ Ft Pt F1) as E1.
    pose proof (quot_zero_slope _ _ _ Ft Pt F2) as E2.
    rewrite E1 in *. rewrite E2.
    apply fle_refl_true; [exact F1|exact F1|apply Rle_refl].
Qed.
