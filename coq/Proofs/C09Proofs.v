(** C09: the system-protection model answers every history as the decision table evaluated on
    readings computed directly from the outcomes prescribes. *)
From SV Require Import Model.Base Model.F64 Model.LeapArray Model.World Model.System
  Spec.C02Spec Spec.WorldSpec Spec.C09Spec
  Proofs.LeapArrayProofs Proofs.WindowProofs Proofs.C02Proofs Proofs.WorldProofs.
From Coq Require Import ZifyBool ZifyN.
Open Scope N_scope.

(** * Bucket sums *)

Lemma bucket_sum_cons g ev e l s :
  bucket_sum g ev (e :: l) s =
  if start g (fst e) =? s then
    match snd e with WAdd ev' n => if mevent_eqb ev' ev then n + bucket_sum g ev l s else bucket_sum g ev l s
                | WConc _ => bucket_sum g ev l s end
  else bucket_sum g ev l s.
Proof. reflexivity. Qed.

Lemma bget_agg g ev l s : bget ev (agg g l s) = bucket_sum g ev l s.
Proof.
  induction l as [|[t wr] tl IH].
  - destruct ev; reflexivity.
  - rewrite bucket_sum_cons. cbn [agg fold_right fst snd]. fold (agg g tl s).
    destruct (start g t =? s); auto.
    rewrite sum_apply, IH. destruct wr as [e n|c]; cbn [d_sum]; auto.
    destruct (mevent_eqb e ev); auto.
Qed.

Lemma bucket_sum_app g ev l1 l2 s :
  bucket_sum g ev (l1 ++ l2) s = bucket_sum g ev l1 s + bucket_sum g ev l2 s.
Proof.
  induction l1 as [|[t wr] tl IH].
  - cbn [app]. unfold bucket_sum at 2. cbn [fold_right]. lia.
  - rewrite <- app_comm_cons, !bucket_sum_cons, IH. cbn [fst snd].
    destruct (start g t =? s); auto.
    destruct wr as [e n|c]; auto. destruct (mevent_eqb e ev); lia.
Qed.

Lemma bucket_sum_rev g ev l s : bucket_sum g ev (rev l) s = bucket_sum g ev l s.
Proof.
  induction l as [|e tl IH]; auto.
  cbn [rev]. rewrite bucket_sum_app, IH.
  change (e :: tl) with ([e] ++ tl). rewrite bucket_sum_app. lia.
Qed.

(** * Max of bucket sums over a list of events, with the bucket sums taken in a fixed history *)

Definition smax_gen (g : geom) (w : win) (now : N) (ev : mevent) (h0 h' : list ev_t) : N :=
  fold_right (fun (e : ev_t) acc =>
    if in_window g w now (fst e) then N.max (bucket_sum g ev h0 (start g (fst e))) acc else acc) 0 h'.

Lemma smax_gen_ge g w now ev h0 h' e :
  In e h' -> in_window g w now (fst e) = true ->
  bucket_sum g ev h0 (start g (fst e)) <= smax_gen g w now ev h0 h'.
Proof.
  induction h' as [|x tl IH]; intros Hin Hw; [destruct Hin|].
  unfold smax_gen. cbn [fold_right]. fold (smax_gen g w now ev h0 tl).
  destruct Hin as [->|Hin].
  - rewrite Hw. apply N.le_max_l.
  - specialize (IH Hin Hw). destruct (in_window g w now (fst x)); lia.
Qed.

Lemma smax_gen_le g w now ev h0 h' M :
  (forall e, In e h' -> in_window g w now (fst e) = true -> bucket_sum g ev h0 (start g (fst e)) <= M) ->
  smax_gen g w now ev h0 h' <= M.
Proof.
  induction h' as [|x tl IH]; intros H.
  - unfold smax_gen. cbn [fold_right]. lia.
  - unfold smax_gen. cbn [fold_right]. fold (smax_gen g w now ev h0 tl).
    assert (IH' : smax_gen g w now ev h0 tl <= M) by (apply IH; intros; apply H; simpl; auto).
    destruct (in_window g w now (fst x)) eqn:E; auto.
    pose proof (H x (or_introl eq_refl) E). lia.
Qed.

Lemma win_max_ge ev slots lo hi sl :
  In sl slots -> inr lo hi (fst sl) = true ->
  bget ev (snd sl) <= win_agg N.max 0 (bget ev) slots lo hi.
Proof.
  induction slots as [|x tl IH]; intros Hin Hr; [destruct Hin|].
  unfold win_agg. cbn [fold_right]. fold (win_agg N.max 0 (bget ev) tl lo hi).
  destruct Hin as [->|Hin].
  - rewrite Hr. apply N.le_max_l.
  - specialize (IH Hin Hr). destruct (inr lo hi (fst x)); lia.
Qed.

Lemma win_max_le ev slots lo hi M :
  (forall sl, In sl slots -> inr lo hi (fst sl) = true -> bget ev (snd sl) <= M) ->
  win_agg N.max 0 (bget ev) slots lo hi <= M.
Proof.
  induction slots as [|x tl IH]; intros H.
  - unfold win_agg. cbn [fold_right]. lia.
  - unfold win_agg. cbn [fold_right]. fold (win_agg N.max 0 (bget ev) tl lo hi).
    assert (IH' : win_agg N.max 0 (bget ev) tl lo hi <= M) by (apply IH; intros; apply H; simpl; auto).
    destruct (inr lo hi (fst x)) eqn:E; auto.
    pose proof (H x (or_introl eq_refl) E). lia.
Qed.

(** 1. the largest single-bucket sum of a window read equals the one computed from the events *)
Theorem max_single_exact : forall g wsc wiv w h slots now ev,
  read_pre g wsc wiv w h slots now ->
  win_max_single g w slots now ev = ROk (spec_max_single g w now ev h).
Proof.
  intros g wsc wiv w h slots now ev (Hb & Hw & Hwf & Hle & Hiv & Hrun).
  pose proof (win_new_facts _ _ _ _ Hw) as (-> & Hwiv & Hwle & Hs & Hivpos).
  pose proof (iv_le_start g now Hb Hiv) as Hst.
  destruct (slots_reflect_history g h slots Hb Hs Hwf Hrun) as [Hlen Hall].
  unfold win_max_single, satisfied, start_range. cbn [w_iv].
  assert (bl g =? 0 = false) as -> by lia.
  assert (start g now <? wiv = false) as -> by lia.
  cbn [rmap]. f_equal. unfold max_get.
  set (lo := start g now - wiv + bl g). set (hi := start g now).
  rewrite (agg_filter N.max 0 (bget ev) g slots now lo hi).
  2:{ intros sl _ Hin. unfold inr in Hin. unfold deprecated.
      pose proof (start_gt g now Hb). lia. }
  change (spec_max_single g (mkW wsc wiv) now ev h) with (smax_gen g (mkW wsc wiv) now ev h h).
  assert (Hwin : forall t, in_window g (mkW wsc wiv) now t = inr lo hi (start g t)) by reflexivity.
  assert (Hstamp : forall e, In e h -> start g (fst e) <= hi).
  { intros e He. apply start_mono; auto. }
  apply N.le_antisymm.
  - (* every in-range slot is a bucket of the window *)
    apply win_max_le. intros [s v] Hin Hr. cbn [fst snd] in *.
    destruct (In_nth_error _ _ Hin) as [i Hi].
    destruct (Hall i s v Hi) as [(-> & _)|(Hnz & Hix & -> & [e [He Hse]] & Hmax)].
    + unfold inr in Hr. lia.
    + rewrite bget_agg, bucket_sum_rev, <- Hse.
      apply smax_gen_ge; auto. rewrite Hwin, Hse. exact Hr.
  - (* every bucket of the window is still in its slot *)
    apply smax_gen_le. intros e He Hin. rewrite Hwin in Hin.
    set (i := N.to_nat (idx g (fst e))).
    assert (Hi : (i < length slots)%nat).
    { rewrite Hlen. unfold i. pose proof (idx_lt g (fst e) Hs). lia. }
    destruct (nth_error slots i) as [[s v]|] eqn:Hnth; [|apply nth_error_None in Hnth; lia].
    destruct (Hall i s v Hnth) as [(_ & _ & Hno)|(Hnz & Hix & Hv & [e' [He' Hse']] & Hmax)].
    + exfalso. apply (Hno e He). reflexivity.
    + pose proof (Hmax e He eq_refl) as Hle'.
      assert (Hs_hi : s <= hi) by (rewrite <- Hse'; auto).
      assert (Heq : start g (fst e) = s).
      { destruct (N.eq_dec (start g (fst e)) s) as [E|E]; auto. exfalso.
        assert (Hlt : start g (fst e) < s) by lia.
        assert (Hgap : start g (fst e) + iv g <= s).
        { apply same_slot_gap; auto.
          - apply start_mod; auto.
          - rewrite <- Hse'. apply start_mod; auto.
          - rewrite start_idx by auto. unfold i in Hix. lia. }
        unfold inr in Hin. unfold lo, hi in *. lia. }
      rewrite Heq in *.
      replace (bucket_sum g ev h s) with (bget ev (snd (s, v))).
      * apply win_max_ge; [eapply nth_error_In; eauto|exact Hin].
      * cbn [snd]. rewrite Hv, bget_agg, bucket_sum_rev. reflexivity.
Qed.

(** * The system slot *)

Record srel (w : sworld) (gh : sghost) : Prop := {
  sr_now : sw_now w = sg_now gh;
  sr_load : sw_load w = sg_load gh;
  sr_cpu : sw_cpu w = sg_cpu gh;
  sr_open : sw_open w = sg_open gh;
  sr_inb : node_rel (sw_cfg w) (sw_inb w) (sg_hist gh) (sg_fly gh) (sw_now w)
}.

Lemma node_read_pre c nd h fly now :
  geom_ok c -> iv (c_total c) <= now -> node_rel c nd h fly now ->
  read_pre (c_total c) (c_msc c) (c_miv c) (mkW (c_msc c) (c_miv c)) h (n_slots nd) now.
Proof.
  intros (Hb & Hs & Hw) Hiv [[Hrun Hwf Hle] _].
  unfold read_pre. repeat split; auto. apply run_strict_run_writes; auto.
Qed.

Lemma readings_rel w gh :
  geom_ok (sw_cfg w) -> iv (c_total (sw_cfg w)) <= sw_now w -> srel w gh ->
  let m := readings (sw_cfg w) (sg_hist gh) (sg_fly gh) (sg_now gh) (sg_load gh) (sg_cpu gh) in
  inb_qps w = rd_qps m /\ inb_conc w = rd_conc m /\ inb_avg_rt w = rd_avg_rt m /\
  sw_load w = rd_load m /\ sw_cpu w = rd_cpu m /\ bbr_ok w = rd_bbr_ok m.
Proof.
  intros Hg Hiv [Hnow Hload Hcpu Hopen Hinb].
  pose proof (node_read_pre _ _ _ _ _ Hg Hiv Hinb) as Hpre.
  assert (Hsum : forall ev, sum_with_time (c_total (sw_cfg w)) (defwin (sw_cfg w)) (n_slots (sw_inb w)) (sw_now w) ev
                 = ROk (spec_sum (c_total (sw_cfg w)) (mkW (c_msc (sw_cfg w)) (c_miv (sw_cfg w))) (sw_now w) ev (sg_hist gh))).
  { intros ev. apply (sum_exact _ _ _ _ _ _ _ ev Hpre). }
  pose proof (min_rt_exact _ _ _ _ _ _ _ Hpre) as Hmin.
  pose proof (max_single_exact _ _ _ _ _ _ _ Complete Hpre) as Hmax.
  assert (Hconc : n_conc (sw_inb w) = sg_fly gh) by (destruct Hinb; auto).
  assert (Hbbr : bbr_ok w = rd_bbr_ok (readings (sw_cfg w) (sg_hist gh) (sg_fly gh) (sg_now gh) (sg_load gh) (sg_cpu gh))).
  { unfold bbr_ok, inb_conc, inb_max_complete, inb_min_rt, readings. cbn [rd_bbr_ok].
    unfold defwin in *. rewrite Hmin, Hmax, Hconc, <- Hnow. cbn [rget]. reflexivity. }
  cbv zeta. repeat split; auto.
  - unfold inb_qps, readings. cbn [rd_qps]. rewrite Hsum, <- Hnow. cbn [rget]. reflexivity.
  - unfold inb_conc, readings. cbn [rd_conc]. rewrite Hconc. reflexivity.
  - unfold inb_avg_rt, readings. cbn [rd_avg_rt]. cbv zeta. rewrite !Hsum, <- Hnow. cbn [rget]. reflexivity.
Qed.

Lemma can_pass_trips w r m :
  inb_qps w = rd_qps m -> inb_conc w = rd_conc m -> inb_avg_rt w = rd_avg_rt m ->
  sw_load w = rd_load m -> sw_cpu w = rd_cpu m -> bbr_ok w = rd_bbr_ok m ->
  can_pass w r = (negb (fst (trips r m)), snd (trips r m)).
Proof.
  intros H1 H2 H3 H4 H5 H6. unfold can_pass, trips.
  destruct (s_metric r); cbv zeta; cbn [fst snd];
    rewrite ?H1, ?H2, ?H3, ?H4, ?H5, ?H6, ?negb_involutive; reflexivity.
Qed.

Lemma sys_slot_trips w m rs :
  inb_qps w = rd_qps m -> inb_conc w = rd_conc m -> inb_avg_rt w = rd_avg_rt m ->
  sw_load w = rd_load m -> sw_cpu w = rd_cpu m -> bbr_ok w = rd_bbr_ok m ->
  sys_slot w rs = first_trip rs m.
Proof.
  intros H1 H2 H3 H4 H5 H6. induction rs as [|r tl IH]; [reflexivity|].
  cbn [sys_slot first_trip]. rewrite (can_pass_trips w r m H1 H2 H3 H4 H5 H6), IH.
  destruct (trips r m) as [t v]. cbn [fst snd]. destruct t; reflexivity.
Qed.

Lemma f64_eqb_refl v : f64_eqb v v = true.
Proof. unfold f64_eqb. apply Z.eqb_refl. Qed.

Lemma c09_gen : forall ops w gh,
  geom_ok (sw_cfg w) -> iv (c_total (sw_cfg w)) <= sw_now w -> srel w gh ->
  ok_c09 (sw_cfg w) (sw_rules w) gh ops (srun w ops) = true.
Proof.
  induction ops as [|x tl IH]; intros w gh Hg Hiv Hrel; [reflexivity|].
  assert (Hbl : bl (c_total (sw_cfg w)) <= sw_now w).
  { destruct Hg as (_ & Hs & _). pose proof (bl_le_iv _ Hs). lia. }
  pose proof (readings_rel w gh Hg Hiv Hrel) as Hrd. cbv zeta in Hrd.
  destruct Hrd as (R1 & R2 & R3 & R4 & R5 & R6).
  pose proof (sys_slot_trips w _ (sw_rules w) R1 R2 R3 R4 R5 R6) as Hslot.
  destruct Hrel as [Hnow Hload Hcpu Hopen Hinb].
  destruct x as [id batch inbound|id|dt|v|v]; cbn [srun sexec].
  - destruct inbound.
    + rewrite Hslot. cbn [ok_c09].
      destruct (first_trip _ _) as [[rl v]|].
      * rewrite N.eqb_refl, f64_eqb_refl. cbn [andb].
        match goal with |- ok_c09 _ _ ?gh' _ (srun ?w' _) = true => apply (IH w' gh') end; auto.
        split; cbn; auto. rewrite <- Hnow. apply node_block_rel; auto.
      * match goal with |- ok_c09 _ _ ?gh' _ (srun ?w' _) = true => apply (IH w' gh') end; auto.
        split; cbn; auto.
        -- rewrite Hopen, Hnow. reflexivity.
        -- rewrite <- Hnow. apply node_pass_rel; auto.
    + cbn [ok_c09].
      match goal with |- ok_c09 _ _ ?gh' _ (srun ?w' _) = true => apply (IH w' gh') end; auto.
      split; cbn; auto. rewrite Hopen, Hnow. reflexivity.
  - rewrite Hopen. cbn [ok_c09].
    destruct (find_sopen id (sg_open gh)) as [[[[batch st] inbound] rest]|].
    + destruct inbound.
      * match goal with |- ok_c09 _ _ ?gh' _ (srun ?w' _) = true => apply (IH w' gh') end; auto.
        split; cbn; auto. rewrite <- Hnow. apply node_complete_rel; auto.
      * match goal with |- ok_c09 _ _ ?gh' _ (srun ?w' _) = true => apply (IH w' gh') end; auto.
        split; cbn; auto.
    + apply IH; auto. split; auto.
  - cbn [ok_c09].
    match goal with |- ok_c09 _ _ ?gh' _ (srun ?w' _) = true => apply (IH w' gh') end; auto.
    + cbn. lia.
    + split; cbn; auto; try lia. eapply node_rel_mono; [|exact Hinb]. lia.
  - cbn [ok_c09].
    match goal with |- ok_c09 _ _ ?gh' _ (srun ?w' _) = true => apply (IH w' gh') end; auto.
    split; cbn; auto.
  - cbn [ok_c09].
    match goal with |- ok_c09 _ _ ?gh' _ (srun ?w' _) = true => apply (IH w' gh') end; auto.
    split; cbn; auto.
Qed.

(** 2. the model of the system slot + inbound statistics answers every history exactly as the
    decision table evaluated on readings computed from the outcomes prescribes *)
Theorem c09_holds : forall c rs base load cpu ops,
  geom_ok c -> iv (c_total c) <= base ->
  ok_c09 c rs (mkSG base [] 0 load cpu []) ops
         (srun (mkSW c base (fresh_node c) load cpu rs []) ops) = true.
Proof.
  intros c rs base load cpu ops Hg Hiv.
  apply (c09_gen ops (mkSW c base (fresh_node c) load cpu rs []) (mkSG base [] 0 load cpu [])); auto.
  split; cbn; auto. apply node_rel_fresh.
Qed.

Print Assumptions max_single_exact.
Print Assumptions c09_holds.
