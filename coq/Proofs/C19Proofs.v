(** C19: the metric-log writer (Model/MetricLog.v): index invariant, retention, torn tail. *)
From SV Require Import Model.Base Model.MetricLine Model.MetricLog Spec.C19Inv Proofs.C18Proofs.
From Coq Require Import Lia ZifyBool ZifyN ZifyNat.
Open Scope N_scope.

(** * Lines parse back *)

Theorem c19_lines_parse_back : forall i, item_wf i -> from_line (to_line i) = Some (norm i).
Proof. exact c18_roundtrip. Qed.

(** * Torn tail *)

Definition nolf (l : bytes) : Prop := Forall (fun b => b <> 10) l.

Lemma nolf_app : forall a b, nolf a -> nolf b -> nolf (a ++ b).
Proof. intros a b Ha Hb. unfold nolf. apply Forall_app. split; assumption. Qed.

Lemma nolf_firstn : forall k l, nolf l -> nolf (firstn k l).
Proof.
  induction k as [|k IH]; intros l H.
  - constructor.
  - destruct l as [|x l]; [constructor|]. inversion H; subst.
    cbn [firstn]. constructor; [assumption|]. apply IH. assumption.
Qed.

Lemma digits_nolf : forall l, Forall digit l -> nolf l.
Proof.
  intros l H. unfold nolf. eapply Forall_impl; [|exact H].
  intros b [H1 H2]. lia.
Qed.

Lemma dec_nolf : forall n, nolf (dec n).
Proof. intros n. apply digits_nolf. apply uint_bytes_digits. Qed.

Lemma two_nolf : forall n, nolf (two n).
Proof.
  intros n. unfold two. generalize (n / 10) (n mod 10). intros x y.
  constructor; [lia|]. constructor; [lia|]. constructor.
Qed.

Lemma single_nolf : forall b, b <> 10 -> nolf [b].
Proof. intros b H. constructor; [assumption | constructor]. Qed.

Lemma time_str_nolf : forall ts, nolf (time_str ts).
Proof.
  intros ts. unfold time_str. cbv zeta.
  assert (HC : nolf [COLON]) by (apply single_nolf; unfold COLON; lia).
  apply nolf_app; [apply two_nolf|].
  apply nolf_app; [exact HC|].
  apply nolf_app; [apply two_nolf|].
  apply nolf_app; [exact HC|].
  apply two_nolf.
Qed.

Lemma clean_name_nolf : forall l, ~ In 10 l -> nolf (clean_name l).
Proof.
  induction l as [|b l IH]; intros H; cbn [clean_name map].
  - constructor.
  - constructor.
    + assert (b <> 10) by (intro; apply H; left; assumption).
      destruct (b =? SEP) eqn:E; [unfold USCORE; lia | assumption].
    + apply IH. intro; apply H; right; assumption.
Qed.

Lemma join_nolf : forall parts, Forall nolf parts -> nolf (join parts).
Proof.
  induction parts as [|p tl IH]; intros H.
  - constructor.
  - inversion H as [|? ? Hp Htl]; subst. destruct tl as [|q tl'].
    + exact Hp.
    + change (join (p :: q :: tl')) with (p ++ [SEP] ++ join (q :: tl')).
      apply nolf_app; [exact Hp|]. apply nolf_app.
      * apply single_nolf. unfold SEP. lia.
      * apply IH. exact Htl.
Qed.

Lemma to_line_nolf : forall i, name_ok i -> nolf (to_line i).
Proof.
  intros i H. unfold to_line. apply join_nolf.
  repeat (apply Forall_cons;
          [first [apply dec_nolf | apply time_str_nolf | apply clean_name_nolf; exact H]|]).
  apply Forall_nil.
Qed.

Lemma split_lines_app_gen : forall a l cur, nolf a ->
  split_lines (a ++ 10 :: l) cur = (List.rev cur ++ a) :: split_lines l [].
Proof.
  induction a as [|x a IH]; intros l cur H.
  - cbn [List.app split_lines]. replace (10 =? 10) with true by reflexivity.
    rewrite app_nil_r. reflexivity.
  - inversion H; subst. cbn [List.app split_lines].
    replace (x =? 10) with false by lia.
    rewrite IH by assumption. cbn [List.rev]. rewrite <- app_assoc. reflexivity.
Qed.

Lemma split_lines_nolf_len : forall a cur, nolf a -> (length (split_lines a cur) <= 1)%nat.
Proof.
  induction a as [|x a IH]; intros cur H.
  - cbn [split_lines]. destruct cur; cbn [length]; lia.
  - inversion H; subst. cbn [split_lines].
    replace (x =? 10) with false by lia. apply IH. assumption.
Qed.

Lemma log_of_cons : forall i l, log_of (i :: l) = to_line i ++ 10 :: log_of l.
Proof.
  intros i l. unfold log_of. cbn [flat_map]. rewrite <- app_assoc. reflexivity.
Qed.

Lemma log_of_app : forall a b, log_of (a ++ b) = log_of a ++ log_of b.
Proof. intros a b. unfold log_of. apply flat_map_app. Qed.

Theorem c19_torn_tail : forall items k,
  Forall name_ok items ->
  exists n partial,
    split_lines (firstn k (log_of items)) [] = map to_line (firstn n items) ++ partial /\
    (length partial <= 1)%nat /\
    (length (log_of (firstn n items)) <= k)%nat.
Proof.
  induction items as [|i items IH]; intros k H.
  - exists 0%nat, []. change (log_of []) with (@nil N). rewrite firstn_nil.
    cbn [split_lines firstn map List.app]. change (log_of []) with (@nil N). cbn [length].
    split; [reflexivity | split; lia].
  - inversion H as [|? ? Hi Hrest]; subst.
    pose proof (to_line_nolf i Hi) as Hn.
    rewrite log_of_cons.
    destruct (le_lt_dec k (length (to_line i))) as [Hk|Hk].
    + exists 0%nat, (split_lines (firstn k (to_line i ++ 10 :: log_of items)) []).
      cbn [firstn map List.app]. split; [reflexivity|]. split.
      * rewrite firstn_app.
        replace (k - length (to_line i))%nat with 0%nat by lia.
        rewrite firstn_O, app_nil_r.
        apply split_lines_nolf_len. apply nolf_firstn. exact Hn.
      * change (log_of []) with (@nil N). cbn [length]. lia.
    + destruct (IH (k - length (to_line i) - 1)%nat Hrest) as (n & partial & E1 & E2 & E3).
      exists (S n), partial.
      rewrite firstn_app.
      rewrite (firstn_all2 (n := k) (to_line i)) by lia.
      replace (k - length (to_line i))%nat with (S (k - length (to_line i) - 1)) by lia.
      cbn [firstn]. rewrite split_lines_app_gen by exact Hn.
      cbn [List.rev List.app map]. rewrite E1.
      split; [reflexivity|]. split; [exact E2|].
      rewrite log_of_cons, app_length. cbn [length]. lia.
Qed.

(** * The write, step by step *)

Definition f_idx_add (sec : N) (f : mfile) : mfile :=
  mkMF (f_day f) (f_no f) (f_log f) (f_idx f ++ be64 sec ++ be64 (N.of_nat (length (f_log f)))).
Definition f_log_add (lines : bytes) (f : mfile) : mfile :=
  mkMF (f_day f) (f_no f) (f_log f ++ lines) (f_idx f).

Definition lines_of (ts : N) (items : list mitem) : bytes :=
  flat_map (fun i => to_line (with_ts ts i) ++ [10]) items.

Definition mw1 (w : mlw) (ts : N) : mlw :=
  if w_latest w <? ts / 1000 then
    upd_cur (if w_latest w / 86400 <? ts / 1000 / 86400 then roll w ts else w) (f_idx_add (ts / 1000))
  else w.
Definition mw2 (w : mlw) (ts : N) (items : list mitem) : mlw :=
  upd_cur (mw1 w ts) (f_log_add (lines_of ts items)).
Definition mw3 (w : mlw) (ts : N) (items : list mitem) : mlw :=
  match cur_file (mw2 w ts items) with
  | Some f => if w_max_size (mw2 w ts items) <=? N.of_nat (length (f_log f))
              then roll (mw2 w ts items) ts else mw2 w ts items
  | None => mw2 w ts items
  end.
Definition mw_end (w : mlw) (ts : N) (items : list mitem) : mlw :=
  mkMLW (w_dir (mw3 w ts items)) (w_cur (mw3 w ts items)) (N.max (w_latest w) (ts / 1000))
        (w_max_size (mw3 w ts items)) (w_max_files (mw3 w ts items)).

Lemma mwrite_eq : forall w ts items,
  mwrite w ts items =
  match items with
  | [] => (w, WOk)
  | _ => if ts =? 0 then (w, WErr) else
         match cur_file w with
         | None => (w, WErr)
         | Some _ => if ts / 1000 <? w_latest w then (w, WOk) else (mw_end w ts items, WOk)
         end
  end.
Proof. intros w ts items. destruct items; reflexivity. Qed.

Lemma mwrite_cases : forall (P : mlw -> Prop) w ts items,
  P w ->
  (items <> [] -> (ts / 1000 <? w_latest w) = false -> P (mw_end w ts items)) ->
  P (fst (mwrite w ts items)).
Proof.
  intros P w ts items H0 H1. rewrite mwrite_eq.
  destruct items as [|i0 tl]; [exact H0|].
  destruct (ts =? 0); [exact H0|].
  destruct (cur_file w); [|exact H0].
  destruct (ts / 1000 <? w_latest w) eqn:E; [exact H0|].
  apply H1; [discriminate | reflexivity].
Qed.

(** * Retention *)

Lemma filter_len : forall {A} (p : A -> bool) l, (length (filter p l) <= length l)%nat.
Proof.
  intros A p l. induction l as [|x l IH]; cbn [filter length]; [lia|].
  destruct (p x); cbn [length]; lia.
Qed.

Lemma remove_deprecated_len : forall dir mf, 1 <= mf ->
  N.of_nat (length (remove_deprecated dir mf)) <= mf - 1.
Proof.
  intros dir mf H. unfold remove_deprecated. cbv zeta.
  generalize (sorted_files dir) as fs. intros fs.
  destruct (mf <=? N.of_nat (length fs)) eqn:E.
  - rewrite skipn_length. lia.
  - lia.
Qed.

Definition RInv (mf : N) (w : mlw) : Prop :=
  w_max_files w = mf /\ N.of_nat (length (w_dir w)) <= mf.

Lemma roll_RInv : forall mf w t, 1 <= mf -> w_max_files w = mf -> RInv mf (roll w t).
Proof.
  intros mf w t H1 H2. unfold roll. destruct (next_name (w_dir w) t) as [day no].
  unfold RInv. cbn [w_dir w_max_files]. split; [exact H2|].
  rewrite app_length. cbn [length].
  pose proof (remove_deprecated_len (w_dir w) (w_max_files w)) as HR.
  pose proof (filter_len (fun f => negb (same_file f day no))
                (remove_deprecated (w_dir w) (w_max_files w))) as HF.
  rewrite H2 in *. specialize (HR H1). lia.
Qed.

Lemma upd_cur_RInv : forall mf w f, RInv mf w -> RInv mf (upd_cur w f).
Proof.
  intros mf w f [H1 H2]. unfold upd_cur. destruct (w_cur w) as [[d n]|]; [|split; assumption].
  unfold RInv. cbn [w_dir w_max_files]. rewrite map_length. split; assumption.
Qed.

Lemma mwrite_RInv : forall mf w ts items, 1 <= mf -> RInv mf w -> RInv mf (fst (mwrite w ts items)).
Proof.
  intros mf w ts items Hmf H. apply mwrite_cases; [exact H|]. intros _ _.
  assert (H1 : RInv mf (mw1 w ts)).
  { unfold mw1. destruct (w_latest w <? ts / 1000); [|exact H].
    apply upd_cur_RInv. destruct (w_latest w / 86400 <? ts / 1000 / 86400); [|exact H].
    apply roll_RInv; [exact Hmf | apply H]. }
  assert (H2 : RInv mf (mw2 w ts items)) by (apply upd_cur_RInv; exact H1).
  assert (H3 : RInv mf (mw3 w ts items)).
  { unfold mw3. destruct (cur_file (mw2 w ts items)); [|exact H2].
    destruct (_ <=? _); [|exact H2]. apply roll_RInv; [exact Hmf | apply H2]. }
  unfold mw_end, RInv. cbn [w_dir w_max_files]. exact H3.
Qed.

Lemma after_writes_inv : forall (P : mlw -> Prop),
  (forall w ts items, P w -> P (fst (mwrite w ts items))) ->
  forall ws w, P w -> P (after_writes w ws).
Proof.
  intros P HP. unfold after_writes.
  induction ws as [|x ws IH]; intros w H; cbn [fold_left]; [exact H|].
  apply IH. apply HP. exact H.
Qed.

Lemma writer_new_shape : forall now ms mf w0,
  writer_new now ms mf = Some w0 ->
  1 <= mf /\
  w0 = mkMLW (w_dir (roll (mkMLW [] None 0 ms mf) now)) (w_cur (roll (mkMLW [] None 0 ms mf) now))
             (now / 1000) ms mf.
Proof.
  intros now ms mf w0 H. unfold writer_new in H.
  destruct ((ms =? 0) || (mf =? 0)) eqn:E; [discriminate|].
  cbv zeta in H. injection H as <-. split; [lia | reflexivity].
Qed.

Theorem c19_retention : forall now max_size max_files w0 ws,
  writer_new now max_size max_files = Some w0 ->
  N.of_nat (length (w_dir (after_writes w0 ws))) <= N.max max_files 1.
Proof.
  intros now ms mf w0 ws H. apply writer_new_shape in H. destruct H as [Hmf ->].
  assert (HI : RInv mf (after_writes
            (mkMLW (w_dir (roll (mkMLW [] None 0 ms mf) now))
                   (w_cur (roll (mkMLW [] None 0 ms mf) now)) (now / 1000) ms mf) ws)).
  { apply after_writes_inv.
    - intros w ts items. apply mwrite_RInv. exact Hmf.
    - pose proof (roll_RInv mf (mkMLW [] None 0 ms mf) now Hmf eq_refl) as [_ HR].
      split; [reflexivity|]. cbn [w_dir]. exact HR. }
  destruct HI as [_ HI]. lia.
Qed.

(** * The index invariant *)

Definition nokey (d n : N) (f : mfile) : Prop := same_file f d n = false.

Definition cur_ok (L : N) (cf : mfile) : Prop :=
  exists items ents,
    f_log cf = log_of items /\ f_idx cf = idx_of ents /\
    Forall (entry_ok items) ents /\ increasing (map fst ents) /\
    Forall (fun i => sec_of i <= L) items /\ Forall (fun e => fst e <= L) ents.

Definition WI (L : N) (dir : list mfile) (cur : option (N * N)) : Prop :=
  exists d n l1 cf l2,
    cur = Some (d, n) /\ dir = l1 ++ cf :: l2 /\
    Forall (nokey d n) l1 /\ Forall (nokey d n) l2 /\ same_file cf d n = true /\
    Forall file_ok l1 /\ Forall file_ok l2 /\ cur_ok L cf.

Definition WInv (w : mlw) : Prop := WI (w_latest w) (w_dir w) (w_cur w).

Lemma cur_ok_file_ok : forall L cf, cur_ok L cf -> file_ok cf.
Proof.
  intros L cf (items & ents & H1 & H2 & H3 & H4 & _).
  exists items, ents. repeat split; assumption.
Qed.

Lemma WI_files_ok : forall L dir cur, WI L dir cur -> Forall file_ok dir.
Proof.
  intros L dir cur (d & n & l1 & cf & l2 & _ & -> & _ & _ & _ & H1 & H2 & H3).
  apply Forall_app. split; [exact H1|]. constructor; [|exact H2].
  eapply cur_ok_file_ok. exact H3.
Qed.

(** list helpers *)
Lemma Forall_insert_file : forall (P : mfile -> Prop) x l,
  P x -> Forall P l -> Forall P (insert_file x l).
Proof.
  intros P x l Hx. induction l as [|y l IH]; intros H; cbn [insert_file].
  - constructor; [exact Hx | constructor].
  - inversion H; subst. destruct (file_ltb y x).
    + constructor; [assumption | apply IH; assumption].
    + constructor; [exact Hx | exact H].
Qed.

Lemma Forall_sorted_files : forall (P : mfile -> Prop) l, Forall P l -> Forall P (sorted_files l).
Proof.
  intros P l H. unfold sorted_files. induction H as [|x l Hx Hl IH]; cbn [fold_right].
  - constructor.
  - apply Forall_insert_file; assumption.
Qed.

Lemma Forall_skipn_ : forall {A} (P : A -> Prop) k l, Forall P l -> Forall P (skipn k l).
Proof.
  intros A P. induction k as [|k IH]; intros l H; [exact H|].
  destruct l as [|x l]; [constructor|]. inversion H; subst. cbn [skipn]. apply IH. assumption.
Qed.

Lemma Forall_filter_ : forall {A} (P : A -> Prop) p l, Forall P l -> Forall P (filter p l).
Proof.
  intros A P p l H. induction H as [|x l Hx Hl IH]; cbn [filter]; [constructor|].
  destruct (p x); [constructor|]; assumption.
Qed.

Lemma Forall_filter_nokey : forall d n l,
  Forall (nokey d n) (filter (fun f => negb (same_file f d n)) l).
Proof.
  intros d n. induction l as [|x l IH]; cbn [filter]; [constructor|].
  destruct (same_file x d n) eqn:E; cbn [negb]; [exact IH|].
  constructor; [exact E | exact IH].
Qed.

Lemma Forall_remove_deprecated : forall (P : mfile -> Prop) dir mf,
  Forall P dir -> Forall P (remove_deprecated dir mf).
Proof.
  intros P dir mf H. unfold remove_deprecated. cbv zeta.
  pose proof (Forall_sorted_files P dir H) as HS.
  destruct (_ <=? _); [apply Forall_skipn_|]; exact HS.
Qed.

Lemma cur_ok_empty : forall L d n, cur_ok L (mkMF d n [] []).
Proof.
  intros L d n. exists [], []. cbn [f_log f_idx map increasing].
  repeat split; constructor.
Qed.

Lemma same_file_refl : forall d n l i, same_file (mkMF d n l i) d n = true.
Proof. intros. unfold same_file. cbn [f_day f_no]. rewrite !N.eqb_refl. reflexivity. Qed.

Lemma roll_WI : forall L w t, Forall file_ok (w_dir w) ->
  WI L (w_dir (roll w t)) (w_cur (roll w t)).
Proof.
  intros L w t H. unfold roll. destruct (next_name (w_dir w) t) as [day no].
  cbn [w_dir w_cur].
  exists day, no, (filter (fun f => negb (same_file f day no))
                     (remove_deprecated (w_dir w) (w_max_files w))),
         (mkMF day no [] []), [].
  split; [reflexivity|]. split; [reflexivity|].
  split; [apply Forall_filter_nokey|]. split; [constructor|].
  split; [apply same_file_refl|].
  split; [apply Forall_filter_; apply Forall_remove_deprecated; exact H|].
  split; [constructor|]. apply cur_ok_empty.
Qed.

Lemma roll_latest : forall w t, w_latest (roll w t) = w_latest w.
Proof. intros w t. unfold roll. destruct (next_name (w_dir w) t). reflexivity. Qed.

Lemma map_nokey : forall d n (g : mfile -> mfile) l, Forall (nokey d n) l ->
  map (fun x => if same_file x d n then g x else x) l = l.
Proof.
  intros d n g l H. induction H as [|x l Hx Hl IH]; cbn [map]; [reflexivity|].
  unfold nokey in Hx. rewrite Hx, IH. reflexivity.
Qed.

Lemma upd_cur_WI : forall L L' w f,
  WI L (w_dir w) (w_cur w) ->
  (forall x, f_day (f x) = f_day x /\ f_no (f x) = f_no x) ->
  (forall cf, cur_ok L cf -> cur_ok L' (f cf)) ->
  WI L' (w_dir (upd_cur w f)) (w_cur (upd_cur w f)).
Proof.
  intros L L' w f (d & n & l1 & cf & l2 & Hc & Hd & H1 & H2 & Hk & F1 & F2 & Hcur) Hkey Hf.
  unfold upd_cur. rewrite Hc. cbn [w_dir w_cur].
  exists d, n, l1, (f cf), l2.
  split; [reflexivity|]. split.
  { rewrite Hd, map_app. cbn [map]. rewrite Hk.
    rewrite (map_nokey d n f l1 H1), (map_nokey d n f l2 H2). reflexivity. }
  split; [exact H1|]. split; [exact H2|]. split.
  { unfold same_file in *. destruct (Hkey cf) as [-> ->]. exact Hk. }
  split; [exact F1|]. split; [exact F2|]. apply Hf. exact Hcur.
Qed.

Lemma upd_cur_twice : forall w f g,
  (forall x, f_day (f x) = f_day x /\ f_no (f x) = f_no x) ->
  upd_cur (upd_cur w f) g = upd_cur w (fun x => g (f x)).
Proof.
  intros w f g Hkey. unfold upd_cur. destruct (w_cur w) as [[d n]|] eqn:E.
  - cbn [w_cur w_dir w_latest w_max_size w_max_files].
    f_equal. rewrite map_map. apply map_ext. intros x.
    destruct (same_file x d n) eqn:Ex; [|rewrite Ex; reflexivity].
    replace (same_file (f x) d n) with true; [reflexivity|].
    unfold same_file in *. destruct (Hkey x) as [-> ->]. symmetry. exact Ex.
  - cbv iota. rewrite E. reflexivity.
Qed.

(** file-level facts *)
Lemma idx_of_snoc : forall ents e, idx_of (ents ++ [e]) = idx_of ents ++ be64 (fst e) ++ be64 (snd e).
Proof.
  intros ents e. unfold idx_of. rewrite flat_map_app. cbn [flat_map].
  rewrite app_nil_r. reflexivity.
Qed.

Lemma entry_ok_app : forall items extra e, entry_ok items e -> entry_ok (items ++ extra) e.
Proof.
  intros items extra e (pre & post & E & Ho & Hp & Hs).
  exists pre, (post ++ extra). split; [rewrite E, app_assoc; reflexivity|].
  split; [exact Ho|]. split; [exact Hp|].
  destruct post as [|i post]; [contradiction | exact Hs].
Qed.

Lemma increasing_snoc : forall l x, increasing l -> Forall (fun a => a < x) l -> increasing (l ++ [x]).
Proof.
  induction l as [|a l IH]; intros x Hi Ha.
  - exact I.
  - destruct l as [|b tl].
    + inversion Ha; subst. split; [assumption | exact I].
    + destruct Hi as [Hab Hi]. inversion Ha; subst.
      change (a < b /\ increasing ((b :: tl) ++ [x])).
      split; [exact Hab|]. apply IH; assumption.
Qed.

Lemma lines_of_log : forall ts items, lines_of ts items = log_of (map (with_ts ts) items).
Proof.
  intros ts items. unfold lines_of, log_of.
  induction items as [|i items IH]; cbn [flat_map map]; [reflexivity|].
  rewrite IH. reflexivity.
Qed.

Lemma cur_ok_mono : forall L L' cf, L <= L' -> cur_ok L cf -> cur_ok L' cf.
Proof.
  intros L L' cf HL (items & ents & H1 & H2 & H3 & H4 & H5 & H6).
  exists items, ents. repeat split; try assumption.
  - eapply Forall_impl; [|exact H5]. cbv beta. intros; lia.
  - eapply Forall_impl; [|exact H6]. cbv beta. intros; lia.
Qed.

Lemma cur_ok_append_same : forall L cf new,
  cur_ok L cf -> Forall (fun i => sec_of i <= L) new ->
  cur_ok L (mkMF (f_day cf) (f_no cf) (f_log cf ++ log_of new) (f_idx cf)).
Proof.
  intros L cf new (items & ents & H1 & H2 & H3 & H4 & H5 & H6) Hn.
  exists (items ++ new), ents. cbn [f_log f_idx].
  split; [rewrite H1, log_of_app; reflexivity|]. split; [exact H2|].
  split; [eapply Forall_impl; [|exact H3]; intros e; apply entry_ok_app|].
  split; [exact H4|]. split; [|exact H6].
  apply Forall_app. split; assumption.
Qed.

Lemma cur_ok_append_new : forall L sec cf new,
  cur_ok L cf -> L < sec -> new <> [] -> Forall (fun i => sec_of i = sec) new ->
  cur_ok sec (mkMF (f_day cf) (f_no cf) (f_log cf ++ log_of new)
                   (f_idx cf ++ be64 sec ++ be64 (N.of_nat (length (f_log cf))))).
Proof.
  intros L sec cf new (items & ents & H1 & H2 & H3 & H4 & H5 & H6) HL Hne Hn.
  exists (items ++ new), (ents ++ [(sec, N.of_nat (length (log_of items)))]).
  cbn [f_log f_idx].
  split; [rewrite H1, log_of_app; reflexivity|].
  split; [rewrite idx_of_snoc, H2, H1; reflexivity|].
  split.
  { apply Forall_app. split.
    - eapply Forall_impl; [|exact H3]. intros e; apply entry_ok_app.
    - constructor; [|constructor].
      exists items, new. cbn [fst snd].
      split; [reflexivity|]. split; [reflexivity|]. split.
      + eapply Forall_impl; [|exact H5]. cbv beta. intros; lia.
      + destruct new as [|i new]; [contradiction|]. inversion Hn; subst. reflexivity. }
  split.
  { rewrite map_app. cbn [map fst]. apply increasing_snoc; [exact H4|].
    rewrite Forall_map. eapply Forall_impl; [|exact H6]. cbv beta. intros; lia. }
  split.
  - apply Forall_app. split.
    + eapply Forall_impl; [|exact H5]. cbv beta. intros; lia.
    + eapply Forall_impl; [|exact Hn]. cbv beta. intros; lia.
  - apply Forall_app. split.
    + eapply Forall_impl; [|exact H6]. cbv beta. intros; lia.
    + constructor; [cbn [fst]; lia | constructor].
Qed.

Lemma sec_of_with_ts : forall ts items, Forall (fun i => sec_of i = ts / 1000) (map (with_ts ts) items).
Proof.
  intros ts items. rewrite Forall_map. rewrite Forall_forall. intros i _. reflexivity.
Qed.

Lemma mw2_WI : forall w ts items,
  WInv w -> items <> [] -> (ts / 1000 <? w_latest w) = false ->
  WI (N.max (w_latest w) (ts / 1000)) (w_dir (mw2 w ts items)) (w_cur (mw2 w ts items)).
Proof.
  intros w ts items H Hne Hlt. unfold mw2, mw1.
  pose proof (sec_of_with_ts ts items) as Hsec.
  destruct (w_latest w <? ts / 1000) eqn:E.
  - rewrite upd_cur_twice by (intros x; split; reflexivity).
    replace (N.max (w_latest w) (ts / 1000)) with (ts / 1000) by lia.
    apply upd_cur_WI with (L := w_latest w).
    + destruct (w_latest w / 86400 <? ts / 1000 / 86400).
      * apply roll_WI. eapply WI_files_ok. exact H.
      * exact H.
    + intros x. split; reflexivity.
    + intros cf Hc. unfold f_log_add, f_idx_add. cbn [f_day f_no f_log f_idx].
      rewrite lines_of_log. apply cur_ok_append_new with (L := w_latest w).
      * exact Hc.
      * lia.
      * destruct items; [contradiction | discriminate].
      * exact Hsec.
  - replace (N.max (w_latest w) (ts / 1000)) with (w_latest w) by lia.
    apply upd_cur_WI with (L := w_latest w).
    + exact H.
    + intros x. split; reflexivity.
    + intros cf Hc. unfold f_log_add. rewrite lines_of_log.
      apply cur_ok_append_same; [exact Hc|].
      eapply Forall_impl; [|exact Hsec]. cbv beta. intros; lia.
Qed.

Lemma mw3_WI : forall L w ts items,
  WI L (w_dir (mw2 w ts items)) (w_cur (mw2 w ts items)) ->
  WI L (w_dir (mw3 w ts items)) (w_cur (mw3 w ts items)).
Proof.
  intros L w ts items H. unfold mw3.
  destruct (cur_file (mw2 w ts items)); [|exact H].
  destruct (_ <=? _); [|exact H].
  apply roll_WI. eapply WI_files_ok. exact H.
Qed.

Lemma mwrite_WInv : forall w ts items, WInv w -> WInv (fst (mwrite w ts items)).
Proof.
  intros w ts items H. apply mwrite_cases; [exact H|]. intros Hne Hlt.
  unfold WInv, mw_end. cbn [w_dir w_cur w_latest].
  apply mw3_WI. apply mw2_WI; assumption.
Qed.

Theorem c19_index_points_at_seconds : forall now max_size max_files w0 ws,
  writer_new now max_size max_files = Some w0 ->
  Forall (fun x => Forall name_ok (snd x)) ws ->
  Forall file_ok (w_dir (after_writes w0 ws)).
Proof.
  intros now ms mf w0 ws H _. apply writer_new_shape in H. destruct H as [_ ->].
  eapply WI_files_ok. apply (after_writes_inv WInv mwrite_WInv).
  unfold WInv. cbn [w_dir w_cur w_latest]. apply roll_WI. constructor.
Qed.

Print Assumptions c19_index_points_at_seconds.
Print Assumptions c19_retention.
Print Assumptions c19_torn_tail.
Print Assumptions c19_lines_parse_back.
