(** Read-side theorems: what a SlidingWindowMetric reports equals the aggregate of the
    recorded events whose bucket lies in the read window. *)
From SV Require Import Model.Base Model.F64 Model.LeapArray Proofs.LeapArrayProofs.
From Coq Require Import ZifyBool ZifyN.

Open Scope N_scope.

(** * The three aggregate instances *)

Definition d_sum (ev : mevent) (w : wop) : option N :=
  match w with WAdd e n => if mevent_eqb e ev then Some n else None | WConc _ => None end.
Definition d_min (w : wop) : option N :=
  match w with WAdd Rt n => Some n | _ => None end.
Definition d_maxc (w : wop) : option N :=
  match w with WConc c => Some c | _ => None end.

Lemma sum_apply ev w b :
  bget ev (apply_w w b) = match d_sum ev w with Some x => x + bget ev b | None => bget ev b end.
Proof. destruct w as [e n|c]; [destruct e, ev|destruct ev]; simpl; lia. Qed.

Lemma min_apply w b :
  b_minrt (apply_w w b) = match d_min w with Some x => N.min x (b_minrt b) | None => b_minrt b end.
Proof. destruct w as [e n|c]; [destruct e|]; simpl; auto. destruct (n <? b_minrt b) eqn:E; lia. Qed.

Lemma maxc_apply w b :
  b_maxc (apply_w w b) = match d_maxc w with Some x => N.max x (b_maxc b) | None => b_maxc b end.
Proof. destruct w as [e n|c]; [destruct e|]; simpl; auto. destruct (b_maxc b <? c) eqn:E; lia. Qed.

Lemma min_assoc a b c : N.min a (N.min b c) = N.min (N.min a b) c. Proof. lia. Qed.
Lemma max_assoc a b c : N.max a (N.max b c) = N.max (N.max a b) c. Proof. lia. Qed.

(** * Aggregating a filtered slot list is the ranged aggregate *)

Lemma agg_filter op e0 m (g : geom) slots now lo hi :
  (forall sl, In sl slots -> inr lo hi (fst sl) = true -> deprecated now (iv g) (fst sl) = false) ->
  fold_right (fun (sl : slot) acc => op (m (snd sl)) acc) e0
             (valid_values g slots now (fun s => (lo <=? s) && (s <=? hi)))
  = win_agg op e0 m slots lo hi.
Proof.
  unfold valid_values. induction slots as [|sl tl IH]; simpl; intros H; auto.
  rewrite <- IH by (intros; apply H; auto).
  fold (inr lo hi (fst sl)).
  destruct (inr lo hi (fst sl)) eqn:E.
  - rewrite (H sl (or_introl eq_refl) E). reflexivity.
  - rewrite andb_false_r. reflexivity.
Qed.

(** * Order of the history does not matter for the direct computation *)

Lemma spec_agg_snoc op e0 d
  (op_comm : forall a b, op a b = op b a)
  (op_assoc : forall a b c, op a (op b c) = op (op a b) c) g l x lo hi :
  spec_agg op e0 d g (l ++ [x]) lo hi = spec_agg op e0 d g (x :: l) lo hi.
Proof.
  induction l as [|y l IH]; simpl; auto.
  rewrite IH. simpl.
  destruct (inr lo hi (start g (fst y))), (inr lo hi (start g (fst x))); auto.
  destruct (d (snd y)), (d (snd x)); auto.
  rewrite !op_assoc, (op_comm n n0). reflexivity.
Qed.

Lemma spec_agg_rev op e0 d
  (op_comm : forall a b, op a b = op b a)
  (op_assoc : forall a b c, op a (op b c) = op (op a b) c) g l lo hi :
  spec_agg op e0 d g (rev l) lo hi = spec_agg op e0 d g l lo hi.
Proof.
  induction l as [|x l IH]; simpl; auto.
  rewrite spec_agg_snoc by auto. simpl. rewrite IH. reflexivity.
Qed.

(** * Geometry facts from the reuse check *)

Lemma check_reuse_facts wsc wiv psc piv :
  check_reuse wsc wiv psc piv = true ->
  0 < wsc /\ 0 < wiv /\ wiv mod wsc = 0 /\ 0 < psc /\ 0 < piv /\ piv mod psc = 0 /\
  piv mod wiv = 0 /\ (wiv / wsc) mod (piv / psc) = 0.
Proof.
  unfold check_reuse, check_stat. intros H.
  repeat (apply andb_prop in H; destruct H as [H ?]).
  repeat match goal with
  | H : negb _ = true |- _ => apply negb_true_iff in H
  | H : (_ || _) = false |- _ => apply orb_false_elim in H; destruct H
  | H : negb _ = false |- _ => apply negb_false_iff in H
  | H : (_ =? _) = true |- _ => apply N.eqb_eq in H
  | H : (_ =? _) = false |- _ => apply N.eqb_neq in H
  end.
  repeat split; auto; apply N.neq_0_lt_0; auto.
Qed.

Lemma mod0_le a b : 0 < a -> 0 < b -> a mod b = 0 -> b <= a.
Proof.
  intros Ha Hb H. pose proof (N.div_mod' a b). rewrite H in H0.
  destruct (a / b) eqn:E; [lia|]. nia.
Qed.

Lemma win_new_facts g wsc wiv w :
  win_new g wsc wiv = Some w -> w = mkW wsc wiv /\ 0 < wiv /\ wiv <= iv g /\ 0 < sc g /\ 0 < iv g.
Proof.
  unfold win_new. destruct (check_reuse wsc wiv (sc g) (iv g)) eqn:E; [|discriminate].
  intros H; inversion H; subst. apply check_reuse_facts in E.
  destruct E as (H1 & H2 & H3 & H4 & H5 & H6 & H7 & H8).
  repeat split; auto. apply mod0_le; auto.
Qed.

(** The interval of a ring is a multiple of the bucket length, so [iv <= now] gives
    [iv <= start now]. *)
Lemma iv_le_start g now : 0 < bl g -> iv g <= now -> iv g <= start g now.
Proof.
  intros Hb H. rewrite start_eq by auto. unfold iv in *. rewrite (N.mul_comm (sc g)).
  apply N.mul_le_mono_l.
  replace (sc g) with (sc g * bl g / bl g) by (apply N.div_mul; lia).
  apply N.div_le_mono; lia.
Qed.

(** * The reached state *)

Record reached (g : geom) (h : list ev_t) (slots : list slot) : Prop := {
  r_inv : Inv g slots (rev h);
  r_run : run_strict g (ring0 g) h = Some slots
}.

Lemma wf_reaches g h :
  0 < bl g -> 0 < sc g -> wf_hist g h -> exists slots, reached g h slots.
Proof.
  intros Hb Hs Hwf.
  destruct (run_strict_inv g Hb Hs h (ring0 g) [] (bl g)) as (s' & Hr & HI); auto; try lia.
  - intros ev [].
  - apply Inv_init.
  - exists s'. rewrite app_nil_r in HI. split; auto.
Qed.

Lemma lastt_rev_le (h : list ev_t) now : (forall ev, In ev h -> fst ev <= now) -> lastt (rev h) <= now.
Proof.
  intros H. destruct (rev h) as [|x l] eqn:E; simpl; [lia|].
  apply H. apply in_rev. rewrite E. simpl; auto.
Qed.

(** Main read lemma, generic in the aggregate. *)
Lemma window_read_exact op e0 m d
  (op_comm : forall a b, op a b = op b a)
  (op_assoc : forall a b c, op a (op b c) = op (op a b) c)
  (m_reset_base : op (m bucket0) e0 = e0)
  (m_apply : forall w b, m (apply_w w b) = match d w with Some x => op x (m b) | None => m b end)
  g wsc wiv w h slots now :
  0 < bl g -> win_new g wsc wiv = Some w -> wf_hist g h ->
  (forall ev, In ev h -> fst ev <= now) -> iv g <= now ->
  run_strict g (ring0 g) h = Some slots ->
  exists lo hi, start_range g w now = ROk (lo, hi) /\
    lo = start g now - w_iv w + bl g /\ hi = start g now /\
    satisfied g w slots now = ROk (valid_values g slots now (fun s => (lo <=? s) && (s <=? hi))) /\
    fold_right (fun (sl : slot) acc => op (m (snd sl)) acc) e0
               (valid_values g slots now (fun s => (lo <=? s) && (s <=? hi)))
    = spec_agg op e0 d g h lo hi.
Proof.
  intros Hb Hw Hwf Hle Hiv Hrun.
  apply win_new_facts in Hw. destruct Hw as (-> & Hwiv & Hwle & Hs & Hivpos).
  pose proof (iv_le_start g now Hb Hiv) as Hst.
  exists (start g now - wiv + bl g), (start g now).
  unfold satisfied, start_range. simpl.
  assert (bl g =? 0 = false) as -> by lia.
  assert (start g now <? wiv = false) as -> by lia.
  repeat split; auto.
  rewrite agg_filter.
  - rewrite <- (spec_agg_rev op e0 d op_comm op_assoc g h).
    pose proof (run_strict_agginv op e0 m d op_comm op_assoc m_reset_base m_apply g Hb Hs
                  h (ring0 g) [] (bl g) slots) as HA.
    rewrite app_nil_r in HA.
    assert (Hrange : start g (lastt (rev h)) < start g now - wiv + bl g + iv g).
    { pose proof (lastt_rev_le h now Hle) as H.
      pose proof (start_mono g _ _ Hb H). lia. }
    assert (Ht : times_le [] (bl g)) by (intros ev Hev; destruct Hev).
    apply HA; auto; try lia; [apply Inv_init | apply AggInv_init; auto].
  - intros sl _ Hin. unfold inr in Hin. unfold deprecated.
    pose proof (start_gt g now Hb). lia.
Qed.
