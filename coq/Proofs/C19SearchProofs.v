(** C19: search by time over a well-formed directory returns exactly the prescribed items. *)
From SV Require Import Model.Base Model.MetricLine Model.MetricLog Spec.C19Inv Spec.C19Search Proofs.C18Proofs Proofs.C19Proofs.
From Coq Require Import Lia ZifyBool ZifyN ZifyNat.
Open Scope N_scope.

(** * Big-endian decoding *)

Fixpoint p256 (k : nat) : N := match k with O => 1 | S k' => 256 * p256 k' end.

Lemma p256_pos : forall k, p256 k <> 0.
Proof. induction k as [|k IH]; cbn [p256]; lia. Qed.

Lemma be_val_app : forall a b acc, be_val (a ++ b) acc = be_val b (be_val a acc).
Proof.
  induction a as [|x a IH]; intros b acc; cbn [List.app be_val]; [reflexivity|]. apply IH.
Qed.

Lemma be_val_be_bytes : forall k n acc, be_val (be_bytes k n) acc = acc * p256 k + n mod p256 k.
Proof.
  induction k as [|k IH]; intros n acc.
  - cbn [be_bytes be_val p256]. rewrite N.mod_1_r. lia.
  - cbn [be_bytes p256]. rewrite be_val_app, IH. cbn [be_val].
    rewrite (N.mod_mul_r n 256 (p256 k)) by (try apply p256_pos; lia).
    generalize (n / 256 mod p256 k) (n mod 256) (p256 k). intros m r P. ring.
Qed.

Lemma be_bytes_length : forall k n, length (be_bytes k n) = k.
Proof.
  induction k as [|k IH]; intros n; cbn [be_bytes]; [reflexivity|].
  rewrite app_length, IH. cbn [length]. lia.
Qed.

Lemma be64_length : forall n, length (be64 n) = 8%nat.
Proof. intros n. apply be_bytes_length. Qed.

Lemma be64_val : forall n, n < U64 -> be_val (be64 n) 0 = n.
Proof.
  intros n H. unfold be64. rewrite be_val_be_bytes.
  replace (p256 8) with U64 by reflexivity.
  rewrite N.mod_small by exact H. lia.
Qed.

Lemma firstn_len_app : forall {A} (a r : list A) k, length a = k -> firstn k (a ++ r) = a.
Proof.
  intros A a r k H. rewrite firstn_app, <- H, firstn_all, Nat.sub_diag. cbn [firstn].
  apply app_nil_r.
Qed.

Lemma skipn_len_app : forall {A} (a r : list A) k, length a = k -> skipn k (a ++ r) = r.
Proof.
  intros A a r k H. rewrite skipn_app, <- H, skipn_all, Nat.sub_diag. reflexivity.
Qed.

Lemma firstn_be64 : forall a r, firstn 8 (be64 a ++ r) = be64 a.
Proof. intros a r. apply firstn_len_app. apply be64_length. Qed.

Lemma skipn_be64 : forall a r, skipn 8 (be64 a ++ r) = r.
Proof. intros a r. apply skipn_len_app. apply be64_length. Qed.

Lemma ltb_be64 : forall a r, (length (be64 a ++ r) <? 8)%nat = false.
Proof. intros a r. rewrite app_length, be64_length. apply Nat.ltb_ge. lia. Qed.

Lemma idx_of_cons : forall e tl, idx_of (e :: tl) = be64 (fst e) ++ be64 (snd e) ++ idx_of tl.
Proof. intros e tl. unfold idx_of. cbn [flat_map]. rewrite <- app_assoc. reflexivity. Qed.

Lemma find_offset_step : forall f a b rest bsec off, a < U64 -> b < U64 ->
  find_offset (S f) (be64 a ++ be64 b ++ rest) bsec off =
  if bsec <=? a then OffOk b else find_offset f rest bsec b.
Proof.
  intros f a b rest bsec off Ha Hb. cbn [find_offset].
  rewrite ltb_be64, firstn_be64, skipn_be64, ltb_be64, firstn_be64, skipn_be64.
  rewrite (be64_val a Ha), (be64_val b Hb). reflexivity.
Qed.

Lemma find_offset_idx : forall bsec ents,
  Forall (fun e => fst e < U64 /\ snd e < U64) ents ->
  forall fuel off, (length ents < fuel)%nat ->
  find_offset fuel (idx_of ents) bsec off =
  match find (fun e : N * N => bsec <=? fst e) ents with Some e => OffOk (snd e) | None => OffErr end.
Proof.
  intros bsec ents H. induction H as [|e tl [He1 He2] Htl IH]; intros fuel off Hf.
  - destruct fuel as [|fuel]; [cbn [length] in Hf; lia|]. reflexivity.
  - destruct fuel as [|fuel]; [cbn [length] in Hf; lia|].
    rewrite idx_of_cons, find_offset_step by assumption. cbn [find].
    destruct (bsec <=? fst e); [reflexivity|]. apply IH. cbn [length] in Hf. lia.
Qed.

Lemma idx_of_length : forall ents, (length ents <= length (idx_of ents))%nat.
Proof.
  induction ents as [|e tl IH]; [cbn [length]; lia|].
  rewrite idx_of_cons, !app_length, !be64_length. cbn [length]. lia.
Qed.

(** * Lines *)

Lemma split_lines_log : forall items, Forall name_ok items ->
  split_lines (log_of items) [] = map to_line items.
Proof.
  intros items H. induction H as [|i items Hi Hrest IH].
  - reflexivity.
  - rewrite log_of_cons, split_lines_app_gen by (apply to_line_nolf; exact Hi).
    cbn [List.rev List.app map]. rewrite IH. reflexivity.
Qed.

Lemma strip_cr_head : forall b l, b <> 13 -> strip_cr (b :: l) = b :: l.
Proof.
  intros b l H. destruct b as [|p]; [reflexivity|].
  do 4 (try (destruct p as [p|p|]; try reflexivity)).
  exfalso. apply H. reflexivity.
Qed.

Lemma clean_line_last : forall a b, b <> 13 -> clean_line (a ++ [b]) = a ++ [b].
Proof.
  intros a b H. unfold clean_line. rewrite rev_app_distr. cbn [List.rev List.app].
  rewrite strip_cr_head by exact H.
  change (b :: List.rev a) with ([b] ++ List.rev a).
  rewrite rev_app_distr, rev_involutive. reflexivity.
Qed.

Lemma join_snoc : forall ps q, exists pre, join (ps ++ [q]) = pre ++ q.
Proof.
  induction ps as [|p ps IH]; intros q.
  - exists []. reflexivity.
  - destruct ps as [|p2 ps].
    + exists (p ++ [SEP]). cbn [List.app join]. rewrite <- app_assoc. reflexivity.
    + destruct (IH q) as [pre E]. exists (p ++ [SEP] ++ pre).
      change (join ((p :: p2 :: ps) ++ [q])) with (p ++ [SEP] ++ join ((p2 :: ps) ++ [q])).
      rewrite E. rewrite <- !app_assoc. reflexivity.
Qed.

Lemma digits_last : forall l, l <> [] -> Forall digit l -> exists a b, l = a ++ [b] /\ digit b.
Proof.
  intros l Hne H. destruct (exists_last Hne) as (a & b & ->).
  exists a, b. split; [reflexivity|].
  apply Forall_app in H. destruct H as [_ H]. inversion H; assumption.
Qed.

Lemma to_line_last : forall i, exists a b, to_line i = a ++ [b] /\ digit b.
Proof.
  intros i.
  destruct (dec_shape (mi_type i)) as (b0 & tl0 & E0 & _).
  destruct (digits_last (dec (mi_type i))) as (a & b & E & Hb).
  { rewrite E0. discriminate. }
  { apply uint_bytes_digits. }
  destruct (join_snoc [dec (mi_ts i); time_str (mi_ts i); clean_name (mi_res i); dec (mi_pass i);
                       dec (mi_block i); dec (mi_complete i); dec (mi_error i); dec (mi_avg_rt i);
                       dec (mi_occupied i); dec (mi_conc i)] (dec (mi_type i))) as [pre Ep].
  exists (pre ++ a), b. split; [|exact Hb].
  unfold to_line. cbn [List.app] in Ep. rewrite Ep, E, app_assoc. reflexivity.
Qed.

Lemma clean_line_to_line : forall i, clean_line (to_line i) = to_line i.
Proof.
  intros i. destruct (to_line_last i) as (a & b & -> & [H1 H2]).
  apply clean_line_last. lia.
Qed.

Lemma lines_of_log_of : forall items, Forall name_ok items ->
  map clean_line (split_lines (log_of items) []) = map to_line items.
Proof.
  intros items H. rewrite split_lines_log by exact H. rewrite map_map.
  apply map_ext. intros i. apply clean_line_to_line.
Qed.

Lemma skipn_log_of : forall pre post,
  skipn (length (log_of pre)) (log_of (pre ++ post)) = log_of post.
Proof. intros pre post. rewrite log_of_app. apply skipn_len_app. reflexivity. Qed.

Lemma after_offset_cons : forall i tl off, (S (length (to_line i)) <= off)%nat ->
  after_offset (i :: tl) off = after_offset tl (off - S (length (to_line i))).
Proof.
  intros i tl off H. destruct off as [|o]; [lia|].
  change (after_offset (i :: tl) (S o))
    with (if Nat.leb (S (length (to_line i))) (S o)
          then after_offset tl (S o - S (length (to_line i))) else i :: tl).
  rewrite leb_correct by exact H. reflexivity.
Qed.

Lemma after_offset_zero : forall items, after_offset items 0 = items.
Proof. intros items. destruct items; reflexivity. Qed.

Lemma log_of_cons_length : forall i tl,
  length (log_of (i :: tl)) = (S (length (to_line i)) + length (log_of tl))%nat.
Proof. intros i tl. rewrite log_of_cons, app_length. cbn [length]. lia. Qed.

Lemma after_offset_pre : forall pre post,
  after_offset (pre ++ post) (length (log_of pre)) = post.
Proof.
  induction pre as [|i pre IH]; intros post.
  - change (log_of []) with (@nil N). cbn [length List.app]. apply after_offset_zero.
  - rewrite log_of_cons_length. cbn [List.app].
    rewrite after_offset_cons by lia.
    replace (S (length (to_line i)) + length (log_of pre) - S (length (to_line i)))%nat
      with (length (log_of pre)) by lia.
    apply IH.
Qed.

(** * Reading *)

Definition okb (bsec : N) (i : mitem) : Prop := item_wf i /\ name_ok i /\ bsec <= sec_of i.

Definition sel (esec : N) (res : bytes) (items : list mitem) : list mitem :=
  map norm (filter (res_match res) (take_while (fun i => sec_of i <=? esec) items)).

Lemma take_while_app : forall {A} (p : A -> bool) a b,
  take_while p (a ++ b) = if forallb p a then a ++ take_while p b else take_while p a.
Proof.
  intros A p a b. induction a as [|x a IH]; cbn [List.app take_while forallb]; [reflexivity|].
  destruct (p x); cbn [andb]; [|reflexivity].
  rewrite IH. destruct (forallb p a); reflexivity.
Qed.

Lemma sel_app : forall esec res a b,
  sel esec res (a ++ b) =
  if forallb (fun i => sec_of i <=? esec) a then sel esec res a ++ sel esec res b else sel esec res a.
Proof.
  intros esec res a b. unfold sel. rewrite take_while_app.
  destruct (forallb _ a) eqn:E; [|reflexivity].
  rewrite filter_app, map_app. f_equal.
  assert (HT : take_while (fun i => sec_of i <=? esec) a = a).
  { clear -E. induction a as [|x a IH]; [reflexivity|]. cbn [forallb] in E.
    apply andb_prop in E. destruct E as [E1 E2]. cbn [take_while]. rewrite E1, IH by exact E2.
    reflexivity. }
  rewrite HT. reflexivity.
Qed.

Lemma okb_name_ok : forall bsec items, Forall (okb bsec) items -> Forall name_ok items.
Proof. intros bsec items H. eapply Forall_impl; [|exact H]. intros i (_ & Hn & _). exact Hn. Qed.

Lemma read_items : forall bsec esec res items, Forall (okb bsec) items ->
  forall acc,
  read_by_time (map to_line items) bsec esec res acc =
  (List.rev acc ++ sel esec res items, forallb (fun i => sec_of i <=? esec) items).
Proof.
  intros bsec esec res items H. induction H as [|i items (Hw & Hn & Hb) Hrest IH]; intros acc.
  - cbn [map read_by_time forallb]. unfold sel. cbn [take_while filter map]. rewrite app_nil_r.
    reflexivity.
  - cbn [map read_by_time]. rewrite (c18_roundtrip i Hw).
    change (mi_ts (norm i) / 1000) with (sec_of i).
    unfold sel. cbn [take_while forallb].
    replace (sec_of i <? bsec) with false by lia. cbn [orb].
    destruct (esec <? sec_of i) eqn:E.
    + replace (sec_of i <=? esec) with false by lia. cbn [filter map andb].
      rewrite app_nil_r. reflexivity.
    + replace (sec_of i <=? esec) with true by lia. cbn [andb filter].
      rewrite IH.
      assert (HM : (match res with [] => true | _ :: _ => false end || bytes_eqb res (mi_res (norm i)))%bool
                   = res_match res i).
      { unfold res_match. destruct res; reflexivity. }
      rewrite HM. unfold sel. destruct (res_match res i).
      * cbn [List.rev map]. rewrite <- app_assoc. reflexivity.
      * reflexivity.
Qed.

Lemma lines_from_conc_zero : forall f, Forall name_ok (a_items f) ->
  lines_from (conc f) 0 = map to_line (a_items f).
Proof.
  intros f H. unfold lines_from. change (f_log (conc f)) with (log_of (a_items f)).
  change (N.to_nat 0) with 0%nat. cbn [skipn]. apply lines_of_log_of. exact H.
Qed.

Lemma read_files : forall bsec esec res fs, Forall (okb bsec) (flat_map a_items fs) ->
  read_files_by_time (map conc fs) bsec esec res = sel esec res (flat_map a_items fs).
Proof.
  intros bsec esec res fs. induction fs as [|f fs IH]; intros H.
  - reflexivity.
  - cbn [flat_map] in H. apply Forall_app in H. destruct H as [H1 H2].
    cbn [map read_files_by_time flat_map].
    rewrite lines_from_conc_zero by (eapply okb_name_ok; exact H1).
    rewrite (read_items bsec esec res (a_items f) H1 []).
    cbn [List.rev List.app]. rewrite sel_app.
    destruct (forallb _ (a_items f)); [|reflexivity].
    rewrite IH by exact H2. reflexivity.
Qed.

Definition rdf (bsec esec : N) (res : bytes) : mfile -> N -> list mfile -> list mitem :=
  fun f off rest =>
    let '(items, cont) := read_by_time (lines_from f off) bsec esec res [] in
    if cont then items ++ read_files_by_time rest bsec esec res else items.

Lemma rdf_spec : forall bsec esec res f off post fs,
  lines_from (conc f) off = map to_line post ->
  Forall (okb bsec) (post ++ flat_map a_items fs) ->
  rdf bsec esec res (conc f) off (map conc fs) = sel esec res (post ++ flat_map a_items fs).
Proof.
  intros bsec esec res f off post fs HL H. apply Forall_app in H. destruct H as [H1 H2].
  unfold rdf. rewrite HL, (read_items bsec esec res post H1 []).
  cbn [List.rev List.app]. rewrite sel_app.
  destruct (forallb _ post); [|reflexivity].
  rewrite read_files by exact H2. reflexivity.
Qed.

(** * Order *)

Lemma nondecr_tail : forall x l, nondecr (x :: l) -> nondecr l.
Proof. intros x l H. destruct l as [|y l]; [exact I|]. destruct H as [_ H]. exact H. Qed.

Lemma nondecr_app_r : forall a b, nondecr (a ++ b) -> nondecr b.
Proof.
  induction a as [|x a IH]; intros b H; [exact H|].
  apply IH. eapply nondecr_tail. exact H.
Qed.

Lemma nondecr_head : forall l x, nondecr (x :: l) -> Forall (fun y => x <= y) l.
Proof.
  induction l as [|b l IH]; intros x H; [constructor|].
  destruct H as [Hxb H]. constructor; [exact Hxb|].
  eapply Forall_impl; [|apply IH; exact H]. cbv beta. intros; lia.
Qed.

(** * Search *)

Definition gd (fs : list afile) : Prop :=
  Forall (fun f => Forall (entry_ok (a_items f)) (a_ents f)) fs /\
  Forall (fun f => Forall (fun i => item_wf i /\ name_ok i) (a_items f)) fs /\
  nondecr (map sec_of (flat_map a_items fs)) /\
  Forall (fun f => Forall (fun e => fst e < U64 /\ snd e < U64) (a_ents f)) fs.

Lemma gd_tail : forall f fs, gd (f :: fs) -> gd fs.
Proof.
  intros f fs (H1 & H2 & H3 & H4). inversion H1; inversion H2; inversion H4; subst.
  repeat split; try assumption.
  cbn [flat_map] in H3. rewrite map_app in H3. eapply nondecr_app_r. exact H3.
Qed.

Lemma search_spec : forall bsec esec res fs, gd fs ->
  search_from (map conc fs) bsec (rdf bsec esec res) =
  match from_first_entry fs bsec with None => [] | Some items => sel esec res items end.
Proof.
  intros bsec esec res fs. induction fs as [|f fs IH]; intros G.
  - reflexivity.
  - pose proof (gd_tail f fs G) as Gt. destruct G as (G1 & G2 & G3 & G4).
    inversion G1 as [|? ? Ge _]; inversion G2 as [|? ? Gi Gis]; inversion G4 as [|? ? Gu _]; subst.
    cbn [map search_from from_first_entry].
    change (f_idx (conc f)) with (idx_of (a_ents f)).
    rewrite (find_offset_idx bsec (a_ents f) Gu)
      by (pose proof (idx_of_length (a_ents f)); lia).
    destruct (find (fun e : N * N => bsec <=? fst e) (a_ents f)) as [e|] eqn:E.
    + apply find_some in E. destruct E as [Ein Eb].
      rewrite Forall_forall in Ge. destruct (Ge e Ein) as (pre & post & Hit & Hoff & Hpre & Hpost).
      destruct post as [|i0 post]; [contradiction|].
      assert (HA : after_offset (a_items f) (N.to_nat (snd e)) = i0 :: post).
      { rewrite Hit, Hoff, Nat2N.id. apply after_offset_pre. }
      rewrite HA. rewrite Hit in Gi. apply Forall_app in Gi. destruct Gi as [_ Gi].
      apply rdf_spec.
      * unfold lines_from. change (f_log (conc f)) with (log_of (a_items f)).
        rewrite Hit, Hoff, Nat2N.id, skipn_log_of. apply lines_of_log_of.
        eapply Forall_impl; [|exact Gi]. intros i [_ Hn]. exact Hn.
      * cbn [flat_map] in G3. rewrite Hit, <- app_assoc, map_app in G3.
        apply nondecr_app_r in G3. cbn [List.app map] in G3.
        pose proof (nondecr_head _ _ G3) as HF. rewrite Hpost in HF.
        assert (HW : Forall (fun i => item_wf i /\ name_ok i) ((i0 :: post) ++ flat_map a_items fs)).
        { apply Forall_app. split; [exact Gi|]. apply Forall_flat_map. exact Gis. }
        assert (HS : Forall (fun i => fst e <= sec_of i) ((i0 :: post) ++ flat_map a_items fs)).
        { cbn [List.app]. constructor; [lia|]. rewrite Forall_map in HF. exact HF. }
        pose proof (Forall_and HW HS) as HB.
        eapply Forall_impl; [|exact HB]. cbv beta. intros i [[Hw Hn] Hs].
        split; [exact Hw|]. split; [exact Hn|]. lia.
    + apply IH. exact Gt.
Qed.

Theorem c19_find_by_time_exact : forall fs begin_ms end_ms res,
  good_dir fs ->
  find_by_time (map conc fs) begin_ms end_ms res = expected_by_time fs (begin_ms / 1000) (end_ms / 1000) res.
Proof.
  intros fs begin_ms end_ms res (Hs & H1 & H2 & H3 & H4).
  unfold find_by_time, expected_by_time. cbv zeta. rewrite Hs.
  apply (search_spec (begin_ms / 1000) (end_ms / 1000) res fs).
  split; [|split; [exact H2 | split; [exact H3 | exact H4]]].
  eapply Forall_impl; [|exact H1]. intros f [H _]. exact H.
Qed.

Print Assumptions c19_find_by_time_exact.
