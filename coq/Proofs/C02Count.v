(** C02: the whole-array count (BucketLeapArray::count_with_time) equals the direct
    computation from the event list. *)
From SV Require Import Model.Base Model.F64 Model.LeapArray Spec.C02Spec
  Proofs.LeapArrayProofs Proofs.C02Proofs.
From Coq Require Import ZifyBool ZifyN.
Open Scope N_scope.

Section Count.
  Variable g : geom.
  Variable ev : mevent.

  (** What a write contributes to the counter of kind [ev]. *)
  Definition contrib (w : wop) : N :=
    match w with
    | WAdd e n => if mevent_eqb e ev then n else 0
    | WConc _ => 0
    end.

  Lemma bget_apply w b : bget ev (apply_w w b) = contrib w + bget ev b.
  Proof. unfold contrib. destruct w as [e n|c]; [destruct e, ev|destruct ev]; simpl; lia. Qed.

  Lemma bget_bucket0 : bget ev bucket0 = 0.
  Proof. destruct ev; reflexivity. Qed.

  (** Sum of the contributions of the events whose bucket start satisfies [Q]. *)
  Fixpoint esum (Q : N -> bool) (l : list ev_t) : N :=
    match l with
    | [] => 0
    | e :: tl => if Q (start g (fst e)) then contrib (snd e) + esum Q tl else esum Q tl
    end.

  Lemma esum_app Q l1 l2 : esum Q (l1 ++ l2) = esum Q l1 + esum Q l2.
  Proof.
    induction l1 as [|e l1 IH]; simpl; [lia|].
    rewrite IH. destruct (Q (start g (fst e))); lia.
  Qed.

  Lemma esum_rev Q l : esum Q (rev l) = esum Q l.
  Proof.
    induction l as [|e l IH]; simpl; auto.
    rewrite esum_app, IH. simpl. destruct (Q (start g (fst e))); lia.
  Qed.

  Lemma esum_ext Q Q' l :
    (forall e, In e l -> Q (start g (fst e)) = Q' (start g (fst e))) -> esum Q l = esum Q' l.
  Proof.
    induction l as [|e l IH]; simpl; intros H; auto.
    rewrite (H e) by auto. rewrite IH by (intros; apply H; auto). reflexivity.
  Qed.

  Lemma esum_false Q l :
    (forall e, In e l -> Q (start g (fst e)) = false) -> esum Q l = 0.
  Proof.
    induction l as [|e l IH]; simpl; intros H; auto.
    rewrite (H e) by auto. apply IH. intros; apply H; auto.
  Qed.

  Lemma esum_or Q1 Q2 l :
    (forall e, In e l -> Q1 (start g (fst e)) && Q2 (start g (fst e)) = false) ->
    esum (fun s => Q1 s || Q2 s) l = esum Q1 l + esum Q2 l.
  Proof.
    induction l as [|e l IH]; simpl; intros H; [lia|].
    rewrite IH by (intros; apply H; auto).
    pose proof (H e (or_introl eq_refl)) as He.
    destruct (Q1 (start g (fst e))), (Q2 (start g (fst e))); simpl in *; try discriminate; lia.
  Qed.

  Lemma agg_esum l s : bget ev (agg g l s) = esum (fun x => x =? s) l.
  Proof.
    induction l as [|e l IH]; simpl; [apply bget_bucket0|].
    destruct (start g (fst e) =? s); auto.
    rewrite bget_apply, IH. reflexivity.
  Qed.

  Variable now : N.

  Lemma sum_get_cons_valid s v tl :
    sum_get ev (valid_values g ((s, v) :: tl) now (fun _ => true)) =
    (if deprecated now (iv g) s then 0 else bget ev v)
    + sum_get ev (valid_values g tl now (fun _ => true)).
  Proof.
    unfold valid_values. simpl. destruct (deprecated now (iv g) s); simpl; lia.
  Qed.

  (** The spec, as an [esum], once [latest_in_slot] is characterised on the events. *)
  Lemma spec_count_gen h R l :
    (forall e, In e l -> latest_in_slot g h (fst e) = R (start g (fst e))) ->
    fold_right (fun (e : ev_t) acc =>
      match snd e with
      | WAdd ev' n =>
          if mevent_eqb ev' ev && negb (deprecated now (iv g) (start g (fst e))) && latest_in_slot g h (fst e)
          then n + acc else acc
      | WConc _ => acc
      end) 0 l
    = esum (fun s => negb (deprecated now (iv g) s) && R s) l.
  Proof.
    induction l as [|[t w] l IH]; simpl; intros H; auto.
    rewrite IH by (intros; apply H; auto).
    pose proof (H (t, w) (or_introl eq_refl)) as Ht. simpl in Ht. rewrite Ht.
    destruct w as [e n|c]; simpl.
    - destruct (mevent_eqb e ev), (deprecated now (iv g) (start g t)), (R (start g t)); simpl; lia.
    - destruct (negb (deprecated now (iv g) (start g t)) && R (start g t)); lia.
  Qed.

  (** Slots of a suffix of the ring, the first of which has index [k]. *)
  Definition good (h : list ev_t) (l : list slot) (k : nat) : Prop :=
    forall i s v, nth_error l i = Some (s, v) ->
      (s = 0 /\ v = bucket0) \/
      (s <> 0 /\ N.to_nat (idx g s) = (k + i)%nat /\ v = agg g (rev h) s).

  Definition stamp_in (l : list slot) (s : N) : bool := existsb (fun sl : slot => fst sl =? s) l.

  Lemma count_list h :
    (forall e, In e h -> start g (fst e) <> 0) ->
    forall l k, good h l k ->
      sum_get ev (valid_values g l now (fun _ => true)) =
      esum (fun s => negb (deprecated now (iv g) s) && stamp_in l s) h.
  Proof.
    intros Hnz. induction l as [|[s0 v0] tl IH]; intros k Hg.
    - simpl. symmetry. apply esum_false. intros; apply andb_false_r.
    - assert (Hg' : good h tl (S k)).
      { intros i s v Hn. destruct (Hg (S i) s v Hn) as [?|(?&?&?)]; [left; auto|].
        right; repeat split; auto; lia. }
      specialize (IH (S k) Hg').
      rewrite sum_get_cons_valid, IH.
      destruct (Hg O s0 v0 eq_refl) as [[-> ->]|(Hs0 & Hix & ->)].
      + rewrite bget_bucket0.
        replace (if deprecated now (iv g) 0 then 0 else 0) with 0 by (destruct (deprecated now (iv g) 0); auto).
        rewrite N.add_0_l. apply esum_ext. intros e He. unfold stamp_in. simpl.
        pose proof (Hnz e He). assert (0 =? start g (fst e) = false) as -> by lia. reflexivity.
      + rewrite (esum_ext (fun s => negb (deprecated now (iv g) s) && stamp_in ((s0, agg g (rev h) s0) :: tl) s)
                          (fun s => (negb (deprecated now (iv g) s) && (s0 =? s))
                                    || (negb (deprecated now (iv g) s) && stamp_in tl s))).
        2:{ intros e _. unfold stamp_in. simpl. apply andb_orb_distrib_r. }
        rewrite esum_or.
        * f_equal. destruct (deprecated now (iv g) s0) eqn:D.
          -- symmetry. apply esum_false. intros e _.
             destruct (s0 =? start g (fst e)) eqn:E; [|apply andb_false_r].
             apply N.eqb_eq in E. rewrite <- E, D. reflexivity.
          -- rewrite agg_esum, esum_rev. apply esum_ext. intros e _.
             destruct (s0 =? start g (fst e)) eqn:E.
             ++ apply N.eqb_eq in E. rewrite <- E, D, N.eqb_refl. reflexivity.
             ++ rewrite andb_false_r. apply N.eqb_neq in E. apply N.eqb_neq. congruence.
        * intros e _.
          destruct (s0 =? start g (fst e)) eqn:E; [|rewrite andb_false_r; reflexivity].
          apply N.eqb_eq in E.
          destruct (stamp_in tl (start g (fst e))) eqn:Ex; [|rewrite !andb_false_r; reflexivity].
          exfalso. unfold stamp_in in Ex. apply existsb_exists in Ex.
          destruct Ex as [[s1 v1] [Hin Heq]]. simpl in Heq. apply N.eqb_eq in Heq.
          apply In_nth_error in Hin. destruct Hin as [i Hi].
          destruct (Hg' i s1 v1 Hi) as [[-> _]|(_ & Hix1 & _)]; [congruence|].
          rewrite Heq, <- E in Hix1. lia.
  Qed.
End Count.

(** [latest_in_slot] on a recorded event: its bucket start is the stamp of a slot. *)
Lemma latest_stamp g h slots :
  0 < bl g -> 0 < sc g -> wf_hist g h -> run_writes g (ring0 g) h = Some slots ->
  forall e, In e h -> latest_in_slot g h (fst e) = stamp_in slots (start g (fst e)).
Proof.
  intros Hb Hs Hwf Hrun e He.
  destruct (slots_reflect_history g h slots Hb Hs Hwf Hrun) as [Hlen Hall].
  assert (Hpos : forall e', In e' h -> 0 < start g (fst e')).
  { intros e' He'. apply start_pos; auto. apply (nondecr_all_ge _ _ Hwf e' He'). }
  set (i := N.to_nat (idx g (fst e))).
  assert (Hi : (i < length slots)%nat).
  { rewrite Hlen. unfold i. pose proof (idx_lt g (fst e) Hs). lia. }
  destruct (nth_error slots i) as [[s v]|] eqn:Hn; [|apply nth_error_None in Hn; lia].
  destruct (Hall i s v Hn) as [(_ & _ & Hno)|(Hnz & Hix & _ & [e0 [He0 Hse0]] & Hmax)].
  { exfalso. apply (Hno e He). reflexivity. }
  assert (Hle : start g (fst e) <= s) by (apply Hmax; auto).
  destruct (N.eq_dec (start g (fst e)) s) as [Heq|Hne].
  - (* the event is in the newest bucket of its slot *)
    transitivity true; [|symmetry].
    + unfold latest_in_slot. apply forallb_forall. intros e' He'.
      destruct (idx g (fst e') =? idx g (fst e)) eqn:E; simpl; auto.
      apply N.eqb_eq in E.
      assert (start g (fst e') <= s) by (apply Hmax; auto; unfold i; rewrite E; reflexivity).
      lia.
    + unfold stamp_in. apply existsb_exists. exists (s, v). split.
      * eapply nth_error_In; eauto.
      * simpl. lia.
  - (* its bucket was recycled *)
    transitivity false; [|symmetry].
    + unfold latest_in_slot.
      destruct (forallb _ h) eqn:F; auto. exfalso.
      rewrite forallb_forall in F. specialize (F e0 He0).
      assert (idx g (fst e0) = idx g (fst e)).
      { rewrite <- (start_idx g (fst e0)) by auto. rewrite Hse0. unfold i in Hix. lia. }
      rewrite H, N.eqb_refl in F. simpl in F. lia.
    + unfold stamp_in.
      destruct (existsb _ slots) eqn:Ex; auto. exfalso.
      apply existsb_exists in Ex. destruct Ex as [[s1 v1] [Hin Heq]]. simpl in Heq.
      apply N.eqb_eq in Heq. apply In_nth_error in Hin. destruct Hin as [j Hj].
      pose proof (Hpos e He).
      destruct (Hall j s1 v1 Hj) as [(-> & _)|(_ & Hix1 & _)]; [lia|].
      assert (Hji : j = i).
      { rewrite <- Hix1, Heq, start_idx by auto. reflexivity. }
      rewrite Hji, Hn in Hj. inversion Hj. congruence.
Qed.

Lemma count_exact : forall g h slots now ev,
  0 < bl g -> 0 < sc g -> wf_hist g h -> run_writes g (ring0 g) h = Some slots ->
  (forall e, In e h -> fst e <= now) ->
  count_with_time g slots now ev = spec_count g now ev h.
Proof.
  intros g h slots now ev Hb Hs Hwf Hrun _.
  unfold count_with_time, spec_count.
  rewrite (spec_count_gen g ev now h (stamp_in slots) h)
    by (apply (latest_stamp g h slots Hb Hs Hwf Hrun)).
  apply (count_list g ev now h) with (k := O).
  - intros e He.
    assert (0 < start g (fst e)); [|lia].
    apply start_pos; auto. apply (nondecr_all_ge _ _ Hwf e He).
  - destruct (slots_reflect_history g h slots Hb Hs Hwf Hrun) as [_ Hall].
    intros i s v Hn.
    destruct (Hall i s v Hn) as [(-> & -> & _)|(Hnz & Hix & -> & _)]; [left; auto|].
    right. repeat split; auto.
Qed.
