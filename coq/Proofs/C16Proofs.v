(** C16 proofs: the log invariant of the concurrent circuit-breaker model, preserved by every
    segment of every thread; termination of the scheduler; the refutation without the re-check. *)
From SV Require Import Model.Base Model.F64 Model.LeapArray Model.Breaker Model.ConcCb Spec.C16Spec.
Open Scope N_scope.

(* ------------------------------------------------------------------------------------------ *)
(** * The log walk: [ok_log] as a left-to-right summary *)

Lemma bstate_eqb_eq a b : bstate_eqb a b = true <-> a = b.
Proof. destruct a, b; cbn; split; congruence. Qed.

Lemma bstate_eqb_refl a : bstate_eqb a a = true.
Proof. destruct a; reflexivity. Qed.

(** ** Membership and removal in the list of pending probes *)

Lemma mem_n_In x l : mem_n x l = true <-> In x l.
Proof.
  induction l as [|y tl IH]; cbn [mem_n In].
  - split; [discriminate | intros []].
  - rewrite orb_true_iff, IH, N.eqb_eq.
    split; intros [H|H]; [left; congruence | right; exact H | left; congruence | right; exact H].
Qed.

Lemma mem_n_false x l : mem_n x l = false <-> ~ In x l.
Proof.
  rewrite <- mem_n_In. destruct (mem_n x l); split; intros H; congruence.
Qed.

Lemma del_n_notin x l : ~ In x l -> del_n x l = l.
Proof.
  induction l as [|y tl IH]; intros H; cbn [del_n]; auto.
  destruct (N.eqb_spec x y) as [->|Hne].
  - exfalso. apply H. left. reflexivity.
  - rewrite IH; auto. intros X. apply H. right. exact X.
Qed.

Lemma In_del_n x y l : In y (del_n x l) -> In y l.
Proof.
  induction l as [|z tl IH]; cbn [del_n]; auto.
  destruct (x =? z); cbn [In]; intros H; [right; exact H|].
  destruct H as [H|H]; [left; exact H | right; apply IH; exact H].
Qed.

Lemma In_del_n_other x y l : y <> x -> In y l -> In y (del_n x l).
Proof.
  intros Hne. induction l as [|z tl IH]; cbn [del_n]; auto.
  destruct (N.eqb_spec x z) as [->|Hxz]; cbn [In]; intros [H|H].
  - congruence.
  - exact H.
  - left; exact H.
  - right; apply IH; exact H.
Qed.

Lemma NoDup_del_n x l : NoDup l -> NoDup (del_n x l) /\ ~ In x (del_n x l).
Proof.
  induction 1 as [|z tl Hz Hnd IH]; cbn [del_n].
  - split; [constructor | intros []].
  - destruct (N.eqb_spec x z) as [->|Hxz].
    + split; assumption.
    + destruct IH as [IH1 IH2]. split.
      * constructor; auto. intros X. apply Hz. eapply In_del_n; exact X.
      * cbn [In]. intros [X|X]; [congruence | exact (IH2 X)].
Qed.

(** ** The walk *)

Definition wstep (rm : N) (sp : bstate * list N) (e : cev) : option (bstate * list N) :=
  let (s, p) := sp in
  match e with
  | ETrans who from to now retry =>
      if bstate_eqb from s && valid_tr from to &&
         (match from, to with
          | Open, HalfOpen => retry <=? now
          | Closed, Open => retry =? now + rm
          | HalfOpen, Open => (retry =? now + rm) || mem_n who p
          | _, _ => true
          end)
      then Some (to, match from, to with Open, HalfOpen => who :: p | _, _ => p end)
      else None
  | EBuild who adm =>
      if mem_n who p then Some (s, del_n who p)
      else if (if adm then bstate_eqb s Closed else true) then Some (s, p) else None
  | EExit _ _ _ => Some (s, p)
  end.

Fixpoint walk (rm : N) (sp : bstate * list N) (log : list cev) : option (bstate * list N) :=
  match log with
  | [] => Some sp
  | e :: tl => match wstep rm sp e with Some sp' => walk rm sp' tl | None => None end
  end.

Lemma walk_app rm l : forall sp e,
  walk rm sp (l ++ [e]) = match walk rm sp l with Some sp' => wstep rm sp' e | None => None end.
Proof.
  induction l as [|a l IH]; intros sp e; cbn [walk app].
  - destruct (wstep rm sp e); reflexivity.
  - destruct (wstep rm sp a); auto.
Qed.

Lemma walk_ok rm log : forall s p s',
  walk rm (s, p) log = Some (s', []) -> ok_log rm s p log = true.
Proof.
  induction log as [|e tl IH]; intros s p s' H; cbn [walk] in H.
  - inversion H; subst; reflexivity.
  - destruct e as [who from to now retry | who adm | who err rt]; cbn [wstep] in H; cbn [ok_log].
    + match type of H with (match (if ?c then _ else _) with _ => _ end) = _ => destruct c eqn:E end;
        try discriminate.
      cbn [andb]. eapply IH; exact H.
    + destruct (mem_n who p); [eapply IH; exact H|].
      match type of H with (match (if ?c then _ else _) with _ => _ end) = _ => destruct c eqn:E end;
        try discriminate.
      cbn [andb]. eapply IH; exact H.
    + eapply IH; exact H.
Qed.

Lemma walk_log_state rm log : forall s p s' p',
  walk rm (s, p) log = Some (s', p') -> log_state s log = s'.
Proof.
  induction log as [|e tl IH]; intros s p s' p' H; cbn [walk] in H.
  - inversion H; subst; reflexivity.
  - destruct e as [who from to now retry | who adm | who err rt]; cbn [wstep] in H; cbn [log_state].
    + match type of H with (match (if ?c then _ else _) with _ => _ end) = _ => destruct c end;
        try discriminate.
      eapply IH; exact H.
    + destruct (mem_n who p); [eapply IH; exact H|].
      match type of H with (match (if ?c then _ else _) with _ => _ end) = _ => destruct c end;
        try discriminate.
      eapply IH; exact H.
    + eapply IH; exact H.
Qed.

(** a build result: the thread's own pending probe is removed; otherwise nothing is pending for it
    and a request that was let through needs the breaker Closed *)
Lemma wstep_build rm who s pd adm :
  In who pd \/ (adm = true -> s = Closed) ->
  wstep rm (s, pd) (EBuild who adm) = Some (s, del_n who pd).
Proof.
  intros H. cbn [wstep]. destruct (mem_n who pd) eqn:E; [reflexivity|].
  apply mem_n_false in E. rewrite (del_n_notin _ _ E).
  destruct H as [H|H]; [contradiction|].
  destruct adm; [rewrite (H eq_refl)|]; reflexivity.
Qed.

(* ------------------------------------------------------------------------------------------ *)
(** * Code shapes *)

(** the instructions of a build from its state read on occur only in the order the compiler
    emits them *)
Definition plain (i : cinstr) : bool :=
  match i with BRead | BCas | BDone | BHook | BDoneBlocked => false | _ => true end.

(** what follows the guarded transition of a build: its result, or (a later slot rejects the
    entry) the oracle point, the exit hook and the rejected result *)
Definition btail (b : bool) : list cinstr :=
  if b then [CPoint COracle; BHook; BDoneBlocked] else [BDone].

Inductive okc : list cinstr -> Prop :=
| okc_nil : okc []
| okc_plain i c : plain i = true -> okc c -> okc (i :: c)
| okc_read p b c : okc c -> okc (BRead :: CPointIf FWant p :: BCas :: btail b ++ c).

Lemma okc_compile o c : okc c -> okc (compile_op o ++ c).
Proof.
  intros H; destruct o as [[|]|err]; cbn [compile_op app].
  - apply okc_plain; [reflexivity|]. apply okc_plain; [reflexivity|].
    apply (okc_read CO2H true c). exact H.
  - apply okc_plain; [reflexivity|]. apply okc_plain; [reflexivity|].
    apply (okc_read CO2H false c). exact H.
  - repeat (apply okc_plain; [reflexivity|]). exact H.
Qed.

Lemma okc_op o : okc (compile_op o).
Proof. rewrite <- (app_nil_r (compile_op o)). apply okc_compile. constructor. Qed.

Lemma okc_ccompile ops : okc (ccompile ops).
Proof.
  induction ops as [|o ops IH]; cbn [ccompile flat_map].
  - constructor.
  - apply okc_compile. exact IH.
Qed.

Lemma okc_not_hook c : okc (BHook :: c) -> False.
Proof. intros H. inversion H; subst. discriminate. Qed.

Ltac cx H :=
  unfold cexec in H;
  cbn [set_code get_flag k_code k_done k_want k_hobad k_hook k_trip k_c2o k_ho2 k_live k_adm k_bad
       k_rt k_starts] in H.

(** every instruction keeps the code and done fields of the thread record *)
Lemma exec_code recheck who st t i st' t' p :
  cexec recheck who st t i = (st', t', p) -> k_code t' = k_code t /\ k_done t' = k_done t.
Proof.
  intros H. destruct i; unfold cexec in H;
    repeat match type of H with
           | context [match ?x with _ => _ end] => destruct x
           end;
    inversion H; subst; split; reflexivity.
Qed.

(* ------------------------------------------------------------------------------------------ *)
(** * The invariant *)

Section Invariant.
Variable r : brule.

Definition Inv (st : cbs) (pd : list N) : Prop :=
  s_rule st = r /\ walk (br_retry_ms r) (Closed, []) (s_log st) = Some (s_state st, pd).

Lemma Inv_state st pd b retry e pd' :
  Inv st pd -> wstep (br_retry_ms r) (s_state st, pd) e = Some (b, pd') ->
  Inv (with_state st b retry e) pd'.
Proof.
  intros [H0 H1] H2. split; cbn [with_state s_rule s_log s_state]; auto.
  rewrite walk_app, H1. exact H2.
Qed.

Lemma Inv_log st pd e pd' :
  Inv st pd -> wstep (br_retry_ms r) (s_state st, pd) e = Some (s_state st, pd') ->
  Inv (with_log st e) pd'.
Proof.
  intros [H0 H1] H2. split; cbn [with_log s_rule s_log s_state]; auto.
  rewrite walk_app, H1. exact H2.
Qed.

Lemma Inv_ring st pd rg : Inv st pd -> Inv (with_ring st rg) pd.
Proof. intros H; exact H. Qed.

Lemma Inv_advance st pd dt : Inv st pd -> Inv (cadvance st dt) pd.
Proof. intros H; exact H. Qed.

(** the plain instructions leave the pending probes alone; a failed completion logs the new
    deadline, so whoever runs it the Half-Open -> Open clause holds *)
Lemma exec_plain_inv who st pd t i st' t' p :
  plain i = true -> Inv st pd ->
  cexec true who st t i = (st', t', p) -> Inv st' pd.
Proof.
  intros Hp HI H. destruct i; try discriminate Hp; cx H.
  - (* BStart *) injection H as <- _ _. exact HI.
  - (* XBegin *)
    destruct (k_starts t); [injection H as <- _ _; exact HI|].
    destruct (write _ _ _ _); injection H as <- _ _; try exact HI.
  - (* XRead1 *) destruct (k_live t); injection H as <- _ _; exact HI.
  - (* XCasH2O *)
    destruct (get_flag t f); [destruct (bstate_eqb (s_state st) HalfOpen) eqn:E|];
      injection H as <- _ _; try exact HI.
    apply Inv_state with (pd := pd); auto.
    apply bstate_eqb_eq in E. rewrite E. destruct HI as [Hr _]. rewrite Hr.
    cbn [wstep bstate_eqb valid_tr andb]. rewrite N.eqb_refl. reflexivity.
  - (* XCasH2C *)
    destruct (k_hook t); [|injection H as <- _ _; exact HI].
    destruct (bstate_eqb (s_state st) HalfOpen) eqn:E; injection H as <- _ _; apply Inv_ring; auto.
    apply Inv_state with (pd := pd); auto.
    apply bstate_eqb_eq in E. rewrite E. reflexivity.
  - (* XRead2 *) destruct (k_trip t); injection H as <- _ _; exact HI.
  - (* XCasC2O *)
    destruct (k_c2o t); [destruct (bstate_eqb (s_state st) Closed) eqn:E|];
      injection H as <- _ _; try exact HI.
    apply Inv_state with (pd := pd); auto.
    apply bstate_eqb_eq in E. rewrite E. destruct HI as [Hr _]. rewrite Hr.
    cbn [wstep bstate_eqb valid_tr andb]. rewrite N.eqb_refl. reflexivity.
  - (* XDone *)
    destruct (k_adm t); injection H as <- _ _; try exact HI.
    apply Inv_log with (pd := pd); auto.
  - (* CPoint *) injection H as <- _ _. exact HI.
  - (* CPointIf *) injection H as <- _ _. exact HI.
Qed.

(** a thread between two of its segments *)
Definition parked (t : cthr) (code : list cinstr) : Prop :=
  okc code \/
  (exists b c, code = BCas :: btail b ++ c /\ okc c /\ k_want t = true) \/
  (exists c, code = BHook :: BDoneBlocked :: c /\ okc c).

Definition tinv (t : cthr) : Prop := parked t (k_code t).

(** the thread is parked at the oracle point: its build result is still to come *)
Definition own (t : cthr) : Prop :=
  k_done t = false /\ exists c, k_code t = BHook :: BDoneBlocked :: c.

Lemma parked_hook_okc t c : parked t (BHook :: BDoneBlocked :: c) -> okc c.
Proof.
  intros [H | [(b & c' & Hc & _) | (c' & Hc & Ho)]].
  - destruct (okc_not_hook _ H).
  - discriminate.
  - injection Hc as <-. exact Ho.
Qed.

Section Seg.
Variable who : N.
(** [P w]: thread [w] is parked at the oracle point; [Q w]: and it did Open -> Half-Open *)
Variable P : N -> Prop.
Variable Q : N -> Prop.

(** the pending probes of the other threads: exactly those parked at the oracle point after
    their own Open -> Half-Open, each once *)
Definition fgn (pd : list N) : Prop :=
  NoDup pd /\ (forall w, In w pd -> w <> who -> P w) /\ (forall w, w <> who -> Q w -> In w pd).

Lemma fgn_push pd : fgn pd -> ~ In who pd -> fgn (who :: pd).
Proof.
  intros (H1 & H2 & H3) Hn. split; [constructor; assumption|]. split.
  - intros w [<-|Hw] Hne; [exfalso; apply Hne; reflexivity | apply H2; assumption].
  - intros w Hne Hq. right. apply H3; assumption.
Qed.

Lemma fgn_del pd : fgn pd -> fgn (del_n who pd) /\ ~ In who (del_n who pd).
Proof.
  intros (H1 & H2 & H3). destruct (NoDup_del_n who pd H1) as [N1 N2].
  split; [|exact N2]. split; [exact N1|]. split.
  - intros w Hw Hne. apply H2; [eapply In_del_n; exact Hw | exact Hne].
  - intros w Hne Hq. apply In_del_n_other; [exact Hne | apply H3; assumption].
Qed.

(** what may be left to run inside a segment, with the facts the remaining code relies on *)
Inductive mid (st : cbs) (t : cthr) (pd : list N) : list cinstr -> Prop :=
| mid_ok c : Inv st pd -> okc c -> fgn pd -> ~ In who pd -> mid st t pd c
| mid_pt p b c : Inv st pd -> okc c -> fgn pd -> ~ In who pd ->
    (k_want t = false -> k_adm t = true -> s_state st = Closed) ->
    (k_want t = false -> k_live t = false) ->
    mid st t pd (CPointIf FWant p :: BCas :: btail b ++ c)
| mid_cas b c : Inv st pd -> okc c -> fgn pd -> ~ In who pd ->
    (k_want t = false -> k_adm t = true -> s_state st = Closed) ->
    (k_want t = false -> k_live t = false) ->
    mid st t pd (BCas :: btail b ++ c)
| mid_done c : Inv st pd -> okc c -> fgn pd ->
    (In who pd \/ (k_adm t = true -> s_state st = Closed)) ->
    mid st t pd (BDone :: c)
| mid_orc q c : Inv st pd -> okc c -> fgn pd -> (k_live t = true -> In who pd) ->
    mid st t pd (CPoint q :: BHook :: BDoneBlocked :: c)
| mid_hook c : Inv st pd -> okc c -> fgn pd -> (k_live t = true -> In who pd) ->
    mid st t pd (BHook :: BDoneBlocked :: c)
| mid_blk c : Inv st pd -> okc c -> fgn pd -> mid st t pd (BDoneBlocked :: c).

Lemma mid_Inv st t pd code : mid st t pd code -> Inv st pd.
Proof. inversion 1; assumption. Qed.

Lemma mid_fgn st t pd code : mid st t pd code -> fgn pd.
Proof. inversion 1; assumption. Qed.

Lemma mid_nil st t pd : mid st t pd [] -> Inv st pd /\ fgn pd /\ ~ In who pd.
Proof. inversion 1; split; [assumption | split; assumption]. Qed.

(** the thread's shape when a point fires, and whether its own probe is pending *)
Definition atpt (t : cthr) (pd : list N) (code : list cinstr) : Prop :=
  ((okc code \/ (exists b c, code = BCas :: btail b ++ c /\ okc c /\ k_want t = true)) /\
   ~ In who pd) \/
  (exists c, code = BHook :: BDoneBlocked :: c /\ okc c /\ (k_live t = true -> In who pd)).

Definition keeps (t : cthr) (code : list cinstr) : Prop := k_code t = code /\ k_done t = false.

Ltac nopt := let X := fresh in intros X; exfalso; apply X; reflexivity.

Lemma step_mid st t pd i tl st' t' p :
  mid st t pd (i :: tl) ->
  cexec true who st (set_code t tl false) i = (st', t', p) ->
  exists pd', mid st' t' pd' tl /\ k_code t' = tl /\ k_done t' = false /\
              (p <> None -> atpt t' pd' tl).
Proof.
  intros Hm H.
  assert (Hcd : keeps t' tl).
  { apply exec_code in H. cbn [set_code k_code k_done] in H. exact H. }
  inversion Hm as [c HI Ho Hg Hn Ec | p0 b c HI Ho Hg Hn Hf Hl Ec | b c HI Ho Hg Hn Hf Hl Ec
                   | c HI Ho Hg Hx Ec | q c HI Ho Hg Hx Ec | c HI Ho Hg Hx Ec | c HI Ho Hg Ec]; subst.
  - inversion Ho as [| i' c' Hp Ho' | p0 b c' Ho']; subst.
    + (* a plain instruction *)
      destruct Hcd as [Hc Hd].
      exists pd. split; [|split; [exact Hc|split; [exact Hd|]]].
      * apply mid_ok; auto. eapply exec_plain_inv; eauto.
      * intros _. left. split; [left; exact Ho' | exact Hn].
    + (* BRead *)
      exists pd. cx H.
      destruct (s_state st) eqn:Es; [| |destruct (s_retry st <=? s_now st)];
        cbv beta iota zeta in H; injection H as <- <- <-;
        (split; [apply mid_pt; auto; cbn [k_want k_adm k_live]; intros; congruence
                |split; [reflexivity|split; [reflexivity|nopt]]]).
  - (* CPointIf FWant *)
    cx H. injection H as <- <- <-. exists pd.
    split; [apply mid_cas; [exact HI|exact Ho|exact Hg|exact Hn|exact Hf|exact Hl]|].
    split; [reflexivity|]. split; [reflexivity|].
    intros Hp. left. split; [|exact Hn].
    right. exists b, c. split; [reflexivity|]. split; [exact Ho|].
    cbn [set_code k_want]. destruct (k_want t); [reflexivity | exfalso; apply Hp; reflexivity].
  - (* BCas *)
    cx H. destruct (k_want t) eqn:Ew.
    + destruct (bstate_eqb (s_state st) Open && (negb true || (s_retry st <=? s_now st))) eqn:E;
        injection H as <- <- <-.
      * apply andb_true_iff in E. destruct E as [E1 E2]. cbn [negb orb] in E2.
        apply bstate_eqb_eq in E1.
        assert (HI' : Inv (with_state st HalfOpen (s_retry st)
                             (ETrans who Open HalfOpen (s_now st) (s_retry st))) (who :: pd)).
        { apply Inv_state with (pd := pd); [exact HI|].
          rewrite E1. cbn [wstep bstate_eqb valid_tr andb]. rewrite E2. reflexivity. }
        pose proof (fgn_push pd Hg Hn) as Hg'.
        exists (who :: pd). split; [|split; [reflexivity|split; [reflexivity|nopt]]].
        destruct b; cbn [btail app].
        -- apply mid_orc; [exact HI'|exact Ho|exact Hg'|intros _; left; reflexivity].
        -- apply mid_done; [exact HI'|exact Ho|exact Hg'|left; left; reflexivity].
      * exists pd. split; [|split; [reflexivity|split; [reflexivity|nopt]]].
        destruct b; cbn [btail app].
        -- apply mid_orc; [exact HI|exact Ho|exact Hg|]. cbn [k_live]. intros; discriminate.
        -- apply mid_done; [exact HI|exact Ho|exact Hg|right].
           cbn [k_adm]. intros; discriminate.
    + injection H as <- <- <-.
      assert (Hlv : k_live t = false) by (apply Hl; first [exact Ew | reflexivity]).
      exists pd. split; [|split; [reflexivity|split; [reflexivity|nopt]]].
      destruct b; cbn [btail app].
      * apply mid_orc; [exact HI|exact Ho|exact Hg|].
        cbn [set_code k_live]. rewrite Hlv. intros; discriminate.
      * apply mid_done; [exact HI|exact Ho|exact Hg|right].
        cbn [set_code k_adm]. intros Ha. apply Hf; [first [exact Ew | reflexivity] | exact Ha].
  - (* BDone *)
    cx H. injection H as <- <- <-. destruct (fgn_del pd Hg) as [Hg' Hn'].
    exists (del_n who pd). split; [|split; [reflexivity|split; [reflexivity|nopt]]].
    apply mid_ok; [|exact Ho|exact Hg'|exact Hn'].
    apply Inv_log with (pd := pd); [exact HI|]. apply wstep_build. exact Hx.
  - (* the oracle point *)
    cx H. injection H as <- <- <-. exists pd.
    split; [apply mid_hook; [exact HI|exact Ho|exact Hg|exact Hx]|].
    split; [reflexivity|]. split; [reflexivity|].
    intros _. right. exists c. split; [reflexivity|]. split; [exact Ho | exact Hx].
  - (* BHook *)
    cx H. destruct (k_live t && bstate_eqb (s_state st) HalfOpen) eqn:E; injection H as <- <- <-;
      exists pd; (split; [|split; [reflexivity|split; [reflexivity|nopt]]]).
    + apply mid_blk; [|exact Ho|exact Hg].
      apply Inv_state with (pd := pd); [exact HI|].
      apply andb_true_iff in E. destruct E as [E0 E]. apply bstate_eqb_eq in E. rewrite E.
      cbn [wstep bstate_eqb valid_tr andb].
      rewrite (proj2 (mem_n_In _ _) (Hx E0)), orb_true_r. reflexivity.
    + apply mid_blk; [exact HI|exact Ho|exact Hg].
  - (* BDoneBlocked *)
    cx H. injection H as <- <- <-. destruct (fgn_del pd Hg) as [Hg' Hn'].
    exists (del_n who pd). split; [|split; [reflexivity|split; [reflexivity|nopt]]].
    apply mid_ok; [|exact Ho|exact Hg'|exact Hn'].
    apply Inv_log with (pd := pd); [exact HI|]. apply wstep_build. right. discriminate.
Qed.

Lemma cseg_inv : forall code st t pd st' t' p,
  mid st t pd code -> cseg true who st t code = (st', t', p) ->
  exists pd', Inv st' pd' /\ tinv t' /\ fgn pd' /\
              (In who pd' -> own t') /\ (own t' -> k_live t' = true -> In who pd').
Proof.
  induction code as [|i tl IH]; intros st t pd st' t' p Hm H; cbn [cseg] in H.
  - injection H as <- <- _. apply mid_nil in Hm. destruct Hm as (HI & Hg & Hn).
    exists pd. split; [exact HI|]. split; [left; cbn [set_code k_code]; constructor|].
    split; [exact Hg|]. split.
    + intros X. contradiction.
    + intros [X _]. cbn [set_code k_done] in X. discriminate X.
  - destruct (cexec true who st (set_code t tl false) i) as [[st1 t1] p1] eqn:E.
    destruct (step_mid _ _ _ _ _ _ _ _ Hm E) as (pd1 & M & Hc & Hd & Hp).
    destruct p1 as [q|].
    + injection H as <- <- _.
      exists pd1. split; [eapply mid_Inv; exact M|].
      destruct Hp as [[Hk Hn] | (c & Ec & Ho & Hx)]; [discriminate| |].
      * split; [unfold tinv; rewrite Hc; destruct Hk as [Hk|Hk]; [left; exact Hk | right; left; exact Hk]|].
        split; [eapply mid_fgn; exact M|]. split.
        -- intros X. contradiction.
        -- intros [_ [c Ec]] _. exfalso. rewrite Hc in Ec.
           destruct Hk as [Hk | (b & c' & Hk & _)].
           ++ rewrite Ec in Hk. exact (okc_not_hook _ Hk).
           ++ rewrite Ec in Hk. discriminate Hk.
      * split; [unfold tinv; rewrite Hc; right; right; exists c; split; [exact Ec | exact Ho]|].
        split; [eapply mid_fgn; exact M|]. split.
        -- intros _. split; [exact Hd|]. exists c. rewrite Hc. exact Ec.
        -- intros _ Hl. apply Hx. exact Hl.
    + eapply IH; eauto.
Qed.

Lemma run_code_inv : forall code st t pd st' t',
  mid st t pd code -> run_code true who st t code = (st', t') ->
  exists pd', Inv st' pd' /\ fgn pd' /\ ~ In who pd'.
Proof.
  induction code as [|i tl IH]; intros st t pd st' t' Hm H; cbn [run_code] in H.
  - injection H as <- <-. exists pd. apply mid_nil in Hm. exact Hm.
  - destruct (cexec true who st (set_code t tl false) i) as [[st1 t1] p1] eqn:E.
    destruct (step_mid _ _ _ _ _ _ _ _ Hm E) as (pd1 & M & _).
    eapply IH; eauto.
Qed.

End Seg.

Lemma prelude_inv : forall ops st t, Inv st [] -> Inv (prelude true st t ops) [].
Proof.
  assert (F0 : fgn 0 (fun _ => False) (fun _ => False) []).
  { split; [constructor|]. split; [intros w [] | intros w _ []]. }
  assert (K : forall st t o st1 t1, Inv st [] ->
            run_code true 0 st t (compile_op o) = (st1, t1) -> Inv st1 []).
  { intros st t o st1 t1 HI E.
    destruct (run_code_inv 0 (fun _ => False) (fun _ => False) _ _ _ _ _ _
                (mid_ok 0 (fun _ => False) (fun _ => False) st t [] _ HI (okc_op o) F0
                        (fun X : In 0 [] => X)) E)
      as (pd' & HI' & (_ & Hg & _) & Hn).
    destruct pd' as [|w l]; [exact HI'|]. exfalso.
    destruct (N.eq_dec w 0) as [->|Hne].
    - apply Hn. left. reflexivity.
    - exact (Hg w (or_introl eq_refl) Hne). }
  induction ops as [|o ops IH]; intros st t HI; cbn [prelude]; auto.
  destruct o as [|err|dt].
  - destruct (run_code true 0 st t (compile_op (KB false))) as [st1 t1] eqn:E. apply IH.
    eapply K; eauto.
  - destruct (run_code true 0 st t (compile_op (KX err))) as [st1 t1] eqn:E. apply IH.
    eapply K; eauto.
  - apply IH. apply Inv_advance. exact HI.
Qed.

(** ** The scheduler *)

(** [w] is a thread parked at the oracle point *)
Definition Pth (ths : list cthr) (w : N) : Prop :=
  exists tid t, w = N.of_nat tid + 1 /\ nth_error ths tid = Some t /\ own t.

(** ... after its own Open -> Half-Open *)
Definition Qth (ths : list cthr) (w : N) : Prop :=
  exists tid t, w = N.of_nat tid + 1 /\ nth_error ths tid = Some t /\ own t /\ k_live t = true.

Definition G (st : cbs) (ths : list cthr) : Prop :=
  exists pd, Inv st pd /\ Forall tinv ths /\ NoDup pd /\
             (forall w, In w pd -> Pth ths w) /\ (forall w, Qth ths w -> In w pd).

Lemma Forall_upd {A} (Q : A -> Prop) : forall l i x, Forall Q l -> Q x -> Forall Q (upd l i x).
Proof.
  induction l as [|h l IH]; intros i x Hl Hx; destruct i; cbn [upd]; auto;
    inversion Hl; subst; constructor; auto.
Qed.

Lemma csched_step_G st ths tid st' ths' tr :
  G st ths -> csched_step true st ths tid = (st', ths', tr) -> G st' ths'.
Proof.
  intros (pd & HI & HF & HN & HP & HQ) H. unfold csched_step in H.
  destruct (nth_error ths tid) as [t|] eqn:En;
    [|injection H as <- <- _; exists pd; exact (conj HI (conj HF (conj HN (conj HP HQ))))].
  destruct (k_done t) eqn:Edn; [injection H as <- <- _; exists pd; exact (conj HI (conj HF (conj HN (conj HP HQ))))|].
  destruct (cseg true (N.of_nat tid + 1) st t (k_code t)) as [[st1 t1] p1] eqn:E.
  injection H as <- <- _.
  assert (Ht : tinv t).
  { rewrite Forall_forall in HF. apply HF. eapply nth_error_In; eauto. }
  assert (Hg : fgn (N.of_nat tid + 1) (Pth ths) (Qth ths) pd).
  { split; [exact HN|]. split.
    - intros w Hw _. apply HP. exact Hw.
    - intros w _ Hq. apply HQ. exact Hq. }
  (* the thread that runs is in the list of pending probes only when parked at the oracle point *)
  assert (Hown : In (N.of_nat tid + 1) pd -> own t).
  { intros Hw. destruct (HP _ Hw) as (tid' & t0 & Hw0 & Hn & Ho).
    assert (tid' = tid) by lia. subst tid'. rewrite En in Hn. injection Hn as <-. exact Ho. }
  assert (Hm : mid (N.of_nat tid + 1) (Pth ths) (Qth ths) st t pd (k_code t)).
  { destruct Ht as [Hk | [(b & c & Hc & Ho & Hw) | (c & Hc & Ho)]].
    - apply mid_ok; auto. intros X. destruct (Hown X) as [_ [c Hc]].
      rewrite Hc in Hk. exact (okc_not_hook _ Hk).
    - rewrite Hc. apply mid_cas; auto.
      + intros X. destruct (Hown X) as [_ [c' Hc']]. rewrite Hc in Hc'. discriminate Hc'.
      + intros X; congruence.
      + intros X; congruence.
    - rewrite Hc. apply mid_hook; auto.
      intros Hl. apply HQ. exists tid, t. split; [reflexivity|]. split; [exact En|].
      split; [|exact Hl]. split; [exact Edn|]. exists c. exact Hc. }
  destruct (cseg_inv _ _ _ _ _ _ _ _ _ _ Hm E) as (pd' & HI1 & Ht1 & (N1 & P1 & Q1) & Hw1 & Hw2).
  exists pd'. split; [exact HI1|]. split; [apply Forall_upd; auto|]. split; [exact N1|]. split.
  - intros w X. destruct (N.eq_dec w (N.of_nat tid + 1)) as [->|Hne].
    + exists tid, t1. split; [reflexivity|].
      split; [eapply nth_error_upd_same; exact En | exact (Hw1 X)].
    + destruct (P1 w X Hne) as (tid' & t0 & Hw0 & Hn & Ho).
      exists tid', t0. split; [exact Hw0|]. split; [|exact Ho].
      rewrite nth_error_upd_other; [exact Hn|]. intros Heq. subst tid'. apply Hne. exact Hw0.
  - intros w (tid' & t0 & Hw0 & Hn & Ho & Hl).
    destruct (Nat.eq_dec tid' tid) as [->|Hne].
    + rewrite (nth_error_upd_same _ _ _ _ En) in Hn. injection Hn as <-.
      rewrite Hw0. apply Hw2; assumption.
    + rewrite nth_error_upd_other in Hn by congruence.
      apply Q1; [lia|]. exists tid', t0. split; [exact Hw0|]. split; [exact Hn|]. split; [exact Ho | exact Hl].
Qed.

Lemma G_advance st ths dt : G st ths -> G (cadvance st dt) ths.
Proof.
  intros (pd & HI & HF & HP). exists pd. split; [apply Inv_advance; exact HI|]. split; assumption.
Qed.

Lemma crun_sched_G : forall steps st ths st' ths' tr,
  G st ths -> crun_sched true st ths steps = (st', ths', tr) -> G st' ths'.
Proof.
  induction steps as [|[tid dt] tl IH]; intros st ths st' ths' tr HG H; cbn [crun_sched] in H.
  - injection H as <- <- _. exact HG.
  - destruct (csched_step true (cadvance st dt) ths tid) as [[st1 ths1] tr1] eqn:E1.
    destruct (crun_sched true st1 ths1 tl) as [[st2 ths2] tr2] eqn:E2.
    injection H as <- <- _.
    eapply IH; [|exact E2]. eapply csched_step_G; [|exact E1].
    apply G_advance. exact HG.
Qed.

Lemma cround_G : forall tids st ths st' ths' tr,
  G st ths -> cround true st ths tids = (st', ths', tr) -> G st' ths'.
Proof.
  induction tids as [|tid tl IH]; intros st ths st' ths' tr HG H; cbn [cround] in H.
  - injection H as <- <- _. exact HG.
  - destruct (csched_step true st ths tid) as [[st1 ths1] tr1] eqn:E1.
    destruct (cround true st1 ths1 tl) as [[st2 ths2] tr2] eqn:E2.
    injection H as <- <- _.
    eapply IH; [|exact E2]. eapply csched_step_G; eauto.
Qed.

Lemma cfinish_G : forall fuel st ths st' ths' tr,
  G st ths -> cfinish true fuel st ths = (st', ths', tr) -> G st' ths'.
Proof.
  induction fuel as [|f IH]; intros st ths st' ths' tr HG H; cbn [cfinish] in H.
  - injection H as <- <- _. exact HG.
  - destruct (call_done ths); [injection H as <- <- _; exact HG|].
    destruct (cround true st ths (seq 0 (length ths))) as [[st1 ths1] tr1] eqn:E1.
    destruct (cfinish true f st1 ths1) as [[st2 ths2] tr2] eqn:E2.
    injection H as <- <- _.
    eapply IH; [|exact E2]. eapply cround_G; eauto.
Qed.

Lemma crun_case_G base pre progs steps st ths tr :
  crun_case true base r pre progs steps = (st, ths, tr) -> G st ths.
Proof.
  intros H. unfold crun_case in H.
  destruct (crun_sched true (prelude true (cbs0 base r) (cthr0 []) pre)
              (map (fun p => cthr0 (ccompile p)) progs) steps) as [[st1 ths1] tr1] eqn:E1.
  destruct (cfinish true (ccode_total ths1) st1 ths1) as [[st2 ths2] tr2] eqn:E2.
  injection H as <- <- _.
  assert (G0 : G (prelude true (cbs0 base r) (cthr0 []) pre) (map (fun p => cthr0 (ccompile p)) progs)).
  { exists []. split; [|split; [|split; [|split]]].
    - apply prelude_inv. split; reflexivity.
    - apply Forall_forall. intros t Ht. apply in_map_iff in Ht. destruct Ht as (p & <- & _).
      left. cbn [cthr0 k_code]. apply okc_ccompile.
    - constructor.
    - intros w [].
    - (* a fresh thread is not parked at the oracle point *)
      intros w (tid & t & _ & Hn & [_ [c Hc]] & _). exfalso.
      apply nth_error_In in Hn. apply in_map_iff in Hn. destruct Hn as (p & <- & _).
      cbn [cthr0 k_code] in Hc. pose proof (okc_ccompile p) as Hk. rewrite Hc in Hk.
      exact (okc_not_hook _ Hk). }
  pose proof (crun_sched_G _ _ _ _ _ _ G0 E1) as G1.
  exact (cfinish_G _ _ _ _ _ _ G1 E2).
Qed.

(** when every thread is done nobody is parked at the oracle point: no probe is pending *)
Lemma G_done st ths : G st ths -> call_done ths = true -> Inv st [].
Proof.
  intros (pd & HI & _ & _ & HP & _) Hd. destruct pd as [|w l]; [exact HI|]. exfalso.
  destruct (HP w (or_introl eq_refl)) as (tid & t & _ & Hn & Hk & _).
  unfold call_done in Hd. rewrite forallb_forall in Hd.
  apply nth_error_In in Hn. rewrite (Hd _ Hn) in Hk. discriminate.
Qed.

End Invariant.

(* ------------------------------------------------------------------------------------------ *)
(** * Termination *)

Definition wgt (t : cthr) : nat := if k_done t then O else S (length (k_code t)).
Definition msr (ths : list cthr) : nat := fold_right (fun t acc => (wgt t + acc)%nat) O ths.

Lemma cseg_wgt recheck who : forall code st t st' t' p,
  cseg recheck who st t code = (st', t', p) ->
  k_done t' = true \/ (k_done t' = false /\ (length (k_code t') < length code)%nat).
Proof.
  induction code as [|i tl IH]; intros st t st' t' p H; cbn [cseg] in H.
  - injection H as _ <- _. left. reflexivity.
  - destruct (cexec recheck who st (set_code t tl false) i) as [[st1 t1] p1] eqn:E.
    apply exec_code in E. cbn [set_code k_code k_done] in E. destruct E as [Ec Ed].
    destruct p1 as [q|].
    + injection H as _ <- _. right. rewrite Ec, Ed. cbn [length]. split; [reflexivity | lia].
    + apply IH in H. destruct H as [H | [H1 H2]]; [left; exact H | right].
      split; [exact H1 | cbn [length]; lia].
Qed.

Lemma msr_upd : forall ths tid t t',
  nth_error ths tid = Some t -> (msr (upd ths tid t') + wgt t = msr ths + wgt t')%nat.
Proof.
  induction ths as [|h ths IH]; intros tid t t' H; destruct tid; cbn [nth_error] in H; try discriminate.
  - injection H as ->. cbn [upd msr fold_right]. lia.
  - cbn [upd msr fold_right]. specialize (IH _ _ t' H). unfold msr in IH. lia.
Qed.

Lemma csched_step_msr recheck st ths tid st' ths' tr :
  csched_step recheck st ths tid = (st', ths', tr) ->
  length ths' = length ths /\ (msr ths' <= msr ths)%nat /\
  (forall t, nth_error ths tid = Some t -> k_done t = false -> (msr ths' < msr ths)%nat) /\
  (forall j, j <> tid -> nth_error ths' j = nth_error ths j).
Proof.
  intros H. unfold csched_step in H.
  destruct (nth_error ths tid) as [t|] eqn:En.
  - destruct (k_done t) eqn:Ed.
    + injection H as _ <- _. repeat split; auto. intros t0 X; injection X as <-. congruence.
    + destruct (cseg recheck (N.of_nat tid + 1) st t (k_code t)) as [[st1 t1] p1] eqn:E.
      injection H as _ <- _.
      apply cseg_wgt in E.
      pose proof (msr_upd _ _ _ t1 En) as Hm.
      assert (Hw : (wgt t1 < wgt t)%nat).
      { unfold wgt. rewrite Ed. destruct E as [-> | [-> E]]; lia. }
      split; [apply length_upd|]. split; [lia|]. split.
      * intros; lia.
      * intros j Hj. apply nth_error_upd_other. congruence.
  - injection H as _ <- _. repeat split; auto. intros; discriminate.
Qed.

Lemma cround_msr recheck : forall tids st ths st' ths' tr,
  cround recheck st ths tids = (st', ths', tr) ->
  length ths' = length ths /\ (msr ths' <= msr ths)%nat /\
  (forall tid t, In tid tids -> nth_error ths tid = Some t -> k_done t = false ->
                 (msr ths' < msr ths)%nat).
Proof.
  induction tids as [|tid0 tl IH]; intros st ths st' ths' tr H; cbn [cround] in H.
  - injection H as _ <- _. repeat split; auto. intros tid t [].
  - destruct (csched_step recheck st ths tid0) as [[st1 ths1] tr1] eqn:E1.
    destruct (cround recheck st1 ths1 tl) as [[st2 ths2] tr2] eqn:E2.
    injection H as _ <- _.
    apply csched_step_msr in E1. destruct E1 as (L1 & M1 & S1 & O1).
    apply IH in E2. destruct E2 as (L2 & M2 & S2).
    split; [congruence|]. split; [lia|].
    intros tid t Hin Hn Hd.
    destruct (Nat.eq_dec tid tid0) as [->|Hne].
    + specialize (S1 _ Hn Hd). lia.
    + destruct Hin as [X|Hin]; [congruence|].
      rewrite <- (O1 _ Hne) in Hn. specialize (S2 _ _ Hin Hn Hd). lia.
Qed.

Lemma msr_zero : forall ths, msr ths = O -> call_done ths = true.
Proof.
  induction ths as [|h ths IH]; intros H; cbn [call_done forallb]; auto.
  cbn [msr fold_right] in H. fold (msr ths) in H.
  assert (H1 : wgt h = O) by lia. assert (H2 : msr ths = O) by lia.
  unfold wgt in H1. destruct (k_done h); [|discriminate]. cbn [andb]. apply IH. exact H2.
Qed.

Lemma not_done_ex : forall ths, call_done ths = false ->
  exists tid t, nth_error ths tid = Some t /\ k_done t = false /\ (tid < length ths)%nat.
Proof.
  induction ths as [|h ths IH]; intros H; cbn [call_done forallb] in H; try discriminate.
  destruct (k_done h) eqn:Ed.
  - cbn [andb] in H. destruct (IH H) as (tid & t & Hn & Hd & Hl).
    exists (S tid), t. cbn [nth_error length]. repeat split; auto. lia.
  - exists O, h. cbn [nth_error length]. repeat split; auto. lia.
Qed.

Lemma cfinish_done recheck : forall fuel st ths st' ths' tr,
  (msr ths <= fuel)%nat -> cfinish recheck fuel st ths = (st', ths', tr) -> call_done ths' = true.
Proof.
  induction fuel as [|f IH]; intros st ths st' ths' tr Hm H; cbn [cfinish] in H.
  - injection H as _ <- _. apply msr_zero. lia.
  - destruct (call_done ths) eqn:Ed; [injection H as _ <- _; exact Ed|].
    destruct (cround recheck st ths (seq 0 (length ths))) as [[st1 ths1] tr1] eqn:E1.
    destruct (cfinish recheck f st1 ths1) as [[st2 ths2] tr2] eqn:E2.
    injection H as _ <- _.
    apply cround_msr in E1. destruct E1 as (L1 & M1 & S1).
    destruct (not_done_ex _ Ed) as (tid & t & Hn & Hd & Hl).
    assert (Hin : In tid (seq 0 (length ths))) by (apply in_seq; lia).
    specialize (S1 _ _ Hin Hn Hd).
    eapply IH; [|exact E2]. lia.
Qed.

Lemma msr_le_total : forall ths, (msr ths <= ccode_total ths)%nat.
Proof.
  induction ths as [|h ths IH]; cbn [msr ccode_total fold_right]; auto.
  fold (msr ths). fold (ccode_total ths). unfold wgt. destruct (k_done h); lia.
Qed.

Theorem c16_all_finish : forall recheck base r pre progs steps st ths tr,
  crun_case recheck base r pre progs steps = (st, ths, tr) -> call_done ths = true.
Proof.
  intros recheck base r pre progs steps st ths tr H. unfold crun_case in H.
  destruct (crun_sched recheck (prelude recheck (cbs0 base r) (cthr0 []) pre)
              (map (fun p => cthr0 (ccompile p)) progs) steps) as [[st1 ths1] tr1] eqn:E1.
  destruct (cfinish recheck (ccode_total ths1) st1 ths1) as [[st2 ths2] tr2] eqn:E2.
  injection H as _ <- _.
  eapply cfinish_done; [|exact E2]. apply msr_le_total.
Qed.

(* ------------------------------------------------------------------------------------------ *)
(** * The two theorems on the log *)

Theorem c16_every_schedule : forall base r pre progs steps st ths tr,
  crun_case true base r pre progs steps = (st, ths, tr) ->
  ok_c16 r (s_log st) = true.
Proof.
  intros base r pre progs steps st ths tr H.
  pose proof (c16_all_finish _ _ _ _ _ _ _ _ _ H) as Hd.
  apply crun_case_G in H. destruct (G_done _ _ _ H Hd) as [_ HW].
  unfold ok_c16. eapply walk_ok. exact HW.
Qed.

Theorem c16_log_state : forall base r pre progs steps st ths tr,
  crun_case true base r pre progs steps = (st, ths, tr) ->
  log_state Closed (s_log st) = s_state st.
Proof.
  intros base r pre progs steps st ths tr H.
  apply crun_case_G in H. destruct H as (pd & [_ HW] & _).
  eapply walk_log_state. exact HW.
Qed.

(* ------------------------------------------------------------------------------------------ *)
(** * Without the re-check under the lock the property fails *)

Theorem c16_unchecked_refuted : exists base r pre progs steps,
  ok_c16 r (s_log (fst (fst (crun_case false base r pre progs steps)))) = false.
Proof.
  exists 1700000000000,
         (mkBR 1 ErrCount 1000 1 10000 1 0 (f64_of_bits 4607182418800017408)),
         [PB; PX true; PA 1000],
         [[KB false]; [KB false; KX true]],
         [(0%nat,0);(0%nat,0);(1%nat,0);(1%nat,0);(1%nat,0);(1%nat,0);(1%nat,0);(0%nat,0)].
  vm_compute. reflexivity.
Qed.
