(** C16 proofs: the log invariant of the concurrent circuit-breaker model, preserved by every
    segment of every thread; termination of the scheduler; the refutation without the re-check. *)
From SV Require Import Model.Base Model.F64 Model.LeapArray Model.Breaker Model.ConcCb Spec.C16Spec.
Open Scope N_scope.

(* ------------------------------------------------------------------------------------------ *)
(** * The log walk: [ok_log] as a left-to-right summary *)

Lemma bstate_eqb_eq a b : bstate_eqb a b = true <-> a = b.
Proof. destruct a, b; cbn; split; congruence. Qed.

Lemma bstate_eqb_refl a : bstate_eqb a a = true.
Proof. destruct a; reflexivity. Qed.

Definition wstep (rm : N) (sp : bstate * option N) (e : cev) : option (bstate * option N) :=
  let (s, p) := sp in
  match e with
  | ETrans who from to now retry =>
      if bstate_eqb from s && valid_tr from to &&
         (match from, to with
          | Open, HalfOpen => retry <=? now
          | Closed, Open => retry =? now + rm
          | _, _ => true
          end)
      then Some (to, match from, to with Open, HalfOpen => Some who | _, _ => p end)
      else None
  | EBuild who adm =>
      match p with
      | Some w =>
          if who =? w then Some (s, None)
          else if (if adm then bstate_eqb s Closed else true) then Some (s, p) else None
      | None => if (if adm then bstate_eqb s Closed else true) then Some (s, None) else None
      end
  | EExit _ _ _ => Some (s, p)
  end.

Fixpoint walk (rm : N) (sp : bstate * option N) (log : list cev) : option (bstate * option N) :=
  match log with
  | [] => Some sp
  | e :: tl => match wstep rm sp e with Some sp' => walk rm sp' tl | None => None end
  end.

Lemma walk_app rm l : forall sp e,
  walk rm sp (l ++ [e]) = match walk rm sp l with Some sp' => wstep rm sp' e | None => None end.
Proof.
  induction l as [|a l IH]; intros sp e; cbn [walk app].
  - destruct (wstep rm sp e); reflexivity.
  - destruct (wstep rm sp a); auto.
Qed.

Lemma walk_ok rm log : forall s p s',
  walk rm (s, p) log = Some (s', None) -> ok_log rm s p log = true.
Proof.
  induction log as [|e tl IH]; intros s p s' H; cbn [walk] in H.
  - inversion H; subst; reflexivity.
  - destruct e as [who from to now retry | who adm | who err rt]; cbn [wstep] in H; cbn [ok_log].
    + match type of H with (match (if ?c then _ else _) with _ => _ end) = _ => destruct c eqn:E end;
        try discriminate.
      cbn [andb]. eapply IH; exact H.
    + destruct p as [w|].
      * destruct (who =? w); [eapply IH; exact H|].
        match type of H with (match (if ?c then _ else _) with _ => _ end) = _ => destruct c eqn:E end;
          try discriminate.
        cbn [andb]. eapply IH; exact H.
      * match type of H with (match (if ?c then _ else _) with _ => _ end) = _ => destruct c eqn:E end;
          try discriminate.
        cbn [andb]. eapply IH; exact H.
    + eapply IH; exact H.
Qed.

Lemma walk_log_state rm log : forall s p s' p',
  walk rm (s, p) log = Some (s', p') -> log_state s log = s'.
Proof.
  induction log as [|e tl IH]; intros s p s' p' H; cbn [walk] in H.
  - inversion H; subst; reflexivity.
  - destruct e as [who from to now retry | who adm | who err rt]; cbn [wstep] in H; cbn [log_state].
    + match type of H with (match (if ?c then _ else _) with _ => _ end) = _ => destruct c end;
        try discriminate.
      eapply IH; exact H.
    + destruct p as [w|].
      * destruct (who =? w); [eapply IH; exact H|].
        match type of H with (match (if ?c then _ else _) with _ => _ end) = _ => destruct c end;
          try discriminate.
        eapply IH; exact H.
      * match type of H with (match (if ?c then _ else _) with _ => _ end) = _ => destruct c end;
          try discriminate.
        eapply IH; exact H.
    + eapply IH; exact H.
Qed.

(* ------------------------------------------------------------------------------------------ *)
(** * Code shapes *)

Definition plain (i : cinstr) : bool :=
  match i with BRead | BCas | BDone => false | _ => true end.

(** what follows the guarded transition of a build: its result, or (a later slot rejects the
    entry) the oracle point, the exit hook and the rejected result *)
Definition btail (b : bool) : list cinstr :=
  if b then [CPoint COracle; BHook; BDoneBlocked] else [BDone].

Inductive okc : list cinstr -> Prop :=
| okc_nil : okc []
| okc_plain i c : plain i = true -> okc c -> okc (i :: c)
| okc_read p b c : okc c -> okc (BRead :: CPointIf FWant p :: BCas :: btail b ++ c).

Lemma okc_compile o c : okc c -> okc (compile_op o ++ c).
Proof.
  intros H; destruct o as [[|]|err]; cbn [compile_op app].
  - apply okc_plain; [reflexivity|]. apply okc_plain; [reflexivity|].
    apply (okc_read CO2H true c). exact H.
  - apply okc_plain; [reflexivity|]. apply okc_plain; [reflexivity|].
    apply (okc_read CO2H false c). exact H.
  - repeat (apply okc_plain; [reflexivity|]). exact H.
Qed.

Lemma okc_op o : okc (compile_op o).
Proof. rewrite <- (app_nil_r (compile_op o)). apply okc_compile. constructor. Qed.

Lemma okc_ccompile ops : okc (ccompile ops).
Proof.
  induction ops as [|o ops IH]; cbn [ccompile flat_map].
  - constructor.
  - apply okc_compile. exact IH.
Qed.

Ltac cx H :=
  unfold cexec in H;
  cbn [set_code get_flag k_code k_done k_want k_hobad k_hook k_trip k_c2o k_ho2 k_live k_adm k_bad
       k_rt k_starts] in H.

(** every instruction keeps the code and done fields of the thread record *)
Lemma exec_code recheck who st t i st' t' p :
  cexec recheck who st t i = (st', t', p) -> k_code t' = k_code t /\ k_done t' = k_done t.
Proof.
  intros H. destruct i; unfold cexec in H;
    repeat match type of H with
           | context [match ?x with _ => _ end] => destruct x
           end;
    inversion H; subst; split; reflexivity.
Qed.

(* ------------------------------------------------------------------------------------------ *)
(** * The invariant *)

Section Invariant.
Variable r : brule.

Definition Inv (st : cbs) (pr : option N) : Prop :=
  s_rule st = r /\ walk (br_retry_ms r) (Closed, None) (s_log st) = Some (s_state st, pr).

Lemma Inv_state st pr b retry e pr' :
  Inv st pr -> wstep (br_retry_ms r) (s_state st, pr) e = Some (b, pr') ->
  Inv (with_state st b retry e) pr'.
Proof.
  intros [H0 H1] H2. split; cbn [with_state s_rule s_log s_state]; auto.
  rewrite walk_app, H1. exact H2.
Qed.

Lemma Inv_log st pr e pr' :
  Inv st pr -> wstep (br_retry_ms r) (s_state st, pr) e = Some (s_state st, pr') ->
  Inv (with_log st e) pr'.
Proof.
  intros [H0 H1] H2. split; cbn [with_log s_rule s_log s_state]; auto.
  rewrite walk_app, H1. exact H2.
Qed.

Lemma Inv_ring st pr rg : Inv st pr -> Inv (with_ring st rg) pr.
Proof. intros H; exact H. Qed.

Lemma Inv_advance st pr dt : Inv st pr -> Inv (cadvance st dt) pr.
Proof. intros H; exact H. Qed.

Lemma wstep_build_other rm who s pr adm :
  (forall w, pr = Some w -> w <> who) -> (adm = true -> s = Closed) ->
  wstep rm (s, pr) (EBuild who adm) = Some (s, pr).
Proof.
  intros Hn Ha. cbn [wstep]. destruct pr as [w|].
  - destruct (N.eqb_spec who w) as [->|_]; [exfalso; apply (Hn w); reflexivity|].
    destruct adm; [rewrite (Ha eq_refl)|]; reflexivity.
  - destruct adm; [rewrite (Ha eq_refl)|]; reflexivity.
Qed.

Lemma wstep_build_own rm who s adm :
  wstep rm (s, Some who) (EBuild who adm) = Some (s, None).
Proof. cbn [wstep]. rewrite N.eqb_refl. reflexivity. Qed.

(** the plain instructions keep the pending probe when it is another thread's *)
Lemma exec_plain_inv who st pr t i st' t' p :
  plain i = true -> Inv st pr -> (forall w, pr = Some w -> w <> who) ->
  cexec true who st t i = (st', t', p) -> Inv st' pr.
Proof.
  intros Hp HI Hn H. destruct i; try discriminate Hp; cx H.
  - (* BStart *) injection H as <- _ _. exact HI.
  - (* BHook *)
    destruct (k_live t && bstate_eqb (s_state st) HalfOpen) eqn:E; injection H as <- _ _; try exact HI.
    apply Inv_state with (pr := pr); auto.
    apply andb_true_iff in E. destruct E as [_ E]. apply bstate_eqb_eq in E. rewrite E. reflexivity.
  - (* BDoneBlocked *)
    injection H as <- _ _. apply Inv_log with (pr := pr); auto.
    apply wstep_build_other; [exact Hn | discriminate].
  - (* XBegin *)
    destruct (k_starts t); [injection H as <- _ _; exact HI|].
    destruct (write _ _ _ _); injection H as <- _ _; try exact HI.
  - (* XRead1 *) destruct (k_live t); injection H as <- _ _; exact HI.
  - (* XCasH2O *)
    destruct (get_flag t f); [destruct (bstate_eqb (s_state st) HalfOpen) eqn:E|];
      injection H as <- _ _; try exact HI.
    apply Inv_state with (pr := pr); auto.
    apply bstate_eqb_eq in E. rewrite E. reflexivity.
  - (* XCasH2C *)
    destruct (k_hook t); [|injection H as <- _ _; exact HI].
    destruct (bstate_eqb (s_state st) HalfOpen) eqn:E; injection H as <- _ _; apply Inv_ring; auto.
    apply Inv_state with (pr := pr); auto.
    apply bstate_eqb_eq in E. rewrite E. reflexivity.
  - (* XRead2 *) destruct (k_trip t); injection H as <- _ _; exact HI.
  - (* XCasC2O *)
    destruct (k_c2o t); [destruct (bstate_eqb (s_state st) Closed) eqn:E|];
      injection H as <- _ _; try exact HI.
    apply Inv_state with (pr := pr); auto.
    apply bstate_eqb_eq in E. rewrite E. destruct HI as [Hr _]. rewrite Hr.
    cbn [wstep bstate_eqb valid_tr andb]. rewrite N.eqb_refl. reflexivity.
  - (* XDone *)
    destruct (k_adm t); injection H as <- _ _; try exact HI.
    apply Inv_log with (pr := pr); auto.
  - (* CPoint *) injection H as <- _ _. exact HI.
  - (* CPointIf *) injection H as <- _ _. exact HI.
Qed.

(** a thread between two of its segments *)
Definition parked (t : cthr) (code : list cinstr) : Prop :=
  okc code \/
  (exists b c, code = BCas :: btail b ++ c /\ okc c /\ k_want t = true) \/
  (exists c, code = BHook :: BDoneBlocked :: c /\ okc c).

Definition tinv (t : cthr) : Prop := parked t (k_code t).

(** the thread is parked at the oracle point: its build result is still to come *)
Definition own (t : cthr) : Prop :=
  k_done t = false /\ exists c, k_code t = BHook :: BDoneBlocked :: c.

Lemma parked_hook_okc t c : parked t (BHook :: BDoneBlocked :: c) -> okc c.
Proof.
  intros [H | [(b & c' & Hc & _) | (c' & Hc & Ho)]].
  - inversion H; subst.
    match goal with H1 : okc (BDoneBlocked :: _) |- _ => inversion H1; subst end. assumption.
  - discriminate.
  - injection Hc as <-. exact Ho.
Qed.

Section Seg.
Variable who : N.
(** [P w]: thread [w] is another thread, parked at the oracle point *)
Variable P : N -> Prop.

Definition fgn (pr : option N) : Prop := forall w, pr = Some w -> w <> who /\ P w.
Definition mof (pr : option N) : Prop := pr = Some who \/ fgn pr.

Lemma fgn_ne pr : fgn pr -> forall w, pr = Some w -> w <> who.
Proof. intros H w Hw. apply (H w Hw). Qed.

Lemma fgn_none : fgn None.
Proof. intros w X; discriminate. Qed.

(** what may be left to run inside a segment, with the facts the remaining code relies on *)
Inductive mid (st : cbs) (t : cthr) (pr : option N) : list cinstr -> Prop :=
| mid_ok c : Inv st pr -> okc c -> fgn pr -> mid st t pr c
| mid_pt p b c : Inv st pr -> okc c -> fgn pr ->
    (k_want t = false -> k_adm t = true -> s_state st = Closed) ->
    mid st t pr (CPointIf FWant p :: BCas :: btail b ++ c)
| mid_cas b c : Inv st pr -> okc c -> fgn pr ->
    (k_want t = false -> k_adm t = true -> s_state st = Closed) ->
    mid st t pr (BCas :: btail b ++ c)
| mid_done c : Inv st pr -> okc c ->
    (pr = Some who \/ (fgn pr /\ (k_adm t = true -> s_state st = Closed))) ->
    mid st t pr (BDone :: c)
| mid_orc q c : Inv st pr -> okc c -> mof pr -> mid st t pr (CPoint q :: BHook :: BDoneBlocked :: c)
| mid_hook c : Inv st pr -> okc c -> mof pr -> mid st t pr (BHook :: BDoneBlocked :: c)
| mid_blk c : Inv st pr -> okc c -> mof pr -> mid st t pr (BDoneBlocked :: c).

Lemma mid_Inv st t pr code : mid st t pr code -> Inv st pr.
Proof. inversion 1; assumption. Qed.

Lemma mid_nil st t pr : mid st t pr [] -> Inv st pr /\ fgn pr.
Proof. inversion 1; split; assumption. Qed.

Lemma tinv_mid st t pr : tinv t -> Inv st pr -> fgn pr -> mid st t pr (k_code t).
Proof.
  intros [H | [(b & c & Hc & Ho & Hw) | (c & Hc & Ho)]] HI Hg.
  - apply mid_ok; assumption.
  - rewrite Hc. apply mid_cas; auto. intros X; congruence.
  - rewrite Hc. apply mid_hook; auto. right. exact Hg.
Qed.

(** the thread's shape when a point fires, and whose probe is pending *)
Definition pend (t : cthr) (pr : option N) (code : list cinstr) : Prop :=
  parked t code /\
  forall w, pr = Some w ->
    (w = who /\ exists c, code = BHook :: BDoneBlocked :: c) \/ (w <> who /\ P w).

Lemma fgn_pend t pr code : parked t code -> fgn pr -> pend t pr code.
Proof. intros Hp Hf. split; [exact Hp|]. intros w Hw. right. apply Hf. exact Hw. Qed.

Definition keeps (t : cthr) (code : list cinstr) : Prop := k_code t = code /\ k_done t = false.

Ltac nopt := let X := fresh in intros X; exfalso; apply X; reflexivity.

Lemma step_mid st t pr i tl st' t' p :
  mid st t pr (i :: tl) ->
  cexec true who st (set_code t tl false) i = (st', t', p) ->
  exists pr', mid st' t' pr' tl /\ k_code t' = tl /\ k_done t' = false /\
              (p <> None -> pend t' pr' tl).
Proof.
  intros Hm H.
  assert (Hcd : keeps t' tl).
  { apply exec_code in H. cbn [set_code k_code k_done] in H. exact H. }
  inversion Hm as [c HI Ho Hg Ec | p0 b c HI Ho Hg Hf Ec | b c HI Ho Hg Hf Ec | c HI Ho Hx Ec
                   | q c HI Ho Hx Ec | c HI Ho Hx Ec | c HI Ho Hx Ec]; subst.
  - inversion Ho as [| i' c' Hp Ho' | p0 b c' Ho']; subst.
    + (* a plain instruction *)
      destruct Hcd as [Hc Hd].
      exists pr. split; [|split; [exact Hc|split; [exact Hd|]]].
      * apply mid_ok; auto. eapply exec_plain_inv; eauto using fgn_ne.
      * intros _. apply fgn_pend; [left; exact Ho' | exact Hg].
    + (* BRead *)
      exists pr. cx H.
      destruct (s_state st) eqn:Es; [| |destruct (s_retry st <=? s_now st)];
        cbv beta iota zeta in H; injection H as <- <- <-;
        (split; [apply mid_pt; auto; cbn [k_want k_adm]; intros; congruence
                |split; [reflexivity|split; [reflexivity|nopt]]]).
  - (* CPointIf FWant *)
    cx H. injection H as <- <- <-. exists pr.
    split; [apply mid_cas; [exact HI|exact Ho|exact Hg|exact Hf]|].
    split; [reflexivity|]. split; [reflexivity|].
    intros Hp. apply fgn_pend; [|exact Hg].
    right; left. exists b, c. split; [reflexivity|]. split; [exact Ho|].
    cbn [set_code k_want]. destruct (k_want t); [reflexivity | exfalso; apply Hp; reflexivity].
  - (* BCas *)
    cx H. destruct (k_want t) eqn:Ew.
    + destruct (bstate_eqb (s_state st) Open && (negb true || (s_retry st <=? s_now st))) eqn:E;
        injection H as <- <- <-.
      * apply andb_true_iff in E. destruct E as [E1 E2]. cbn [negb orb] in E2.
        apply bstate_eqb_eq in E1.
        assert (HI' : Inv (with_state st HalfOpen (s_retry st)
                             (ETrans who Open HalfOpen (s_now st) (s_retry st))) (Some who)).
        { apply Inv_state with (pr := pr); [exact HI|].
          rewrite E1. cbn [wstep bstate_eqb valid_tr andb]. rewrite E2. reflexivity. }
        exists (Some who). split; [|split; [reflexivity|split; [reflexivity|nopt]]].
        destruct b; cbn [btail app].
        -- apply mid_orc; [exact HI'|exact Ho|left; reflexivity].
        -- apply mid_done; [exact HI'|exact Ho|left; reflexivity].
      * exists pr. split; [|split; [reflexivity|split; [reflexivity|nopt]]].
        destruct b; cbn [btail app].
        -- apply mid_orc; [exact HI|exact Ho|right; exact Hg].
        -- apply mid_done; [exact HI|exact Ho|right; split; [exact Hg|]].
           cbn [k_adm]. intros; discriminate.
    + injection H as <- <- <-.
      exists pr. split; [|split; [reflexivity|split; [reflexivity|nopt]]].
      destruct b; cbn [btail app].
      * apply mid_orc; [exact HI|exact Ho|right; exact Hg].
      * apply mid_done; [exact HI|exact Ho|right; split; [exact Hg|]].
        cbn [set_code k_adm]. intros Ha. apply Hf; [first [exact Ew | reflexivity] | exact Ha].
  - (* BDone *)
    cx H. injection H as <- <- <-. destruct Hx as [-> | [Hg Hf]].
    + exists None. split; [|split; [reflexivity|split; [reflexivity|nopt]]].
      apply mid_ok; [|exact Ho|apply fgn_none].
      apply Inv_log with (pr := Some who); [exact HI|]. apply wstep_build_own.
    + exists pr. split; [|split; [reflexivity|split; [reflexivity|nopt]]].
      apply mid_ok; [|exact Ho|exact Hg].
      apply Inv_log with (pr := pr); [exact HI|].
      apply wstep_build_other; [apply fgn_ne; exact Hg | exact Hf].
  - (* the oracle point *)
    cx H. injection H as <- <- <-. exists pr.
    split; [apply mid_hook; [exact HI|exact Ho|exact Hx]|].
    split; [reflexivity|]. split; [reflexivity|].
    intros _. split.
    + right; right. exists c. split; [reflexivity | exact Ho].
    + intros w Hw. destruct Hx as [Hx | Hx].
      * left. rewrite Hx in Hw. injection Hw as <-. split; [reflexivity|]. exists c; reflexivity.
      * right. apply Hx. exact Hw.
  - (* BHook *)
    cx H. destruct (k_live t && bstate_eqb (s_state st) HalfOpen) eqn:E; injection H as <- <- <-;
      exists pr; (split; [|split; [reflexivity|split; [reflexivity|nopt]]]).
    + apply mid_blk; [|exact Ho|exact Hx].
      apply Inv_state with (pr := pr); [exact HI|].
      apply andb_true_iff in E. destruct E as [_ E]. apply bstate_eqb_eq in E. rewrite E. reflexivity.
    + apply mid_blk; [exact HI|exact Ho|exact Hx].
  - (* BDoneBlocked *)
    cx H. injection H as <- <- <-. destruct Hx as [-> | Hg].
    + exists None. split; [|split; [reflexivity|split; [reflexivity|nopt]]].
      apply mid_ok; [|exact Ho|apply fgn_none].
      apply Inv_log with (pr := Some who); [exact HI|]. apply wstep_build_own.
    + exists pr. split; [|split; [reflexivity|split; [reflexivity|nopt]]].
      apply mid_ok; [|exact Ho|exact Hg].
      apply Inv_log with (pr := pr); [exact HI|].
      apply wstep_build_other; [apply fgn_ne; exact Hg | discriminate].
Qed.

Lemma cseg_inv : forall code st t pr st' t' p,
  mid st t pr code -> cseg true who st t code = (st', t', p) ->
  exists pr', Inv st' pr' /\ tinv t' /\
              forall w, pr' = Some w -> (w = who /\ own t') \/ (w <> who /\ P w).
Proof.
  induction code as [|i tl IH]; intros st t pr st' t' p Hm H; cbn [cseg] in H.
  - injection H as <- <- _. apply mid_nil in Hm. destruct Hm as [HI Hg].
    exists pr. split; [exact HI|]. split; [left; cbn [set_code k_code]; constructor|].
    intros w Hw. right. apply Hg. exact Hw.
  - destruct (cexec true who st (set_code t tl false) i) as [[st1 t1] p1] eqn:E.
    destruct (step_mid _ _ _ _ _ _ _ _ Hm E) as (pr1 & M & Hc & Hd & Hp).
    destruct p1 as [q|].
    + injection H as <- <- _. destruct Hp as [Hk Hw]; [discriminate|].
      exists pr1. split; [eapply mid_Inv; exact M|].
      split; [unfold tinv; rewrite Hc; exact Hk|].
      intros w X. destruct (Hw w X) as [[Ew [c Ec]] | R]; [left | right; exact R].
      split; [exact Ew|]. split; [exact Hd|]. exists c. rewrite Hc. exact Ec.
    + eapply IH; eauto.
Qed.

Lemma run_code_inv : forall code st t pr st' t',
  mid st t pr code -> run_code true who st t code = (st', t') -> exists pr', Inv st' pr' /\ fgn pr'.
Proof.
  induction code as [|i tl IH]; intros st t pr st' t' Hm H; cbn [run_code] in H.
  - injection H as <- <-. exists pr. apply mid_nil in Hm. exact Hm.
  - destruct (cexec true who st (set_code t tl false) i) as [[st1 t1] p1] eqn:E.
    destruct (step_mid _ _ _ _ _ _ _ _ Hm E) as (pr1 & M & _).
    eapply IH; eauto.
Qed.

End Seg.

Lemma prelude_inv : forall ops st t, Inv st None -> Inv (prelude true st t ops) None.
Proof.
  assert (K : forall st t o st1 t1, Inv st None ->
            run_code true 0 st t (compile_op o) = (st1, t1) -> Inv st1 None).
  { intros st t o st1 t1 HI E.
    destruct (run_code_inv 0 (fun _ => False) _ _ _ _ _ _
                (mid_ok 0 (fun _ => False) st t None _ HI (okc_op o) (fgn_none _ _)) E)
      as (pr' & HI' & Hg).
    destruct pr' as [w|]; [destruct (Hg w eq_refl) as [_ []] | exact HI']. }
  induction ops as [|o ops IH]; intros st t HI; cbn [prelude]; auto.
  destruct o as [|err|dt].
  - destruct (run_code true 0 st t (compile_op (KB false))) as [st1 t1] eqn:E. apply IH.
    eapply K; eauto.
  - destruct (run_code true 0 st t (compile_op (KX err))) as [st1 t1] eqn:E. apply IH.
    eapply K; eauto.
  - apply IH. apply Inv_advance. exact HI.
Qed.

(** ** The scheduler *)

(** [w] is a thread parked at the oracle point *)
Definition Pth (ths : list cthr) (w : N) : Prop :=
  exists tid t, w = N.of_nat tid + 1 /\ nth_error ths tid = Some t /\ own t.

Definition G (st : cbs) (ths : list cthr) : Prop :=
  exists pr, Inv st pr /\ Forall tinv ths /\ forall w, pr = Some w -> Pth ths w.

Lemma Forall_upd {A} (Q : A -> Prop) : forall l i x, Forall Q l -> Q x -> Forall Q (upd l i x).
Proof.
  induction l as [|h l IH]; intros i x Hl Hx; destruct i; cbn [upd]; auto;
    inversion Hl; subst; constructor; auto.
Qed.

Lemma csched_step_G st ths tid st' ths' tr :
  G st ths -> csched_step true st ths tid = (st', ths', tr) -> G st' ths'.
Proof.
  intros (pr & HI & HF & HP) H. unfold csched_step in H.
  destruct (nth_error ths tid) as [t|] eqn:En; [|injection H as <- <- _; exists pr; auto].
  destruct (k_done t); [injection H as <- <- _; exists pr; auto|].
  destruct (cseg true (N.of_nat tid + 1) st t (k_code t)) as [[st1 t1] p1] eqn:E.
  injection H as <- <- _.
  assert (Ht : tinv t).
  { rewrite Forall_forall in HF. apply HF. eapply nth_error_In; eauto. }
  assert (Hm : mid (N.of_nat tid + 1) (Pth ths) st t pr (k_code t)).
  { destruct pr as [w|].
    - destruct (N.eq_dec w (N.of_nat tid + 1)) as [->|Hne].
      + destruct (HP _ eq_refl) as (tid' & t0 & Hw & Hn & Hd0 & c & Hcode).
        assert (tid' = tid) by lia. subst tid'. rewrite En in Hn. injection Hn as <-.
        unfold tinv in Ht. rewrite Hcode in Ht |- *.
        apply mid_hook; [exact HI | eapply parked_hook_okc; exact Ht | left; reflexivity].
      + apply tinv_mid; auto. intros w' X; injection X as <-.
        split; [exact Hne | apply HP; reflexivity].
    - apply tinv_mid; auto. apply fgn_none. }
  destruct (cseg_inv _ _ _ _ _ _ _ _ _ Hm E) as (pr' & HI1 & Ht1 & Hw).
  exists pr'. split; [exact HI1|]. split; [apply Forall_upd; auto|].
  intros w X. destruct (Hw w X) as [[-> Ho] | [Hne (tid' & t0 & Hw0 & Hn & Ho)]].
  - exists tid, t1. split; [reflexivity|]. split; [eapply nth_error_upd_same; exact En | exact Ho].
  - exists tid', t0. split; [exact Hw0|]. split; [|exact Ho].
    rewrite nth_error_upd_other; [exact Hn|]. intros Heq. subst tid'. apply Hne. exact Hw0.
Qed.

Lemma G_advance st ths dt : G st ths -> G (cadvance st dt) ths.
Proof.
  intros (pr & HI & HF & HP). exists pr. split; [apply Inv_advance; exact HI|]. split; assumption.
Qed.

Lemma crun_sched_G : forall steps st ths st' ths' tr,
  G st ths -> crun_sched true st ths steps = (st', ths', tr) -> G st' ths'.
Proof.
  induction steps as [|[tid dt] tl IH]; intros st ths st' ths' tr HG H; cbn [crun_sched] in H.
  - injection H as <- <- _. exact HG.
  - destruct (csched_step true (cadvance st dt) ths tid) as [[st1 ths1] tr1] eqn:E1.
    destruct (crun_sched true st1 ths1 tl) as [[st2 ths2] tr2] eqn:E2.
    injection H as <- <- _.
    eapply IH; [|exact E2]. eapply csched_step_G; [|exact E1].
    apply G_advance. exact HG.
Qed.

Lemma cround_G : forall tids st ths st' ths' tr,
  G st ths -> cround true st ths tids = (st', ths', tr) -> G st' ths'.
Proof.
  induction tids as [|tid tl IH]; intros st ths st' ths' tr HG H; cbn [cround] in H.
  - injection H as <- <- _. exact HG.
  - destruct (csched_step true st ths tid) as [[st1 ths1] tr1] eqn:E1.
    destruct (cround true st1 ths1 tl) as [[st2 ths2] tr2] eqn:E2.
    injection H as <- <- _.
    eapply IH; [|exact E2]. eapply csched_step_G; eauto.
Qed.

Lemma cfinish_G : forall fuel st ths st' ths' tr,
  G st ths -> cfinish true fuel st ths = (st', ths', tr) -> G st' ths'.
Proof.
  induction fuel as [|f IH]; intros st ths st' ths' tr HG H; cbn [cfinish] in H.
  - injection H as <- <- _. exact HG.
  - destruct (call_done ths); [injection H as <- <- _; exact HG|].
    destruct (cround true st ths (seq 0 (length ths))) as [[st1 ths1] tr1] eqn:E1.
    destruct (cfinish true f st1 ths1) as [[st2 ths2] tr2] eqn:E2.
    injection H as <- <- _.
    eapply IH; [|exact E2]. eapply cround_G; eauto.
Qed.

Lemma crun_case_G base pre progs steps st ths tr :
  crun_case true base r pre progs steps = (st, ths, tr) -> G st ths.
Proof.
  intros H. unfold crun_case in H.
  destruct (crun_sched true (prelude true (cbs0 base r) (cthr0 []) pre)
              (map (fun p => cthr0 (ccompile p)) progs) steps) as [[st1 ths1] tr1] eqn:E1.
  destruct (cfinish true (ccode_total ths1) st1 ths1) as [[st2 ths2] tr2] eqn:E2.
  injection H as <- <- _.
  assert (G0 : G (prelude true (cbs0 base r) (cthr0 []) pre) (map (fun p => cthr0 (ccompile p)) progs)).
  { exists None. split; [|split].
    - apply prelude_inv. split; reflexivity.
    - apply Forall_forall. intros t Ht. apply in_map_iff in Ht. destruct Ht as (p & <- & _).
      left. cbn [cthr0 k_code]. apply okc_ccompile.
    - intros w X; discriminate. }
  pose proof (crun_sched_G _ _ _ _ _ _ G0 E1) as G1.
  exact (cfinish_G _ _ _ _ _ _ G1 E2).
Qed.

(** when every thread is done nobody is parked at the oracle point: no probe is pending *)
Lemma G_done st ths : G st ths -> call_done ths = true -> Inv st None.
Proof.
  intros (pr & HI & _ & HP) Hd. destruct pr as [w|]; [|exact HI]. exfalso.
  destruct (HP w eq_refl) as (tid & t & _ & Hn & Hk & _).
  unfold call_done in Hd. rewrite forallb_forall in Hd.
  apply nth_error_In in Hn. rewrite (Hd _ Hn) in Hk. discriminate.
Qed.

End Invariant.

(* ------------------------------------------------------------------------------------------ *)
(** * Termination *)

Definition wgt (t : cthr) : nat := if k_done t then O else S (length (k_code t)).
Definition msr (ths : list cthr) : nat := fold_right (fun t acc => (wgt t + acc)%nat) O ths.

Lemma cseg_wgt recheck who : forall code st t st' t' p,
  cseg recheck who st t code = (st', t', p) ->
  k_done t' = true \/ (k_done t' = false /\ (length (k_code t') < length code)%nat).
Proof.
  induction code as [|i tl IH]; intros st t st' t' p H; cbn [cseg] in H.
  - injection H as _ <- _. left. reflexivity.
  - destruct (cexec recheck who st (set_code t tl false) i) as [[st1 t1] p1] eqn:E.
    apply exec_code in E. cbn [set_code k_code k_done] in E. destruct E as [Ec Ed].
    destruct p1 as [q|].
    + injection H as _ <- _. right. rewrite Ec, Ed. cbn [length]. split; [reflexivity | lia].
    + apply IH in H. destruct H as [H | [H1 H2]]; [left; exact H | right].
      split; [exact H1 | cbn [length]; lia].
Qed.

Lemma msr_upd : forall ths tid t t',
  nth_error ths tid = Some t -> (msr (upd ths tid t') + wgt t = msr ths + wgt t')%nat.
Proof.
  induction ths as [|h ths IH]; intros tid t t' H; destruct tid; cbn [nth_error] in H; try discriminate.
  - injection H as ->. cbn [upd msr fold_right]. lia.
  - cbn [upd msr fold_right]. specialize (IH _ _ t' H). unfold msr in IH. lia.
Qed.

Lemma csched_step_msr recheck st ths tid st' ths' tr :
  csched_step recheck st ths tid = (st', ths', tr) ->
  length ths' = length ths /\ (msr ths' <= msr ths)%nat /\
  (forall t, nth_error ths tid = Some t -> k_done t = false -> (msr ths' < msr ths)%nat) /\
  (forall j, j <> tid -> nth_error ths' j = nth_error ths j).
Proof.
  intros H. unfold csched_step in H.
  destruct (nth_error ths tid) as [t|] eqn:En.
  - destruct (k_done t) eqn:Ed.
    + injection H as _ <- _. repeat split; auto. intros t0 X; injection X as <-. congruence.
    + destruct (cseg recheck (N.of_nat tid + 1) st t (k_code t)) as [[st1 t1] p1] eqn:E.
      injection H as _ <- _.
      apply cseg_wgt in E.
      pose proof (msr_upd _ _ _ t1 En) as Hm.
      assert (Hw : (wgt t1 < wgt t)%nat).
      { unfold wgt. rewrite Ed. destruct E as [-> | [-> E]]; lia. }
      split; [apply length_upd|]. split; [lia|]. split.
      * intros; lia.
      * intros j Hj. apply nth_error_upd_other. congruence.
  - injection H as _ <- _. repeat split; auto. intros; discriminate.
Qed.

Lemma cround_msr recheck : forall tids st ths st' ths' tr,
  cround recheck st ths tids = (st', ths', tr) ->
  length ths' = length ths /\ (msr ths' <= msr ths)%nat /\
  (forall tid t, In tid tids -> nth_error ths tid = Some t -> k_done t = false ->
                 (msr ths' < msr ths)%nat).
Proof.
  induction tids as [|tid0 tl IH]; intros st ths st' ths' tr H; cbn [cround] in H.
  - injection H as _ <- _. repeat split; auto. intros tid t [].
  - destruct (csched_step recheck st ths tid0) as [[st1 ths1] tr1] eqn:E1.
    destruct (cround recheck st1 ths1 tl) as [[st2 ths2] tr2] eqn:E2.
    injection H as _ <- _.
    apply csched_step_msr in E1. destruct E1 as (L1 & M1 & S1 & O1).
    apply IH in E2. destruct E2 as (L2 & M2 & S2).
    split; [congruence|]. split; [lia|].
    intros tid t Hin Hn Hd.
    destruct (Nat.eq_dec tid tid0) as [->|Hne].
    + specialize (S1 _ Hn Hd). lia.
    + destruct Hin as [X|Hin]; [congruence|].
      rewrite <- (O1 _ Hne) in Hn. specialize (S2 _ _ Hin Hn Hd). lia.
Qed.

Lemma msr_zero : forall ths, msr ths = O -> call_done ths = true.
Proof.
  induction ths as [|h ths IH]; intros H; cbn [call_done forallb]; auto.
  cbn [msr fold_right] in H. fold (msr ths) in H.
  assert (H1 : wgt h = O) by lia. assert (H2 : msr ths = O) by lia.
  unfold wgt in H1. destruct (k_done h); [|discriminate]. cbn [andb]. apply IH. exact H2.
Qed.

Lemma not_done_ex : forall ths, call_done ths = false ->
  exists tid t, nth_error ths tid = Some t /\ k_done t = false /\ (tid < length ths)%nat.
Proof.
  induction ths as [|h ths IH]; intros H; cbn [call_done forallb] in H; try discriminate.
  destruct (k_done h) eqn:Ed.
  - cbn [andb] in H. destruct (IH H) as (tid & t & Hn & Hd & Hl).
    exists (S tid), t. cbn [nth_error length]. repeat split; auto. lia.
  - exists O, h. cbn [nth_error length]. repeat split; auto. lia.
Qed.

Lemma cfinish_done recheck : forall fuel st ths st' ths' tr,
  (msr ths <= fuel)%nat -> cfinish recheck fuel st ths = (st', ths', tr) -> call_done ths' = true.
Proof.
  induction fuel as [|f IH]; intros st ths st' ths' tr Hm H; cbn [cfinish] in H.
  - injection H as _ <- _. apply msr_zero. lia.
  - destruct (call_done ths) eqn:Ed; [injection H as _ <- _; exact Ed|].
    destruct (cround recheck st ths (seq 0 (length ths))) as [[st1 ths1] tr1] eqn:E1.
    destruct (cfinish recheck f st1 ths1) as [[st2 ths2] tr2] eqn:E2.
    injection H as _ <- _.
    apply cround_msr in E1. destruct E1 as (L1 & M1 & S1).
    destruct (not_done_ex _ Ed) as (tid & t & Hn & Hd & Hl).
    assert (Hin : In tid (seq 0 (length ths))) by (apply in_seq; lia).
    specialize (S1 _ _ Hin Hn Hd).
    eapply IH; [|exact E2]. lia.
Qed.

Lemma msr_le_total : forall ths, (msr ths <= ccode_total ths)%nat.
Proof.
  induction ths as [|h ths IH]; cbn [msr ccode_total fold_right]; auto.
  fold (msr ths). fold (ccode_total ths). unfold wgt. destruct (k_done h); lia.
Qed.

Theorem c16_all_finish : forall recheck base r pre progs steps st ths tr,
  crun_case recheck base r pre progs steps = (st, ths, tr) -> call_done ths = true.
Proof.
  intros recheck base r pre progs steps st ths tr H. unfold crun_case in H.
  destruct (crun_sched recheck (prelude recheck (cbs0 base r) (cthr0 []) pre)
              (map (fun p => cthr0 (ccompile p)) progs) steps) as [[st1 ths1] tr1] eqn:E1.
  destruct (cfinish recheck (ccode_total ths1) st1 ths1) as [[st2 ths2] tr2] eqn:E2.
  injection H as _ <- _.
  eapply cfinish_done; [|exact E2]. apply msr_le_total.
Qed.

(* ------------------------------------------------------------------------------------------ *)
(** * The two theorems on the log *)

Theorem c16_every_schedule : forall base r pre progs steps st ths tr,
  crun_case true base r pre progs steps = (st, ths, tr) ->
  ok_c16 r (s_log st) = true.
Proof.
  intros base r pre progs steps st ths tr H.
  pose proof (c16_all_finish _ _ _ _ _ _ _ _ _ H) as Hd.
  apply crun_case_G in H. destruct (G_done _ _ _ H Hd) as [_ HW].
  unfold ok_c16. eapply walk_ok. exact HW.
Qed.

Theorem c16_log_state : forall base r pre progs steps st ths tr,
  crun_case true base r pre progs steps = (st, ths, tr) ->
  log_state Closed (s_log st) = s_state st.
Proof.
  intros base r pre progs steps st ths tr H.
  apply crun_case_G in H. destruct H as (pr & [_ HW] & _).
  eapply walk_log_state. exact HW.
Qed.

(* ------------------------------------------------------------------------------------------ *)
(** * Without the re-check under the lock the property fails *)

Theorem c16_unchecked_refuted : exists base r pre progs steps,
  ok_c16 r (s_log (fst (fst (crun_case false base r pre progs steps)))) = false.
Proof.
  exists 1700000000000,
         (mkBR 1 ErrCount 1000 1 10000 1 0 (f64_of_bits 4607182418800017408)),
         [PB; PX true; PA 1000],
         [[KB false]; [KB false; KX true]],
         [(0%nat,0);(0%nat,0);(1%nat,0);(1%nat,0);(1%nat,0);(1%nat,0);(1%nat,0);(0%nat,0)].
  vm_compute. reflexivity.
Qed.
