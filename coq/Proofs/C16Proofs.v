(** C16 proofs: the log invariant of the concurrent circuit-breaker model, preserved by every
    segment of every thread; termination of the scheduler; the refutation without the re-check. *)
From SV Require Import Model.Base Model.F64 Model.LeapArray Model.Breaker Model.ConcCb Spec.C16Spec.
Open Scope N_scope.

(* ------------------------------------------------------------------------------------------ *)
(** * The log walk: [ok_log] as a left-to-right summary *)

Lemma bstate_eqb_eq a b : bstate_eqb a b = true <-> a = b.
Proof. destruct a, b; cbn; split; congruence. Qed.

Lemma bstate_eqb_refl a : bstate_eqb a a = true.
Proof. destruct a; reflexivity. Qed.

Definition wstep (rm : N) (sp : bstate * option N) (e : cev) : option (bstate * option N) :=
  match snd sp, e with
  | Some w, EBuild who adm => if (who =? w) && adm then Some (fst sp, None) else None
  | Some _, _ => None
  | None, ETrans who from to now retry =>
      if bstate_eqb from (fst sp) && valid_tr from to &&
         (match from, to with
          | Open, HalfOpen => retry <=? now
          | Closed, Open => retry =? now + rm
          | _, _ => true
          end)
      then Some (to, match from, to with Open, HalfOpen => Some who | _, _ => None end)
      else None
  | None, EBuild who adm =>
      if (if adm then bstate_eqb (fst sp) Closed else true) then Some (fst sp, None) else None
  | None, EExit _ _ _ => Some (fst sp, None)
  end.

Fixpoint walk (rm : N) (sp : bstate * option N) (log : list cev) : option (bstate * option N) :=
  match log with
  | [] => Some sp
  | e :: tl => match wstep rm sp e with Some sp' => walk rm sp' tl | None => None end
  end.

Lemma walk_app rm l : forall sp e,
  walk rm sp (l ++ [e]) = match walk rm sp l with Some sp' => wstep rm sp' e | None => None end.
Proof.
  induction l as [|a l IH]; intros sp e; cbn [walk app].
  - destruct (wstep rm sp e); reflexivity.
  - destruct (wstep rm sp a); auto.
Qed.

Lemma walk_ok rm log : forall s p s',
  walk rm (s, p) log = Some (s', None) -> ok_log rm s p log = true.
Proof.
  induction log as [|e tl IH]; intros s p s' H; cbn [walk] in H.
  - inversion H; subst; reflexivity.
  - destruct p as [w|]; destruct e as [who from to now retry | who adm | who err rt];
      cbn [wstep fst snd] in H; cbn [ok_log]; try discriminate.
    + destruct ((who =? w) && adm) eqn:E; try discriminate.
      cbn [andb]. eapply IH; exact H.
    + match type of H with (match (if ?c then _ else _) with _ => _ end) = _ => destruct c eqn:E end;
        try discriminate.
      cbn [andb]. eapply IH; exact H.
    + match type of H with (match (if ?c then _ else _) with _ => _ end) = _ => destruct c eqn:E end;
        try discriminate.
      cbn [andb]. eapply IH; exact H.
    + eapply IH; exact H.
Qed.

Lemma walk_log_state rm log : forall s p s' p',
  walk rm (s, p) log = Some (s', p') -> log_state s log = s'.
Proof.
  induction log as [|e tl IH]; intros s p s' p' H; cbn [walk] in H.
  - inversion H; subst; reflexivity.
  - destruct p as [w|]; destruct e as [who from to now retry | who adm | who err rt];
      cbn [wstep fst snd] in H; cbn [log_state]; try discriminate.
    + destruct ((who =? w) && adm); try discriminate. eapply IH; exact H.
    + match type of H with (match (if ?c then _ else _) with _ => _ end) = _ => destruct c end;
        try discriminate.
      eapply IH; exact H.
    + match type of H with (match (if ?c then _ else _) with _ => _ end) = _ => destruct c end;
        try discriminate.
      eapply IH; exact H.
    + eapply IH; exact H.
Qed.

(* ------------------------------------------------------------------------------------------ *)
(** * Code shapes *)

Definition plain (i : cinstr) : bool :=
  match i with BRead | BCas | BDone => false | _ => true end.

Inductive okc : list cinstr -> Prop :=
| okc_nil : okc []
| okc_plain i c : plain i = true -> okc c -> okc (i :: c)
| okc_read p c : okc c -> okc (BRead :: CPointIf FWant p :: BCas :: BDone :: c).

Lemma okc_compile o c : okc c -> okc (compile_op o ++ c).
Proof.
  intros H; destruct o; cbn [compile_op app];
    repeat (first [apply okc_read | apply okc_plain; [reflexivity|]]); assumption.
Qed.

Lemma okc_op o : okc (compile_op o).
Proof. rewrite <- (app_nil_r (compile_op o)). apply okc_compile. constructor. Qed.

Lemma okc_ccompile ops : okc (ccompile ops).
Proof.
  induction ops as [|o ops IH]; cbn [ccompile flat_map].
  - constructor.
  - apply okc_compile. exact IH.
Qed.

Ltac cx H :=
  unfold cexec in H;
  cbn [set_code get_flag k_code k_done k_want k_hobad k_hook k_trip k_c2o k_ho2 k_live k_adm k_bad
       k_rt k_starts] in H.

(** every instruction keeps the code and done fields of the thread record *)
Lemma exec_code recheck who st t i st' t' p :
  cexec recheck who st t i = (st', t', p) -> k_code t' = k_code t /\ k_done t' = k_done t.
Proof.
  intros H. destruct i; unfold cexec in H;
    repeat match type of H with
           | context [match ?x with _ => _ end] => destruct x
           end;
    inversion H; subst; split; reflexivity.
Qed.

(* ------------------------------------------------------------------------------------------ *)
(** * The invariant *)

Section Invariant.
Variable r : brule.

Definition Inv (st : cbs) (pr : option N) : Prop :=
  s_rule st = r /\ walk (br_retry_ms r) (Closed, None) (s_log st) = Some (s_state st, pr).

Lemma Inv_state st pr b retry e pr' :
  Inv st pr -> wstep (br_retry_ms r) (s_state st, pr) e = Some (b, pr') ->
  Inv (with_state st b retry e) pr'.
Proof.
  intros [H0 H1] H2. split; cbn [with_state s_rule s_log s_state]; auto.
  rewrite walk_app, H1. exact H2.
Qed.

Lemma Inv_log st pr e pr' :
  Inv st pr -> wstep (br_retry_ms r) (s_state st, pr) e = Some (s_state st, pr') ->
  Inv (with_log st e) pr'.
Proof.
  intros [H0 H1] H2. split; cbn [with_log s_rule s_log s_state]; auto.
  rewrite walk_app, H1. exact H2.
Qed.

Lemma Inv_ring st pr rg : Inv st pr -> Inv (with_ring st rg) pr.
Proof. intros H; exact H. Qed.

Lemma Inv_advance st pr dt : Inv st pr -> Inv (cadvance st dt) pr.
Proof. intros H; exact H. Qed.

Lemma exec_plain_inv who st t i st' t' p :
  plain i = true -> Inv st None -> cexec true who st t i = (st', t', p) -> Inv st' None.
Proof.
  intros Hp HI H. destruct i; try discriminate Hp; cx H.
  - (* BStart *) injection H as <- _ _. exact HI.
  - (* XBegin *)
    destruct (k_starts t); [injection H as <- _ _; exact HI|].
    destruct (write _ _ _ _); injection H as <- _ _; try exact HI.
  - (* XRead1 *) destruct (k_live t); injection H as <- _ _; exact HI.
  - (* XCasH2O *)
    destruct (get_flag t f); [destruct (bstate_eqb (s_state st) HalfOpen) eqn:E|];
      injection H as <- _ _; try exact HI.
    apply Inv_state with (pr := None); auto.
    apply bstate_eqb_eq in E. rewrite E. reflexivity.
  - (* XCasH2C *)
    destruct (k_hook t); [|injection H as <- _ _; exact HI].
    destruct (bstate_eqb (s_state st) HalfOpen) eqn:E; injection H as <- _ _; apply Inv_ring; auto.
    apply Inv_state with (pr := None); auto.
    apply bstate_eqb_eq in E. rewrite E. reflexivity.
  - (* XRead2 *) destruct (k_trip t); injection H as <- _ _; exact HI.
  - (* XCasC2O *)
    destruct (k_c2o t); [destruct (bstate_eqb (s_state st) Closed) eqn:E|];
      injection H as <- _ _; try exact HI.
    apply Inv_state with (pr := None); auto.
    apply bstate_eqb_eq in E. rewrite E. destruct HI as [Hr _]. rewrite Hr.
    cbn [wstep fst snd bstate_eqb valid_tr andb]. rewrite N.eqb_refl. reflexivity.
  - (* XDone *)
    destruct (k_adm t); injection H as <- _ _; try exact HI.
    apply Inv_log with (pr := None); auto.
  - (* CPoint *) injection H as <- _ _. exact HI.
  - (* CPointIf *) injection H as <- _ _. exact HI.
Qed.

(** what may be left to run inside a segment, with the facts the remaining code relies on *)
Inductive mid (who : N) (st : cbs) (t : cthr) : list cinstr -> Prop :=
| mid_ok c : Inv st None -> okc c -> mid who st t c
| mid_pt p c : Inv st None -> okc c ->
    (k_want t = false -> k_adm t = true -> s_state st = Closed) ->
    mid who st t (CPointIf FWant p :: BCas :: BDone :: c)
| mid_cas c : Inv st None -> okc c ->
    (k_want t = false -> k_adm t = true -> s_state st = Closed) ->
    mid who st t (BCas :: BDone :: c)
| mid_done c pr : Inv st pr -> okc c ->
    (pr = None -> k_adm t = true -> s_state st = Closed) ->
    (forall w, pr = Some w -> w = who /\ k_adm t = true) ->
    mid who st t (BDone :: c).

Definition parked (t : cthr) (code : list cinstr) : Prop :=
  okc code \/ exists c, code = BCas :: BDone :: c /\ okc c /\ k_want t = true.

Definition tinv (t : cthr) : Prop := parked t (k_code t).

Lemma tinv_mid who st t : tinv t -> Inv st None -> mid who st t (k_code t).
Proof.
  intros [H | (c & Hc & Ho & Hw)] HI.
  - apply mid_ok; assumption.
  - rewrite Hc. apply mid_cas; auto. intros X; congruence.
Qed.

Lemma step_mid who st t i tl st' t' p :
  mid who st t (i :: tl) ->
  cexec true who st (set_code t tl false) i = (st', t', p) ->
  mid who st' t' tl /\ k_code t' = tl /\
  (p <> None -> Inv st' None /\ parked t' tl).
Proof.
  intros Hm H.
  assert (Hc : k_code t' = tl).
  { apply exec_code in H. destruct H as [H _]. exact H. }
  split; [|split; [exact Hc|]].
  - (* the remaining code is fine *)
    inversion Hm as [c HI Ho Ec | p0 c HI Ho Hf Ec | c HI Ho Hf Ec | c pr HI Ho Hf Hg Ec]; subst.
    + inversion Ho as [| i' c' Hp Ho' | p0 c' Ho']; subst.
      * apply mid_ok; auto. eapply exec_plain_inv; eauto.
      * (* BRead *)
        cx H. destruct (s_state st) eqn:Es; [| |destruct (s_retry st <=? s_now st)];
          cbv beta iota zeta in H; injection H as <- <- _; apply mid_pt; auto;
          cbn [k_want k_adm]; intros; congruence.
    + (* CPointIf FWant *)
      cx H. injection H as <- <- _. apply mid_cas; auto.
    + (* BCas *)
      cx H. destruct (k_want t) eqn:Ew.
      * destruct (bstate_eqb (s_state st) Open && (negb true || (s_retry st <=? s_now st))) eqn:E;
          injection H as <- <- _.
        -- apply andb_true_iff in E. destruct E as [E1 E2]. cbn [negb orb] in E2.
           apply bstate_eqb_eq in E1.
           apply mid_done with (pr := Some who); [ | exact Ho | | ].
           ++ apply Inv_state with (pr := None); [exact HI|].
              rewrite E1. cbn [wstep fst snd bstate_eqb valid_tr andb]. rewrite E2. reflexivity.
           ++ intros; discriminate.
           ++ intros w X; injection X as <-. split; reflexivity.
        -- apply mid_done with (pr := None); [exact HI | exact Ho | | ].
           ++ cbn [k_adm]. intros; discriminate.
           ++ intros; discriminate.
      * injection H as <- <- _. apply mid_done with (pr := None); [exact HI | exact Ho | | ].
        -- cbn [set_code k_adm]. intros _. apply Hf. reflexivity.
        -- intros; discriminate.
    + (* BDone *)
      cx H. injection H as <- _ _. apply mid_ok; auto.
      destruct pr as [w|].
      * destruct (Hg w eq_refl) as [-> Ha]. rewrite Ha.
        apply Inv_log with (pr := Some who); auto.
        cbn [wstep fst snd]. rewrite N.eqb_refl. reflexivity.
      * apply Inv_log with (pr := None); auto.
        destruct (k_adm t) eqn:Ea; [|reflexivity].
        rewrite (Hf eq_refl eq_refl). reflexivity.
  - (* a point fired *)
    intros Hp.
    inversion Hm as [c HI Ho Ec | p0 c HI Ho Hf Ec | c HI Ho Hf Ec | c pr HI Ho Hf Hg Ec]; subst.
    + inversion Ho as [| i' c' Hpl Ho' | p0 c' Ho']; subst.
      * split; [eapply exec_plain_inv; eauto | left; exact Ho'].
      * exfalso. cx H. destruct (s_state st); [| |destruct (s_retry st <=? s_now st)];
          cbv beta iota zeta in H; injection H as _ _ <-; apply Hp; reflexivity.
    + cx H. injection H as <- <- <-. split; [exact HI|].
      right. exists c. split; [reflexivity|]. split; [exact Ho|].
      cbn [set_code k_want]. destruct (k_want t); [reflexivity | exfalso; apply Hp; reflexivity].
    + exfalso. cx H. destruct (k_want t);
        [destruct (bstate_eqb (s_state st) Open && (negb true || (s_retry st <=? s_now st)))|];
        injection H as _ _ <-; apply Hp; reflexivity.
    + exfalso. cx H. injection H as _ _ <-. apply Hp; reflexivity.
Qed.

Lemma cseg_inv who : forall code st t st' t' p,
  mid who st t code -> cseg true who st t code = (st', t', p) -> Inv st' None /\ tinv t'.
Proof.
  induction code as [|i tl IH]; intros st t st' t' p Hm H; cbn [cseg] in H.
  - injection H as <- <- _.
    inversion Hm; subst. split; [assumption|]. left. cbn [set_code k_code]. constructor.
  - destruct (cexec true who st (set_code t tl false) i) as [[st1 t1] p1] eqn:E.
    destruct (step_mid _ _ _ _ _ _ _ _ Hm E) as (M & Hc & Hp).
    destruct p1 as [q|].
    + injection H as <- <- _. destruct Hp as [HI Hk]; [discriminate|].
      split; [exact HI|]. unfold tinv. rewrite Hc. exact Hk.
    + eapply IH; eauto.
Qed.

Lemma run_code_inv who : forall code st t st' t',
  mid who st t code -> run_code true who st t code = (st', t') -> Inv st' None.
Proof.
  induction code as [|i tl IH]; intros st t st' t' Hm H; cbn [run_code] in H.
  - injection H as <- <-. inversion Hm; subst. assumption.
  - destruct (cexec true who st (set_code t tl false) i) as [[st1 t1] p1] eqn:E.
    destruct (step_mid _ _ _ _ _ _ _ _ Hm E) as (M & Hc & Hp).
    eapply IH; eauto.
Qed.

Lemma prelude_inv : forall ops st t, Inv st None -> Inv (prelude true st t ops) None.
Proof.
  induction ops as [|o ops IH]; intros st t HI; cbn [prelude]; auto.
  destruct o as [|err|dt].
  - destruct (run_code true 0 st t (compile_op KB)) as [st1 t1] eqn:E. apply IH.
    eapply run_code_inv; [|exact E]. apply mid_ok; [exact HI | apply okc_op].
  - destruct (run_code true 0 st t (compile_op (KX err))) as [st1 t1] eqn:E. apply IH.
    eapply run_code_inv; [|exact E]. apply mid_ok; [exact HI | apply okc_op].
  - apply IH. apply Inv_advance. exact HI.
Qed.

(** ** The scheduler *)

Definition G (st : cbs) (ths : list cthr) : Prop := Inv st None /\ Forall tinv ths.

Lemma Forall_upd {A} (P : A -> Prop) : forall l i x, Forall P l -> P x -> Forall P (upd l i x).
Proof.
  induction l as [|h l IH]; intros i x Hl Hx; destruct i; cbn [upd]; auto;
    inversion Hl; subst; constructor; auto.
Qed.

Lemma csched_step_G st ths tid st' ths' tr :
  G st ths -> csched_step true st ths tid = (st', ths', tr) -> G st' ths'.
Proof.
  intros [HI HF] H. unfold csched_step in H.
  destruct (nth_error ths tid) as [t|] eqn:En; [|injection H as <- <- _; split; auto].
  destruct (k_done t); [injection H as <- <- _; split; auto|].
  destruct (cseg true (N.of_nat tid + 1) st t (k_code t)) as [[st1 t1] p1] eqn:E.
  injection H as <- <- _.
  assert (Ht : tinv t).
  { rewrite Forall_forall in HF. apply HF. eapply nth_error_In; eauto. }
  apply cseg_inv in E; [|apply tinv_mid; auto].
  destruct E as [HI1 Ht1]. split; [exact HI1|]. apply Forall_upd; auto.
Qed.

Lemma crun_sched_G : forall steps st ths st' ths' tr,
  G st ths -> crun_sched true st ths steps = (st', ths', tr) -> G st' ths'.
Proof.
  induction steps as [|[tid dt] tl IH]; intros st ths st' ths' tr HG H; cbn [crun_sched] in H.
  - injection H as <- <- _. exact HG.
  - destruct (csched_step true (cadvance st dt) ths tid) as [[st1 ths1] tr1] eqn:E1.
    destruct (crun_sched true st1 ths1 tl) as [[st2 ths2] tr2] eqn:E2.
    injection H as <- <- _.
    eapply IH; [|exact E2]. eapply csched_step_G; [|exact E1].
    destruct HG as [HI HF]. split; [apply Inv_advance; exact HI | exact HF].
Qed.

Lemma cround_G : forall tids st ths st' ths' tr,
  G st ths -> cround true st ths tids = (st', ths', tr) -> G st' ths'.
Proof.
  induction tids as [|tid tl IH]; intros st ths st' ths' tr HG H; cbn [cround] in H.
  - injection H as <- <- _. exact HG.
  - destruct (csched_step true st ths tid) as [[st1 ths1] tr1] eqn:E1.
    destruct (cround true st1 ths1 tl) as [[st2 ths2] tr2] eqn:E2.
    injection H as <- <- _.
    eapply IH; [|exact E2]. eapply csched_step_G; eauto.
Qed.

Lemma cfinish_G : forall fuel st ths st' ths' tr,
  G st ths -> cfinish true fuel st ths = (st', ths', tr) -> G st' ths'.
Proof.
  induction fuel as [|f IH]; intros st ths st' ths' tr HG H; cbn [cfinish] in H.
  - injection H as <- <- _. exact HG.
  - destruct (call_done ths); [injection H as <- <- _; exact HG|].
    destruct (cround true st ths (seq 0 (length ths))) as [[st1 ths1] tr1] eqn:E1.
    destruct (cfinish true f st1 ths1) as [[st2 ths2] tr2] eqn:E2.
    injection H as <- <- _.
    eapply IH; [|exact E2]. eapply cround_G; eauto.
Qed.

Lemma crun_case_inv base pre progs steps st ths tr :
  crun_case true base r pre progs steps = (st, ths, tr) -> Inv st None.
Proof.
  intros H. unfold crun_case in H.
  destruct (crun_sched true (prelude true (cbs0 base r) (cthr0 []) pre)
              (map (fun p => cthr0 (ccompile p)) progs) steps) as [[st1 ths1] tr1] eqn:E1.
  destruct (cfinish true (ccode_total ths1) st1 ths1) as [[st2 ths2] tr2] eqn:E2.
  injection H as <- _ _.
  assert (G0 : G (prelude true (cbs0 base r) (cthr0 []) pre) (map (fun p => cthr0 (ccompile p)) progs)).
  { split.
    - apply prelude_inv. split; reflexivity.
    - apply Forall_forall. intros t Ht. apply in_map_iff in Ht. destruct Ht as (p & <- & _).
      left. cbn [cthr0 k_code]. apply okc_ccompile. }
  pose proof (crun_sched_G _ _ _ _ _ _ G0 E1) as G1.
  pose proof (cfinish_G _ _ _ _ _ _ G1 E2) as [HI _]. exact HI.
Qed.

End Invariant.

Theorem c16_every_schedule : forall base r pre progs steps st ths tr,
  crun_case true base r pre progs steps = (st, ths, tr) ->
  ok_c16 r (s_log st) = true.
Proof.
  intros base r pre progs steps st ths tr H.
  apply crun_case_inv in H. destruct H as [_ H].
  unfold ok_c16. eapply walk_ok. exact H.
Qed.

Theorem c16_log_state : forall base r pre progs steps st ths tr,
  crun_case true base r pre progs steps = (st, ths, tr) ->
  log_state Closed (s_log st) = s_state st.
Proof.
  intros base r pre progs steps st ths tr H.
  apply crun_case_inv in H. destruct H as [_ H].
  eapply walk_log_state. exact H.
Qed.

(* ------------------------------------------------------------------------------------------ *)
(** * Termination *)

Definition wgt (t : cthr) : nat := if k_done t then O else S (length (k_code t)).
Definition msr (ths : list cthr) : nat := fold_right (fun t acc => (wgt t + acc)%nat) O ths.

Lemma cseg_wgt recheck who : forall code st t st' t' p,
  cseg recheck who st t code = (st', t', p) ->
  k_done t' = true \/ (k_done t' = false /\ (length (k_code t') < length code)%nat).
Proof.
  induction code as [|i tl IH]; intros st t st' t' p H; cbn [cseg] in H.
  - injection H as _ <- _. left. reflexivity.
  - destruct (cexec recheck who st (set_code t tl false) i) as [[st1 t1] p1] eqn:E.
    apply exec_code in E. cbn [set_code k_code k_done] in E. destruct E as [Ec Ed].
    destruct p1 as [q|].
    + injection H as _ <- _. right. rewrite Ec, Ed. cbn [length]. split; [reflexivity | lia].
    + apply IH in H. destruct H as [H | [H1 H2]]; [left; exact H | right].
      split; [exact H1 | cbn [length]; lia].
Qed.

Lemma msr_upd : forall ths tid t t',
  nth_error ths tid = Some t -> (msr (upd ths tid t') + wgt t = msr ths + wgt t')%nat.
Proof.
  induction ths as [|h ths IH]; intros tid t t' H; destruct tid; cbn [nth_error] in H; try discriminate.
  - injection H as ->. cbn [upd msr fold_right]. lia.
  - cbn [upd msr fold_right]. specialize (IH _ _ t' H). unfold msr in IH. lia.
Qed.

Lemma csched_step_msr recheck st ths tid st' ths' tr :
  csched_step recheck st ths tid = (st', ths', tr) ->
  length ths' = length ths /\ (msr ths' <= msr ths)%nat /\
  (forall t, nth_error ths tid = Some t -> k_done t = false -> (msr ths' < msr ths)%nat) /\
  (forall j, j <> tid -> nth_error ths' j = nth_error ths j).
Proof.
  intros H. unfold csched_step in H.
  destruct (nth_error ths tid) as [t|] eqn:En.
  - destruct (k_done t) eqn:Ed.
    + injection H as _ <- _. repeat split; auto. intros t0 X; injection X as <-. congruence.
    + destruct (cseg recheck (N.of_nat tid + 1) st t (k_code t)) as [[st1 t1] p1] eqn:E.
      injection H as _ <- _.
      apply cseg_wgt in E.
      pose proof (msr_upd _ _ _ t1 En) as Hm.
      assert (Hw : (wgt t1 < wgt t)%nat).
      { unfold wgt. rewrite Ed. destruct E as [-> | [-> E]]; lia. }
      split; [apply length_upd|]. split; [lia|]. split.
      * intros; lia.
      * intros j Hj. apply nth_error_upd_other. congruence.
  - injection H as _ <- _. repeat split; auto. intros; discriminate.
Qed.

Lemma cround_msr recheck : forall tids st ths st' ths' tr,
  cround recheck st ths tids = (st', ths', tr) ->
  length ths' = length ths /\ (msr ths' <= msr ths)%nat /\
  (forall tid t, In tid tids -> nth_error ths tid = Some t -> k_done t = false ->
                 (msr ths' < msr ths)%nat).
Proof.
  induction tids as [|tid0 tl IH]; intros st ths st' ths' tr H; cbn [cround] in H.
  - injection H as _ <- _. repeat split; auto. intros tid t [].
  - destruct (csched_step recheck st ths tid0) as [[st1 ths1] tr1] eqn:E1.
    destruct (cround recheck st1 ths1 tl) as [[st2 ths2] tr2] eqn:E2.
    injection H as _ <- _.
    apply csched_step_msr in E1. destruct E1 as (L1 & M1 & S1 & O1).
    apply IH in E2. destruct E2 as (L2 & M2 & S2).
    split; [congruence|]. split; [lia|].
    intros tid t Hin Hn Hd.
    destruct (Nat.eq_dec tid tid0) as [->|Hne].
    + specialize (S1 _ Hn Hd). lia.
    + destruct Hin as [X|Hin]; [congruence|].
      rewrite <- (O1 _ Hne) in Hn. specialize (S2 _ _ Hin Hn Hd). lia.
Qed.

Lemma msr_zero : forall ths, msr ths = O -> call_done ths = true.
Proof.
  induction ths as [|h ths IH]; intros H; cbn [call_done forallb]; auto.
  cbn [msr fold_right] in H. fold (msr ths) in H.
  assert (H1 : wgt h = O) by lia. assert (H2 : msr ths = O) by lia.
  unfold wgt in H1. destruct (k_done h); [|discriminate]. cbn [andb]. apply IH. exact H2.
Qed.

Lemma not_done_ex : forall ths, call_done ths = false ->
  exists tid t, nth_error ths tid = Some t /\ k_done t = false /\ (tid < length ths)%nat.
Proof.
  induction ths as [|h ths IH]; intros H; cbn [call_done forallb] in H; try discriminate.
  destruct (k_done h) eqn:Ed.
  - cbn [andb] in H. destruct (IH H) as (tid & t & Hn & Hd & Hl).
    exists (S tid), t. cbn [nth_error length]. repeat split; auto. lia.
  - exists O, h. cbn [nth_error length]. repeat split; auto. lia.
Qed.

Lemma cfinish_done recheck : forall fuel st ths st' ths' tr,
  (msr ths <= fuel)%nat -> cfinish recheck fuel st ths = (st', ths', tr) -> call_done ths' = true.
Proof.
  induction fuel as [|f IH]; intros st ths st' ths' tr Hm H; cbn [cfinish] in H.
  - injection H as _ <- _. apply msr_zero. lia.
  - destruct (call_done ths) eqn:Ed; [injection H as _ <- _; exact Ed|].
    destruct (cround recheck st ths (seq 0 (length ths))) as [[st1 ths1] tr1] eqn:E1.
    destruct (cfinish recheck f st1 ths1) as [[st2 ths2] tr2] eqn:E2.
    injection H as _ <- _.
    apply cround_msr in E1. destruct E1 as (L1 & M1 & S1).
    destruct (not_done_ex _ Ed) as (tid & t & Hn & Hd & Hl).
    assert (Hin : In tid (seq 0 (length ths))) by (apply in_seq; lia).
    specialize (S1 _ _ Hin Hn Hd).
    eapply IH; [|exact E2]. lia.
Qed.

Lemma msr_le_total : forall ths, (msr ths <= ccode_total ths)%nat.
Proof.
  induction ths as [|h ths IH]; cbn [msr ccode_total fold_right]; auto.
  fold (msr ths). fold (ccode_total ths). unfold wgt. destruct (k_done h); lia.
Qed.

Theorem c16_all_finish : forall recheck base r pre progs steps st ths tr,
  crun_case recheck base r pre progs steps = (st, ths, tr) -> call_done ths = true.
Proof.
  intros recheck base r pre progs steps st ths tr H. unfold crun_case in H.
  destruct (crun_sched recheck (prelude recheck (cbs0 base r) (cthr0 []) pre)
              (map (fun p => cthr0 (ccompile p)) progs) steps) as [[st1 ths1] tr1] eqn:E1.
  destruct (cfinish recheck (ccode_total ths1) st1 ths1) as [[st2 ths2] tr2] eqn:E2.
  injection H as _ <- _.
  eapply cfinish_done; [|exact E2]. apply msr_le_total.
Qed.

(* ------------------------------------------------------------------------------------------ *)
(** * Without the re-check under the lock the property fails *)

Theorem c16_unchecked_refuted : exists base r pre progs steps,
  ok_c16 r (s_log (fst (fst (crun_case false base r pre progs steps)))) = false.
Proof.
  exists 1700000000000,
         (mkBR 1 ErrCount 1000 1 10000 1 0 (f64_of_bits 4607182418800017408)),
         [PB; PX true; PA 1000],
         [[KB]; [KB; KX true]],
         [(0%nat,0);(0%nat,0);(1%nat,0);(1%nat,0);(1%nat,0);(1%nat,0);(1%nat,0);(0%nat,0)].
  vm_compute. reflexivity.
Qed.
