From SV Require Import Model.Base Model.LeapArray Model.World Spec.WorldSpec Spec.C01Spec
  Proofs.WorldProofs Proofs.C05Proofs.
From Coq Require Import ZifyBool ZifyN.
Open Scope N_scope.

(** controllers that differ only in the content of their private ring *)
Definition same_static (f f' : fctl) : Prop :=
  f_rule f = f_rule f' /\ f_thr f = f_thr f' /\
  match f_stat f, f_stat f' with
  | SDefault, SDefault | SBroken, SBroken => True
  | SReuse w, SReuse w' => w = w'
  | SPrivate g w _, SPrivate g' w' _ => g = g' /\ w = w'
  | _, _ => False
  end.

Lemma same_static_refl f : same_static f f.
Proof. unfold same_static. destruct (f_stat f); auto. Qed.

Lemma same_static_sum c f f' now h : same_static f f' -> spec_ctl_sum c f now h = spec_ctl_sum c f' now h.
Proof.
  unfold same_static, spec_ctl_sum. intros (_ & _ & H).
  destruct (f_stat f), (f_stat f'); try contradiction; auto.
  - subst; auto.
  - destruct H; subst; auto.
Qed.

Lemma same_static_record f f' now n : same_static f f' -> same_static (ctl_record f now n) f'.
Proof.
  unfold same_static, ctl_record. intros (H1 & H2 & H3).
  destruct (f_stat f) as [|w|g w slots|] eqn:E; rewrite ?E; auto.
  destruct (write g slots now (WAdd Pass n)); cbn; rewrite ?E; auto.
Qed.

Definition statics (fs fs' : list fctl) : Prop := Forall2 same_static fs fs'.

Lemma statics_refl fs : statics fs fs.
Proof. induction fs; constructor; auto. apply same_static_refl. Qed.

Lemma statics_record fs fs' now n : statics fs fs' -> statics (map (fun f => ctl_record f now n) fs) fs'.
Proof. induction 1; simpl; constructor; auto. apply same_static_record; auto. Qed.

(** the model's flow verdict in terms of the static rule list *)
Lemma spec_flow_slot_statics c fs fs' now n h :
  statics fs fs' -> spec_flow_slot c fs now n h = spec_flow_slot c fs' now n h.
Proof.
  induction 1 as [|f f' tl tl' Hf Htl IH]; simpl; auto.
  rewrite (same_static_sum c f f' now h Hf), IH.
  destruct Hf as (-> & -> & _). reflexivity.
Qed.

Lemma spec_flow_slot_spec c fs now n h :
  match spec_flow_slot c fs now n h with
  | SPass => forallb (fits c now n h) fs = true
  | SBlock bt r sn =>
      forallb (fits c now n h) fs = false /\ bt = 1 /\
      existsb (fun f => (f_rule f =? r) && negb (fits c now n h f) && (sn =? spec_ctl_sum c f now h)) fs = true
  | SPanic => False
  end.
Proof.
  induction fs as [|f tl IH]; simpl; auto. unfold fits at 1 3.
  destruct (gt_thr (spec_ctl_sum c f now h + n) (f_thr f)) eqn:E; simpl.
  - rewrite !N.eqb_refl. simpl. unfold fits. rewrite E. simpl. auto.
  - destruct (spec_flow_slot c tl now n h); auto.
    destruct IH as (H1 & H2 & H3). rewrite H3, orb_true_r. auto.
Qed.

Lemma c01_step c rules w gh x :
  geom_ok (w_cfg w) -> iv (c_total (w_cfg w)) <= w_now w -> world_rel w gh ->
  (w_cfg w = c /\ (forall res, statics (w_flow w res) (rules res)) /\ (forall res, w_iso w res = [])) ->
  no_extra x = true ->
  forall w' o, exec w x = (w', o) ->
    chk_c01 c rules gh x o = true /\
    (w_cfg w' = c /\ (forall res, statics (w_flow w' res) (rules res)) /\ (forall res, w_iso w' res = [])).
Proof.
  intros Hg Hiv Hrel (Hc & Hst & Hiso) Hne w' o Ex.
  pose proof (exec_rel w gh x Hg Hiv Hrel) as H. rewrite Ex in H.
  destruct H as (Hc' & _ & gh' & _ & _ & Hx).
  assert (Hnow : w_now w = g_now gh) by (destruct Hrel; auto).
  destruct x as [id res n inb extra|id|dt|res|]; cbn [chk_c01]; cbv zeta.
  - destruct extra; [discriminate|]. rewrite (Hiso res) in Hx. cbn [iso_slot later] in Hx.
    rewrite (spec_flow_slot_statics _ _ _ _ _ _ (Hst res)) in Hx.
    destruct Hx as (Ho & Hf1 & Hf2 & Hi).
    pose proof (spec_flow_slot_spec (w_cfg w) (rules res) (w_now w) n (g_hist gh res)) as Hs.
    rewrite Hc, Hnow in *.
    split.
    + destruct (spec_flow_slot c (rules res) (g_now gh) n (g_hist gh res)) as [|bt r sn|]; subst o; cbn [later].
      * exact Hs.
      * destruct Hs as (H1 & -> & H3). rewrite H1, H3. reflexivity.
      * contradiction.
    + split; [congruence|]. split.
      * intros res'. destruct (N.eq_dec res' res) as [->|Hn].
        -- rewrite Hf1. destruct (spec_flow_slot _ _ _ _ _); cbn [later]; auto. apply statics_record; auto.
        -- rewrite Hf2; auto.
      * intros res'. rewrite Hi. auto.
  - destruct Hx as [Hf Hi]. split; auto. rewrite Hf, Hi. split; [congruence|auto].
  - destruct Hx as [Hf Hi]. split; auto. rewrite Hf, Hi. split; [congruence|auto].
  - cbn [exec] in Ex. inversion Ex; subst. auto.
  - cbn [exec] in Ex. inversion Ex; subst. auto.
Qed.

Theorem c01_admit_iff_fits c base rules ops :
  geom_ok c -> iv (c_total c) <= base -> flow_ok c base rules -> forallb no_extra ops = true ->
  ok_c01 c rules base ops (run_typed (world0 c base rules (fun _ => [])) ops) = true.
Proof.
  intros Hg Hiv Hfl Hne. unfold ok_c01.
  assert (Hstep : forall w gh x, geom_ok (w_cfg w) -> iv (c_total (w_cfg w)) <= w_now w -> world_rel w gh ->
     (w_cfg w = c /\ (forall res, statics (w_flow w res) (rules res)) /\ (forall res, w_iso w res = [])) ->
     no_extra x = true ->
     forall w' o, exec w x = (w', o) ->
       chk_c01 c rules gh x o = true /\
       (w_cfg w' = c /\ (forall res, statics (w_flow w' res) (rules res)) /\ (forall res, w_iso w' res = []))).
  { intros w gh x H1 H2 H3 H4 H5 w' o Ex. eapply c01_step; eauto. }
  assert (Hrel : world_rel (world0 c base rules (fun _ => [])) (ghost0 base)).
  { apply world_rel_init. auto. }
  assert (HQ : Forall (fun x => no_extra x = true) ops).
  { apply Forall_forall. intros x Hx. rewrite forallb_forall in Hne. auto. }
  refine (ok_trace_holds _ _ _ Hstep ops (world0 c base rules (fun _ => [])) (ghost0 base) Hg Hiv Hrel _ HQ).
  split; [reflexivity|]. split; [intros; apply statics_refl | reflexivity].
Qed.
