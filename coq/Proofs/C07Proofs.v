(** C07: the reference pacer is well behaved, and the flow / hotspot throttling models
    answer every build exactly as the reference pacer prescribes. *)
From Coq Require Import ZifyBool ZifyN.
From SV Require Import Model.Base Model.F64 Model.Throttle Model.Hotspot Spec.C07Spec Spec.C07SpecExec.
Open Scope Z_scope.

(** * A. the reference pacer *)

(** the three outcomes of [pace], with the arithmetic condition of each *)
Lemma pace_cases : forall strict s t cost maxq,
  (s + cost <= t /\ pace strict s t cost maxq = (t, Some t)) \/
  (t < s + cost /\ (if strict then s + cost - t < maxq else s + cost - t <= maxq) /\
   pace strict s t cost maxq = (s + cost, Some (s + cost))) \/
  (t < s + cost /\ (if strict then maxq <= s + cost - t else maxq < s + cost - t) /\
   pace strict s t cost maxq = (s, None)).
Proof.
  intros strict s t cost maxq. unfold pace. cbv zeta.
  destruct (s + cost <=? t) eqn:E1.
  - left. split; [lia | reflexivity].
  - right. destruct strict.
    + destruct (s + cost - t <? maxq) eqn:E2.
      * left. split; [lia | split; [lia | reflexivity]].
      * right. split; [lia | split; [lia | reflexivity]].
    + destruct (s + cost - t <=? maxq) eqn:E2.
      * left. split; [lia | split; [lia | reflexivity]].
      * right. split; [lia | split; [lia | reflexivity]].
Qed.

Lemma pace_spaced : forall strict maxq l s,
  spaced s (admissions l (pace_run strict maxq s l)).
Proof.
  intros strict maxq l. induction l as [|[t cost] tl IH]; intros s.
  - cbn [pace_run admissions spaced]. exact I.
  - cbn [pace_run].
    destruct (pace_cases strict s t cost maxq) as [[H1 H2]|[[H1 [H2 H3]]|[H1 [H2 H3]]]].
    + rewrite H2. cbn [admissions spaced]. split; [lia | apply IH].
    + rewrite H3. cbn [admissions spaced]. split; [lia | apply IH].
    + rewrite H3. cbn [admissions spaced]. apply IH.
Qed.

Lemma pace_queue_bound : forall strict s t cost maxq s' sch,
  pace strict s t cost maxq = (s', Some sch) ->
  s' = sch /\ s + cost <= sch /\
  (sch = t \/ (t < sch /\ sch = s + cost /\ (if strict then sch - t < maxq else sch - t <= maxq))).
Proof.
  intros strict s t cost maxq s' sch H.
  destruct (pace_cases strict s t cost maxq) as [[H1 H2]|[[H1 [H2 H3]]|[H1 [H2 H3]]]].
  - rewrite H2 in H. injection H as Hs Hsch. subst s' sch.
    split; [reflexivity | split; [lia | left; reflexivity]].
  - rewrite H3 in H. injection H as Hs Hsch. subst s' sch.
    split; [reflexivity | split; [lia | right]].
    split; [lia | split; [reflexivity | exact H2]].
  - rewrite H3 in H. discriminate H.
Qed.

Lemma pace_reject_iff : forall strict s t cost maxq,
  (exists s', pace strict s t cost maxq = (s', None)) <->
  (t < s + cost /\ (if strict then maxq <= s + cost - t else maxq < s + cost - t)).
Proof.
  intros strict s t cost maxq.
  destruct (pace_cases strict s t cost maxq) as [[H1 H2]|[[H1 [H2 H3]]|[H1 [H2 H3]]]].
  - rewrite H2. split.
    + intros [s' H]. discriminate H.
    + intros [H _]. lia.
  - rewrite H3. split.
    + intros [s' H]. discriminate H.
    + intros [_ H]. destruct strict; lia.
  - rewrite H3. split.
    + intros _. split; assumption.
    + intros _. exists s. reflexivity.
Qed.

Lemma pace_reject_keeps_state : forall strict s t cost maxq s',
  pace strict s t cost maxq = (s', None) -> s' = s.
Proof.
  intros strict s t cost maxq s' H.
  destruct (pace_cases strict s t cost maxq) as [[H1 H2]|[[H1 [H2 H3]]|[H1 [H2 H3]]]].
  - rewrite H2 in H. discriminate H.
  - rewrite H3 in H. discriminate H.
  - rewrite H3 in H. injection H as Hs. symmetry. exact Hs.
Qed.

(** * B. the models refine the reference *)
Definition has_panic (l : list tobs) : bool :=
  existsb (fun o => match o with TOPanic => true | _ => false end) l.

(** ** flow throttling *)

(** one build against a single controller *)
Lemma texec_TB_single : forall r s now n,
  texec (mkTW now [(r, s)]) (TB n) =
  match Throttle.throttle_check r s now n with
  | (s', TPass) => (mkTW now [(r, s')], TOAdmit now)
  | (s', TWait ns) => (mkTW (now + ns) [(r, s')], TOAdmit (now + ns))
  | (s', TBlock named) => (mkTW now [(r, s')], TOBlock (if named then t_id r else 0%N) now)
  | (s', TOverflow) => (mkTW now [(r, s)], TOPanic)
  end.
Proof.
  intros r s now n. unfold texec. cbn [tw_ctls tw_now tslot].
  destruct (Throttle.throttle_check r s now n) as [s' [| named | ns |]]; reflexivity.
Qed.

Theorem c07_flow_holds : forall r ops s now,
  has_panic (trun (mkTW now [(r, s)]) ops) = false ->
  ok_c07_flow r s now ops (trun (mkTW now [(r, s)]) ops) = true.
Proof.
  intros r ops. induction ops as [|x ops IH]; intros s now Hp.
  - reflexivity.
  - destruct x as [n | dt].
    + (* a build *)
      cbn [trun] in Hp |- *. rewrite texec_TB_single in Hp |- *.
      unfold Throttle.throttle_check in Hp |- *. cbn [ok_c07_flow].
      destruct (n =? 0)%N eqn:En.
      { cbn [has_panic existsb orb] in Hp. rewrite Z.eqb_refl. cbn [andb].
        apply IH. exact Hp. }
      destruct (fle (t_thr r) (f64_of_Z 0)) eqn:Ele.
      { cbn [has_panic existsb orb] in Hp. cbn [orb]. rewrite Z.eqb_refl. cbn [andb].
        apply IH. exact Hp. }
      destruct (flt (t_thr r) (f64_of_N n)) eqn:Elt.
      { cbn [has_panic existsb orb] in Hp. cbn [orb]. rewrite Z.eqb_refl. cbn [andb].
        apply IH. exact Hp. }
      cbn [orb]. cbv zeta in Hp |- *.
      destruct (negb (in_i64 (s + interval_ns r n))) eqn:Eov.
      { cbn [has_panic existsb orb] in Hp. discriminate Hp. }
      destruct (pace_cases false s now (interval_ns r n) (maxq_ns r))
        as [[H1 H2]|[[H1 [H2 H3]]|[H1 [H2 H3]]]].
      * (* on time *)
        rewrite H2.
        destruct (s + interval_ns r n <=? now) eqn:E1; [| lia].
        cbn [has_panic existsb orb] in Hp. rewrite Z.eqb_refl. cbn [andb].
        apply IH. exact Hp.
      * (* queued: the caller is held until the scheduled time *)
        rewrite H3.
        destruct (s + interval_ns r n <=? now) eqn:E1; [lia |].
        destruct (maxq_ns r <? s + interval_ns r n - now) eqn:E2; [lia |].
        destruct (0 <? s + interval_ns r n - now) eqn:E3; [| lia].
        replace (now + (s + interval_ns r n - now)) with (s + interval_ns r n) in Hp |- * by lia.
        cbn [has_panic existsb orb] in Hp. rewrite Z.eqb_refl. cbn [andb].
        apply IH. exact Hp.
      * (* rejected *)
        rewrite H3.
        destruct (s + interval_ns r n <=? now) eqn:E1; [lia |].
        destruct (maxq_ns r <? s + interval_ns r n - now) eqn:E2; [| lia].
        cbn [has_panic existsb orb] in Hp. rewrite Z.eqb_refl, N.eqb_refl. cbn [andb].
        apply IH. exact Hp.
    + (* the clock advances *)
      cbn [trun texec tw_now tw_ctls] in Hp |- *. cbn [ok_c07_flow].
      cbn [has_panic existsb orb] in Hp.
      apply IH. exact Hp.
Qed.

(** ** hotspot throttling *)

(** the concurrency bookkeeping leaves a throttling controller alone *)
Lemma conc_adjust_throttle : forall up c args att,
  h_kind (hc_rule c) = HThrottle -> conc_adjust up c args att = c.
Proof.
  intros up c args att Hk. unfold conc_adjust. rewrite Hk. reflexivity.
Qed.

Lemma fset_pointwise : forall (st st' : fmap) k x,
  (forall v, st v = st' v) -> forall v, fset st k x v = fset st' k x v.
Proof.
  intros st st' k x H v. unfold fset. rewrite H. reflexivity.
Qed.

(** the state of the specification is only required to agree pointwise with the
    controller's map (no function extensionality) *)
Lemma c07_hot_gen : forall r ops c st now open,
  hc_rule c = r -> h_kind r = HThrottle -> (forall v, st v = hc_time c v) ->
  ok_c07_hot r st now ops (hrun (mkHW now [c] open) ops) = true.
Proof.
  intros r ops. induction ops as [|x ops IH]; intros c st now open Hr Hk Hst.
  - reflexivity.
  - assert (Hkc : h_kind (hc_rule c) = HThrottle) by (rewrite Hr; exact Hk).
    destruct x as [id args att n | id | dt].
    + (* a build *)
      cbn [hrun]. unfold hexec. cbn [hw_ctls hw_now hw_open hslot]. rewrite Hr.
      destruct (extract r args att) as [v|] eqn:Eex.
      * unfold perform. rewrite Hr, Hk. unfold Hotspot.throttle_check. rewrite Hr. cbv zeta.
        destruct (thr_of r v =? 0)%N eqn:Eq.
        { (* threshold 0: blocked *)
          cbn [ok_c07_hot]. rewrite Eex, Eq, !N.eqb_refl. cbn [andb].
          apply IH; assumption. }
        destruct (hc_time c v) as [last|] eqn:Et.
        2:{ (* first request of this value *)
          cbn [map]. rewrite conc_adjust_throttle by (cbn [hc_rule]; exact Hk).
          cbn [ok_c07_hot]. rewrite Eex, Eq, (Hst v), Et, N.eqb_refl. cbn [andb].
          apply IH; [reflexivity | exact Hk |].
          cbn [hc_time]. apply fset_pointwise. exact Hst. }
        set (cost := throttle_cost r (thr_of r v) n).
        destruct (pace_cases true (Z.of_N last) (Z.of_N now) (Z.of_N cost) (Z.of_N (h_maxq r)))
          as [[H1 H2]|[[H1 [H2 H3]]|[H1 [H2 H3]]]].
        -- (* on time *)
           destruct (last + cost <=? now)%N eqn:E1; [| lia]. cbn [orb].
           destruct (now <? last + cost)%N eqn:E2; [lia |].
           cbn [map]. rewrite conc_adjust_throttle by (cbn [hc_rule]; exact Hk).
           cbn [ok_c07_hot]. rewrite Eex, Eq, (Hst v), Et. fold cost. rewrite H2.
           rewrite Z.eqb_refl, N2Z.id. cbn [andb].
           apply IH; [reflexivity | exact Hk |].
           cbn [hc_time]. apply fset_pointwise. exact Hst.
        -- (* queued: the caller is held until the scheduled time *)
           destruct (last + cost <=? now)%N eqn:E1; [lia |]. cbn [orb].
           destruct (last + cost - now <? h_maxq r)%N eqn:E3; [| lia].
           destruct (now <? last + cost)%N eqn:E2; [| lia].
           replace (now + (last + cost - now))%N with (last + cost)%N by lia.
           cbn [map]. rewrite conc_adjust_throttle by (cbn [hc_rule]; exact Hk).
           cbn [ok_c07_hot]. rewrite Eex, Eq, (Hst v), Et. fold cost. rewrite H3.
           replace (Z.of_N last + Z.of_N cost) with (Z.of_N (last + cost)) by lia.
           rewrite Z.eqb_refl, N2Z.id. cbn [andb].
           apply IH; [reflexivity | exact Hk |].
           cbn [hc_time]. apply fset_pointwise. exact Hst.
        -- (* rejected *)
           destruct (last + cost <=? now)%N eqn:E1; [lia |]. cbn [orb].
           destruct (last + cost - now <? h_maxq r)%N eqn:E3; [lia |].
           cbn [ok_c07_hot]. rewrite Eex, Eq, (Hst v), Et. fold cost. rewrite H3.
           rewrite !N.eqb_refl. cbn [andb].
           apply IH; assumption.
      * (* the rule does not apply to this call *)
        cbn [map]. rewrite conc_adjust_throttle by exact Hkc.
        cbn [ok_c07_hot]. rewrite Eex, N.eqb_refl. cbn [andb].
        apply IH; assumption.
    + (* an exit *)
      cbn [hrun]. unfold hexec. cbn [hw_ctls hw_now hw_open].
      destruct (find_hentry id open) as [[e rest]|] eqn:Ef.
      * cbn [map]. rewrite conc_adjust_throttle by exact Hkc.
        cbn [ok_c07_hot]. apply IH; assumption.
      * cbn [ok_c07_hot]. apply IH; assumption.
    + (* the clock advances *)
      cbn [hrun hexec hw_ctls hw_now hw_open]. cbn [ok_c07_hot].
      apply IH; assumption.
Qed.

Theorem c07_hot_holds : forall r ops c now open,
  hc_rule c = r -> h_kind r = HThrottle ->
  ok_c07_hot r (hc_time c) now ops (hrun (mkHW now [c] open) ops) = true.
Proof.
  intros r ops c now open Hr Hk.
  apply c07_hot_gen; [exact Hr | exact Hk | reflexivity].
Qed.
